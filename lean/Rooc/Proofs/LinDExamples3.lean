/-
The definedness clause of the contract cannot be dropped, even with finite literals (finding, real code):
`linearize_extreme` prunes a dominated operand WITHOUT lowering it, so a division by zero inside it is never
reported.  `min y s.t. c: y ≥ max{10, 0 * (x / 0)}`.
-/
import Rooc.Proofs.LinDExamples

set_option linter.unusedSectionVars false
set_option linter.unusedSimpArgs false
set_option linter.unusedVariables false

namespace Rooc.LinP
open Rooc Rooc.Lin Rooc.Sem Rooc.Exp
open Rooc.Lin.Gadget (B01)

variable {K : Type} [Field K] [LinearOrder K] [IsStrictOrderedRing K] [FloorRing K]

/-- `0 * (x / 0)`: no value at any assignment; its box is `[0, 0]`. -/
def exPrBad : Exp (Ext K) := .bin .mul (.num (.fin 0)) (.bin .div (.var "x") (.num (.fin 0)))
def exPrMax : Exp (Ext K) := .max [.num (.fin 10), exPrBad]

def exPrC : Constraint (Ext K) :=
  { name := "c", lhs := .var "y", cmp := .ge, rhs := exPrMax, isAssert := false }

def exPr : Model (Ext K) :=
  { optType := .min, objective := .var "y", constraints := [exPrC],
    domain := [{ name := "x", ty := .real .ninf .pinf, usage := 1 }, { name := "y", ty := .real .ninf .pinf, usage := 1 }] }

theorem exPr_norm_max : normalizeExp (exPrMax : Exp (Ext K)) = some exPrMax := by
  simp [exPrMax, exPrBad, normalizeExp, flattenFuel, flattenF, simplify, mulCore, divCore, isNumEq, mayBeUndefined,
    allNums, Arith.eq, Ext.eq, isNonzeroLit, Arith.zero, Arith.ne]

theorem exPr_norm_sub : normalizeExp (.bin .sub (.var "y") exPrMax : Exp (Ext K))
    = some (.bin .sub (.var "y") exPrMax) := by
  simp [exPrMax, exPrBad, normalizeExp, flattenFuel, flattenF, simplify, mulCore, divCore, subCore, isNumEq,
    mayBeUndefined, allNums, Arith.eq, Ext.eq, isNonzeroLit, Arith.zero, Arith.ne]

theorem exPr_flags (bm : BoundsMap (Ext K)) :
    retainedFlags .max (boundsOfList bm [.num (.fin 10), (exPrBad : Exp (Ext K))]) = [true, false] := by
  have h10 : ¬ ((10:K) ≤ 0) := by norm_num
  have h0 : (0:K) ≤ 10 := by norm_num
  have h10' : ¬ ((10:K) = 0) := by norm_num
  simp [exPrBad, boundsOfList, boundsOf, Lin.Bounds.scale, Lin.Bounds.singleton, retainedFlags, List.range,
    List.range.loop, Arith.eq, Ext.eq, Arith.zero, Arith.ge, Arith.le, Ext.le, h10, h0, h10']

/-- the undefined operand is pruned: `max{10, 0 * (x / 0)}` is lowered to the constant `10`. -/
theorem exPr_lin_max (req : Req) (s : St (Ext K)) :
    linExp (exPrMax : Exp (Ext K)) req s = .ok (Ctx.fromRhs (Ext.fin 10), s) := by
  rw [exPrMax, linExp]
  unfold linExtreme
  simp only [List.isEmpty_cons, Bool.false_eq_true, if_false, bind_ok, get_ok]
  refine ⟨s, s, rfl, ?_⟩
  simp only [exPr_flags]
  simp [linFirstFlagged, linExp, pure_ok]

def exPrRow : MidRow (Ext K) := { name := "c", lhs := [("y", Ext.fin 1)], rhs := Ext.fin 10, cmp := .ge }

theorem exPr_proc (s : St (Ext K)) (hy : isBoolVar s.domain "y" = false) :
    processConstraint (exPrC : Constraint (Ext K)) s = .ok ((), addRow s exPrRow) := by
  unfold processConstraint exPrC
  simp only [bind_ok, simplifyFlat_ok]
  refine ⟨_, _, ⟨_, exAbs_norm_var "y", rfl⟩, _, _, ⟨_, exPr_norm_max, rfl⟩, ?_⟩
  simp only [Bool.false_eq_true, if_false]
  unfold dispatch
  simp only [bind_ok, get_ok]
  refine ⟨s, s, rfl, ?_⟩
  have : tryNormalize s.domain (.var "y" : Exp (Ext K)) .ge exPrMax = none := by
    simp [tryNormalize, isLogicValue, exPrMax, hy]
  simp only [this]
  rw [emitConstraint_ok]
  refine ⟨_, (Ctx.fromVar "y" Arith.one).mergeSub (Ctx.fromRhs (Ext.fin 10)), s, exPr_norm_sub, ?_, ?_⟩
  · rw [linExp]
    simp only [bind_ok, pure_ok]
    exact ⟨_, s, by simp [linExp, pure_ok], _, s, exPr_lin_max _ s, rfl⟩
  · simp [addRow, exPrRow, Ctx.mergeSub, fromVar_eq, Ctx.fromRhs, Ctx.addRhs, Ctx.new, Ctx.addVar, Ext.neg,
      Ext.add, Arith.neg, Arith.add, Arith.zero]

noncomputable def exPrLM : LinModel (Ext K) :=
  assemble exPr (Ctx.fromVar "y" Arith.one)
    { queue := [], rows := [exPrRow], domain := (exPr : Model (Ext K)).domain, bounds := [] }

theorem exPr_ok : linearizeWith (exPr : Model (Ext K)) [] (exPr : Model (Ext K)).domain = .ok exPrLM := by
  let s0 : St (Ext K) := { queue := (exPr : Model (Ext K)).constraints, domain := (exPr : Model (Ext K)).domain, bounds := [] }
  have hy : isBoolVar s0.domain "y" = false := by simp [s0, exPr, isBoolVar, domainType]
  have hproc := exPr_proc { s0 with queue := [] } hy
  have hdrain : drain drainFuel s0 = .ok ((), addRow { s0 with queue := [] } exPrRow) := by
    have h1 : drainFuel = 999998 + 1 + 1 := rfl
    rw [h1]
    apply drain_cons _ s0 _ _ [] rfl hproc
    exact drain_nil _ _ rfl
  exact (linearizeWith_ok_iff _ _ _ _).mpr ⟨.var "y", s0, Ctx.fromVar "y" Arith.one, s0, _,
    by simp [simplifyFlat_ok, exAbs_norm_var, exPr, s0], by simp [linExp, pure_ok], hdrain, rfl⟩

theorem exPr_linFeasible : linFeasible (exPrLM : LinModel (Ext K)) (fun _ => 10) = true := by
  simp [exPrLM, assemble, linFeasible, exPrRow, exPr, dedupNames, sortStr, insertSortedDup,
    extractCoeffs, rowHolds, dotK, cmpK, inDomain, geExt, leExt, indexOf, indexOf.go]

theorem exPr_not_srcFeasible (ρ : String → K) : ¬ srcFeasible (exPr : Model (Ext K)) ρ = true := by
  intro h
  have := ((srcFeasible_iff _ _).mp h).1 exPrC (by simp [exPr])
  simp [constraintHolds, exPrC, exPrMax, exPrBad, eval, evalList, binVal] at this

/-- **the definedness clause cannot be dropped, even with finite literals**: every clause of the contract but
`DefOn` holds, `DomRel` and `BoxEnforced` hold, the model compiles, the linear model is feasible (`y = 10`) and
the source model is not (its constraint has no value at any assignment). -/
theorem defined_needed_pruned :
    ∃ (m : Model (Ext K)) (b : BoundsMap (Ext K)) (d : List (DomVar (Ext K))) (lm : LinModel (Ext K))
      (ρ : String → K),
      linearizeWith m b d = .ok lm ∧ DomRel m d ∧ BoxEnforced b d ∧
      (∀ c ∈ m.constraints, (∀ y, (y ∈ varsOf c.lhs ∨ y ∈ varsOf c.rhs) → inScope d y) ∧ FinE c.lhs ∧ FinE c.rhs ∧
        NCon d c.lhs ∧ NCon d c.rhs ∧ DefOn d c.lhs) ∧
      GoodE d m.objective ∧
      linFeasible lm ρ = true ∧ ∀ ρ' : String → K, ¬ srcFeasible m ρ' = true := by
  have sx : inScope (exPr : Model (Ext K)).domain "x" :=
    ⟨{ name := "x", ty := .real .ninf .pinf, usage := 1 }, by simp [exPr], rfl, by simp⟩
  have sy : inScope (exPr : Model (Ext K)).domain "y" :=
    ⟨{ name := "y", ty := .real .ninf .pinf, usage := 1 }, by simp [exPr], rfl, by simp⟩
  refine ⟨exPr, [], exPr.domain, exPrLM, fun _ => 10, exPr_ok,
    ⟨by simp [exPr], fun _ h => h, fun ρ h => ((srcFeasible_iff _ ρ).mp h).2, fun dv hdv hu => ⟨dv, hdv, rfl, hu⟩⟩,
    by intro ρ _ n bd _ hl; simp [lookupB] at hl, ?_, ?_, exPr_linFeasible, exPr_not_srcFeasible⟩
  · intro c hc
    simp only [exPr, List.mem_singleton] at hc
    subst hc
    refine ⟨?_, by simp [FinE, exPrC, finiteLits], by simp [FinE, exPrC, exPrMax, exPrBad, finiteLits, finiteLitsL, isFin],
      fun ρ _ => by simp [exPrC, NC], fun ρ _ => by simp [exPrC, exPrMax, exPrBad, NC, NCList],
      fun ρ _ => ⟨ρ "y", by simp [exPrC, eval]⟩⟩
    intro y hy
    simp [exPrC, exPrMax, exPrBad, varsOf, varsOfList] at hy
    rcases hy with rfl | rfl; exacts [sy, sx]
  · exact ⟨by intro y hy; simp [exPr, varsOf] at hy; subst hy; exact sy, by simp [FinE, exPr, finiteLits],
      fun ρ _ => by simp [exPr, NC], fun ρ _ => ⟨ρ "y", by simp [exPr, eval]⟩⟩

end Rooc.LinP
