/-
The definedness clause of the contract cannot be dropped, even with finite literals (finding, real code):
`linearize_extreme` prunes a dominated operand WITHOUT lowering it, so a division by zero inside it is never
reported.  `min y s.t. c: y ≥ max{10, 0 * (x / 0)}`.
-/
import Rooc.Proofs.LinDExamples

set_option linter.unusedSectionVars false
set_option linter.unusedSimpArgs false
set_option linter.unusedVariables false

namespace Rooc.LinP
open Rooc Rooc.Lin Rooc.Sem Rooc.Exp
open Rooc.Lin.Gadget (B01)

variable {K : Type} [Field K] [LinearOrder K] [IsStrictOrderedRing K] [FloorRing K]

/-- `0 * (x / 0)`: no value at any assignment; its box is `[0, 0]`. -/
def exPrBad : Exp (Ext K) := .bin .mul (.num (.fin 0)) (.bin .div (.var "x") (.num (.fin 0)))
def exPrMax : Exp (Ext K) := .max [.num (.fin 10), exPrBad]

def exPrC : Constraint (Ext K) :=
  { name := "c", lhs := .var "y", cmp := .ge, rhs := exPrMax, isAssert := false }

def exPr : Model (Ext K) :=
  { optType := .min, objective := .var "y", constraints := [exPrC],
    domain := [{ name := "x", ty := .real .ninf .pinf, usage := 1 }, { name := "y", ty := .real .ninf .pinf, usage := 1 }] }

theorem exPr_norm_max : normalizeExp (exPrMax : Exp (Ext K)) = some exPrMax := by
  simp [exPrMax, exPrBad, normalizeExp, flattenFuel, flattenF, simplify, mulCore, divCore, isNumEq, mayBeUndefined,
    allNums, Arith.eq, Ext.eq, isNonzeroLit, Arith.zero, Arith.ne]

theorem exPr_norm_sub : normalizeExp (.bin .sub (.var "y") exPrMax : Exp (Ext K))
    = some (.bin .sub (.var "y") exPrMax) := by
  simp [exPrMax, exPrBad, normalizeExp, flattenFuel, flattenF, simplify, mulCore, divCore, subCore, isNumEq,
    mayBeUndefined, allNums, Arith.eq, Ext.eq, isNonzeroLit, Arith.zero, Arith.ne]

theorem exPr_flags0 (bm : BoundsMap (Ext K)) :
    retainedFlags .max (boundsOfList bm [.num (.fin 10), (exPrBad : Exp (Ext K))]) = [true, false] := by
  have h10 : ¬ ((10:K) ≤ 0) := by norm_num
  have h0 : (0:K) ≤ 10 := by norm_num
  have h10' : ¬ ((10:K) = 0) := by norm_num
  simp [exPrBad, boundsOfList, boundsOf, Lin.Bounds.scale, Lin.Bounds.singleton, retainedFlags, List.range,
    List.range.loop, Arith.eq, Ext.eq, Arith.zero, Arith.ge, Arith.le, Ext.le, h10, h0, h10']

/-- dominated, but possibly undefined: retained (fix 46b0121). -/
theorem exPr_flags (bm : BoundsMap (Ext K)) :
    retainedFlagsE .max [.num (.fin 10), (exPrBad : Exp (Ext K))]
      (boundsOfList bm [.num (.fin 10), (exPrBad : Exp (Ext K))]) = [true, true] := by
  rw [retainedFlagsE, exPr_flags0]
  simp [exPrBad, mayBeUndefined, isNonzeroLit, Arith.ne, Arith.eq, Ext.eq, Arith.zero]

theorem exPrBad_linExp (req : Req) (s : St (Ext K)) :
    linExp (exPrBad : Exp (Ext K)) req s = .error .divisionByZero := exUndefDivL_linExp req s

/-- since fix 46b0121 the possibly undefined operand is retained, lowered, and its division by zero reported. -/
theorem exPr_lin_max (s : St (Ext K))
    (hfresh : (toString "$" ++ toString ExtKind.max.name ++ toString "_" ++ toString s.maxCount) ∉ s.domain.map (·.name)) :
    linExp (exPrMax : Exp (Ext K)) .lower s = .error .divisionByZero := by
  rw [exPrMax, linExp]
  unfold linExtreme
  simp only [List.isEmpty_cons, Bool.false_eq_true, if_false]
  rw [bind_err]
  right
  refine ⟨s, s, rfl, ?_⟩
  simp only [exPr_flags]
  simp only [List.filter_cons, id_eq, if_true, List.filter_nil, List.length_cons, List.length_nil]
  norm_num
  rw [bind_err]
  right
  refine ⟨⟨⟩, _, rfl, ?_⟩
  rw [bind_err]
  right
  refine ⟨⟨⟩, _, (declareVariable_ok _ _ _ _).mpr ⟨hfresh, rfl⟩, ?_⟩
  rw [bind_err]
  left
  rw [linFlagged]
  simp only [if_true]
  rw [bind_err]
  right
  refine ⟨Ctx.fromRhs (Ext.fin 10), _, by rw [linExp]; rfl, ?_⟩
  rw [bind_err]
  left
  rw [linFlagged]
  simp only [if_true]
  rw [bind_err]
  left
  exact exPrBad_linExp _ _

theorem exPr_proc (s : St (Ext K)) (hy : isBoolVar s.domain "y" = false)
    (hfresh : (toString "$" ++ toString ExtKind.max.name ++ toString "_" ++ toString s.maxCount) ∉ s.domain.map (·.name)) :
    processConstraint (exPrC : Constraint (Ext K)) s = .error .divisionByZero := by
  unfold processConstraint
  rw [bind_err]
  right
  refine ⟨.var "y", s, (simplifyFlat_ok _ _ _).mpr ⟨_, exAbs_norm_var "y", rfl⟩, ?_⟩
  rw [bind_err]
  right
  refine ⟨exPrMax, s, (simplifyFlat_ok _ _ _).mpr ⟨_, exPr_norm_max, rfl⟩, ?_⟩
  show dispatch "c" (.var "y") .ge exPrMax s = _
  unfold dispatch
  rw [bind_err]
  right
  refine ⟨s, s, rfl, ?_⟩
  have : tryNormalize s.domain (.var "y" : Exp (Ext K)) .ge exPrMax = none := by
    simp [tryNormalize, isLogicValue, exPrMax, hy]
  simp only [this]
  unfold emitConstraint
  simp only [exPr_norm_sub]
  rw [bind_err]
  left
  rw [linExp, bind_err]
  right
  refine ⟨Ctx.fromVar "y" Arith.one, s, by rw [linExp]; rfl, ?_⟩
  rw [bind_err]
  left
  exact exPr_lin_max s hfresh

/-- **regression for the repaired finding** (rooc 46b0121): `min y s.t. y ≥ max{10, 0 * (x / 0)}` — every literal
finite, the operand `0 * (x / 0)` dominated by `10` — used to compile to `y ≥ 10`; the operand is now retained
and the compilation is rejected with `divisionByZero`. -/
theorem exPr_error :
    linearizeWith (exPr : Model (Ext K)) [] (exPr : Model (Ext K)).domain = .error .divisionByZero := by
  let s0 : St (Ext K) := { queue := (exPr : Model (Ext K)).constraints, domain := (exPr : Model (Ext K)).domain, bounds := [] }
  have hy : isBoolVar s0.domain "y" = false := by simp [s0, exPr, isBoolVar, domainType]
  have hfresh : (toString "$" ++ toString ExtKind.max.name ++ toString "_" ++ toString ({ s0 with queue := [] } : St (Ext K)).maxCount)
      ∉ ({ s0 with queue := [] } : St (Ext K)).domain.map (·.name) := by
    simp [s0, exPr, ExtKind.name]; decide
  have hdrain : drain drainFuel s0 = .error .divisionByZero := by
    have h1 : drainFuel = 999999 + 1 := rfl
    rw [h1, drain_succ, bind_err]
    right
    refine ⟨s0, s0, rfl, ?_⟩
    show (do set { s0 with queue := [] }; processConstraint exPrC; drain 999999 : M (Ext K) Unit) s0 = _
    rw [bind_err]
    right
    refine ⟨⟨⟩, _, rfl, ?_⟩
    rw [bind_err]
    left
    exact exPr_proc _ hy hfresh
  exact linearizeWith_error_of_drain (o := .var "y") (c := Ctx.fromVar "y" Arith.one) (s1 := s0)
    ((simplifyFlat_ok _ _ _).mpr ⟨_, by simpa [exPr] using exAbs_norm_var (K := K) "y", rfl⟩)
    (by rw [linExp]; rfl) hdrain

end Rooc.LinP
