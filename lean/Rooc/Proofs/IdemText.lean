/- Idempotence of the expression printer on the printed TEXT. -/
import Rooc.Proofs.Idem
import Rooc.Proofs.LexFormat
namespace Rooc.Syntax.Proofs
open Rooc Rooc.Syntax Rooc.Syntax.Doc

/-- operand text as the printer writes it under an operator of precedence `q` -/
def WS (q : Nat) (e : PExp) : String := wrapPrec q e (fmtExp e)

theorem fmtExp_bin (p : BinOp) (l r : PExp) :
    fmtExp (.bin p l r) = WS (Gen.binPrec p) l ++ " " ++ binOpText p ++ " " ++ WS (Gen.binPrec p) r := by
  simp [fmtExp, WS]

theorem WS_congr {q : Nat} {e e' : PExp} (ht : topPrecO e = topPrecO e') (hf : fmtExp e = fmtExp e') :
    WS q e = WS q e' := by
  simp [WS, wrapPrec_eq, printsParen_eq, ht, hf]

theorem WS_bare {q : Nat} {e : PExp} (h : topPrecO e = some q) : WS q e = fmtExp e := by
  simp [WS, wrapPrec_eq, printsParen_eq, h]

/-- `join` prints the same text as the unnormalised `L p R` -/
theorem join_text (p : BinOp) (L R : PExp) : fmtExp (join p L R) = fmtExp (.bin p L R) := by
  fun_induction join p L R with
  | case1 p R c l1 l2 h ih =>
    have hc := (dropL_bin h).2
    have hbare : WS (Gen.binPrec p) (.bin c l1 l2) = fmtExp (.bin c l1 l2) := WS_bare (by simp [topPrecO, hc])
    have hj : WS (Gen.binPrec c) (join p l2 R) = fmtExp (join p l2 R) := WS_bare (by rw [join_top, hc])
    have hop : binOpText c = "implies" := by rw [(dropL_bin h).1]; rfl
    rw [fmtExp_bin c, hj, ih, fmtExp_bin p l2 R, fmtExp_bin p (.bin c l1 l2) R, hbare, fmtExp_bin c l1 l2, hc]
    simp [String.append_assoc]
  | case2 p L R h hn => exact absurd h (by simp [dropL_nonbin hn])
  | case3 p L hl c r1 r2 h ih1 ih2 =>
    have hc := dropR_bin h
    have hbare : WS (Gen.binPrec p) (.bin c r1 r2) = fmtExp (.bin c r1 r2) := WS_bare (by simp [topPrecO, hc])
    have hj : WS (Gen.binPrec c) (join p L r1) = fmtExp (join p L r1) := WS_bare (by rw [join_top, hc])
    rw [ih2, fmtExp_bin c (join p L r1) r2, hj, ih1, fmtExp_bin p L r1, fmtExp_bin p L (.bin c r1 r2), hbare,
      fmtExp_bin c r1 r2, hc]
    simp [String.append_assoc]
  | case4 p L R hl h hn => exact absurd h (by simp [dropR_nonbin hn])
  | case5 p L R hl hr => rfl

theorem callText_plain {n : String} (hn : n ≠ "range") (args : List PExp) (ss : List String) :
    callText n args ss = n ++ "(" ++ joinWith ", " ss ++ ")" := by
  unfold callText; split
  · exact absurd rfl hn
  · rfl

mutual
theorem norm_text : (t : PExp) → TextOK t → fmtExp (norm t) = fmtExp t
  | .bin p l r, h => by
    rw [norm, join_text, fmtExp_bin, fmtExp_bin,
      WS_congr (norm_top l) (norm_text l h.1), WS_congr (norm_top r) (norm_text r h.2)]
  | .un u e, h => by
    simp only [norm, fmtExp, wrapLeaf, norm_isLeaf, norm_text e h]
  | .call n args, h => by
    simp only [norm, fmtExp, callText_plain h.2.1, normList_text args h.2.2]
  | .int _, _ | .num _, _ | .bool _, _ | .var _, _ => by simp [norm]
  | .str _, h | .prim _, h | .cvar _ _, h | .access _ _, h | .block _ _, h | .scoped _ _ _ _, h => by simp [TextOK] at h
theorem normList_text : (as : List PExp) → TextOK.TextOKs as → fmtList (normList as) = fmtList as
  | [], _ => by simp [normList]
  | a :: rest, h => by
    simp only [normList, fmtList, norm_text a h.1, normList_text rest h.2]
end

/-- **Idempotence on the text**: what the printer writes for ANY tree is read back (as `norm t`) and printed
as the same text again. -/
theorem fmt_idem_text (t : PExp) (h : WF t) (ht : TextOK t) :
    parseText (fmtExp t).toList = .ok (norm t) ∧ fmtExp (norm t) = fmtExp t := by
  refine ⟨?_, norm_text t ht⟩
  simp only [parseText, lex_fmtExp t ht, (fmt_idem t h).1]

end Rooc.Syntax.Proofs
