/-
Builder door ≍ text door, at the level of source models.  The text front end and `ModelBuilder::into_model` produce,
for the same expressions and declarations, models that differ ONLY in the usage counts of the declarations: the text
front end counts occurrences (a declaration that occurs nowhere keeps count 0 and is dropped by the compiler), the
builder marks every declaration once.  `TextTwin bm tm` is that relation (it is what `./check C16` observes when it
compares the two models with the usage column stripped).  Helper lemmas for `Rooc/Props/C16.lean`.
-/
import Rooc.Proofs.RefLemmas
namespace Rooc
namespace Builder
open Sem Ref
set_option linter.unusedSectionVars false
variable {K : Type} [Field K] [LinearOrder K] [IsStrictOrderedRing K] [FloorRing K]

/-- same direction, objective, constraints, declared names and types (in order); usage counts free. -/
structure TextTwin (bm tm : Model (Ext K)) : Prop where
  optType : tm.optType = bm.optType
  objective : tm.objective = bm.objective
  constraints : tm.constraints = bm.constraints
  decls : tm.domain.map (fun d => (d.name, d.ty)) = bm.domain.map (fun d => (d.name, d.ty))

theorem all_inDomain_eq {bm tm : Model (Ext K)} (h : TextTwin bm tm) (ρ : String → K) :
    (bm.domain.all fun d => inDomain (ρ d.name) d.ty) = (tm.domain.all fun d => inDomain (ρ d.name) d.ty) := by
  have e : ∀ l : List (DomVar (Ext K)), (l.all fun d => inDomain (ρ d.name) d.ty) =
      ((l.map fun d => (d.name, d.ty)).all fun p => inDomain (ρ p.1) p.2) := by
    intro l; rw [List.all_map]; rfl
  rw [e, e, h.decls]

/-- the builder's model is satisfied exactly by the assignments that satisfy the text model AND put the declarations
the text never uses inside their domains. -/
theorem srcFeasible_twin {bm tm : Model (Ext K)} (h : TextTwin bm tm) (hb : ∀ d ∈ bm.domain, d.usage > 0)
    (ρ : String → K) :
    srcFeasible bm ρ = true ↔
      (srcFeasible tm ρ = true ∧ ∀ d ∈ tm.domain, d.usage = 0 → inDomain (ρ d.name) d.ty = true) := by
  have hbm : (bm.domain.all fun d => d.usage == 0 || inDomain (ρ d.name) d.ty) =
      (bm.domain.all fun d => inDomain (ρ d.name) d.ty) := by
    apply all_congr_mem
    intro d hd
    have : (d.usage == 0) = false := by have := hb d hd; simp; omega
    simp [this]
  simp only [srcFeasible, Bool.and_eq_true, hbm, all_inDomain_eq h, h.constraints]
  constructor
  · rintro ⟨hc, hd⟩
    rw [List.all_eq_true] at hd
    refine ⟨⟨hc, ?_⟩, fun d hdm _ => hd d hdm⟩
    rw [List.all_eq_true]
    intro d hdm
    simp [hd d hdm]
  · rintro ⟨⟨hc, hd⟩, hu⟩
    refine ⟨hc, ?_⟩
    rw [List.all_eq_true] at hd ⊢
    intro d hdm
    by_cases h0 : d.usage = 0
    · exact hu d hdm h0
    · have := hd d hdm
      have h0' : (d.usage == 0) = false := by simpa using h0
      simpa [h0'] using this

/-- overwrite the names of the unused declarations by chosen values. -/
noncomputable def patch (wit : DomVar (Ext K) → K) : List (DomVar (Ext K)) → (String → K) → String → K
  | [], ρ => ρ
  | d :: ds, ρ => if d.usage = 0 then Function.update (patch wit ds ρ) d.name (wit d) else patch wit ds ρ

theorem patch_other (wit : DomVar (Ext K) → K) : ∀ (ds : List (DomVar (Ext K))) (ρ : String → K) (s : String),
    (∀ d ∈ ds, d.usage = 0 → d.name ≠ s) → patch wit ds ρ s = ρ s
  | [], ρ, s, _ => rfl
  | d :: ds, ρ, s, h => by
    unfold patch
    have ih := patch_other wit ds ρ s (fun d' hd' => h d' (by simp [hd']))
    by_cases h0 : d.usage = 0
    · simp only [h0, if_true]
      rw [Function.update_of_ne (Ne.symm (h d (by simp) h0)), ih]
    · simp only [h0, if_false, ih]

theorem patch_unused (wit : DomVar (Ext K) → K) : ∀ (ds : List (DomVar (Ext K))) (ρ : String → K),
    (ds.map (·.name)).Nodup → ∀ d ∈ ds, d.usage = 0 → patch wit ds ρ d.name = wit d
  | [], _, _, d, hd, _ => by cases hd
  | d0 :: ds, ρ, hnd, d, hd, h0 => by
    simp only [List.map_cons, List.nodup_cons] at hnd
    unfold patch
    rcases List.mem_cons.1 hd with rfl | hd'
    · simp [h0]
    · have hne : d0.name ≠ d.name := fun he => hnd.1 (he ▸ List.mem_map.2 ⟨d, hd', rfl⟩)
      have ih := patch_unused wit ds ρ hnd.2 d hd' h0
      by_cases h00 : d0.usage = 0
      · simp only [h00, if_true]
        rw [Function.update_of_ne (Ne.symm hne), ih]
      · simp only [h00, if_false, ih]

theorem eq_of_nodup_map {β γ : Type} (f : β → γ) : ∀ {l : List β}, (l.map f).Nodup → ∀ {a b : β}, a ∈ l → b ∈ l →
    f a = f b → a = b
  | [], _, _, _, ha, _, _ => by cases ha
  | x :: l, hnd, a, b, ha, hb, he => by
    simp only [List.map_cons, List.nodup_cons] at hnd
    rcases List.mem_cons.1 ha with rfl | ha' <;> rcases List.mem_cons.1 hb with rfl | hb'
    · rfl
    · exact absurd (he ▸ List.mem_map.2 ⟨b, hb', rfl⟩) hnd.1
    · exact absurd (he ▸ List.mem_map.2 ⟨a, ha', rfl⟩) hnd.1
    · exact eq_of_nodup_map f hnd.2 ha' hb' he

theorem patch_used (wit : DomVar (Ext K) → K) (ds : List (DomVar (Ext K))) (ρ : String → K)
    (hnd : (ds.map (·.name)).Nodup) {d : DomVar (Ext K)} (hd : d ∈ ds) (hu : d.usage > 0) :
    patch wit ds ρ d.name = ρ d.name := by
  apply patch_other
  intro d' hd' h0 he
  have : d' = d := eq_of_nodup_map (·.name) hnd hd' hd he
  subst this
  omega

/-- every assignment satisfying the text model can be changed, on the never-used declarations only, into one that
satisfies the builder's model — with the same objective value. -/
theorem twin_extend {bm tm : Model (Ext K)} (h : TextTwin bm tm) (hb : ∀ d ∈ bm.domain, d.usage > 0)
    (hc : Closed tm = true) (hnd : (tm.domain.map (·.name)).Nodup)
    (hne : ∀ d ∈ tm.domain, d.usage = 0 → ∃ x : K, inDomain x d.ty = true)
    {ρ : String → K} (hf : srcFeasible tm ρ = true) :
    ∃ ρ' : String → K, srcFeasible bm ρ' = true ∧ eval ρ' bm.objective = eval ρ tm.objective ∧
      AgreeOn tm.domain ρ' ρ := by
  classical
  let wit : DomVar (Ext K) → K := fun d => if hx : ∃ x : K, inDomain x d.ty = true then hx.choose else 0
  refine ⟨patch wit tm.domain ρ, ?_, ?_, ?_⟩
  · have hag : AgreeOn tm.domain (patch wit tm.domain ρ) ρ := fun d hd hu => patch_used wit _ ρ hnd hd hu
    rw [srcFeasible_twin h hb]
    refine ⟨by rw [Ref.srcFeasible_congr hc hag]; exact hf, ?_⟩
    intro d hd h0
    rw [patch_unused wit _ ρ hnd d hd h0]
    have hx := hne d hd h0
    simp only [wit, hx, dif_pos]
    exact hx.choose_spec
  · rw [← h.objective]
    exact Ref.objective_congr hc (fun d hd hu => patch_used wit _ ρ hnd hd hu)
  · exact fun d hd hu => patch_used wit _ ρ hnd hd hu

/-- the builder's model is closed when the text model is. -/
theorem twin_closed {bm tm : Model (Ext K)} (h : TextTwin bm tm) (hb : ∀ d ∈ bm.domain, d.usage > 0)
    (hc : Closed tm = true) : Closed bm = true := by
  simp only [Closed, List.all_eq_true, List.contains_iff_mem] at hc ⊢
  intro s hs
  have hs' : s ∈ modelVars tm := by
    simpa [modelVars, h.objective, h.constraints] using hs
  obtain ⟨d, hd, _, rfl⟩ := mem_usedNames.1 (hc s hs')
  have : (d.name, d.ty) ∈ bm.domain.map (fun d => (d.name, d.ty)) := by
    rw [← h.decls]; exact List.mem_map.2 ⟨d, hd, rfl⟩
  obtain ⟨d', hd', he⟩ := List.mem_map.1 this
  exact mem_usedNames.2 ⟨d', hd', hb d' hd', (Prod.mk.inj he).1⟩

end Builder
end Rooc
