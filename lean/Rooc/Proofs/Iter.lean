/-
Proof that expanding a program of the iteration fragment equals expanding its hand-unrolled form
(`Rooc/Pre/Iter.lean`): lemmas about `mapE`, the aggregation folds, and the main induction.
-/
import Rooc.Pre.Iter
import Rooc.Proofs.Field
namespace Rooc.Proofs.Iter
set_option linter.unusedSimpArgs false
open Rooc Rooc.Pre

/-- success-part of a computation -/
abbrev O {β : Type} (x : Except IErr β) : Option β := x.toOption

@[simp] theorem O_ok {β : Type} (a : β) : O (Except.ok a : Except IErr β) = some a := rfl
@[simp] theorem O_error {β : Type} (e : IErr) : O (Except.error e : Except IErr β) = none := rfl
@[simp] theorem O_pure {β : Type} (a : β) : O (pure a : Except IErr β) = some a := rfl
@[simp] theorem ok_bind {β γ : Type} (a : β) (f : β → Except IErr γ) : (Except.ok a >>= f) = f a := rfl
@[simp] theorem error_bind {β γ : Type} (e : IErr) (f : β → Except IErr γ) : ((Except.error e : Except IErr β) >>= f) = Except.error e := rfl
@[simp] theorem pure_ok {β : Type} (a : β) : (pure a : Except IErr β) = Except.ok a := rfl
theorem O_bind {β γ : Type} (x : Except IErr β) (f : β → Except IErr γ) :
    O (x >>= f) = (O x).bind (fun a => O (f a)) := by
  cases x <;> rfl
theorem O_map {β γ : Type} (x : Except IErr β) (f : β → γ) : O (x.map f) = (O x).map f := by
  cases x <;> rfl

theorem O_mapE_cons {β γ : Type} (f : β → Except IErr γ) (a : β) (l : List β) :
    O (mapE f (a :: l)) = (O (f a)).bind (fun y => (O (mapE f l)).map (y :: ·)) := by
  simp only [mapE]
  cases f a with
  | error e => rfl
  | ok y => cases mapE f l <;> rfl

/-- `mapE` along a factorisation `k₁ = k₂ ; f` of the leaf computation -/
theorem O_mapE_comp {β γ δ : Type} (k1 : β → Except IErr γ) (k2 : β → Except IErr δ) (f : δ → Except IErr γ)
    (h : ∀ a, O (k1 a) = O (k2 a >>= f)) (l : List β) :
    O (mapE k1 l) = O (mapE k2 l >>= mapE f) := by
  induction l with
  | nil => rfl
  | cons a l ih =>
    rw [O_mapE_cons, h a, ih, O_bind, O_bind, O_bind, O_mapE_cons]
    cases hk : k2 a with
    | error e => simp
    | ok z =>
      simp only [O_ok, Option.bind_some]
      cases hl : mapE k2 l with
      | error e => cases f z <;> simp
      | ok zs =>
        -- all four steps succeed on both sides
        simp only [O_ok, Option.map_some, Option.bind_some, O_mapE_cons]
        try (cases f z <;> simp)

/-- the same, with the factorisation required on the elements of the list only -/
theorem O_mapE_comp_mem {β γ δ : Type} (k1 : β → Except IErr γ) (k2 : β → Except IErr δ) (f : δ → Except IErr γ)
    (l : List β) (h : ∀ a ∈ l, O (k1 a) = O (k2 a >>= f)) :
    O (mapE k1 l) = O (mapE k2 l >>= mapE f) := by
  induction l with
  | nil => rfl
  | cons a l ih =>
    rw [O_mapE_cons, h a (by simp), ih (fun b hb => h b (by simp [hb])), O_bind, O_bind, O_bind, O_mapE_cons]
    cases hk : k2 a with
    | error e => simp
    | ok z =>
      simp only [O_ok, Option.bind_some]
      cases hl : mapE k2 l with
      | error e => cases f z <;> simp
      | ok zs =>
        simp only [O_ok, Option.map_some, Option.bind_some, O_mapE_cons]
        try (cases f z <;> simp)

theorem mapE_ok_cons {β γ : Type} (f : β → Except IErr γ) (a : β) (l : List β) (xs : List γ) (h : mapE f (a :: l) = .ok xs) :
    ∃ y ys, f a = .ok y ∧ mapE f l = .ok ys ∧ xs = y :: ys := by
  simp only [mapE] at h
  cases hy : f a with
  | error e => simp [hy] at h
  | ok y =>
    cases hl : mapE f l with
    | error e => simp [hy, hl] at h
    | ok ys => simp [hy, hl] at h; exact ⟨y, ys, rfl, rfl, h.symm⟩

theorem O_mapE_congr {β γ : Type} (k1 k2 : β → Except IErr γ) (h : ∀ a, O (k1 a) = O (k2 a)) (l : List β) :
    O (mapE k1 l) = O (mapE k2 l) := by
  induction l with
  | nil => rfl
  | cons a l ih => rw [O_mapE_cons, O_mapE_cons, h a, ih]

section
variable {α : Type} [Arith α]

theorem expandList_eq_mapE (env : Env) (es : List ME) : (expandList env es : Except IErr (List (Exp α))) = mapE (expand env) es := by
  induction es with
  | nil => rfl
  | cons e es ih => simp only [expandList, mapE, ih]
theorem unrollList_eq_mapE (env : Env) (es : List ME) : unrollList env es = mapE (unroll env) es := by
  induction es with
  | nil => rfl
  | cons e es ih => simp only [unrollList, mapE, ih]

/-- an index: its fragment is the fragment of its unrolled (literal) form in the empty environment -/
theorem idxFrag_unroll (env : Env) (c : CE) : O (idxFrag env c) = O (unrollIdx env c >>= idxFrag []) := by
  cases c with
  | var n =>
    simp only [idxFrag, unrollIdx]
    cases env.get n <;> simp [idxFrag, Env.get, CE.eval, Except.map]
  | lit i => simp [idxFrag, unrollIdx, CE.eval, Except.map]
  | add a b => simp only [idxFrag, unrollIdx]; cases CE.eval env (.add a b) <;> simp [Except.map, idxFrag, CE.eval]
  | sub a b => simp only [idxFrag, unrollIdx]; cases CE.eval env (.sub a b) <;> simp [Except.map, idxFrag, CE.eval]
  | mul a b => simp only [idxFrag, unrollIdx]; cases CE.eval env (.mul a b) <;> simp [Except.map, idxFrag, CE.eval]

/-- the value of the explicit fold text is the fold of the values -/
theorem expand_foldRightME (op : BinOp) (hop : op = .add ∨ op = .mul) (emptyM : ME) (emptyE : Exp α)
    (hempty : (expand [] emptyM : Except IErr (Exp α)) = .ok emptyE) (ys : List ME) :
    O (expand [] (foldRightME op emptyM ys) : Except IErr (Exp α)) =
      (O (mapE (expand []) ys : Except IErr (List (Exp α)))).map (foldRight op emptyE) := by
  induction ys with
  | nil => simp [foldRightME, Rooc.Pre.foldRight, hempty, mapE]
  | cons y rest ih =>
    cases rest with
    | nil =>
      rw [O_mapE_cons]
      simp only [foldRightME, mapE, O_ok, Option.map_some]
      cases (expand [] y : Except IErr (Exp α)) <;> simp [Rooc.Pre.foldRight]
    | cons y2 rest' =>
      simp only [foldRightME, expand]
      rw [O_bind, O_mapE_cons]
      cases hy : (expand [] y : Except IErr (Exp α)) with
      | error e => simp
      | ok l =>
        simp only [O_ok, Option.bind_some]
        rw [O_bind, ih]
        cases hm : (mapE (expand []) (y2 :: rest') : Except IErr (List (Exp α))) with
        | error e => simp
        | ok xs =>
          obtain ⟨x2, xs', -, -, rfl⟩ := mapE_ok_cons _ _ _ _ hm
          rcases hop with rfl | rfl <;> simp [foldRight, mkBin]

theorem mapE_length {β γ : Type} (f : β → Except IErr γ) (l : List β) (xs : List γ) (h : mapE f l = .ok xs) : xs.length = l.length := by
  induction l generalizing xs with
  | nil => simp [mapE] at h; subst h; rfl
  | cons a l ih =>
    obtain ⟨y, ys, -, hl, rfl⟩ := mapE_ok_cons f a l xs h
    simp [ih ys hl]

/-- `aggregate`, as a computation that fails on the `abs` arity error -/
def aggE (k : AggKind) (xs : List (Exp α)) : Except IErr (Exp α) :=
  match aggregate k xs with
  | some e => pure e
  | none => .error .arity

theorem expand_blk (env : Env) (k : AggKind) (es : List ME) :
    (expand env (.blk k es) : Except IErr (Exp α)) = (mapE (expand env) es >>= aggE k) := by
  simp only [expand, expandList_eq_mapE, aggE]
  rfl

theorem expand_agg (env : Env) (k : AggKind) (its : List It) (body : ME) :
    (expand env (.agg k its body) : Except IErr (Exp α)) =
      ((envs its env >>= fun es => mapE (fun env' => expand env' body) es) >>= aggE k) := by
  simp only [expand, iterate, aggE]
  rfl

private theorem xor_foldl_error (e : IErr) : ∀ (rest : List ME) (acc : ME), (expand [] acc : Except IErr (Exp α)) = .error e →
    O (expand [] (rest.foldl (fun a e => ME.bin .xor a e) acc) : Except IErr (Exp α)) = none := by
  intro rest
  induction rest with
  | nil => intro acc h; simp [h]
  | cons z rest ih => intro acc h; simp only [List.foldl_cons]; apply ih; simp [expand, h]

private theorem xor_foldl (acc : ME) (accE : Exp α) (hacc : (expand [] acc : Except IErr (Exp α)) = .ok accE) (rest : List ME) :
    O (expand [] (rest.foldl (fun a e => ME.bin .xor a e) acc) : Except IErr (Exp α)) =
      (O (mapE (expand []) rest : Except IErr (List (Exp α)))).map (fun xs => xs.foldl (fun a e => Exp.xor a e) accE) := by
  induction rest generalizing acc accE with
  | nil => simp [hacc, mapE]
  | cons y rest ih =>
    rw [O_mapE_cons]
    simp only [List.foldl_cons]
    cases hy : (expand [] y : Except IErr (Exp α)) with
    | error e =>
      simp only [O_error, Option.bind_none, Option.map_none]
      have hstep : (expand [] (ME.bin .xor acc y) : Except IErr (Exp α)) = .error e := by simp [expand, hacc, hy]
      exact xor_foldl_error e rest _ hstep
    | ok x =>
      have hstep : (expand [] (ME.bin .xor acc y) : Except IErr (Exp α)) = .ok (.xor accE x) := by simp [expand, hacc, hy, mkBin]
      rw [ih _ _ hstep]
      cases (mapE (expand []) rest : Except IErr (List (Exp α))) <;> simp

/-- expanding the explicit text of an aggregate = aggregating the expanded operands -/
theorem expand_explicit (k : AggKind) (ys : List ME) :
    O (expand [] (explicit k ys) : Except IErr (Exp α)) = O (mapE (expand []) ys >>= aggE k) := by
  rw [O_bind]
  cases k with
  | sum =>
    simp only [explicit]
    rw [expand_foldRightME .add (Or.inl rfl) (.lit 0) (.num (Arith.ofInt 0)) (by simp [expand])]
    cases (mapE (expand []) ys : Except IErr (List (Exp α))) <;> simp [aggE, aggregate]
  | prod =>
    simp only [explicit]
    rw [expand_foldRightME .mul (Or.inr rfl) (.lit 1) (.num (Arith.ofInt 1)) (by simp [expand])]
    cases (mapE (expand []) ys : Except IErr (List (Exp α))) <;> simp [aggE, aggregate]
  | avg =>
    simp only [explicit, expand]
    rw [O_bind, expand_foldRightME .add (Or.inl rfl) (.lit 0) (.num (Arith.ofInt 0)) (by simp [expand])]
    cases hm : (mapE (expand []) ys : Except IErr (List (Exp α))) with
    | error e => simp
    | ok xs => simp [aggE, aggregate, mkBin, mapE_length _ _ _ hm]
  | xor =>
    simp only [explicit]
    cases ys with
    | nil => simp [expand, mapE, aggE, aggregate, foldXor]
    | cons y rest =>
      rw [O_mapE_cons]
      cases hy : (expand [] y : Except IErr (Exp α)) with
      | error e =>
        simp only [O_error, Option.bind_none]
        exact xor_foldl_error e rest y hy
      | ok x =>
        rw [xor_foldl y x hy rest]
        cases (mapE (expand []) rest : Except IErr (List (Exp α))) <;> simp [aggE, aggregate, foldXor]
  | min => simp only [explicit, expand_blk]; rw [O_bind]
  | max => simp only [explicit, expand_blk]; rw [O_bind]
  | all => simp only [explicit, expand_blk]; rw [O_bind]
  | any => simp only [explicit, expand_blk]; rw [O_bind]
  | abs => simp only [explicit, expand_blk]; rw [O_bind]

mutual
/-- **expansion = expansion of the hand-unrolled text** (success part: same result, or both fail) -/
theorem expand_unroll (env : Env) : (e : ME) →
    O (expand env e : Except IErr (Exp α)) = O (unroll env e >>= expand [])
  | .lit i => by simp [expand, unroll]
  | .var n => by
    simp only [expand, unroll]
    cases env.get n <;> simp [expand, Env.get]
  | .cvar base idx => by
    simp only [expand, unroll]
    rw [O_bind, O_bind, O_mapE_comp (idxFrag env) (unrollIdx env) (idxFrag []) (idxFrag_unroll env) idx, O_bind]
    cases mapE (unrollIdx env) idx with
    | error e => simp
    | ok idx' =>
      simp only [O_ok, O_pure, Option.bind_some, ok_bind, expand]
      rw [O_bind]
      simp only [O_pure]
  | .bin op a b => by
    simp only [expand, unroll]
    rw [O_bind, expand_unroll env a, O_bind, O_bind]
    cases ha : unroll env a with
    | error e => simp
    | ok a' =>
      simp only [O_ok, Option.bind_some, ok_bind]
      rw [O_bind]
      cases hb : unroll env b with
      | error e =>
        simp only [error_bind, O_error, Option.bind_none]
        cases (expand [] a' : Except IErr (Exp α)) with
        | error e2 => simp
        | ok l =>
          simp only [O_ok, Option.bind_some]
          rw [O_bind, expand_unroll env b, hb]; simp
      | ok b' =>
        simp only [ok_bind, pure_ok, O_ok, Option.bind_some, expand]
        rw [O_bind]
        cases (expand [] a' : Except IErr (Exp α)) with
        | error e2 => simp
        | ok l =>
          simp only [O_ok, Option.bind_some]
          rw [O_bind, O_bind, expand_unroll env b, hb]; simp
  | .blk k es => by
    rw [expand_blk]
    simp only [unroll]
    rw [O_bind, ← expandList_eq_mapE, expandList_unroll env es, O_bind, O_bind]
    cases unrollList env es with
    | error e => simp
    | ok es' =>
      simp only [O_ok, Option.bind_some, ok_bind, pure_ok, expand_blk]
      rw [O_bind, expandList_eq_mapE]
  | .agg k its body => by
    rw [expand_agg]
    simp only [unroll, iterate]
    rw [O_bind, O_bind, O_bind, O_bind]
    cases envs its env with
    | error e => simp
    | ok es =>
      simp only [O_ok, Option.bind_some, ok_bind]
      rw [O_mapE_comp (fun env' => expand env' body) (fun env' => unroll env' body) (expand []) (fun env' => expand_unroll env' body) es, O_bind]
      cases mapE (fun env' => unroll env' body) es with
      | error e => simp
      | ok ys =>
        simp only [O_ok, O_pure, Option.bind_some, ok_bind, pure_ok]
        rw [expand_explicit, O_bind]
theorem expandList_unroll (env : Env) : (es : List ME) →
    O (expandList env es : Except IErr (List (Exp α))) = O (unrollList env es >>= expandList [])
  | [] => by simp [expandList, unrollList]
  | e :: es => by
    simp only [expandList, unrollList]
    rw [O_bind, expand_unroll env e, O_bind, O_bind]
    cases he : unroll env e with
    | error e2 => simp
    | ok e' =>
      simp only [O_ok, Option.bind_some, ok_bind]
      rw [O_bind]
      cases hes : unrollList env es with
      | error e2 =>
        simp only [error_bind, O_error, Option.bind_none]
        cases (expand [] e' : Except IErr (Exp α)) with
        | error e3 => simp
        | ok x =>
          simp only [O_ok, Option.bind_some]
          rw [O_bind, expandList_unroll env es, hes]; simp
      | ok es' =>
        simp only [ok_bind, pure_ok, O_ok, Option.bind_some, expandList]
        rw [O_bind]
        cases (expand [] e' : Except IErr (Exp α)) with
        | error e3 => simp
        | ok x =>
          simp only [O_ok, Option.bind_some]
          rw [O_bind, O_bind, expandList_unroll env es, hes]; simp
end

end

/-! ### the unrolled form contains no iteration construct -/

theorem flatList_of_forall : ∀ (ys : List ME), (∀ y ∈ ys, y.flat = true) → ME.flatList ys = true
  | [], _ => rfl
  | y :: ys, h => by simp [ME.flatList, h y (by simp), flatList_of_forall ys (fun z hz => h z (by simp [hz]))]
theorem forall_of_flatList : ∀ (ys : List ME), ME.flatList ys = true → ∀ y ∈ ys, y.flat = true
  | [], _, y, hy => by simp at hy
  | z :: ys, h, y, hy => by
    simp only [ME.flatList, Bool.and_eq_true] at h
    rcases List.mem_cons.mp hy with rfl | hm
    · exact h.1
    · exact forall_of_flatList ys h.2 y hm

theorem foldRightME_flat (op : BinOp) (e : ME) (he : e.flat = true) : ∀ (ys : List ME), ME.flatList ys = true → (foldRightME op e ys).flat = true
  | [], _ => by simpa [foldRightME] using he
  | [y], h => by simp only [ME.flatList, Bool.and_eq_true] at h; simpa [foldRightME] using h.1
  | y :: y2 :: rest, h => by
    simp only [ME.flatList, Bool.and_eq_true] at h
    simp only [foldRightME, ME.flat, Bool.and_eq_true]
    exact ⟨h.1, foldRightME_flat op e he (y2 :: rest) (by simp [ME.flatList, h.2.1, h.2.2])⟩

theorem explicit_flat (k : AggKind) (ys : List ME) (h : ME.flatList ys = true) : (explicit k ys).flat = true := by
  cases k with
  | sum => exact foldRightME_flat _ _ rfl ys h
  | prod => exact foldRightME_flat _ _ rfl ys h
  | avg => simp only [explicit, ME.flat, Bool.and_eq_true]; exact ⟨foldRightME_flat _ _ rfl ys h, trivial⟩
  | xor =>
    simp only [explicit]
    cases ys with
    | nil => rfl
    | cons y rest =>
      simp only [ME.flatList, Bool.and_eq_true] at h
      have : ∀ (rest : List ME) (acc : ME), acc.flat = true → ME.flatList rest = true → (rest.foldl (fun a e => ME.bin .xor a e) acc).flat = true := by
        intro rest
        induction rest with
        | nil => intro acc ha _; simpa using ha
        | cons z rest ih =>
          intro acc ha hr
          simp only [ME.flatList, Bool.and_eq_true] at hr
          simp only [List.foldl_cons]
          exact ih _ (by simp [ME.flat, ha, hr.1]) hr.2
      exact this rest y h.1 h.2
  | min => simpa [explicit, ME.flat] using h
  | max => simpa [explicit, ME.flat] using h
  | all => simpa [explicit, ME.flat] using h
  | any => simpa [explicit, ME.flat] using h
  | abs => simpa [explicit, ME.flat] using h

theorem mapE_forall {β γ : Type} (f : β → Except IErr γ) (P : γ → Prop) (hf : ∀ a y, f a = .ok y → P y) :
    ∀ (l : List β) (ys : List γ), mapE f l = .ok ys → ∀ y ∈ ys, P y
  | [], ys, h, y, hy => by simp [mapE] at h; subst h; simp at hy
  | a :: l, ys, h, y, hy => by
    obtain ⟨z, zs, hz, hl, rfl⟩ := mapE_ok_cons f a l ys h
    rcases List.mem_cons.mp hy with rfl | hm
    · exact hf a _ hz
    · exact mapE_forall f P hf l zs hl y hm

mutual
theorem unroll_flat (env : Env) : (e e' : ME) → unroll env e = .ok e' → e'.flat = true
  | .lit i, e', h => by simp [unroll] at h; subst h; rfl
  | .var n, e', h => by
    simp only [unroll] at h
    cases hg : env.get n <;> simp [hg] at h <;> subst h <;> rfl
  | .cvar base idx, e', h => by
    simp only [unroll] at h
    cases hm : mapE (unrollIdx env) idx <;> simp [hm] at h
    subst h; rfl
  | .bin op a b, e', h => by
    simp only [unroll] at h
    cases ha : unroll env a with
    | error e => simp [ha] at h
    | ok a' =>
      cases hb : unroll env b with
      | error e => simp [ha, hb] at h
      | ok b' =>
        simp [ha, hb] at h; subst h
        simp [ME.flat, unroll_flat env a a' ha, unroll_flat env b b' hb]
  | .blk k es, e', h => by
    simp only [unroll] at h
    cases hes : unrollList env es with
    | error e => simp [hes] at h
    | ok es' => simp [hes] at h; subst h; simpa [ME.flat] using unrollList_flat env es es' hes
  | .agg k its body, e', h => by
    simp only [unroll, iterate] at h
    cases henv : envs its env with
    | error e => simp [henv] at h
    | ok es =>
      cases hm : mapE (fun env' => unroll env' body) es with
      | error e => simp [henv, hm] at h
      | ok ys =>
        simp [henv, hm] at h; subst h
        apply explicit_flat
        apply flatList_of_forall
        exact mapE_forall _ (fun y => y.flat = true) (fun env' y hy => unroll_flat env' body y hy) es ys hm
theorem unrollList_flat (env : Env) : (es es' : List ME) → unrollList env es = .ok es' → ME.flatList es' = true
  | [], es', h => by simp [unrollList] at h; subst h; rfl
  | e :: es, es', h => by
    simp only [unrollList] at h
    cases he : unroll env e with
    | error e2 => simp [he] at h
    | ok x =>
      cases hes : unrollList env es with
      | error e2 => simp [he, hes] at h
      | ok xs =>
        simp [he, hes] at h; subst h
        simp [ME.flatList, unroll_flat env e x he, unrollList_flat env es xs hes]
end

/-! ### the size of an expansion is the product of the sizes of its iteration sets -/

theorem rows_length_of_count (src : Src) (n : Nat) (hc : src.count? = some n) (env : Env) (rows : List (List Int))
    (h : src.rows env = .ok rows) : rows.length = n := by
  cases src with
  | range lo hi inc =>
    cases lo <;> cases hi <;> simp [Src.count?] at hc
    subst hc
    simp [Src.rows, CE.eval] at h
    split at h
    · simp at h
    · simp at h; subst h; simp
  | arr xs => simp [Src.count?] at hc; simp [Src.rows] at h; subst h hc; simp
  | enumArr xs =>
    simp [Src.count?] at hc; simp [Src.rows] at h; subst h hc
    simp only [List.length_map]
    unfold enumerate; generalize 0 = s0
    induction xs generalizing s0 with
    | nil => rfl
    | cons x xs ih => simp [enumerateFrom, ih]
  | zip2 xs ys => simp [Src.count?] at hc; simp [Src.rows] at h; subst h hc; rfl

theorem flatten_length_const {β : Type} (parts : List (List β)) (k : Nat) (h : ∀ p ∈ parts, p.length = k) :
    parts.flatten.length = parts.length * k := by
  induction parts with
  | nil => simp
  | cons p ps ih =>
    simp only [List.flatten_cons, List.length_append, List.length_cons]
    rw [h p (by simp), ih (fun q hq => h q (by simp [hq]))]
    rw [Nat.succ_mul]; omega

/-- **output size**: when the iteration sets do not depend on outer variables, the number of leaf
expansions (terms of a `sum`, rows of a quantified constraint, declared variables) is exactly the
product of their sizes — the only quantity the size of the compiled model grows with. -/
theorem envs_length_prod (its : List It) (P : Nat) (hP : iterProduct its = some P) (env : Env) (es : List Env)
    (h : envs its env = .ok es) : es.length = P := by
  induction its generalizing env es P with
  | nil => simp [iterProduct] at hP; simp [envs] at h; subst h hP; rfl
  | cons it rest ih =>
    simp only [iterProduct] at hP
    cases hn : it.src.count? with
    | none => simp [hn] at hP
    | some n =>
      cases hm : iterProduct rest with
      | none => simp [hn, hm] at hP
      | some m =>
        simp [hn, hm] at hP; subst hP
        simp only [envs] at h
        split at h
        · simp [throw, throwThe, MonadExceptOf.throw] at h
        · cases hd : declareAll env it.vars with
          | error e => simp [hd] at h
          | ok u =>
            cases hr : it.src.rows env with
            | error e => simp [hd, hr] at h
            | ok rows =>
              simp only [hd, hr, ok_bind] at h
              cases hp : mapE (fun row => do envs rest (← bindRow env it.vars row)) rows with
              | error e => simp [hp] at h
              | ok parts =>
                simp [hp] at h; subst h
                have hlen := mapE_length _ _ _ hp
                have hall : ∀ p ∈ parts, p.length = m := by
                  apply mapE_forall _ (fun p => p.length = m) _ rows parts hp
                  intro row p hrow
                  cases hb : bindRow env it.vars row with
                  | error e => simp [hb] at hrow
                  | ok env' => simp [hb] at hrow; exact ih m hm env' p hrow
                rw [flatten_length_const parts m hall, hlen, rows_length_of_count it.src n hn env rows hr]

end Rooc.Proofs.Iter
