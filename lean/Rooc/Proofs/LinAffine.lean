/-
Stage B (part 3): the affine fragment of `Lin.linExp` — no auxiliaries, no constraints, the context
evaluates to the expression's value.
-/
import Rooc.Proofs.LinEval

set_option linter.unusedSectionVars false
set_option linter.unusedSimpArgs false
set_option linter.unusedVariables false

namespace Rooc.LinP
open Rooc Rooc.Lin Rooc.Sem

/-! ### induction on `Exp`, variables of an expression, the arithmetic fragment -/

theorem Exp.indL {α : Type} {motive : Exp α → Prop}
    (num : ∀ v, motive (.num v)) (var : ∀ s, motive (.var s))
    (abs : ∀ e, motive e → motive (.abs e))
    (min : ∀ es, (∀ e ∈ es, motive e) → motive (.min es))
    (max : ∀ es, (∀ e ∈ es, motive e) → motive (.max es))
    (and : ∀ es, (∀ e ∈ es, motive e) → motive (.and es))
    (or : ∀ es, (∀ e ∈ es, motive e) → motive (.or es))
    (not : ∀ e, motive e → motive (.not e))
    (xor : ∀ a b, motive a → motive b → motive (.xor a b))
    (implies : ∀ a b, motive a → motive b → motive (.implies a b))
    (iff : ∀ a b, motive a → motive b → motive (.iff a b))
    (bin : ∀ op a b, motive a → motive b → motive (.bin op a b))
    (un : ∀ op e, motive e → motive (.un op e)) : ∀ e, motive e := by
  intro e
  refine Exp.rec (motive_1 := motive) (motive_2 := fun es => ∀ e ∈ es, motive e)
    num var abs min max and or not xor implies iff bin un ?_ ?_ e
  · simp
  · intro h t hh ht e he
    rcases List.mem_cons.1 he with rfl | h'
    · exact hh
    · exact ht e h'

mutual
/-- the variables occurring in an expression (total version of `Lin.expVars`). -/
def varsOf {α : Type} : Exp α → List String
  | .num _ => []
  | .var s => [s]
  | .abs e => varsOf e
  | .not e => varsOf e
  | .un _ e => varsOf e
  | .min es => varsOfList es
  | .max es => varsOfList es
  | .and es => varsOfList es
  | .or es => varsOfList es
  | .xor a b => varsOf a ++ varsOf b
  | .implies a b => varsOf a ++ varsOf b
  | .iff a b => varsOf a ++ varsOf b
  | .bin _ a b => varsOf a ++ varsOf b
def varsOfList {α : Type} : List (Exp α) → List String
  | [] => []
  | e :: es => varsOf e ++ varsOfList es
end

def isArithOp : BinOp → Bool
  | .add | .sub | .mul | .div => true
  | _ => false

/-- expressions built from literals, variables, `+ - * /` and unary minus only. -/
def arithOnly {α : Type} : Exp α → Bool
  | .num _ => true
  | .var _ => true
  | .bin op a b => isArithOp op && arithOnly a && arithOnly b
  | .un .neg e => arithOnly e
  | _ => false

theorem num_or_not {α : Type} (a : Exp α) : (∃ c, a = .num c) ∨ (∀ c, a = .num c → False) := by
  cases a <;> first | exact Or.inl ⟨_, rfl⟩ | (right; intro c h; cases h)

variable {K : Type} [Field K] [LinearOrder K] [IsStrictOrderedRing K] [FloorRing K]

/-! ### evaluation facts -/

theorem eval_num_some {ρ : String → K} {x : Ext K} {v : K} (h : eval ρ (.num x) = some v) : x = .fin v := by
  cases x <;> simp [eval] at h
  subst h; rfl

theorem eval_bin_some {ρ : String → K} {op : BinOp} {a b : Exp (Ext K)} {v : K}
    (h : eval ρ (.bin op a b) = some v) :
    ∃ x y, eval ρ a = some x ∧ eval ρ b = some y ∧ binVal op x y = some v := by
  rw [eval_bin] at h
  cases ha : eval ρ a with
  | none => simp [ha] at h
  | some x =>
    cases hb : eval ρ b with
    | none => simp [ha, hb] at h
    | some y => exact ⟨x, y, rfl, rfl, by simpa [ha, hb] using h⟩

theorem eval_neg_some {ρ : String → K} {a : Exp (Ext K)} {v : K} (h : eval ρ (.un .neg a) = some v) :
    ∃ x, eval ρ a = some x ∧ v = -x := by
  rw [eval_neg] at h
  cases ha : eval ρ a with
  | none => simp [ha] at h
  | some x => exact ⟨x, rfl, by simpa [ha, eq_comm] using h⟩

/-! ### `linExp` on the arithmetic fragment -/

/-- what `lin_arith` establishes about one successful call. -/
structure ArithRes (e : Exp (Ext K)) (s : St (Ext K)) (c : Ctx (Ext K)) (s' : St (Ext K)) : Prop where
  state : s' = s
  names : ∀ x ∈ ctxNames c, x ∈ varsOf e
  value : ∀ (ρ : String → K) (v : K), eval ρ e = some v → CtxOK c ∧ ctxVal ρ c = v

theorem lin_arith : ∀ (e : Exp (Ext K)), arithOnly e = true →
    ∀ (req : Req) (s : St (Ext K)) (c : Ctx (Ext K)) (s' : St (Ext K)),
      linExp e req s = .ok (c, s') → ArithRes e s c s' := by
  intro e
  induction e using Exp.indL with
  | num v =>
    intro _ req s c s' h
    rw [linExp] at h
    simp only [pure_ok, Prod.mk.injEq] at h
    obtain ⟨rfl, rfl⟩ := h
    refine ⟨rfl, by simp, ?_⟩
    intro ρ x hx
    rw [eval_num_some hx]
    exact ⟨fromRhs_ok x, fromRhs_val ρ x⟩
  | var n =>
    intro _ req s c s' h
    rw [linExp] at h
    simp only [pure_ok, Prod.mk.injEq] at h
    obtain ⟨rfl, rfl⟩ := h
    refine ⟨rfl, by simp [varsOf], ?_⟩
    intro ρ x hx
    rw [eval_var] at hx
    simp only [Option.some.injEq] at hx
    rw [ar_one]
    exact ⟨fromVar_ok n 1, by rw [fromVar_val, ← hx]; ring⟩
  | un op e ih =>
    intro ha req s c s' h
    cases op with
    | not => simp [arithOnly] at ha
    | neg =>
      simp only [arithOnly] at ha
      rw [linExp] at h
      simp only [bind_ok, pure_ok, Prod.mk.injEq] at h
      obtain ⟨x, s1, h1, rfl, rfl⟩ := h
      have A := ih ha _ _ _ _ h1
      have hm1 : (Arith.ofInt (-1) : Ext K) = Ext.fin (-1) := by simp
      rw [hm1]
      refine ⟨A.state, ?_, ?_⟩
      · intro y hy
        rw [mulBy_names] at hy; exact A.names y hy
      · intro ρ v hv
        obtain ⟨w, hw, rfl⟩ := eval_neg_some hv
        obtain ⟨ok, val⟩ := A.value ρ w hw
        obtain ⟨ok', val', _⟩ := mulBy_spec ρ ok (-1)
        exact ⟨ok', by rw [val', val]; ring⟩
  | bin op a b iha ihb =>
    intro har req s c s' h
    simp only [arithOnly, Bool.and_eq_true] at har
    obtain ⟨⟨hop, haa⟩, hab⟩ := har
    cases op with
    | add =>
      rw [linExp] at h
      simp only [bind_ok, pure_ok, Prod.mk.injEq] at h
      obtain ⟨x, s1, h1, y, s2, h2, rfl, rfl⟩ := h
      have A := iha haa _ _ _ _ h1
      have B := ihb hab _ _ _ _ h2
      refine ⟨by rw [B.state, A.state], ?_, ?_⟩
      · intro z hz
        simp only [varsOf, List.mem_append]
        rcases (mergeAdd_names x y z).mp hz with h | h
        · exact Or.inl (A.names z h)
        · exact Or.inr (B.names z h)
      · intro ρ v hv
        obtain ⟨p, q, hp, hq, hpq⟩ := eval_bin_some hv
        obtain ⟨okx, vx⟩ := A.value ρ p hp
        obtain ⟨oky, vy⟩ := B.value ρ q hq
        obtain ⟨ok, val, _⟩ := mergeAdd_spec ρ okx oky
        simp [binVal] at hpq
        exact ⟨ok, by rw [val, vx, vy, hpq]⟩
    | sub =>
      rw [linExp] at h
      simp only [bind_ok, pure_ok, Prod.mk.injEq] at h
      obtain ⟨x, s1, h1, y, s2, h2, rfl, rfl⟩ := h
      have A := iha haa _ _ _ _ h1
      have B := ihb hab _ _ _ _ h2
      refine ⟨by rw [B.state, A.state], ?_, ?_⟩
      · intro z hz
        simp only [varsOf, List.mem_append]
        rcases (mergeSub_names x y z).mp hz with h | h
        · exact Or.inl (A.names z h)
        · exact Or.inr (B.names z h)
      · intro ρ v hv
        obtain ⟨p, q, hp, hq, hpq⟩ := eval_bin_some hv
        obtain ⟨okx, vx⟩ := A.value ρ p hp
        obtain ⟨oky, vy⟩ := B.value ρ q hq
        obtain ⟨ok, val, _⟩ := mergeSub_spec ρ okx oky
        simp [binVal] at hpq
        exact ⟨ok, by rw [val, vx, vy, hpq]⟩
    | mul =>
      rcases num_or_not a with ⟨k, rfl⟩ | hna
      · rw [linExp] at h
        by_cases hk2 : (Arith.eq k (Arith.zero : Ext K) && !(Exp.mayBeUndefined b)) = true
        · rw [if_pos hk2] at h
          have hk : Arith.eq k (Arith.zero : Ext K) = true := (Bool.and_eq_true _ _ ▸ hk2).1
          simp only [pure_ok, Prod.mk.injEq] at h
          obtain ⟨rfl, rfl⟩ := h
          rw [ar_zero]
          refine ⟨rfl, by simp, ?_⟩
          intro ρ v hv
          obtain ⟨p, q, hp, hq, hpq⟩ := eval_bin_some hv
          have := eval_num_some hp
          rw [(ar_eq_zero_iff k).mp hk] at this
          simp only [Ext.fin.injEq] at this
          simp [binVal, ← this] at hpq
          exact ⟨fromRhs_ok 0, by rw [fromRhs_val, hpq]⟩
        · rw [if_neg hk2] at h
          simp only [bind_ok, pure_ok, Prod.mk.injEq] at h
          obtain ⟨x, s1, h1, rfl, rfl⟩ := h
          have B := ihb hab _ _ _ _ h1
          refine ⟨B.state, ?_, ?_⟩
          · intro z hz; rw [mulBy_names] at hz
            simp only [varsOf, List.mem_append]; exact Or.inr (B.names z hz)
          · intro ρ v hv
            obtain ⟨p, q, hp, hq, hpq⟩ := eval_bin_some hv
            rw [eval_num_some hp]
            obtain ⟨ok, val⟩ := B.value ρ q hq
            obtain ⟨ok', val', _⟩ := mulBy_spec ρ ok p
            simp [binVal] at hpq
            exact ⟨ok', by rw [val', val, ← hpq]; ring⟩
      · rcases num_or_not b with ⟨k, rfl⟩ | hnb
        · rw [linExp.eq_4 _ _ _ hna] at h
          by_cases hk2 : (Arith.eq k (Arith.zero : Ext K) && !(Exp.mayBeUndefined a)) = true
          · rw [if_pos hk2] at h
            have hk : Arith.eq k (Arith.zero : Ext K) = true := (Bool.and_eq_true _ _ ▸ hk2).1
            simp only [pure_ok, Prod.mk.injEq] at h
            obtain ⟨rfl, rfl⟩ := h
            rw [ar_zero]
            refine ⟨rfl, by simp, ?_⟩
            intro ρ v hv
            obtain ⟨p, q, hp, hq, hpq⟩ := eval_bin_some hv
            have := eval_num_some hq
            rw [(ar_eq_zero_iff k).mp hk] at this
            simp only [Ext.fin.injEq] at this
            simp [binVal, ← this] at hpq
            exact ⟨fromRhs_ok 0, by rw [fromRhs_val, hpq]⟩
          · rw [if_neg hk2] at h
            simp only [bind_ok, pure_ok, Prod.mk.injEq] at h
            obtain ⟨x, s1, h1, rfl, rfl⟩ := h
            have A := iha haa _ _ _ _ h1
            refine ⟨A.state, ?_, ?_⟩
            · intro z hz; rw [mulBy_names] at hz
              simp only [varsOf, List.mem_append]; exact Or.inl (A.names z hz)
            · intro ρ v hv
              obtain ⟨p, q, hp, hq, hpq⟩ := eval_bin_some hv
              rw [eval_num_some hq]
              obtain ⟨ok, val⟩ := A.value ρ p hp
              obtain ⟨ok', val', _⟩ := mulBy_spec ρ ok q
              simp [binVal] at hpq
              exact ⟨ok', by rw [val', val, hpq]⟩
        · rw [linExp.eq_5 _ _ _ hna hnb] at h
          simp [fail_ok] at h
    | div =>
      rcases num_or_not b with ⟨k, rfl⟩ | hnb
      · rw [linExp] at h
        by_cases hk : Arith.eq k (Arith.zero : Ext K) = true
        · rw [if_pos hk] at h; simp [fail_ok] at h
        · rw [if_neg hk] at h
          simp only [bind_ok, pure_ok, Prod.mk.injEq] at h
          obtain ⟨x, s1, h1, rfl, rfl⟩ := h
          have A := iha haa _ _ _ _ h1
          refine ⟨A.state, ?_, ?_⟩
          · intro z hz; rw [divBy_names] at hz
            simp only [varsOf, List.mem_append]; exact Or.inl (A.names z hz)
          · intro ρ v hv
            obtain ⟨p, q, hp, hq, hpq⟩ := eval_bin_some hv
            rw [eval_num_some hq]
            obtain ⟨ok, val⟩ := A.value ρ p hp
            have hq0 : q ≠ 0 := by
              intro h0; simp [binVal, h0] at hpq
            obtain ⟨ok', val', _⟩ := divBy_spec ρ ok q hq0
            simp [binVal, hq0] at hpq
            exact ⟨ok', by rw [val', val, hpq]⟩
      · rw [linExp.eq_7 _ _ _ hnb] at h
        simp [fail_ok] at h
    | _ => simp [isArithOp] at hop
  | _ => intro h; simp [arithOnly] at h

end Rooc.LinP
