/-
C07 helper layer 5: one constraint visit is sound (`tighten_affine_form`, `tighten_constraint_expression`),
the work-list loop is sound for every fuel / queue / flag state, `from_domain`, `apply_to_domain`.
-/
import Rooc.Proofs.BoundsAffine
set_option linter.unusedTactic false
set_option linter.unreachableTactic false
set_option linter.unnecessarySeqFocus false
set_option linter.unusedSimpArgs false
set_option linter.unusedVariables false
set_option linter.unusedSectionVars false
namespace Rooc
namespace BoundsProofs
open BoundsSem Arith Sem

variable {K : Type} [Field K] [LinearOrder K] [IsStrictOrderedRing K] [FloorRing K]

/-! ### a constraint that holds puts `lhs - rhs` into the required interval -/
theorem mem_required {cmp : Cmp} {l r : K} (h : cmpHolds cmp l r) :
    Mem (l - r) (Bounds.required cmp : Bounds (Ext K)) := by
  cases cmp <;> simp_all [cmpHolds, Bounds.required, mem_iff, Bounds.singleton] <;> linarith

theorem tightenConstraintExpression_inBox {ρ : String → K} (c : Constraint (Ext K)) (s : TState (Ext K))
    (hc : Holds ρ c) (hb : InBox ρ s.an.variableBounds) :
    InBox ρ (Analyzer.tightenConstraintExpression c (Bounds.required c.cmp) s).an.variableBounds := by
  obtain ⟨l, r, hl, hr, hcmp⟩ := hc
  have hlb := boundsOf_mem _ _ hb _ _ hl
  have hrb := boundsOf_mem _ _ hb _ _ hr
  unfold Analyzer.tightenConstraintExpression
  dsimp only
  split
  · exact hb
  · have hm : Mem (l - r) (Bounds.required c.cmp : Bounds (Ext K)) := mem_required hcmp
    refine tightenExpression_ok ρ _ _ _ r (tightenExpression_ok ρ _ _ _ l hb hl ?_) hr ?_
    · have := mem_add hm hrb; simpa using this
    · have := mem_sub hlb hm; simpa using this

/-! ### `tighten_affine_form` -/
section
variable (ρ : String → K) (vb0 : List (String × Bounds (Ext K)))

noncomputable def termOf (p : String × Ext K) : Bounds (Ext K) := (Analyzer.varBounds vb0 p.1).scale p.2

theorem suffixSum_mem (hb0 : InBox ρ vb0) : ∀ (cs : List (String × Ext K)), AllFin cs →
    Mem (sumC ρ cs) (Analyzer.suffixSum (cs.map (termOf vb0)))
  | [], _ => by simpa [Analyzer.suffixSum] using mem_singleton (0 : K)
  | (n, c) :: cs, h => by
    obtain ⟨⟨c', rfl⟩, hr⟩ := allFin_cons.1 h
    simp only [List.map_cons, Analyzer.suffixSum, sumC_cons, coefVal]
    refine mem_add ?_ (suffixSum_mem hb0 cs hr)
    rw [mul_comm]; exact mem_scale c' (hb0 n)

theorem foldl_add_mem (hb0 : InBox ρ vb0) : ∀ (cs : List (String × Ext K)), AllFin cs →
    ∀ (P : K) (pre : Bounds (Ext K)), Mem P pre →
    Mem (P + sumC ρ cs) ((cs.map (termOf vb0)).foldl Bounds.add pre)
  | [], _, P, pre, hp => by simpa using hp
  | (n, c) :: cs, h, P, pre, hp => by
    obtain ⟨⟨c', rfl⟩, hr⟩ := allFin_cons.1 h
    simp only [List.map_cons, List.foldl_cons, sumC_cons, coefVal]
    have := foldl_add_mem hb0 cs hr (P + c' * ρ n) (pre.add (termOf vb0 (n, .fin c')))
      (mem_add hp (by rw [mul_comm]; exact mem_scale c' (hb0 n)))
    rwa [add_assoc] at this

theorem affineLoop_inBox (hb0 : InBox ρ vb0) (required : Bounds (Ext K)) (S : K) (hS : Mem S required) :
    ∀ (cs : List (String × Ext K)), AllFin cs → ∀ (P : K) (pre : Bounds (Ext K)) (s : TState (Ext K)),
    Mem P pre → S = P + sumC ρ cs → InBox ρ s.an.variableBounds →
    InBox ρ (Analyzer.affineLoop required cs (cs.map (termOf vb0)) pre s).an.variableBounds
  | [], _, P, pre, s, _, _, hb => by simpa [Analyzer.affineLoop] using hb
  | (n, c) :: cs, h, P, pre, s, hp, hS', hb => by
    obtain ⟨⟨c', rfl⟩, hr⟩ := allFin_cons.1 h
    simp only [List.map_cons, Analyzer.affineLoop]
    have hothers : Mem (P + sumC ρ cs) (pre.add (Analyzer.suffixSum (cs.map (termOf vb0)))) :=
      mem_add hp (suffixSum_mem ρ vb0 hb0 cs hr)
    have hcand : Mem (ρ n) ((required.sub (pre.add (Analyzer.suffixSum (cs.map (termOf vb0))))).divBy (.fin c')) := by
      by_cases hc : c' = 0
      · subst hc; exact mem_divBy_zero
      · have h1 := mem_sub hS hothers
        have h2 := mem_divBy c' h1 hc
        have e : (S - (P + sumC ρ cs)) / c' = ρ n := by
          rw [hS', sumC_cons, coefVal]; field_simp; ring
        rwa [e] at h2
    have hb' := tightenVar_inBox s n _ hb hcand
    split
    · exact hb'
    · refine affineLoop_inBox hb0 required S hS cs hr (P + c' * ρ n) _ _ ?_ ?_ hb'
      · exact mem_add hp (by rw [mul_comm]; exact mem_scale c' (hb0 n))
      · rw [hS', sumC_cons, coefVal]; ring
end

theorem tightenAffineForm_inBox {ρ : String → K} (an : Analyzer (Ext K)) (f : AffineForm (Ext K)) (cmp : Cmp)
    (S : K) (hf : FormDen ρ f S) (hS : Mem S (Bounds.required cmp : Bounds (Ext K)))
    (hb : InBox ρ an.variableBounds) :
    InBox ρ (an.tightenAffineForm f cmp).an.variableBounds := by
  obtain ⟨hfin, k, hk, hSk⟩ := hf
  unfold Analyzer.tightenAffineForm
  dsimp only
  have := affineLoop_inBox ρ an.variableBounds hb (Bounds.required cmp) S hS f.coefficients hfin k
    (Bounds.singleton f.constant) ⟨an, []⟩ (by rw [hk]; exact mem_singleton k) hSk hb
  split
  · exact this
  · exact this

/-! ### one visit, the loop -/
theorem fromConstraint_den {ρ : String → K} {c : Constraint (Ext K)} {f : AffineForm (Ext K)}
    (hf : AffineForm.fromConstraint c = some f) (hc : Holds ρ c) :
    ∃ S, FormDen ρ f S ∧ Mem S (Bounds.required c.cmp : Bounds (Ext K)) := by
  obtain ⟨l, r, hl, hr, hcmp⟩ := hc
  simp only [AffineForm.fromConstraint] at hf
  cases hfl : AffineForm.fromExp c.lhs with
  | none => simp [hfl] at hf
  | some fl =>
    cases hfr : AffineForm.fromExp c.rhs with
    | none => simp [hfl, hfr] at hf
    | some fr =>
      simp only [hfl, hfr] at hf
      split at hf
      · cases hf
      · cases hf
        refine ⟨l - r, ?_, mem_required hcmp⟩
        have := merge_den (-1) (fromExp_den ρ _ _ _ hfl hl) (fromExp_den ρ _ _ _ hfr hr)
        simpa [Ext.neg, sub_eq_add_neg] using this

theorem stepConstraint_inBox {ρ : String → K} (an : Analyzer (Ext K)) (c : Constraint (Ext K))
    (hc : Holds ρ c) (hb : InBox ρ an.variableBounds) :
    InBox ρ (Analyzer.stepConstraint an c (AffineForm.fromConstraint c)).an.variableBounds := by
  unfold Analyzer.stepConstraint
  cases hf : AffineForm.fromConstraint c with
  | some f =>
    obtain ⟨S, h1, h2⟩ := fromConstraint_den hf hc
    exact tightenAffineForm_inBox an f c.cmp S h1 h2 hb
  | none => exact tightenConstraintExpression_inBox c ⟨an, []⟩ hc hb

/-- the work-list loop keeps `ρ` inside the box for every fuel, dependency table, queue and flag vector. -/
theorem propagateLoop_inBox {ρ : String → K} (cs : List (Constraint (Ext K))) (hcs : ∀ c ∈ cs, Holds ρ c)
    (deps : List (String × List Nat)) :
    ∀ (fuel : Nat) (an : Analyzer (Ext K)) (queue : List Nat) (queued : List Bool),
    InBox ρ an.variableBounds →
    InBox ρ (Analyzer.propagateLoop cs (cs.map AffineForm.fromConstraint) deps fuel an queue queued).variableBounds := by
  intro fuel
  induction fuel with
  | zero =>
    intro an queue queued hb
    cases queue <;> simpa [Analyzer.propagateLoop] using hb
  | succ fuel ih =>
    intro an queue queued hb
    cases queue with
    | nil => simpa [Analyzer.propagateLoop] using hb
    | cons index queue =>
      simp only [Analyzer.propagateLoop, List.getElem?_map]
      cases hci : cs[index]? with
      | none => simpa using ih an queue _ hb
      | some c =>
        simp only [Option.map_some]
        have hmem : c ∈ cs := List.mem_of_getElem? hci
        have hb' := stepConstraint_inBox an c (hcs c hmem) hb
        split
        · exact hb'
        · exact ih _ _ _ hb'

/-! ### `from_domain` -/
theorem mem_ofVarType {t : VarType (Ext K)} {x : K} (h : InDomain t x) : Mem x (Bounds.ofVarType t) := by
  cases t with
  | bool =>
    rcases h with h | h <;> subst h <;> simp [Bounds.ofVarType, mem_iff]
  | int lo hi =>
    obtain ⟨n, rfl, h1, h2⟩ := h
    simp only [Bounds.ofVarType, mem_iff, a_ofInt, LB_fin, UB_fin, ef_ofInt, Int.cast_le]
    exact ⟨h1, h2⟩
  | real lo hi => exact h
  | nnreal lo hi => exact h.2

theorem fromDomain_inBox {ρ : String → K} (domain : List (DomVar (Ext K))) (tol : Ext K)
    (hd : ∀ d ∈ domain, InDomain d.ty (ρ d.name)) :
    InBox ρ (Analyzer.fromDomain domain tol).variableBounds := by
  simp only [Analyzer.fromDomain]
  suffices h : ∀ (dom : List (DomVar (Ext K))) (acc : List (String × Bounds (Ext K))),
      (∀ d ∈ dom, InDomain d.ty (ρ d.name)) → InBox ρ acc →
      InBox ρ (dom.foldl (fun m d => AList.insert m d.name (Bounds.ofVarType d.ty)) acc) from
    h domain [] hd (fun n => by simpa [Analyzer.varBounds, AList.get?] using mem_unbounded (ρ n))
  intro dom
  induction dom with
  | nil => intro acc _ hb; simpa using hb
  | cons d dom ih =>
    intro acc hd hb
    simp only [List.foldl_cons]
    refine ih _ (fun d' hd' => hd d' (List.mem_cons_of_mem _ hd')) ?_
    intro n
    simp only [varBounds_insert]
    split
    · rename_i h; subst h; exact mem_ofVarType (hd d (List.mem_cons_self ..))
    · exact hb n

end BoundsProofs
end Rooc
