/-
Helper lemmas for C10 (basic layer): an induction principle for the nested inductive `Exp`,
what the `Arith (Ext K)` operations mean over a Mathlib ordered field, unfolding lemmas for
`Exp.simplify` in terms of node-level steps, and basic facts about `Sem.eval`/`Sem.evalList`.
-/
import Rooc.Sem
import Rooc.Proofs.Field
namespace Rooc
open Rooc.Exp

/-! ### induction on `Exp` with `∀ x ∈ es, motive x` hypotheses -/

theorem Exp.ind {α : Type} {motive : Exp α → Prop}
    (num : ∀ v, motive (.num v)) (var : ∀ s, motive (.var s))
    (abs : ∀ e, motive e → motive (.abs e))
    (min : ∀ es, (∀ e ∈ es, motive e) → motive (.min es))
    (max : ∀ es, (∀ e ∈ es, motive e) → motive (.max es))
    (and : ∀ es, (∀ e ∈ es, motive e) → motive (.and es))
    (or : ∀ es, (∀ e ∈ es, motive e) → motive (.or es))
    (not : ∀ e, motive e → motive (.not e))
    (xor : ∀ a b, motive a → motive b → motive (.xor a b))
    (implies : ∀ a b, motive a → motive b → motive (.implies a b))
    (iff : ∀ a b, motive a → motive b → motive (.iff a b))
    (bin : ∀ op a b, motive a → motive b → motive (.bin op a b))
    (un : ∀ op e, motive e → motive (.un op e)) : ∀ e, motive e := by
  intro e
  refine Exp.rec (motive_1 := motive) (motive_2 := fun es => ∀ e ∈ es, motive e)
    num var abs min max and or not xor implies iff bin un ?_ ?_ e
  · simp
  · intro h t hh ht e he
    rcases List.mem_cons.1 he with rfl | h'
    · exact hh
    · exact ht e h'

/-! ### node-level steps of `simplify` that the model inlines -/
namespace Exp
section
variable {α : Type} [Arith α]
open Arith

def isNum : Exp α → Bool | .num _ => true | _ => false
def isAndNode : Exp α → Bool | .and _ => true | _ => false
def isOrNode : Exp α → Bool | .or _ => true | _ => false
/-- same-kind test used by `naryFlatten`. -/
def isSameKind (isAnd : Bool) (e : Exp α) : Bool := if isAnd then isAndNode e else isOrNode e

def negCore : Exp α → Exp α
  | .num v => .num (neg v)
  | e => .un .neg e
def absCore : Exp α → Exp α
  | .num v => .num (Arith.abs v)
  | e => .abs e
def maxCore (es' : List (Exp α)) : Exp α :=
  match allNums es' with
  | some ns => .num (ns.foldl fmax negInf)
  | none => .max es'
def minCore (es' : List (Exp α)) : Exp α :=
  match allNums es' with
  | some ns => .num (ns.foldl fmin posInf)
  | none => .min es'
def binCore (op : BinOp) (l r : Exp α) : Exp α :=
  match op with
  | .add => addCore l r
  | .sub => subCore l r
  | .mul => mulCore l r
  | .div => divCore l r
  | .and => naryCore true [l, r]
  | .or => naryCore false [l, r]
  | .xor => xorCore l r
  | .implies => impliesCore l r
  | .iff => iffCore l r

theorem simplify_num (v : α) : simplify (.num v : Exp α) = .num v := by simp [simplify]
theorem simplify_var (s : String) : simplify (.var s : Exp α) = .var s := by simp [simplify]
theorem simplify_bin (op : BinOp) (l r : Exp α) :
    simplify (.bin op l r) = binCore op (simplify l) (simplify r) := by
  cases op <;> simp [simplify, binCore]
theorem simplify_neg (e : Exp α) : simplify (.un .neg e) = negCore (simplify e) := by
  simp only [simplify, negCore]; split <;> simp_all
theorem simplify_unot (e : Exp α) : simplify (.un .not e) = notCore (simplify e) := by
  simp [simplify]
theorem simplify_abs (e : Exp α) : simplify (.abs e) = absCore (simplify e) := by
  simp only [simplify, absCore]; split <;> simp_all
theorem simplify_and (es : List (Exp α)) : simplify (.and es) = naryCore true (es.map simplify) := by
  simp [simplify]
theorem simplify_or (es : List (Exp α)) : simplify (.or es) = naryCore false (es.map simplify) := by
  simp [simplify]
theorem simplify_not (e : Exp α) : simplify (.not e) = notCore (simplify e) := by
  simp [simplify]
theorem simplify_xor (a b : Exp α) : simplify (.xor a b) = xorCore (simplify a) (simplify b) := by
  simp [simplify]
theorem simplify_implies (a b : Exp α) :
    simplify (.implies a b) = impliesCore (simplify a) (simplify b) := by
  simp [simplify]
theorem simplify_iff (a b : Exp α) : simplify (.iff a b) = iffCore (simplify a) (simplify b) := by
  simp [simplify]
theorem simplify_max (es : List (Exp α)) :
    simplify (.max es) = if es = [] then .max [] else maxCore (es.map simplify) := by
  by_cases h : es = []
  · simp [simplify, h]
  · simp only [simplify, maxCore, h, List.isEmpty_iff, if_false]; split <;> simp_all
theorem simplify_min (es : List (Exp α)) :
    simplify (.min es) = if es = [] then .min [] else minCore (es.map simplify) := by
  by_cases h : es = []
  · simp [simplify, h]
  · simp only [simplify, minCore, h, List.isEmpty_iff, if_false]; split <;> simp_all

end
end Exp

/-! ### `Arith (Ext K)` over a Mathlib ordered field -/
section
variable {K : Type} [Field K] [LinearOrder K] [IsStrictOrderedRing K] [FloorRing K]

@[simp] theorem arith_zero : (Arith.zero : Ext K) = .fin 0 := by
  simp [Arith.zero, Arith.ofInt]
@[simp] theorem arith_one : (Arith.one : Ext K) = .fin 1 := by
  simp [Arith.one, Arith.ofInt]
@[simp] theorem arith_add_fin (a b : K) : Arith.add (Ext.fin a) (Ext.fin b) = Ext.fin (a + b) := by
  simp [Arith.add, Ext.add]
@[simp] theorem arith_sub_fin (a b : K) : Arith.sub (Ext.fin a) (Ext.fin b) = Ext.fin (a - b) := by
  simp [Arith.sub, Ext.sub, Ext.add, Ext.neg, sub_eq_add_neg]
@[simp] theorem arith_mul_fin (a b : K) : Arith.mul (Ext.fin a) (Ext.fin b) = Ext.fin (a * b) := by
  simp [Arith.mul, Ext.mul]
theorem arith_div_fin (a b : K) (hb : b ≠ 0) :
    Arith.div (Ext.fin a) (Ext.fin b) = Ext.fin (a / b) := by
  simp [Arith.div, Ext.div, hb]
@[simp] theorem arith_neg_fin (a : K) : Arith.neg (Ext.fin a) = Ext.fin (-a) := by
  simp [Arith.neg, Ext.neg]
@[simp] theorem arith_eq_fin (a b : K) : Arith.eq (Ext.fin a) (Ext.fin b) = decide (a = b) := by
  simp [Arith.eq, Ext.eq]
@[simp] theorem arith_eq_fin_iff (x : Ext K) (a : K) : Arith.eq x (Ext.fin a) = true ↔ x = .fin a := by
  cases x <;> simp [Arith.eq, Ext.eq]
/-- `x == 0.0` at `Ext K`: exactly the finite zero (no signed zero, NaN/±inf are not zero). -/
theorem arith_eq_zero_iff (x : Ext K) : Arith.eq x (Arith.zero : Ext K) = true ↔ x = .fin 0 := by
  cases x <;> simp [Arith.eq, Ext.eq]
theorem arith_eq_one_iff (x : Ext K) : Arith.eq x (Arith.one : Ext K) = true ↔ x = .fin 1 := by
  cases x <;> simp [Arith.eq, Ext.eq]

end
end Rooc
