/-
Definedness in both directions under "no collapsing node": `simplify` / `normalize` neither lose nor create
definedness, so `eval` is preserved as an `Option`.
-/
import Rooc.Proofs.LinNC2

set_option linter.unusedSectionVars false
set_option linter.unusedSimpArgs false
set_option linter.unusedVariables false

namespace Rooc.LinP
open Rooc Rooc.Lin Rooc.Sem Rooc.Exp

variable {K : Type} [Field K] [LinearOrder K] [IsStrictOrderedRing K] [FloorRing K]

/-- under "no collapsing node" and finite literals, `simplify` creates no definedness. -/
theorem Def_of_Def_simplify_nc (ρ : String → K) (e : Exp (Ext K)) :
    NC ρ e → finiteLits e = true → Def ρ (simplify e) → Def ρ e := by
  induction e using Exp.ind with
  | num x => intro _ _ h; rwa [simplify_num] at h
  | var s => intro _ _ _; simp [Def, eval]
  | abs e ih =>
    intro hl hf h
    simp only [NC] at hl; simp only [finiteLits] at hf
    rw [simplify_abs] at h
    exact (Def_un_iff e).1.2 (ih hl hf (Def_absCore_inv (finiteLits_simplify e hf) h))
  | min es ih =>
    intro hl hf h
    simp only [NC, NCList_iff] at hl
    simp only [finiteLits, finiteLitsL_iff] at hf
    rw [simplify_min] at h
    split at h
    · subst ‹es = []›; exact h
    · rename_i hne
      have := Def_minCore_inv (finiteLits_map_simplify hf) h
      exact Def_minmax_iff.1.2 ⟨hne, fun e he =>
        ih e he (hl e he) (hf e he) (this _ (List.mem_map.2 ⟨e, he, rfl⟩))⟩
  | max es ih =>
    intro hl hf h
    simp only [NC, NCList_iff] at hl
    simp only [finiteLits, finiteLitsL_iff] at hf
    rw [simplify_max] at h
    split at h
    · subst ‹es = []›; exact h
    · rename_i hne
      have := Def_maxCore_inv (finiteLits_map_simplify hf) h
      exact Def_minmax_iff.2.2 ⟨hne, fun e he =>
        ih e he (hl e he) (hf e he) (this _ (List.mem_map.2 ⟨e, he, rfl⟩))⟩
  | and es ih =>
    intro hl hf h
    simp only [NC, NCList_iff] at hl
    simp only [finiteLits, finiteLitsL_iff] at hf
    rw [simplify_and] at h
    have := Def_naryCore_inv true (finiteLits_map_simplify hf) h
    exact (Def_nary_iff true).2 (fun e he =>
      ih e he (hl.2 e he) (hf e he) (this _ (List.mem_map.2 ⟨e, he, rfl⟩)))
  | or es ih =>
    intro hl hf h
    simp only [NC, NCList_iff] at hl
    simp only [finiteLits, finiteLitsL_iff] at hf
    rw [simplify_or] at h
    have := Def_naryCore_inv false (finiteLits_map_simplify hf) h
    exact (Def_nary_iff false).2 (fun e he =>
      ih e he (hl.2 e he) (hf e he) (this _ (List.mem_map.2 ⟨e, he, rfl⟩)))
  | not e ih =>
    intro hl hf h
    simp only [NC] at hl; simp only [finiteLits] at hf
    rw [simplify_not] at h
    exact (Def_un_iff e).2.1.2 (ih hl hf (Def_notCore_inv (finiteLits_simplify e hf) h))
  | xor a b iha ihb =>
    intro hl hf h
    simp only [NC] at hl; simp only [finiteLits, Bool.and_eq_true] at hf
    rw [simplify_xor] at h
    have := Def_xorCore_inv (finiteLits_simplify a hf.1) (finiteLits_simplify b hf.2) h
    exact (Def_xorlike_iff a b).1.2 ⟨iha hl.1 hf.1 this.1, ihb hl.2 hf.2 this.2⟩
  | implies a b iha ihb =>
    intro hl hf h
    simp only [NC] at hl; simp only [finiteLits, Bool.and_eq_true] at hf
    rw [simplify_implies] at h
    have := Def_impliesCore_inv (finiteLits_simplify a hf.1) (finiteLits_simplify b hf.2) h
    exact (Def_xorlike_iff a b).2.1.2 ⟨iha hl.1 hf.1 this.1, ihb hl.2 hf.2 this.2⟩
  | iff a b iha ihb =>
    intro hl hf h
    simp only [NC] at hl; simp only [finiteLits, Bool.and_eq_true] at hf
    rw [simplify_iff] at h
    have := Def_iffCore_inv (finiteLits_simplify a hf.1) (finiteLits_simplify b hf.2) h
    exact (Def_xorlike_iff a b).2.2.2 ⟨iha hl.1 hf.1 this.1, ihb hl.2 hf.2 this.2⟩
  | bin op a b iha ihb =>
    intro hl hf h
    simp only [NC] at hl; simp only [finiteLits, Bool.and_eq_true] at hf
    rw [simplify_bin] at h
    have hfa := finiteLits_simplify a hf.1
    have hfb := finiteLits_simplify b hf.2
    -- operands of the simplified node are defined (and the divisor non-zero)
    have key : Def ρ (simplify a) ∧ Def ρ (simplify b) ∧ (op = .div → val ρ (simplify b) ≠ 0) := by
      cases op with
      | add => exact ⟨(Def_addCore_inv hfa hfb h).1, (Def_addCore_inv hfa hfb h).2, by simp⟩
      | sub => exact ⟨(Def_subCore_inv hfa hfb h).1, (Def_subCore_inv hfa hfb h).2, by simp⟩
      | mul => exact ⟨(Def_mulCore_inv hfa hfb h).1, (Def_mulCore_inv hfa hfb h).2, by simp⟩
      | div =>
        have := Def_divCore_inv hfa hfb h
        exact ⟨this.1, this.2.1, fun _ => this.2.2⟩
      | and =>
        have := Def_naryCore_inv true (cs := [simplify a, simplify b])
          (by intro c hc; simp at hc; rcases hc with rfl | rfl <;> assumption) h
        exact ⟨this _ (by simp), this _ (by simp), by simp⟩
      | or =>
        have := Def_naryCore_inv false (cs := [simplify a, simplify b])
          (by intro c hc; simp at hc; rcases hc with rfl | rfl <;> assumption) h
        exact ⟨this _ (by simp), this _ (by simp), by simp⟩
      | xor => exact ⟨(Def_xorCore_inv hfa hfb h).1, (Def_xorCore_inv hfa hfb h).2, by simp⟩
      | implies => exact ⟨(Def_impliesCore_inv hfa hfb h).1, (Def_impliesCore_inv hfa hfb h).2, by simp⟩
      | iff => exact ⟨(Def_iffCore_inv hfa hfb h).1, (Def_iffCore_inv hfa hfb h).2, by simp⟩
    have hda := iha hl.1 hf.1 key.1
    have hdb := ihb hl.2.1 hf.2 key.2.1
    refine Def_bin_of hda hdb (fun hop => ?_)
    -- the divisor keeps its value (forward soundness)
    have := simplify_sound_nc ρ b hl.2.1 _ (eval_of_Def hdb)
    rw [← val_of_eval this]; exact key.2.2 hop
  | un op e ih =>
    intro hl hf h
    simp only [NC] at hl; simp only [finiteLits] at hf
    cases op with
    | neg =>
      rw [simplify_neg] at h
      exact ((Def_un_iff e).2.2 _).2 (ih hl hf (Def_negCore_inv (finiteLits_simplify e hf) h))
    | not =>
      rw [simplify_unot] at h
      exact ((Def_un_iff e).2.2 _).2 (ih hl hf (Def_notCore_inv (finiteLits_simplify e hf) h))

/-- value preservation in both directions under "no collapsing node". -/
theorem simplify_eval_eq_nc (ρ : String → K) (e : Exp (Ext K)) (hl : NC ρ e) (hf : finiteLits e = true) :
    eval ρ (simplify e) = eval ρ e := by
  cases h : eval ρ e with
  | some v => exact simplify_sound_nc ρ e hl v h
  | none =>
    cases h' : eval ρ (simplify e) with
    | none => rfl
    | some w =>
      have := Def_of_Def_simplify_nc ρ e hl hf (Def_of_eval h')
      unfold Def at this; rw [h] at this; cases this

/-- `normalize` preserves `eval` as an `Option` under "no collapsing node" and finite literals. -/
theorem normalize_eval_eq_nc {e e' : Exp (Ext K)} (hn : normalizeExp e = some e') {ρ : String → K}
    (hnc : NC ρ e) (hf : finiteLits e = true) : eval ρ e' = eval ρ e := by
  obtain ⟨fl, hfl, rfl⟩ := normalizeExp_some hn
  have hNF := NF_simplify e
  obtain ⟨l2, _⟩ := NC_flatten (NC_of_NF ρ _ hNF) (arithSpine_of_NF _ hNF) hfl
  have hf1 := finiteLits_simplify e hf
  have hf2 : finiteLits fl = true := finiteLits_flatten' hf1 hfl
  rw [simplify_eval_eq_nc ρ fl l2 hf2, Rooc.flattenF_eval ρ _ _ _ hfl, simplify_eval_eq_nc ρ e hnc hf]

end Rooc.LinP
