/-
Stage C, part 4: dominated-operand pruning of `linearize_extreme` — from the Boolean flags computed on
extended bounds to the gadget lemma `prune_max_exists` / `prune_min_exists`, and its consequence on the
value of `max{…}` / `min{…}`.
-/
import Rooc.Proofs.LinSpecAbs
import Mathlib.Order.WithBot
import Mathlib.Data.List.Forall2

set_option linter.unusedSectionVars false
set_option linter.unusedSimpArgs false
set_option linter.unusedVariables false

namespace Rooc.LinP
open Rooc Rooc.Lin Rooc.Sem Rooc.Exp
open Rooc.Lin.Gadget (B01 DomMax DomMin)

variable {K : Type} [Field K] [LinearOrder K] [IsStrictOrderedRing K] [FloorRing K]

/-! ### extended numbers as a linear order -/

/-- `-∞ < finite < +∞` (NaN is sent to `⊥`; it never occurs on an enclosing interval). -/
def toB : Ext K → WithBot (WithTop K)
  | .ninf => ⊥
  | .nan => ⊥
  | .fin a => ((a : WithTop K) : WithBot (WithTop K))
  | .pinf => ((⊤ : WithTop K) : WithBot (WithTop K))

def NotNaN (x : Ext K) : Prop := x ≠ .nan

theorem toB_fin_le (a b : K) : toB (Ext.fin a) ≤ toB (Ext.fin b) ↔ a ≤ b := by
  simp [toB]

theorem extLe_iff_toB {x y : Ext K} (hx : NotNaN x) (hy : NotNaN y) : Ext.le x y = true ↔ toB x ≤ toB y := by
  cases x <;> cases y <;> simp [Ext.le, toB, NotNaN] at * 

theorem extEq_iff_toB {x y : Ext K} (hx : NotNaN x) (hy : NotNaN y) : Ext.eq x y = true ↔ toB x = toB y := by
  cases x <;> cases y <;> simp [Ext.eq, toB, NotNaN] at *

theorem lowerOK_iff_toB {l : Ext K} {v : K} : lowerOK l v ↔ (NotNaN l ∧ toB l ≤ toB (Ext.fin v)) := by
  cases l <;> simp [lowerOK, toB, NotNaN]

theorem upperOK_iff_toB {u : Ext K} {v : K} : upperOK u v ↔ (NotNaN u ∧ toB (Ext.fin v) ≤ toB u) := by
  cases u <;> simp [upperOK, toB, NotNaN]

/-! ### the Boolean pruning test against `DomMax` / `DomMin` -/

/-- the pairwise part of the `dominated` test of `retainedFlags` (`b` = operand `i`, `o` = operand `j`). -/
def domPair {α : Type} [Arith α] (kind : ExtKind) (b o : Lin.Bounds α) (jlti : Bool) : Bool :=
  let otherDominates := match kind with
    | .max => Arith.ge o.lower b.upper
    | .min => Arith.le o.upper b.lower
  if !otherDominates then false else
  let equalFixed := Arith.eq b.lower b.upper && Arith.eq o.lower o.upper && Arith.eq b.lower o.lower
  (!equalFixed || jlti)

/-- the `dominated` test of `retainedFlags`. -/
def domB {α : Type} [Arith α] (kind : ExtKind) (bs : List (Lin.Bounds α)) (i : Nat) : Bool :=
  (List.range bs.length).any fun j =>
    if i == j then false else
    domPair kind (bs.getD i Lin.Bounds.unbounded) (bs.getD j Lin.Bounds.unbounded) (decide (j < i))

theorem retainedFlags_eq {α : Type} [Arith α] (kind : ExtKind) (bs : List (Lin.Bounds α)) :
    retainedFlags kind bs = (List.range bs.length).map (fun i => !domB kind bs i) := rfl

theorem retainedFlags_length {α : Type} [Arith α] (kind : ExtKind) (bs : List (Lin.Bounds α)) :
    (retainedFlags kind bs).length = bs.length := by simp [retainedFlags_eq]

theorem retainedFlags_get {α : Type} [Arith α] (kind : ExtKind) (bs : List (Lin.Bounds α)) (i : Nat)
    (hi : i < bs.length) : (retainedFlags kind bs)[i]? = some (!domB kind bs i) := by
  simp [retainedFlags_eq, hi]

/-- fix 46b0121: the flags actually used keep every non-dominated operand (and the possibly undefined ones). -/
theorem retainedFlagsE_length {α : Type} [Arith α] (kind : ExtKind) (es : List (Exp α)) (bs : List (Lin.Bounds α))
    (h : bs.length = es.length) : (retainedFlagsE kind es bs).length = es.length := by
  simp [retainedFlagsE, retainedFlags_length, h]

theorem retainedFlagsE_covers {α : Type} [Arith α] (kind : ExtKind) (es : List (Exp α)) (bs : List (Lin.Bounds α))
    (h : bs.length = es.length) :
    ∀ j : Nat, (retainedFlags kind bs)[j]? = some true → (retainedFlagsE kind es bs)[j]? = some true := by
  intro j hj
  have hjl : j < (retainedFlags kind bs).length := by
    by_contra hc; rw [List.getElem?_eq_none (by omega)] at hj; cases hj
  have hje : j < es.length := by rw [retainedFlags_length] at hjl; omega
  simp only [retainedFlagsE, List.getElem?_zipWith, hj, List.getElem?_eq_getElem hje, Option.map_some,
    Option.bind_some, Bool.true_or]

/-- the `i`-th interval (unbounded beyond the list). -/
def bAt {α : Type} [Arith α] (bs : List (Lin.Bounds α)) (i : Nat) : Lin.Bounds α := bs.getD i Lin.Bounds.unbounded

theorem domB_iff {α : Type} [Arith α] (kind : ExtKind) (bs : List (Lin.Bounds α)) (i : Nat) :
    domB kind bs i = true ↔
      ∃ j, j < bs.length ∧ j ≠ i ∧ domPair kind (bAt bs i) (bAt bs j) (decide (j < i)) = true := by
  unfold domB bAt
  rw [List.any_eq_true]
  constructor
  · rintro ⟨j, hj, hc⟩
    by_cases hij : i = j
    · rw [if_pos (by simpa using hij)] at hc; cases hc
    · rw [if_neg (by simpa using hij)] at hc
      exact ⟨j, List.mem_range.mp hj, fun h => hij h.symm, hc⟩
  · rintro ⟨j, hj, hne, hc⟩
    refine ⟨j, List.mem_range.mpr hj, ?_⟩
    rw [if_neg (by simpa using (fun h : i = j => hne h.symm))]
    exact hc

theorem domPair_max_iff {b o : Lin.Bounds (Ext K)} (hb : NotNaN b.lower ∧ NotNaN b.upper)
    (ho : NotNaN o.lower ∧ NotNaN o.upper) (jlti : Bool) :
    domPair .max b o jlti = true ↔
      toB b.upper ≤ toB o.lower ∧
        (¬ (toB b.lower = toB b.upper ∧ toB o.lower = toB o.upper ∧ toB b.lower = toB o.lower) ∨ jlti = true) := by
  unfold domPair
  have e1 : Arith.ge o.lower b.upper = true ↔ toB b.upper ≤ toB o.lower := extLe_iff_toB hb.2 ho.1
  have e2 : Arith.eq b.lower b.upper = true ↔ toB b.lower = toB b.upper := extEq_iff_toB hb.1 hb.2
  have e3 : Arith.eq o.lower o.upper = true ↔ toB o.lower = toB o.upper := extEq_iff_toB ho.1 ho.2
  have e4 : Arith.eq b.lower o.lower = true ↔ toB b.lower = toB o.lower := extEq_iff_toB hb.1 ho.1
  simp only
  by_cases hd : Arith.ge o.lower b.upper = true
  · simp only [hd, Bool.not_true, Bool.false_eq_true, if_false, Bool.or_eq_true, Bool.not_eq_true',
      Bool.and_eq_false_iff, e1.mp hd, true_and]
    rw [← e2, ← e3, ← e4]
    constructor
    · rintro (h | h)
      · left; rintro ⟨a1, a2, a3⟩
        rcases h with (h | h) | h
        · rw [a1] at h; cases h
        · rw [a2] at h; cases h
        · rw [a3] at h; cases h
      · exact Or.inr h
    · rintro (h | h)
      · left
        by_contra hcon
        apply h
        simp only [not_or, Bool.not_eq_false] at hcon
        exact ⟨hcon.1.1, hcon.1.2, hcon.2⟩
      · exact Or.inr h
  · have : ¬ toB b.upper ≤ toB o.lower := fun h => hd (e1.mpr h)
    simp [hd, this]

theorem domPair_min_iff {b o : Lin.Bounds (Ext K)} (hb : NotNaN b.lower ∧ NotNaN b.upper)
    (ho : NotNaN o.lower ∧ NotNaN o.upper) (jlti : Bool) :
    domPair .min b o jlti = true ↔
      toB o.upper ≤ toB b.lower ∧
        (¬ (toB b.lower = toB b.upper ∧ toB o.lower = toB o.upper ∧ toB b.lower = toB o.lower) ∨ jlti = true) := by
  unfold domPair
  have e1 : Arith.le o.upper b.lower = true ↔ toB o.upper ≤ toB b.lower := extLe_iff_toB ho.2 hb.1
  have e2 : Arith.eq b.lower b.upper = true ↔ toB b.lower = toB b.upper := extEq_iff_toB hb.1 hb.2
  have e3 : Arith.eq o.lower o.upper = true ↔ toB o.lower = toB o.upper := extEq_iff_toB ho.1 ho.2
  have e4 : Arith.eq b.lower o.lower = true ↔ toB b.lower = toB o.lower := extEq_iff_toB hb.1 ho.1
  simp only
  by_cases hd : Arith.le o.upper b.lower = true
  · simp only [hd, Bool.not_true, Bool.false_eq_true, if_false, Bool.or_eq_true, Bool.not_eq_true',
      Bool.and_eq_false_iff, e1.mp hd, true_and]
    rw [← e2, ← e3, ← e4]
    constructor
    · rintro (h | h)
      · left; rintro ⟨a1, a2, a3⟩
        rcases h with (h | h) | h
        · rw [a1] at h; cases h
        · rw [a2] at h; cases h
        · rw [a3] at h; cases h
      · exact Or.inr h
    · rintro (h | h)
      · left
        by_contra hcon
        apply h
        simp only [not_or, Bool.not_eq_false] at hcon
        exact ⟨hcon.1.1, hcon.1.2, hcon.2⟩
      · exact Or.inr h
  · have : ¬ toB o.upper ≤ toB b.lower := fun h => hd (e1.mpr h)
    simp [hd, this]

/-- lower / upper endpoint of the `i`-th interval, in the order `WithBot (WithTop K)`. -/
noncomputable def loB (bs : List (Lin.Bounds (Ext K))) (i : Nat) : WithBot (WithTop K) := toB (bAt bs i).lower
noncomputable def upB (bs : List (Lin.Bounds (Ext K))) (i : Nat) : WithBot (WithTop K) := toB (bAt bs i).upper

/-- no endpoint is NaN. -/
def NoNaN (bs : List (Lin.Bounds (Ext K))) : Prop := ∀ b ∈ bs, NotNaN b.lower ∧ NotNaN b.upper

theorem noNaN_bAt {bs : List (Lin.Bounds (Ext K))} (h : NoNaN bs) (i : Nat) :
    NotNaN (bAt bs i).lower ∧ NotNaN (bAt bs i).upper := by
  unfold bAt
  by_cases hi : i < bs.length
  · have : bs.getD i Lin.Bounds.unbounded = bs[i] := by simp [List.getD, hi]
    rw [this]; exact h _ (List.getElem_mem hi)
  · have : bs.getD i Lin.Bounds.unbounded = Lin.Bounds.unbounded := by simp [List.getD, hi]
    rw [this]
    exact ⟨by simp [Lin.Bounds.unbounded, NotNaN, Arith.negInf], by simp [Lin.Bounds.unbounded, NotNaN, Arith.posInf]⟩

theorem domB_max_iff {bs : List (Lin.Bounds (Ext K))} (h : NoNaN bs) (i : Nat) :
    domB .max bs i = true ↔ DomMax (loB bs) (upB bs) bs.length i := by
  rw [domB_iff]
  simp only [DomMax, loB, upB]
  constructor
  · rintro ⟨j, hj, hne, hc⟩
    obtain ⟨h1, h2⟩ := (domPair_max_iff (noNaN_bAt h i) (noNaN_bAt h j) _).mp hc
    exact ⟨j, hj, hne, h1, by simpa using h2⟩
  · rintro ⟨j, hj, hne, h1, h2⟩
    exact ⟨j, hj, hne, (domPair_max_iff (noNaN_bAt h i) (noNaN_bAt h j) _).mpr ⟨h1, by simpa using h2⟩⟩

theorem domB_min_iff {bs : List (Lin.Bounds (Ext K))} (h : NoNaN bs) (i : Nat) :
    domB .min bs i = true ↔ DomMin (loB bs) (upB bs) bs.length i := by
  rw [domB_iff]
  simp only [DomMin, loB, upB]
  constructor
  · rintro ⟨j, hj, hne, hc⟩
    obtain ⟨h1, h2⟩ := (domPair_min_iff (noNaN_bAt h i) (noNaN_bAt h j) _).mp hc
    exact ⟨j, hj, hne, h1, by simpa using h2⟩
  · rintro ⟨j, hj, hne, h1, h2⟩
    exact ⟨j, hj, hne, (domPair_min_iff (noNaN_bAt h i) (noNaN_bAt h j) _).mpr ⟨h1, by simpa using h2⟩⟩

/-! ### lists: `selectFlagged`, `evalList`, `boundsOfList` -/

section lists
variable {β : Type}

theorem mem_selectFlagged {y : β} : ∀ {xs : List β} {fs : List Bool},
    y ∈ selectFlagged xs fs ↔ ∃ i : Nat, xs[i]? = some y ∧ fs[i]? = some true
  | [], fs => by simp [selectFlagged]
  | x :: xs, [] => by simp [selectFlagged]
  | x :: xs, f :: fs => by
    have ih := mem_selectFlagged (y := y) (xs := xs) (fs := fs)
    cases f with
    | true =>
      simp only [selectFlagged, if_true, List.mem_cons, ih]
      constructor
      · rintro (rfl | ⟨i, h1, h2⟩)
        · exact ⟨0, by simp, by simp⟩
        · exact ⟨i + 1, by simpa using h1, by simpa using h2⟩
      · rintro ⟨i, h1, h2⟩
        cases i with
        | zero => left; simpa [eq_comm] using h1
        | succ i => right; exact ⟨i, by simpa using h1, by simpa using h2⟩
    | false =>
      simp only [selectFlagged, Bool.false_eq_true, if_false, ih]
      constructor
      · rintro ⟨i, h1, h2⟩; exact ⟨i + 1, by simpa using h1, by simpa using h2⟩
      · rintro ⟨i, h1, h2⟩
        cases i with
        | zero => simp at h2
        | succ i => exact ⟨i, by simpa using h1, by simpa using h2⟩

theorem selectFlagged_length : ∀ (xs : List β) (fs : List Bool), xs.length = fs.length →
    (selectFlagged xs fs).length = (fs.filter id).length
  | [], [], _ => rfl
  | [], _ :: _, h => by simp at h
  | _ :: _, [], h => by simp at h
  | x :: xs, f :: fs, h => by
    have ih := selectFlagged_length xs fs (by simpa using h)
    cases f <;> simp [selectFlagged, ih]

theorem selectFlagged_map {γ : Type} (g : β → γ) : ∀ (xs : List β) (fs : List Bool),
    selectFlagged (xs.map g) fs = (selectFlagged xs fs).map g
  | [], fs => by simp [selectFlagged]
  | x :: xs, [] => by simp [selectFlagged]
  | x :: xs, f :: fs => by
    cases f <;> simp [selectFlagged, selectFlagged_map g xs fs]
end lists

theorem boundsOfList_eq_map {α : Type} [Arith α] (bm : BoundsMap α) : ∀ es : List (Exp α),
    boundsOfList bm es = es.map (boundsOf bm)
  | [] => rfl
  | e :: es => by simp [boundsOfList, boundsOfList_eq_map bm es]

theorem evalList_eq_some_iff {ρ : String → K} : ∀ {es : List (Exp (Ext K))} {vs : List K},
    evalList ρ es = some vs ↔ List.Forall₂ (fun e v => eval ρ e = some v) es vs
  | [], vs => by
    cases vs <;> simp [evalList]
  | e :: es, vs => by
    simp only [evalList]
    cases he : eval ρ e with
    | none =>
      simp only [Option.bind_eq_bind, Option.bind_none, reduceCtorEq, false_iff]
      intro h; cases h with | cons h1 _ => rw [he] at h1; cases h1
    | some v =>
      cases hes : evalList ρ es with
      | none =>
        simp only [Option.bind_eq_bind, Option.bind_some, Option.bind_none, reduceCtorEq, false_iff]
        intro h
        cases h with
        | cons h1 h2 => rw [(evalList_eq_some_iff).mpr h2] at hes; cases hes
      | some ws =>
        simp only [Option.bind_eq_bind, Option.bind_some, Option.pure_def, Option.some.injEq]
        constructor
        · rintro rfl; exact List.Forall₂.cons he (evalList_eq_some_iff.mp hes)
        · intro h
          cases h with
          | cons h1 h2 =>
            rw [he] at h1; cases h1
            rw [(evalList_eq_some_iff).mpr h2] at hes; cases hes; rfl

theorem forall₂_selectFlagged {β γ : Type} {R : β → γ → Prop} : ∀ {xs : List β} {ys : List γ} (fs : List Bool),
    List.Forall₂ R xs ys → List.Forall₂ R (selectFlagged xs fs) (selectFlagged ys fs)
  | [], [], fs, _ => by simp [selectFlagged]
  | x :: xs, y :: ys, [], _ => by simp [selectFlagged]
  | x :: xs, y :: ys, f :: fs, h => by
    cases h with
    | cons h1 h2 =>
      cases f
      · simpa [selectFlagged] using forall₂_selectFlagged fs h2
      · simpa [selectFlagged] using List.Forall₂.cons h1 (forall₂_selectFlagged fs h2)

theorem evalList_selectFlagged {ρ : String → K} {es : List (Exp (Ext K))} {vs : List K} (fs : List Bool)
    (h : evalList ρ es = some vs) : evalList ρ (selectFlagged es fs) = some (selectFlagged vs fs) :=
  evalList_eq_some_iff.mpr (forall₂_selectFlagged fs (evalList_eq_some_iff.mp h))

/-! ### pruning keeps the extreme value -/

theorem kmax_eq (a b : K) : kmax a b = max a b := by
  unfold kmax
  by_cases h : a < b
  · simp [h, max_eq_right (le_of_lt h)]
  · simp [h, max_eq_left (not_lt.mp h)]

theorem kmin_eq (a b : K) : kmin a b = min a b := by
  unfold kmin
  by_cases h : b < a
  · simp [h, min_eq_right (le_of_lt h)]
  · simp [h, min_eq_left (not_lt.mp h)]

theorem foldl_kmax_eq (x : K) (xs : List K) : xs.foldl kmax x = xs.foldl max x := by
  congr 1; funext a b; exact kmax_eq a b
theorem foldl_kmin_eq (x : K) (xs : List K) : xs.foldl kmin x = xs.foldl min x := by
  congr 1; funext a b; exact kmin_eq a b

theorem noNaN_of_encl {obs : List (Lin.Bounds (Ext K))} {vs : List K} (hE : List.Forall₂ Encl obs vs) : NoNaN obs := by
  intro b hb
  obtain ⟨i, hi, rfl⟩ := List.mem_iff_getElem.mp hb
  obtain ⟨hlen, hget⟩ := List.forall₂_iff_get.mp hE
  have := hget i hi (by omega)
  simp only [List.get_eq_getElem] at this
  exact ⟨(lowerOK_iff_toB.mp this.1).1, (upperOK_iff_toB.mp this.2).1⟩

theorem bAt_of_lt {α : Type} [Arith α] {bs : List (Lin.Bounds α)} {i : Nat} (hi : i < bs.length) : bAt bs i = bs[i] := by
  simp [bAt, List.getD, hi]

/-- every operand value is below a retained one (max) … -/
theorem prune_max_vals {obs : List (Lin.Bounds (Ext K))} {vs : List K} (hE : List.Forall₂ Encl obs vs)
    {fl : List Bool} (hcov : ∀ j : Nat, (retainedFlags .max obs)[j]? = some true → fl[j]? = some true) :
    ∀ y ∈ vs, ∃ z ∈ selectFlagged vs fl, y ≤ z := by
  obtain ⟨hlen, hget⟩ := List.forall₂_iff_get.mp hE
  have hnn := noNaN_of_encl hE
  have key := Gadget.prune_max_exists (K := K) (fun a => toB (Ext.fin a)) toB_fin_le obs.length (loB obs) (upB obs)
    (fun i => vs.getD i 0) (by
      intro i hi
      have hi' : i < vs.length := by omega
      have := hget i hi hi'
      simp only [List.get_eq_getElem] at this
      have hv : vs.getD i 0 = vs[i] := by simp [List.getD, hi']
      simp only [loB, upB, bAt_of_lt hi, hv]
      exact ⟨(lowerOK_iff_toB.mp this.1).2, (upperOK_iff_toB.mp this.2).2⟩)
  intro y hy
  obtain ⟨i, hi, rfl⟩ := List.mem_iff_getElem.mp hy
  obtain ⟨j, hj, hnd, hle⟩ := key i (by omega)
  have hj' : j < vs.length := by omega
  refine ⟨vs[j], ?_, ?_⟩
  · refine mem_selectFlagged.mpr ⟨j, by simp [hj'], hcov j ?_⟩
    rw [retainedFlags_get _ _ _ hj]
    have : domB .max obs j = false := by
      cases hd : domB .max obs j with
      | false => rfl
      | true => exact absurd ((domB_max_iff hnn j).mp hd) hnd
    simp [this]
  · have h1 : vs.getD i 0 = vs[i] := by simp [List.getD, hi]
    have h2 : vs.getD j 0 = vs[j] := by simp [List.getD, hj']
    rw [← h1, ← h2]; exact hle

/-- … and above a retained one (min). -/
theorem prune_min_vals {obs : List (Lin.Bounds (Ext K))} {vs : List K} (hE : List.Forall₂ Encl obs vs)
    {fl : List Bool} (hcov : ∀ j : Nat, (retainedFlags .min obs)[j]? = some true → fl[j]? = some true) :
    ∀ y ∈ vs, ∃ z ∈ selectFlagged vs fl, z ≤ y := by
  obtain ⟨hlen, hget⟩ := List.forall₂_iff_get.mp hE
  have hnn := noNaN_of_encl hE
  have key := Gadget.prune_min_exists (K := K) (fun a => toB (Ext.fin a)) toB_fin_le obs.length (loB obs) (upB obs)
    (fun i => vs.getD i 0) (by
      intro i hi
      have hi' : i < vs.length := by omega
      have := hget i hi hi'
      simp only [List.get_eq_getElem] at this
      have hv : vs.getD i 0 = vs[i] := by simp [List.getD, hi']
      simp only [loB, upB, bAt_of_lt hi, hv]
      exact ⟨(lowerOK_iff_toB.mp this.1).2, (upperOK_iff_toB.mp this.2).2⟩)
  intro y hy
  obtain ⟨i, hi, rfl⟩ := List.mem_iff_getElem.mp hy
  obtain ⟨j, hj, hnd, hle⟩ := key i (by omega)
  have hj' : j < vs.length := by omega
  refine ⟨vs[j], ?_, ?_⟩
  · refine mem_selectFlagged.mpr ⟨j, by simp [hj'], hcov j ?_⟩
    rw [retainedFlags_get _ _ _ hj]
    have : domB .min obs j = false := by
      cases hd : domB .min obs j with
      | false => rfl
      | true => exact absurd ((domB_min_iff hnn j).mp hd) hnd
    simp [this]
  · have h1 : vs.getD i 0 = vs[i] := by simp [List.getD, hi]
    have h2 : vs.getD j 0 = vs[j] := by simp [List.getD, hj']
    rw [← h1, ← h2]; exact hle

theorem selectFlagged_subset {β : Type} {xs : List β} {fs : List Bool} {y : β} (h : y ∈ selectFlagged xs fs) : y ∈ xs := by
  obtain ⟨i, h1, _⟩ := mem_selectFlagged.mp h
  exact List.mem_of_getElem? h1

/-- the maximum of the retained values is the maximum of all values. -/
theorem max_pruned {obs : List (Lin.Bounds (Ext K))} {x : K} {xs : List K} (hE : List.Forall₂ Encl obs (x :: xs))
    {fl : List Bool} (hcov : ∀ j : Nat, (retainedFlags .max obs)[j]? = some true → fl[j]? = some true) :
    ∃ y ys, selectFlagged (x :: xs) fl = y :: ys ∧ ys.foldl max y = xs.foldl max x := by
  have hp := prune_max_vals hE hcov
  obtain ⟨z, hz, _⟩ := hp x (by simp)
  cases hsel : selectFlagged (x :: xs) fl with
  | nil => rw [hsel] at hz; cases hz
  | cons y ys =>
    refine ⟨y, ys, rfl, ?_⟩
    rw [Gadget.foldl_max_eq_iff]
    constructor
    · obtain ⟨z, hz, hle⟩ := hp _ (Gadget.foldl_max_mem x xs)
      have hzm : z ≤ xs.foldl max x := Gadget.le_foldl_max x xs z (selectFlagged_subset hz)
      rw [hsel] at hz
      rw [le_antisymm hle hzm]; exact hz
    · intro w hw
      rw [← hsel] at hw
      exact Gadget.le_foldl_max x xs w (selectFlagged_subset hw)

theorem min_pruned {obs : List (Lin.Bounds (Ext K))} {x : K} {xs : List K} (hE : List.Forall₂ Encl obs (x :: xs))
    {fl : List Bool} (hcov : ∀ j : Nat, (retainedFlags .min obs)[j]? = some true → fl[j]? = some true) :
    ∃ y ys, selectFlagged (x :: xs) fl = y :: ys ∧ ys.foldl min y = xs.foldl min x := by
  have hp := prune_min_vals hE hcov
  obtain ⟨z, hz, _⟩ := hp x (by simp)
  cases hsel : selectFlagged (x :: xs) fl with
  | nil => rw [hsel] at hz; cases hz
  | cons y ys =>
    refine ⟨y, ys, rfl, ?_⟩
    rw [Gadget.foldl_min_eq_iff]
    constructor
    · obtain ⟨z, hz, hle⟩ := hp _ (Gadget.foldl_min_mem x xs)
      have hzm : xs.foldl min x ≤ z := Gadget.foldl_min_le x xs z (selectFlagged_subset hz)
      rw [hsel] at hz
      rw [le_antisymm hzm hle]; exact hz
    · intro w hw
      rw [← hsel] at hw
      exact Gadget.foldl_min_le x xs w (selectFlagged_subset hw)

end Rooc.LinP
