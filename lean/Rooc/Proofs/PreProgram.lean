/-
Proof that transforming a program of the iteration fragment equals transforming its hand-unrolled
form (`Rooc/Pre/Program.lean`).
-/
import Rooc.Pre.Program
import Rooc.Proofs.Iter
namespace Rooc.Proofs.Program
set_option linter.unusedSimpArgs false
set_option linter.unusedSectionVars false
open Rooc Rooc.Pre Rooc.Proofs.Iter

/-! ### generic plumbing -/

theorem mapE_singleton_flatten {β γ : Type} (f : β → Except IErr γ) (l : List β) :
    O (mapE (fun y => (f y).map (fun z => [z])) l) = (O (mapE f l)).map (fun zs => zs.map (fun z => [z])) := by
  induction l with
  | nil => rfl
  | cons a l ih =>
    rw [O_mapE_cons, O_mapE_cons, ih, O_map]
    cases f a <;> simp
    cases mapE f l <;> simp

theorem flatten_map_singleton {γ : Type} (zs : List γ) : (zs.map (fun z => [z])).flatten = zs := by
  induction zs with
  | nil => rfl
  | cons z zs ih => simp [ih]

theorem O_mapE_append {β γ : Type} (f : β → Except IErr γ) (l1 l2 : List β) :
    O (mapE f (l1 ++ l2)) = (O (mapE f l1)).bind (fun a => (O (mapE f l2)).map (fun b => a ++ b)) := by
  induction l1 with
  | nil => simp [mapE]
  | cons a l ih =>
    simp only [List.cons_append]
    rw [O_mapE_cons, O_mapE_cons, ih]
    cases f a <;> simp
    cases mapE f l <;> simp
    cases mapE f l2 <;> simp

theorem O_mapE_flatten {β γ : Type} (f : β → Except IErr γ) (ls : List (List β)) :
    O (mapE f ls.flatten) = (O (mapE (mapE f) ls)).map List.flatten := by
  induction ls with
  | nil => rfl
  | cons l ls ih =>
    simp only [List.flatten_cons]
    rw [O_mapE_append, ih, O_mapE_cons]
    cases mapE f l <;> simp
    cases mapE (mapE f) ls <;> simp

theorem iterate_nil {β : Type} (k : Env → Except IErr β) (env : Env) : iterate k [] env = (k env).map (fun z => [z]) := by
  simp only [iterate, envs, ok_bind, mapE]
  cases k env <;> rfl

/-- iterating a factorised leaf -/
theorem O_iterate_comp {β δ : Type} (k1 : Env → Except IErr β) (k2 : Env → Except IErr δ) (f : δ → Except IErr β)
    (h : ∀ env, O (k1 env) = O (k2 env >>= f)) (its : List It) (env : Env) :
    O (iterate k1 its env) = O (iterate k2 its env >>= mapE f) := by
  simp only [iterate]
  rw [O_bind, O_bind, O_bind]
  cases envs its env with
  | error e => simp
  | ok es => simp only [O_ok, Option.bind_some]; rw [O_mapE_comp k1 k2 f h es, O_bind]

/-- **items**: expanding items with a factorised leaf = expanding to intermediate items, then
applying the second factor to each of them (which is what transforming the unrolled items does) -/
theorem O_expandItems_comp {X Y β : Type} (leaf1 : X → Env → Except IErr β) (unleaf : X → Env → Except IErr Y)
    (leaf2 : Y → Except IErr β) (its : X → List It)
    (env : Env) (xs : List X) (h : ∀ x ∈ xs, ∀ env, O (leaf1 x env) = O (unleaf x env >>= leaf2)) :
    O (expandItems leaf1 its env xs) = O (expandItems unleaf its env xs >>= mapE leaf2) := by
  simp only [expandItems]
  have hx : ∀ x ∈ xs, O (iterate (leaf1 x) (its x) env) = O (iterate (unleaf x) (its x) env >>= mapE leaf2) :=
    fun x hxm => O_iterate_comp _ _ _ (h x hxm) (its x) env
  rw [O_bind, O_mapE_comp_mem _ _ _ xs hx, O_bind, O_bind, O_bind]
  cases mapE (fun x => iterate (unleaf x) (its x) env) xs with
  | error e => simp
  | ok yss =>
    simp only [O_ok, O_pure, Option.bind_some, ok_bind, pure_ok]
    rw [O_mapE_flatten]
    cases mapE (mapE leaf2) yss <;> simp

/-- items without iterations are their single leaves -/
theorem O_expandItems_flat {Y β : Type} (leaf : Y → Env → Except IErr β) (its : Y → List It) (ys : List Y)
    (hits : ∀ y ∈ ys, its y = []) : O (expandItems leaf its [] ys) = O (mapE (fun y => leaf y []) ys) := by
  simp only [expandItems]
  have : O (mapE (fun y => iterate (leaf y) (its y) []) ys) = O (mapE (fun y => (leaf y []).map (fun z => [z])) ys) := by
    induction ys with
    | nil => rfl
    | cons y ys ih =>
      rw [O_mapE_cons, O_mapE_cons, ih (fun z hz => hits z (by simp [hz])), hits y (by simp), iterate_nil]
  rw [O_bind, this, mapE_singleton_flatten]
  cases mapE (fun y => leaf y []) ys <;> simp [flatten_map_singleton]

theorem mem_of_mapE {β γ : Type} (f : β → Except IErr γ) (P : γ → Prop) (hf : ∀ a y, f a = .ok y → P y)
    (l : List β) (ys : List γ) (h : mapE f l = .ok ys) : ∀ y ∈ ys, P y := mapE_forall f P hf l ys h

theorem expandItems_forall {X Y : Type} (unleaf : X → Env → Except IErr Y) (its : X → List It) (P : Y → Prop)
    (hP : ∀ x env y, unleaf x env = .ok y → P y) (env : Env) (xs : List X) (ys : List Y)
    (h : expandItems unleaf its env xs = .ok ys) : ∀ y ∈ ys, P y := by
  simp only [expandItems] at h
  cases hm : mapE (fun x => iterate (unleaf x) (its x) env) xs with
  | error e => simp [hm] at h
  | ok yss =>
    simp [hm] at h; subst h
    intro y hy
    obtain ⟨l, hl, hyl⟩ := List.mem_flatten.mp hy
    have : ∀ l ∈ yss, ∀ y ∈ l, P y := by
      apply mapE_forall _ (fun l => ∀ y ∈ l, P y) _ xs yss hm
      intro x l hx
      simp only [iterate] at hx
      cases he : envs (its x) env with
      | error e => simp [he] at hx
      | ok es => simp [he] at hx; exact mapE_forall _ P (fun env' y hy' => hP x env' y hy') es l hx
    exact this l hl y hyl

/-! ### leaves -/

theorem nameFlatten_unroll (env : Env) (n : NameM) : O (n.flatten env) = O (n.unroll env >>= NameM.flatten []) := by
  cases n with
  | plain s => simp [NameM.flatten, NameM.unroll]
  | cv base idx =>
    simp only [NameM.flatten, NameM.unroll]
    rw [O_bind, O_mapE_comp (idxFrag env) (unrollIdx env) (idxFrag []) (idxFrag_unroll env) idx, O_bind, O_bind, O_bind]
    cases mapE (unrollIdx env) idx with
    | error e => simp
    | ok idx' => simp only [O_ok, O_pure, Option.bind_some, ok_bind, pure_ok, NameM.flatten]; rw [O_bind]; simp only [O_ok]

theorem litCE_eval (c : CE) (env : Env) : O ((c.eval env)) = O (litCE c env >>= fun c' => c'.eval []) := by
  simp only [litCE]
  cases c.eval env <;> simp [Except.map, CE.eval]

section
variable {α : Type} [Arith α]

private theorem two_bounds (a b : CE) (env : Env) (k : Int → Int → Except IErr (VarType α)) :
    O (do let lo ← a.eval env; let hi ← b.eval env; k lo hi) =
    O (do let a' ← litCE a env; let b' ← litCE b env; (do let lo ← a'.eval []; let hi ← b'.eval []; k lo hi)) := by
  simp only [litCE]
  cases a.eval env <;> cases b.eval env <;> simp [Except.map, CE.eval]

theorem tyEval_unroll (env : Env) (t : TyM) : O (t.eval (α := α) env) = O (t.unroll env >>= fun t' => t'.eval (α := α) []) := by
  cases t with
  | bool => simp [TyM.eval, TyM.unroll]
  | real b =>
    cases b with
    | none => simp [TyM.eval, TyM.unroll]
    | some ab =>
      obtain ⟨a, b⟩ := ab
      simp only [TyM.eval, TyM.unroll]
      rw [two_bounds a b env]
      simp only [litCE]
      cases a.eval env <;> cases b.eval env <;> simp [Except.map, TyM.eval, CE.eval]
  | nnreal b =>
    cases b with
    | none => simp [TyM.eval, TyM.unroll]
    | some ab =>
      obtain ⟨a, b⟩ := ab
      simp only [TyM.eval, TyM.unroll]
      rw [two_bounds a b env]
      simp only [litCE]
      cases a.eval env <;> cases b.eval env <;> simp [Except.map, TyM.eval, CE.eval]
  | int a b =>
    simp only [TyM.eval, TyM.unroll]
    rw [two_bounds a b env]
    simp only [litCE]
    cases a.eval env <;> cases b.eval env <;> simp [Except.map, TyM.eval, CE.eval]

/-- pairing every name with the one type of the declaration -/
private theorem O_pairs {N T : Type} (a : N → Except IErr String) (t : Except IErr T) (vs : List N) (hne : vs ≠ []) :
    O (mapE (fun v => do let n ← a v; let ty ← t; pure (n, ty)) vs) =
      (O (mapE a vs)).bind (fun ns => (O t).map (fun ty => ns.map (fun n => (n, ty)))) := by
  induction vs with
  | nil => exact absurd rfl hne
  | cons v vs ih =>
    rw [O_mapE_cons, O_mapE_cons]
    cases vs with
    | nil => cases a v <;> cases t <;> simp [mapE]
    | cons w ws =>
      rw [ih (by simp)]
      cases a v <;> cases t <;> simp
      all_goals (cases mapE a (w :: ws) <;> simp)

theorem declLeaf_unroll (d : DeclM) (hd : d.vars ≠ []) (env : Env) :
    O (declLeaf (α := α) d env) = O (declUnrollLeaf d env >>= fun d' => declLeaf (α := α) d' []) := by
  simp only [declLeaf, declUnrollLeaf]
  rw [O_pairs (fun v => v.flatten env) (d.ty.eval (α := α) env) d.vars hd]
  rw [O_mapE_comp (fun v => v.flatten env) (NameM.unroll env) (NameM.flatten []) (nameFlatten_unroll env) d.vars]
  rw [tyEval_unroll env d.ty, O_bind, O_bind, O_bind]
  cases hv : mapE (NameM.unroll env) d.vars with
  | error e => simp
  | ok vars' =>
    have hne : vars' ≠ [] := by
      intro h0; have := mapE_length _ _ _ hv; rw [h0] at this; exact hd (List.eq_nil_of_length_eq_zero this.symm)
    simp only [O_ok, Option.bind_some, ok_bind]
    rw [O_bind]
    cases ht : d.ty.unroll env with
    | error e => cases mapE (NameM.flatten []) vars' <;> simp
    | ok ty' =>
      simp only [O_ok, O_pure, Option.bind_some, ok_bind, pure_ok]
      exact (O_pairs (fun v => v.flatten []) (ty'.eval (α := α) []) vars' hne).symm

/-- three independent factorised steps -/
theorem O_tri {A B C P Q R W : Type} (a1 : Except IErr A) (a2 : Except IErr B) (a3 : Except IErr C)
    (u1 : Except IErr P) (u2 : Except IErr Q) (u3 : Except IErr R)
    (b1 : P → Except IErr A) (b2 : Q → Except IErr B) (b3 : R → Except IErr C) (F : A → B → C → W)
    (h1 : O a1 = O (u1 >>= b1)) (h2 : O a2 = O (u2 >>= b2)) (h3 : O a3 = O (u3 >>= b3)) :
    O (do let x ← a1; let y ← a2; let z ← a3; pure (F x y z)) =
    O (do let p ← u1; let q ← u2; let r ← u3; (do let x ← b1 p; let y ← b2 q; let z ← b3 r; pure (F x y z))) := by
  cases u1 with
  | error e => simp at h1 ⊢; cases a1 <;> simp_all
  | ok p =>
    cases u2 with
    | error e => simp at h2 ⊢; cases a1 <;> cases a2 <;> simp_all
    | ok q =>
      cases u3 with
      | error e => simp at h3 ⊢; cases a1 <;> cases a2 <;> cases a3 <;> simp_all
      | ok r =>
        simp at h1 h2 h3 ⊢
        cases a1 <;> cases a2 <;> cases a3 <;> cases hb1 : b1 p <;> cases hb2 : b2 q <;> cases hb3 : b3 r <;> simp_all

theorem relLeaf_unroll (rel : Option (Cmp × ME)) (env : Env) :
    O (relLeaf (α := α) rel env) = O (relUnroll rel env >>= fun r' => relLeaf (α := α) r' []) := by
  cases rel with
  | none => simp [relLeaf, relUnroll]
  | some kr =>
    obtain ⟨k, r⟩ := kr
    simp only [relLeaf, relUnroll]
    rw [expand_unroll env r, O_bind, O_bind, O_bind]
    cases unroll env r <;> simp [relLeaf]
theorem relUnroll_shape (rel rel' : Option (Cmp × ME)) (env : Env) (h : relUnroll rel env = .ok rel') :
    cmpOf rel' = cmpOf rel ∧ rel'.isNone = rel.isNone := by
  cases rel with
  | none => simp [relUnroll] at h; subst h; simp
  | some kr =>
    obtain ⟨k, r⟩ := kr
    simp only [relUnroll] at h
    cases hu : unroll env r <;> simp [hu] at h
    subst h; simp [cmpOf]
theorem nameLeaf_unroll (name : Option NameM) (env : Env) :
    O (nameLeaf name env) = O (nameUnroll name env >>= fun n' => nameLeaf n' []) := by
  cases name with
  | none => simp [nameLeaf, nameUnroll]
  | some n =>
    simp only [nameLeaf, nameUnroll]
    rw [nameFlatten_unroll env n, O_bind, O_bind, O_bind]
    cases n.unroll env <;> simp [nameLeaf]

theorem consLeaf_unroll (c : ConsM) (env : Env) :
    O (consLeaf (α := α) c env) = O (consUnrollLeaf c env >>= fun c' => consLeaf (α := α) c' []) := by
  obtain ⟨name, lhs, rel, its⟩ := c
  simp only [consLeaf, consUnrollLeaf]
  have key := O_tri (expand (α := α) env lhs) (relLeaf (α := α) rel env) (nameLeaf name env)
    (unroll env lhs) (relUnroll rel env) (nameUnroll name env)
    (fun l' => expand (α := α) [] l') (fun r' => relLeaf (α := α) r' []) (fun n' => nameLeaf n' [])
    (fun l r n => ({ name := n, lhs := l, cmp := cmpOf rel, rhs := r, isAssert := rel.isNone } : Constraint α))
    (expand_unroll env lhs) (relLeaf_unroll rel env) (nameLeaf_unroll name env)
  rw [key]
  cases unroll env lhs with
  | error e => simp
  | ok l' =>
    cases hr : relUnroll rel env with
    | error e => simp
    | ok r' =>
      obtain ⟨hc, hn⟩ := relUnroll_shape rel r' env hr
      cases nameUnroll name env with
      | error e => simp
      | ok n' => simp [consLeaf, hc, hn]

theorem objLeaf_unroll (o : Option (OptType × ME)) (env : Env) :
    O (objLeaf (α := α) o env) = O (objUnroll o env >>= fun o' => objLeaf (α := α) o' []) := by
  cases o with
  | none => simp [objLeaf, objUnroll]
  | some te =>
    obtain ⟨t, e⟩ := te
    simp only [objLeaf, objUnroll]
    rw [expand_unroll env e, O_bind, O_bind, O_bind]
    cases unroll env e <;> simp [objLeaf]
theorem objUnroll_shape (o o' : Option (OptType × ME)) (env : Env) (h : objUnroll o env = .ok o') : optTypeOf o' = optTypeOf o := by
  cases o with
  | none => simp [objUnroll] at h; subst h; rfl
  | some te =>
    obtain ⟨t, e⟩ := te
    simp only [objUnroll] at h
    cases hu : unroll env e <;> simp [hu] at h
    subst h; rfl

theorem O_tri_congr {A B C W : Type} (a1 a1' : Except IErr A) (a2 a2' : Except IErr B) (a3 a3' : Except IErr C) (F : A → B → C → W)
    (h1 : O a1 = O a1') (h2 : O a2 = O a2') (h3 : O a3 = O a3') :
    O (do let x ← a1; let y ← a2; let z ← a3; pure (F x y z)) = O (do let x ← a1'; let y ← a2'; let z ← a3'; pure (F x y z)) := by
  cases a1 <;> cases a1' <;> cases a2 <;> cases a2' <;> cases a3 <;> cases a3' <;> simp_all

/-- the domain of the unrolled declarations -/
theorem domainOf_unroll (env : Env) (decls : List DeclM) (hwf : ∀ d ∈ decls, d.vars ≠ []) :
    O (domainOf (α := α) env decls) =
      O (expandItems declUnrollLeaf DeclM.its env decls >>= fun ds' => domainOf (α := α) [] ds') := by
  simp only [domainOf]
  rw [O_bind, O_expandItems_comp (declLeaf (α := α)) declUnrollLeaf (fun d' => declLeaf (α := α) d' []) DeclM.its env decls
    (fun d hd env' => declLeaf_unroll d (hwf d hd) env'), O_bind, O_bind]
  cases hu : expandItems declUnrollLeaf DeclM.its env decls with
  | error e => simp
  | ok ds' =>
    have hits : ∀ d' ∈ ds', d'.its = [] := by
      apply expandItems_forall declUnrollLeaf DeclM.its (fun d' => d'.its = []) _ env decls ds' hu
      intro d env' d' h
      simp only [declUnrollLeaf] at h
      cases h1 : mapE (NameM.unroll env') d.vars <;> cases h2 : TyM.unroll env' d.ty <;> simp [h1, h2] at h
      subst h; rfl
    simp only [O_ok, Option.bind_some, ok_bind]
    rw [O_bind, O_expandItems_flat (declLeaf (α := α)) DeclM.its ds' hits]

theorem consOf_unroll (env : Env) (cons : List ConsM) :
    O (expandItems (consLeaf (α := α)) ConsM.its env cons) =
      O (expandItems consUnrollLeaf ConsM.its env cons >>= fun cs' => expandItems (consLeaf (α := α)) ConsM.its [] cs') := by
  rw [O_expandItems_comp (consLeaf (α := α)) consUnrollLeaf (fun c' => consLeaf (α := α) c' []) ConsM.its env cons
    (fun c _ env' => consLeaf_unroll c env'), O_bind, O_bind]
  cases hu : expandItems consUnrollLeaf ConsM.its env cons with
  | error e => rfl
  | ok cs' =>
    have hits : ∀ c' ∈ cs', c'.its = [] := by
      apply expandItems_forall consUnrollLeaf ConsM.its (fun c' => c'.its = []) _ env cons cs' hu
      intro c env' c' h
      simp only [consUnrollLeaf] at h
      cases h1 : unroll env' c.lhs <;> cases h2 : relUnroll c.rel env' <;> cases h3 : nameUnroll c.name env' <;> simp [h1, h2, h3] at h
      subst h; rfl
    simp only [O_ok, Option.bind_some]
    rw [O_expandItems_flat (consLeaf (α := α)) ConsM.its cs' hits]

/-- **whole programs**: transforming = transforming the hand-unrolled program (raw model) -/
theorem transformRaw_unroll (p : ProgM) (hwf : ∀ d ∈ p.decls, d.vars ≠ []) :
    O (transformRaw (α := α) p) = O (unrollProg p >>= fun q => transformRaw (α := α) q) := by
  simp only [transformRaw, unrollProg]
  rw [O_bind, O_bind, O_bind]
  cases evalConsts p.consts [] with
  | error e => simp
  | ok env =>
    simp only [O_ok, Option.bind_some, ok_bind, transformIn]
    have key := O_tri (domainOf (α := α) env p.decls) (objLeaf (α := α) p.obj env) (expandItems (consLeaf (α := α)) ConsM.its env p.cons)
      (expandItems declUnrollLeaf DeclM.its env p.decls) (objUnroll p.obj env) (expandItems consUnrollLeaf ConsM.its env p.cons)
      (fun ds' => domainOf (α := α) [] ds') (fun o' => objLeaf (α := α) o' []) (fun cs' => expandItems (consLeaf (α := α)) ConsM.its [] cs')
      (fun domain o cs => ({ optType := optTypeOf p.obj, objective := o, constraints := cs, domain := domain } : RawModel α))
      (domainOf_unroll env p.decls hwf) (objLeaf_unroll p.obj env) (consOf_unroll env p.cons)
    rw [key]
    cases expandItems declUnrollLeaf DeclM.its env p.decls with
    | error e => simp
    | ok ds' =>
      cases ho : objUnroll p.obj env with
      | error e => simp
      | ok o' =>
        have hs := objUnroll_shape p.obj o' env ho
        cases expandItems consUnrollLeaf ConsM.its env p.cons with
        | error e => simp
        | ok cs' => simp [evalConsts, transformIn, hs]

/-- … and therefore the finished model with its usage counts -/
theorem transformCore_unroll (p : ProgM) (hwf : ∀ d ∈ p.decls, d.vars ≠ []) :
    O (transformCore (α := α) p) = O (unrollProg p >>= fun q => transformCore (α := α) q) := by
  simp only [transformCore]
  rw [O_bind, transformRaw_unroll p hwf, O_bind, O_bind]
  cases unrollProg p with
  | error e => simp
  | ok q => simp only [O_ok, Option.bind_some]; rw [O_bind]

end

/-- the unrolled program: no `where` section, no `for` -/
theorem unrollProg_plain (p q : ProgM) (h : unrollProg p = .ok q) :
    q.consts = [] ∧ (∀ c ∈ q.cons, c.its = []) ∧ (∀ d ∈ q.decls, d.its = []) := by
  simp only [unrollProg] at h
  cases he : evalConsts p.consts [] with
  | error e => simp [he] at h
  | ok env =>
    cases hd : expandItems declUnrollLeaf DeclM.its env p.decls with
    | error e => simp [he, hd] at h
    | ok ds' =>
      cases ho : objUnroll p.obj env with
      | error e => simp [he, hd, ho] at h
      | ok o' =>
        cases hc : expandItems consUnrollLeaf ConsM.its env p.cons with
        | error e => simp [he, hd, ho, hc] at h
        | ok cs' =>
          simp [he, hd, ho, hc] at h
          subst h
          refine ⟨rfl, ?_, ?_⟩
          · apply expandItems_forall consUnrollLeaf ConsM.its (fun c' => c'.its = []) _ env p.cons cs' hc
            intro c env' c' h
            simp only [consUnrollLeaf] at h
            cases h1 : unroll env' c.lhs <;> cases h2 : relUnroll c.rel env' <;> cases h3 : nameUnroll c.name env' <;> simp [h1, h2, h3] at h
            subst h; rfl
          · apply expandItems_forall declUnrollLeaf DeclM.its (fun d' => d'.its = []) _ env p.decls ds' hd
            intro d env' d' h
            simp only [declUnrollLeaf] at h
            cases h1 : mapE (NameM.unroll env') d.vars <;> cases h2 : TyM.unroll env' d.ty <;> simp [h1, h2] at h
            subst h; rfl

end Rooc.Proofs.Program
