/-
Stage D, part 6: `directional_logic_witness` on every formula.
-/
import Rooc.Proofs.LinD5

set_option linter.unusedSectionVars false
set_option linter.unusedSimpArgs false
set_option linter.unusedVariables false
set_option linter.unusedTactic false
set_option linter.unreachableTactic false

namespace Rooc.LinP
open Rooc Rooc.Lin Rooc.Sem Rooc.Exp
open Rooc.Lin.Gadget

variable {K : Type} [Field K] [LinearOrder K] [IsStrictOrderedRing K] [FloorRing K]

/-- the same witness for an equivalent statement. -/
theorem DirOK.congr {d0 : List (DomVar (Ext K))} {s s' : St (Ext K)} {e e' : Exp (Ext K)} {t t' : Bool}
    {x : Exp (Ext K)} (A : DirOK d0 s s' e t x)
    (h : ∀ ρ : String → K, Sat ρ s → (HasTruth e' t' ρ ↔ HasTruth e t ρ)) (hb : BinOn s e') :
    DirOK d0 s s' e' t' x :=
  { inv := A.inv, dom := A.dom, bx := A.bx, back := A.back
    sound := fun ρ hs hx => (h ρ (A.back ρ hs)).mpr (A.sound ρ hs hx)
    complete := fun ρ hs => by
      obtain ⟨ρ', h1, h2, h3⟩ := A.complete ρ hs
      exact ⟨ρ', h1, h2, fun ht => h3 ((h ρ hs).mp ht)⟩
    bin := hb }

theorem b01_one_le {v : K} (hv : B01 v) : 1 ≤ v ↔ v = 1 := by
  rcases hv with rfl | rfl <;> simp

theorem evs_b01 {d : List (DomVar (Ext K))} {xs : List (Exp (Ext K))} (h : ∀ x ∈ xs, BExp d x) {ρ : String → K}
    (hd : DomSat ρ d) : ∀ a ∈ xs.map (ev ρ), B01 a := by
  intro a ha
  obtain ⟨x, hx, rfl⟩ := List.mem_map.mp ha
  exact (h x hx).ev01 hd

theorem sum_ge_one_iff {d : List (DomVar (Ext K))} {xs : List (Exp (Ext K))} (h : ∀ x ∈ xs, BExp d x)
    {ρ : String → K} (hd : DomSat ρ d) : 1 ≤ ev ρ (sumExps xs) ↔ ∃ x ∈ xs, ev ρ x = 1 := by
  rw [ev_sum (fun x hx => (h x hx).defd), sum01_ge_one_iff _ (evs_b01 h hd)]
  constructor
  · rintro ⟨a, ha, h1⟩; obtain ⟨x, hx, rfl⟩ := List.mem_map.mp ha; exact ⟨x, hx, h1⟩
  · rintro ⟨x, hx, h1⟩; exact ⟨_, List.mem_map.mpr ⟨x, hx, rfl⟩, h1⟩

theorem sum_nonneg' {d : List (DomVar (Ext K))} {xs : List (Exp (Ext K))} (h : ∀ x ∈ xs, BExp d x)
    {ρ : String → K} (hd : DomSat ρ d) : 0 ≤ ev ρ (sumExps xs) := by
  rw [ev_sum (fun x hx => (h x hx).defd)]; exact (sum01_bounds _ (evs_b01 h hd)).1

/-! ### finishing the witness of a conjunction / disjunction -/

theorem dir_and_finish {d0 : List (DomVar (Ext K))} {s s1 s2 s3 : St (Ext K)} {es xs : List (Exp (Ext K))}
    {t : Bool} {w : String} (L : DirListOK d0 s s1 es t xs) (hdef : DefOn s.domain (.and es))
    (hf : freshWitness s1 = .ok (w, s2))
    (hrows : seqOK (fun u => emitConstraint (.var w) .le u "") (if t = true then xs else [sumExps xs]) s2 s3) :
    DirOK d0 s s3 (.and es) t (.var w) := by
  cases t with
  | true =>
    simp only [if_true] at hrows
    refine witness_finish L.inv hf (fun u hu => (L.bx u hu).ae) hrows L.dom L.back ?_ ?_ ?_ (binOn_and _ _)
    · intro ρ hs hle
      refine and_true_intro (f2_all_left (L.sound ρ hs) (fun x hx => ?_))
      exact (b01_one_le ((L.bx x hx).ev01 hs.dom)).mp (hle x hx)
    · intro ρ hs u hu; exact ((L.bx u hu).ev01 hs.dom).nonneg
    · intro ρ hs
      obtain ⟨ρ', hag, hs', hF⟩ := L.complete ρ hs
      refine ⟨ρ', hag, hs', fun ht u hu => ?_⟩
      have hall := and_true_elim ht (fun e he v hv => L.bin e he ρ hs v hv)
      exact le_of_eq (f2_all_right hF hall u hu).symm
  | false =>
    simp only [Bool.false_eq_true, if_false] at hrows
    have hsum : AE s1.domain (sumExps xs) := AE.sum (fun x hx => (L.bx x hx).ae)
    refine witness_finish L.inv hf (fun u hu => by simp only [List.mem_singleton] at hu; subst hu; exact hsum)
      hrows L.dom L.back ?_ ?_ ?_ (binOn_and _ _)
    · intro ρ hs hle
      have h1 := (sum_ge_one_iff L.bx hs.dom).mp (hle _ (by simp))
      exact and_false_intro (f2_ex_left (L.sound ρ hs) h1) (hdef ρ (L.back ρ hs).dom)
    · intro ρ hs u hu
      simp only [List.mem_singleton] at hu; subst hu
      exact sum_nonneg' L.bx hs.dom
    · intro ρ hs
      obtain ⟨ρ', hag, hs', hF⟩ := L.complete ρ hs
      refine ⟨ρ', hag, hs', fun ht u hu => ?_⟩
      simp only [List.mem_singleton] at hu; subst hu
      have hex := and_false_elim ht (fun e he v hv => L.bin e he ρ hs v hv)
      exact (sum_ge_one_iff L.bx hs'.dom).mpr (f2_ex_right hF hex)

theorem dir_or_finish {d0 : List (DomVar (Ext K))} {s s1 s2 s3 : St (Ext K)} {es xs : List (Exp (Ext K))}
    {t : Bool} {w : String} (L : DirListOK d0 s s1 es t xs) (hdef : DefOn s.domain (.or es))
    (hf : freshWitness s1 = .ok (w, s2))
    (hrows : seqOK (fun u => emitConstraint (.var w) .le u "") (if t = true then [sumExps xs] else xs) s2 s3) :
    DirOK d0 s s3 (.or es) t (.var w) := by
  cases t with
  | false =>
    simp only [Bool.false_eq_true, if_false] at hrows
    refine witness_finish L.inv hf (fun u hu => (L.bx u hu).ae) hrows L.dom L.back ?_ ?_ ?_ (binOn_or _ _)
    · intro ρ hs hle
      refine or_false_intro (f2_all_left (L.sound ρ hs) (fun x hx => ?_))
      exact (b01_one_le ((L.bx x hx).ev01 hs.dom)).mp (hle x hx)
    · intro ρ hs u hu; exact ((L.bx u hu).ev01 hs.dom).nonneg
    · intro ρ hs
      obtain ⟨ρ', hag, hs', hF⟩ := L.complete ρ hs
      refine ⟨ρ', hag, hs', fun ht u hu => ?_⟩
      have hall := or_false_elim ht (fun e he v hv => L.bin e he ρ hs v hv)
      exact le_of_eq (f2_all_right hF hall u hu).symm
  | true =>
    simp only [if_true] at hrows
    have hsum : AE s1.domain (sumExps xs) := AE.sum (fun x hx => (L.bx x hx).ae)
    refine witness_finish L.inv hf (fun u hu => by simp only [List.mem_singleton] at hu; subst hu; exact hsum)
      hrows L.dom L.back ?_ ?_ ?_ (binOn_or _ _)
    · intro ρ hs hle
      have h1 := (sum_ge_one_iff L.bx hs.dom).mp (hle _ (by simp))
      exact or_true_intro (f2_ex_left (L.sound ρ hs) h1) (hdef ρ (L.back ρ hs).dom)
    · intro ρ hs u hu
      simp only [List.mem_singleton] at hu; subst hu
      exact sum_nonneg' L.bx hs.dom
    · intro ρ hs
      obtain ⟨ρ', hag, hs', hF⟩ := L.complete ρ hs
      refine ⟨ρ', hag, hs', fun ht u hu => ?_⟩
      simp only [List.mem_singleton] at hu; subst hu
      have hex := or_true_elim ht (fun e he v hv => L.bin e he ρ hs v hv)
      exact (sum_ge_one_iff L.bx hs'.dom).mpr (f2_ex_right hF hex)

/-! ### `iffWitness` -/

/-- the two upper bounds of the witness of `l iff r` having truth `t`. -/
noncomputable def iffUbs (t : Bool) (a b : Exp (Ext K)) : List (Exp (Ext K)) :=
  if t then [addExp (subExp (.num Arith.one) a) b, subExp (addExp (.num Arith.one) a) b]
  else [addExp a b, subExp (subExp (.num (Arith.ofInt 2)) a) b]

theorem forIn_emit_ok (w : String) (ubs : List (Exp (Ext K))) (s : St (Ext K)) (r : PUnit × St (Ext K)) :
    (forIn ubs PUnit.unit (fun ub (_ : PUnit) => do
        emitConstraint (.var w) .le ub ""
        pure (ForInStep.yield PUnit.unit)) : M (Ext K) PUnit) s = .ok r ↔
      seqOK (fun u => emitConstraint (.var w) .le u "") ubs s r.2 :=
  forIn_ok (fun u => emitConstraint (.var w) .le u "") _ (by intro x u; rfl) ubs s r

theorem iffWitness_ok (l r : Exp (Ext K)) (t : Bool) (s : St (Ext K)) (x : Exp (Ext K)) (s' : St (Ext K)) :
    iffWitness l r t s = .ok (x, s') ↔
      ∃ a s1 b s2 w s3, linBinaryOperand l s = .ok (a, s1) ∧ linBinaryOperand r s1 = .ok (b, s2) ∧
        freshWitness s2 = .ok (w, s3) ∧
        seqOK (fun u => emitConstraint (.var w) .le u "") (iffUbs t a b) s3 s' ∧ x = .var w := by
  rw [iffWitness]
  simp only [bind_ok, pure_ok, forIn_emit_ok, Prod.mk.injEq]
  constructor
  · rintro ⟨a, s1, h1, b, s2, h2, w, s3, h3, u, s4, h4, rfl, rfl⟩
    exact ⟨a, s1, b, s2, w, s3, h1, h2, h3, h4, rfl⟩
  · rintro ⟨a, s1, b, s2, w, s3, h1, h2, h3, h4, rfl⟩
    exact ⟨a, s1, h1, b, s2, h2, w, s3, h3, ⟨⟩, s', h4, rfl, rfl⟩

theorem FinE_iff {l r : Exp (Ext K)} (h : FinE (.iff l r)) : FinE l ∧ FinE r :=
  ⟨h.iff_mem l (by simp), h.iff_mem r (by simp)⟩

theorem defOn_iff {d : List (DomVar (Ext K))} {l r : Exp (Ext K)} (h : DefOn d (.iff l r)) :
    ∀ ρ : String → K, DomSat ρ d → ∃ x y, eval ρ l = some x ∧ eval ρ r = some y := by
  intro ρ hd
  obtain ⟨v, hv⟩ := h ρ hd
  obtain ⟨x, y, hxy, _⟩ := eval_logic2_some (eval_iff_eq ρ l r) hv
  have := evalList_eq_some_iff.mp hxy
  cases this with
  | cons h1 h2 => cases h2 with
    | cons h3 _ => exact ⟨x, y, h1, h3⟩

theorem iff_ubs_sem {a b : K} (ha : B01 a) (hb : B01 b) (t : Bool) :
    ((if t = true then (1 ≤ 1 - a + b ∧ 1 ≤ 1 + a - b) else (1 ≤ a + b ∧ 1 ≤ 2 - a - b)) ↔
      ((a = 1 ↔ b = 1) ↔ t = true)) ∧
    (if t = true then (0 ≤ 1 - a + b ∧ 0 ≤ 1 + a - b) else (0 ≤ a + b ∧ 0 ≤ 2 - a - b)) := by
  rcases ha with rfl | rfl <;> rcases hb with rfl | rfl <;> cases t <;> norm_num

theorem iff_witness {d0 : List (DomVar (Ext K))} {s s' : St (Ext K)} {l r : Exp (Ext K)} {t : Bool}
    {x : Exp (Ext K)} (hinv : LoopInvD d0 s) (hl : ∀ y ∈ varsOf l, inScope s.domain y)
    (hr : ∀ y ∈ varsOf r, inScope s.domain y) (hfl : FinE l) (hfr : FinE r) (hdef : DefOn s.domain (.iff l r))
    (h : iffWitness l r t s = .ok (x, s')) : DirOK d0 s s' (.iff l r) t x := by
  obtain ⟨a, s1, b, s2, w, s3, h1, h2, h3, h4, rfl⟩ := (iffWitness_ok _ _ _ _ _ _).mp h
  obtain ⟨inv1, dom1, ba, back1, val1, comp1⟩ := binOperand_step hinv hl hfl h1
  obtain ⟨inv2, dom2, bb, back2, val2, comp2⟩ := binOperand_step inv1 (fun y hy => scope_of_dom dom1 (hr y hy)) hfr h2
  have ba2 : BExp s2.domain a := BExp.of_dom dom2 ba
  have h1e : AE s2.domain (.num (Arith.one : Ext K)) := by rw [ar_one]; exact AE.num _ _
  have h2e : AE s2.domain (.num (Arith.ofInt 2 : Ext K)) := by rw [ar_ofInt]; exact AE.num _ _
  have hubs : ∀ u ∈ iffUbs t a b, AE s2.domain u := by
    intro u hu
    unfold iffUbs at hu
    cases t
    · simp only [Bool.false_eq_true, if_false, List.mem_cons, List.mem_nil_iff, or_false] at hu
      rcases hu with rfl | rfl
      · exact ba2.ae.add bb.ae
      · exact (h2e.sub ba2.ae).sub bb.ae
    · simp only [if_true, List.mem_cons, List.mem_nil_iff, or_false] at hu
      rcases hu with rfl | rfl
      · exact (h1e.sub ba2.ae).add bb.ae
      · exact (h1e.add ba2.ae).sub bb.ae
  have hone : ∀ ρ : String → K, ev ρ (.num (Arith.one : Ext K)) = 1 := fun ρ => by rw [ar_one, ev_num]
  have htwo : ∀ ρ : String → K, ev ρ (.num (Arith.ofInt 2 : Ext K)) = 2 := fun ρ => by
    rw [ar_ofInt, ev_num]; norm_num
  -- the rows, in terms of the two operand values
  have hrows : ∀ (ρ : String → K) (P : K → Prop),
      (∀ u ∈ iffUbs t a b, P (ev ρ u)) ↔
        if t = true then (P (1 - ev ρ a + ev ρ b) ∧ P (1 + ev ρ a - ev ρ b))
        else (P (ev ρ a + ev ρ b) ∧ P (2 - ev ρ a - ev ρ b)) := by
    intro ρ P
    unfold iffUbs
    cases t
    · simp only [Bool.false_eq_true, if_false, List.mem_cons, List.mem_nil_iff, or_false, forall_eq_or_imp,
        forall_eq]
      rw [ev_add ba2.defd bb.defd, ev_sub (h2e.sub ba2.ae).defd bb.defd, ev_sub h2e.defd ba2.defd, htwo]
    · simp only [if_true, List.mem_cons, List.mem_nil_iff, or_false, forall_eq_or_imp, forall_eq]
      rw [ev_add (h1e.sub ba2.ae).defd bb.defd, ev_sub h1e.defd ba2.defd,
        ev_sub (h1e.add ba2.ae).defd bb.defd, ev_add h1e.defd ba2.defd, hone]
  refine witness_finish inv2 h3 hubs h4 (dom_trans dom1 dom2) (fun ρ hs => back1 ρ (back2 ρ hs)) ?_ ?_ ?_
    (binOn_iff _ _ _)
  · intro ρ hs hle
    have hs1 := back2 ρ hs
    have hs0 := back1 ρ hs1
    obtain ⟨x, y, hx, hy⟩ := defOn_iff hdef ρ hs0.dom
    have hxa : ev ρ a = x := val1 ρ hs1 x hx
    have hyb : ev ρ b = y := val2 ρ hs y hy
    have hA : B01 x := hxa ▸ ba2.ev01 hs.dom
    have hB : B01 y := hyb ▸ bb.ev01 hs.dom
    have := (hrows ρ (fun v => 1 ≤ v)).mp hle
    rw [hxa, hyb] at this
    exact (hasTruth_iff hx hy hA hB t).mpr ((iff_ubs_sem hA hB t).1.mp this)
  · intro ρ hs
    have hA : B01 (ev ρ a) := ba2.ev01 hs.dom
    have hB : B01 (ev ρ b) := bb.ev01 hs.dom
    exact (hrows ρ (fun v => 0 ≤ v)).mpr (iff_ubs_sem hA hB t).2
  · intro ρ hs
    obtain ⟨x, y, hx, hy⟩ := defOn_iff hdef ρ hs.dom
    obtain ⟨ρ1, hag1, hs1, hva⟩ := comp1 ρ hs x hx
    have hy1 : eval ρ1 r = some y := by rw [eval_congr r (fun z hz => hag1 z (hr z hz))]; exact hy
    obtain ⟨ρ2, hag2, hs2, hvb⟩ := comp2 ρ1 hs1 y hy1
    have hva2 : ev ρ2 a = x := by rw [ev_congr (fun z hz => hag2 z (ba.ag.2 z hz))]; exact hva
    refine ⟨ρ2, fun z hz => by rw [hag2 z (scope_of_dom dom1 hz), hag1 z hz], hs2, fun ht => ?_⟩
    have hA : B01 x := hva2 ▸ ba2.ev01 hs2.dom
    have hB : B01 y := hvb ▸ bb.ev01 hs2.dom
    have := (iff_ubs_sem hA hB t).1.mpr ((hasTruth_iff hx hy hA hB t).mp ht)
    rw [← hva2, ← hvb] at this
    exact (hrows ρ2 (fun v => 1 ≤ v)).mpr this

end Rooc.LinP
