/-
C10 at the level of compilation: `Compile.normalizedForBounds` (linearizer.rs `normalized_for_bounds`, the
glue that hands the constraints to bound inference) normalises BOTH sides of EVERY constraint with
`normalize = simplify ∘ flatten ∘ simplify` — there is no shortcut for "leaf" sides (a bare abs/min/max block is
a leaf for `Exp::is_leaf`).  Hence constraints whose sides have equal normal forms — in particular twins that
differ only in how a constant is spelled (`respell_normalize`) — reach `BoundsAnalyzer::analyze` as the very
same list, and the bounds stage of `Compile.linearize` is identical for them.
-/
import Rooc.Compile
import Rooc.Proofs.ExpLemmasSpell
namespace Rooc
namespace Compile
set_option linter.unusedSectionVars false
variable {α : Type} [Arith α]

/-- what `normalized_for_bounds` does to one constraint. -/
def normConstraint (c : Constraint α) : Option (Constraint α) :=
  (Lin.normalizeExp c.lhs).bind fun l =>
    if c.isAssert then some { c with lhs := l }
    else (Lin.normalizeExp c.rhs).map fun r => { c with lhs := l, rhs := r }

/-- all-or-nothing traversal. -/
def mapOpt {β γ : Type} (f : β → Option γ) : List β → Option (List γ)
  | [] => some []
  | x :: xs => (f x).bind fun y => (mapOpt f xs).map (y :: ·)

/-- **`normalized_for_bounds` = `normalize` on both sides of every constraint** (no leaf shortcut). -/
theorem normalizedForBounds_spec (cs : List (Constraint α)) :
    normalizedForBounds cs = mapOpt normConstraint cs := by
  induction cs with
  | nil => rfl
  | cons c cs ih =>
    have hstep : normalizedForBounds (c :: cs) =
        (normalizedForBounds cs).bind fun rest => (normConstraint c).map (· :: rest) := by
      simp only [normalizedForBounds, List.foldr_cons, normConstraint]
      cases hrest : List.foldr _ (some []) cs with
      | none => rfl
      | some rest =>
        cases hl : Lin.normalizeExp c.lhs with
        | none => rfl
        | some l =>
          by_cases ha : c.isAssert = true
          · simp [ha]
          · simp only [ha]
            cases hr : Lin.normalizeExp c.rhs <;> rfl
    rw [hstep, ih]
    simp only [mapOpt]
    cases mapOpt normConstraint cs <;> cases normConstraint c <;> rfl

/-- constraints with the same normal forms are indistinguishable for bound inference. -/
theorem normalizedForBounds_congr {cs cs' : List (Constraint α)}
    (h : List.Forall₂ (fun c c' => normConstraint c = normConstraint c') cs cs') :
    normalizedForBounds cs = normalizedForBounds cs' := by
  rw [normalizedForBounds_spec, normalizedForBounds_spec]
  induction h with
  | nil => rfl
  | cons h1 _ ih => simp only [mapOpt, h1, ih]

/-- twins: same name, comparison and kind, sides with equal normal forms (a logic assertion carries a
placeholder right-hand side that is passed through untouched). -/
structure SameNorm (c c' : Constraint α) : Prop where
  name : c'.name = c.name
  cmp : c'.cmp = c.cmp
  isAssert : c'.isAssert = c.isAssert
  lhs : Lin.normalizeExp c'.lhs = Lin.normalizeExp c.lhs
  rhs : if c.isAssert then c'.rhs = c.rhs else Lin.normalizeExp c'.rhs = Lin.normalizeExp c.rhs

theorem normConstraint_of_SameNorm {c c' : Constraint α} (h : SameNorm c c') :
    normConstraint c = normConstraint c' := by
  obtain ⟨n, l, cm, r, a⟩ := c
  obtain ⟨n', l', cm', r', a'⟩ := c'
  obtain ⟨h1, h2, h3, h4, h5⟩ := h
  simp only at h1 h2 h3 h4 h5
  subst h1 h2 h3
  cases a' <;> simp only [Bool.false_eq_true, if_false, if_true] at h5
  · simp only [normConstraint, h4, h5, Bool.false_eq_true, if_false]
  · subst h5; simp only [normConstraint, h4]

/-- the whole bounds stage of `Compile.linearize` (normalisation, `analyze`, `enforceable`,
`apply_to_domain`) is the same for twin models. -/
theorem bounds_stage_respell (m m' : Model α) (tol : α) (maxSteps : Nat)
    (hd : m'.domain = m.domain)
    (hc : List.Forall₂ SameNorm m.constraints m'.constraints) :
    normalizedForBounds m'.constraints = normalizedForBounds m.constraints ∧
    (∀ cs, normalizedForBounds m.constraints = some cs →
      enforceable (Analyzer.analyze m'.domain cs tol maxSteps) m'.domain =
        enforceable (Analyzer.analyze m.domain cs tol maxSteps) m.domain) := by
  refine ⟨(normalizedForBounds_congr ?_).symm, fun cs _ => by rw [hd]⟩
  exact List.Forall₂.imp (fun _ _ h => normConstraint_of_SameNorm h) hc

end Compile
end Rooc
