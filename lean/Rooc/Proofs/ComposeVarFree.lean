/-
The variable-free branch of `auto_solver` (`SolverWrap.wrapAuto` on a model without domain entries) needs NO assumption
about the external solver: rooc decides such a model itself (every row is the constant comparison `0 ⋈ rhs`; the value is
the offset), and `Compose.SolverSpec` is a THEOREM for it, whatever the (unused) answer `out` of microlp is.
-/
import Rooc.Proofs.ComposeSolver
import Rooc.Proofs.StdSplit

set_option linter.unusedSectionVars false
set_option linter.unusedSimpArgs false
set_option linter.unusedVariables false

namespace Rooc.Compose
open Rooc Rooc.Sem Rooc.SolverWrap StdSem
variable {K : Type} [Field K] [LinearOrder K] [IsStrictOrderedRing K] [FloorRing K]

/-- a linear model without variables: no domain entry, no variable, no coefficient; finite right-hand sides and offset. -/
structure VarFree (lm : LinModel (Ext K)) : Prop where
  dom : lm.domain = []
  vars : lm.vars = []
  obj : lm.objective = []
  rows : ∀ r ∈ lm.rows, r.coeffs = [] ∧ isFin r.rhs
  off : isFin lm.offset

/-- on a variable-free model a row holds (at any assignment) exactly when `auto_solver`'s constant test accepts it. -/
theorem rowHolds_varFree {r : LinRow (Ext K)} (hc : r.coeffs = []) (hf : isFin r.rhs) (ρ : String → K) :
    rowHolds ρ [] r = constRowHolds r := by
  obtain ⟨b, hb⟩ := StdSplit.isFin_iff.1 hf
  unfold rowHolds constRowHolds
  rw [hc, hb]
  cases r.cmp <;>
    simp [dotK, cmpK, kzero, Arith.le, Arith.lt, Arith.eq, Arith.ofInt, Ext.le, Ext.lt, Ext.eq, eq_comm]

theorem all_congr_mem' {α : Type} {l : List α} {f g : α → Bool} (h : ∀ x ∈ l, f x = g x) : l.all f = l.all g := by
  induction l with
  | nil => rfl
  | cons a l ih => simp only [List.all_cons, h a (by simp), ih (fun x hx => h x (by simp [hx]))]

theorem linFeasible_varFree {lm : LinModel (Ext K)} (h : VarFree lm) (ρ : String → K) :
    linFeasible lm ρ = lm.rows.all constRowHolds := by
  unfold linFeasible
  rw [h.dom, h.vars]
  simp only [List.all_nil, Bool.and_true]
  exact all_congr_mem' fun r hr => rowHolds_varFree (h.rows r hr).1 (h.rows r hr).2 ρ

theorem linObjective_varFree {lm : LinModel (Ext K)} (h : VarFree lm) (ρ : String → K) :
    linObjective lm ρ = some (toK lm.offset) := by
  obtain ⟨o, ho⟩ := StdSplit.isFin_iff.1 h.off
  simp [linObjective, h.obj, h.vars, dotK, ho, kzero, toK]

/-- **`SolverSpec` is a theorem on variable-free models**, for every answer `out` of the (unused) external solver. -/
theorem solverSpec_varFree {lm : LinModel (Ext K)} (h : VarFree lm) (out : MlpOutcome (Ext K)) : SolverSpec lm out := by
  have hw : wrapAuto lm out =
      if lm.rows.all constRowHolds then .ok (lpSolutionNew [] lm.offset []) else .err "Infeasible" := by
    simp [wrapAuto, h.dom]
  obtain ⟨o, ho⟩ := StdSplit.isFin_iff.1 h.off
  refine ⟨fun sol hsol _ => ?_, fun herr => ?_⟩
  · rw [hw] at hsol
    split at hsol
    · rename_i hall
      cases hsol
      refine ⟨⟨by rw [linFeasible_varFree h]; exact hall, ?_⟩, o, by simp [lpSolutionNew, ho], by
        rw [linObjective_varFree h, ho]; rfl⟩
      intro ρ' _ w w' hw1 hw2
      rw [linObjective_varFree h] at hw1 hw2
      cases hw1; cases hw2
      cases lm.optType <;> simp [better_min, better_max, better_satisfy]
    · cases hsol
  · rw [hw] at herr
    split at herr
    · cases herr
    · rename_i hall
      intro ρ
      rw [linFeasible_varFree h]
      simpa using hall

end Rooc.Compose
