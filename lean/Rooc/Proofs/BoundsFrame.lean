/-
C07 helper: the tolerance field is never written by propagation (frame lemma; polymorphic in the number type).
-/
import Rooc.Proofs.BoundsDomain
set_option linter.unusedTactic false
set_option linter.unreachableTactic false
set_option linter.unnecessarySeqFocus false
set_option linter.unusedSimpArgs false
set_option linter.unusedVariables false
set_option linter.unusedSectionVars false
namespace Rooc
namespace BoundsProofs
open Arith

variable {α : Type} [Arith α]

theorem tightenVariable_tol (an : Analyzer α) (name : String) (cand : Bounds α) :
    (an.tightenVariable name cand).1.tolerance = an.tolerance := by
  unfold Analyzer.tightenVariable
  split
  · rfl
  · dsimp only
    split
    · rfl
    · split <;> rfl

theorem tightenVar_tol (s : TState α) (name : String) (cand : Bounds α) :
    (Analyzer.tightenVar s name cand).an.tolerance = s.an.tolerance := by
  unfold Analyzer.tightenVar
  dsimp only
  split <;> exact tightenVariable_tol s.an name cand

def TolOK (e : Exp α) : Prop :=
  ∀ (required : Bounds α) (s : TState α), (Analyzer.tightenExpression e required s).an.tolerance = s.an.tolerance

theorem tightenList_tol : ∀ (es : List (Exp α)) (required : Bounds α) (s : TState α),
    (∀ e ∈ es, TolOK e) → (Analyzer.tightenList es required s).an.tolerance = s.an.tolerance
  | [], _, _, _ => by unfold Analyzer.tightenList; rfl
  | e :: es, required, s, ih => by
    unfold Analyzer.tightenList
    rw [tightenList_tol es required _ (fun e' he' => ih e' (List.mem_cons_of_mem _ he'))]
    exact ih e (List.mem_cons_self ..) required s

theorem tightenExpression_tol : ∀ e : Exp α, TolOK e := by
  intro e
  induction e using expInd with
  | num x => intro required s; unfold Analyzer.tightenExpression; split; rfl; split; rfl; rfl
  | var name =>
    intro required s; unfold Analyzer.tightenExpression; split; rfl; split; rfl
    exact tightenVar_tol s name _
  | abs e ih =>
    intro required s; unfold Analyzer.tightenExpression; split; rfl; split; rfl
    dsimp only; split
    · exact ih _ s
    · rfl
  | min es ih =>
    intro required s; unfold Analyzer.tightenExpression; split; rfl; split; rfl
    dsimp only; split
    · exact tightenList_tol es _ s ih
    · rfl
  | max es ih =>
    intro required s; unfold Analyzer.tightenExpression; split; rfl; split; rfl
    dsimp only; split
    · exact tightenList_tol es _ s ih
    · rfl
  | and es _ => intro required s; unfold Analyzer.tightenExpression; split; rfl; split; rfl; rfl
  | or es _ => intro required s; unfold Analyzer.tightenExpression; split; rfl; split; rfl; rfl
  | not e _ => intro required s; unfold Analyzer.tightenExpression; split; rfl; split; rfl; rfl
  | xor a b _ _ => intro required s; unfold Analyzer.tightenExpression; split; rfl; split; rfl; rfl
  | implies a b _ _ => intro required s; unfold Analyzer.tightenExpression; split; rfl; split; rfl; rfl
  | iff a b _ _ => intro required s; unfold Analyzer.tightenExpression; split; rfl; split; rfl; rfl
  | bin op a b iha ihb =>
    intro required s; unfold Analyzer.tightenExpression; split; rfl; split; rfl
    cases op
    · dsimp only; rw [ihb, iha]
    · dsimp only; rw [ihb, iha]
    · dsimp only
      split
      · split
        · exact ihb _ s
        · rfl
      · split
        · split
          · exact iha _ s
          · rfl
        · rfl
    · dsimp only
      split
      · split
        · exact iha _ s
        · rfl
      · rfl
    all_goals rfl
  | un op e ih =>
    intro required s; unfold Analyzer.tightenExpression; split; rfl; split; rfl
    cases op
    · exact ih _ s
    · rfl

theorem tightenConstraintExpression_tol (c : Constraint α) (req : Bounds α) (s : TState α) :
    (Analyzer.tightenConstraintExpression c req s).an.tolerance = s.an.tolerance := by
  unfold Analyzer.tightenConstraintExpression
  dsimp only
  split
  · rfl
  · rw [tightenExpression_tol, tightenExpression_tol]

theorem affineLoop_tol (required : Bounds α) : ∀ (cs : List (String × α)) (ts : List (Bounds α)) (pre : Bounds α)
    (s : TState α), (Analyzer.affineLoop required cs ts pre s).an.tolerance = s.an.tolerance
  | [], _, _, _ => by simp [Analyzer.affineLoop]
  | _ :: _, [], _, _ => by simp [Analyzer.affineLoop]
  | (n, c) :: cs, t :: ts, pre, s => by
    simp only [Analyzer.affineLoop]
    split
    · exact tightenVar_tol s n _
    · rw [affineLoop_tol required cs ts]; exact tightenVar_tol s n _

theorem tightenAffineForm_tol (an : Analyzer α) (f : AffineForm α) (cmp : Cmp) :
    (an.tightenAffineForm f cmp).an.tolerance = an.tolerance := by
  unfold Analyzer.tightenAffineForm
  dsimp only
  split
  · exact affineLoop_tol _ _ _ _ _
  · exact affineLoop_tol _ _ _ _ _

theorem stepConstraint_tol (an : Analyzer α) (c : Constraint α) (f : Option (AffineForm α)) :
    (Analyzer.stepConstraint an c f).an.tolerance = an.tolerance := by
  unfold Analyzer.stepConstraint
  cases f with
  | some f => exact tightenAffineForm_tol an f c.cmp
  | none => exact tightenConstraintExpression_tol c _ _

theorem propagateLoop_tolerance (cs : List (Constraint α)) (forms : List (Option (AffineForm α)))
    (deps : List (String × List Nat)) : ∀ (fuel : Nat) (an : Analyzer α) (queue : List Nat) (queued : List Bool),
    (Analyzer.propagateLoop cs forms deps fuel an queue queued).tolerance = an.tolerance := by
  intro fuel
  induction fuel with
  | zero => intro an queue queued; cases queue <;> simp [Analyzer.propagateLoop]
  | succ fuel ih =>
    intro an queue queued
    cases queue with
    | nil => simp [Analyzer.propagateLoop]
    | cons index queue =>
      simp only [Analyzer.propagateLoop]
      split
      · split
        · exact stepConstraint_tol _ _ _
        · rw [ih]; exact stepConstraint_tol _ _ _
      · exact ih _ _ _

theorem roundStep_tol (a : Analyzer α) (d : DomVar α) : (a.roundStep d).tolerance = a.tolerance := by
  unfold Analyzer.roundStep
  split
  · split <;> rfl
  · rfl

theorem roundIntegerRanges_tol : ∀ (domain : List (DomVar α)) (an : Analyzer α),
    (an.roundIntegerRanges domain).tolerance = an.tolerance
  | [], an => rfl
  | d :: domain, an => by
    have ih := roundIntegerRanges_tol domain (an.roundStep d)
    simp only [Analyzer.roundIntegerRanges, List.foldl_cons] at ih ⊢
    rw [ih, roundStep_tol]

theorem enforceable_tol (an : Analyzer α) (domain : List (DomVar α)) :
    (an.enforceable domain).tolerance = an.tolerance := by
  unfold Analyzer.enforceable
  split
  · simp [Analyzer.fromDomain]
  · exact roundIntegerRanges_tol domain an

section
open BoundsSem
variable {K : Type} [Field K] [LinearOrder K] [IsStrictOrderedRing K] [FloorRing K]

theorem roundStep_inBox {ρ : String → K} (tol : K) (htol0 : 0 ≤ tol) (an : Analyzer (Ext K)) (d : DomVar (Ext K))
    (htol : an.tolerance = .fin tol) (hd : InDomain d.ty (ρ d.name)) (hb : InBox ρ an.variableBounds) :
    InBox ρ (an.roundStep d).variableBounds := by
  unfold Analyzer.roundStep
  cases hty : d.ty with
  | int lo hi =>
    simp only []
    cases hg : AList.get? an.variableBounds d.name with
    | none => exact hb
    | some b =>
      intro n
      simp only [varBounds_insert]
      split
      · rename_i h; subst h
        rw [hty] at hd
        obtain ⟨k, hk, _, _⟩ := hd
        have hk' : ρ d.name = (k : K) := by simpa using hk
        have hm : Mem (ρ d.name) b := by
          have := hb d.name; simpa [Analyzer.varBounds, hg] using this
        rw [hk'] at hm ⊢
        rw [htol]
        exact ⟨LB_ceil_sub htol0 hm.1, UB_floor_add htol0 hm.2⟩
      · exact hb n
  | bool => exact hb
  | real lo hi => exact hb
  | nnreal lo hi => exact hb

/-- rounding the stored range of the integer variables keeps every in-domain point of the box in the box. -/
theorem roundIntegerRanges_inBox {ρ : String → K} (tol : K) (htol0 : 0 ≤ tol) :
    ∀ (domain : List (DomVar (Ext K))) (an : Analyzer (Ext K)), an.tolerance = .fin tol →
    (∀ d ∈ domain, InDomain d.ty (ρ d.name)) → InBox ρ an.variableBounds →
    InBox ρ (an.roundIntegerRanges domain).variableBounds
  | [], an, _, _, hb => hb
  | d :: domain, an, htol, hd, hb => by
    have ih := roundIntegerRanges_inBox tol htol0 domain (an.roundStep d) (by rw [roundStep_tol]; exact htol)
      (fun d' hd' => hd d' (List.mem_cons_of_mem _ hd'))
      (roundStep_inBox tol htol0 an d htol (hd d (List.mem_cons_self ..)) hb)
    simpa only [Analyzer.roundIntegerRanges, List.foldl_cons] using ih

end

end BoundsProofs
end Rooc
