/-
The abstract contract of a solver on a linear model, in the BY-NAME reading (`Sem.linFeasible`, `Sem.linObjective`):
what C03's composition assumes about a solver, what C05's certified comparison validates per instance for the external
solvers, and what `Rooc/Proofs/ComposeSem.lean` PROVES for rooc's built-in simplex at exact arithmetic.
Kept free of the linearizer's proof chain so that C05 does not depend on it.
-/
import Rooc.Ref
import Rooc.Proofs.Field

set_option linter.unusedSectionVars false
set_option linter.unusedVariables false

namespace Rooc.Compose
open Rooc Rooc.Sem Rooc.Ref

variable {K : Type} [Field K] [LinearOrder K] [IsStrictOrderedRing K] [FloorRing K]

/-! ### the solver contract -/

/-- **the solver contract for an optimum**: `ρ` satisfies every row and every domain of `lm`, and no point that
does has a strictly better objective (`Ref.better`: `<` for `min`, `>` for `max`, never for `satisfy`).
This is the ONLY assumption the composition theorems make about a solver. -/
structure LinOptimal (lm : LinModel (Ext K)) (ρ : String → K) : Prop where
  feasible : linFeasible lm ρ = true
  best : ∀ ρ' : String → K, linFeasible lm ρ' = true → ∀ w w' : K,
    linObjective lm ρ = some w → linObjective lm ρ' = some w' → better lm.optType w' w = false

/-- the solver contract for the verdict `infeasible`. -/
def LinInfeasible (lm : LinModel (Ext K)) : Prop := ∀ ρ : String → K, linFeasible lm ρ = false

/-- the solver contract for the verdict `unbounded`: feasible points with objective beyond every bound. -/
def LinUnbounded (lm : LinModel (Ext K)) : Prop :=
  ∀ M : K, ∃ ρ : String → K, linFeasible lm ρ = true ∧ ∃ w, linObjective lm ρ = some w ∧ better lm.optType w M = true

/-! ### `Ref.better`, spelled out -/

theorem better_min (a b : K) : better OptType.min a b = decide (a < b) := rfl
theorem better_max (a b : K) : better OptType.max a b = decide (b < a) := rfl
theorem better_satisfy (a b : K) : better OptType.satisfy a b = false := rfl

theorem optimal_not_infeasible {lm : LinModel (Ext K)} {ρ' : String → K} (ho : LinOptimal lm ρ') : ¬ LinInfeasible lm := by
  intro h
  have := ho.feasible
  rw [h ρ'] at this; cases this

end Rooc.Compose
