/-
The tail of `into_tableau_two_phase`, part 5: the theorem.
-/
import Rooc.Proofs.TwoPhase4
namespace Rooc
namespace TwoPhase
variable {K : Type} [Field K] [LinearOrder K] [IsStrictOrderedRing K]
attribute [local instance] exactArith
open Tableau TabSem PivotLemmas BasicSol Phase1 StepLemmas

/-- the phase-1 result of `into_tableau_two_phase`. -/
noncomputable def phase1Final (tol : K) (se lim : Nat) (sK : StdModel K) : Tab K :=
  (solve tol se lim ((List.range sK.rows.length).map (· + sK.vars.length)) (phase1Tab sK)).final

/-- the drive-out result of `into_tableau_two_phase`. -/
noncomputable def driveOutResult (tol : K) (se lim : Nat) (sK : StdModel K) :
    List (List K) × List K × List Nat × List Nat :=
  driveOut tol sK.vars.length (phase1Final tol se lim sK).basis.length 0 (phase1Final tol se lim sK).a
    (phase1Final tol se lim sK).b (phase1Final tol se lim sK).basis []

/-- unfolding of a successful `into_tableau_two_phase`. -/
theorem twoPhase_ok {tol : K} {se lim : Nat} {sK : StdModel K} {T : Tab K} (h : twoPhase tol se lim sK = .ok T) :
    let D := driveOutResult tol se lim sK
    let keep := keepRows D.1.length D.2.2.2
    (∀ r ∈ keep, D.2.2.1.getD r 0 < sK.vars.length) ∧
    T = { c := (restoreCosts sK.objective (keep.map fun r => (row D.1 r).take sK.vars.length) (keep.map fun r => nth D.2.1 r)
                (keep.map fun r => D.2.2.1.getD r 0)).1,
          a := keep.map fun r => (row D.1 r).take sK.vars.length, b := keep.map fun r => nth D.2.1 r,
          basis := keep.map fun r => D.2.2.1.getD r 0,
          value := (restoreCosts sK.objective (keep.map fun r => (row D.1 r).take sK.vars.length) (keep.map fun r => nth D.2.1 r)
                (keep.map fun r => D.2.2.1.getD r 0)).2,
          offset := sK.offset, flip := sK.flip } := by
  unfold twoPhase at h
  simp only at h
  split at h
  · cases h
  · split at h
    · cases h
    · split at h
      · cases h
      · rename_i hall
        simp only [Except.ok.injEq] at h
        subst h
        refine ⟨?_, rfl⟩
        intro r hr
        have hall' : ∀ x, x < (driveOutResult tol se lim sK).1.length → x ∉ (driveOutResult tol se lim sK).2.2.2 →
            (driveOutResult tol se lim sK).2.2.1.getD x 0 < sK.vars.length := by
          simpa [driveOutResult, phase1Final, List.getD_eq_getElem?_getD] using hall
        obtain ⟨h1, h2⟩ := mem_keepRows.1 hr
        exact hall' r h1 h2

/-- **the tableau returned by `into_tableau_two_phase` is canonical for the standard form.**
Hypotheses (all decidable on the run): `tol > 0`; the phase-1 result has value exactly `0` and a non-negative basic
solution; the rows the drive-out loop marks as redundant have structural entries exactly `0` in its result. -/
theorem twoPhase_canonical {tol : K} (ht : 0 < tol) (sK : StdModel K) (se lim : Nat)
    (hrows : ∀ r ∈ sK.rows, r.coeffs.length = sK.vars.length) (hobj : sK.objective.length = sK.vars.length)
    (hv : (phase1Final tol se lim sK).value = 0) (hF : Feasible (phase1Final tol se lim sK))
    (hd : ∀ r ∈ (driveOutResult tol se lim sK).2.2.2, ∀ j, j < sK.vars.length →
      nth (row (driveOutResult tol se lim sK).1 r) j = 0)
    {T : Tab K} (h : twoPhase tol se lim sK = .ok T) :
    (∃ m', Canon T m' sK.vars.length) ∧ ObjInv T sK.objective ∧ (∀ x, Sol T x ↔ Sol (Start.stdTab sK) x) ∧
      Feasible T ∧ T.flip = sK.flip ∧ T.offset = sK.offset := by
  set n := sK.vars.length with hn
  set m := sK.rows.length with hm
  set P := phase1Final tol se lim sK with hP
  -- phase 1
  obtain ⟨hC1, hO1, hS1, -⟩ := phase1_canonical sK hrows
  obtain ⟨hCP, hSP, hOP⟩ := solveLoop_preserves (tol := tol) (prefer := (List.range m).map (· + n))
    (stallLimit := (phase1Tab sK).c.length + (phase1Tab sK).a.length + se) lim (phase1Tab sK) 0
    (phase1Tab sK).value [] hC1
  have hCP' : Canon P m (n + m) := hCP
  have hSP' : ∀ x, Sol P x ↔ Sol (phase1Tab sK) x := hSP
  have hA : ∀ r, r < m → n ≤ P.basis.getD r 0 → nth P.b r = 0 :=
    fun r hr hart => artificial_rows_zero hCP' (hOP _ hO1) hF hv r hr hart
  -- drive-out
  have hDO0 : DO P m (n + m) 0 P [] :=
    ⟨hCP'.rect, hCP'.unit, hCP'.inRange, fun _ => Iff.rfl, fun _ => rfl, fun _ _ _ => rfl, by simp⟩
  obtain ⟨Y, drop, hdo, hDO⟩ := driveOut_spec ht hA P.basis.length 0 P [] (by rw [hCP'.rect.basis]; omega) hDO0
  have hD : driveOutResult tol se lim sK = (Y.a, Y.b, Y.basis, drop) := hdo
  obtain ⟨hbasis, hT⟩ := twoPhase_ok h
  simp only [hD] at hbasis hT hd
  -- the kept part
  obtain ⟨hR, hU, hIn, hSol⟩ := tail_props hDO hbasis hd sK.objective hobj 0 sK.offset sK.flip
  have hrc := restoreCosts_spec hR hU sK.objective hobj
  have hYa : Y.a.length = m := hDO.rect.rows
  -- T is the tail tableau with the restored costs
  have hTa : T.a = (tailTab n Y drop sK.objective 0 sK.offset sK.flip).a := by rw [hT]; rfl
  have hTb : T.b = (tailTab n Y drop sK.objective 0 sK.offset sK.flip).b := by rw [hT]; rfl
  have hTbasis : T.basis = (tailTab n Y drop sK.objective 0 sK.offset sK.flip).basis := by rw [hT]; rfl
  have hTc : T.c = (restoreCosts sK.objective (tailTab n Y drop sK.objective 0 sK.offset sK.flip).a
      (tailTab n Y drop sK.objective 0 sK.offset sK.flip).b (tailTab n Y drop sK.objective 0 sK.offset sK.flip).basis).1 := by
    rw [hT]; rfl
  have hTv : T.value = (restoreCosts sK.objective (tailTab n Y drop sK.objective 0 sK.offset sK.flip).a
      (tailTab n Y drop sK.objective 0 sK.offset sK.flip).b (tailTab n Y drop sK.objective 0 sK.offset sK.flip).basis).2 := by
    rw [hT]; rfl
  have hSolT : ∀ x, Sol T x ↔ Sol (tailTab n Y drop sK.objective 0 sK.offset sK.flip) x := by
    intro x; unfold Sol; rw [hTa, hTb]
  refine ⟨⟨(keepRows Y.a.length drop).length, ⟨⟨by rw [hTa]; exact hR.rows, by rw [hTb]; exact hR.rhs,
      by rw [hTbasis]; exact hR.basis, by rw [hTc]; exact hrc.len, by intro i hi; rw [hTa]; exact hR.width i hi⟩,
    by intro i k hi hk; rw [hTa] at hi hk ⊢; rw [hTbasis]; exact hU i k hi hk,
    by intro k hk; rw [hTa] at hk; rw [hTbasis, hTc, hrc.len]; have := hIn k hk; rwa [hR.costs] at this,
    by intro k hk; rw [hTa, hR.rows] at hk; rw [hTbasis, hTc]; simpa using hrc.zero k hk hk⟩⟩, ?_, ?_, ?_, by rw [hT], by rw [hT]⟩
  · -- objective
    intro x hx hS
    rw [hTc, hrc.len] at hx
    rw [hTc, hTv]
    simpa using hrc.obj x hx ((hSolT x).1 hS)
  · -- solution set
    intro x
    have hwT : ∀ i, i < (keepRows Y.a.length drop).length → (row T.a i).length = n := by
      intro i hi; rw [hTa]; exact hR.width i hi
    have hwS : ∀ i, i < m → (row (Start.stdTab sK).a i).length = n := by
      intro i hi
      have hi' : i < sK.rows.length := hi
      simp only [Start.stdTab]
      rw [Start.row_map_coeffs sK i hi']
      exact hrows _ (List.getElem_mem hi')
    rw [← sol_resize (by rw [hTa]; exact hR.rows) hwT x, ← sol_resize (X := Start.stdTab sK) (by simp [Start.stdTab, hm]) hwS x]
    set x' := Standardize.resize x n 0 with hx'
    have hx'l : x'.length = n := resize_length x n
    rw [hSolT, hSol x' hx'l, hDO.sol, hSP', hS1 x' (List.replicate m 0) hx'l (by simp [hm])]
    unfold Sol
    simp only [Start.stdTab, List.length_map]
    constructor <;> intro hh i hi
    · have := hh i hi; rw [nth_replicate_zero, add_zero] at this; exact this
    · rw [nth_replicate_zero, add_zero]; exact hh i hi
  · -- feasibility
    intro p hp
    rw [hTa] at hp
    have hp' : p < (keepRows Y.a.length drop).length := by simpa [tailTab] using hp
    rw [hTb, tail_b hp', hDO.bsame]
    have hk : (keepRows Y.a.length drop)[p] < P.a.length := by
      have := (mem_keepRows.1 (List.getElem_mem hp')).1
      rw [hCP'.rect.rows]; omega
    exact hF _ hk

end TwoPhase
end Rooc
