/-
Variables of an expression, renaming of leaves, and the congruence of `Sem.eval`:
the value of an expression depends only on the variables that occur in it.
Generic helper file (no property-specific content).
-/
import Rooc.Sem
namespace Rooc
namespace Exp
variable {α : Type}

mutual
/-- the variable names occurring in an expression (with repetitions, left to right). -/
def vars : Exp α → List String
  | .num _ => []
  | .var s => [s]
  | .abs e => vars e
  | .min es => varsList es
  | .max es => varsList es
  | .and es => varsList es
  | .or es => varsList es
  | .not e => vars e
  | .xor a b => vars a ++ vars b
  | .implies a b => vars a ++ vars b
  | .iff a b => vars a ++ vars b
  | .bin _ a b => vars a ++ vars b
  | .un _ e => vars e
def varsList : List (Exp α) → List String
  | [] => []
  | e :: es => vars e ++ varsList es
end

mutual
/-- rename every variable leaf; nothing else changes. -/
def mapVars (f : String → String) : Exp α → Exp α
  | .num v => .num v
  | .var s => .var (f s)
  | .abs e => .abs (mapVars f e)
  | .min es => .min (mapVarsList f es)
  | .max es => .max (mapVarsList f es)
  | .and es => .and (mapVarsList f es)
  | .or es => .or (mapVarsList f es)
  | .not e => .not (mapVars f e)
  | .xor a b => .xor (mapVars f a) (mapVars f b)
  | .implies a b => .implies (mapVars f a) (mapVars f b)
  | .iff a b => .iff (mapVars f a) (mapVars f b)
  | .bin op a b => .bin op (mapVars f a) (mapVars f b)
  | .un op e => .un op (mapVars f e)
def mapVarsList (f : String → String) : List (Exp α) → List (Exp α)
  | [] => []
  | e :: es => mapVars f e :: mapVarsList f es
end

theorem mem_varsList {es : List (Exp α)} {s : String} :
    s ∈ varsList es ↔ ∃ e ∈ es, s ∈ vars e := by
  induction es with
  | nil => simp [varsList]
  | cons e es ih => simp [varsList, ih]

theorem mapVarsList_eq_map (f : String → String) (es : List (Exp α)) :
    mapVarsList f es = es.map (mapVars f) := by
  induction es with
  | nil => simp [mapVarsList]
  | cons e es ih => simp [mapVarsList, ih]

mutual
theorem mapVars_congr {f g : String → String} :
    (e : Exp α) → (∀ s ∈ vars e, f s = g s) → mapVars f e = mapVars g e
  | .num _, _ => by simp [mapVars]
  | .var s, h => by simp [mapVars, h s (by simp [vars])]
  | .abs e, h => by simp [mapVars, mapVars_congr e (by simpa [vars] using h)]
  | .min es, h => by simp [mapVars, mapVarsList_congr es (by simpa [vars] using h)]
  | .max es, h => by simp [mapVars, mapVarsList_congr es (by simpa [vars] using h)]
  | .and es, h => by simp [mapVars, mapVarsList_congr es (by simpa [vars] using h)]
  | .or es, h => by simp [mapVars, mapVarsList_congr es (by simpa [vars] using h)]
  | .not e, h => by simp [mapVars, mapVars_congr e (by simpa [vars] using h)]
  | .xor a b, h => by
    simp [mapVars, mapVars_congr a (fun s hs => h s (by simp [vars, hs])),
      mapVars_congr b (fun s hs => h s (by simp [vars, hs]))]
  | .implies a b, h => by
    simp [mapVars, mapVars_congr a (fun s hs => h s (by simp [vars, hs])),
      mapVars_congr b (fun s hs => h s (by simp [vars, hs]))]
  | .iff a b, h => by
    simp [mapVars, mapVars_congr a (fun s hs => h s (by simp [vars, hs])),
      mapVars_congr b (fun s hs => h s (by simp [vars, hs]))]
  | .bin _ a b, h => by
    simp [mapVars, mapVars_congr a (fun s hs => h s (by simp [vars, hs])),
      mapVars_congr b (fun s hs => h s (by simp [vars, hs]))]
  | .un _ e, h => by simp [mapVars, mapVars_congr e (by simpa [vars] using h)]
theorem mapVarsList_congr {f g : String → String} :
    (es : List (Exp α)) → (∀ s ∈ varsList es, f s = g s) → mapVarsList f es = mapVarsList g es
  | [], _ => by simp [mapVarsList]
  | e :: es, h => by
    simp [mapVarsList, mapVars_congr e (fun s hs => h s (by simp [varsList, hs])),
      mapVarsList_congr es (fun s hs => h s (by simp [varsList, hs]))]
end

mutual
theorem mapVars_mapVars (f g : String → String) :
    (e : Exp α) → mapVars g (mapVars f e) = mapVars (g ∘ f) e
  | .num _ => by simp [mapVars]
  | .var s => by simp [mapVars]
  | .abs e => by simp [mapVars, mapVars_mapVars f g e]
  | .min es => by simp [mapVars, mapVarsList_mapVarsList f g es]
  | .max es => by simp [mapVars, mapVarsList_mapVarsList f g es]
  | .and es => by simp [mapVars, mapVarsList_mapVarsList f g es]
  | .or es => by simp [mapVars, mapVarsList_mapVarsList f g es]
  | .not e => by simp [mapVars, mapVars_mapVars f g e]
  | .xor a b => by simp [mapVars, mapVars_mapVars f g a, mapVars_mapVars f g b]
  | .implies a b => by simp [mapVars, mapVars_mapVars f g a, mapVars_mapVars f g b]
  | .iff a b => by simp [mapVars, mapVars_mapVars f g a, mapVars_mapVars f g b]
  | .bin _ a b => by simp [mapVars, mapVars_mapVars f g a, mapVars_mapVars f g b]
  | .un _ e => by simp [mapVars, mapVars_mapVars f g e]
theorem mapVarsList_mapVarsList (f g : String → String) :
    (es : List (Exp α)) → mapVarsList g (mapVarsList f es) = mapVarsList (g ∘ f) es
  | [] => by simp [mapVarsList]
  | e :: es => by simp [mapVarsList, mapVars_mapVars f g e, mapVarsList_mapVarsList f g es]
end

mutual
theorem vars_mapVars (f : String → String) : (e : Exp α) → vars (mapVars f e) = (vars e).map f
  | .num _ => by simp [mapVars, vars]
  | .var s => by simp [mapVars, vars]
  | .abs e => by simp [mapVars, vars, vars_mapVars f e]
  | .min es => by simp [mapVars, vars, varsList_mapVarsList f es]
  | .max es => by simp [mapVars, vars, varsList_mapVarsList f es]
  | .and es => by simp [mapVars, vars, varsList_mapVarsList f es]
  | .or es => by simp [mapVars, vars, varsList_mapVarsList f es]
  | .not e => by simp [mapVars, vars, vars_mapVars f e]
  | .xor a b => by simp [mapVars, vars, vars_mapVars f a, vars_mapVars f b]
  | .implies a b => by simp [mapVars, vars, vars_mapVars f a, vars_mapVars f b]
  | .iff a b => by simp [mapVars, vars, vars_mapVars f a, vars_mapVars f b]
  | .bin _ a b => by simp [mapVars, vars, vars_mapVars f a, vars_mapVars f b]
  | .un _ e => by simp [mapVars, vars, vars_mapVars f e]
theorem varsList_mapVarsList (f : String → String) :
    (es : List (Exp α)) → varsList (mapVarsList f es) = (varsList es).map f
  | [] => by simp [mapVarsList, varsList]
  | e :: es => by simp [mapVarsList, varsList, vars_mapVars f e, varsList_mapVarsList f es]
end

end Exp

namespace Sem
variable {K : Type} [ExactField K]
open Exp

mutual
/-- the value of an expression depends only on the variables that occur in it. -/
theorem eval_congr {ρ ρ' : String → K} :
    (e : Exp (Ext K)) → (∀ s ∈ vars e, ρ s = ρ' s) → eval ρ e = eval ρ' e
  | .num x, _ => by cases x <;> simp [eval]
  | .var s, h => by simp [eval, h s (by simp [vars])]
  | .abs e, h => by simp [eval, eval_congr e (by simpa [vars] using h)]
  | .min es, h => by simp [eval, evalList_congr es (by simpa [vars] using h)]
  | .max es, h => by simp [eval, evalList_congr es (by simpa [vars] using h)]
  | .and es, h => by simp [eval, evalList_congr es (by simpa [vars] using h)]
  | .or es, h => by simp [eval, evalList_congr es (by simpa [vars] using h)]
  | .not e, h => by simp [eval, eval_congr e (by simpa [vars] using h)]
  | .xor a b, h => by
    simp [eval, eval_congr a (fun s hs => h s (by simp [vars, hs])),
      eval_congr b (fun s hs => h s (by simp [vars, hs]))]
  | .implies a b, h => by
    simp [eval, eval_congr a (fun s hs => h s (by simp [vars, hs])),
      eval_congr b (fun s hs => h s (by simp [vars, hs]))]
  | .iff a b, h => by
    simp [eval, eval_congr a (fun s hs => h s (by simp [vars, hs])),
      eval_congr b (fun s hs => h s (by simp [vars, hs]))]
  | .bin _ a b, h => by
    simp [eval, eval_congr a (fun s hs => h s (by simp [vars, hs])),
      eval_congr b (fun s hs => h s (by simp [vars, hs]))]
  | .un .neg e, h => by simp [eval, eval_congr e (by simpa [vars] using h)]
  | .un .not e, h => by simp [eval, eval_congr e (by simpa [vars] using h)]
theorem evalList_congr {ρ ρ' : String → K} :
    (es : List (Exp (Ext K))) → (∀ s ∈ varsList es, ρ s = ρ' s) → evalList ρ es = evalList ρ' es
  | [], _ => by simp [evalList]
  | e :: es, h => by
    simp [evalList, eval_congr e (fun s hs => h s (by simp [varsList, hs])),
      evalList_congr es (fun s hs => h s (by simp [varsList, hs]))]
end

end Sem
end Rooc
