/-
`into_tableau`, direct start: canonical form, same solution set, same objective, feasibility.
-/
import Rooc.Proofs.StartCanon
namespace Rooc
namespace Start
variable {K : Type} [Field K] [LinearOrder K] [IsStrictOrderedRing K]
attribute [local instance] exactArith
open Tableau TabSem PivotLemmas

/-- the equation system of a standard form as a (basis-less) tableau. -/
def stdTab (sm : StdModel K) : Tab K :=
  { c := sm.objective, a := sm.rows.map (·.coeffs), b := sm.rows.map (·.rhs), basis := [], value := 0,
    offset := sm.offset, flip := sm.flip }

theorem row_map_coeffs (sm : StdModel K) (i : Nat) (hi : i < sm.rows.length) :
    row (sm.rows.map (·.coeffs)) i = (sm.rows[i]).coeffs := by
  simp [row, List.getD_eq_getElem?_getD, hi]

/-- **the direct start is canonical.** -/
theorem intoTableau_direct {tol : K} (ht : 0 < tol) (sm : StdModel K) (se lim : Nat)
    (hrows : ∀ r ∈ sm.rows, r.coeffs.length = sm.vars.length) (hobj : sm.objective.length = sm.vars.length)
    (hN : NoSubTol tol (sm.rows.map (·.coeffs)))
    (hdir : sm.rows.length ≤ (independentColumns tol sm.vars.length (sm.rows.map (·.coeffs))).length ∧
      (selectPerRow sm.rows.length (independentColumns tol sm.vars.length (sm.rows.map (·.coeffs)))).length = sm.rows.length) :
    ∃ T, intoTableau tol se lim sm = .ok T ∧ Canon T sm.rows.length sm.vars.length ∧ ObjInv T sm.objective ∧
      (∀ x, Sol T x ↔ Sol (stdTab sm) x) ∧ ((∀ r ∈ sm.rows, 0 ≤ r.rhs) → Feasible T) := by
  set m := sm.rows.length with hm
  set n := sm.vars.length with hn
  set A := sm.rows.map (·.coeffs) with hA
  set b0 := sm.rows.map (·.rhs) with hb0
  set usable := independentColumns tol n A with husable
  set sel := selectPerRow m usable with hsel
  set Bl := sel.map (·.column) with hBl
  have hAl : A.length = m := by simp [hA, hm]
  -- what each selected variable is
  have hspec : ∀ j, (hj : j < m) → ∃ iv ∈ usable, iv.row = j ∧ sel[j]? = some iv := fun j hj =>
    selectPerRow_spec hdir.2 j hj
  have hB : ∀ j, (hj : j < m) → ∃ iv ∈ usable, iv.row = j ∧ sel[j]? = some iv ∧ Bl.getD j 0 = iv.column := by
    intro j hj
    obtain ⟨iv, hiv, hr, hs⟩ := hspec j hj
    exact ⟨iv, hiv, hr, hs, by simp [hBl, List.getD_eq_getElem?_getD, hs]⟩
  have hD : Data m n A (fun j => Bl.getD j 0) := by
    refine ⟨?_, ?_, ?_⟩
    · intro j hj
      obtain ⟨iv, hiv, hr, -, hc⟩ := hB j hj
      rw [hc]; exact (mem_independentColumns ht hN hiv).1
    · intro j hj
      obtain ⟨iv, hiv, hr, -, hc⟩ := hB j hj
      have := mem_independentColumns ht hN hiv
      simp only [hc]; rw [← hr, this.2.2.1]; exact this.2.2.2.1
    · intro i j hi hj hij
      obtain ⟨iv, hiv, hr, -, hc⟩ := hB j hj
      have := mem_independentColumns ht hN hiv
      simp only [hc]
      exact this.2.2.2.2 i (by rw [hAl]; exact hi) (by rw [hr]; exact hij)
  have hR0 : Rect (tabOf Bl 0 false (A, b0, sm.objective, 0)) m n := by
    refine ⟨hAl, by simp [tabOf, hb0, hm], by simp [tabOf, hBl, hdir.2], hobj, ?_⟩
    intro i hi
    simp only [tabOf, hA]
    rw [row_map_coeffs sm i hi]
    exact hrows _ (List.getElem_mem hi)
  have hfold := J_fold (Bl := Bl) (b0 := b0) (c0 := sm.objective) hD sel 0 (A, b0, sm.objective, 0) (J_init hR0 hD)
    (by rw [hdir.2]; omega)
    (by intro p hp
        have hpm : p < m := by rw [← hdir.2]; exact hp
        obtain ⟨iv, hiv, hr, hs, hc⟩ := hB p hpm
        have he : sel[p] = iv := by
          have := List.getElem?_eq_getElem hp
          rw [hs] at this; exact (Option.some.inj this).symm
        have := mem_independentColumns ht hN hiv
        simp only [Nat.zero_add, he]
        exact ⟨hr, hc.symm, by rw [hc, ← hr]; exact this.2.2.1.symm⟩)
  rw [hdir.2, Nat.zero_add] at hfold
  -- the result of the function
  have hres : intoTableau tol se lim sm = .ok
      { c := (sel.foldl cstep (A, b0, sm.objective, 0)).2.2.1, a := (sel.foldl cstep (A, b0, sm.objective, 0)).1,
        b := (sel.foldl cstep (A, b0, sm.objective, 0)).2.1, basis := Bl,
        value := (sel.foldl cstep (A, b0, sm.objective, 0)).2.2.2, offset := sm.offset, flip := sm.flip } := by
    unfold intoTableau
    simp only [ge_iff_le]
    rw [if_pos hdir.1, if_neg (by rw [hdir.2]; exact Nat.lt_irrefl _), canonicalise_eq]
  refine ⟨_, hres, ?_, ?_, ?_, ?_⟩
  · -- canonical form
    have hR := hfold.rect
    refine ⟨⟨hR.rows, hR.rhs, hR.basis, hR.costs, hR.width⟩, ?_, ?_, ?_⟩
    · intro i k hi hk
      have hi' : i < m := by rw [← hR.rows]; exact hi
      have hk' : k < m := by rw [← hR.rows]; exact hk
      by_cases e : i = k
      · subst e; simpa using hfold.diag i hi' hi'
      · simpa [e] using hfold.offd i k hi' hk' e
    · intro k hk
      have hk' : k < m := by rw [← hR.rows]; exact hk
      have := hD.inRange k hk'
      have hc : (sel.foldl cstep (A, b0, sm.objective, 0)).2.2.1.length = n := hR.costs
      show Bl.getD k 0 < (sel.foldl cstep (A, b0, sm.objective, 0)).2.2.1.length
      rw [hc]; exact this
    · intro k hk
      have hk' : k < m := by rw [← hR.rows]; exact hk
      simpa using hfold.cost k hk' hk'
  · exact hfold.obj
  · intro x
    exact hfold.sol x
  · intro h0 i hi
    have hR := hfold.rect
    have hi' : i < m := by rw [← hR.rows]; exact hi
    have := hfold.feas (by
      intro i hi
      have hi2 : i < sm.rows.length := hi
      have : nth b0 i = (sm.rows[i]).rhs := by simp [nth, hb0, List.getD_eq_getElem?_getD, hi2]
      rw [this]; exact h0 _ (List.getElem_mem hi2)) i hi'
    simpa using this

end Start
end Rooc
