/-
`to_standard_form` on a well-formed model, unfolded into its closed form: which rows, which columns,
which objective.  This is the lemma that carries the positional bookkeeping; everything after it is
linear algebra.
-/
import Rooc.Proofs.StdBounds
namespace Rooc
namespace StdSpec
variable {K : Type} [Field K] [LinearOrder K] [IsStrictOrderedRing K] [FloorRing K]
open StdSem StdLayout StdSplit StdNorm StdBounds Standardize

/-- declared type of a variable (`bool` is a dummy for undeclared names, excluded by `WF`). -/
def tyOf (lm : LinModel (Ext K)) (v : String) : VarType (Ext K) := (lookup lm.domain v).getD .bool
def tys (lm : LinModel (Ext K)) : List (VarType (Ext K)) := lm.vars.map (tyOf lm)
def flags (lm : LinModel (Ext K)) : List Bool := (tys lm).map isFree

noncomputable def boundsOf (n : Nat) : Nat → List (VarType (Ext K)) → List (LinRow (Ext K))
  | _, [] => []
  | k, ty :: ts => boundRows n k ty ++ boundsOf n (k+1) ts

theorem lookup_mem {dom : List (DomVar (Ext K))} {v : String} {ty : VarType (Ext K)} (h : lookup dom v = some ty) :
    ∃ d ∈ dom, d.ty = ty := by
  unfold lookup at h
  cases hf : dom.find? (·.name == v) with
  | none => simp [hf] at h
  | some d => simp [hf] at h; exact ⟨d, List.mem_of_find?_eq_some hf, h⟩

theorem allBoundRows_eq (lm : LinModel (Ext K)) (n : Nat) : ∀ (vs : List String) (k : Nat),
    (∀ v ∈ vs, ∃ ty, lookup lm.domain v = some ty) →
    allBoundRows lm.domain n k vs = some (boundsOf n k (vs.map (tyOf lm)))
  | [], k, _ => by simp [allBoundRows, boundsOf]
  | v :: vs, k, h => by
    obtain ⟨ty, hty⟩ := h v (by simp)
    have ih := allBoundRows_eq lm n vs (k+1) (fun v' h' => h v' (List.mem_cons_of_mem _ h'))
    simp [allBoundRows, hty, ih, boundsOf, tyOf]

theorem freeIdx_eq (lm : LinModel (Ext K)) : ∀ (vs : List String) (k : Nat),
    (∀ v ∈ vs, ∃ ty, lookup lm.domain v = some ty) →
    freeIdx lm.domain k vs = some (flagsIdx k ((vs.map (tyOf lm)).map isFree))
  | [], k, _ => by simp [freeIdx, flagsIdx]
  | v :: vs, k, h => by
    obtain ⟨ty, hty⟩ := h v (by simp)
    have ih := freeIdx_eq lm vs (k+1) (fun v' h' => h v' (List.mem_cons_of_mem _ h'))
    simp only [freeIdx, hty, ih, Option.map_some, List.map_cons, tyOf, Option.getD_some, flagsIdx]

theorem mapM'_eq {β γ : Type} (f : β → Option γ) (g : β → γ) : ∀ (l : List β), (∀ x ∈ l, f x = some (g x)) →
    mapM' f l = some (l.map g)
  | [], _ => by simp [mapM']
  | x :: xs, h => by
    simp [mapM', h x (by simp), mapM'_eq f g xs (fun y hy => h y (List.mem_cons_of_mem _ hy))]

theorem flagsIdx_length : ∀ (fl : List Bool) (k : Nat), (flagsIdx k fl).length = countT fl
  | [], _ => by simp [flagsIdx, countT]
  | f :: fs, k => by cases f <;> simp [flagsIdx, countT, flagsIdx_length fs (k+1)] <;> omega

theorem count_sum : ∀ (fl : List Bool), countF fl + countT fl = fl.length
  | [] => by simp [countF, countT]
  | f :: fs => by cases f <;> simp [countF, countT] <;> have := count_sum fs <;> omega

/-- non-strict rows never make `normalizeAll` fail. -/
theorem normalizeAll_ok : ∀ (rows : List (LinRow (Ext K))) (total sl su : Nat),
    (∀ r ∈ rows, r.cmp = .le ∨ r.cmp = .ge ∨ r.cmp = .eq) → ∃ res, normalizeAll total sl su rows = .ok res
  | [], total, sl, su, _ => by simp [normalizeAll]
  | r :: rs, total, sl, su, h => by
    have hrs : ∀ r' ∈ rs, r'.cmp = .le ∨ r'.cmp = .ge ∨ r'.cmp = .eq := fun r' h' => h r' (List.mem_cons_of_mem _ h')
    rcases h r (by simp) with hc | hc | hc
    · obtain ⟨res, hres⟩ := normalizeAll_ok rs (total+1) (sl+1) su hrs
      simp [normalizeAll, hc, hres]
    · obtain ⟨res, hres⟩ := normalizeAll_ok rs (total+1) sl (su+1) hrs
      simp [normalizeAll, hc, hres]
    · obtain ⟨res, hres⟩ := normalizeAll_ok rs total sl su hrs
      simp [normalizeAll, hc, hres]

/-- every bound row of the model is a well-formed row. -/
theorem boundsOf_ok (n : Nat) : ∀ (ts : List (VarType (Ext K))) (k : Nat), (∀ ty ∈ ts, BoundsOK ty) →
    ∀ r ∈ boundsOf n k ts, RowOK n r
  | [], _, _, r, hr => by simp [boundsOf] at hr
  | ty :: ts, k, h, r, hr => by
    simp only [boundsOf, List.mem_append] at hr
    rcases hr with hr | hr
    · exact boundRows_ok n k ty (h ty (by simp)) r hr
    · exact boundsOf_ok n ts (k+1) (fun ty' h' => h ty' (List.mem_cons_of_mem _ h')) r hr

/-- **declared bounds = bound rows + sign of the kept columns**, for all variables at once. -/
theorem boundsOf_sem (n : Nat) (x : List K) (hx : x.length = n) : ∀ (ts : List (VarType (Ext K))) (k : Nat),
    k + ts.length ≤ n → (∀ ty ∈ ts, BoundsOK ty) →
    (((∀ r ∈ boundsOf n k ts, RowHolds r x) ∧ (∀ j, j < ts.length → isFree (ts.getD j .bool) = false → 0 ≤ x.getD (k+j) 0)) ↔
      ∀ j, j < ts.length → InDomain (ts.getD j .bool) (x.getD (k+j) 0))
  | [], k, _, _ => by simp [boundsOf]
  | ty :: ts, k, hk, h => by
    have ih := boundsOf_sem n x hx ts (k+1) (by simp only [List.length_cons] at hk; omega)
      (fun ty' h' => h ty' (List.mem_cons_of_mem _ h'))
    have h1 := boundRows_sem n k ty (h ty (by simp)) x hx (by simp only [List.length_cons] at hk; omega)
    constructor
    · rintro ⟨hr, hs⟩ j hj
      cases j with
      | zero =>
        simp only [List.getD_cons_zero, Nat.add_zero]
        exact h1.1 ⟨fun r hr' => hr r (by simp [boundsOf, hr']), fun hf => by simpa using hs 0 (by simp) (by simpa using hf)⟩
      | succ j =>
        have := ih.1 ⟨fun r hr' => hr r (by simp [boundsOf, hr']),
          fun j' hj' hf => by have := hs (j'+1) (by simpa using hj') (by simpa using hf); simpa [Nat.add_assoc, Nat.add_comm 1 j'] using this⟩
          j (by simpa using hj)
        simpa [Nat.add_assoc, Nat.add_comm 1 j] using this
    · intro hd
      have h0 := h1.2 (by simpa using hd 0 (by simp))
      have hrest := ih.2 (fun j hj => by
        have := hd (j+1) (by simpa using hj); simpa [Nat.add_assoc, Nat.add_comm 1 j] using this)
      refine ⟨?_, ?_⟩
      · intro r hr
        simp only [boundsOf, List.mem_append] at hr
        rcases hr with hr | hr
        · exact h0.1 r hr
        · exact hrest.1 r hr
      · intro j hj hf
        cases j with
        | zero => simpa using h0.2 (by simpa using hf)
        | succ j =>
          have := hrest.2 j (by simpa using hj) (by simpa using hf)
          simpa [Nat.add_assoc, Nat.add_comm 1 j] using this

end StdSpec
end Rooc
