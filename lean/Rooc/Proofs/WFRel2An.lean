/-
C08 helpers — the bounds analyzer reads and writes its variable box only by NAME (`get?` / `insert`), so two
analyzers with the same lookups (whatever the order of their entries) stay so through `analyze` and `enforceable`,
and `Compile.linearize` is invariant under a permutation of the declarations.
-/
import Rooc.Proofs.WFRel2Lin
import Rooc.Proofs.WFCompile
import Rooc.Proofs.BoundsTighten

set_option linter.unusedSectionVars false
set_option linter.unusedVariables false
set_option linter.unusedSimpArgs false

namespace Rooc
namespace AnRel
open Rooc.Lin Arith BoundsProofs
variable {α : Type} [Arith α]

/-- same lookups, same flags. -/
structure A (an an' : Analyzer α) : Prop where
  vb : ∀ x, AList.get? an.variableBounds x = AList.get? an'.variableBounds x
  bv : ∀ x, an.booleanVariables.contains x = an'.booleanVariables.contains x
  tol : an.tolerance = an'.tolerance
  lim : an.reachedIterationLimit = an'.reachedIterationLimit
  inf : an.detectedInfeasible = an'.detectedInfeasible

theorem A.refl (an : Analyzer α) : A an an := ⟨fun _ => rfl, fun _ => rfl, rfl, rfl, rfl⟩

theorem varBounds_A {an an' : Analyzer α} (h : A an an') (x : String) :
    Analyzer.varBounds an.variableBounds x = Analyzer.varBounds an'.variableBounds x := by
  unfold Analyzer.varBounds; rw [h.vb]

theorem boundsOfList_congr {vb vb' : List (String × Rooc.Bounds α)} : ∀ (es : List (Exp α)),
    (∀ e ∈ es, Analyzer.boundsOf vb e = Analyzer.boundsOf vb' e) →
    Analyzer.boundsOfList vb es = Analyzer.boundsOfList vb' es
  | [], _ => rfl
  | e :: es, h => by
    simp only [Analyzer.boundsOfList, h e (by simp),
      boundsOfList_congr es (fun e' he' => h e' (by simp [he']))]

theorem boundsOf_A {an an' : Analyzer α} (h : A an an') : ∀ e : Exp α,
    Analyzer.boundsOf an.variableBounds e = Analyzer.boundsOf an'.variableBounds e := by
  intro e
  induction e using expInd with
  | num v => simp [Analyzer.boundsOf]
  | var s => simp only [Analyzer.boundsOf]; exact varBounds_A h s
  | abs e ih => simp only [Analyzer.boundsOf, ih]
  | min es ih => simp only [Analyzer.boundsOf, boundsOfList_congr es ih]
  | max es ih => simp only [Analyzer.boundsOf, boundsOfList_congr es ih]
  | and es _ => simp [Analyzer.boundsOf]
  | or es _ => simp [Analyzer.boundsOf]
  | not e _ => simp [Analyzer.boundsOf]
  | xor a b _ _ => simp [Analyzer.boundsOf]
  | implies a b _ _ => simp [Analyzer.boundsOf]
  | iff a b _ _ => simp [Analyzer.boundsOf]
  | bin op a b iha ihb => cases op <;> simp only [Analyzer.boundsOf, iha, ihb]
  | un op e ih => cases op <;> simp only [Analyzer.boundsOf, ih]

theorem A_insert {an an' : Analyzer α} (h : A an an') (name : String) (t : Rooc.Bounds α) :
    A { an with variableBounds := AList.insert an.variableBounds name t }
      { an' with variableBounds := AList.insert an'.variableBounds name t } :=
  ⟨fun x => by simp only [get?_insert, h.vb], h.bv, h.tol, h.lim, h.inf⟩

theorem A_mark {an an' : Analyzer α} (h : A an an') : A an.markInfeasible an'.markInfeasible :=
  ⟨h.vb, h.bv, h.tol, h.lim, rfl⟩

/-- related `TState`s. -/
def T (s s' : TState α) : Prop := A s.an s'.an ∧ s.changed = s'.changed

theorem tightenVariable_A {an an' : Analyzer α} (h : A an an') (name : String) (cand : Rooc.Bounds α) :
    A (an.tightenVariable name cand).1 (an'.tightenVariable name cand).1 ∧
      (an.tightenVariable name cand).2 = (an'.tightenVariable name cand).2 := by
  unfold Analyzer.tightenVariable
  rw [h.bv name, varBounds_A h name, h.tol]
  split
  · exact ⟨h, rfl⟩
  · dsimp only
    split
    · exact ⟨A_mark h, rfl⟩
    · split
      · exact ⟨⟨fun x => by simp only [get?_insert, h.vb], h.bv, by first | rfl | exact h.tol, h.lim, h.inf⟩, rfl⟩
      · exact ⟨h, rfl⟩

theorem tightenVar_T {s s' : TState α} (h : T s s') (name : String) (cand : Rooc.Bounds α) :
    T (Analyzer.tightenVar s name cand) (Analyzer.tightenVar s' name cand) := by
  unfold Analyzer.tightenVar
  dsimp only
  obtain ⟨h1, h2⟩ := tightenVariable_A h.1 name cand
  rw [h2, h.2]
  split
  · exact ⟨h1, rfl⟩
  · exact ⟨h1, rfl⟩

def WalkT (e : Exp α) : Prop :=
  ∀ (req : Rooc.Bounds α) (s s' : TState α), T s s' →
    T (Analyzer.tightenExpression e req s) (Analyzer.tightenExpression e req s')

theorem tightenList_T : ∀ (es : List (Exp α)) (req : Rooc.Bounds α) (s s' : TState α),
    (∀ e ∈ es, WalkT e) → T s s' → T (Analyzer.tightenList es req s) (Analyzer.tightenList es req s')
  | [], _, s, s', _, h => by unfold Analyzer.tightenList; exact h
  | e :: es, req, s, s', ih, h => by
    unfold Analyzer.tightenList
    exact tightenList_T es req _ _ (fun e' he' => ih e' (by simp [he'])) (ih e (by simp) req s s' h)

theorem T_mark {s s' : TState α} (h : T s s') :
    T ⟨s.an.markInfeasible, s.changed⟩ ⟨s'.an.markInfeasible, s'.changed⟩ := ⟨A_mark h.1, h.2⟩

theorem tightenExpression_T : ∀ e : Exp α, WalkT e := by
  intro e
  induction e using expInd with
  | num x =>
    intro req s s' h; unfold Analyzer.tightenExpression
    rw [h.1.inf, boundsOf_A h.1, h.1.tol]
    split; exact h; split; exact T_mark h; exact h
  | var name =>
    intro req s s' h; unfold Analyzer.tightenExpression
    rw [h.1.inf, boundsOf_A h.1, h.1.tol]
    split; exact h; split; exact T_mark h
    exact tightenVar_T h name _
  | abs e ih =>
    intro req s s' h; unfold Analyzer.tightenExpression
    rw [h.1.inf, boundsOf_A h.1, h.1.tol]
    split; exact h; split; exact T_mark h
    dsimp only; split
    · exact ih _ s s' h
    · exact h
  | min es ih =>
    intro req s s' h; unfold Analyzer.tightenExpression
    rw [h.1.inf, boundsOf_A h.1, h.1.tol]
    split; exact h; split; exact T_mark h
    dsimp only; split
    · exact tightenList_T es _ s s' ih h
    · exact h
  | max es ih =>
    intro req s s' h; unfold Analyzer.tightenExpression
    rw [h.1.inf, boundsOf_A h.1, h.1.tol]
    split; exact h; split; exact T_mark h
    dsimp only; split
    · exact tightenList_T es _ s s' ih h
    · exact h
  | and es _ =>
    intro req s s' h; unfold Analyzer.tightenExpression
    rw [h.1.inf, boundsOf_A h.1, h.1.tol]
    split; exact h; split; exact T_mark h; exact h
  | or es _ =>
    intro req s s' h; unfold Analyzer.tightenExpression
    rw [h.1.inf, boundsOf_A h.1, h.1.tol]
    split; exact h; split; exact T_mark h; exact h
  | not e _ =>
    intro req s s' h; unfold Analyzer.tightenExpression
    rw [h.1.inf, boundsOf_A h.1, h.1.tol]
    split; exact h; split; exact T_mark h; exact h
  | xor a b _ _ =>
    intro req s s' h; unfold Analyzer.tightenExpression
    rw [h.1.inf, boundsOf_A h.1, h.1.tol]
    split; exact h; split; exact T_mark h; exact h
  | implies a b _ _ =>
    intro req s s' h; unfold Analyzer.tightenExpression
    rw [h.1.inf, boundsOf_A h.1, h.1.tol]
    split; exact h; split; exact T_mark h; exact h
  | iff a b _ _ =>
    intro req s s' h; unfold Analyzer.tightenExpression
    rw [h.1.inf, boundsOf_A h.1, h.1.tol]
    split; exact h; split; exact T_mark h; exact h
  | bin op a b iha ihb =>
    intro req s s' h; unfold Analyzer.tightenExpression
    rw [h.1.inf, boundsOf_A h.1, h.1.tol]
    split; exact h; split; exact T_mark h
    cases op
    · dsimp only
      rw [boundsOf_A h.1 a, boundsOf_A h.1 b]
      exact ihb _ _ _ (iha _ s s' h)
    · dsimp only
      rw [boundsOf_A h.1 a, boundsOf_A h.1 b]
      exact ihb _ _ _ (iha _ s s' h)
    · dsimp only
      split
      · split
        · exact ihb _ s s' h
        · exact h
      · split
        · split
          · exact iha _ s s' h
          · exact h
        · exact h
    · dsimp only
      split
      · split
        · exact iha _ s s' h
        · exact h
      · exact h
    all_goals exact h
  | un op e ih =>
    intro req s s' h; unfold Analyzer.tightenExpression
    rw [h.1.inf, boundsOf_A h.1, h.1.tol]
    split; exact h; split; exact T_mark h
    cases op
    · exact ih _ s s' h
    · exact h

theorem tightenConstraintExpression_T (c : Constraint α) (req : Rooc.Bounds α) {s s' : TState α} (h : T s s') :
    T (Analyzer.tightenConstraintExpression c req s) (Analyzer.tightenConstraintExpression c req s') := by
  unfold Analyzer.tightenConstraintExpression
  dsimp only
  rw [boundsOf_A h.1, boundsOf_A h.1, h.1.tol]
  split
  · exact T_mark h
  · exact tightenExpression_T _ _ _ _ (tightenExpression_T _ _ s s' h)

theorem affineLoop_T (required : Rooc.Bounds α) : ∀ (cs : List (String × α)) (ts : List (Rooc.Bounds α))
    (pre : Rooc.Bounds α) (s s' : TState α), T s s' →
    T (Analyzer.affineLoop required cs ts pre s) (Analyzer.affineLoop required cs ts pre s')
  | [], _, _, _, _, h => by simp [Analyzer.affineLoop]; exact h
  | _ :: _, [], _, _, _, h => by simp [Analyzer.affineLoop]; exact h
  | (n, c) :: cs, t :: ts, pre, s, s', h => by
    simp only [Analyzer.affineLoop]
    have h1 := tightenVar_T h n ((required.sub (pre.add (Analyzer.suffixSum ts))).divBy c)
    rw [h1.1.inf]
    split
    · exact h1
    · exact affineLoop_T required cs ts _ _ _ h1

theorem tightenAffineForm_T {an an' : Analyzer α} (h : A an an') (f : AffineForm α) (cmp : Cmp) :
    T (an.tightenAffineForm f cmp) (an'.tightenAffineForm f cmp) := by
  unfold Analyzer.tightenAffineForm
  dsimp only
  have hterms : (f.coefficients.map fun p => (Analyzer.varBounds an.variableBounds p.1).scale p.2) =
      (f.coefficients.map fun p => (Analyzer.varBounds an'.variableBounds p.1).scale p.2) :=
    List.map_congr_left (fun p _ => by rw [varBounds_A h])
  rw [hterms]
  have hloop := affineLoop_T (Rooc.Bounds.required cmp) f.coefficients
    (f.coefficients.map fun p => (Analyzer.varBounds an'.variableBounds p.1).scale p.2)
    (Rooc.Bounds.singleton f.constant) ⟨an, []⟩ ⟨an', []⟩ ⟨h, rfl⟩
  rw [hloop.1.tol]
  split
  · exact T_mark hloop
  · exact hloop

theorem stepConstraint_T {an an' : Analyzer α} (h : A an an') (c : Constraint α) (f : Option (AffineForm α)) :
    T (Analyzer.stepConstraint an c f) (Analyzer.stepConstraint an' c f) := by
  unfold Analyzer.stepConstraint
  cases f with
  | some f => exact tightenAffineForm_T h f c.cmp
  | none => exact tightenConstraintExpression_T c _ (s := ⟨an, []⟩) (s' := ⟨an', []⟩) ⟨h, rfl⟩

theorem propagateLoop_A (cs : List (Constraint α)) (forms : List (Option (AffineForm α)))
    (deps : List (String × List Nat)) : ∀ (fuel : Nat) (an an' : Analyzer α) (queue : List Nat) (queued : List Bool),
    A an an' →
    A (Analyzer.propagateLoop cs forms deps fuel an queue queued)
      (Analyzer.propagateLoop cs forms deps fuel an' queue queued) := by
  intro fuel
  induction fuel with
  | zero =>
    intro an an' queue queued h
    cases queue with
    | nil => simpa [Analyzer.propagateLoop] using h
    | cons _ _ => simp only [Analyzer.propagateLoop]; exact ⟨h.vb, h.bv, h.tol, rfl, h.inf⟩
  | succ fuel ih =>
    intro an an' queue queued h
    cases queue with
    | nil => simpa [Analyzer.propagateLoop] using h
    | cons index queue =>
      simp only [Analyzer.propagateLoop]
      split
      · rename_i c form hc hform
        have hstep := stepConstraint_T h c form
        rw [hstep.1.inf, hstep.2]
        split
        · exact hstep.1
        · exact ih _ _ _ _ hstep.1
      · exact ih _ _ _ _ h

/-! ### `from_domain` and the rounding loop, by lookup -/

theorem get?_foldl_insert {β : Type} (f : DomVar α → β) : ∀ (dom : List (DomVar α)) (m : List (String × β)) (x : String),
    AList.get? (dom.foldl (fun m d => AList.insert m d.name (f d)) m) x =
      match dom.reverse.find? (·.name == x) with
      | some d => some (f d)
      | none => AList.get? m x
  | [], m, x => rfl
  | d :: ds, m, x => by
    simp only [List.foldl_cons, List.reverse_cons, List.find?_append]
    rw [get?_foldl_insert f ds _ x]
    cases h : ds.reverse.find? (·.name == x) with
    | some d' => rfl
    | none =>
      simp only [Option.none_or, List.find?_cons, List.find?_nil, get?_insert]
      by_cases hx : d.name = x
      · simp [hx]
      · have : (d.name == x) = false := by simpa using hx
        simp [hx, this]

theorem fromDomain_get?_perm {dom dom' : List (DomVar α)} (hp : dom.Perm dom') (hn : (dom.map (·.name)).Nodup)
    (tol : α) (x : String) :
    AList.get? (Analyzer.fromDomain dom tol).variableBounds x =
      AList.get? (Analyzer.fromDomain dom' tol).variableBounds x := by
  simp only [Analyzer.fromDomain]
  rw [get?_foldl_insert, get?_foldl_insert]
  have hn' : (dom'.map (·.name)).Nodup := ((hp.map _).nodup_iff).mp hn
  have h1 : dom.reverse.find? (·.name == x) = dom.find? (·.name == x) :=
    find?_name_perm (List.reverse_perm dom) (by rw [List.map_reverse]; exact List.nodup_reverse.mpr hn) x
  have h2 : dom'.reverse.find? (·.name == x) = dom'.find? (·.name == x) :=
    find?_name_perm (List.reverse_perm dom') (by rw [List.map_reverse]; exact List.nodup_reverse.mpr hn') x
  rw [h1, h2, find?_name_perm hp hn x]

theorem contains_insertSet' (xs : List String) (x y : String) :
    (insertSet xs x).contains y = (xs.contains y || y == x) := by
  unfold insertSet
  by_cases hy : y = x
  · subst hy
    by_cases h : xs.contains y = true
    · rw [if_pos h, h]; rfl
    · rw [if_neg h]
      have : (xs ++ [y]).contains y = true := by
        rw [List.contains_iff_mem]; simp
      rw [this]; simp
  · have hyx : (y == x) = false := by simpa using hy
    rw [hyx, Bool.or_false]
    split
    · rfl
    · rw [Bool.eq_iff_iff]
      simp only [List.contains_iff_mem, List.mem_append, List.mem_singleton]
      constructor
      · rintro (h | h)
        · exact h
        · exact absurd h hy
      · exact Or.inl

theorem foldl_set_contains (g : List String → DomVar α → List String) (isB : DomVar α → Bool)
    (hg : ∀ s d x, (g s d).contains x = (s.contains x || (isB d && x == d.name))) :
    ∀ (dom : List (DomVar α)) (s : List String) (x : String),
    (dom.foldl g s).contains x = (s.contains x || dom.any fun d => isB d && x == d.name)
  | [], s, x => by simp
  | d :: ds, s, x => by
    simp only [List.foldl_cons, List.any_cons]
    rw [foldl_set_contains g isB hg ds _ x, hg, Bool.or_assoc]

theorem foldl_set_perm (g : List String → DomVar α → List String) (isB : DomVar α → Bool)
    (hg : ∀ s d x, (g s d).contains x = (s.contains x || (isB d && x == d.name)))
    {dom dom' : List (DomVar α)} (hp : dom.Perm dom') (x : String) :
    (dom.foldl g []).contains x = (dom'.foldl g []).contains x := by
  rw [foldl_set_contains g isB hg, foldl_set_contains g isB hg]
  congr 1
  rw [Bool.eq_iff_iff]
  simp only [List.any_eq_true]
  exact ⟨fun ⟨v, hv, h⟩ => ⟨v, hp.mem_iff.mp hv, h⟩, fun ⟨v, hv, h⟩ => ⟨v, hp.mem_iff.mpr hv, h⟩⟩

theorem fromDomain_A {dom dom' : List (DomVar α)} (hp : dom.Perm dom') (hn : (dom.map (·.name)).Nodup) (tol : α) :
    A (Analyzer.fromDomain dom tol) (Analyzer.fromDomain dom' tol) := by
  refine ⟨fromDomain_get?_perm hp hn tol, ?_, rfl, rfl, rfl⟩
  intro x
  simp only [Analyzer.fromDomain]
  refine foldl_set_perm _ (fun d => match d.ty with | .bool => true | _ => false) ?_ hp x
  intro s d x
  cases hty : d.ty
  · simp only [hty]
    exact contains_insertSet' s d.name x
  all_goals simp [hty]

theorem analyze_A {dom dom' : List (DomVar α)} (hp : dom.Perm dom') (hn : (dom.map (·.name)).Nodup)
    (cs : List (Constraint α)) (tol : α) (maxSteps : Nat) :
    A (Analyzer.analyze dom cs tol maxSteps) (Analyzer.analyze dom' cs tol maxSteps) := by
  unfold Analyzer.analyze Analyzer.propagate
  exact propagateLoop_A _ _ _ _ _ _ _ _ (fromDomain_A hp hn tol)

/-! ### `enforceable`, `apply_to_domain`, `toLinBounds` -/

theorem any_perm {β : Type} {l l' : List β} (hp : l.Perm l') (f : β → Bool) : l.any f = l'.any f := by
  rw [Bool.eq_iff_iff]
  simp only [List.any_eq_true]
  exact ⟨fun ⟨v, hv, h⟩ => ⟨v, hp.mem_iff.mp hv, h⟩, fun ⟨v, hv, h⟩ => ⟨v, hp.mem_iff.mpr hv, h⟩⟩

theorem emptyIntegerRange_A {an an' : Analyzer α} (h : A an an') {dom dom' : List (DomVar α)} (hp : dom.Perm dom') :
    an.emptyIntegerRange dom = an'.emptyIntegerRange dom' := by
  unfold Analyzer.emptyIntegerRange
  rw [any_perm hp]
  congr 1
  funext d
  simp only [h.vb, h.tol]

theorem roundStep_fields (a : Analyzer α) (d : DomVar α) :
    (a.roundStep d).booleanVariables = a.booleanVariables ∧ (a.roundStep d).tolerance = a.tolerance ∧
    (a.roundStep d).reachedIterationLimit = a.reachedIterationLimit ∧
    (a.roundStep d).detectedInfeasible = a.detectedInfeasible := by
  unfold Analyzer.roundStep
  split
  · split <;> exact ⟨rfl, rfl, rfl, rfl⟩
  · exact ⟨rfl, rfl, rfl, rfl⟩

/-- what the rounding step stores for a variable: a function of the old entry, the type and the tolerance. -/
def roundedEntry (tol : α) (ty : VarType α) (old : Option (Rooc.Bounds α)) : Option (Rooc.Bounds α) :=
  match ty with
  | .int _ _ =>
    match old with
    | some b => some ⟨ceil (sub b.lower tol), floor (add b.upper tol)⟩
    | none => none
  | _ => old

theorem roundStep_get? (a : Analyzer α) (d : DomVar α) (x : String) :
    AList.get? (a.roundStep d).variableBounds x =
      if d.name = x then roundedEntry a.tolerance d.ty (AList.get? a.variableBounds x)
      else AList.get? a.variableBounds x := by
  unfold Analyzer.roundStep roundedEntry
  by_cases hx : d.name = x
  · subst hx
    rw [if_pos rfl]
    cases hty : d.ty with
    | int lo hi =>
      dsimp only
      cases hb : AList.get? a.variableBounds d.name with
      | none => dsimp only; rw [hb]
      | some b => dsimp only; simp only [get?_insert, if_true]
    | bool => rfl
    | nnreal lo hi => rfl
    | real lo hi => rfl
  · rw [if_neg hx]
    cases hty : d.ty with
    | int lo hi =>
      dsimp only
      cases hb : AList.get? a.variableBounds d.name with
      | none => rfl
      | some b => dsimp only; simp only [get?_insert, if_neg hx]
    | bool => rfl
    | nnreal lo hi => rfl
    | real lo hi => rfl

theorem roundIntegerRanges_fields : ∀ (dom : List (DomVar α)) (a : Analyzer α),
    (a.roundIntegerRanges dom).booleanVariables = a.booleanVariables ∧
    (a.roundIntegerRanges dom).tolerance = a.tolerance ∧
    (a.roundIntegerRanges dom).reachedIterationLimit = a.reachedIterationLimit ∧
    (a.roundIntegerRanges dom).detectedInfeasible = a.detectedInfeasible
  | [], a => ⟨rfl, rfl, rfl, rfl⟩
  | d :: ds, a => by
    unfold Analyzer.roundIntegerRanges
    simp only [List.foldl_cons]
    have h1 := roundStep_fields a d
    have h2 := roundIntegerRanges_fields ds (a.roundStep d)
    unfold Analyzer.roundIntegerRanges at h2
    exact ⟨h2.1.trans h1.1, h2.2.1.trans h1.2.1, h2.2.2.1.trans h1.2.2.1, h2.2.2.2.trans h1.2.2.2⟩

theorem roundIntegerRanges_get? : ∀ (dom : List (DomVar α)) (a : Analyzer α) (x : String),
    (dom.map (·.name)).Nodup →
    AList.get? (a.roundIntegerRanges dom).variableBounds x =
      match dom.find? (·.name == x) with
      | some d => roundedEntry a.tolerance d.ty (AList.get? a.variableBounds x)
      | none => AList.get? a.variableBounds x
  | [], a, x, _ => rfl
  | d :: ds, a, x, hn => by
    simp only [List.map_cons, List.nodup_cons] at hn
    have ih := roundIntegerRanges_get? ds (a.roundStep d) x hn.2
    unfold Analyzer.roundIntegerRanges at ih ⊢
    simp only [List.foldl_cons, List.find?_cons]
    rw [ih, roundStep_get?, (roundStep_fields a d).2.1]
    by_cases hx : d.name = x
    · have hnone : ds.find? (·.name == x) = none := by
        rw [List.find?_eq_none]
        intro d' hd' hq
        exact hn.1 (List.mem_map.mpr ⟨d', hd', by rw [hx]; simpa using hq⟩)
      simp [hx, hnone]
    · have : (d.name == x) = false := by simpa using hx
      simp only [this, if_neg hx]

theorem roundIntegerRanges_A {an an' : Analyzer α} (h : A an an') {dom dom' : List (DomVar α)}
    (hp : dom.Perm dom') (hn : (dom.map (·.name)).Nodup) :
    A (an.roundIntegerRanges dom) (an'.roundIntegerRanges dom') := by
  have hn' : (dom'.map (·.name)).Nodup := ((hp.map _).nodup_iff).mp hn
  have f1 := roundIntegerRanges_fields dom an
  have f2 := roundIntegerRanges_fields dom' an'
  refine ⟨?_, ?_, ?_, ?_, ?_⟩
  · intro x
    rw [roundIntegerRanges_get? dom an x hn, roundIntegerRanges_get? dom' an' x hn', find?_name_perm hp hn x,
      h.vb, h.tol]
  · intro x; rw [f1.1, f2.1]; exact h.bv x
  · rw [f1.2.1, f2.2.1]; exact h.tol
  · rw [f1.2.2.1, f2.2.2.1]; exact h.lim
  · rw [f1.2.2.2, f2.2.2.2]; exact h.inf

theorem enforceable_A {an an' : Analyzer α} (h : A an an') {dom dom' : List (DomVar α)}
    (hp : dom.Perm dom') (hn : (dom.map (·.name)).Nodup) :
    A (an.enforceable dom) (an'.enforceable dom') := by
  unfold Analyzer.enforceable
  rw [h.inf, emptyIntegerRange_A h hp, h.tol]
  split
  · have := fromDomain_A hp hn an'.tolerance
    exact ⟨this.vb, this.bv, rfl, h.lim, rfl⟩
  · exact roundIntegerRanges_A h hp hn

theorem applyToVar_A {an an' : Analyzer α} (h : A an an') (d : DomVar α) : an.applyToVar d = an'.applyToVar d := by
  unfold Analyzer.applyToVar
  rw [h.vb, h.tol]

theorem applyToDomain_A {an an' : Analyzer α} (h : A an an') {dom dom' : List (DomVar α)} (hp : dom.Perm dom') :
    (an.applyToDomain dom).Perm (an'.applyToDomain dom') := by
  unfold Analyzer.applyToDomain
  have : dom.map an.applyToVar = dom.map an'.applyToVar := List.map_congr_left (fun d _ => applyToVar_A h d)
  rw [this]
  exact hp.map _

theorem lookupB_toLinBounds' (vb : List (String × Rooc.Bounds α)) (n : String) :
    lookupB (Compile.toLinBounds vb) n = (AList.get? vb n).map fun b => (⟨b.lower, b.upper⟩ : Lin.Bounds α) := by
  induction vb with
  | nil => rfl
  | cons p vb ih =>
    obtain ⟨k, v⟩ := p
    unfold lookupB at ih ⊢
    simp only [Compile.toLinBounds, List.map_cons, List.find?_cons, AList.get?] at ih ⊢
    by_cases hk : (k == n) = true
    · simp [hk]
    · have hk' : (k == n) = false := by simpa using hk
      simp only [hk', Bool.false_eq_true, if_false]
      exact ih

/-! ### the whole compiler -/

/-- **`Compile.linearize` is a function of the model up to the ORDER of the domain map**: two models that differ
only by the order of their (duplicate-free) declarations compile to the same model up to the order of its domain —
same variables, objective, offset, rows, direction; permuted domain — or both fail with the same error. -/
theorem compile_perm (m m' : Model α) (tol : α) (maxSteps : Nat)
    (ho : m'.optType = m.optType) (hobj : m'.objective = m.objective) (hc : m'.constraints = m.constraints)
    (hp : m.domain.Perm m'.domain) (hn : (m.domain.map (·.name)).Nodup) :
    match Compile.linearize m tol maxSteps, Compile.linearize m' tol maxSteps with
    | .ok lm, .ok lm' => SameUpToDomainOrder lm lm'
    | .error e, .error e' => e = e'
    | _, _ => False := by
  -- the up-front collapse check (rooc e35561f) on the two scratch contexts: same verdict
  have hSscr : S (Compile.scratchState m tol maxSteps) (Compile.scratchState m' tol maxSteps) :=
    ⟨rfl, rfl, rfl, rfl, rfl, rfl, rfl, rfl, rfl, rfl, rfl, hp, hn, fun x => by
      show lookupB (Compile.toLinBounds _) x = lookupB (Compile.toLinBounds _) x
      rw [lookupB_toLinBounds', lookupB_toLinBounds', (analyze_A hp hn [] tol maxSteps).vb]⟩
  have hchk := collapseCheckAll2 m _ _ hSscr
  have hmchk : collapseCheckAll m' = collapseCheckAll m := by
    unfold collapseCheckAll; rw [hobj, hc]
  unfold Compile.linearize
  rw [hmchk]
  unfold RunRel at hchk
  cases h1 : collapseCheckAll m (Compile.scratchState m tol maxSteps) with
  | error e =>
    cases h2 : collapseCheckAll m (Compile.scratchState m' tol maxSteps) with
    | error e' => rw [h1, h2] at hchk; simpa using hchk
    | ok q => rw [h1, h2] at hchk; exact hchk.elim
  | ok q =>
   cases h2 : collapseCheckAll m (Compile.scratchState m' tol maxSteps) with
   | error e' => rw [h1, h2] at hchk; exact hchk.elim
   | ok q' =>
    dsimp only
    rw [hc]
    cases hnf : Compile.normalizedForBounds m.constraints with
    | none => simp
    | some cs =>
     dsimp only
     have hA : A ((Analyzer.analyze m.domain cs tol maxSteps).enforceable m.domain)
         ((Analyzer.analyze m'.domain cs tol maxSteps).enforceable m'.domain) :=
       enforceable_A (analyze_A hp hn cs tol maxSteps) hp hn
     have hdom := applyToDomain_A hA hp
     have hnd : ((((Analyzer.analyze m.domain cs tol maxSteps).enforceable m.domain).applyToDomain m.domain).map
         (·.name)).Nodup := by rw [applyToDomain_names]; exact hn
     have hb : ∀ x, lookupB (Compile.toLinBounds
           ((Analyzer.analyze m.domain cs tol maxSteps).enforceable m.domain).variableBounds) x =
         lookupB (Compile.toLinBounds
           ((Analyzer.analyze m'.domain cs tol maxSteps).enforceable m'.domain).variableBounds) x := by
       intro x; rw [lookupB_toLinBounds', lookupB_toLinBounds', hA.vb]
     have key := linearizeWith_perm m hdom hnd hb
     -- `linearizeWith` reads the model only through objective, direction and constraints
     have hm : ∀ b d, linearizeWith m' b d = linearizeWith m b d := by
       intro b d
       unfold linearizeWith
       simp only [ho, hobj, hc]
     show (match linearizeWith m _ _, linearizeWith m' _ _ with
       | .ok lm, .ok lm' => SameUpToDomainOrder lm lm'
       | .error e, .error e' => e = e'
       | _, _ => False)
     rw [hm]
     exact key

end AnRel
end Rooc

