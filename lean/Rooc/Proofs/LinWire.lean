/-
`AssertShape` is what the wire format produces: every model the checker decodes stores a bare assertion as
`lhs = 1`.
-/
import Rooc.Proofs.LinBridgeLogic
import Rooc.WireModel

set_option linter.unusedSectionVars false

namespace Rooc.LinP
open Rooc

theorem optAll_mem {β : Type} : ∀ {l : List (Option β)} {ys : List β}, optAll l = some ys →
    ∀ y ∈ ys, some y ∈ l
  | [], ys, h, y, hy => by simp [optAll] at h; subst h; cases hy
  | none :: _, ys, h, y, hy => by simp [optAll] at h
  | some x :: xs, ys, h, y, hy => by
    simp only [optAll, Option.map_eq_some_iff] at h
    obtain ⟨ys', h1, rfl⟩ := h
    rcases List.mem_cons.mp hy with rfl | hy
    · simp
    · exact List.mem_cons_of_mem _ (optAll_mem h1 y hy)

theorem constraint_dec_assert {α : Type} [Wire α] [Arith α] {s : Sexp} {c : Constraint α}
    (h : Constraint.dec s = some c) (ha : c.isAssert = true) : c.cmp = .eq ∧ c.rhs = .num Arith.one := by
  unfold Constraint.dec at h
  split at h
  · simp only [Option.bind_eq_bind, Option.bind_eq_some_iff, Option.pure_def, Option.some.injEq] at h
    obtain ⟨e, _, rfl⟩ := h
    exact ⟨rfl, rfl⟩
  · simp only [Option.bind_eq_bind, Option.bind_eq_some_iff, Option.pure_def, Option.some.injEq] at h
    obtain ⟨_, _, _, _, _, _, rfl⟩ := h
    simp at ha
  · cases h

/-- every decoded model stores its bare assertions as `lhs = 1`. -/
theorem model_dec_assert {α : Type} [Wire α] [Arith α] {s : Sexp} {m : Model α} (h : Model.dec s = some m) :
    ∀ c ∈ m.constraints, c.isAssert = true → c.cmp = .eq ∧ c.rhs = .num Arith.one := by
  unfold Model.dec at h
  split at h
  · simp only [Option.bind_eq_bind, Option.bind_eq_some_iff, Option.pure_def, Option.some.injEq] at h
    obtain ⟨_, _, _, _, cs', hcs, _, _, rfl⟩ := h
    intro c hc ha
    have := optAll_mem hcs c hc
    obtain ⟨sx, _, hsx⟩ := List.mem_map.mp this
    exact constraint_dec_assert hsx ha
  · cases h

variable {K : Type} [Field K] [LinearOrder K] [IsStrictOrderedRing K] [FloorRing K]

/-- **`AssertShape` is discharged for every model that comes over the wire.** -/
theorem assertShape_of_dec [Wire (Ext K)] {s : Sexp} {m : Model (Ext K)} (h : Model.dec s = some m) :
    AssertShape m := by
  intro c hc ha
  obtain ⟨h1, h2⟩ := model_dec_assert h c hc ha
  exact ⟨h1, by rw [h2, ar_one]⟩

end Rooc.LinP
