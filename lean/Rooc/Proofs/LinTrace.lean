/-
The work-list only grows at the front: no lowering function removes or reorders a queued constraint.  State-free
(no invariant).  Consequence (`drain_processed`): when the loop ends successfully, every constraint that was ever
queued has gone through one successful iteration — in particular every source constraint.
Part 1: `Exp::linearize`.
-/
import Rooc.Proofs.LinDef3

set_option linter.unusedSectionVars false
set_option linter.unusedSimpArgs false
set_option linter.unusedVariables false
set_option linter.unusedTactic false
set_option linter.unreachableTactic false

namespace Rooc.LinP
open Rooc Rooc.Lin Rooc.Sem Rooc.Exp

variable {K : Type} [Field K] [LinearOrder K] [IsStrictOrderedRing K] [FloorRing K]

/-- the queue of `s'` is the queue of `s` with new entries in front. -/
def QExt (s s' : St (Ext K)) : Prop := ∃ new, s'.queue = new ++ s.queue

theorem QExt.refl (s : St (Ext K)) : QExt s s := ⟨[], rfl⟩

theorem QExt.trans {s s1 s2 : St (Ext K)} (h1 : QExt s s1) (h2 : QExt s1 s2) : QExt s s2 := by
  obtain ⟨n1, e1⟩ := h1
  obtain ⟨n2, e2⟩ := h2
  exact ⟨n2 ++ n1, by rw [e2, e1, List.append_assoc]⟩

theorem QExt.of_eq {s s' : St (Ext K)} (h : s'.queue = s.queue) : QExt s s' := ⟨[], by simpa using h⟩

theorem QExt.mem {s s' : St (Ext K)} (h : QExt s s') {c : Constraint (Ext K)} (hc : c ∈ s.queue) : c ∈ s'.queue := by
  obtain ⟨n, e⟩ := h
  rw [e]; exact List.mem_append_right _ hc

theorem QExt.pushAll (s : St (Ext K)) (cs : List (Constraint (Ext K))) : QExt s (pushAll s cs) := ⟨cs.reverse, rfl⟩

theorem QExt.pushC (s : St (Ext K)) (c : Constraint (Ext K)) : QExt s (pushC s c) := ⟨[c], rfl⟩

theorem QExt.declAll (s : St (Ext K)) (ty : VarType (Ext K)) (ns : List String) : QExt s (declAll s ty ns) :=
  QExt.of_eq (declAll_queue ty ns s)

def QHolds (e : Exp (Ext K)) : Prop :=
  ∀ (req : Req) (s : St (Ext K)) (c : Ctx (Ext K)) (s' : St (Ext K)), linExp e req s = .ok (c, s') → QExt s s'

theorem linList_qext : ∀ (es : List (Exp (Ext K))), (∀ e ∈ es, QHolds e) → ∀ (req : Req) (s : St (Ext K))
    (xs : List (Exp (Ext K))) (s' : St (Ext K)), linList es req s = .ok (xs, s') → QExt s s'
  | [], _, _, s, xs, s', h => by
    simp only [linList, pure_ok] at h; cases h; exact QExt.refl s
  | e :: es, hall, req, s, xs, s', h => by
    simp only [linList, bind_ok, pure_ok] at h
    obtain ⟨c, s1, h1, ys, s2, h2, hr⟩ := h
    cases hr
    exact (hall e (by simp) req s _ _ h1).trans
      (linList_qext es (fun x hx => hall x (by simp [hx])) req s1 _ _ h2)

theorem linBinaryOperand_qext {e : Exp (Ext K)} (ih : QHolds e) {s : St (Ext K)} {o : Exp (Ext K)} {s' : St (Ext K)}
    (h : linBinaryOperand e s = .ok (o, s')) : QExt s s' := by
  obtain ⟨c, hc, _, _⟩ := (linBinaryOperand_ok _ _ _).mp h
  exact ih .exact s _ _ hc

theorem linBinaryOperands_qext : ∀ (es : List (Exp (Ext K))), (∀ e ∈ es, QHolds e) → ∀ (s : St (Ext K))
    (xs : List (Exp (Ext K))) (s' : St (Ext K)), linBinaryOperands es s = .ok (xs, s') → QExt s s'
  | [], _, s, xs, s', h => by
    simp only [linBinaryOperands, pure_ok] at h; cases h; exact QExt.refl s
  | e :: es, hall, s, xs, s', h => by
    simp only [linBinaryOperands, bind_ok, pure_ok] at h
    obtain ⟨o, s1, h1, os, s2, h2, hr⟩ := h
    cases hr
    exact (linBinaryOperand_qext (hall e (by simp)) h1).trans
      (linBinaryOperands_qext es (fun x hx => hall x (by simp [hx])) s1 _ _ h2)

theorem linExtreme_qext {kind : ExtKind} {es : List (Exp (Ext K))} (ih : ∀ e ∈ es, QHolds e) {req : Req}
    {s : St (Ext K)} {c : Ctx (Ext K)} {s' : St (Ext K)} (h : linExtreme kind es req s = .ok (c, s')) : QExt s s' := by
  set flags := retainedFlagsE kind es (boundsOfList s.bounds es) with hflags
  have hlenflags : es.length = flags.length := by
    rw [hflags, retainedFlagsE_length _ _ _ (by rw [boundsOfList_eq_map, List.length_map])]
  have ihsel : ∀ e ∈ selectFlagged es flags, QHolds e := fun e he => ih e (selectFlagged_subset he)
  by_cases hn1 : (flags.filter id).length = 1
  · rw [linExtreme.eq_def] at h
    simp only [ite_ok, fail_ok, bind_ok, get_ok, and_false, false_or] at h
    obtain ⟨hne, s0, s0', h0, h⟩ := h
    cases h0
    obtain ⟨_, h⟩ := h
    rcases h with ⟨_, h⟩ | ⟨hne1, _⟩
    · rw [linFirstFlagged_eq] at h
      cases hrs : selectFlagged es flags with
      | nil => simp only [← hflags, hrs] at h; simp [fail_ok] at h
      | cons e1 rest =>
        simp only [← hflags, hrs] at h
        exact ihsel e1 (by rw [hrs]; simp) req s _ _ h
    · exact absurd (by simpa using hn1) hne1
  · cases kind with
    | max =>
      obtain ⟨_, _, v, ops, sL, _, hcase⟩ := linExtreme_max_gadget h hn1
      have h0 : QExt s (maxState1 s v (boundsOf s.bounds (.max (selectFlagged es flags)))) := QExt.of_eq rfl
      rcases hcase with ⟨_, hlin, hr⟩ | ⟨_, _, _, hlin, sel, _, _, _, hr⟩
      · cases hr
        exact (h0.trans (linList_qext _ ihsel _ _ _ _ hlin)).trans (QExt.pushAll _ _)
      · cases hr
        refine (h0.trans (linList_qext _ ihsel _ _ _ _ hlin)).trans ?_
        unfold maxState2
        exact ((QExt.declAll _ _ _).trans (QExt.pushAll _ _)).trans (QExt.pushC _ _)
    | min =>
      obtain ⟨_, _, v, ops, sL, _, hcase⟩ := linExtreme_min_gadget h hn1
      have h0 : QExt s (minState1 s v (boundsOf s.bounds (.min (selectFlagged es flags)))) := QExt.of_eq rfl
      rcases hcase with ⟨_, hlin, hr⟩ | ⟨_, _, _, hlin, sel, _, _, _, hr⟩
      · cases hr
        exact (h0.trans (linList_qext _ ihsel _ _ _ _ hlin)).trans (QExt.pushAll _ _)
      · cases hr
        refine (h0.trans (linList_qext _ ihsel _ _ _ _ hlin)).trans ?_
        unfold minState2
        exact ((QExt.declAll _ _ _).trans (QExt.pushAll _ _)).trans (QExt.pushC _ _)

/-- the reified connectives: operands, a counter bump, `reify_logic_variable`. -/
theorem reify_qext {v : String} {cs : List (Cmp × Exp (Ext K))} {s : St (Ext K)} {c : Ctx (Ext K)} {s' : St (Ext K)}
    (h : reify v cs s = .ok (c, s')) : QExt s s' := by
  obtain ⟨_, hr⟩ := (reify_ok _ _ _ _).mp h
  cases hr
  exact (QExt.pushAll _ _).trans (QExt.of_eq rfl)

theorem linExp_qext : ∀ e : Exp (Ext K), QHolds e := by
  intro e
  induction e using Exp.indL with
  | num v => intro req s c' s' h; rw [linExp] at h; simp only [pure_ok] at h; cases h; exact QExt.refl s
  | var x => intro req s c' s' h; rw [linExp] at h; simp only [pure_ok] at h; cases h; exact QExt.refl s
  | bin op a b iha ihb =>
    intro req s c' s' h
    cases op with
    | add =>
      rw [linExp] at h
      simp only [bind_ok, pure_ok] at h
      obtain ⟨x, s1, hx, y, s2, hy, hr⟩ := h
      cases hr
      exact (iha _ _ _ _ hx).trans (ihb _ _ _ _ hy)
    | sub =>
      rw [linExp] at h
      simp only [bind_ok, pure_ok] at h
      obtain ⟨x, s1, hx, y, s2, hy, hr⟩ := h
      cases hr
      exact (iha _ _ _ _ hx).trans (ihb _ _ _ _ hy)
    | mul =>
      rcases num_or_not a with ⟨c, rfl⟩ | hna
      · rw [linExp] at h
        by_cases hg : (Arith.eq c (Arith.zero : Ext K) && !(Exp.mayBeUndefined b)) = true
        · rw [if_pos hg] at h; simp only [pure_ok] at h; cases h; exact QExt.refl s
        · rw [if_neg hg] at h
          simp only [bind_ok, pure_ok] at h
          obtain ⟨y, s1, hy, hr⟩ := h
          cases hr
          exact ihb _ _ _ _ hy
      · rcases num_or_not b with ⟨c, rfl⟩ | hnb
        · rw [linExp.eq_4 _ _ _ hna] at h
          by_cases hg : (Arith.eq c (Arith.zero : Ext K) && !(Exp.mayBeUndefined a)) = true
          · rw [if_pos hg] at h; simp only [pure_ok] at h; cases h; exact QExt.refl s
          · rw [if_neg hg] at h
            simp only [bind_ok, pure_ok] at h
            obtain ⟨y, s1, hy, hr⟩ := h
            cases hr
            exact iha _ _ _ _ hy
        · rw [linExp.eq_5 _ _ _ hna hnb] at h
          simp [fail_ok] at h
    | div =>
      rcases num_or_not b with ⟨d, rfl⟩ | hnb
      · rw [linExp] at h
        by_cases hz : Arith.eq d (Arith.zero : Ext K) = true
        · rw [if_pos hz] at h; simp [fail_ok] at h
        · rw [if_neg hz] at h
          simp only [bind_ok, pure_ok] at h
          obtain ⟨y, s1, hy, hr⟩ := h
          cases hr
          exact iha _ _ _ _ hy
      · rw [linExp.eq_7 _ _ _ hnb] at h
        simp [fail_ok] at h
    | _ =>
      rw [linExp] at h
      all_goals first | (simp [fail_ok] at h; done) | (intros; first | contradiction | (rename_i hh; cases hh))
  | un op e ih =>
    intro req s c' s' h
    cases op with
    | neg =>
      rw [linExp] at h
      simp only [bind_ok, pure_ok] at h
      obtain ⟨x, s1, hx, hr⟩ := h
      cases hr
      exact ih _ _ _ _ hx
    | not =>
      rw [linExp] at h
      simp [fail_ok] at h
  | abs e ih =>
    intro req s c' s' h
    by_cases h1 : Arith.ge (boundsOf s.bounds e).lower (Arith.zero : Ext K) = true
    · rw [linExp] at h
      simp only [bind_ok, get_ok] at h
      obtain ⟨s0, s0', h0, h⟩ := h
      cases h0
      rw [if_pos h1] at h
      exact ih _ _ _ _ h
    · by_cases h2 : Arith.le (boundsOf s.bounds e).upper (Arith.zero : Ext K) = true
      · rw [linExp] at h
        simp only [bind_ok, get_ok] at h
        obtain ⟨s0, s0', h0, h⟩ := h
        cases h0
        rw [if_neg h1, if_pos h2] at h
        simp only [bind_ok, pure_ok] at h
        obtain ⟨x, s1, hx, hr⟩ := h
        cases hr
        exact ih _ _ _ _ hx
      · obtain ⟨innerC, s1, v, p, hin, _, hcase⟩ := linExp_abs_gadget h1 h2 h
        have hq1 : QExt s1 (absState1 s1 v (boundsOf s.bounds e) (ctxToExp innerC)) := by
          unfold absState1
          exact ((QExt.of_eq rfl : QExt s1 (declState (bumpAbs s1) v _)).trans (QExt.pushC _ _)).trans (QExt.pushC _ _)
        rcases hcase with ⟨_, hr⟩ | ⟨_, _, _, _, hr⟩
        · cases hr; exact (ih _ _ _ _ hin).trans hq1
        · cases hr
          refine ((ih _ _ _ _ hin).trans hq1).trans ?_
          unfold absState2
          exact ((QExt.of_eq rfl : QExt _ (declState _ p _)).trans (QExt.pushC _ _)).trans (QExt.pushC _ _)
  | not e ih =>
    intro req s c' s' h
    rw [linExp] at h
    simp only [bind_ok, get_ok] at h
    obtain ⟨x, s1, hx, s0, s0', h0, h⟩ := h
    cases h0
    split at h
    · simp [fail_ok] at h
    · simp only [pure_ok] at h; cases h; exact ih _ _ _ _ hx
  | min es ih =>
    intro req s c' s' h
    rw [linExp] at h
    exact linExtreme_qext ih h
  | max es ih =>
    intro req s c' s' h
    rw [linExp] at h
    exact linExtreme_qext ih h
  | and es ih =>
    intro req s c' s' h
    rw [linExp] at h
    by_cases hemp : es.isEmpty = true
    · rw [if_pos hemp] at h; simp only [pure_ok] at h; cases h; exact QExt.refl s
    · rw [if_neg hemp] at h
      simp only [bind_ok, get_ok, set_ok] at h
      obtain ⟨ops, s1, hops, s0, s0', h0, u, s2, hset, hre⟩ := h
      cases h0; cases hset
      have hq := reify_qext hre
      exact (linBinaryOperands_qext es ih s _ _ hops).trans ((QExt.of_eq rfl).trans hq)
  | or es ih =>
    intro req s c' s' h
    rw [linExp] at h
    by_cases hemp : es.isEmpty = true
    · rw [if_pos hemp] at h; simp only [pure_ok] at h; cases h; exact QExt.refl s
    · rw [if_neg hemp] at h
      simp only [bind_ok, get_ok, set_ok] at h
      obtain ⟨ops, s1, hops, s0, s0', h0, u, s2, hset, hre⟩ := h
      cases h0; cases hset
      have hq := reify_qext hre
      exact (linBinaryOperands_qext es ih s _ _ hops).trans ((QExt.of_eq rfl).trans hq)
  | xor a b iha ihb =>
    intro req s c' s' h
    rw [linExp] at h
    simp only [bind_ok, get_ok, set_ok] at h
    obtain ⟨x, s1, hx, y, s2, hy, s0, s0', h0, u, s3, hset, hre⟩ := h
    cases h0; cases hset
    have hq := reify_qext hre
    exact ((linBinaryOperand_qext iha hx).trans (linBinaryOperand_qext ihb hy)).trans ((QExt.of_eq rfl).trans hq)
  | implies a b iha ihb =>
    intro req s c' s' h
    rw [linExp] at h
    simp only [bind_ok, get_ok, set_ok] at h
    obtain ⟨x, s1, hx, y, s2, hy, s0, s0', h0, u, s3, hset, hre⟩ := h
    cases h0; cases hset
    have hq := reify_qext hre
    exact ((linBinaryOperand_qext iha hx).trans (linBinaryOperand_qext ihb hy)).trans ((QExt.of_eq rfl).trans hq)
  | iff a b iha ihb =>
    intro req s c' s' h
    rw [linExp] at h
    simp only [bind_ok, get_ok, set_ok] at h
    obtain ⟨x, s1, hx, y, s2, hy, s0, s0', h0, u, s3, hset, hre⟩ := h
    cases h0; cases hset
    have hq := reify_qext hre
    exact ((linBinaryOperand_qext iha hx).trans (linBinaryOperand_qext ihb hy)).trans ((QExt.of_eq rfl).trans hq)

end Rooc.LinP
