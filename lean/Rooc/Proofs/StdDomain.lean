/-
`to_standard_form` reads the domain BY NAME: the order of the domain map is irrelevant.
-/
import Rooc.Proofs.StdExtra
import Mathlib.Data.List.Perm.Basic
namespace Rooc
namespace StdDomain
variable {α : Type} [Arith α]
open Standardize

theorem allBoundRows_congr (d1 d2 : List (DomVar α)) (h : ∀ v, lookup d1 v = lookup d2 v) (n : Nat) :
    ∀ (vs : List String) (k : Nat), allBoundRows d1 n k vs = allBoundRows d2 n k vs
  | [], _ => rfl
  | v :: vs, k => by simp only [allBoundRows, h v, allBoundRows_congr d1 d2 h n vs (k+1)]

theorem freeIdx_congr (d1 d2 : List (DomVar α)) (h : ∀ v, lookup d1 v = lookup d2 v) :
    ∀ (vs : List String) (k : Nat), freeIdx d1 k vs = freeIdx d2 k vs
  | [], _ => rfl
  | v :: vs, k => by simp only [freeIdx, h v, freeIdx_congr d1 d2 h vs (k+1)]

/-- the result depends on the domain only through `lookup` (and the "all continuous" test). -/
theorem standardize_congr (lm : LinModel α) (d1 d2 : List (DomVar α)) (h : ∀ v, lookup d1 v = lookup d2 v)
    (hany : d1.any (fun d => !(isContinuous d.ty)) = d2.any (fun d => !(isContinuous d.ty))) :
    standardize { lm with domain := d1 } = standardize { lm with domain := d2 } := by
  unfold standardize
  simp only [hany, allBoundRows_congr d1 d2 h, freeIdx_congr d1 d2 h]

theorem lookup_eq_some_iff : ∀ (d : List (DomVar α)), (d.map (·.name)).Nodup → ∀ (v : String) (e : DomVar α),
    (d.find? (·.name == v) = some e ↔ e ∈ d ∧ e.name = v)
  | [], _, v, e => by simp
  | e0 :: d, hnd, v, e => by
    have hnd' : e0.name ∉ d.map (·.name) ∧ (d.map (·.name)).Nodup := List.nodup_cons.1 hnd
    by_cases h0 : e0.name = v
    · simp only [List.find?_cons, h0, beq_self_eq_true, Option.some.injEq, List.mem_cons]
      constructor
      · intro he; subst he; exact ⟨Or.inl rfl, h0⟩
      · rintro ⟨he | he, hn⟩
        · exact he.symm
        · exfalso; apply hnd'.1
          rw [h0, ← hn]; exact List.mem_map.2 ⟨e, he, rfl⟩
    · have hb : (e0.name == v) = false := by simpa using h0
      simp only [List.find?_cons, hb, List.mem_cons]
      rw [lookup_eq_some_iff d hnd'.2 v e]
      constructor
      · rintro ⟨h1, h2⟩; exact ⟨Or.inr h1, h2⟩
      · rintro ⟨h1 | h1, h2⟩
        · exfalso; exact h0 (h1 ▸ h2)
        · exact ⟨h1, h2⟩

/-- **the order of the domain is irrelevant**: two domains with the same entries (distinct names) in any order give
the same standard form. -/
theorem standardize_perm (lm : LinModel α) (d1 d2 : List (DomVar α)) (hp : d1.Perm d2)
    (hnd : (d1.map (·.name)).Nodup) :
    standardize { lm with domain := d1 } = standardize { lm with domain := d2 } := by
  have hnd2 : (d2.map (·.name)).Nodup := (hp.map _).nodup_iff.1 hnd
  apply standardize_congr
  · intro v
    unfold lookup
    cases h1 : d1.find? (·.name == v) with
    | some e =>
      have := (lookup_eq_some_iff d1 hnd v e).1 h1
      rw [(lookup_eq_some_iff d2 hnd2 v e).2 ⟨hp.mem_iff.1 this.1, this.2⟩]
    | none =>
      cases h2 : d2.find? (·.name == v) with
      | none => rfl
      | some e =>
        have := (lookup_eq_some_iff d2 hnd2 v e).1 h2
        rw [(lookup_eq_some_iff d1 hnd v e).2 ⟨hp.mem_iff.2 this.1, this.2⟩] at h1
        cases h1
  · rw [Bool.eq_iff_iff]
    simp only [List.any_eq_true]
    constructor
    · rintro ⟨x, hx, h⟩; exact ⟨x, hp.mem_iff.1 hx, h⟩
    · rintro ⟨x, hx, h⟩; exact ⟨x, hp.mem_iff.2 hx, h⟩

end StdDomain
end Rooc
