/-
Bridge C07 → C01, part 2b: the entries of `IntegerRange` variables.  Through `analyze` they stay finite and inside
the declared range; `enforceable` (fix b9d407a) replaces them by their tolerant rounding, so after `enforceable`
every integer variable's box has integer end points inside the declared range — the very range
`apply_to_domain` publishes.
-/
import Rooc.Proofs.LinBridgeShrink
import Rooc.Proofs.BoundsDomain

set_option linter.unusedTactic false
set_option linter.unreachableTactic false
set_option linter.unnecessarySeqFocus false
set_option linter.unusedSimpArgs false
set_option linter.unusedVariables false
set_option linter.unusedSectionVars false

namespace Rooc.LinP
open Rooc Rooc.BoundsProofs Rooc.BoundsSem Arith

variable {K : Type} [Field K] [LinearOrder K] [IsStrictOrderedRing K] [FloorRing K]

/-- the entry of `d` (if `d` is an integer variable) is finite and inside the declared range. -/
def RE (vb : List (String × Bounds (Ext K))) (d : DomVar (Ext K)) : Prop :=
  ∀ lo hi, d.ty = .int lo hi →
    ∃ l u : K, AList.get? vb d.name = some ⟨.fin l, .fin u⟩ ∧ (lo : K) ≤ l ∧ u ≤ (hi : K)

/-- the entry of `d` (if `d` is an integer variable) has integer end points inside the declared range. -/
def ZE (vb : List (String × Bounds (Ext K))) (d : DomVar (Ext K)) : Prop :=
  ∀ lo hi, d.ty = .int lo hi →
    ∃ m1 m2 : Int, AList.get? vb d.name = some ⟨.fin (m1 : K), .fin (m2 : K)⟩ ∧ lo ≤ m1 ∧ m2 ≤ hi

theorem ZE.toRE {vb : List (String × Bounds (Ext K))} {d : DomVar (Ext K)} (h : ZE vb d) : RE vb d := by
  intro lo hi hty
  obtain ⟨m1, m2, hg, h1, h2⟩ := h lo hi hty
  exact ⟨m1, m2, hg, by exact_mod_cast h1, by exact_mod_cast h2⟩

/-! ### `from_domain` -/
theorem ib_foldl_other {β : Type} (f : DomVar (Ext K) → β) (n : String) : ∀ (dom : List (DomVar (Ext K)))
    (acc : List (String × β)), n ∉ dom.map (·.name) →
    AList.get? (dom.foldl (fun m d => AList.insert m d.name (f d)) acc) n = AList.get? acc n
  | [], acc, _ => rfl
  | d :: dom, acc, h => by
    simp only [List.map_cons, List.mem_cons, not_or] at h
    simp only [List.foldl_cons]
    rw [ib_foldl_other f n dom _ h.2, get?_insert, if_neg (fun hh => h.1 hh.symm)]

theorem ib_foldl_get {β : Type} (f : DomVar (Ext K) → β) : ∀ (dom : List (DomVar (Ext K)))
    (acc : List (String × β)), (dom.map (·.name)).Nodup → ∀ d ∈ dom,
    AList.get? (dom.foldl (fun m d => AList.insert m d.name (f d)) acc) d.name = some (f d)
  | [], _, _, d, hd => by cases hd
  | d0 :: dom, acc, hnd, d, hd => by
    simp only [List.map_cons, List.nodup_cons] at hnd
    simp only [List.foldl_cons]
    rcases List.mem_cons.mp hd with rfl | hd'
    · rw [ib_foldl_other f _ dom _ hnd.1, get?_insert, if_pos rfl]
    · exact ib_foldl_get f dom _ hnd.2 d hd'

theorem fromDomain_ZE {domain : List (DomVar (Ext K))} (tol : Ext K) (hnd : (domain.map (·.name)).Nodup)
    {d : DomVar (Ext K)} (hd : d ∈ domain) : ZE (Analyzer.fromDomain domain tol).variableBounds d := by
  intro lo hi hty
  refine ⟨lo, hi, ?_, le_refl _, le_refl _⟩
  simp only [Analyzer.fromDomain]
  rw [ib_foldl_get (fun d => Bounds.ofVarType d.ty) domain [] hnd d hd, hty]
  simp [Bounds.ofVarType]

/-! ### propagation keeps integer entries finite and inside the declared range -/
theorem fmax_fin_cases (l : K) (c : Ext K) :
    (∃ l', Ext.fmax (.fin l) c = .fin l' ∧ l ≤ l') ∨ Ext.fmax (.fin l) c = .pinf := by
  cases c with
  | nan => left; exact ⟨l, by simp [Ext.fmax, Ext.isNaN], le_refl _⟩
  | ninf => left; exact ⟨l, by simp [Ext.fmax, Ext.isNaN, Ext.lt], le_refl _⟩
  | pinf => right; simp [Ext.fmax, Ext.isNaN, Ext.lt]
  | fin q =>
    left
    by_cases h : l < q
    · exact ⟨q, by simp [Ext.fmax, Ext.isNaN, Ext.lt, h], le_of_lt h⟩
    · exact ⟨l, by simp [Ext.fmax, Ext.isNaN, Ext.lt, h], le_refl _⟩

theorem fmin_fin_cases (u : K) (c : Ext K) :
    (∃ u', Ext.fmin (.fin u) c = .fin u' ∧ u' ≤ u) ∨ Ext.fmin (.fin u) c = .ninf := by
  cases c with
  | nan => left; exact ⟨u, by simp [Ext.fmin, Ext.isNaN], le_refl _⟩
  | pinf => left; exact ⟨u, by simp [Ext.fmin, Ext.isNaN, Ext.lt], le_refl _⟩
  | ninf => right; simp [Ext.fmin, Ext.isNaN, Ext.lt]
  | fin q =>
    left
    by_cases h : q < u
    · exact ⟨q, by simp [Ext.fmin, Ext.isNaN, Ext.lt, h], le_of_lt h⟩
    · exact ⟨u, by simp [Ext.fmin, Ext.isNaN, Ext.lt, h], le_refl _⟩

theorem intersection_fin_shape {l u : K} {c t : Bounds (Ext K)} {tol : Ext K}
    (h : (⟨.fin l, .fin u⟩ : Bounds (Ext K)).intersection c tol = some t) :
    ∃ l' u' : K, t = ⟨.fin l', .fin u'⟩ ∧ l ≤ l' ∧ u' ≤ u := by
  simp only [Bounds.intersection, a_fmax, a_fmin, a_le, a_sub] at h
  split at h
  · rename_i hle
    cases h
    rcases fmax_fin_cases l c.lower with ⟨l', hl', hl⟩ | hp
    · rcases fmin_fin_cases u c.upper with ⟨u', hu', hu⟩ | hn
      · exact ⟨l', u', by rw [hl', hu'], hl, hu⟩
      · rw [hl', hn] at hle; simp [Ext.le] at hle
    · rw [hp] at hle
      rcases fmin_fin_cases u c.upper with ⟨u', hu', hu⟩ | hn
      · rw [hu'] at hle; simp [Ext.le] at hle
      · rw [hn] at hle; simp [Ext.le] at hle
  · split at h
    · cases h; exact ⟨l, u, rfl, le_refl _, le_refl _⟩
    · cases h

section
variable (domain : List (DomVar (Ext K)))

def REall (an : Analyzer (Ext K)) : Prop := ∀ d ∈ domain, RE an.variableBounds d

theorem re_frameRel : FrameRel (fun an an' : Analyzer (Ext K) => REall domain an → REall domain an') where
  refl _ h := h
  trans h1 h2 h := h2 (h1 h)
  mark _ h := h
  limit _ h := h
  tighten an name cand := by
    intro h
    unfold Analyzer.tightenVariable
    split
    · exact h
    · dsimp only
      split
      · exact h
      · rename_i t ht
        split
        · intro d hd lo hi hty
          obtain ⟨l, u, hg, h1, h2⟩ := h d hd lo hi hty
          simp only [get?_insert]
          split
          · rename_i hn
            subst hn
            simp only [Analyzer.varBounds, hg, Option.getD_some] at ht
            obtain ⟨l', u', rfl, hl, hu⟩ := intersection_fin_shape ht
            exact ⟨l', u', rfl, le_trans h1 hl, le_trans hu h2⟩
          · exact ⟨l, u, hg, h1, h2⟩
        · exact h

theorem analyze_RE (cs : List (Constraint (Ext K))) (tol : Ext K) (maxSteps : Nat)
    (hnd : (domain.map (·.name)).Nodup) : REall domain (Analyzer.analyze domain cs tol maxSteps) :=
  analyze_frame (re_frameRel domain) domain cs tol maxSteps
    (fun d hd => (fromDomain_ZE tol hnd hd).toRE)
end

/-! ### rounding -/
theorem ceil_int_sub {m : Int} {t : K} (h0 : 0 ≤ t) (h1 : t < 1) : Int.ceil ((m : K) - t) = m := by
  rw [Int.ceil_eq_iff]; constructor <;> push_cast <;> linarith
theorem floor_int_add {m : Int} {t : K} (h0 : 0 ≤ t) (h1 : t < 1) : Int.floor ((m : K) + t) = m := by
  rw [Int.floor_eq_iff]; constructor <;> push_cast <;> linarith

theorem round_fin (l u t : K) :
    (⟨Arith.ceil (Arith.sub (Ext.fin l) (.fin t)), Arith.floor (Arith.add (Ext.fin u) (.fin t))⟩ : Bounds (Ext K))
      = ⟨.fin ((Int.ceil (l - t) : Int) : K), .fin ((Int.floor (u + t) : Int) : K)⟩ := by
  simp [Arith.ceil, Arith.floor, Ext.sub, Ext.add, Ext.neg, sub_eq_add_neg]

/-- the integer ranges are not empty after the tolerant rounding. -/
def NEall (domain : List (DomVar (Ext K))) (t : K) (vb : List (String × Bounds (Ext K))) : Prop :=
  ∀ d ∈ domain, ∀ lo hi, d.ty = .int lo hi → ∀ l u : K, AList.get? vb d.name = some ⟨.fin l, .fin u⟩ →
    Int.ceil (l - t) ≤ Int.floor (u + t)

/-- the state of the rounding loop: all entries finite and inside, non-empty after rounding. -/
structure RInv (domain : List (DomVar (Ext K))) (t : K) (an : Analyzer (Ext K)) : Prop where
  tol : an.tolerance = .fin t
  re : ∀ d ∈ domain, RE an.variableBounds d
  ne : NEall domain t an.variableBounds

/-- a step on a non-integer variable does nothing. -/
theorem roundStep_nonint (an : Analyzer (Ext K)) (d0 : DomVar (Ext K)) (h : ¬ ∃ lo hi, d0.ty = .int lo hi) :
    an.roundStep d0 = an := by
  unfold Analyzer.roundStep
  cases hty : d0.ty with
  | int lo hi => exact absurd ⟨lo, hi, hty⟩ h
  | _ => rfl

/-- a step on an integer variable of the domain. -/
theorem roundStep_int {domain : List (DomVar (Ext K))} {t : K} (h0 : 0 ≤ t) (h1 : t < 1) {an : Analyzer (Ext K)}
    (hI : RInv domain t an) {d0 : DomVar (Ext K)} (hmem : d0 ∈ domain) {lo0 hi0 : Int} (hty0 : d0.ty = .int lo0 hi0) :
    RInv domain t (an.roundStep d0) ∧
    (∀ d ∈ domain, d.name = d0.name → ZE (an.roundStep d0).variableBounds d) ∧
    (∀ d ∈ domain, d.name ≠ d0.name →
      AList.get? (an.roundStep d0).variableBounds d.name = AList.get? an.variableBounds d.name) := by
  obtain ⟨l, u, hg, hl, hu⟩ := hI.re d0 hmem lo0 hi0 hty0
  have hstep : (an.roundStep d0).variableBounds = AList.insert an.variableBounds d0.name
      ⟨.fin ((Int.ceil (l - t) : Int) : K), .fin ((Int.floor (u + t) : Int) : K)⟩ := by
    unfold Analyzer.roundStep
    simp only [hty0, hg, hI.tol, round_fin]
  have htol' : (an.roundStep d0).tolerance = .fin t := by rw [roundStep_tol]; exact hI.tol
  have hne0 := hI.ne d0 hmem lo0 hi0 hty0 l u hg
  have hZ : ∀ d ∈ domain, d.name = d0.name → ZE (an.roundStep d0).variableBounds d := by
    intro d hd hn lo hi hty
    obtain ⟨l', u', hg', hl', hu'⟩ := hI.re d hd lo hi hty
    rw [hn, hg] at hg'
    simp only [Option.some.injEq, Bounds.mk.injEq, Ext.fin.injEq] at hg'
    obtain ⟨rfl, rfl⟩ := hg'
    refine ⟨Int.ceil (l - t), Int.floor (u + t), ?_, ?_, ?_⟩
    · rw [hstep, get?_insert, hn]; simp
    · have h2 : (((lo - 1 : Int)) : K) < l - t := by push_cast; linarith
      have := Int.lt_ceil.2 h2
      omega
    · have h2 : u + t < (((hi + 1 : Int)) : K) := by push_cast; linarith
      have := Int.floor_lt.2 h2
      omega
  have hother : ∀ d ∈ domain, d.name ≠ d0.name →
      AList.get? (an.roundStep d0).variableBounds d.name = AList.get? an.variableBounds d.name := by
    intro d _ hn
    rw [hstep, get?_insert, if_neg (Ne.symm hn)]
  refine ⟨⟨htol', ?_, ?_⟩, hZ, hother⟩
  · intro d hd
    by_cases hn : d.name = d0.name
    · exact (hZ d hd hn).toRE
    · intro lo hi hty
      obtain ⟨l', u', hg', hb⟩ := hI.re d hd lo hi hty
      exact ⟨l', u', by rw [hother d hd hn]; exact hg', hb⟩
  · intro d hd lo hi hty l' u' hg'
    by_cases hn : d.name = d0.name
    · rw [hstep, get?_insert, hn] at hg'
      simp only [if_true, Option.some.injEq, Bounds.mk.injEq, Ext.fin.injEq] at hg'
      obtain ⟨rfl, rfl⟩ := hg'
      rw [ceil_int_sub h0 h1, floor_int_add h0 h1]; exact hne0
    · rw [hother d hd hn] at hg'
      exact hI.ne d hd lo hi hty l' u' hg'

/-- ZE is kept by any later step. -/
theorem roundStep_keeps_ZE {domain : List (DomVar (Ext K))} {t : K} (h0 : 0 ≤ t) (h1 : t < 1) {an : Analyzer (Ext K)}
    (hI : RInv domain t an) {d0 : DomVar (Ext K)} (hmem : d0 ∈ domain) {d : DomVar (Ext K)} (hd : d ∈ domain)
    (hz : ZE an.variableBounds d) : ZE (an.roundStep d0).variableBounds d := by
  by_cases hint : ∃ lo hi, d0.ty = .int lo hi
  · obtain ⟨lo0, hi0, hty0⟩ := hint
    obtain ⟨_, hZ, hother⟩ := roundStep_int h0 h1 hI hmem hty0
    by_cases hn : d.name = d0.name
    · exact hZ d hd hn
    · intro lo hi hty
      obtain ⟨m1, m2, hg, hb⟩ := hz lo hi hty
      exact ⟨m1, m2, by rw [hother d hd hn]; exact hg, hb⟩
  · rw [roundStep_nonint an d0 hint]; exact hz

theorem roundStep_RInv {domain : List (DomVar (Ext K))} {t : K} (h0 : 0 ≤ t) (h1 : t < 1) {an : Analyzer (Ext K)}
    (hI : RInv domain t an) {d0 : DomVar (Ext K)} (hmem : d0 ∈ domain) : RInv domain t (an.roundStep d0) := by
  by_cases hint : ∃ lo hi, d0.ty = .int lo hi
  · obtain ⟨lo0, hi0, hty0⟩ := hint
    exact (roundStep_int h0 h1 hI hmem hty0).1
  · rw [roundStep_nonint an d0 hint]; exact hI

theorem roundIntegerRanges_ZE {t : K} (h0 : 0 ≤ t) (h1 : t < 1) (domain : List (DomVar (Ext K))) :
    ∀ (dom : List (DomVar (Ext K))) (an : Analyzer (Ext K)), (∀ d ∈ dom, d ∈ domain) → RInv domain t an →
    RInv domain t (an.roundIntegerRanges dom) ∧
    (∀ d ∈ domain, ZE an.variableBounds d → ZE (an.roundIntegerRanges dom).variableBounds d) ∧
    (∀ d ∈ dom, ZE (an.roundIntegerRanges dom).variableBounds d)
  | [], an, _, hI => ⟨hI, fun _ _ h => h, fun d hd => by cases hd⟩
  | d0 :: dom, an, hsub, hI => by
    have hmem := hsub d0 (List.mem_cons_self ..)
    have hI' := roundStep_RInv h0 h1 hI hmem
    obtain ⟨r1, r2, r3⟩ := roundIntegerRanges_ZE h0 h1 domain dom (an.roundStep d0)
      (fun d hd => hsub d (List.mem_cons_of_mem _ hd)) hI'
    simp only [Analyzer.roundIntegerRanges, List.foldl_cons] at r1 r2 r3 ⊢
    refine ⟨r1, fun d hd hz => r2 d hd (roundStep_keeps_ZE h0 h1 hI hmem hd hz), ?_⟩
    intro d hd
    rcases List.mem_cons.1 hd with rfl | hd'
    · refine r2 _ hmem ?_
      by_cases hint : ∃ lo hi, d.ty = .int lo hi
      · obtain ⟨lo0, hi0, hty0⟩ := hint
        exact (roundStep_int h0 h1 hI hmem hty0).2.1 _ hmem rfl
      · intro lo hi hty; exact absurd ⟨lo, hi, hty⟩ hint
    · exact r3 d hd'

theorem gt_round_fin (l u t : K) :
    Arith.gt (Arith.ceil (Arith.sub (Ext.fin l) (.fin t))) (Arith.floor (Arith.add (Ext.fin u) (.fin t))) =
      decide (Int.floor (u + t) < Int.ceil (l - t)) := by
  have := round_fin l u t
  simp only [Bounds.mk.injEq] at this
  rw [this.1, this.2]
  simp [Arith.gt, Arith.lt, Ext.lt]

/-- what `enforceable` leaves for the integer variables: integer end points inside the declared range, and —
unless the declared box was restored — ranges that are not empty. -/
theorem enforceable_shape (domain : List (DomVar (Ext K))) (cs : List (Constraint (Ext K))) {t : K}
    (h0 : 0 ≤ t) (h1 : t < 1) (maxSteps : Nat) (hnd : (domain.map (·.name)).Nodup) :
    (∀ d ∈ domain, ZE ((Analyzer.analyze domain cs (.fin t) maxSteps).enforceable domain).variableBounds d) ∧
    (((Analyzer.analyze domain cs (.fin t) maxSteps).detectedInfeasible ||
        (Analyzer.analyze domain cs (.fin t) maxSteps).emptyIntegerRange domain) = true ∨
      RInv domain t ((Analyzer.analyze domain cs (.fin t) maxSteps).enforceable domain)) := by
  have htol : (Analyzer.analyze domain cs (.fin t) maxSteps).tolerance = .fin t := by
    unfold Analyzer.analyze Analyzer.propagate
    exact propagateLoop_tolerance _ _ _ _ _ _ _
  unfold Analyzer.enforceable
  split
  · rename_i hreset
    refine ⟨fun d hd => ?_, Or.inl hreset⟩
    exact fromDomain_ZE (Analyzer.analyze domain cs (.fin t) maxSteps).tolerance hnd hd
  · rename_i hkeep
    simp only [Bool.or_eq_true, not_or, Bool.not_eq_true] at hkeep
    have hI : RInv domain t (Analyzer.analyze domain cs (.fin t) maxSteps) := by
      refine ⟨htol, analyze_RE domain cs _ maxSteps hnd, ?_⟩
      intro d hd lo hi hty l u hg
      have hempty := hkeep.2
      simp only [Analyzer.emptyIntegerRange, List.any_eq_false] at hempty
      have := hempty d hd
      simp only [hty, hg, htol, gt_round_fin, decide_eq_true_eq] at this
      exact not_lt.1 this
    obtain ⟨r1, _, r3⟩ := roundIntegerRanges_ZE h0 h1 domain domain _ (fun d hd => hd) hI
    exact ⟨r3, Or.inr r1⟩

end Rooc.LinP
