/- C12 helper lemmas: `float_lt` against zero over `Ext K`. -/
import Rooc.Display
import Rooc.Proofs.Field
import Mathlib.Tactic.NormNum
import Mathlib.Tactic.Positivity
namespace Rooc.Display
open Rooc Arith
set_option linter.unusedSectionVars false
variable {K : Type} [Field K] [LinearOrder K] [IsStrictOrderedRing K] [FloorRing K]

/-- the comparison tolerance `10^-NEAR_ZERO_PRECISION` of `float_lt` -/
noncomputable def tol : K := 1 / ((10 ^ Gen.nearZeroPrecision : Nat) : K)

theorem tol_pos : (0 : K) < tol := by
  unfold tol; positivity
theorem tol_le_one : (tol : K) ≤ 1 := by
  unfold tol
  rw [div_le_one (by positivity)]
  exact_mod_cast Nat.one_le_pow _ _ (by norm_num)

theorem nearZeroTol_eq : (nearZeroTol : Ext K) = .fin tol := by
  simp [nearZeroTol, Arith.div, Ext.div, Arith.one, Arith.ofInt, tol]

theorem floatLt_zero (v : K) : floatLt (Ext.fin v : Ext K) zero = (decide (v < 0) && !decide (|v| < tol)) := by
  simp [floatLt, nearZeroTol_eq, Arith.lt, Ext.lt, Arith.zero, Arith.ofInt, Arith.sub, Ext.sub, Ext.add, Ext.neg,
    Arith.abs, Ext.abs]
  by_cases h : v < 0 <;> simp [h, abs_of_neg, abs_of_nonneg, le_of_not_gt]
end Rooc.Display
