/-
Lemmas about `findH`, `findT`, `stepInner` and the solver loop at an ordered field.
-/
import Rooc.Proofs.Pivot
namespace Rooc
namespace StepLemmas
variable {K : Type} [Field K] [LinearOrder K] [IsStrictOrderedRing K]
attribute [local instance] exactArith
open Tableau TabSem PivotLemmas

/-- a fold that at every step keeps the accumulator or takes the new element ends inside the list. -/
theorem foldl_select_mem {β : Type} (f : β → β → β) (hf : ∀ a b, f a b = a ∨ f a b = b) :
    ∀ (l : List β) (x : β), l.foldl f x = x ∨ l.foldl f x ∈ l
  | [], x => by simp
  | y :: ys, x => by
    simp only [List.foldl_cons]
    rcases foldl_select_mem f hf ys (f x y) with h | h
    · rcases hf x y with e | e
      · left; rw [h, e]
      · right; rw [h, e]; simp
    · right; exact List.mem_cons_of_mem _ h

theorem mem_ratios {tol : K} {T : Tab K} {h : Nat} {p : Nat × K} (hp : p ∈ ratios tol T h) :
    p.1 < T.a.length ∧ Tol.fgt tol (nth (row T.a p.1) h) 0 = true ∧ p.2 = nth T.b p.1 / nth (row T.a p.1) h := by
  simp only [ratios, List.mem_filterMap] at hp
  obtain ⟨⟨r, i⟩, hmem, hf⟩ := hp
  have hget := List.mem_zipIdx_iff_getElem?.1 hmem
  simp only at hget
  have hi : i < T.a.length := by
    by_contra hc; simp [List.getElem?_eq_none (Nat.le_of_not_lt hc)] at hget
  have hrow : row T.a i = r := by simp [row, List.getD_eq_getElem?_getD, hget]
  simp only at hf
  split at hf
  · rename_i hcond
    cases hf
    simp only [ExactK.zero_eq] at hcond
    exact ⟨hi, by rw [hrow]; simpa using hcond, by simp [hrow]⟩
  · cases hf

/-- the scan step of `find_t` (either shape of the source) keeps the best so far or takes the candidate. -/
theorem selRatio_choice (tol : K) (basis prefer : List Nat) (a b : Nat × K) :
    selRatio tol basis prefer a b = a ∨ selRatio tol basis prefer a b = b := by
  unfold selRatio
  split_ifs <;> simp

/-- **what `find_t` returns is a candidate row**: in range, pivot element `float_gt 0`, with its ratio. -/
theorem findT_spec {tol : K} {T : Tab K} {h : Nat} {prefer : List Nat} {t : Nat} {ratio : K}
    (hf : findT tol T h prefer = some (t, ratio)) :
    t < T.a.length ∧ Tol.fgt tol (nth (row T.a t) h) 0 = true ∧ ratio = nth T.b t / nth (row T.a t) h := by
  unfold findT at hf
  split at hf
  · cases hf
  · rename_i first rest hr
    simp only [Option.some.injEq] at hf
    have hsel := foldl_select_mem (selRatio tol T.basis prefer) (selRatio_choice tol T.basis prefer) rest first
    have hmem : (t, ratio) ∈ ratios tol T h := by
      rw [hr]
      rcases hsel with e | e
      · rw [hf] at e; rw [e]; simp
      · rw [hf] at e; exact List.mem_cons_of_mem _ e
    exact mem_ratios hmem

theorem mem_eligible {tol : K} {T : Tab K} {p : Nat × K} (hp : p ∈ eligible tol T) :
    p.1 < T.c.length ∧ p.2 = nth T.c p.1 ∧ Tol.flt tol (nth T.c p.1) 0 = true ∧ T.basis.contains p.1 = false := by
  simp only [eligible, List.mem_filterMap] at hp
  obtain ⟨⟨x, i⟩, hmem, hf⟩ := hp
  have hget := List.mem_zipIdx_iff_getElem?.1 hmem
  simp only at hget
  have hi : i < T.c.length := by
    by_contra hc; simp [List.getElem?_eq_none (Nat.le_of_not_lt hc)] at hget
  have hx : nth T.c i = x := by simp [nth, List.getD_eq_getElem?_getD, hget]
  simp only at hf
  split at hf
  · rename_i hcond
    cases hf
    simp only [ExactK.zero_eq, Bool.and_eq_true, Bool.not_eq_true'] at hcond
    exact ⟨hi, hx.symm, by rw [hx]; simpa using hcond.2, hcond.1⟩
  · cases hf

/-- **what `find_h` returns is an eligible column** under either rule: in range, non-basic,
reduced cost `float_lt 0`. -/
theorem findH_spec {tol : K} {T : Tab K} {bland : Bool} {h : Nat} (hf : findH tol T bland = some h) :
    h < T.c.length ∧ Tol.flt tol (nth T.c h) 0 = true ∧ T.basis.contains h = false := by
  have key : ∃ p ∈ eligible tol T, p.1 = h := by
    unfold findH at hf
    split at hf
    · cases hl : eligible tol T with
      | nil => simp [hl] at hf
      | cons p ps => simp [hl] at hf; exact ⟨p, by simp, hf⟩
    · cases hl : eligible tol T with
      | nil => simp [hl, minByFirst] at hf
      | cons p ps =>
        simp only [hl, minByFirst, Option.map_some, Option.some.injEq] at hf
        have hsel := foldl_select_mem (fun (best y : Nat × K) => if Arith.lt y.2 best.2 then y else best)
          (by intro a b; split <;> simp) ps p
        refine ⟨_, ?_, hf⟩
        rcases hsel with e | e
        · rw [e]; simp
        · exact List.mem_cons_of_mem _ e
  obtain ⟨p, hp, rfl⟩ := key
  have := mem_eligible hp
  exact ⟨this.1, this.2.2.1, this.2.2.2⟩

/-- everything `step_inner` can answer, decomposed. -/
theorem stepInner_pivot {tol : K} {T T' : Tab K} {prefer : List Nat} {bland : Bool} {h t : Nat} {ratio : K}
    (hs : stepInner tol T prefer bland = .ok (.pivot h t ratio, T')) :
    T' = pivot T t h ∧ findH tol T bland = some h ∧ findT tol T h prefer = some (t, ratio) := by
  unfold stepInner at hs
  split at hs
  · cases hs
  · split at hs
    · cases hs
    · rename_i h' hh
      split at hs
      · cases hs
      · rename_i t' r' ht
        simp only [Except.ok.injEq, Prod.mk.injEq, StepAction.pivot.injEq] at hs
        obtain ⟨⟨rfl, rfl, rfl⟩, rfl⟩ := hs
        exact ⟨rfl, hh, ht⟩

theorem stepInner_finished {tol : K} {T T' : Tab K} {prefer : List Nat} {bland : Bool}
    (hs : stepInner tol T prefer bland = .ok (.finished, T')) :
    T' = T ∧ (isOptimal tol T = true ∨ findH tol T bland = none) := by
  unfold stepInner at hs
  split at hs
  · rename_i ho; cases hs; exact ⟨rfl, Or.inl ho⟩
  · split at hs
    · rename_i hh; cases hs; exact ⟨rfl, Or.inr hh⟩
    · split at hs <;> cases hs

theorem stepInner_unbounded {tol : K} {T : Tab K} {prefer : List Nat} {bland : Bool} {e : SimplexErr}
    (hs : stepInner tol T prefer bland = .error e) :
    e = .unbounded ∧ ∃ h, findH tol T bland = some h ∧ findT tol T h prefer = none := by
  unfold stepInner at hs
  split at hs
  · cases hs
  · split at hs
    · cases hs
    · rename_i h' hh
      split at hs
      · rename_i ht; cases hs; exact ⟨rfl, h', hh, ht⟩
      · cases hs

/-- **One step preserves everything but (for `tol > 0`) feasibility**: canonical form, the solution set
of `[A | b]`, the representation of the objective; and `value` never decreases when the tableau is
feasible.  Holds for every tolerance `tol ≥ 0`, either entering rule and any preference list. -/
theorem stepInner_preserves {tol : K} {T T' : Tab K} {m n : Nat} (hC : Canon T m n)
    {prefer : List Nat} {bland : Bool} {act : StepAction K}
    (hs : stepInner tol T prefer bland = .ok (act, T')) :
    Canon T' m n ∧ (∀ x, Sol T' x ↔ Sol T x) ∧ (∀ c0, ObjInv T c0 → ObjInv T' c0) ∧
      (Feasible T → T.value ≤ T'.value) := by
  cases act with
  | finished =>
    obtain ⟨rfl, -⟩ := stepInner_finished hs
    exact ⟨hC, fun _ => Iff.rfl, fun _ h => h, fun _ => le_refl _⟩
  | pivot h t ratio =>
    obtain ⟨rfl, hh, ht⟩ := stepInner_pivot hs
    obtain ⟨hh1, hh2, -⟩ := findH_spec hh
    obtain ⟨ht1, ht2, -⟩ := findT_spec ht
    have htm : t < m := hC.rect.rows ▸ ht1
    have hhn : h < n := hC.rect.costs ▸ hh1
    have hpos := ExactK.fgt_zero_pos ht2
    have hp : nth (row T.a t) h ≠ 0 := ne_of_gt hpos
    refine ⟨pivot_canon hC htm hhn hp, pivot_sol hC.rect htm hp, fun c0 hO => pivot_objInv hC.rect hO htm hp, ?_⟩
    intro hF
    have hc : nth T.c h ≤ 0 := by
      have := (ExactK.flt_iff tol (nth T.c h) 0).1 hh2
      exact this.1.le
    have hb : 0 ≤ nth T.b t := by simpa using hF t ht1
    exact pivot_value_ge hc hpos hb

/-- **Any number of steps**: whatever the loop of `solve_avoiding` / `solve_step_by_step` does (any fuel,
any stall count, Dantzig or Bland, success or error), the tableau it stops at is in canonical form, has
the solution set of the start and represents the same objective. -/
theorem solveLoop_preserves {tol : K} {prefer : List Nat} {stallLimit : Nat} {m n : Nat} :
    ∀ (fuel : Nat) (T : Tab K) (stalls : Nat) (last : K) (acc : List (Tab K × Nat × Nat × K)),
      Canon T m n →
      Canon (solveLoop tol prefer stallLimit fuel T stalls last acc).final m n ∧
      (∀ x, Sol (solveLoop tol prefer stallLimit fuel T stalls last acc).final x ↔ Sol T x) ∧
      (∀ c0, ObjInv T c0 → ObjInv (solveLoop tol prefer stallLimit fuel T stalls last acc).final c0)
  | 0, T, stalls, last, acc, hC => by
    simp [solveLoop, hC]
  | fuel+1, T, stalls, last, acc, hC => by
    simp only [solveLoop]
    split
    · exact ⟨hC, fun _ => Iff.rfl, fun _ h => h⟩
    · exact ⟨hC, fun _ => Iff.rfl, fun _ h => h⟩
    · rename_i h t ratio T' hs
      obtain ⟨hC', hS, hO, -⟩ := stepInner_preserves hC hs
      split
      · obtain ⟨c1, s1, o1⟩ := solveLoop_preserves fuel T' (stalls+1) last ((T, h, t, ratio) :: acc) hC'
        exact ⟨c1, fun x => (s1 x).trans (hS x), fun c0 h0 => o1 c0 (hO c0 h0)⟩
      · obtain ⟨c1, s1, o1⟩ := solveLoop_preserves fuel T' 0 T'.value ((T, h, t, ratio) :: acc) hC'
        exact ⟨c1, fun x => (s1 x).trans (hS x), fun c0 h0 => o1 c0 (hO c0 h0)⟩

end StepLemmas
end Rooc
