/-
C08 helper — `Exp::simplify` removes every operator-form logic node: the result has no `BinOp::And / Or / Xor /
Implies / Iff` node and no `UnOp::Not` node (they are rewritten into the n-ary / dedicated nodes).
-/
import Rooc.Proofs.WFSimp

set_option linter.unusedSectionVars false
set_option linter.unusedVariables false

namespace Rooc
namespace Lin
open Arith Exp
variable {α : Type} [Arith α]

def isArithOp : BinOp → Bool
  | .add | .sub | .mul | .div => true
  | _ => false

mutual
/-- no operator-form logic node. -/
def NoOp : Exp α → Bool
  | .num _ => true
  | .var _ => true
  | .abs e | .not e => NoOp e
  | .un .neg e => NoOp e
  | .un .not _ => false
  | .min es | .max es | .and es | .or es => NoOpL es
  | .xor a b | .implies a b | .iff a b => NoOp a && NoOp b
  | .bin op a b => isArithOp op && NoOp a && NoOp b
def NoOpL : List (Exp α) → Bool
  | [] => true
  | e :: es => NoOp e && NoOpL es
end

theorem NoOpL_iff (es : List (Exp α)) : NoOpL es = true ↔ ∀ e ∈ es, NoOp e = true := by
  induction es with
  | nil => simp [NoOpL]
  | cons e es ih => simp [NoOpL, ih]

theorem NoOpL_append {a b : List (Exp α)} : NoOpL (a ++ b) = true ↔ NoOpL a = true ∧ NoOpL b = true := by
  simp only [NoOpL_iff, List.mem_append]
  constructor
  · intro h; exact ⟨fun e he => h e (Or.inl he), fun e he => h e (Or.inr he)⟩
  · rintro ⟨h1, h2⟩ e (he | he)
    · exact h1 e he
    · exact h2 e he

theorem addCore_noOp {l r : Exp α} (hl : NoOp l = true) (hr : NoOp r = true) : NoOp (Exp.addCore l r) = true := by
  unfold Exp.addCore; split <;> (try split) <;> simp_all [NoOp, isArithOp]
theorem subCore_noOp {l r : Exp α} (hl : NoOp l = true) (hr : NoOp r = true) : NoOp (Exp.subCore l r) = true := by
  unfold Exp.subCore; split <;> (try split) <;> simp_all [NoOp, isArithOp]
theorem mulCore_noOp {l r : Exp α} (hl : NoOp l = true) (hr : NoOp r = true) : NoOp (Exp.mulCore l r) = true := by
  unfold Exp.mulCore
  split
  · simp [NoOp]
  · split
    · simp [NoOp]
    · split
      · exact hr
      · split
        · exact hl
        · simp [NoOp, isArithOp, hl, hr]
theorem divCore_noOp {l r : Exp α} (hl : NoOp l = true) (hr : NoOp r = true) : NoOp (Exp.divCore l r) = true := by
  unfold Exp.divCore
  split
  · split <;> simp [NoOp, isArithOp]
  · split
    · exact hl
    · simp [NoOp, isArithOp, hl, hr]
theorem notCore_noOp {e : Exp α} (he : NoOp e = true) : NoOp (Exp.notCore e) = true := by
  unfold Exp.notCore; split <;> simp_all [NoOp]
theorem xorCore_noOp {l r : Exp α} (hl : NoOp l = true) (hr : NoOp r = true) : NoOp (Exp.xorCore l r) = true := by
  unfold Exp.xorCore; split <;> simp_all [NoOp]
theorem impliesCore_noOp {l r : Exp α} (hl : NoOp l = true) (hr : NoOp r = true) :
    NoOp (Exp.impliesCore l r) = true := by
  unfold Exp.impliesCore; split <;> simp_all [NoOp]
theorem iffCore_noOp {l r : Exp α} (hl : NoOp l = true) (hr : NoOp r = true) : NoOp (Exp.iffCore l r) = true := by
  unfold Exp.iffCore; split <;> simp_all [NoOp]

theorem naryFlatten_noOp (isAnd : Bool) : ∀ es : List (Exp α), NoOpL es = true →
    NoOpL (Exp.naryFlatten isAnd es) = true
  | [], _ => by simp [Exp.naryFlatten, NoOpL]
  | e :: es, h => by
    simp only [NoOpL, Bool.and_eq_true] at h
    have ih := naryFlatten_noOp isAnd es h.2
    unfold Exp.naryFlatten
    split
    · rw [NoOpL_append]; exact ⟨by simpa [NoOp] using h.1, ih⟩
    · rw [NoOpL_append]; exact ⟨by simpa [NoOp] using h.1, ih⟩
    · simp [NoOpL, h.1, ih]

theorem naryScan_noOp (isAnd : Bool) : ∀ (es res : List (Exp α)), NoOpL es = true →
    Exp.naryScan isAnd es = some res → NoOpL res = true
  | [], res, _, h => by
    simp only [Exp.naryScan] at h; injection h with h; subst h; rfl
  | e :: es, res, he, h => by
    simp only [NoOpL, Bool.and_eq_true] at he
    cases e
    case num v =>
      simp only [Exp.naryScan] at h
      split at h
      · cases h
      · split at h
        · cases h
        · exact naryScan_noOp isAnd _ res he.2 h
    all_goals
      simp only [Exp.naryScan, Option.map_eq_some_iff] at h
      obtain ⟨r, hr, rfl⟩ := h
      simp [NoOpL, he.1, naryScan_noOp isAnd _ r he.2 hr]

theorem naryKeep_noOp (isAnd : Bool) : ∀ es : List (Exp α), NoOpL es = true →
    NoOpL (Exp.naryKeep isAnd es) = true
  | [], _ => by simp [Exp.naryKeep, NoOpL]
  | e :: es, he => by
    simp only [NoOpL, Bool.and_eq_true] at he
    have ih := naryKeep_noOp isAnd es he.2
    cases e
    case num v =>
      simp only [Exp.naryKeep]
      split
      · exact ih
      · simp [NoOpL, he.1, ih]
    all_goals simp [Exp.naryKeep, NoOpL, he.1, ih]

theorem naryCore_noOp (isAnd : Bool) {es : List (Exp α)} (h : NoOpL es = true) :
    NoOp (Exp.naryCore isAnd es) = true := by
  unfold Exp.naryCore
  have hf := naryFlatten_noOp isAnd es h
  have hstep : ∀ res, Exp.naryStep isAnd (Exp.naryFlatten isAnd es) = some res → NoOpL res = true := by
    intro res hres
    unfold Exp.naryStep at hres
    split at hres
    · injection hres with hres; subst hres; exact naryKeep_noOp isAnd _ hf
    · exact naryScan_noOp isAnd _ res hf hres
  split
  · simp [NoOp]
  · simp [NoOp]
  · rename_i e heq
    simpa [NoOpL] using hstep _ heq
  · rename_i res _ _ heq
    have := hstep _ heq
    split <;> simpa [NoOp] using this

theorem NoOpL_map_of {g : Exp α → Exp α} {es : List (Exp α)} (ih : ∀ x ∈ es, NoOp (g x) = true) :
    NoOpL (es.map g) = true := by
  rw [NoOpL_iff]
  intro e he
  obtain ⟨x, hx, rfl⟩ := List.mem_map.mp he
  exact ih x hx

/-- **`simplify` leaves no operator-form logic node**, whatever its input. -/
theorem simplify_noOp (e : Exp α) : NoOp (Exp.simplify e) = true := by
  fun_induction Exp.simplify e
  all_goals first
    | (apply addCore_noOp <;> assumption)
    | (apply subCore_noOp <;> assumption)
    | (apply mulCore_noOp <;> assumption)
    | (apply divCore_noOp <;> assumption)
    | (apply xorCore_noOp <;> assumption)
    | (apply impliesCore_noOp <;> assumption)
    | (apply iffCore_noOp <;> assumption)
    | (apply notCore_noOp; assumption)
    | (apply naryCore_noOp; simp only [NoOpL, Bool.and_eq_true]; exact ⟨by assumption, by assumption, trivial⟩)
    | (apply naryCore_noOp; exact NoOpL_map_of (by assumption))
    | (simp_all [NoOp]; done)
    | skip
  all_goals first
    | (simp [NoOp, NoOpL]; done)
    | (rename_i ih
       dsimp only
       split
       · simp [NoOp]
       · simp only [NoOp]; exact NoOpL_map_of ih)
    | skip
  rename_i e h1 h2 h3 h4 h5 h6 h7 h8 h9 h10 h11 h12
  cases e <;> first | rfl | (exfalso; first | exact h1 _ _ _ rfl | exact h4 _ rfl | exact h5 _ rfl | exact h6 _ rfl | exact h7 _ rfl | exact h8 _ _ rfl | exact h9 _ _ rfl | exact h10 _ _ rfl | exact h11 _ rfl | exact h12 _ rfl) | skip
  rename_i op e'
  cases op
  · exact absurd rfl (fun h => h2 _ h)
  · exact absurd rfl (fun h => h3 _ h)

theorem normalizeExp_noOp {e f : Exp α} (h : normalizeExp e = some f) : NoOp f = true := by
  unfold normalizeExp at h
  simp only [Option.map_eq_some_iff] at h
  obtain ⟨x, _, rfl⟩ := h
  exact simplify_noOp x

end Lin
end Rooc
