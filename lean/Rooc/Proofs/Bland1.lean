/-
Bland's rule as implemented by `find_h(use_bland = true)` and `find_t` (ties within the tolerance go to the
smaller basic index), on tableaus whose relevant quantities are SEPARATED by the tolerance (`Sep`): there the
tolerant predicates coincide with the exact ones, ties are detected exactly, and the two rules are the
textbook ones.  (With `tol = 0` the predicate `float_eq` is constantly false, ties are NOT detected and the
leaving rule is "first row", which is not Bland's rule — hence `tol > 0` together with `Sep`.)
-/
import Rooc.Proofs.Phase1
namespace Rooc
namespace Bland
variable {K : Type} [Field K] [LinearOrder K] [IsStrictOrderedRing K]
attribute [local instance] exactArith
open Tableau TabSem PivotLemmas StepLemmas FeasibleLemmas

/-- separation of a tableau by the tolerance: reduced costs and matrix entries are `0` or `≥ tol` in magnitude,
and two ratios of the same column are equal or differ by `≥ tol`. -/
structure Sep (tol : K) (T : Tab K) : Prop where
  cost : ∀ j, nth T.c j = 0 ∨ tol ≤ |nth T.c j|
  entry : ∀ i j, nth (row T.a i) j = 0 ∨ tol ≤ |nth (row T.a i) j|
  ratio : ∀ i i' j, nth T.b i / nth (row T.a i) j = nth T.b i' / nth (row T.a i') j ∨
    tol ≤ |nth T.b i / nth (row T.a i) j - nth T.b i' / nth (row T.a i') j|

theorem flt_zero_iff {tol x : K} (ht : 0 < tol) (h : x = 0 ∨ tol ≤ |x|) : Tol.flt tol x 0 = true ↔ x < 0 := by
  rw [ExactK.flt_iff]; simp only [sub_zero]
  constructor
  · exact fun h' => h'.1
  · intro hx
    refine ⟨hx, ?_⟩
    rcases h with h | h
    · rw [h] at hx; exact absurd hx (lt_irrefl _)
    · exact not_lt.2 h

theorem fgt_zero_iff {tol x : K} (ht : 0 < tol) (h : x = 0 ∨ tol ≤ |x|) : Tol.fgt tol x 0 = true ↔ 0 < x := by
  rw [ExactK.fgt_iff]; simp only [sub_zero]
  constructor
  · exact fun h' => h'.1
  · intro hx
    refine ⟨hx, ?_⟩
    rcases h with h | h
    · rw [h] at hx; exact absurd hx (lt_irrefl _)
    · exact not_lt.2 h

theorem feq_iff_eq {tol x y : K} (ht : 0 < tol) (h : x = y ∨ tol ≤ |x - y|) : Tol.feq tol x y = true ↔ x = y := by
  rw [ExactK.feq_iff]
  constructor
  · intro h'; rcases h with h | h
    · exact h
    · exact absurd h' (not_lt.2 h)
  · intro e; rw [e]; simpa using ht

theorem flt_iff_lt {tol x y : K} (ht : 0 < tol) (h : x = y ∨ tol ≤ |x - y|) : Tol.flt tol x y = true ↔ x < y := by
  rw [ExactK.flt_iff]
  constructor
  · exact fun h' => h'.1
  · intro hx
    refine ⟨hx, ?_⟩
    rcases h with h | h
    · rw [h] at hx; exact absurd hx (lt_irrefl _)
    · exact not_lt.2 h

/-! ### entering rule -/

/-- the head of a `filterMap` over `zipIdx`: the first position where the function answers. -/
theorem head_filterMap_zipIdx {β γ : Type} (f : β × Nat → Option γ) : ∀ (l : List β) (k : Nat) (y : γ),
    ((l.zipIdx k).filterMap f).head? = some y →
    ∃ i, ∃ (hi : i < l.length), f (l[i], k + i) = some y ∧ ∀ i', (hi' : i' < i) → f (l[i'], k + i') = none
  | [], _, _, h => by simp at h
  | x :: xs, k, y, h => by
    simp only [List.zipIdx_cons, List.filterMap_cons] at h
    cases hf : f (x, k) with
    | some z =>
      simp only [hf, List.head?_cons, Option.some.injEq] at h
      exact ⟨0, by simp, by simpa [h] using hf, fun i' hi' => absurd hi' (Nat.not_lt_zero _)⟩
    | none =>
      simp only [hf] at h
      obtain ⟨i, hi, h1, h2⟩ := head_filterMap_zipIdx f xs (k+1) y h
      refine ⟨i+1, by simpa using hi, by simpa [Nat.add_assoc, Nat.add_comm 1 i] using h1, ?_⟩
      intro i' hi'
      cases i' with
      | zero => simpa using hf
      | succ i' =>
        have := h2 i' (by omega)
        simpa [Nat.add_assoc, Nat.add_comm 1 i'] using this

/-- **Bland's entering rule**: the chosen column is the non-basic column of least index with negative reduced
cost. -/
theorem findH_bland {tol : K} (ht : 0 < tol) {T : Tab K} (hS : Sep tol T) {h : Nat}
    (hf : findH tol T true = some h) :
    h < T.c.length ∧ nth T.c h < 0 ∧ T.basis.contains h = false ∧
      ∀ j, j < h → T.basis.contains j = false → ¬ nth T.c j < 0 := by
  obtain ⟨h1, h2, h3⟩ := findH_spec hf
  refine ⟨h1, (flt_zero_iff ht (hS.cost h)).1 h2, h3, ?_⟩
  intro j hj hb hneg
  unfold findH at hf
  simp only [if_true] at hf
  cases hh : (eligible tol T).head? with
  | none => simp [hh] at hf
  | some y =>
    simp only [hh, Option.map_some, Option.some.injEq] at hf
    unfold eligible at hh
    obtain ⟨i, hi, hfi, hbefore⟩ := head_filterMap_zipIdx _ T.c 0 y hh
    simp only [Nat.zero_add] at hfi hbefore
    split at hfi
    · cases hfi
      simp only at hf
      subst hf
      have := hbefore j hj
      have hjc : nth T.c j = T.c[j]'(lt_trans hj hi) := by
        simp [nth, List.getD_eq_getElem?_getD, lt_trans hj hi]
      rw [if_pos (by
        simp only [ExactK.zero_eq, Bool.and_eq_true, Bool.not_eq_true']
        exact ⟨hb, by rw [← hjc]; exact (flt_zero_iff ht (hS.cost j)).2 hneg⟩)] at this
      cases this
    · cases hfi

/-! ### leaving rule -/

/-- one selection step of `find_t` without preference list, on separated ratios. -/
theorem sel_sep {tol : K} (ht : 0 < tol) (basis : List Nat) (x y : Nat × K) (h : y.2 = x.2 ∨ tol ≤ |y.2 - x.2|) :
    (sel tol basis [] x y = x ∨ sel tol basis [] x y = y) ∧
    (sel tol basis [] x y).2 ≤ x.2 ∧ (sel tol basis [] x y).2 ≤ y.2 ∧
    (x.2 = (sel tol basis [] x y).2 → basis.getD (sel tol basis [] x y).1 0 ≤ basis.getD x.1 0) ∧
    (y.2 = (sel tol basis [] x y).2 → basis.getD (sel tol basis [] x y).1 0 ≤ basis.getD y.1 0) := by
  unfold sel selRatio tieWins
  simp only [List.contains_nil, Bool.false_and, Bool.or_false, decide_eq_true_eq]
  cases Gen.ratioTestExact with
  | true =>
    simp only [if_true, ExactK.lt_eq, ExactK.eq_eq, decide_eq_true_eq]
    by_cases hl : y.2 < x.2
    · rw [if_pos hl]
      exact ⟨Or.inr rfl, hl.le, le_refl _, fun e => absurd e.symm (ne_of_lt hl), fun _ => le_refl _⟩
    · rw [if_neg hl]
      by_cases he : y.2 = x.2
      · rw [if_pos he]
        by_cases hb : basis.getD y.1 0 < basis.getD x.1 0
        · rw [if_pos hb]
          exact ⟨Or.inr rfl, he.le, le_refl _, fun _ => hb.le, fun _ => le_refl _⟩
        · rw [if_neg hb]
          exact ⟨Or.inl rfl, le_refl _, he.symm.le, fun _ => le_refl _, fun _ => not_lt.1 hb⟩
      · rw [if_neg he]
        have hxy : x.2 < y.2 := lt_of_le_of_ne (not_lt.1 hl) (fun e => he e.symm)
        exact ⟨Or.inl rfl, le_refl _, hxy.le, fun _ => le_refl _, fun e => absurd e (ne_of_gt hxy)⟩
  | false =>
    simp only [Bool.false_eq_true, if_false]
    by_cases he : y.2 = x.2
    · rw [if_pos ((feq_iff_eq ht h).2 he)]
      by_cases hb : basis.getD y.1 0 < basis.getD x.1 0
      · rw [if_pos hb]
        exact ⟨Or.inr rfl, he.le, le_refl _, fun _ => hb.le, fun _ => le_refl _⟩
      · rw [if_neg hb]
        exact ⟨Or.inl rfl, le_refl _, he.symm.le, fun _ => le_refl _, fun _ => not_lt.1 hb⟩
    · have hne : ¬ Tol.feq tol y.2 x.2 = true := fun hc => he ((feq_iff_eq ht h).1 hc)
      rw [if_neg hne]
      by_cases hl : y.2 < x.2
      · rw [if_pos ((flt_iff_lt ht h).2 hl)]
        exact ⟨Or.inr rfl, hl.le, le_refl _, fun e => absurd e.symm he, fun _ => le_refl _⟩
      · have : ¬ Tol.flt tol y.2 x.2 = true := fun hc => hl ((flt_iff_lt ht h).1 hc)
        rw [if_neg this]
        have hxy : x.2 < y.2 := lt_of_le_of_ne (not_lt.1 hl) (fun e => he e.symm)
        exact ⟨Or.inl rfl, le_refl _, hxy.le, fun _ => le_refl _, fun e => absurd e (ne_of_gt hxy)⟩

/-- the fold of `find_t` returns the lexicographic minimum by (ratio, basic index). -/
theorem foldl_sel_lex {tol : K} (ht : 0 < tol) (basis : List Nat) :
    ∀ (l : List (Nat × K)) (x : Nat × K),
      (∀ y ∈ x :: l, ∀ z ∈ x :: l, y.2 = z.2 ∨ tol ≤ |y.2 - z.2|) →
      (l.foldl (sel tol basis []) x) ∈ x :: l ∧
      ∀ y ∈ x :: l, (l.foldl (sel tol basis []) x).2 ≤ y.2 ∧
        (y.2 = (l.foldl (sel tol basis []) x).2 → basis.getD (l.foldl (sel tol basis []) x).1 0 ≤ basis.getD y.1 0)
  | [], x, _ => by simp
  | y :: l, x, hsep => by
    simp only [List.foldl_cons]
    obtain ⟨hmem, h1, h2, h3, h4⟩ := sel_sep ht basis x y (hsep y (by simp) x (by simp))
    have hx'mem : sel tol basis [] x y ∈ x :: y :: l := by
      rcases hmem with e | e <;> rw [e] <;> simp
    have ih := foldl_sel_lex ht basis l (sel tol basis [] x y) (by
      intro a ha b hb
      have ha' : a ∈ x :: y :: l := by
        rcases List.mem_cons.1 ha with rfl | ha
        · exact hx'mem
        · exact List.mem_cons_of_mem _ (List.mem_cons_of_mem _ ha)
      have hb' : b ∈ x :: y :: l := by
        rcases List.mem_cons.1 hb with rfl | hb
        · exact hx'mem
        · exact List.mem_cons_of_mem _ (List.mem_cons_of_mem _ hb)
      exact hsep a ha' b hb')
    obtain ⟨imem, iall⟩ := ih
    refine ⟨?_, ?_⟩
    · rcases List.mem_cons.1 imem with e | e
      · rw [e]; exact hx'mem
      · exact List.mem_cons_of_mem _ (List.mem_cons_of_mem _ e)
    · intro z hz
      have hres := iall (sel tol basis [] x y) (by simp)
      rcases List.mem_cons.1 hz with rfl | hz
      · refine ⟨le_trans hres.1 h1, ?_⟩
        intro e
        have e1 : (sel tol basis [] z y).2 = (l.foldl (sel tol basis []) (sel tol basis [] z y)).2 :=
          le_antisymm (by rw [← e]; exact h1) hres.1
        exact le_trans (hres.2 e1) (h3 (by rw [e, ← e1]))
      · rcases List.mem_cons.1 hz with rfl | hz
        · refine ⟨le_trans hres.1 h2, ?_⟩
          intro e
          have e1 : (sel tol basis [] x z).2 = (l.foldl (sel tol basis []) (sel tol basis [] x z)).2 :=
            le_antisymm (by rw [← e]; exact h2) hres.1
          exact le_trans (hres.2 e1) (h4 (by rw [e, ← e1]))
        · exact iall z (List.mem_cons_of_mem _ hz)

/-- **Bland's leaving rule**: among the rows with a positive entry in the entering column the chosen one has the
least ratio, and among the rows attaining it the least basic index. -/
theorem findT_bland {tol : K} (ht : 0 < tol) {T : Tab K} (hS : Sep tol T) {h t : Nat} {ratio : K}
    (hf : findT tol T h [] = some (t, ratio)) :
    t < T.a.length ∧ 0 < nth (row T.a t) h ∧ ratio = nth T.b t / nth (row T.a t) h ∧
    ∀ i, i < T.a.length → 0 < nth (row T.a i) h →
      ratio ≤ nth T.b i / nth (row T.a i) h ∧
      (nth T.b i / nth (row T.a i) h = ratio → T.basis.getD t 0 ≤ T.basis.getD i 0) := by
  obtain ⟨h1, h2, h3⟩ := findT_spec hf
  refine ⟨h1, ExactK.fgt_zero_pos h2, h3, ?_⟩
  intro i hi hpos
  have hmem := mem_ratios_of (tol := tol) hi ((fgt_zero_iff ht (hS.entry i h)).2 hpos)
  rw [findT_eq_sel] at hf
  split at hf
  · rename_i hnil; rw [hnil] at hmem; cases hmem
  · rename_i first rest hr
    simp only [Option.some.injEq] at hf
    have hsep : ∀ y ∈ first :: rest, ∀ z ∈ first :: rest, y.2 = z.2 ∨ tol ≤ |y.2 - z.2| := by
      intro y hy z hz
      rw [← hr] at hy hz
      obtain ⟨-, -, ey⟩ := mem_ratios hy
      obtain ⟨-, -, ez⟩ := mem_ratios hz
      rw [ey, ez]; exact hS.ratio y.1 z.1 h
    obtain ⟨-, hall⟩ := foldl_sel_lex ht T.basis rest first hsep
    rw [hf] at hall
    rw [hr] at hmem
    exact hall _ hmem

end Bland
end Rooc
