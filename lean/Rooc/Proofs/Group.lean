/-
Helper lemmas for C09/C11: the token-level reading of the `exp` PEG fragment
(`Rooc/Syntax/Parse.lean`) on renderings.  `Tk t ts items` — "the token list `ts` renders `t`, with any
spelling of the operators and a superset of the needed parentheses, and `items` are the pest pairs it is
grouped into"; `parse_tk : Tk t ts items → parseToks ts = .ok t`.
-/
import Rooc.Proofs.Pratt
import Rooc.Proofs.Bal
namespace Rooc.Syntax.Proofs
open Rooc Rooc.Syntax Rooc.Syntax.Doc

/-- every spelling of a binary operator -/
def binToks : BinOp → List Tok
  | .add => [.plus]
  | .sub => [.minus]
  | .mul => [.star]
  | .div => [.slash]
  | .and => [.word "and", .ampamp]
  | .or => [.word "or", .barbar]
  | .xor => [.word "xor"]
  | .implies => [.word "implies", .arrow]
  | .iff => [.word "iff", .darrow]
/-- every spelling of a prefix operator -/
def unToks : UnOp → List Tok
  | .neg => [.minus]
  | .not => [.word "not", .bang]

theorem binRule_of_mem {o : BinOp} {tk : Tok} (h : tk ∈ binToks o) : binRule tk = some (docRule o) := by
  cases o <;> simp only [binToks, List.mem_cons, List.mem_singleton, List.not_mem_nil, or_false] at h <;>
    (first | (subst h; decide) | (rcases h with h | h <;> subst h <;> decide))
theorem unRule_of_mem {u : UnOp} {tk : Tok} (h : tk ∈ unToks u) : unRule tk = some (docUnRule u) := by
  cases u <;> simp only [unToks, List.mem_cons, List.mem_singleton, List.not_mem_nil, or_false] at h <;>
    (first | (subst h; decide) | (rcases h with h | h <;> subst h <;> decide))

theorem unRule_word {w : String} (h : w ≠ "not") : unRule (.word w) = none := by
  have h' : ¬ "not" = w := fun e => h e.symm
  simp [unRule, ruleOfTok, Tok.opSpelling, Gen.unaryOpAlts, spells, Gen.opSpellings, h']

/-- single-token leaves -/
inductive Atom : PExp → Tok → Prop
  | int (s : String) : digitsToNat s.toList ≤ i64Max → Atom (.int (digitsToNat s.toList)) (.int s)
  | num (s : String) : Atom (.num s) (.float s)
  | tt : Atom (.bool true) (.word "true")
  | ff : Atom (.bool false) (.word "false")
  | var (n : String) : isKeyword n = false → Atom (.var n) (.word n)
  | str (s : String) : Atom (.str s) (.str s)

/-- product of implicitly multiplied pieces: the left fold of `Rule::implicit_mul` -/
def mulAll (a : PExp) (rest : List PExp) : PExp := rest.foldl (fun acc e => .bin .mul acc e) a

/-- variable of an iteration: a name, or a tuple of names -/
inductive IterHead : IterVar → List Tok → Prop
  | single (n : String) : n ≠ "_" → IterHead (.single n) [.word n]
  | tuple (n : String) (ns : List String) :
      IterHead (.tuple (n :: ns)) (.lpar :: .word n :: (ns.flatMap fun m => [.comma, .word m]) ++ [.rpar])

/-- integer arrays `[1, 2, 3]` -/
def intArrToks : List String → List Tok
  | [] => [.rbrack]
  | [s] => [.int s, .rbrack]
  | s :: t :: rest => .int s :: .comma :: intArrToks (t :: rest)

mutual
/-- `Tk t ts items`: the token list `ts` is a rendering of `t` — any spelling of the operators, a superset
of the needed parentheses, implicit products, calls, compound variables, array accesses, block functions,
scoped blocks — and `items` are the pest pairs it is grouped into. -/
inductive Tk : PExp → List Tok → List Item → Prop
  | atom {a : PExp} {tk : Tok} : Atom a tk → Tk a [tk] [.leaf a]
  | paren {t : PExp} {ts : List Tok} {items : List Item} : Tk t ts items → Tk t (.lpar :: ts ++ [.rpar]) [.leaf t]
  | un {u : UnOp} {e : PExp} {ts : List Tok} {utok : Tok} : Tk e ts [.leaf e] → utok ∈ unToks u →
      Tk (.un u e) (utok :: ts) [.op (docUnRule u), .leaf e]
  | bin {o : BinOp} {l r : PExp} {L R : List Tok} {il ir : List Item} {optok : Tok} :
      Tk l L il → Tk r R ir →
      (il = [.leaf l] ∨ needParenLeft o l = false) → (ir = [.leaf r] ∨ needParenRight o r = false) →
      optok ∈ binToks o → Tk (.bin o l r) (L ++ optok :: R) (il ++ .op (docRule o) :: ir)
  /-- implicit multiplication: numbers / parenthesised groups written next to each other, optionally closed
  by a variable, at least two pieces: ONE leaf pair -/
  | imul {a : PExp} {as vs : List PExp} {ts vts : List Tok} : Juxt (a :: as) ts → VarTail vs vts →
      1 ≤ (as ++ vs).length → Tk (mulAll a (as ++ vs)) (ts ++ vts) [.leaf (mulAll a (as ++ vs))]
  /-- function call -/
  | call {n : String} {args : List PExp} {ats : List Tok} : isFunctionName n = true → n ≠ "not" → Args args ats →
      Tk (.call n args) (.word n :: .lpar :: ats ++ [.rpar]) [.leaf (.call n args)]
  /-- array of integers -/
  | arr {ss : List String} : (∀ s ∈ ss, digitsToNat s.toList ≤ i64Max) →
      Tk (.prim (arrayText (ss.map fun s => String.ofList (natDigits (digitsToNat s.toList))))) (.lbrack :: intArrToks ss)
        [.leaf (.prim (arrayText (ss.map fun s => String.ofList (natDigits (digitsToNat s.toList)))))]
  /-- compound variable `x_i_{e}` -/
  | cvar {n : String} {e : PExp} {es : List PExp} {its : List Tok} : Idx (e :: es) its →
      Tk (.cvar n (e :: es)) (.word n :: its) [.leaf (.cvar n (e :: es))]
  /-- array access `v[e][e]` -/
  | access {n : String} {e : PExp} {es : List PExp} {its : List Tok} : n ≠ "not" → n ≠ "_" → Acc (e :: es) its →
      Tk (.access n (e :: es)) (.word n :: its) [.leaf (.access n (e :: es))]
  /-- block function `min { a, b }` -/
  | block {k : String} {e : PExp} {es : List PExp} {ats : List Tok} : isFunctionName k = true → k ≠ "not" →
      canonKind Gen.blockKinds k = k → blockKindErr k (e :: es).length = none → Args (e :: es) ats →
      Tk (.block k (e :: es)) (.word k :: .lbrace :: ats ++ [.rbrace]) [.leaf (.block k (e :: es))]
  /-- scoped block `sum(i in 0..n, (u, v) in E) { body }` -/
  | scoped {k : String} {vs : List IterVar} {its : List PExp} {body : PExp} {its_ts bts : List Tok} {items : List Item} :
      isFunctionName k = true → k ≠ "not" → canonKind Gen.scopedKinds k = k → scopedKindErr k = none →
      Iters vs its its_ts → Tk body bts items →
      Tk (.scoped k vs its body) (.word k :: .lpar :: its_ts ++ .rpar :: .lbrace :: bts ++ [.rbrace])
        [.leaf (.scoped k vs its body)]
/-- optional variable that closes an implicit product -/
inductive VarTail : List PExp → List Tok → Prop
  | none : VarTail [] []
  | var (n : String) : isKeyword n = false → VarTail [.var n] [.word n]
  | cvar {n : String} {e : PExp} {es : List PExp} {its : List Tok} : Idx (e :: es) its →
      VarTail [.cvar n (e :: es)] (.word n :: its)
/-- juxtaposed pieces of an implicit product -/
inductive Juxt : List PExp → List Tok → Prop
  | nil : Juxt [] []
  | int {s : String} {es : List PExp} {ts : List Tok} : digitsToNat s.toList ≤ i64Max → Juxt es ts →
      Juxt (.int (digitsToNat s.toList) :: es) (.int s :: ts)
  | num {s : String} {es : List PExp} {ts : List Tok} : Juxt es ts → Juxt (.num s :: es) (.float s :: ts)
  | paren {t : PExp} {inner : List Tok} {items : List Item} {es : List PExp} {ts : List Tok} :
      Tk t inner items → Juxt es ts → Juxt (t :: es) (.lpar :: inner ++ .rpar :: ts)
/-- comma separated arguments -/
inductive Args : List PExp → List Tok → Prop
  | nil : Args [] []
  | one {a : PExp} {ts : List Tok} {items : List Item} : Tk a ts items → Args [a] ts
  | cons {a b : PExp} {bs : List PExp} {ts ts' : List Tok} {items : List Item} :
      Tk a ts items → Args (b :: bs) ts' → Args (a :: b :: bs) (ts ++ .comma :: ts')
/-- indexes of a compound variable -/
inductive Idx : List PExp → List Tok → Prop
  | nil : Idx [] []
  | var {i : String} {es : List PExp} {ts : List Tok} : Idx es ts → Idx (.var i :: es) (.us :: .word i :: ts)
  | int {s : String} {es : List PExp} {ts : List Tok} : digitsToNat s.toList ≤ i64Max → Idx es ts →
      Idx (.int (digitsToNat s.toList) :: es) (.us :: .int s :: ts)
  | brace {e : PExp} {ets : List Tok} {items : List Item} {es : List PExp} {ts : List Tok} :
      Tk e ets items → Idx es ts → Idx (e :: es) (.us :: .lbrace :: ets ++ .rbrace :: ts)
/-- accesses of an array access -/
inductive Acc : List PExp → List Tok → Prop
  | nil : Acc [] []
  | cons {e : PExp} {ets : List Tok} {items : List Item} {es : List PExp} {ts : List Tok} :
      Tk e ets items → Acc es ts → Acc (e :: es) (.lbrack :: ets ++ .rbrack :: ts)
/-- iteration declarations `v in set, (u, w) in a..b` -/
inductive Iters : List IterVar → List PExp → List Tok → Prop
  | one {v : IterVar} {vts : List Tok} {inw : String} {e : PExp} {ets : List Tok} :
      IterHead v vts → lowerWord inw = "in" → Iter e ets → Iters [v] [e] (vts ++ .word inw :: ets)
  | cons {v : IterVar} {vts : List Tok} {inw : String} {e : PExp} {ets : List Tok} {vs : List IterVar} {es : List PExp}
      {ts : List Tok} :
      IterHead v vts → lowerWord inw = "in" → Iter e ets → Iters vs es ts →
      Iters (v :: vs) (e :: es) (vts ++ .word inw :: ets ++ .comma :: ts)
/-- one iterator: a range `a..b` / `a..=b`, or any expression -/
inductive Iter : PExp → List Tok → Prop
  | range {a b : PExp} {ta tb : List Tok} {ia ib : List Item} {incl : Bool} : Tk a ta ia → Tk b tb ib →
      Iter (.call "range" [a, b, .bool incl]) (ta ++ (if incl then Tok.dotdoteq else Tok.dotdot) :: tb)
  | set {e : PExp} {ts : List Tok} {items : List Item} : Tk e ts items → Iter e ts
end

theorem Tk.toIR {t : PExp} {ts : List Tok} {items : List Item} : Tk t ts items → IR t items
  | .atom _ => .leaf _
  | .paren _ => .leaf _
  | .un _ _ => .un _ _
  | .imul _ _ _ => .leaf _
  | .call _ _ _ => .leaf _
  | .arr _ => .leaf _
  | .cvar _ => .leaf _
  | .access _ _ _ => .leaf _
  | .block _ _ _ _ _ => .leaf _
  | .scoped _ _ _ _ _ _ => .leaf _
  | .bin hl hr hpl hpr _ => .bin _ _ _ _ _ (Tk.toIR hl) (Tk.toIR hr) hpl hpr

/-- tokens that end an expression: `)`, `,`, `}`, `]`, the range signs, and at program level NEWLINE and the
comparisons -/
def isTerm : Tok → Bool
  | .rpar | .comma | .nl | .le | .ge | .eq | .lt | .gt | .rbrace | .rbrack | .dotdot | .dotdoteq => true
  | .word w => w == "for"      -- `x >= 1 for i in …`
  | _ => false

/-- a terminator at the head of `tk :: tl` (the word `for` is not glued to a `_`) -/
def TermAt (tk : Tok) (tl : List Tok) : Prop := isTerm tk = true ∧ ∀ w, tk = .word w → ∀ tl', tl ≠ .us :: tl'

/-- what may follow a complete operand: nothing, a terminator or a binary operator (an operator word is not glued
to a `_`: `and_x` is a name) -/
def Follow (rest : List Tok) : Prop :=
  rest = [] ∨ ∃ tk tl, rest = tk :: tl ∧ (TermAt tk tl ∨ ((∃ o, tk ∈ binToks o) ∧ ∀ tl', tl ≠ .us :: tl'))

/-- what may follow a complete expression: nothing or a terminator -/
def Closed (rest : List Tok) : Prop :=
  rest = [] ∨ ∃ tk tl, rest = tk :: tl ∧ TermAt tk tl

theorem Closed.follow {rest : List Tok} (h : Closed rest) : Follow rest := by
  rcases h with h | ⟨tk, tl, h, h'⟩
  · exact Or.inl h
  · exact Or.inr ⟨tk, tl, h, Or.inl h'⟩

theorem closed_of_term {tk : Tok} (h : isTerm tk = true) (hw : ∀ w, tk ≠ .word w) (tl : List Tok) : Closed (tk :: tl) :=
  Or.inr ⟨tk, tl, rfl, h, fun w e => absurd e (hw w)⟩
theorem closed_rpar (tl : List Tok) : Closed (.rpar :: tl) := closed_of_term rfl (by intro w e; cases e) tl
theorem closed_comma (tl : List Tok) : Closed (.comma :: tl) := closed_of_term rfl (by intro w e; cases e) tl
theorem closed_nl (tl : List Tok) : Closed (.nl :: tl) := closed_of_term rfl (by intro w e; cases e) tl
theorem closed_rbrace (tl : List Tok) : Closed (.rbrace :: tl) := closed_of_term rfl (by intro w e; cases e) tl
theorem closed_rbrack (tl : List Tok) : Closed (.rbrack :: tl) := closed_of_term rfl (by intro w e; cases e) tl
theorem closed_dotdot (tl : List Tok) : Closed (.dotdot :: tl) := closed_of_term rfl (by intro w e; cases e) tl
theorem closed_dotdoteq (tl : List Tok) : Closed (.dotdoteq :: tl) := closed_of_term rfl (by intro w e; cases e) tl

theorem follow_of_mem {o : BinOp} {tk : Tok} (h : tk ∈ binToks o) (tl : List Tok) (hu : ∀ tl', tl ≠ .us :: tl') :
    Follow (tk :: tl) :=
  Or.inr ⟨tk, tl, rfl, Or.inr ⟨⟨o, h⟩, hu⟩⟩

/-! ### facts about the tokens that may follow an operand -/

theorem closed_for (tl : List Tok) (h : ∀ tl', tl ≠ .us :: tl') : Closed (.word "for" :: tl) :=
  Or.inr ⟨_, tl, rfl, rfl, fun _ _ => h⟩

theorem follow_cases {rest : List Tok} (h : Follow rest) :
    rest = [] ∨ (∃ tk tl, rest = tk :: tl ∧ TermAt tk tl) ∨
      (∃ tk tl o, rest = tk :: tl ∧ tk ∈ binToks o ∧ ∀ tl', tl ≠ .us :: tl') := by
  rcases h with h | ⟨tk, tl, h, h' | ⟨⟨o, h'⟩, hu⟩⟩
  · exact Or.inl h
  · exact Or.inr (Or.inl ⟨tk, tl, h, h'⟩)
  · exact Or.inr (Or.inr ⟨tk, tl, o, h, h', hu⟩)

/-- the first token behind an operand: it starts no leaf, and if it is a word it is a keyword -/
def stopTok : Tok → Bool
  | .int _ | .float _ | .lpar | .lbrace | .lbrack | .us | .str _ | .bang | .colon | .st | .arrow | .darrow => false
  | .word w => isKeyword w && w != "not" && w != "true" && w != "false"
  | _ => true

theorem binTok_stop {o : BinOp} {tk : Tok} (h : tk ∈ binToks o) : stopTok tk = true ∨ tk = .arrow ∨ tk = .darrow := by
  cases o <;> simp only [binToks, List.mem_cons, List.not_mem_nil, or_false] at h <;>
    (first | (subst h; first | (left; decide) | (right; left; rfl) | (right; right; rfl))
           | (rcases h with h | h <;> subst h <;> first | (left; decide) | (right; left; rfl) | (right; right; rfl)))

/-- shape of the token behind an operand -/
def FollowTok (tk : Tok) : Prop := stopTok tk = true ∨ tk = .arrow ∨ tk = .darrow

theorem follow_tok {rest : List Tok} (h : Follow rest) :
    rest = [] ∨ ∃ tk tl, rest = tk :: tl ∧ FollowTok tk ∧ ((∃ w, tk = .word w) → ∀ tl', tl ≠ .us :: tl') := by
  rcases follow_cases h with h | ⟨tk, tl, h, ht⟩ | ⟨tk, tl, o, h, hm, hu⟩
  · exact Or.inl h
  · refine Or.inr ⟨tk, tl, h, Or.inl ?_, ?_⟩
    · have ht1 := ht.1
      cases tk <;> simp_all [isTerm, stopTok]
      decide
    · rintro ⟨w, rfl⟩; exact ht.2 w rfl
  · exact Or.inr ⟨tk, tl, h, binTok_stop hm, fun _ => hu⟩

theorem atoms_follow {rest : List Tok} (h : Follow rest) (f : Nat) (acc : List PExp) :
    atoms (f+1) rest acc = .ok (acc, rest) := by
  rcases follow_tok h with h | ⟨tk, tl, h, ht, _⟩ <;> subst h
  · simp [atoms]
  · rcases ht with ht | rfl | rfl
    · cases tk <;> simp_all [atoms, stopTok]
    · simp [atoms]
    · simp [atoms]

theorem optVariable_follow {rest : List Tok} (h : Follow rest) (f : Nat) : optVariable (f+1) rest = .ok (none, rest) := by
  rcases follow_tok h with h | ⟨tk, tl, h, ht, hu⟩ <;> subst h
  · simp [optVariable]
  · rcases ht with ht | rfl | rfl
    · cases tk <;> simp_all [optVariable, stopTok]
    · simp [optVariable]
    · simp [optVariable]

/-! ### first tokens -/

/-- a token that can begin an expression -/
def startTok : Tok → Bool
  | .int _ | .float _ | .word _ | .lpar | .minus | .bang | .lbrack | .str _ => true
  | _ => false

theorem juxt_head {a : PExp} {as : List PExp} {ts : List Tok} (h : Juxt (a :: as) ts) :
    ∃ tk tl, ts = tk :: tl ∧ ((∃ s, tk = .int s) ∨ (∃ s, tk = .float s) ∨ tk = .lpar) := by
  cases h with
  | int _ _ => exact ⟨_, _, rfl, Or.inl ⟨_, rfl⟩⟩
  | num _ => exact ⟨_, _, rfl, Or.inr (Or.inl ⟨_, rfl⟩)⟩
  | paren _ _ => exact ⟨_, _, rfl, Or.inr (Or.inr rfl)⟩

theorem unTok_start {u : UnOp} {tk : Tok} (h : tk ∈ unToks u) : startTok tk = true := by
  cases u <;> simp only [unToks, List.mem_cons, List.not_mem_nil, or_false] at h <;>
    (first | (subst h; rfl) | (rcases h with h | h <;> subst h <;> rfl))

theorem tk_head {t : PExp} {ts : List Tok} {items : List Item} : Tk t ts items → ∃ tk tl, ts = tk :: tl ∧ startTok tk = true
  | .atom ha => by cases ha <;> exact ⟨_, _, rfl, rfl⟩
  | .paren _ => ⟨_, _, rfl, rfl⟩
  | .un _ hm => ⟨_, _, rfl, unTok_start hm⟩
  | .bin hl _ _ _ _ => by
    obtain ⟨tk, tl, h, hs⟩ := tk_head hl
    exact ⟨tk, tl ++ _, by rw [h]; rfl, hs⟩
  | .imul hj _ _ => by
    obtain ⟨tk, tl, h, hk⟩ := juxt_head hj
    refine ⟨tk, tl ++ _, by rw [h]; rfl, ?_⟩
    rcases hk with ⟨s, rfl⟩ | ⟨s, rfl⟩ | rfl <;> rfl
  | .call _ _ _ => ⟨_, _, rfl, rfl⟩
  | .arr _ => ⟨_, _, rfl, rfl⟩
  | .cvar _ => ⟨_, _, rfl, rfl⟩
  | .access _ _ _ => ⟨_, _, rfl, rfl⟩
  | .block _ _ _ _ _ => ⟨_, _, rfl, rfl⟩
  | .scoped _ _ _ _ _ _ => ⟨_, _, rfl, rfl⟩

theorem start_not_us {ts : List Tok} (h : ∃ tk tl, ts = tk :: tl ∧ startTok tk = true) (X : List Tok) :
    ∀ tl', ts ++ X ≠ .us :: tl' := by
  obtain ⟨tk, tl, rfl, hs⟩ := h
  intro tl' e
  injection e with e _
  subst e; cases hs

theorem skipNl_start {ts : List Tok} (h : ∃ tk tl, ts = tk :: tl ∧ startTok tk = true) (X : List Tok) :
    skipNl (ts ++ X) = ts ++ X := by
  obtain ⟨tk, tl, rfl, hs⟩ := h
  cases tk <;> first | rfl | cases hs

/-! ### leaves -/

theorem optUnary_plain {tk : Tok} (h : unRule tk = none) (rest : List Tok) : optUnary (tk :: rest) = ([], tk :: rest) := by
  unfold optUnary
  split
  · rename_i heq; rw [heq]
  · rename_i t r _ heq
    injection heq with h1 h2; subst h1 h2
    simp [h]
  · rename_i heq; cases heq

theorem optUnary_atom {a : PExp} {tk : Tok} (h : Atom a tk) (rest : List Tok) :
    optUnary (tk :: rest) = ([], tk :: rest) := by
  cases h with
  | int s _ => exact optUnary_plain (by simp [unRule, ruleOfTok, Tok.opSpelling]) rest
  | num s => exact optUnary_plain (by simp [unRule, ruleOfTok, Tok.opSpelling]) rest
  | tt => exact optUnary_plain (unRule_word (by decide)) rest
  | ff => exact optUnary_plain (unRule_word (by decide)) rest
  | var n hk =>
    have : n ≠ "not" := by intro e; subst e; exact absurd hk (by decide)
    exact optUnary_plain (unRule_word this) rest
  | str s => exact optUnary_plain (by simp [unRule, ruleOfTok, Tok.opSpelling]) rest

theorem optUnary_word {w : String} (h : w ≠ "not") (rest : List Tok) : optUnary (.word w :: rest) = ([], .word w :: rest) :=
  optUnary_plain (unRule_word h) rest

theorem atoms_int (f : Nat) (s : String) (r : List Tok) (acc : List PExp) :
    atoms (f+1) (.int s :: r) acc = atoms f r (acc ++ [.int (digitsToNat s.toList)]) := by
  simp [atoms, intLeaf]
theorem atoms_float (f : Nat) (s : String) (r : List Tok) (acc : List PExp) :
    atoms (f+1) (.float s :: r) acc = atoms f r (acc ++ [.num s]) := by
  simp [atoms]
theorem atoms_lpar (f : Nat) (r r' : List Tok) (acc : List PExp) (t : PExp)
    (h : parseExp f r = .ok (t, .rpar :: r')) :
    atoms (f+1) (.lpar :: r) acc = atoms f r' (acc ++ [t]) := by
  simp [atoms, h]
theorem imul_single (f : Nat) (toks rest : List Tok) (a : PExp)
    (h : atoms f toks [] = .ok ([a], rest)) (hv : optVariable f rest = .ok (none, rest)) :
    imulOrSingle (f+1) toks = .ok (a, rest) := by
  simp [imulOrSingle, h, hv]
theorem leaf_int (f : Nat) (s : String) (r : List Tok) : leaf (f+1) (.int s :: r) = imulOrSingle f (.int s :: r) := by
  simp [leaf]
theorem leaf_float (f : Nat) (s : String) (r : List Tok) : leaf (f+1) (.float s :: r) = imulOrSingle f (.float s :: r) := by
  simp [leaf]
theorem leaf_lpar (f : Nat) (r : List Tok) : leaf (f+1) (.lpar :: r) = imulOrSingle f (.lpar :: r) := by
  simp [leaf]

theorem fnNameTail_stop (w : String) (rest : List Tok) (h : ∀ tl, rest ≠ .us :: tl) : fnNameTail rest w = (w, rest) := by
  unfold fnNameTail
  split
  · rename_i s r; exact absurd rfl (h _)
  · rename_i s r; exact absurd rfl (h _)
  · rfl

/-- a word that is followed by nothing that continues a leaf: `primitive | variable` -/
theorem leaf_word (f : Nat) (w : String) (r : List Tok)
    (h : ∀ tl, r ≠ .lpar :: tl ∧ r ≠ .lbrace :: tl ∧ r ≠ .lbrack :: tl ∧ r ≠ .us :: tl) :
    leaf (f+2) (.word w :: r) = wordLeaf w r := by
  have hfn := fnNameTail_stop w r (fun tl => (h tl).2.2.2)
  have hwr : wordRest (f+1) w r = wordLeaf w r := by
    cases r with
    | nil => simp [wordRest]
    | cons tk tl =>
      cases tk <;> first | exact absurd rfl (h tl).2.1 | exact absurd rfl (h tl).2.2.1 | exact absurd rfl (h tl).2.2.2 | simp [wordRest]
  simp only [leaf, hfn]
  split
  · cases r with
    | nil => simp [hwr]
    | cons tk tl =>
      cases tk <;> first | exact absurd rfl (h tl).1 | exact absurd rfl (h tl).2.1 | simp [hwr]
  · exact hwr

theorem follow_no_leaf {rest : List Tok} (h : Follow rest) :
    ∀ tl, rest ≠ .lpar :: tl ∧ rest ≠ .lbrace :: tl ∧ rest ≠ .lbrack :: tl ∧ rest ≠ .us :: tl := by
  intro tl
  rcases follow_tok h with h | ⟨tk, tl', h, ht, _⟩ <;> subst h
  · simp
  · rcases ht with ht | rfl | rfl
    · cases tk <;> simp_all [stopTok]
    · simp
    · simp

theorem follow_not_lpar {rest : List Tok} (h : Follow rest) : ∀ tl, rest ≠ .lpar :: tl := fun tl => (follow_no_leaf h tl).1

theorem not_boolean_of_not_keyword {n : String} (h : isKeyword n = false) : Gen.booleanWords.contains n = false := by
  by_cases h1 : n = "true"
  · subst h1; exact absurd h (by decide)
  · by_cases h2 : n = "false"
    · subst h2; exact absurd h (by decide)
    · simp [Gen.booleanWords, h1, h2]

theorem leaf_atom {a : PExp} {tk : Tok} (h : Atom a tk) {rest : List Tok} (hf : Follow rest) (f : Nat) :
    leaf (f+4) (tk :: rest) = .ok (a, rest) := by
  cases h with
  | int s hs =>
    rw [leaf_int]
    apply imul_single _ _ _ _ _ (optVariable_follow hf _)
    rw [atoms_int (f+1) s rest []]
    exact atoms_follow hf f _
  | num s =>
    rw [leaf_float]
    apply imul_single _ _ _ _ _ (optVariable_follow hf _)
    rw [atoms_float]
    exact atoms_follow hf f _
  | tt => rw [leaf_word _ _ _ (follow_no_leaf hf)]; simp [wordLeaf, Gen.booleanWords]
  | ff => rw [leaf_word _ _ _ (follow_no_leaf hf)]; simp [wordLeaf, Gen.booleanWords]
  | var n hk =>
    rw [leaf_word _ _ _ (follow_no_leaf hf)]
    have hb := not_boolean_of_not_keyword hk
    simp only [wordLeaf, hb, hk]
    rfl
  | str s => simp [leaf]

/-! ### the `exp` rule: `[prefix] leaf (operator [prefix] leaf)*` -/

/-- parse `[prefix] leaf`, then go on with the repetition -/
def stepC (f : Nat) (toks : List Tok) (acc : List Item) : PRes (List Item × List Tok) :=
  match leaf f (optUnary toks).2 with
  | .error e => .error e
  | .ok (t, rest) => collectLoop f rest (acc ++ (optUnary toks).1 ++ [.leaf t])

theorem stepC_of_leaf {f : Nat} {toks rest : List Tok} {acc : List Item} {t : PExp}
    (h : leaf f (optUnary toks).2 = .ok (t, rest)) :
    stepC f toks acc = collectLoop f rest (acc ++ (optUnary toks).1 ++ [.leaf t]) := by
  simp [stepC, h]

theorem collect_eq_stepC (f : Nat) (toks : List Tok) : collect (f+1) toks = stepC f toks [] := by
  simp only [collect, stepC, List.nil_append]
  cases leaf f (optUnary toks).2 with
  | error e => rfl
  | ok p => rfl

theorem collectLoop_unfold {f : Nat} {tk : Tok} {r : List Tok} {acc : List Item} {rule : String}
    (hb : binRule tk = some rule) (hu : ∀ tl, r ≠ .us :: tl) :
    collectLoop (f+1) (tk :: r) acc =
      match leaf f (optUnary r).2 with
      | .error .reject => .ok (acc, tk :: r)
      | .error e => .error e
      | .ok (x, rest) => collectLoop f rest (acc ++ .op rule :: (optUnary r).1 ++ [.leaf x]) := by
  cases r with
  | nil => simp only [collectLoop, hb]; rfl
  | cons t2 tl => cases t2 <;> first | exact absurd rfl (hu tl) | (simp only [collectLoop, hb]; rfl)

theorem collectLoop_of_stepC {f : Nat} {tk : Tok} {r : List Tok} {acc : List Item} {rule : String}
    {res : List Item × List Tok} (hb : binRule tk = some rule) (hu : ∀ tl, r ≠ .us :: tl)
    (h : stepC f r (acc ++ [.op rule]) = .ok res) :
    collectLoop (f+1) (tk :: r) acc = .ok res := by
  rw [collectLoop_unfold hb hu]
  simp only [stepC] at h
  cases hl : leaf f (optUnary r).2 with
  | error e => rw [hl] at h; cases h
  | ok p =>
    rw [hl] at h
    obtain ⟨x, rest⟩ := p
    simpa using h

theorem collectLoop_nil (f : Nat) (acc : List Item) : collectLoop (f+1) [] acc = .ok (acc, []) := by
  simp [collectLoop]

theorem binRule_term {tk : Tok} (h : isTerm tk = true) : binRule tk = none := by
  cases tk <;> simp [isTerm] at h <;> first | rfl | (subst h; decide)

theorem collectLoop_closed {rest : List Tok} (h : Closed rest) (f : Nat) (acc : List Item) :
    collectLoop (f+1) rest acc = .ok (acc, rest) := by
  rcases h with h | ⟨tk, tl, h, h', _⟩ <;> subst h
  · exact collectLoop_nil f acc
  · have hb := binRule_term h'
    cases tl with
    | nil => simp only [collectLoop, hb]
    | cons t2 tl2 => cases t2 <;> simp only [collectLoop, hb]

theorem parseExp_of_collect {f : Nat} {toks rest : List Tok} {items : List Item} {t : PExp}
    (h : collect f toks = .ok (items, rest)) (hp : prattParse items = .ok t) :
    parseExp (f+1) toks = .ok (t, rest) := by
  simp [parseExp, h, hp]

theorem optUnary_of_mem {u : UnOp} {utok : Tok} (h : utok ∈ unToks u) (r : List Tok) (hu : ∀ tl, r ≠ .us :: tl) :
    optUnary (utok :: r) = ([.op (docUnRule u)], r) := by
  unfold optUnary
  split
  · rename_i w r' heq
    injection heq with _ h2
    exact absurd h2 (hu _)
  · rename_i t r' _ heq
    injection heq with h1 h2; subst h1 h2
    simp [unRule_of_mem h]
  · rename_i heq; cases heq

/-- a rendering that is ONE leaf pair: go on with the repetition after it -/
theorem step_of_leafItem {t : PExp} {ts rest : List Tok} {acc : List Item} {res : List Item × List Tok} {f : Nat}
    (hu : optUnary (ts ++ rest) = ([], ts ++ rest)) (hl : leaf f (ts ++ rest) = .ok (t, rest))
    (hc : collectLoop f rest (acc ++ [.leaf t]) = .ok res) :
    stepC f (ts ++ rest) acc = .ok res := by
  have h' : leaf f (optUnary (ts ++ rest)).2 = .ok (t, rest) := by rw [hu]; exact hl
  rw [stepC_of_leaf h', hu]
  simpa using hc

/-! ### implicit products and calls -/

theorem imul_pair (f : Nat) (toks rest rest' : List Tok) (a v : PExp)
    (h : atoms f toks [] = .ok ([a], rest)) (hv : optVariable f rest = .ok (some v, rest')) :
    imulOrSingle (f+1) toks = .ok (.bin .mul a v, rest') := by
  simp [imulOrSingle, h, hv]
theorem imul_multi (f : Nat) (toks rest : List Tok) (a b : PExp) (more : List PExp)
    (h : atoms f toks [] = .ok (a :: b :: more, rest)) (hv : optVariable f rest = .ok (none, rest)) :
    imulOrSingle (f+1) toks = .ok (foldMul a b more, rest) := by
  simp [imulOrSingle, h, hv]
theorem imul_multi_var (f : Nat) (toks rest rest' : List Tok) (a b v : PExp) (more : List PExp)
    (h : atoms f toks [] = .ok (a :: b :: more, rest)) (hv : optVariable f rest = .ok (some v, rest')) :
    imulOrSingle (f+1) toks = .ok (foldMul a b (more ++ [v]), rest') := by
  simp [imulOrSingle, h, hv]

theorem foldMul_eq (a b : PExp) (more : List PExp) : foldMul a b more = mulAll a (b :: more) := by
  simp [foldMul, mulAll]

/-- tokens at which the `(number | parenthesis)*` repetition stops -/
def StopsAtoms (tail : List Tok) : Prop := ∀ g acc, atoms (g+1) tail acc = .ok (acc, tail)

theorem stopsAtoms_follow {rest : List Tok} (h : Follow rest) : StopsAtoms rest := fun g acc => atoms_follow h g acc
theorem stopsAtoms_word (w : String) (rest : List Tok) : StopsAtoms (.word w :: rest) := by
  intro g acc; simp [atoms]

theorem leaf_reject_rpar (f : Nat) (r : List Tok) : leaf (f+1) (.rpar :: r) = .error .reject := by
  simp [leaf]

theorem parseExp_rpar (f : Nat) (r : List Tok) : parseExp (f+3) (.rpar :: r) = .error .reject := by
  have hu : optUnary (.rpar :: r) = ([], .rpar :: r) := optUnary_plain (by simp [unRule, ruleOfTok, Tok.opSpelling]) r
  simp [parseExp, collect, hu, leaf_reject_rpar]

theorem args_nil (f : Nat) (r : List Tok) : args (f+4) (.rpar :: r) = .ok ([], r) := by
  simp [args, parseExp_rpar]

/-- parse one argument, then go on with `, argument` / `)` -/
def argStep (f : Nat) (toks : List Tok) (acc : List PExp) : PRes (List PExp × List Tok) :=
  match parseExp f toks with
  | .ok (a, r) => argsTail f r (acc ++ [a])
  | .error e => .error e

theorem argStep_of_parse {f : Nat} {toks r : List Tok} {acc : List PExp} {a : PExp}
    (h : parseExp f toks = .ok (a, r)) : argStep f toks acc = argsTail f r (acc ++ [a]) := by
  simp [argStep, h]

theorem args_of_argStep {f : Nat} {toks : List Tok} {res : List PExp × List Tok}
    (h : argStep f toks [] = .ok res) : args (f+1) toks = .ok res := by
  simp only [argStep] at h
  simp only [args]
  cases hp : parseExp f toks with
  | error e => rw [hp] at h; cases h
  | ok p => rw [hp] at h; obtain ⟨a, r⟩ := p; simpa using h

theorem argsTail_rpar (f : Nat) (r : List Tok) (acc : List PExp) : argsTail (f+1) (.rpar :: r) acc = .ok (acc, r) := by
  simp [argsTail]

theorem argsTail_comma {f : Nat} {r : List Tok} {acc : List PExp} {res : List PExp × List Tok}
    (hs : skipNl r = r) (h : argStep f r acc = .ok res) : argsTail (f+1) (.comma :: r) acc = .ok res := by
  simp only [argStep] at h
  simp only [argsTail, hs]
  cases hp : parseExp f r with
  | error e => rw [hp] at h; cases h
  | ok p => rw [hp] at h; obtain ⟨a, r'⟩ := p; simpa using h

/-- a call is not mistaken for a scoped block: the parenthesis of a scoped block is followed by `{` -/
theorem leaf_call {f : Nat} {n : String} {r rest : List Tok} {as : List PExp} (hn : isFunctionName n = true)
    (hs : scopedFn f n (skipNl r) = .error .reject)
    (h : args f r = .ok (as, rest)) : leaf (f+1) (.word n :: .lpar :: r) = .ok (.call n as, rest) := by
  have hfn : fnNameTail (.lpar :: r) n = (n, .lpar :: r) := fnNameTail_stop n _ (by intro tl e; cases e)
  simp [leaf, hn, hfn, hs, h]

/-! The fuel hypotheses are the offsets of `no_fuel` (Total.lean): a function called on the token list `toks` needs
`6·|toks| + offset`; whatever it calls gets a shorter list or a smaller offset. -/

def Main1 (ts : List Tok) (items : List Item) : Prop :=
  ∀ (rest : List Tok) (acc : List Item) (res : List Item × List Tok), Follow rest →
    (∀ g, 6 * rest.length + 9 ≤ g → collectLoop g rest (acc ++ items) = .ok res) →
    ∀ f, 6 * (ts.length + rest.length) + 8 ≤ f → stepC f (ts ++ rest) acc = .ok res

def Main2 (t : PExp) (ts : List Tok) (items : List Item) : Prop :=
  ∀ t', items = [.leaf t'] → ∀ rest, Follow rest →
    optUnary (ts ++ rest) = ([], ts ++ rest) ∧
      ∀ f, 6 * (ts.length + rest.length) + 8 ≤ f → leaf f (ts ++ rest) = .ok (t, rest)

/-- a rendering followed by `)`, `,` or the end of the text is read back as the tree it renders -/
theorem parseExp_of_main {t : PExp} {ts : List Tok} {items : List Item} (hm : Main1 ts items) (hir : IR t items)
    {rest : List Tok} (hcl : Closed rest) (f : Nat) (hf : 6 * (ts.length + rest.length) + 10 ≤ f) :
    parseExp f (ts ++ rest) = .ok (t, rest) := by
  obtain ⟨f', rfl⟩ : ∃ f', f = f' + 2 := ⟨f - 2, by omega⟩
  have hcol : collect (f'+1) (ts ++ rest) = .ok (items, rest) := by
    rw [collect_eq_stepC]
    apply hm rest [] (items, rest) hcl.follow
    · intro g hg
      obtain ⟨g', rfl⟩ : ∃ g', g = g' + 1 := ⟨g - 1, by omega⟩
      simpa using collectLoop_closed hcl g' items
    · omega
  exact parseExp_of_collect hcol (pratt_roundtrip hir)

/-- a rendering that is one leaf pair satisfies `Main1` once `Main2` is known -/
theorem main1_of_leaf {t : PExp} {ts : List Tok} (hne : 1 ≤ ts.length)
    (h2 : ∀ rest, Follow rest → optUnary (ts ++ rest) = ([], ts ++ rest) ∧
      ∀ f, 6 * (ts.length + rest.length) + 8 ≤ f → leaf f (ts ++ rest) = .ok (t, rest)) : Main1 ts [.leaf t] := by
  intro rest acc res hf hc f hlen
  exact step_of_leafItem (h2 rest hf).1 ((h2 rest hf).2 f hlen) (hc f (by omega))

/-! ### the other leaves: compound variables, array accesses, blocks, arrays -/

/-- a word whose `function_name` reading is followed by neither `(` nor `{`: `array_access | primitive | variable` -/
theorem leaf_via_wordRest {f : Nat} {n : String} {r : List Tok}
    (h : ∀ name r', fnNameTail r n = (name, r') → ∀ tl, r' ≠ .lpar :: tl ∧ r' ≠ .lbrace :: tl) :
    leaf (f+1) (.word n :: r) = wordRest f n r := by
  simp only [leaf]
  split
  · rcases hfn : fnNameTail r n with ⟨name, r'⟩
    have := h name r' hfn
    cases r' with
    | nil => rfl
    | cons tk tl =>
      cases tk <;> first | exact absurd rfl (this tl).1 | exact absurd rfl (this tl).2 | rfl
  · rfl

/-- the `function_name` reading of the base of a compound variable stops before a `_{`, or at what follows -/
theorem fnNameTail_idx {es : List PExp} {its : List Tok} : Idx es its → ∀ {rest : List Tok}, Follow rest → ∀ (acc : String),
    ∀ name r', fnNameTail (its ++ rest) acc = (name, r') → ∀ tl, r' ≠ .lpar :: tl ∧ r' ≠ .lbrace :: tl
  | .nil, rest, hf, acc, name, r', h, tl => by
    have hne := follow_no_leaf hf
    rw [List.nil_append, fnNameTail_stop acc rest (fun tl => (hne tl).2.2.2)] at h
    injection h with _ h2; subst h2
    exact ⟨(hne tl).1, (hne tl).2.1⟩
  | .var hi, rest, hf, acc, name, r', h, tl => by
    simp only [List.cons_append, fnNameTail] at h
    exact fnNameTail_idx hi hf _ name r' h tl
  | .int _ hi, rest, hf, acc, name, r', h, tl => by
    simp only [List.cons_append, fnNameTail] at h
    exact fnNameTail_idx hi hf _ name r' h tl
  | .brace _ _, rest, hf, acc, name, r', h, tl => by
    simp only [List.cons_append, fnNameTail] at h
    injection h with _ h2; subst h2
    exact ⟨by simp, by simp⟩

theorem wordRest_cvar {f : Nat} {n : String} {r rest : List Tok} {e : PExp} {es : List PExp}
    (h : indexLoop f (.us :: r) [] = .ok (e :: es, rest)) : wordRest (f+1) n (.us :: r) = .ok (.cvar n (e :: es), rest) := by
  simp [wordRest, h]

theorem wordRest_access {f : Nat} {n : String} {r rest : List Tok} {e : PExp} {es : List PExp} (hn : n ≠ "_")
    (h : accessLoop f (.lbrack :: r) [] = .ok (e :: es, rest)) : wordRest (f+1) n (.lbrack :: r) = .ok (.access n (e :: es), rest) := by
  simp [wordRest, h, hn]

theorem optVariable_cvar {f : Nat} {n : String} {r rest : List Tok} {e : PExp} {es : List PExp}
    (h : indexLoop f (.us :: r) [] = .ok (e :: es, rest)) :
    optVariable (f+1) (.word n :: .us :: r) = .ok (some (.cvar n (e :: es)), rest) := by
  simp [optVariable, h]

theorem idx_head {e : PExp} {es : List PExp} {its : List Tok} (h : Idx (e :: es) its) : ∃ r, its = .us :: r := by
  cases h <;> exact ⟨_, rfl⟩
theorem acc_head {e : PExp} {es : List PExp} {its : List Tok} (h : Acc (e :: es) its) : ∃ r, its = .lbrack :: r := by
  cases h; exact ⟨_, rfl⟩

theorem leaf_block {f : Nat} {k : String} {r r' rest : List Tok} {es : List PExp} (hk : isFunctionName k = true)
    (h : expList f (skipNl r) [] = .ok (es, r')) (hr : skipNl r' = .rbrace :: rest) :
    leaf (f+1) (.word k :: .lbrace :: r) = .ok (.block (canonKind Gen.blockKinds k) es, rest) := by
  have hfn : fnNameTail (.lbrace :: r) k = (k, .lbrace :: r) := fnNameTail_stop k _ (by intro tl e; cases e)
  simp [leaf, hk, hfn, h, hr]

theorem leaf_scoped {f : Nat} {k : String} {r rest : List Tok} {t : PExp} (hk : isFunctionName k = true)
    (h : scopedFn f k (skipNl r) = .ok (t, rest)) : leaf (f+1) (.word k :: .lpar :: r) = .ok (t, rest) := by
  have hfn : fnNameTail (.lpar :: r) k = (k, .lpar :: r) := fnNameTail_stop k _ (by intro tl e; cases e)
  simp [leaf, hk, hfn, h]

/-- tuple of an iteration -/
theorem tupleNames_toks (ns : List String) : ∀ (n : String) (b : Bool) (acc : List String) (X : List Tok),
    tupleNames (.word n :: (ns.flatMap fun m => [Tok.comma, Tok.word m]) ++ .rpar :: X) b acc = some (acc ++ n :: ns, X) := by
  induction ns with
  | nil => intro n b acc X; simp [tupleNames]
  | cons m ms ih =>
    intro n b acc X
    simp only [List.flatMap_cons, List.cons_append, List.nil_append, tupleNames]
    have := ih m true (acc ++ [n]) X
    simp only [List.cons_append] at this
    rw [this]
    simp

/-! ### arrays of integers -/

theorem arrayEntries_ints : ∀ (ss : List String) (s : String) (rest : List Tok) (acc : List ArrEntry) (f : Nat),
    ss.length + 1 ≤ f →
    arrayEntries f (intArrToks (s :: ss) ++ rest) acc = some (acc ++ (s :: ss).map ArrEntry.int, rest) := by
  intro ss
  induction ss with
  | nil =>
    intro s rest acc f hf
    obtain ⟨f', rfl⟩ : ∃ f', f = f' + 1 := ⟨f - 1, by omega⟩
    simp [intArrToks, arrayEntries, skipNl]
  | cons t ss ih =>
    intro s rest acc f hf
    obtain ⟨f', rfl⟩ : ∃ f', f = f' + 1 := ⟨f - 1, by simp at hf; omega⟩
    have hsk : skipNl (intArrToks (t :: ss) ++ rest) = intArrToks (t :: ss) ++ rest := by
      cases ss <;> rfl
    simp only [intArrToks, List.cons_append, arrayEntries, hsk]
    rw [ih t rest (acc ++ [ArrEntry.int s]) f' (by simp at hf; omega)]
    simp

theorem filterMap_ints (ss : List String) :
    (ss.map ArrEntry.int).filterMap ArrEntry.intVal = ss.map (fun s => digitsToNat s.toList) := by
  induction ss with
  | nil => rfl
  | cons s ss ih => simp [List.filterMap_cons, ArrEntry.intVal, ih]

theorem arrayLeaf_ints (ss : List String) (hs : ∀ s ∈ ss, digitsToNat s.toList ≤ i64Max) (rest : List Tok) :
    arrayLeaf (intArrToks ss ++ rest) =
      .ok (.prim (arrayText (ss.map fun s => String.ofList (natDigits (digitsToNat s.toList)))), rest) := by
  cases ss with
  | nil => simp [intArrToks, arrayLeaf, skipNl]; decide
  | cons s ss =>
    have hsk : skipNl (intArrToks (s :: ss) ++ rest) = intArrToks (s :: ss) ++ rest := by
      cases ss <;> rfl
    have hne : ∀ r, intArrToks (s :: ss) ++ rest ≠ .rbrack :: r := by
      intro r; cases ss <;> simp [intArrToks]
    have hent := arrayEntries_ints ss s rest [] ((intArrToks (s :: ss) ++ rest).length + 1) (by
      have : ss.length ≤ (intArrToks (s :: ss)).length := by
        clear hs hsk hne
        induction ss generalizing s with
        | nil => simp
        | cons t ss ih => have := ih t; simp [intArrToks] at this ⊢; omega
      simp; omega)
    have hfind : ((s :: ss).map fun s => digitsToNat s.toList).find? (fun v => decide (v > i64Max)) = none := by
      rw [List.find?_eq_none]
      intro v hv
      simp only [List.mem_map] at hv
      obtain ⟨s', hs', rfl⟩ := hv
      have := hs s' hs'
      simp; omega
    unfold arrayLeaf
    rw [hsk]
    split
    · rename_i r heq; exact absurd heq (hne r)
    · simp only [List.nil_append] at hent
      rw [hent]
      simp only [filterMap_ints]
      rw [hfind]
      simp [List.map_map, Function.comp_def]

/-! ### the main induction -/

/-- what ends an iterator: nothing, `,`, `)` or NEWLINE -/
def IterStop (rest : List Tok) : Prop := rest = [] ∨ ∃ tk tl, rest = tk :: tl ∧ (tk = .comma ∨ tk = .rpar ∨ tk = .nl)
/-- what ends a list of iteration declarations: nothing, `)` or NEWLINE -/
def IterEnd (rest : List Tok) : Prop := rest = [] ∨ ∃ tk tl, rest = tk :: tl ∧ (tk = .rpar ∨ tk = .nl)

theorem IterEnd.stop {rest : List Tok} (h : IterEnd rest) : IterStop rest := by
  rcases h with h | ⟨tk, tl, h, h' | h'⟩
  · exact Or.inl h
  · exact Or.inr ⟨tk, tl, h, Or.inr (Or.inl h')⟩
  · exact Or.inr ⟨tk, tl, h, Or.inr (Or.inr h')⟩
theorem IterStop.closed {rest : List Tok} (h : IterStop rest) : Closed rest := by
  rcases h with h | ⟨tk, tl, h, h' | h' | h'⟩
  · exact Or.inl h
  all_goals (subst h'; exact Or.inr ⟨_, tl, h, rfl, fun w e => by cases e⟩)

theorem args_head {b : PExp} {bs : List PExp} {ts : List Tok} (h : Args (b :: bs) ts) :
    ∃ tk tl, ts = tk :: tl ∧ startTok tk = true := by
  cases h with
  | one hk => exact tk_head hk
  | cons hk _ =>
    obtain ⟨tk, tl, h, hs⟩ := tk_head hk
    exact ⟨tk, tl ++ _, by rw [h]; rfl, hs⟩

theorem iterator_set {f : Nat} {toks rest : List Tok} {e : PExp} (h : parseExp f toks = .ok (e, rest)) (hs : IterStop rest) :
    iterator (f+1) toks = .ok (e, rest) := by
  simp only [iterator, h]
  rcases hs with hs | ⟨tk, tl, hs, h' | h' | h'⟩ <;> subst hs
  · rfl
  all_goals (subst h'; rfl)

theorem iterator_range {f : Nat} {toks r rest : List Tok} {a b : PExp} (incl : Bool)
    (h : parseExp f toks = .ok (a, (if incl then Tok.dotdoteq else Tok.dotdot) :: r)) (h2 : parseExp f r = .ok (b, rest)) :
    iterator (f+1) toks = .ok (.call "range" [a, b, .bool incl], rest) := by
  cases incl <;> simp [iterator, h, h2]

theorem iterDecl_single {f : Nat} {v inw : String} {r rest : List Tok} {e : PExp} (hin : lowerWord inw = "in") (hv : v ≠ "_")
    (h : iterator f r = .ok (e, rest)) : iterDecl (f+1) (.word v :: .word inw :: r) = .ok ((.single v, e), rest) := by
  simp [iterDecl, hin, h, hv]

theorem iterDecl_tuple {f : Nat} {n inw : String} {ns : List String} {r rest : List Tok} {e : PExp} (hin : lowerWord inw = "in")
    (h : iterator f r = .ok (e, rest)) :
    iterDecl (f+1) (.lpar :: .word n :: (ns.flatMap fun m => [Tok.comma, Tok.word m]) ++ .rpar :: .word inw :: r)
      = .ok ((.tuple (n :: ns), e), rest) := by
  have := tupleNames_toks ns n false [] (.word inw :: r)
  simp only [List.cons_append] at this
  simp [iterDecl, this, hin, h]

theorem iterHead_len {v : IterVar} {vts : List Tok} (h : IterHead v vts) : 1 ≤ vts.length := by
  cases h <;> simp

/-- one iteration declaration -/
theorem iterDecl_head {v : IterVar} {vts : List Tok} (hv : IterHead v vts) {f : Nat} {inw : String} {r rest : List Tok} {e : PExp}
    (hin : lowerWord inw = "in") (h : iterator f r = .ok (e, rest)) :
    iterDecl (f+1) (vts ++ .word inw :: r) = .ok ((v, e), rest) := by
  cases hv with
  | single n hn => exact iterDecl_single hin hn h
  | tuple n ns =>
    have := iterDecl_tuple (n := n) (ns := ns) hin h
    simpa using this

theorem iterHead_start {v : IterVar} {vts : List Tok} (h : IterHead v vts) : ∃ tk tl, vts = tk :: tl ∧ startTok tk = true := by
  cases h <;> exact ⟨_, _, rfl, rfl⟩

theorem scopedFn_not_fuel {f : Nat} {n : String} {toks : List Tok} (hf : 6 * toks.length + 8 ≤ f) :
    scopedFn f n toks ≠ .error .fuel := (no_fuel f).2.2.2.2.2.1 n toks hf
theorem scopedFn_not_panic {f : Nat} {n : String} {toks : List Tok} : scopedFn f n toks ≠ .error .panic :=
  (no_panic f).2.2.2.2.2.1 n toks

/-- the scoped-block reading of the parenthesis of a call fails: its `)` is not followed by `{` -/
theorem scoped_rejects_call {f : Nat} {n : String} {toks rest : List Tok} (hc : closeOf 0 toks = some rest)
    (hr : ∀ tl, rest ≠ .lbrace :: tl) (hf : 6 * toks.length + 8 ≤ f) : scopedFn f n toks = .error .reject := by
  cases h : scopedFn f n toks with
  | ok p =>
    obtain ⟨t, r⟩ := p
    obtain ⟨r1, h1⟩ := scopedFn_close h
    rw [hc] at h1
    injection h1 with h1
    exact absurd h1 (hr r1)
  | error e =>
    cases e with
    | reject => rfl
    | panic => exact absurd h scopedFn_not_panic
    | fuel => exact absurd h (scopedFn_not_fuel hf)

theorem binTok_close {o : BinOp} {tk : Tok} (h : tk ∈ binToks o) (d : Nat) (r : List Tok) : closeOf d (tk :: r) = closeOf d r :=
  closeOf_other (binRule_not_paren (binRule_of_mem h)).1 (binRule_not_paren (binRule_of_mem h)).2 d r
theorem unTok_close {u : UnOp} {tk : Tok} (h : tk ∈ unToks u) (d : Nat) (r : List Tok) : closeOf d (tk :: r) = closeOf d r :=
  closeOf_other (unRule_not_paren (unRule_of_mem h)).1 (unRule_not_paren (unRule_of_mem h)).2 d r

theorem closeOf_flatMap (ns : List String) (d : Nat) (X : List Tok) :
    closeOf d ((ns.flatMap fun m => [Tok.comma, Tok.word m]) ++ X) = closeOf d X := by
  induction ns with
  | nil => rfl
  | cons m ms ih => simp [List.flatMap_cons, ih]

theorem closeOf_intArr (ss : List String) (d : Nat) (X : List Tok) : closeOf d (intArrToks ss ++ X) = closeOf d X := by
  induction ss with
  | nil => simp [intArrToks]
  | cons s ss ih =>
    cases ss with
    | nil => simp [intArrToks]
    | cons t ss => simp only [intArrToks, List.cons_append, closeOf_int, closeOf_comma]; exact ih

theorem iterHead_close {v : IterVar} {vts : List Tok} (h : IterHead v vts) (d : Nat) (X : List Tok) :
    closeOf d (vts ++ X) = closeOf d X := by
  cases h with
  | single n _ => simp
  | tuple n ns => simp [closeOf_flatMap]

theorem binTok_close' {o : BinOp} {tk : Tok} (h : tk ∈ binToks o) (d : Nat) (r : List Tok) : closeOf d (tk :: r) = closeOf d r :=
  binTok_close h d r

mutual
/-- a rendering is balanced in its parentheses -/
theorem tk_close {t : PExp} {ts : List Tok} {items : List Item} : Tk t ts items → ∀ (d : Nat) (X : List Tok), closeOf d (ts ++ X) = closeOf d X
  | .atom ha, d, X => by cases ha <;> simp
  | .paren h, d, X => by simp [tk_close h]
  | .un h hm, d, X => by simp [unTok_close hm, tk_close h]
  | .bin hl hr _ _ hm, d, X => by simp [tk_close hl, binTok_close hm, tk_close hr]
  | .imul hj hv _, d, X => by simp [juxt_close hj, varTail_close hv]
  | .call _ _ ha, d, X => by simp [args_close ha]
  | .arr _, d, X => by simp [closeOf_intArr]
  | .cvar hi, d, X => by simp [idx_close hi]
  | .access _ _ hi, d, X => by simp [acc_close hi]
  | .block _ _ _ _ ha, d, X => by simp [args_close ha]
  | .scoped _ _ _ _ hi hb, d, X => by simp [iters_close hi, tk_close hb]
theorem varTail_close {vs : List PExp} {vts : List Tok} : VarTail vs vts → ∀ (d : Nat) (X : List Tok), closeOf d (vts ++ X) = closeOf d X
  | .none, d, X => rfl
  | .var n _, d, X => by simp
  | .cvar hi, d, X => by simp [idx_close hi]
theorem juxt_close {es : List PExp} {ts : List Tok} : Juxt es ts → ∀ (d : Nat) (X : List Tok), closeOf d (ts ++ X) = closeOf d X
  | .nil, d, X => rfl
  | .int _ hj, d, X => by simp [juxt_close hj]
  | .num hj, d, X => by simp [juxt_close hj]
  | .paren hin hj, d, X => by simp [tk_close hin, juxt_close hj]
theorem args_close {es : List PExp} {ts : List Tok} : Args es ts → ∀ (d : Nat) (X : List Tok), closeOf d (ts ++ X) = closeOf d X
  | .nil, d, X => rfl
  | .one h, d, X => tk_close h d X
  | .cons h hr, d, X => by simp [tk_close h, args_close hr]
theorem idx_close {es : List PExp} {ts : List Tok} : Idx es ts → ∀ (d : Nat) (X : List Tok), closeOf d (ts ++ X) = closeOf d X
  | .nil, d, X => rfl
  | .var hi, d, X => by simp [idx_close hi]
  | .int _ hi, d, X => by simp [idx_close hi]
  | .brace he hi, d, X => by simp [tk_close he, idx_close hi]
theorem acc_close {es : List PExp} {ts : List Tok} : Acc es ts → ∀ (d : Nat) (X : List Tok), closeOf d (ts ++ X) = closeOf d X
  | .nil, d, X => rfl
  | .cons he hi, d, X => by simp [tk_close he, acc_close hi]
theorem iters_close {vs : List IterVar} {es : List PExp} {ts : List Tok} : Iters vs es ts → ∀ (d : Nat) (X : List Tok),
    closeOf d (ts ++ X) = closeOf d X
  | .one hv _ hi, d, X => by simp [iterHead_close hv, iter_close hi]
  | .cons hv _ hi hr, d, X => by simp [iterHead_close hv, iter_close hi, iters_close hr]
theorem iter_close {e : PExp} {ts : List Tok} : Iter e ts → ∀ (d : Nat) (X : List Tok), closeOf d (ts ++ X) = closeOf d X
  | .range (incl := incl) ha hb, d, X => by cases incl <;> simp [tk_close ha, tk_close hb]
  | .set h, d, X => tk_close h d X
end

theorem follow_not_lbrace {rest : List Tok} (h : Follow rest) : ∀ tl, rest ≠ .lbrace :: tl := fun tl => (follow_no_leaf h tl).2.1

theorem optVariable_var {f : Nat} {n : String} {rest : List Tok} (hk : isKeyword n = false) (hf : Follow rest) :
    optVariable (f+1) (.word n :: rest) = .ok (some (.var n), rest) := by
  have hne := follow_no_leaf hf
  cases rest with
  | nil => simp [optVariable, hk]
  | cons tk tl => cases tk <;> first | exact absurd rfl (hne tl).2.2.2 | simp [optVariable, hk]

theorem start_append {ts : List Tok} (h : ∃ tk tl, ts = tk :: tl ∧ startTok tk = true) (X : List Tok) :
    ∃ tk tl, ts ++ X = tk :: tl ∧ startTok tk = true := by
  obtain ⟨tk, tl, rfl, hs⟩ := h
  exact ⟨tk, tl ++ X, rfl, hs⟩

theorem iters_head {vs : List IterVar} {es : List PExp} {ts : List Tok} (h : Iters vs es ts) :
    ∃ tk tl, ts = tk :: tl ∧ startTok tk = true := by
  cases h with
  | one hv _ _ => exact start_append (iterHead_start hv) _
  | cons hv _ _ _ => exact start_append (start_append (iterHead_start hv) _) _

theorem iterList_step {f : Nat} {toks r : List Tok} {vs : List IterVar} {its : List PExp} {v : IterVar} {it : PExp}
    (h : iterDecl f toks = .ok ((v, it), .comma :: r)) :
    iterList (f+1) toks vs its = iterList f (skipNl r) (vs ++ [v]) (its ++ [it]) := by
  rw [iterList]; simp only [h]

theorem iterList_last {f : Nat} {toks r : List Tok} {vs : List IterVar} {its : List PExp} {v : IterVar} {it : PExp}
    (h : iterDecl f toks = .ok ((v, it), r)) (hr : IterEnd r) :
    iterList (f+1) toks vs its = .ok ((vs ++ [v], its ++ [it]), r) := by
  rw [iterList]; simp only [h]
  rcases hr with hr | ⟨tk, tl, hr, h' | h'⟩ <;> subst hr
  · rfl
  all_goals (subst h'; rfl)

theorem iterStop_comma (tl : List Tok) : IterStop (.comma :: tl) := Or.inr ⟨_, tl, rfl, Or.inl rfl⟩

mutual
theorem tk_main {t : PExp} {ts : List Tok} {items : List Item} : Tk t ts items → Main1 ts items ∧ Main2 t ts items
  | @Tk.atom a tk ha => by
    have h2 : ∀ rest, Follow rest →
        optUnary ([tk] ++ rest) = ([], [tk] ++ rest) ∧
          ∀ f, 6 * ([tk].length + rest.length) + 8 ≤ f → leaf f ([tk] ++ rest) = .ok (a, rest) := by
      intro rest hf
      refine ⟨optUnary_atom ha rest, ?_⟩
      intro f hlen
      obtain ⟨f', rfl⟩ : ∃ f', f = f' + 4 := ⟨f - 4, by simp at hlen; omega⟩
      exact leaf_atom ha hf f'
    exact ⟨main1_of_leaf (by simp) h2, fun t' _ rest hf => h2 rest hf⟩
  | @Tk.paren t ts items hin => by
    have ih := tk_main hin
    have h2 : ∀ rest, Follow rest →
        optUnary ((.lpar :: ts ++ [.rpar]) ++ rest) = ([], (.lpar :: ts ++ [.rpar]) ++ rest) ∧
          ∀ f, 6 * ((Tok.lpar :: ts ++ [Tok.rpar]).length + rest.length) + 8 ≤ f →
            leaf f ((.lpar :: ts ++ [.rpar]) ++ rest) = .ok (t, rest) := by
      intro rest hf
      refine ⟨optUnary_plain (by simp [unRule, ruleOfTok, Tok.opSpelling]) _, ?_⟩
      intro f hlen
      have hlen' : 6 * (ts.length + rest.length) + 20 ≤ f := by simp at hlen; omega
      obtain ⟨f', rfl⟩ : ∃ f', f = f' + 3 := ⟨f - 3, by omega⟩
      have hcl : Closed (.rpar :: rest) := closed_rpar rest
      have hpe : parseExp f' (ts ++ .rpar :: rest) = .ok (t, .rpar :: rest) :=
        parseExp_of_main ih.1 hin.toIR hcl _ (by simp; omega)
      have hts : (Tok.lpar :: ts ++ [.rpar]) ++ rest = .lpar :: (ts ++ .rpar :: rest) := by simp
      rw [hts, leaf_lpar]
      apply imul_single _ _ _ _ _ (optVariable_follow hf _)
      rw [atoms_lpar f' _ rest [] t hpe]
      obtain ⟨f'', rfl⟩ : ∃ f'', f' = f'' + 1 := ⟨f' - 1, by omega⟩
      exact atoms_follow hf _ _
    exact ⟨main1_of_leaf (by simp) h2, fun t' _ rest hf => h2 rest hf⟩
  | @Tk.un u e ts utok hin hm => by
    have ih := tk_main hin
    have hhd := tk_head hin
    refine ⟨?_, fun t' ht' => by simp at ht'⟩
    intro rest acc res hf hc f hlen
    obtain ⟨_, hleaf⟩ := ih.2 e rfl rest hf
    have hou := optUnary_of_mem hm (ts ++ rest) (start_not_us hhd rest)
    have hl : leaf f (optUnary ((utok :: ts) ++ rest)).2 = .ok (e, rest) := by
      rw [List.cons_append, hou]
      exact hleaf f (by simp at hlen; omega)
    rw [stepC_of_leaf hl, List.cons_append, hou]
    simpa using hc f (by simp at hlen; omega)
  | @Tk.bin o l r L R il ir optok hl hr hpl hpr hm => by
    have ihl := tk_main hl
    have ihr := tk_main hr
    have hhd := tk_head hr
    refine ⟨?_, fun t' ht' => by cases il <;> simp at ht'⟩
    intro rest acc res hf hc f hlen
    have hlen' : 6 * (L.length + R.length + 1 + rest.length) + 8 ≤ f := by simp at hlen; omega
    rw [List.append_assoc, List.cons_append]
    apply ihl.1 (optok :: (R ++ rest)) acc res (follow_of_mem hm _ (start_not_us hhd rest))
    · intro g hg
      obtain ⟨g', rfl⟩ : ∃ g', g = g' + 1 := ⟨g - 1, by omega⟩
      apply collectLoop_of_stepC (binRule_of_mem hm) (start_not_us hhd rest)
      apply ihr.1 rest (acc ++ il ++ [Item.op (docRule o)]) res hf
      · intro g hg'
        simpa using hc g hg'
      · simp at hg; omega
    · simp; omega
  | @Tk.imul a as vs ts vts hj hv hlen1 => by
    have ihj := juxt_main hj
    obtain ⟨tk, tl, hts, htk⟩ := juxt_head hj
    have h2 : ∀ rest, Follow rest →
        optUnary ((ts ++ vts) ++ rest) = ([], (ts ++ vts) ++ rest) ∧
          ∀ f, 6 * ((ts ++ vts).length + rest.length) + 8 ≤ f →
            leaf f ((ts ++ vts) ++ rest) = .ok (mulAll a (as ++ vs), rest) := by
      intro rest hf
      constructor
      · subst hts
        rcases htk with ⟨s, rfl⟩ | ⟨s, rfl⟩ | rfl <;>
          exact optUnary_plain (by simp [unRule, ruleOfTok, Tok.opSpelling]) _
      · intro f hlen
        have hlen' : 6 * (ts.length + vts.length + rest.length) + 8 ≤ f := by simp at hlen; omega
        obtain ⟨f', rfl⟩ : ∃ f', f = f' + 3 := ⟨f - 3, by omega⟩
        have hleaf : leaf (f'+3) ((ts ++ vts) ++ rest) = imulOrSingle (f'+2) ((ts ++ vts) ++ rest) := by
          subst hts
          rcases htk with ⟨s, rfl⟩ | ⟨s, rfl⟩ | rfl
          · simp [leaf_int]
          · simp [leaf_float]
          · simp [leaf_lpar]
        rw [hleaf, List.append_assoc]
        obtain ⟨hov, hstop, hvl⟩ := vartail_main hv rest (f'+1) hf (by omega)
        have hat : atoms (f'+1) (ts ++ (vts ++ rest)) [] = .ok ([] ++ a :: as, vts ++ rest) :=
          ihj (vts ++ rest) [] hstop (f'+1) (by simp; omega)
        simp only [List.nil_append] at hat
        cases vs with
        | nil =>
          simp only [List.append_nil] at hlen1 ⊢
          cases as with
          | nil => simp at hlen1
          | cons b more =>
            have hov' : optVariable (f'+1) (vts ++ rest) = .ok (none, vts ++ rest) := by
              have := hov; simp only [List.head?_nil] at this
              cases hv; simpa using this
            rw [imul_multi (f'+1) _ _ a b more hat hov', foldMul_eq]
            cases hv; rfl
        | cons v vs' =>
          have hvs' : vs' = [] := by cases vs' with
            | nil => rfl
            | cons _ _ => simp at hvl
          subst hvs'
          simp only [List.head?_cons] at hov
          cases as with
          | nil =>
            rw [imul_pair (f'+1) _ _ rest a v hat hov]
            simp [mulAll]
          | cons b more =>
            rw [imul_multi_var (f'+1) _ _ rest a b v more hat hov, foldMul_eq]
            simp
    have hne : 1 ≤ (ts ++ vts).length := by subst hts; simp
    exact ⟨main1_of_leaf hne h2, fun t' _ rest hf => h2 rest hf⟩
  | @Tk.call n args ats hn hnot ha => by
    have iha := args_main ha
    have hcl := args_close ha
    have h2 : ∀ rest, Follow rest →
        optUnary ((.word n :: .lpar :: ats ++ [.rpar]) ++ rest) = ([], (.word n :: .lpar :: ats ++ [.rpar]) ++ rest) ∧
          ∀ f, 6 * ((Tok.word n :: Tok.lpar :: ats ++ [Tok.rpar]).length + rest.length) + 8 ≤ f →
            leaf f ((.word n :: .lpar :: ats ++ [.rpar]) ++ rest) = .ok (.call n args, rest) := by
      intro rest hf
      refine ⟨optUnary_word hnot _, ?_⟩
      intro f hlen
      have hlen' : 6 * (ats.length + rest.length) + 26 ≤ f := by simp at hlen; omega
      obtain ⟨f', rfl⟩ : ∃ f', f = f' + 6 := ⟨f - 6, by omega⟩
      have hts : (Tok.word n :: Tok.lpar :: ats ++ [Tok.rpar]) ++ rest = .word n :: .lpar :: (ats ++ .rpar :: rest) := by simp
      rw [hts]
      have hsk : skipNl (ats ++ .rpar :: rest) = ats ++ .rpar :: rest := by
        cases ha with
        | nil => rfl
        | one hk => exact skipNl_start (tk_head hk) _
        | cons hk hr =>
          obtain ⟨tk, tl, h, hs⟩ := tk_head hk
          exact skipNl_start ⟨tk, tl ++ _, by rw [h]; rfl, hs⟩ _
      have hrej : scopedFn (f'+5) n (skipNl (ats ++ .rpar :: rest)) = .error .reject := by
        rw [hsk]
        apply scoped_rejects_call (rest := rest)
        · rw [hcl 0 (.rpar :: rest)]; rfl
        · exact follow_not_lbrace hf
        · simp; omega
      apply leaf_call hn hrej
      by_cases hne : args = []
      · subst hne
        have : ats = [] := by cases ha; rfl
        subst this
        exact args_nil (f'+1) rest
      · apply args_of_argStep
        have := iha hne rest [] (f'+4) (by simp; omega)
        simpa using this
    exact ⟨main1_of_leaf (by simp) h2, fun t' _ rest hf => h2 rest hf⟩
  | @Tk.arr ss hs => by
    have h2 : ∀ rest, Follow rest →
        optUnary ((.lbrack :: intArrToks ss) ++ rest) = ([], (.lbrack :: intArrToks ss) ++ rest) ∧
          ∀ f, 6 * ((Tok.lbrack :: intArrToks ss).length + rest.length) + 8 ≤ f →
            leaf f ((.lbrack :: intArrToks ss) ++ rest) =
              .ok (.prim (arrayText (ss.map fun s => String.ofList (natDigits (digitsToNat s.toList)))), rest) := by
      intro rest hf
      refine ⟨optUnary_plain (by simp [unRule, ruleOfTok, Tok.opSpelling]) _, ?_⟩
      intro f hlen
      obtain ⟨f', rfl⟩ : ∃ f', f = f' + 1 := ⟨f - 1, by omega⟩
      simp only [List.cons_append, leaf]
      exact arrayLeaf_ints ss hs rest
    exact ⟨main1_of_leaf (by simp) h2, fun t' _ rest hf => h2 rest hf⟩
  | @Tk.cvar n e es its hi => by
    have hnf := fun (rest : List Tok) (hf : Follow rest) => fnNameTail_idx hi hf n
    have h2 : ∀ rest, Follow rest →
        optUnary ((.word n :: its) ++ rest) = ([], (.word n :: its) ++ rest) ∧
          ∀ f, 6 * ((Tok.word n :: its).length + rest.length) + 8 ≤ f →
            leaf f ((.word n :: its) ++ rest) = .ok (.cvar n (e :: es), rest) := by
      intro rest hf
      obtain ⟨r0, hr0⟩ := idx_head hi
      constructor
      · subst hr0; simp [optUnary]
      · intro f hlen
        have hlen' : 6 * (its.length + rest.length) + 14 ≤ f := by simp at hlen; omega
        obtain ⟨f', rfl⟩ : ∃ f', f = f' + 2 := ⟨f - 2, by omega⟩
        rw [List.cons_append, leaf_via_wordRest (hnf rest hf)]
        have hidx := idx_main hi rest [] f' (fun tl => (follow_no_leaf hf tl).2.2.2) (by omega)
        subst hr0
        exact wordRest_cvar (by simpa using hidx)
    exact ⟨main1_of_leaf (by simp) h2, fun t' _ rest hf => h2 rest hf⟩
  | @Tk.access n e es its hnot hnu hi => by
    have h2 : ∀ rest, Follow rest →
        optUnary ((.word n :: its) ++ rest) = ([], (.word n :: its) ++ rest) ∧
          ∀ f, 6 * ((Tok.word n :: its).length + rest.length) + 8 ≤ f →
            leaf f ((.word n :: its) ++ rest) = .ok (.access n (e :: es), rest) := by
      intro rest hf
      obtain ⟨r0, hr0⟩ := acc_head hi
      refine ⟨optUnary_word hnot _, ?_⟩
      intro f hlen
      have hlen' : 6 * (its.length + rest.length) + 14 ≤ f := by simp at hlen; omega
      obtain ⟨f', rfl⟩ : ∃ f', f = f' + 2 := ⟨f - 2, by omega⟩
      have hacc := acc_main hi rest [] f' (fun tl => (follow_no_leaf hf tl).2.2.1) (by omega)
      subst hr0
      rw [List.cons_append, leaf_via_wordRest (by
        intro name r' h tl
        rw [List.cons_append, fnNameTail_stop n _ (by intro tl e; cases e)] at h
        injection h with _ h2; subst h2; exact ⟨by simp, by simp⟩)]
      exact wordRest_access hnu (by simpa using hacc)
    exact ⟨main1_of_leaf (by simp) h2, fun t' _ rest hf => h2 rest hf⟩
  | @Tk.block k e es ats hk hnot hcan hkind ha => by
    have iha := exps_main ha (by simp)
    have h2 : ∀ rest, Follow rest →
        optUnary ((.word k :: .lbrace :: ats ++ [.rbrace]) ++ rest) = ([], (.word k :: .lbrace :: ats ++ [.rbrace]) ++ rest) ∧
          ∀ f, 6 * ((Tok.word k :: Tok.lbrace :: ats ++ [Tok.rbrace]).length + rest.length) + 8 ≤ f →
            leaf f ((.word k :: .lbrace :: ats ++ [.rbrace]) ++ rest) = .ok (.block k (e :: es), rest) := by
      intro rest hf
      refine ⟨optUnary_word hnot _, ?_⟩
      intro f hlen
      have hlen' : 6 * (ats.length + rest.length) + 26 ≤ f := by simp at hlen; omega
      obtain ⟨f', rfl⟩ : ∃ f', f = f' + 1 := ⟨f - 1, by omega⟩
      have hts : (Tok.word k :: Tok.lbrace :: ats ++ [Tok.rbrace]) ++ rest = .word k :: .lbrace :: (ats ++ .rbrace :: rest) := by simp
      rw [hts]
      have hsk : skipNl (ats ++ .rbrace :: rest) = ats ++ .rbrace :: rest := skipNl_start (args_head ha) _
      have hex := iha rest [] f' (by omega)
      have := leaf_block (f := f') (k := k) (r := ats ++ .rbrace :: rest) (r' := .rbrace :: rest) (rest := rest) hk
        (by rw [hsk]; simpa using hex) rfl
      rw [hcan] at this
      exact this
    exact ⟨main1_of_leaf (by simp) h2, fun t' _ rest hf => h2 rest hf⟩
  | @Tk.scoped k vs its body its_ts bts items hk hnot hcan hkind hi hb => by
    have ihi := iters_main hi
    have ihb := tk_main hb
    have h2 : ∀ rest, Follow rest →
        optUnary ((.word k :: .lpar :: its_ts ++ .rpar :: .lbrace :: bts ++ [.rbrace]) ++ rest)
            = ([], (.word k :: .lpar :: its_ts ++ .rpar :: .lbrace :: bts ++ [.rbrace]) ++ rest) ∧
          ∀ f, 6 * ((Tok.word k :: Tok.lpar :: its_ts ++ Tok.rpar :: Tok.lbrace :: bts ++ [Tok.rbrace]).length + rest.length) + 8 ≤ f →
            leaf f ((.word k :: .lpar :: its_ts ++ .rpar :: .lbrace :: bts ++ [.rbrace]) ++ rest) = .ok (.scoped k vs its body, rest) := by
      intro rest hf
      refine ⟨optUnary_word hnot _, ?_⟩
      intro f hlen
      have hlen' : 6 * (its_ts.length + bts.length + rest.length) + 38 ≤ f := by simp at hlen; omega
      obtain ⟨f', rfl⟩ : ∃ f', f = f' + 2 := ⟨f - 2, by omega⟩
      have hts : (Tok.word k :: Tok.lpar :: its_ts ++ Tok.rpar :: Tok.lbrace :: bts ++ [Tok.rbrace]) ++ rest
          = .word k :: .lpar :: (its_ts ++ .rpar :: .lbrace :: (bts ++ .rbrace :: rest)) := by simp
      rw [hts]
      have hsk1 : skipNl (its_ts ++ .rpar :: .lbrace :: (bts ++ .rbrace :: rest)) = its_ts ++ .rpar :: .lbrace :: (bts ++ .rbrace :: rest) :=
        skipNl_start (iters_head hi) _
      have hsk2 : skipNl (bts ++ .rbrace :: rest) = bts ++ .rbrace :: rest := skipNl_start (tk_head hb) _
      have hil := ihi (.rpar :: .lbrace :: (bts ++ .rbrace :: rest)) [] [] f' (Or.inr ⟨_, _, rfl, Or.inl rfl⟩) (by simp; omega)
      have hpe : parseExp f' (bts ++ .rbrace :: rest) = .ok (body, .rbrace :: rest) :=
        parseExp_of_main ihb.1 hb.toIR (closed_rbrace rest) _ (by simp; omega)
      apply leaf_scoped hk
      rw [hsk1]
      simp only [scopedFn, hil, List.nil_append, skipNl, hsk2, hpe, hcan]
    exact ⟨main1_of_leaf (by simp) h2, fun t' _ rest hf => h2 rest hf⟩
theorem vartail_main {vs : List PExp} {vts : List Tok} : VarTail vs vts →
    ∀ (rest : List Tok) (f : Nat), Follow rest → 6 * (vts.length + rest.length) + 6 ≤ f →
      optVariable f (vts ++ rest) = .ok (vs.head?, if vs = [] then vts ++ rest else rest) ∧ StopsAtoms (vts ++ rest) ∧ vs.length ≤ 1
  | .none => by
    intro rest f hf hlen
    obtain ⟨f', rfl⟩ : ∃ f', f = f' + 1 := ⟨f - 1, by omega⟩
    exact ⟨by simpa using optVariable_follow hf f', by simpa using stopsAtoms_follow hf, by simp⟩
  | .var n hk => by
    intro rest f hf hlen
    obtain ⟨f', rfl⟩ : ∃ f', f = f' + 1 := ⟨f - 1, by omega⟩
    exact ⟨by simpa using optVariable_var hk hf, stopsAtoms_word n rest, by simp⟩
  | @VarTail.cvar n e es its hi => by
    have ih := idx_main hi
    intro rest f hf hlen
    obtain ⟨r0, hr0⟩ := idx_head hi
    obtain ⟨f', rfl⟩ : ∃ f', f = f' + 1 := ⟨f - 1, by omega⟩
    have hidx := ih rest [] f' (fun tl => (follow_no_leaf hf tl).2.2.2) (by simp at hlen; omega)
    subst hr0
    exact ⟨by simpa using optVariable_cvar (n := n) (by simpa using hidx), stopsAtoms_word n _, by simp⟩
theorem juxt_main {es : List PExp} {ts : List Tok} : Juxt es ts →
    ∀ (tail : List Tok) (acc : List PExp), StopsAtoms tail → ∀ f, 6 * (ts.length + tail.length) + 6 ≤ f →
      atoms f (ts ++ tail) acc = .ok (acc ++ es, tail)
  | .nil => by
    intro tail acc hs f hf
    obtain ⟨f', rfl⟩ : ∃ f', f = f' + 1 := ⟨f - 1, by omega⟩
    simpa using hs f' acc
  | @Juxt.int s es ts hs hj => by
    have ih := juxt_main hj
    intro tail acc hst f hf
    obtain ⟨f', rfl⟩ : ∃ f', f = f' + 1 := ⟨f - 1, by omega⟩
    rw [List.cons_append, atoms_int f' s _ acc]
    rw [ih tail _ hst f' (by simp at hf; omega)]
    simp
  | @Juxt.num s es ts hj => by
    have ih := juxt_main hj
    intro tail acc hst f hf
    obtain ⟨f', rfl⟩ : ∃ f', f = f' + 1 := ⟨f - 1, by omega⟩
    rw [List.cons_append, atoms_float]
    rw [ih tail _ hst f' (by simp at hf; omega)]
    simp
  | @Juxt.paren t inner items es ts hin hj => by
    have ihin := tk_main hin
    have ih := juxt_main hj
    intro tail acc hst f hf
    have hf' : 6 * (inner.length + ts.length + tail.length) + 18 ≤ f := by simp at hf; omega
    obtain ⟨f', rfl⟩ : ∃ f', f = f' + 1 := ⟨f - 1, by omega⟩
    have hcl : Closed (.rpar :: (ts ++ tail)) := closed_rpar _
    have hpe : parseExp f' (inner ++ .rpar :: (ts ++ tail)) = .ok (t, .rpar :: (ts ++ tail)) :=
      parseExp_of_main ihin.1 hin.toIR hcl _ (by simp; omega)
    have hts : (Tok.lpar :: inner ++ Tok.rpar :: ts) ++ tail = .lpar :: (inner ++ .rpar :: (ts ++ tail)) := by simp
    rw [hts, atoms_lpar f' _ _ acc t hpe, ih tail _ hst f' (by omega)]
    simp
theorem args_main {es : List PExp} {ats : List Tok} : Args es ats → es ≠ [] →
    ∀ (rest : List Tok) (acc : List PExp) (f : Nat), 6 * (ats.length + 1 + rest.length) + 10 ≤ f →
      argStep f (ats ++ .rpar :: rest) acc = .ok (acc ++ es, rest)
  | .nil => by intro h; exact absurd rfl h
  | @Args.one a ts items hin => by
    have ih := tk_main hin
    intro _ rest acc f hf
    have hcl : Closed (.rpar :: rest) := closed_rpar rest
    have hpe := parseExp_of_main ih.1 hin.toIR hcl f (by simp; omega)
    rw [argStep_of_parse hpe]
    obtain ⟨f', rfl⟩ : ∃ f', f = f' + 1 := ⟨f - 1, by omega⟩
    exact argsTail_rpar f' rest _
  | @Args.cons a b bs ts ts' items hin hrest => by
    have ih := tk_main hin
    have ihr := args_main hrest (by simp)
    intro _ rest acc f hf
    have hf' : 6 * (ts.length + ts'.length + rest.length) + 22 ≤ f := by simp at hf; omega
    have hcl : Closed (.comma :: (ts' ++ .rpar :: rest)) := closed_comma _
    have hts : (ts ++ Tok.comma :: ts') ++ Tok.rpar :: rest = ts ++ .comma :: (ts' ++ .rpar :: rest) := by simp
    have hpe := parseExp_of_main ih.1 hin.toIR hcl f (by simp; omega)
    rw [hts, argStep_of_parse hpe]
    obtain ⟨f', rfl⟩ : ∃ f', f = f' + 1 := ⟨f - 1, by omega⟩
    rw [argsTail_comma (skipNl_start (args_head hrest) _) (ihr rest (acc ++ [a]) f' (by omega))]
    simp
theorem exps_main {es : List PExp} {ats : List Tok} : Args es ats → es ≠ [] →
    ∀ (rest : List Tok) (acc : List PExp) (f : Nat), 6 * (ats.length + 1 + rest.length) + 11 ≤ f →
      expList f (ats ++ .rbrace :: rest) acc = .ok (acc ++ es, .rbrace :: rest)
  | .nil => by intro h; exact absurd rfl h
  | @Args.one a ts items hin => by
    have ih := tk_main hin
    intro _ rest acc f hf
    obtain ⟨f', rfl⟩ : ∃ f', f = f' + 1 := ⟨f - 1, by omega⟩
    have hpe := parseExp_of_main ih.1 hin.toIR (closed_rbrace rest) f' (by simp; omega)
    simp [expList, hpe]
  | @Args.cons a b bs ts ts' items hin hrest => by
    have ih := tk_main hin
    have ihr := exps_main hrest (by simp)
    intro _ rest acc f hf
    have hf' : 6 * (ts.length + ts'.length + rest.length) + 23 ≤ f := by simp at hf; omega
    obtain ⟨f', rfl⟩ : ∃ f', f = f' + 1 := ⟨f - 1, by omega⟩
    have hts : (ts ++ Tok.comma :: ts') ++ Tok.rbrace :: rest = ts ++ .comma :: (ts' ++ .rbrace :: rest) := by simp
    have hpe := parseExp_of_main ih.1 hin.toIR (closed_comma (ts' ++ .rbrace :: rest)) f' (by simp; omega)
    rw [hts]
    simp only [expList, hpe, skipNl_start (args_head hrest) _]
    rw [ihr rest (acc ++ [a]) f' (by omega)]
    simp
theorem idx_main {es : List PExp} {its : List Tok} : Idx es its →
    ∀ (rest : List Tok) (acc : List PExp) (f : Nat), (∀ tl, rest ≠ .us :: tl) → 6 * (its.length + rest.length) + 6 ≤ f →
      indexLoop f (its ++ rest) acc = .ok (acc ++ es, rest)
  | .nil => by
    intro rest acc f hf hlen
    obtain ⟨f', rfl⟩ : ∃ f', f = f' + 1 := ⟨f - 1, by omega⟩
    cases rest with
    | nil => simp [indexLoop]
    | cons tk tl => cases tk <;> first | exact absurd rfl (hf tl) | simp [indexLoop]
  | @Idx.var i es ts hi => by
    have ih := idx_main hi
    intro rest acc f hf hlen
    obtain ⟨f', rfl⟩ : ∃ f', f = f' + 1 := ⟨f - 1, by omega⟩
    simp only [List.cons_append, indexLoop]
    rw [ih rest _ f' hf (by simp at hlen; omega)]
    simp
  | @Idx.int s es ts hs hi => by
    have ih := idx_main hi
    intro rest acc f hf hlen
    obtain ⟨f', rfl⟩ : ∃ f', f = f' + 1 := ⟨f - 1, by omega⟩
    simp only [List.cons_append, indexLoop, intLeaf]
    rw [ih rest _ f' hf (by simp at hlen; omega)]
    simp
  | @Idx.brace e ets items es ts he hi => by
    have ihe := tk_main he
    have ih := idx_main hi
    intro rest acc f hf hlen
    have hlen' : 6 * (ets.length + ts.length + rest.length) + 24 ≤ f := by simp at hlen; omega
    obtain ⟨f', rfl⟩ : ∃ f', f = f' + 1 := ⟨f - 1, by omega⟩
    have hts : (Tok.us :: Tok.lbrace :: ets ++ Tok.rbrace :: ts) ++ rest = .us :: .lbrace :: (ets ++ .rbrace :: (ts ++ rest)) := by simp
    have hpe := parseExp_of_main ihe.1 he.toIR (closed_rbrace (ts ++ rest)) f' (by simp; omega)
    rw [hts]
    simp only [indexLoop, skipNl_start (tk_head he) _, hpe, skipNl]
    rw [ih rest _ f' hf (by omega)]
    simp
theorem acc_main {es : List PExp} {its : List Tok} : Acc es its →
    ∀ (rest : List Tok) (acc : List PExp) (f : Nat), (∀ tl, rest ≠ .lbrack :: tl) → 6 * (its.length + rest.length) + 6 ≤ f →
      accessLoop f (its ++ rest) acc = .ok (acc ++ es, rest)
  | .nil => by
    intro rest acc f hf hlen
    obtain ⟨f', rfl⟩ : ∃ f', f = f' + 1 := ⟨f - 1, by omega⟩
    cases rest with
    | nil => simp [accessLoop]
    | cons tk tl => cases tk <;> first | exact absurd rfl (hf tl) | simp [accessLoop]
  | @Acc.cons e ets items es ts he hi => by
    have ihe := tk_main he
    have ih := acc_main hi
    intro rest acc f hf hlen
    have hlen' : 6 * (ets.length + ts.length + rest.length) + 18 ≤ f := by simp at hlen; omega
    obtain ⟨f', rfl⟩ : ∃ f', f = f' + 1 := ⟨f - 1, by omega⟩
    have hts : (Tok.lbrack :: ets ++ Tok.rbrack :: ts) ++ rest = .lbrack :: (ets ++ .rbrack :: (ts ++ rest)) := by simp
    have hpe := parseExp_of_main ihe.1 he.toIR (closed_rbrack (ts ++ rest)) f' (by simp; omega)
    rw [hts]
    simp only [accessLoop, hpe]
    rw [ih rest _ f' hf (by omega)]
    simp
theorem iters_main {vs : List IterVar} {es : List PExp} {ts : List Tok} : Iters vs es ts →
    ∀ (rest : List Tok) (accv : List IterVar) (acci : List PExp) (f : Nat), IterEnd rest → 6 * (ts.length + rest.length) + 7 ≤ f →
      iterList f (ts ++ rest) accv acci = .ok ((accv ++ vs, acci ++ es), rest)
  | @Iters.one v vts inw e ets hv hin hi => by
    have ihi := iter_main hi
    intro rest accv acci f he hlen
    have hv1 := iterHead_len hv
    have hlen' : 6 * (vts.length + ets.length + rest.length) + 13 ≤ f := by simp at hlen; omega
    obtain ⟨f', rfl⟩ : ∃ f', f = f' + 2 := ⟨f - 2, by omega⟩
    have hit := ihi rest f' he.stop (by omega)
    have hd := iterDecl_head hv hin hit
    have hts : (vts ++ Tok.word inw :: ets) ++ rest = vts ++ .word inw :: (ets ++ rest) := by simp
    rw [hts, iterList_last hd he]
  | @Iters.cons v vts inw e ets vs es ts hv hin hi hr => by
    have ihi := iter_main hi
    have ihr := iters_main hr
    intro rest accv acci f he hlen
    have hv1 := iterHead_len hv
    have hlen' : 6 * (vts.length + ets.length + ts.length + rest.length) + 19 ≤ f := by simp at hlen; omega
    obtain ⟨f', rfl⟩ : ∃ f', f = f' + 2 := ⟨f - 2, by omega⟩
    have hit := ihi (.comma :: (ts ++ rest)) f' (iterStop_comma _) (by simp; omega)
    have hd := iterDecl_head hv hin hit
    have hts : (vts ++ Tok.word inw :: ets ++ Tok.comma :: ts) ++ rest = vts ++ .word inw :: (ets ++ .comma :: (ts ++ rest)) := by simp
    rw [hts, iterList_step hd, skipNl_start (iters_head hr) _, ihr rest _ _ (f'+1) he (by omega)]
    simp
theorem iter_main {e : PExp} {ets : List Tok} : Iter e ets →
    ∀ (rest : List Tok) (f : Nat), IterStop rest → 6 * (ets.length + rest.length) + 11 ≤ f →
      iterator f (ets ++ rest) = .ok (e, rest)
  | @Iter.range a b ta tb ia ib incl ha hb => by
    have iha := tk_main ha
    have ihb := tk_main hb
    intro rest f hs hlen
    have hlen' : 6 * (ta.length + tb.length + rest.length) + 17 ≤ f := by simp at hlen; omega
    obtain ⟨f', rfl⟩ : ∃ f', f = f' + 1 := ⟨f - 1, by omega⟩
    have hcl : Closed ((if incl then Tok.dotdoteq else Tok.dotdot) :: (tb ++ rest)) := by
      cases incl
      · exact closed_dotdot _
      · exact closed_dotdoteq _
    have hpa := parseExp_of_main iha.1 ha.toIR hcl f' (by simp; omega)
    have hpb := parseExp_of_main ihb.1 hb.toIR hs.closed f' (by omega)
    have hts : (ta ++ (if incl then Tok.dotdoteq else Tok.dotdot) :: tb) ++ rest
        = ta ++ (if incl then Tok.dotdoteq else Tok.dotdot) :: (tb ++ rest) := by simp
    rw [hts]
    exact iterator_range incl hpa hpb
  | @Iter.set e ts items h => by
    have ih := tk_main h
    intro rest f hs hlen
    obtain ⟨f', rfl⟩ : ∃ f', f = f' + 1 := ⟨f - 1, by omega⟩
    exact iterator_set (parseExp_of_main ih.1 h.toIR hs.closed f' (by omega)) hs
end

/-! ### the AST builders accept what a rendering reads as -/

theorem buildErr_mulAll (rest : List PExp) : ∀ a : PExp, buildErr a = none → buildErrList rest = none →
    buildErr (mulAll a rest) = none := by
  induction rest with
  | nil => intro a ha _; simpa [mulAll] using ha
  | cons e es ih =>
    intro a ha hr
    simp only [buildErrList] at hr
    cases he : buildErr e with
    | some x => simp [he] at hr
    | none =>
      simp only [he] at hr
      simp only [mulAll, List.foldl_cons]
      exact ih _ (by simp [buildErr, ha, he]) hr

theorem buildErrList_append (xs ys : List PExp) (hx : buildErrList xs = none) (hy : buildErrList ys = none) :
    buildErrList (xs ++ ys) = none := by
  induction xs with
  | nil => simpa using hy
  | cons x xs ih =>
    simp only [buildErrList] at hx
    cases hx' : buildErr x with
    | some e => simp [hx'] at hx
    | none =>
      simp only [hx'] at hx
      simp [buildErrList, hx', ih hx]

theorem buildErrList_cons {e : PExp} {es : List PExp} (h1 : buildErr e = none) (h2 : buildErrList es = none) :
    buildErrList (e :: es) = none := by simp [buildErrList, h1, h2]

mutual
/-- a rendering only carries integer literals that fit `i64`, known block kinds with the right number of members:
the AST-building phase accepts the tree -/
theorem tk_valid {t : PExp} {ts : List Tok} {items : List Item} : Tk t ts items → buildErr t = none
  | .atom ha => by
    cases ha with
    | int s hs => simp [buildErr, hs]
    | num s => simp [buildErr]
    | tt => simp [buildErr]
    | ff => simp [buildErr]
    | var n _ => simp [buildErr]
    | str s => simp [buildErr]
  | .paren h => tk_valid h
  | .un h _ => by have := tk_valid h; simpa [buildErr] using this
  | .bin hl hr _ _ _ => by have h1 := tk_valid hl; have h2 := tk_valid hr; simp [buildErr, h1, h2]
  | @Tk.imul a as vs ts vts hj hv _ => by
    have h1 := juxt_valid hj
    have h2 := varTail_valid hv
    simp only [buildErrList] at h1
    cases ha : buildErr a with
    | some x => simp [ha] at h1
    | none =>
      simp only [ha] at h1
      exact buildErr_mulAll _ _ ha (buildErrList_append _ _ h1 h2)
  | .call _ _ ha => by have := args_valid ha; simpa [buildErr] using this
  | .arr _ => by simp [buildErr]
  | .cvar hi => by have := idx_valid hi; simpa [buildErr] using this
  | .access _ _ hi => by have := acc_valid hi; simpa [buildErr] using this
  | .block _ _ _ hk ha => by
    have := args_valid ha
    simp only [List.length_cons] at hk
    simp [buildErr, this, hk]
  | .scoped _ _ _ hk hi hb => by
    have h1 := iters_valid hi; have h2 := tk_valid hb
    simp [buildErr, h1, h2, hk]
theorem varTail_valid {vs : List PExp} {vts : List Tok} : VarTail vs vts → buildErrList vs = none
  | .none => rfl
  | .var n _ => by simp [buildErrList, buildErr]
  | .cvar hi => by
    have := idx_valid hi
    simp only [buildErrList, buildErr]
    simp only [buildErrList] at this
    rw [this]
theorem juxt_valid {es : List PExp} {ts : List Tok} : Juxt es ts → buildErrList es = none
  | .nil => rfl
  | .int hs hj => by have := juxt_valid hj; simp [buildErrList, buildErr, hs, this]
  | .num hj => by have := juxt_valid hj; simp [buildErrList, buildErr, this]
  | .paren hin hj => buildErrList_cons (tk_valid hin) (juxt_valid hj)
theorem args_valid {es : List PExp} {ts : List Tok} : Args es ts → buildErrList es = none
  | .nil => rfl
  | .one h => buildErrList_cons (tk_valid h) rfl
  | .cons h hr => buildErrList_cons (tk_valid h) (args_valid hr)
theorem idx_valid {es : List PExp} {ts : List Tok} : Idx es ts → buildErrList es = none
  | .nil => rfl
  | .var hi => by have := idx_valid hi; simp [buildErrList, buildErr, this]
  | .int hs hi => by have := idx_valid hi; simp [buildErrList, buildErr, hs, this]
  | .brace he hi => buildErrList_cons (tk_valid he) (idx_valid hi)
theorem acc_valid {es : List PExp} {ts : List Tok} : Acc es ts → buildErrList es = none
  | .nil => rfl
  | .cons he hi => buildErrList_cons (tk_valid he) (acc_valid hi)
theorem iters_valid {vs : List IterVar} {es : List PExp} {ts : List Tok} : Iters vs es ts → buildErrList es = none
  | .one _ _ hi => buildErrList_cons (iter_valid hi) rfl
  | .cons _ _ hi hr => buildErrList_cons (iter_valid hi) (iters_valid hr)
theorem iter_valid {e : PExp} {ts : List Tok} : Iter e ts → buildErr e = none
  | .range ha hb => by have h1 := tk_valid ha; have h2 := tk_valid hb; simp [buildErr, buildErrList, h1, h2]
  | .set h => tk_valid h
end

/-- **General round trip**, PEG phase -/
theorem parseRaw_tk {t : PExp} {ts : List Tok} {items : List Item} (h : Tk t ts items) : parseToksRaw ts = .ok t := by
  have := parseExp_of_main (tk_main h).1 h.toIR (rest := []) (Or.inl rfl) (parseFuel ts) (by simp [parseFuel])
  simp [parseToksRaw, List.append_nil] at this ⊢
  simp [this]

/-- **General round trip**: any token rendering with a superset of the needed parentheses, any spelling of
the operators, implicit products, calls, compound variables, array accesses, block functions and scoped blocks,
parses to the tree it renders. -/
theorem parse_tk {t : PExp} {ts : List Tok} {items : List Item} (h : Tk t ts items) : parseToks ts = .ok t := by
  simp [parseToks, parseRaw_tk h, tk_valid h]

/-! ### the word a rendering may begin with -/

/-- the word the leftmost leaf of a tree is written with (`none`: a number, a string, an array, a sign) -/
def headName : PExp → Option String
  | .var n => some n
  | .bool b => some (if b then "true" else "false")
  | .cvar n _ | .access n _ | .call n _ | .block n _ | .scoped n _ _ _ => some n
  | .bin _ l _ => headName l
  | .un .not _ => some "not"
  | _ => none

/-- a rendering that begins with a word begins with the word of its leftmost leaf -/
theorem tk_head_word {t : PExp} {ts : List Tok} {items : List Item} : Tk t ts items → ∀ (w : String) (tl : List Tok),
    ts = .word w :: tl → headName t = some w
  | .atom ha, w, tl, h => by
    cases ha <;> first | (cases h; done) | (injection h with h1 _; injection h1 with h1; subst h1; simp [headName])
  | .paren _, w, tl, h => by cases h
  | @Tk.un u e ts utok hin hm, w, tl, h => by
    injection h with h1 _
    subst h1
    cases u with
    | neg => simp [unToks] at hm
    | not =>
      simp only [unToks, List.mem_cons, List.not_mem_nil, or_false] at hm
      rcases hm with hm | hm
      · injection hm with hm; subst hm; simp [headName]
      · cases hm
  | @Tk.bin o l r L R il ir optok hl hr _ _ hm, w, tl, h => by
    obtain ⟨tk, tl', ht, _⟩ := tk_head hl
    rw [ht] at h
    simp only [List.cons_append] at h
    injection h with h1 _
    subst h1
    exact tk_head_word hl w tl' ht
  | .imul hj _ _, w, tl, h => by
    obtain ⟨tk, tl', ht, hk⟩ := juxt_head hj
    rw [ht] at h
    simp only [List.cons_append] at h
    injection h with h1 _
    rcases hk with ⟨s, rfl⟩ | ⟨s, rfl⟩ | rfl <;> cases h1
  | .call _ _ _, w, tl, h => by injection h with h1 _; injection h1 with h1; subst h1; rfl
  | .arr _, w, tl, h => by cases h
  | .cvar _, w, tl, h => by injection h with h1 _; injection h1 with h1; subst h1; rfl
  | .access _ _ _, w, tl, h => by injection h with h1 _; injection h1 with h1; subst h1; rfl
  | .block _ _ _ _ _, w, tl, h => by injection h with h1 _; injection h1 with h1; subst h1; rfl
  | .scoped _ _ _ _ _ _, w, tl, h => by injection h with h1 _; injection h1 with h1; subst h1; rfl

end Rooc.Syntax.Proofs
