/-
Helper lemmas for C09/C11: the token-level reading of the `exp` PEG fragment
(`Rooc/Syntax/Parse.lean`) on renderings.  `Tk t ts items` — "the token list `ts` renders `t`, with any
spelling of the operators and a superset of the needed parentheses, and `items` are the pest pairs it is
grouped into"; `parse_tk : Tk t ts items → parseToks ts = .ok t`.
-/
import Rooc.Proofs.Pratt
namespace Rooc.Syntax.Proofs
open Rooc Rooc.Syntax Rooc.Syntax.Doc

/-- every spelling of a binary operator -/
def binToks : BinOp → List Tok
  | .add => [.plus]
  | .sub => [.minus]
  | .mul => [.star]
  | .div => [.slash]
  | .and => [.word "and", .ampamp]
  | .or => [.word "or", .barbar]
  | .xor => [.word "xor"]
  | .implies => [.word "implies", .arrow]
  | .iff => [.word "iff", .darrow]
/-- every spelling of a prefix operator -/
def unToks : UnOp → List Tok
  | .neg => [.minus]
  | .not => [.word "not", .bang]

theorem binRule_of_mem {o : BinOp} {tk : Tok} (h : tk ∈ binToks o) : binRule tk = some (docRule o) := by
  cases o <;> simp only [binToks, List.mem_cons, List.mem_singleton, List.not_mem_nil, or_false] at h <;>
    (first | (subst h; decide) | (rcases h with h | h <;> subst h <;> decide))
theorem unRule_of_mem {u : UnOp} {tk : Tok} (h : tk ∈ unToks u) : unRule tk = some (docUnRule u) := by
  cases u <;> simp only [unToks, List.mem_cons, List.mem_singleton, List.not_mem_nil, or_false] at h <;>
    (first | (subst h; decide) | (rcases h with h | h <;> subst h <;> decide))

theorem unRule_word {w : String} (h : w ≠ "not") : unRule (.word w) = none := by
  have h' : ¬ "not" = w := fun e => h e.symm
  simp [unRule, ruleOfTok, Tok.opSpelling, Gen.unaryOpAlts, spells, Gen.opSpellings, h']

/-- single-token leaves -/
inductive Atom : PExp → Tok → Prop
  | int (s : String) : digitsToNat s.toList ≤ i64Max → Atom (.int (digitsToNat s.toList)) (.int s)
  | num (s : String) : Atom (.num s) (.float s)
  | tt : Atom (.bool true) (.word "true")
  | ff : Atom (.bool false) (.word "false")
  | var (n : String) : isKeyword n = false → Atom (.var n) (.word n)

/-- product of implicitly multiplied pieces: the left fold of `Rule::implicit_mul` -/
def mulAll (a : PExp) (rest : List PExp) : PExp := rest.foldl (fun acc e => .bin .mul acc e) a

/-- optional variable that closes an implicit product -/
inductive VarTail : List PExp → List Tok → Prop
  | none : VarTail [] []
  | var (n : String) : isKeyword n = false → VarTail [.var n] [.word n]

mutual
/-- `Tk t ts items`: the token list `ts` is a rendering of `t` — any spelling of the operators, a superset
of the needed parentheses, implicit products, calls — and `items` are the pest pairs it is grouped into. -/
inductive Tk : PExp → List Tok → List Item → Prop
  | atom {a : PExp} {tk : Tok} : Atom a tk → Tk a [tk] [.leaf a]
  | paren {t : PExp} {ts : List Tok} {items : List Item} : Tk t ts items → Tk t (.lpar :: ts ++ [.rpar]) [.leaf t]
  | un {u : UnOp} {e : PExp} {ts : List Tok} {utok : Tok} : Tk e ts [.leaf e] → utok ∈ unToks u →
      Tk (.un u e) (utok :: ts) [.op (docUnRule u), .leaf e]
  | bin {o : BinOp} {l r : PExp} {L R : List Tok} {il ir : List Item} {optok : Tok} :
      Tk l L il → Tk r R ir →
      (il = [.leaf l] ∨ needParenLeft o l = false) → (ir = [.leaf r] ∨ needParenRight o r = false) →
      optok ∈ binToks o → Tk (.bin o l r) (L ++ optok :: R) (il ++ .op (docRule o) :: ir)
  /-- implicit multiplication: numbers / parenthesised groups written next to each other, optionally closed
  by a variable, at least two pieces: ONE leaf pair -/
  | imul {a : PExp} {as vs : List PExp} {ts vts : List Tok} : Juxt (a :: as) ts → VarTail vs vts →
      1 ≤ (as ++ vs).length → Tk (mulAll a (as ++ vs)) (ts ++ vts) [.leaf (mulAll a (as ++ vs))]
  /-- function call -/
  | call {n : String} {args : List PExp} {ats : List Tok} : isFunctionName n = true → n ≠ "not" → Args args ats →
      Tk (.call n args) (.word n :: .lpar :: ats ++ [.rpar]) [.leaf (.call n args)]
/-- juxtaposed pieces of an implicit product -/
inductive Juxt : List PExp → List Tok → Prop
  | nil : Juxt [] []
  | int {s : String} {es : List PExp} {ts : List Tok} : digitsToNat s.toList ≤ i64Max → Juxt es ts →
      Juxt (.int (digitsToNat s.toList) :: es) (.int s :: ts)
  | num {s : String} {es : List PExp} {ts : List Tok} : Juxt es ts → Juxt (.num s :: es) (.float s :: ts)
  | paren {t : PExp} {inner : List Tok} {items : List Item} {es : List PExp} {ts : List Tok} :
      Tk t inner items → Juxt es ts → Juxt (t :: es) (.lpar :: inner ++ .rpar :: ts)
/-- comma separated arguments -/
inductive Args : List PExp → List Tok → Prop
  | nil : Args [] []
  | one {a : PExp} {ts : List Tok} {items : List Item} : Tk a ts items → Args [a] ts
  | cons {a b : PExp} {bs : List PExp} {ts ts' : List Tok} {items : List Item} :
      Tk a ts items → Args (b :: bs) ts' → Args (a :: b :: bs) (ts ++ .comma :: ts')
end

theorem Tk.toIR {t : PExp} {ts : List Tok} {items : List Item} : Tk t ts items → IR t items
  | .atom _ => .leaf _
  | .paren _ => .leaf _
  | .un _ _ => .un _ _
  | .imul _ _ _ => .leaf _
  | .call _ _ _ => .leaf _
  | .bin hl hr hpl hpr _ => .bin _ _ _ _ _ (Tk.toIR hl) (Tk.toIR hr) hpl hpr

/-- tokens that end an expression: `)`, `,`, and at program level NEWLINE and the comparisons -/
def isTerm : Tok → Bool
  | .rpar | .comma | .nl | .le | .ge | .eq | .lt | .gt => true
  | _ => false

/-- what may follow a complete operand: nothing, a terminator or a binary operator -/
def Follow (rest : List Tok) : Prop :=
  rest = [] ∨ ∃ tk tl, rest = tk :: tl ∧ (isTerm tk = true ∨ ∃ o, tk ∈ binToks o)

/-- what may follow a complete expression: nothing or a terminator -/
def Closed (rest : List Tok) : Prop :=
  rest = [] ∨ ∃ tk tl, rest = tk :: tl ∧ isTerm tk = true

theorem Closed.follow {rest : List Tok} (h : Closed rest) : Follow rest := by
  rcases h with h | ⟨tk, tl, h, h'⟩
  · exact Or.inl h
  · exact Or.inr ⟨tk, tl, h, Or.inl h'⟩

theorem closed_of_term {tk : Tok} (h : isTerm tk = true) (tl : List Tok) : Closed (tk :: tl) :=
  Or.inr ⟨tk, tl, rfl, h⟩
theorem closed_rpar (tl : List Tok) : Closed (.rpar :: tl) := closed_of_term rfl tl
theorem closed_comma (tl : List Tok) : Closed (.comma :: tl) := closed_of_term rfl tl
theorem closed_nl (tl : List Tok) : Closed (.nl :: tl) := closed_of_term rfl tl

theorem follow_of_mem {o : BinOp} {tk : Tok} (h : tk ∈ binToks o) (tl : List Tok) : Follow (tk :: tl) :=
  Or.inr ⟨tk, tl, rfl, Or.inr ⟨o, h⟩⟩

/-! ### facts about the tokens that may follow an operand -/

theorem follow_cases {rest : List Tok} (h : Follow rest) :
    rest = [] ∨ (∃ tk tl, rest = tk :: tl ∧ isTerm tk = true) ∨
      (∃ tk tl o, rest = tk :: tl ∧ tk ∈ binToks o) := by
  rcases h with h | ⟨tk, tl, h, h' | ⟨o, h'⟩⟩
  · exact Or.inl h
  · exact Or.inr (Or.inl ⟨tk, tl, h, h'⟩)
  · exact Or.inr (Or.inr ⟨tk, tl, o, h, h'⟩)

/-- an operator token is no number, no `(`, and if it is a word it is a keyword -/
theorem binTok_shape {o : BinOp} {tk : Tok} (h : tk ∈ binToks o) :
    (∀ s, tk ≠ .int s) ∧ (∀ s, tk ≠ .float s) ∧ tk ≠ .lpar ∧ (∀ w, tk = .word w → isKeyword w = true) := by
  cases o <;> simp only [binToks, List.mem_cons, List.not_mem_nil, or_false] at h <;>
    (first | (subst h; refine ⟨by intro s; simp, by intro s; simp, by simp, ?_⟩; intro w hw; first | (cases hw; decide) | (cases hw))
           | (rcases h with h | h <;> subst h <;> (refine ⟨by intro s; simp, by intro s; simp, by simp, ?_⟩; intro w hw; first | (cases hw; decide) | (cases hw))))

theorem atoms_follow {rest : List Tok} (h : Follow rest) (f : Nat) (acc : List PExp) :
    atoms (f+1) rest acc = .ok (acc, rest) := by
  rcases follow_cases h with h | ⟨tk, tl, h, ht⟩ | ⟨tk, tl, o, h, hm⟩ <;> subst h
  · simp [atoms]
  · cases tk <;> simp_all [atoms, isTerm]
  · obtain ⟨h1, h2, h3, _⟩ := binTok_shape hm
    cases tk <;> simp_all [atoms]

theorem optVariable_follow {rest : List Tok} (h : Follow rest) : optVariable rest = (none, rest) := by
  rcases follow_cases h with h | ⟨tk, tl, h, ht⟩ | ⟨tk, tl, o, h, hm⟩ <;> subst h
  · simp [optVariable]
  · cases tk <;> simp_all [optVariable, isTerm]
  · obtain ⟨_, _, _, h4⟩ := binTok_shape hm
    cases tk <;> simp_all [optVariable]

theorem follow_not_lpar {rest : List Tok} (h : Follow rest) : ∀ tl, rest ≠ .lpar :: tl := by
  intro tl e
  rcases follow_cases h with h | ⟨tk, tl', h, ht⟩ | ⟨tk, tl', o, h, hm⟩ <;> rw [e] at h
  · cases h
  · injection h with h1 h2; subst h1; simp [isTerm] at ht
  · injection h with h1 h2; subst h1
    exact (binTok_shape hm).2.2.1 rfl

/-! ### leaves -/

theorem optUnary_atom {a : PExp} {tk : Tok} (h : Atom a tk) (rest : List Tok) :
    optUnary (tk :: rest) = ([], tk :: rest) := by
  cases h with
  | int s _ => simp [optUnary, unRule, ruleOfTok, Tok.opSpelling]
  | num s => simp [optUnary, unRule, ruleOfTok, Tok.opSpelling]
  | tt => simp [optUnary, unRule_word (w := "true") (by decide)]
  | ff => simp [optUnary, unRule_word (w := "false") (by decide)]
  | var n hk =>
    have : n ≠ "not" := by intro e; subst e; exact absurd hk (by decide)
    simp [optUnary, unRule_word this]

theorem atoms_int (f : Nat) (s : String) (r : List Tok) (acc : List PExp) :
    atoms (f+1) (.int s :: r) acc = atoms f r (acc ++ [.int (digitsToNat s.toList)]) := by
  simp [atoms, intLeaf]
theorem atoms_float (f : Nat) (s : String) (r : List Tok) (acc : List PExp) :
    atoms (f+1) (.float s :: r) acc = atoms f r (acc ++ [.num s]) := by
  simp [atoms]
theorem atoms_lpar (f : Nat) (r r' : List Tok) (acc : List PExp) (t : PExp)
    (h : parseExp f r = .ok (t, .rpar :: r')) :
    atoms (f+1) (.lpar :: r) acc = atoms f r' (acc ++ [t]) := by
  simp [atoms, h]
theorem imul_single (f : Nat) (toks rest : List Tok) (a : PExp)
    (h : atoms f toks [] = .ok ([a], rest)) (hv : optVariable rest = (none, rest)) :
    imulOrSingle (f+1) toks = .ok (a, rest) := by
  simp [imulOrSingle, h, hv]
theorem leaf_int (f : Nat) (s : String) (r : List Tok) : leaf (f+1) (.int s :: r) = imulOrSingle f (.int s :: r) := by
  simp [leaf]
theorem leaf_float (f : Nat) (s : String) (r : List Tok) : leaf (f+1) (.float s :: r) = imulOrSingle f (.float s :: r) := by
  simp [leaf]
theorem leaf_lpar (f : Nat) (r : List Tok) : leaf (f+1) (.lpar :: r) = imulOrSingle f (.lpar :: r) := by
  simp [leaf]
theorem leaf_word (f : Nat) (w : String) (r : List Tok) (h : ∀ tl, r ≠ .lpar :: tl) :
    leaf (f+1) (.word w :: r) = wordLeaf w r := by
  cases r with
  | nil => simp [leaf]
  | cons tk tl =>
    cases tk <;> first | exact absurd rfl (h tl) | simp [leaf]

theorem not_boolean_of_not_keyword {n : String} (h : isKeyword n = false) : Gen.booleanWords.contains n = false := by
  by_cases h1 : n = "true"
  · subst h1; exact absurd h (by decide)
  · by_cases h2 : n = "false"
    · subst h2; exact absurd h (by decide)
    · simp [Gen.booleanWords, h1, h2]

theorem leaf_atom {a : PExp} {tk : Tok} (h : Atom a tk) {rest : List Tok} (hf : Follow rest) (f : Nat) :
    leaf (f+4) (tk :: rest) = .ok (a, rest) := by
  cases h with
  | int s hs =>
    rw [leaf_int]
    apply imul_single _ _ _ _ _ (optVariable_follow hf)
    rw [atoms_int (f+1) s rest []]
    exact atoms_follow hf f _
  | num s =>
    rw [leaf_float]
    apply imul_single _ _ _ _ _ (optVariable_follow hf)
    rw [atoms_float]
    exact atoms_follow hf f _
  | tt => rw [leaf_word _ _ _ (follow_not_lpar hf)]; simp [wordLeaf, Gen.booleanWords]
  | ff => rw [leaf_word _ _ _ (follow_not_lpar hf)]; simp [wordLeaf, Gen.booleanWords]
  | var n hk =>
    rw [leaf_word _ _ _ (follow_not_lpar hf)]
    have hb := not_boolean_of_not_keyword hk
    simp only [wordLeaf, hb, hk]
    rfl

/-! ### the `exp` rule: `[prefix] leaf (operator [prefix] leaf)*` -/

/-- parse `[prefix] leaf`, then go on with the repetition -/
def stepC (f : Nat) (toks : List Tok) (acc : List Item) : PRes (List Item × List Tok) :=
  match leaf f (optUnary toks).2 with
  | .error e => .error e
  | .ok (t, rest) => collectLoop f rest (acc ++ (optUnary toks).1 ++ [.leaf t])

theorem stepC_of_leaf {f : Nat} {toks rest : List Tok} {acc : List Item} {t : PExp}
    (h : leaf f (optUnary toks).2 = .ok (t, rest)) :
    stepC f toks acc = collectLoop f rest (acc ++ (optUnary toks).1 ++ [.leaf t]) := by
  simp [stepC, h]

theorem collect_eq_stepC (f : Nat) (toks : List Tok) : collect (f+1) toks = stepC f toks [] := by
  simp only [collect, stepC, List.nil_append]
  cases leaf f (optUnary toks).2 with
  | error e => rfl
  | ok p => rfl

theorem collectLoop_of_stepC {f : Nat} {tk : Tok} {r : List Tok} {acc : List Item} {rule : String}
    {res : List Item × List Tok} (hb : binRule tk = some rule) (h : stepC f r (acc ++ [.op rule]) = .ok res) :
    collectLoop (f+1) (tk :: r) acc = .ok res := by
  simp only [collectLoop, hb]
  simp only [stepC] at h
  cases hl : leaf f (optUnary r).2 with
  | error e => rw [hl] at h; cases h
  | ok p =>
    rw [hl] at h
    obtain ⟨x, rest⟩ := p
    simpa using h

theorem collectLoop_nil (f : Nat) (acc : List Item) : collectLoop (f+1) [] acc = .ok (acc, []) := by
  simp [collectLoop]

theorem binRule_term {tk : Tok} (h : isTerm tk = true) : binRule tk = none := by
  cases tk <;> simp [isTerm] at h <;> rfl

theorem collectLoop_closed {rest : List Tok} (h : Closed rest) (f : Nat) (acc : List Item) :
    collectLoop (f+1) rest acc = .ok (acc, rest) := by
  rcases h with h | ⟨tk, tl, h, h'⟩ <;> subst h
  · exact collectLoop_nil f acc
  · simp [collectLoop, binRule_term h']

theorem parseExp_of_collect {f : Nat} {toks rest : List Tok} {items : List Item} {t : PExp}
    (h : collect f toks = .ok (items, rest)) (hp : prattParse items = .ok t) :
    parseExp (f+1) toks = .ok (t, rest) := by
  simp [parseExp, h, hp]

theorem optUnary_of_mem {u : UnOp} {utok : Tok} (h : utok ∈ unToks u) (r : List Tok) :
    optUnary (utok :: r) = ([.op (docUnRule u)], r) := by
  simp [optUnary, unRule_of_mem h]

/-- a rendering that is ONE leaf pair: go on with the repetition after it -/
theorem step_of_leafItem {t : PExp} {ts rest : List Tok} {acc : List Item} {res : List Item × List Tok} {g0 f : Nat}
    (hu : optUnary (ts ++ rest) = ([], ts ++ rest)) (hl : leaf f (ts ++ rest) = .ok (t, rest))
    (hc : ∀ g, g0 ≤ g → collectLoop g rest (acc ++ [.leaf t]) = .ok res) (hf : g0 ≤ f) :
    stepC f (ts ++ rest) acc = .ok res := by
  have h' : leaf f (optUnary (ts ++ rest)).2 = .ok (t, rest) := by rw [hu]; exact hl
  rw [stepC_of_leaf h', hu]
  simpa using hc f hf

/-! ### implicit products and calls -/

theorem imul_pair (f : Nat) (toks rest rest' : List Tok) (a v : PExp)
    (h : atoms f toks [] = .ok ([a], rest)) (hv : optVariable rest = (some v, rest')) :
    imulOrSingle (f+1) toks = .ok (.bin .mul a v, rest') := by
  simp [imulOrSingle, h, hv]
theorem imul_multi (f : Nat) (toks rest : List Tok) (a b : PExp) (more : List PExp)
    (h : atoms f toks [] = .ok (a :: b :: more, rest)) (hv : optVariable rest = (none, rest)) :
    imulOrSingle (f+1) toks = .ok (foldMul a b more, rest) := by
  simp [imulOrSingle, h, hv]
theorem imul_multi_var (f : Nat) (toks rest rest' : List Tok) (a b v : PExp) (more : List PExp)
    (h : atoms f toks [] = .ok (a :: b :: more, rest)) (hv : optVariable rest = (some v, rest')) :
    imulOrSingle (f+1) toks = .ok (foldMul a b (more ++ [v]), rest') := by
  simp [imulOrSingle, h, hv]

theorem foldMul_eq (a b : PExp) (more : List PExp) : foldMul a b more = mulAll a (b :: more) := by
  simp [foldMul, mulAll]

/-- tokens at which the `(number | parenthesis)*` repetition stops -/
def StopsAtoms (tail : List Tok) : Prop := ∀ g acc, atoms (g+1) tail acc = .ok (acc, tail)

theorem stopsAtoms_follow {rest : List Tok} (h : Follow rest) : StopsAtoms rest := fun g acc => atoms_follow h g acc
theorem stopsAtoms_word (w : String) (rest : List Tok) : StopsAtoms (.word w :: rest) := by
  intro g acc; simp [atoms]

theorem leaf_reject_rpar (f : Nat) (r : List Tok) : leaf (f+1) (.rpar :: r) = .error .reject := by
  simp [leaf]

theorem parseExp_rpar (f : Nat) (r : List Tok) : parseExp (f+3) (.rpar :: r) = .error .reject := by
  have hu : optUnary (.rpar :: r) = ([], .rpar :: r) := by simp [optUnary, unRule, ruleOfTok, Tok.opSpelling]
  simp [parseExp, collect, hu, leaf_reject_rpar]

theorem args_nil (f : Nat) (r : List Tok) : args (f+4) (.rpar :: r) = .ok ([], r) := by
  simp [args, parseExp_rpar]

/-- parse one argument, then go on with `, argument` / `)` -/
def argStep (f : Nat) (toks : List Tok) (acc : List PExp) : PRes (List PExp × List Tok) :=
  match parseExp f toks with
  | .ok (a, r) => argsTail f r (acc ++ [a])
  | .error e => .error e

theorem argStep_of_parse {f : Nat} {toks r : List Tok} {acc : List PExp} {a : PExp}
    (h : parseExp f toks = .ok (a, r)) : argStep f toks acc = argsTail f r (acc ++ [a]) := by
  simp [argStep, h]

theorem args_of_argStep {f : Nat} {toks : List Tok} {res : List PExp × List Tok}
    (h : argStep f toks [] = .ok res) : args (f+1) toks = .ok res := by
  simp only [argStep] at h
  simp only [args]
  cases hp : parseExp f toks with
  | error e => rw [hp] at h; cases h
  | ok p => rw [hp] at h; obtain ⟨a, r⟩ := p; simpa using h

theorem argsTail_rpar (f : Nat) (r : List Tok) (acc : List PExp) : argsTail (f+1) (.rpar :: r) acc = .ok (acc, r) := by
  simp [argsTail]

theorem argsTail_comma {f : Nat} {r : List Tok} {acc : List PExp} {res : List PExp × List Tok}
    (h : argStep f r acc = .ok res) : argsTail (f+1) (.comma :: r) acc = .ok res := by
  simp only [argStep] at h
  simp only [argsTail]
  cases hp : parseExp f r with
  | error e => rw [hp] at h; cases h
  | ok p => rw [hp] at h; obtain ⟨a, r'⟩ := p; simpa using h

theorem leaf_call {f : Nat} {n : String} {r rest : List Tok} {as : List PExp} (hn : isFunctionName n = true)
    (h : args f r = .ok (as, rest)) : leaf (f+1) (.word n :: .lpar :: r) = .ok (.call n as, rest) := by
  simp [leaf, hn, h]

theorem juxt_head {a : PExp} {as : List PExp} {ts : List Tok} (h : Juxt (a :: as) ts) :
    ∃ tk tl, ts = tk :: tl ∧ ((∃ s, tk = .int s) ∨ (∃ s, tk = .float s) ∨ tk = .lpar) := by
  cases h with
  | int _ _ => exact ⟨_, _, rfl, Or.inl ⟨_, rfl⟩⟩
  | num _ => exact ⟨_, _, rfl, Or.inr (Or.inl ⟨_, rfl⟩)⟩
  | paren _ _ => exact ⟨_, _, rfl, Or.inr (Or.inr rfl)⟩

def Main1 (ts : List Tok) (items : List Item) : Prop :=
  ∀ (rest : List Tok) (acc : List Item) (res : List Item × List Tok) (g0 : Nat), Follow rest →
    (∀ g, g0 ≤ g → collectLoop g rest (acc ++ items) = .ok res) →
    ∀ f, g0 + 6 * ts.length ≤ f → stepC f (ts ++ rest) acc = .ok res

def Main2 (t : PExp) (ts : List Tok) (items : List Item) : Prop :=
  ∀ t', items = [.leaf t'] → ∀ rest, Follow rest →
    optUnary (ts ++ rest) = ([], ts ++ rest) ∧ ∀ f, 6 * ts.length ≤ f → leaf f (ts ++ rest) = .ok (t, rest)

/-- a rendering followed by `)`, `,` or the end of the text is read back as the tree it renders -/
theorem parseExp_of_main {t : PExp} {ts : List Tok} {items : List Item} (hm : Main1 ts items) (hir : IR t items)
    {rest : List Tok} (hcl : Closed rest) (f : Nat) (hf : 6 * ts.length + 3 ≤ f) :
    parseExp f (ts ++ rest) = .ok (t, rest) := by
  obtain ⟨f', rfl⟩ : ∃ f', f = f' + 3 := ⟨f - 3, by omega⟩
  have hcol : collect (f'+2) (ts ++ rest) = .ok (items, rest) := by
    rw [collect_eq_stepC]
    apply hm rest [] (items, rest) 1 hcl.follow
    · intro g hg
      obtain ⟨g', rfl⟩ : ∃ g', g = g' + 1 := ⟨g - 1, by omega⟩
      simpa using collectLoop_closed hcl g' items
    · omega
  exact parseExp_of_collect hcol (pratt_roundtrip hir)

/-- a rendering that is one leaf pair satisfies `Main1` once `Main2` is known -/
theorem main1_of_leaf {t : PExp} {ts : List Tok}
    (h2 : ∀ rest, Follow rest → optUnary (ts ++ rest) = ([], ts ++ rest) ∧
      ∀ f, 6 * ts.length ≤ f → leaf f (ts ++ rest) = .ok (t, rest)) : Main1 ts [.leaf t] := by
  intro rest acc res g0 hf hc f hlen
  exact step_of_leafItem (h2 rest hf).1 ((h2 rest hf).2 f (by omega)) hc (by omega)

mutual
theorem tk_main {t : PExp} {ts : List Tok} {items : List Item} : Tk t ts items → Main1 ts items ∧ Main2 t ts items
  | @Tk.atom a tk ha => by
    have h2 : ∀ rest, Follow rest →
        optUnary ([tk] ++ rest) = ([], [tk] ++ rest) ∧ ∀ f, 6 * [tk].length ≤ f → leaf f ([tk] ++ rest) = .ok (a, rest) := by
      intro rest hf
      refine ⟨optUnary_atom ha rest, ?_⟩
      intro f hlen
      obtain ⟨f', rfl⟩ : ∃ f', f = f' + 4 := ⟨f - 4, by simp at hlen; omega⟩
      exact leaf_atom ha hf f'
    exact ⟨main1_of_leaf h2, fun t' _ rest hf => h2 rest hf⟩
  | @Tk.paren t ts items hin => by
    have ih := tk_main hin
    have h2 : ∀ rest, Follow rest →
        optUnary ((.lpar :: ts ++ [.rpar]) ++ rest) = ([], (.lpar :: ts ++ [.rpar]) ++ rest) ∧
          ∀ f, 6 * (Tok.lpar :: ts ++ [Tok.rpar]).length ≤ f → leaf f ((.lpar :: ts ++ [.rpar]) ++ rest) = .ok (t, rest) := by
      intro rest hf
      refine ⟨by simp [optUnary, unRule, ruleOfTok, Tok.opSpelling], ?_⟩
      intro f hlen
      have hlen' : 6 * ts.length + 12 ≤ f := by simp at hlen; omega
      obtain ⟨f', rfl⟩ : ∃ f', f = f' + 6 := ⟨f - 6, by omega⟩
      have hcl : Closed (.rpar :: rest) := closed_rpar rest
      have hpe : parseExp (f'+3) (ts ++ .rpar :: rest) = .ok (t, .rpar :: rest) :=
        parseExp_of_main ih.1 hin.toIR hcl _ (by omega)
      have hts : (Tok.lpar :: ts ++ [.rpar]) ++ rest = .lpar :: (ts ++ .rpar :: rest) := by simp
      rw [hts, leaf_lpar]
      apply imul_single _ _ _ _ _ (optVariable_follow hf)
      rw [atoms_lpar (f'+3) _ rest [] t hpe]
      exact atoms_follow hf _ _
    exact ⟨main1_of_leaf h2, fun t' _ rest hf => h2 rest hf⟩
  | @Tk.un u e ts utok hin hm => by
    have ih := tk_main hin
    refine ⟨?_, fun t' ht' => by simp at ht'⟩
    intro rest acc res g0 hf hc f hlen
    obtain ⟨_, hleaf⟩ := ih.2 e rfl rest hf
    have hl : leaf f (optUnary ((utok :: ts) ++ rest)).2 = .ok (e, rest) := by
      rw [List.cons_append, optUnary_of_mem hm]
      exact hleaf f (by simp at hlen; omega)
    rw [stepC_of_leaf hl, List.cons_append, optUnary_of_mem hm]
    simpa using hc f (by omega)
  | @Tk.bin o l r L R il ir optok hl hr hpl hpr hm => by
    have ihl := tk_main hl
    have ihr := tk_main hr
    refine ⟨?_, fun t' ht' => by cases il <;> simp at ht'⟩
    intro rest acc res g0 hf hc f hlen
    have hlen' : g0 + 6 * (L.length + R.length + 1) ≤ f := by simp at hlen; omega
    rw [List.append_assoc, List.cons_append]
    apply ihl.1 (optok :: (R ++ rest)) acc res (g0 + 6 * R.length + 1) (follow_of_mem hm _)
    · intro g hg
      obtain ⟨g', rfl⟩ : ∃ g', g = g' + 1 := ⟨g - 1, by omega⟩
      apply collectLoop_of_stepC (binRule_of_mem hm)
      apply ihr.1 rest (acc ++ il ++ [Item.op (docRule o)]) res g0 hf
      · intro g hg'
        simpa using hc g hg'
      · omega
    · omega
  | @Tk.imul a as vs ts vts hj hv hlen1 => by
    have ihj := juxt_main hj
    obtain ⟨tk, tl, hts, htk⟩ := juxt_head hj
    have h2 : ∀ rest, Follow rest →
        optUnary ((ts ++ vts) ++ rest) = ([], (ts ++ vts) ++ rest) ∧
          ∀ f, 6 * (ts ++ vts).length ≤ f → leaf f ((ts ++ vts) ++ rest) = .ok (mulAll a (as ++ vs), rest) := by
      intro rest hf
      constructor
      · subst hts
        rcases htk with ⟨s, rfl⟩ | ⟨s, rfl⟩ | rfl <;> simp [optUnary, unRule, ruleOfTok, Tok.opSpelling]
      · intro f hlen
        have hlen' : 6 * ts.length ≤ f ∧ 6 ≤ f := by
          subst hts; simp at hlen ⊢; omega
        obtain ⟨f', rfl⟩ : ∃ f', f = f' + 3 := ⟨f - 3, by omega⟩
        have hleaf : leaf (f'+3) ((ts ++ vts) ++ rest) = imulOrSingle (f'+2) ((ts ++ vts) ++ rest) := by
          subst hts
          rcases htk with ⟨s, rfl⟩ | ⟨s, rfl⟩ | rfl
          · simp [leaf_int]
          · simp [leaf_float]
          · simp [leaf_lpar]
        rw [hleaf, List.append_assoc]
        cases hv with
        | none =>
          have hat : atoms (f'+1) (ts ++ ([] ++ rest)) [] = .ok ([] ++ a :: as, [] ++ rest) :=
            ihj ([] ++ rest) [] (by simpa using stopsAtoms_follow hf) (f'+1) (by omega) (by omega)
          simp only [List.nil_append, List.append_nil] at hat hlen1 ⊢
          cases as with
          | nil => simp at hlen1
          | cons b more =>
            rw [imul_multi (f'+1) _ rest a b more hat (optVariable_follow hf), foldMul_eq]
        | var n hk =>
          have hat : atoms (f'+1) (ts ++ ([.word n] ++ rest)) [] = .ok ([] ++ a :: as, [.word n] ++ rest) :=
            ihj ([.word n] ++ rest) [] (stopsAtoms_word n rest) (f'+1) (by omega) (by omega)
          simp only [List.nil_append, List.singleton_append] at hat ⊢
          have hov : optVariable (.word n :: rest) = (some (.var n), rest) := by simp [optVariable, hk]
          cases as with
          | nil =>
            rw [imul_pair (f'+1) _ _ rest a (.var n) hat hov]
            simp [mulAll]
          | cons b more =>
            rw [imul_multi_var (f'+1) _ _ rest a b (.var n) more hat hov, foldMul_eq]
            simp
    exact ⟨main1_of_leaf h2, fun t' _ rest hf => h2 rest hf⟩
  | @Tk.call n args ats hn hnot ha => by
    have iha := args_main ha
    have h2 : ∀ rest, Follow rest →
        optUnary ((.word n :: .lpar :: ats ++ [.rpar]) ++ rest) = ([], (.word n :: .lpar :: ats ++ [.rpar]) ++ rest) ∧
          ∀ f, 6 * (Tok.word n :: Tok.lpar :: ats ++ [Tok.rpar]).length ≤ f →
            leaf f ((.word n :: .lpar :: ats ++ [.rpar]) ++ rest) = .ok (.call n args, rest) := by
      intro rest hf
      refine ⟨by simp [optUnary, unRule_word hnot], ?_⟩
      intro f hlen
      have hlen' : 6 * ats.length + 18 ≤ f := by simp at hlen; omega
      obtain ⟨f', rfl⟩ : ∃ f', f = f' + 6 := ⟨f - 6, by omega⟩
      have hts : (Tok.word n :: Tok.lpar :: ats ++ [Tok.rpar]) ++ rest = .word n :: .lpar :: (ats ++ .rpar :: rest) := by simp
      rw [hts]
      apply leaf_call hn
      by_cases hne : args = []
      · subst hne
        have : ats = [] := by cases ha; rfl
        subst this
        exact args_nil (f'+1) rest
      · apply args_of_argStep
        have := iha hne rest [] (f'+4) (by omega)
        simpa using this
    exact ⟨main1_of_leaf h2, fun t' _ rest hf => h2 rest hf⟩
theorem juxt_main {es : List PExp} {ts : List Tok} : Juxt es ts →
    ∀ (tail : List Tok) (acc : List PExp), StopsAtoms tail → ∀ f, 6 * ts.length ≤ f + 4 → 1 ≤ f →
      atoms f (ts ++ tail) acc = .ok (acc ++ es, tail)
  | .nil => by
    intro tail acc hs f _ hf1
    obtain ⟨f', rfl⟩ : ∃ f', f = f' + 1 := ⟨f - 1, by omega⟩
    simpa using hs f' acc
  | @Juxt.int s es ts hs hj => by
    have ih := juxt_main hj
    intro tail acc hst f hf hf1
    have hf' : 6 * ts.length + 2 ≤ f := by simp at hf; omega
    obtain ⟨f', rfl⟩ : ∃ f', f = f' + 1 := ⟨f - 1, by omega⟩
    rw [List.cons_append, atoms_int f' s _ acc]
    rw [ih tail _ hst f' (by omega) (by omega)]
    simp
  | @Juxt.num s es ts hj => by
    have ih := juxt_main hj
    intro tail acc hst f hf hf1
    have hf' : 6 * ts.length + 2 ≤ f := by simp at hf; omega
    obtain ⟨f', rfl⟩ : ∃ f', f = f' + 1 := ⟨f - 1, by omega⟩
    rw [List.cons_append, atoms_float]
    rw [ih tail _ hst f' (by omega) (by omega)]
    simp
  | @Juxt.paren t inner items es ts hin hj => by
    have ihin := tk_main hin
    have ih := juxt_main hj
    intro tail acc hst f hf hf1
    have hf' : 6 * inner.length + 6 * ts.length + 8 ≤ f := by simp at hf; omega
    obtain ⟨f', rfl⟩ : ∃ f', f = f' + 1 := ⟨f - 1, by omega⟩
    have hcl : Closed (.rpar :: (ts ++ tail)) := closed_rpar _
    have hpe : parseExp f' (inner ++ .rpar :: (ts ++ tail)) = .ok (t, .rpar :: (ts ++ tail)) :=
      parseExp_of_main ihin.1 hin.toIR hcl _ (by omega)
    have hts : (Tok.lpar :: inner ++ Tok.rpar :: ts) ++ tail = .lpar :: (inner ++ .rpar :: (ts ++ tail)) := by simp
    rw [hts, atoms_lpar f' _ _ acc t hpe, ih tail _ hst f' (by omega) (by omega)]
    simp
theorem args_main {es : List PExp} {ats : List Tok} : Args es ats → es ≠ [] →
    ∀ (rest : List Tok) (acc : List PExp) (f : Nat), 6 * ats.length + 4 ≤ f →
      argStep f (ats ++ .rpar :: rest) acc = .ok (acc ++ es, rest)
  | .nil => by intro h; exact absurd rfl h
  | @Args.one a ts items hin => by
    have ih := tk_main hin
    intro _ rest acc f hf
    have hcl : Closed (.rpar :: rest) := closed_rpar rest
    have hpe := parseExp_of_main ih.1 hin.toIR hcl f (by omega)
    rw [argStep_of_parse hpe]
    obtain ⟨f', rfl⟩ : ∃ f', f = f' + 1 := ⟨f - 1, by omega⟩
    exact argsTail_rpar f' rest _
  | @Args.cons a b bs ts ts' items hin hrest => by
    have ih := tk_main hin
    have ihr := args_main hrest (by simp)
    intro _ rest acc f hf
    have hf' : 6 * ts.length + 6 * ts'.length + 10 ≤ f := by simp at hf; omega
    have hcl : Closed (.comma :: (ts' ++ .rpar :: rest)) := closed_comma _
    have hts : (ts ++ Tok.comma :: ts') ++ Tok.rpar :: rest = ts ++ .comma :: (ts' ++ .rpar :: rest) := by simp
    have hpe := parseExp_of_main ih.1 hin.toIR hcl f (by omega)
    rw [hts, argStep_of_parse hpe]
    obtain ⟨f', rfl⟩ : ∃ f', f = f' + 1 := ⟨f - 1, by omega⟩
    rw [argsTail_comma (ihr rest (acc ++ [a]) f' (by omega))]
    simp
end

theorem validInts_mulAll (rest : List PExp) : ∀ a : PExp, validInts a = true → validIntsList rest = true →
    validInts (mulAll a rest) = true := by
  induction rest with
  | nil => intro a ha _; simpa [mulAll] using ha
  | cons e es ih =>
    intro a ha hr
    simp only [validIntsList, Bool.and_eq_true] at hr
    simp only [mulAll, List.foldl_cons]
    exact ih _ (by simp [validInts, ha, hr.1]) hr.2

theorem validIntsList_append (xs ys : List PExp) :
    validIntsList (xs ++ ys) = (validIntsList xs && validIntsList ys) := by
  induction xs with
  | nil => simp [validIntsList]
  | cons x xs ih => simp [validIntsList, ih, Bool.and_assoc]

mutual
/-- a rendering only carries integer literals that fit `i64`: the AST-building phase accepts the tree -/
theorem tk_valid {t : PExp} {ts : List Tok} {items : List Item} : Tk t ts items → validInts t = true
  | .atom ha => by
    cases ha with
    | int s hs => simpa [validInts] using hs
    | num s => simp [validInts]
    | tt => simp [validInts]
    | ff => simp [validInts]
    | var n _ => simp [validInts]
  | .paren h => tk_valid h
  | .un h _ => by have := tk_valid h; simpa [validInts] using this
  | .bin hl hr _ _ _ => by have h1 := tk_valid hl; have h2 := tk_valid hr; simp [validInts, h1, h2]
  | @Tk.imul a as vs ts vts hj hv _ => by
    have h1 := juxt_valid hj
    simp only [validIntsList, Bool.and_eq_true] at h1
    apply validInts_mulAll _ _ h1.1
    rw [validIntsList_append, h1.2]
    cases hv <;> simp [validIntsList, validInts]
  | .call _ _ ha => by have := args_valid ha; simpa [validInts] using this
theorem juxt_valid {es : List PExp} {ts : List Tok} : Juxt es ts → validIntsList es = true
  | .nil => by simp [validIntsList]
  | .int hs hj => by have := juxt_valid hj; simp [validIntsList, validInts, hs, this]
  | .num hj => by have := juxt_valid hj; simp [validIntsList, validInts, this]
  | .paren hin hj => by have h1 := tk_valid hin; have h2 := juxt_valid hj; simp [validIntsList, h1, h2]
theorem args_valid {es : List PExp} {ts : List Tok} : Args es ts → validIntsList es = true
  | .nil => by simp [validIntsList]
  | .one h => by have := tk_valid h; simp [validIntsList, this]
  | .cons h hr => by have h1 := tk_valid h; have h2 := args_valid hr; simp only [validIntsList] at h2 ⊢; simp [h1, h2]
end

/-- **General round trip**, PEG phase -/
theorem parseRaw_tk {t : PExp} {ts : List Tok} {items : List Item} (h : Tk t ts items) : parseToksRaw ts = .ok t := by
  have := parseExp_of_main (tk_main h).1 h.toIR (rest := []) (Or.inl rfl) (parseFuel ts) (by simp [parseFuel])
  simp [parseToksRaw, List.append_nil] at this ⊢
  simp [this]

/-- **General round trip**: any token rendering with a superset of the needed parentheses, any spelling of
the operators, implicit products and calls, parses to the tree it renders. -/
theorem parse_tk {t : PExp} {ts : List Tok} {items : List Item} (h : Tk t ts items) : parseToks ts = .ok t := by
  simp [parseToks, parseRaw_tk h, tk_valid h]

end Rooc.Syntax.Proofs
