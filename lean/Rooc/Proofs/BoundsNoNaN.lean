/-
C07 helper: `bounds_of` never produces a NaN endpoint when every literal is finite and the box has none.
-/
import Rooc.Proofs.BoundsFrame
set_option linter.unusedTactic false
set_option linter.unreachableTactic false
set_option linter.unnecessarySeqFocus false
set_option linter.unusedSimpArgs false
set_option linter.unusedVariables false
set_option linter.unusedSectionVars false
namespace Rooc
namespace BoundsProofs
open BoundsSem Arith Sem

variable {K : Type} [Field K] [LinearOrder K] [IsStrictOrderedRing K] [FloorRing K]

theorem noNaN_lowerSum (a b : Ext K) : Ext.isNaN (Bounds.lowerSum a b) = false := by
  cases a <;> cases b <;> simp [Bounds.lowerSum, Ext.add, Ext.isNaN]
theorem noNaN_upperSum (a b : Ext K) : Ext.isNaN (Bounds.upperSum a b) = false := by
  cases a <;> cases b <;> simp [Bounds.upperSum, Ext.add, Ext.isNaN]
theorem noNaN_add (a b : Bounds (Ext K)) : NoNaN (a.add b) := ⟨noNaN_lowerSum _ _, noNaN_upperSum _ _⟩
theorem noNaN_neg {a : Bounds (Ext K)} (h : NoNaN a) : NoNaN a.neg := by
  obtain ⟨lo, hi⟩ := a; obtain ⟨h1, h2⟩ := h
  cases lo <;> cases hi <;> simp_all [NoNaN, Bounds.neg, Ext.neg, Ext.isNaN]
theorem noNaN_sub (a b : Bounds (Ext K)) : NoNaN (a.sub b) := noNaN_add _ _

theorem noNaN_mul_fin {a : Ext K} {c : K} (ha : Ext.isNaN a = false) (hc : c ≠ 0) :
    Ext.isNaN (Ext.mul a (.fin c)) = false := by
  rcases lt_or_gt_of_ne hc with h | h
  · cases a <;> simp_all [Ext.mul, Ext.isNaN, Ext.sign, Ext.ofSign, sgn_neg h]
  · cases a <;> simp_all [Ext.mul, Ext.isNaN, Ext.sign, Ext.ofSign, sgn_pos h]

theorem noNaN_scale {a : Bounds (Ext K)} (c : K) (h : NoNaN a) : NoNaN (a.scale (.fin c)) := by
  by_cases hc : c = 0
  · subst hc; simp [Bounds.scale, Ext.eq, NoNaN, Bounds.singleton, Ext.isNaN]
  · simp only [Bounds.scale, a_eq, a_zero, Ext.eq, ef_eq, hc, decide_false, Bool.false_eq_true, if_false, a_gt, a_mul]
    split <;> exact ⟨noNaN_mul_fin (by first | exact h.1 | exact h.2) hc, noNaN_mul_fin (by first | exact h.2 | exact h.1) hc⟩

theorem noNaN_div_fin {a : Ext K} {d : K} (ha : Ext.isNaN a = false) (hd : d ≠ 0) :
    Ext.isNaN (Ext.div a (.fin d)) = false := by
  rcases lt_or_gt_of_ne hd with h | h
  · cases a <;> simp_all [Ext.div, Ext.isNaN, Ext.sign, Ext.ofSign, sgn_neg h]
  · cases a <;> simp_all [Ext.div, Ext.isNaN, Ext.sign, Ext.ofSign, sgn_pos h]

theorem noNaN_divBy {a : Bounds (Ext K)} (d : K) (h : NoNaN a) : NoNaN (a.divBy (.fin d)) := by
  by_cases hd : d = 0
  · subst hd; simp [Bounds.divBy, Ext.eq, NoNaN, Bounds.unbounded, Ext.isNaN]
  · simp only [Bounds.divBy, a_eq, a_zero, Ext.eq, ef_eq, hd, decide_false, Bool.false_eq_true, if_false, a_gt, a_div]
    split <;> exact ⟨noNaN_div_fin (by first | exact h.1 | exact h.2) hd, noNaN_div_fin (by first | exact h.2 | exact h.1) hd⟩

theorem noNaN_fmax {a b : Ext K} (ha : Ext.isNaN a = false) (hb : Ext.isNaN b = false) :
    Ext.isNaN (Ext.fmax a b) = false := by
  simp only [Ext.fmax, ha, hb, Bool.false_eq_true, if_false]; split <;> assumption
theorem noNaN_fmin {a b : Ext K} (ha : Ext.isNaN a = false) (hb : Ext.isNaN b = false) :
    Ext.isNaN (Ext.fmin a b) = false := by
  simp only [Ext.fmin, ha, hb, Bool.false_eq_true, if_false]; split <;> assumption

theorem noNaN_abs {a : Bounds (Ext K)} (h : NoNaN a) : NoNaN a.abs := by
  simp only [Bounds.abs]
  split
  · exact h
  · split
    · exact noNaN_neg h
    · refine ⟨by simp [Ext.isNaN], ?_⟩
      simp only [a_fmax, a_neg]
      exact noNaN_fmax (noNaN_neg h).2 h.2

theorem noNaN_minStep {a b : Bounds (Ext K)} (ha : NoNaN a) (hb : NoNaN b) : NoNaN (Bounds.minStep a b) :=
  ⟨noNaN_fmin ha.1 hb.1, noNaN_fmin ha.2 hb.2⟩
theorem noNaN_maxStep {a b : Bounds (Ext K)} (ha : NoNaN a) (hb : NoNaN b) : NoNaN (Bounds.maxStep a b) :=
  ⟨noNaN_fmax ha.1 hb.1, noNaN_fmax ha.2 hb.2⟩
theorem noNaN_zeroOne : NoNaN (Bounds.zeroOne : Bounds (Ext K)) := by simp [NoNaN, Bounds.zeroOne, Ext.isNaN]
theorem noNaN_unbounded : NoNaN (Bounds.unbounded : Bounds (Ext K)) := by simp [NoNaN, Bounds.unbounded, Ext.isNaN]

theorem finiteLitsList_mem : ∀ (es : List (Exp (Ext K))), finiteLitsList es = true → ∀ e ∈ es, finiteLits e = true
  | [], _, e, he => by simp at he
  | e0 :: es, h, e, he => by
    simp only [finiteLitsList, Bool.and_eq_true] at h
    rcases List.mem_cons.1 he with rfl | h'
    · exact h.1
    · exact finiteLitsList_mem es h.2 e h'

section
variable (vb : List (String × Bounds (Ext K)))

theorem fold_noNaN (step : Bounds (Ext K) → Bounds (Ext K) → Bounds (Ext K))
    (hstep : ∀ a b, NoNaN a → NoNaN b → NoNaN (step a b)) :
    ∀ (es : List (Exp (Ext K))), (∀ e ∈ es, NoNaN (Analyzer.boundsOf vb e)) →
    ∀ acc, NoNaN acc → NoNaN ((Analyzer.boundsOfList vb es).foldl step acc)
  | [], _, acc, h => by simpa [Analyzer.boundsOfList] using h
  | e :: es, ih, acc, h => by
    simp only [Analyzer.boundsOfList, List.foldl_cons]
    exact fold_noNaN step hstep es (fun e' he' => ih e' (List.mem_cons_of_mem _ he')) _
      (hstep _ _ h (ih e (List.mem_cons_self ..)))

theorem boundsOf_noNaN (hbox : ∀ name, NoNaN (Analyzer.varBounds vb name)) :
    ∀ e : Exp (Ext K), finiteLits e = true → NoNaN (Analyzer.boundsOf vb e) := by
  intro e
  induction e using expInd with
  | num x =>
    intro h; cases x <;> simp_all [finiteLits, finiteLit, Analyzer.boundsOf, Bounds.singleton, NoNaN, Ext.isNaN]
  | var s => intro _; simpa [Analyzer.boundsOf] using hbox s
  | abs e ih => intro h; simp only [finiteLits] at h; simpa [Analyzer.boundsOf] using noNaN_abs (ih h)
  | min es ih =>
    intro h; simp only [finiteLits] at h
    have hm := finiteLitsList_mem es h
    cases es with
    | nil => simpa [Analyzer.boundsOf, Analyzer.boundsOfList] using noNaN_unbounded
    | cons e es =>
      simp only [Analyzer.boundsOf, Analyzer.boundsOfList]
      exact fold_noNaN vb _ (fun _ _ => noNaN_minStep) es
        (fun e' he' => ih e' (List.mem_cons_of_mem _ he') (hm e' (List.mem_cons_of_mem _ he'))) _
        (ih e (List.mem_cons_self ..) (hm e (List.mem_cons_self ..)))
  | max es ih =>
    intro h; simp only [finiteLits] at h
    have hm := finiteLitsList_mem es h
    cases es with
    | nil => simpa [Analyzer.boundsOf, Analyzer.boundsOfList] using noNaN_unbounded
    | cons e es =>
      simp only [Analyzer.boundsOf, Analyzer.boundsOfList]
      exact fold_noNaN vb _ (fun _ _ => noNaN_maxStep) es
        (fun e' he' => ih e' (List.mem_cons_of_mem _ he') (hm e' (List.mem_cons_of_mem _ he'))) _
        (ih e (List.mem_cons_self ..) (hm e (List.mem_cons_self ..)))
  | and es _ => intro _; simpa [Analyzer.boundsOf] using noNaN_zeroOne
  | or es _ => intro _; simpa [Analyzer.boundsOf] using noNaN_zeroOne
  | not e _ => intro _; simpa [Analyzer.boundsOf] using noNaN_zeroOne
  | xor a b _ _ => intro _; simpa [Analyzer.boundsOf] using noNaN_zeroOne
  | implies a b _ _ => intro _; simpa [Analyzer.boundsOf] using noNaN_zeroOne
  | iff a b _ _ => intro _; simpa [Analyzer.boundsOf] using noNaN_zeroOne
  | bin op a b iha ihb =>
    intro h
    simp only [finiteLits, Bool.and_eq_true] at h
    cases op
    · simpa [Analyzer.boundsOf] using noNaN_add _ _
    · simpa [Analyzer.boundsOf] using noNaN_sub _ _
    · simp only [Analyzer.boundsOf]
      cases ha : a.asNum with
      | some c =>
        have := asNum_eq ha; subst this
        cases c <;> simp_all [finiteLits, finiteLit]
        exact noNaN_scale _ (by first | exact ihb | exact ihb (by simp_all))
      | none =>
        cases hb : b.asNum with
        | some c =>
          have := asNum_eq hb; subst this
          cases c <;> simp_all [finiteLits, finiteLit]
          exact noNaN_scale _ (by first | exact iha | exact iha (by simp_all))
        | none => exact noNaN_unbounded
    · simp only [Analyzer.boundsOf]
      cases hb : b.asNum with
      | some c =>
        have := asNum_eq hb; subst this
        cases c <;> simp_all [finiteLits, finiteLit]
        split
        · exact noNaN_divBy _ (by first | exact iha | exact iha (by simp_all))
        · exact noNaN_unbounded
      | none => exact noNaN_unbounded
    all_goals simpa [Analyzer.boundsOf] using noNaN_zeroOne
  | un op e ih =>
    intro h; simp only [finiteLits] at h
    cases op
    · simpa [Analyzer.boundsOf] using noNaN_neg (ih h)
    · simpa [Analyzer.boundsOf] using noNaN_zeroOne
end

end BoundsProofs
end Rooc
