/-
No spurious error on the piecewise-linear fragment, part 2: one loop iteration, the loop, `linearizeWith`.
The generated rows are affine and small (`AuxC`), so they go through by the affine theorem (`process_L1`); the loop
fuel is accounted for in LIFO order: a source constraint costs one iteration plus one per row it pushes.
-/
import Rooc.Proofs.LinSucceedPW

set_option linter.unusedSectionVars false
set_option linter.unusedSimpArgs false
set_option linter.unusedVariables false
set_option linter.unusedTactic false
set_option linter.unreachableTactic false

namespace Rooc.LinP
open Rooc Rooc.Lin Rooc.Sem Rooc.Exp

variable {K : Type} [Field K] [LinearOrder K] [IsStrictOrderedRing K] [FloorRing K]

/-- the top node is arithmetic (not a logic connective). -/
def ArithTop : Exp (Ext K) → Prop
  | .num _ | .var _ | .abs _ | .min _ | .max _ | .un .neg _ => True
  | .bin op _ _ => match op with
    | .add | .sub | .mul | .div => True
    | _ => False
  | _ => False

theorem arithTop_logicValue {d : List (DomVar (Ext K))} {e : Exp (Ext K)} (h : ArithTop e)
    (hlv : isLogicValue d e = true) : (∃ v, e = .num v) ∨ ∃ n, e = .var n ∧ isBoolVar d n = true := by
  cases e with
  | num v => exact Or.inl ⟨v, rfl⟩
  | var n => exact Or.inr ⟨n, rfl, by simpa [isLogicValue] using hlv⟩
  | bin op a b => cases op <;> simp [ArithTop] at h <;> simp [isLogicValue] at hlv
  | un op a => cases op <;> simp [ArithTop] at h; simp [isLogicValue] at hlv
  | abs a => simp [isLogicValue] at hlv
  | min es => simp [isLogicValue] at hlv
  | max es => simp [isLogicValue] at hlv
  | _ => simp [ArithTop] at h

/-- a supported piecewise-linear comparison: not an assertion; both sides normalise to expressions with an
arithmetic top node; their difference normalises to an expression of the fragment `PW` (for the requirement of
the comparison) of weight at most `W`.  Decidable. -/
structure SrcPW (bm : BoundsMap (Ext K)) (W : Nat) (c : Constraint (Ext K)) : Prop where
  notAssert : c.isAssert = false
  norm : ∃ l r e, normalizeExp c.lhs = some l ∧ normalizeExp c.rhs = some r ∧ ArithTop l ∧ ArithTop r ∧
    normalizeExp (.bin .sub l r) = some e ∧ PW bm e (cmpForReq c.cmp) ∧ wt e ≤ W

/-- a loop step: names / bounds invariants kept, and only small affine rows are queued. -/
structure PStep (W : Nat) (s s' : St (Ext K)) : Prop where
  grow : Grow s s'
  q : QStep W s s'

theorem grow_rows {s s1 : St (Ext K)} (g : Grow s s1) (rows : List (MidRow (Ext K))) :
    Grow s ({ s1 with rows := rows } : St (Ext K)) :=
  g.same rfl rfl (fun F => by cases F <;> exact le_rfl)

theorem process_PW {bm : BoundsMap (Ext K)} {W : Nat} (hW : 1 ≤ W) {c : Constraint (Ext K)} (hc : SrcPW bm W c)
    (s : St (Ext K)) (hn : NamesOK s) (hb : BAgree bm s) :
    ∃ s', processConstraint c s = .ok ((), s') ∧ PStep W s s' := by
  obtain ⟨l', r', e, hnl, hnr, hal, har, hne, hpw, hwe⟩ := hc.norm
  unfold processConstraint
  simp only [bind_ok, simplifyFlat_ok]
  have key : ∃ s', dispatch c.name l' c.cmp r' s = .ok ((), s') ∧ PStep W s s' := by
    unfold dispatch
    simp only [bind_ok, get_ok]
    have hrefl : ∀ row : MidRow (Ext K), PStep W s (addRow s row) := fun row =>
      ⟨grow_rows (Grow.refl s) _, ⟨[], rfl, by simp; omega, fun a ha => by cases ha⟩⟩
    cases hN : tryNormalize s.domain l' c.cmp r' with
    | none =>
      obtain ⟨v, s1, hlin, g, _, hq⟩ := linExp_PW hpw s hn hb
      refine ⟨{ s1 with rows := s1.rows ++ [{ name := c.name, lhs := v.vars, rhs := Arith.neg v.rhs, cmp := c.cmp }] },
        ⟨s, s, rfl, ?_⟩, ⟨grow_rows g _, ?_⟩⟩
      · simp only [hN]
        exact (emitConstraint_ok _ _ _ _ _ _).mpr ⟨e, v, s1, hne, hlin, rfl⟩
      · obtain ⟨new, h1, h2, h3⟩ := hq.mono hwe
        exact ⟨new, h1, h2, h3⟩
    | some nz =>
      cases nz with
      | tautology =>
        exact ⟨s, ⟨s, s, rfl, by simp [hN, pure_ok]⟩, ⟨Grow.refl s, QStep.refl hW s⟩⟩
      | contradiction =>
        obtain ⟨row, hrow⟩ := emit_L1 (l := .num (Arith.zero : Ext K)) (r := .num Arith.one) (by simp [L1]) (by simp [L1])
          (by simp only [fsize]; exact flattenFuel_big.trans' (by norm_num)) .eq c.name s
        exact ⟨_, ⟨s, s, rfl, by simpa [hN] using hrow⟩, hrefl row⟩
      | assertion ea t =>
        have hwhich : (ea = l' ∨ ea = r') ∧ isLogicValue s.domain ea = true := by
          rw [tryNormalize_eq] at hN
          cases hp : pickOf s.domain l' c.cmp r' with
          | none => simp [hp] at hN
          | some p =>
            obtain ⟨e', cmp', c'⟩ := p
            obtain ⟨h1, h2, _⟩ := pickOf_specD hp
            simp only [hp] at hN
            split at hN
            · split at hN <;> simp at hN
            · split at hN <;> simp at hN <;> (obtain ⟨rfl, _⟩ := hN; exact ⟨h1, h2⟩)
        have hAe : ArithTop ea := by rcases hwhich.1 with rfl | rfl; exacts [hal, har]
        rcases arithTop_logicValue hAe hwhich.2 with ⟨v, rfl⟩ | ⟨n, rfl, hbv⟩
        · exfalso
          rw [tryNormalize_eq] at hN
          cases hp : pickOf s.domain l' c.cmp r' with
          | none => simp [hp] at hN
          | some p =>
            obtain ⟨e', cmp', c'⟩ := p
            simp only [hp] at hN
            split at hN
            · split at hN <;> simp at hN
            · rename_i hne'
              split at hN <;> simp at hN <;> (obtain ⟨rfl, _⟩ := hN; exact hne' v rfl)
        · have hctx : L1 (ctxToExp (Ctx.fromVar n (Arith.one : Ext K))) := L1_ctxToExp _
          have hsz : fsize (ctxToExp (Ctx.fromVar n (Arith.one : Ext K))) = 7 := by
            rw [fsize_ctxToExp, csz_fromVar]
          obtain ⟨row, hrow⟩ := emit_L1 hctx (r := .num (if t = true then (Arith.one : Ext K) else Arith.zero))
            (by simp [L1]) (by rw [hsz]; simp only [fsize]; exact flattenFuel_big.trans' (by norm_num)) .eq c.name s
          refine ⟨_, ⟨s, s, rfl, ?_⟩, hrefl row⟩
          simp only [hN]
          rw [lowerAssertion_var_ok n t c.name s _ hbv]
          exact hrow
  obtain ⟨s', hd, hp⟩ := key
  exact ⟨s', ⟨l', s, ⟨l', hnl, rfl⟩, r', s, ⟨r', hnr, rfl⟩, by simpa [hc.notAssert] using hd⟩, hp⟩

/-- **the loop**: a queue of small affine rows on top of supported piecewise-linear source constraints is drained
within `|rows| + 4·W·|sources| + 1` iterations. -/
theorem drain_PW {bm : BoundsMap (Ext K)} {W : Nat} (hW : 1 ≤ W) (hB : budget W ≤ flattenFuel) :
    ∀ (n : Nat) (s : St (Ext K)) (aux srcs : List (Constraint (Ext K))), NamesOK s → BAgree bm s →
      s.queue = aux ++ srcs → (∀ a ∈ aux, AuxC (budget W) a) → (∀ c ∈ srcs, SrcPW bm W c) →
      aux.length + 4 * W * srcs.length + 1 ≤ n → ∃ s', drain n s = .ok ((), s') := by
  intro n
  induction n with
  | zero => intro s aux srcs _ _ _ _ _ h; omega
  | succ n ih =>
    intro s aux srcs hn hb hq haux hsrc hlen
    rw [drain_succ]
    simp only [bind_ok, get_ok]
    cases aux with
    | cons a aux' =>
      simp only [List.cons_append] at hq
      obtain ⟨rows, hp⟩ := process_L1 ((haux a (by simp)).srcL hB) { s with queue := aux' ++ srcs }
      obtain ⟨s', hs'⟩ := ih ({ s with queue := aux' ++ srcs, rows := s.rows ++ rows } : St (Ext K)) aux' srcs
        (fun x hx => hn x hx) (fun x hx => hb x hx) rfl (fun x hx => haux x (by simp [hx])) hsrc
        (by simp only [List.length_cons] at hlen; omega)
      refine ⟨s', s, s, rfl, ?_⟩
      simp only [hq, bind_ok, set_ok]
      exact ⟨⟨⟩, _, rfl, ⟨⟩, _, hp, hs'⟩
    | nil =>
      simp only [List.nil_append] at hq
      cases srcs with
      | nil => exact ⟨s, s, s, rfl, by simp [hq, pure_ok]⟩
      | cons c srcs' =>
        obtain ⟨s1, hp, ⟨g, new, hq1, hl1, ha1⟩⟩ := process_PW hW (hsrc c (by simp))
          ({ s with queue := srcs' } : St (Ext K)) (fun x hx => hn x hx) (fun x hx => hb x hx)
        obtain ⟨s', hs'⟩ := ih s1 new srcs' (NamesOK.grow (s := { s with queue := srcs' }) (fun x hx => hn x hx) g)
          (BAgree.grow (s := { s with queue := srcs' }) (fun x hx => hb x hx) g) hq1 ha1
          (fun x hx => hsrc x (by simp [hx]))
          (by simp only [List.length_cons, List.length_nil] at hlen; nlinarith)
        refine ⟨s', s, s, rfl, ?_⟩
        simp only [hq, bind_ok, set_ok]
        exact ⟨⟨⟩, _, rfl, ⟨⟩, _, hp, hs'⟩

/-- **no spurious error on piecewise-linear models**: user names do not start with `$`; the objective and every
constraint are in the fragment `PW` relative to the bounds map (weights at most `W`); the model fits the two fuels
of the Lean model.  Then `linearizeWith` succeeds. -/
theorem linearizeWith_succeeds_pw {m : Model (Ext K)} (b : BoundsMap (Ext K)) (d : List (DomVar (Ext K))) {W : Nat}
    (hW : 1 ≤ W) (hB : budget W ≤ flattenFuel)
    (hnames : ∀ dv ∈ d, SrcName dv.name)
    (hobj : ∃ o, normalizeExp m.objective = some o ∧ PW b o (objReq m) ∧ wt o ≤ W)
    (hcons : ∀ c ∈ m.constraints, SrcPW b W c)
    (hfuel : 4 * W * (m.constraints.length + 1) + 1 ≤ drainFuel) :
    ∃ lm, linearizeWith m b d = .ok lm := by
  obtain ⟨o, hno, hpo, hwo⟩ := hobj
  let s0 : St (Ext K) := { queue := m.constraints, domain := d, bounds := b }
  have hn0 : NamesOK s0 := by
    intro x hx
    obtain ⟨dv, hdv, rfl⟩ := List.mem_map.mp hx
    exact Or.inl (hnames dv hdv)
  have hb0 : BAgree b s0 := fun _ _ => rfl
  obtain ⟨oc, s1, hlin, g, _, hq⟩ := linExp_PW hpo s0 hn0 hb0
  obtain ⟨new, hq1, hl1, ha1⟩ := hq.mono hwo
  obtain ⟨s3, hs3⟩ := drain_PW hW hB drainFuel s1 new m.constraints (hn0.grow g) (hb0.grow g) hq1 ha1 hcons
    (by nlinarith)
  exact ⟨_, (linearizeWith_ok_iff _ _ _ _).mpr ⟨o, s0, oc, s1, s3,
    (simplifyFlat_ok _ _ _).mpr ⟨o, hno, rfl⟩, hlin, hs3, rfl⟩⟩

end Rooc.LinP
