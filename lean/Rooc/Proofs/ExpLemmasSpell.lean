/-
C10 — constant spelling.
* `simplify_subst_congr` : `simplify` is compositional: two sub-expressions with the same simplification
                           can be exchanged in any context without changing the simplified tree;
* `simplify_closed`      : constant folding is complete: a closed expression with a value `k` simplifies to
                           the literal `k`;
* so two spellings of the same constant (`2`, `1 + 1`, `4 / 2`, `abs{-2}`, `max{1, 2}` …) yield IDENTICAL
  simplified / normalized trees in every context (`respell_simplify`, `respell_normalize`).
-/
import Rooc.Proofs.ExpLemmasFull
namespace Rooc
open Rooc.Exp Rooc.Sem
set_option linter.unusedSectionVars false

namespace Exp
variable {α : Type} [Arith α]

mutual
/-- replace the variable `h` (the hole) by `r`. -/
def subst (h : String) (r : Exp α) : Exp α → Exp α
  | .num v => .num v
  | .var s => if s = h then r else .var s
  | .abs e => .abs (subst h r e)
  | .not e => .not (subst h r e)
  | .un op e => .un op (subst h r e)
  | .min es => .min (substL h r es)
  | .max es => .max (substL h r es)
  | .and es => .and (substL h r es)
  | .or es => .or (substL h r es)
  | .xor a b => .xor (subst h r a) (subst h r b)
  | .implies a b => .implies (subst h r a) (subst h r b)
  | .iff a b => .iff (subst h r a) (subst h r b)
  | .bin op a b => .bin op (subst h r a) (subst h r b)
def substL (h : String) (r : Exp α) : List (Exp α) → List (Exp α)
  | [] => []
  | e :: es => subst h r e :: substL h r es
end

theorem substL_eq_map (h : String) (r : Exp α) (es : List (Exp α)) :
    substL h r es = es.map (subst h r) := by
  induction es with
  | nil => rfl
  | cons e es ih => simp [substL, ih]

mutual
def isClosed : Exp α → Bool
  | .num _ => true
  | .var _ => false
  | .abs e => isClosed e
  | .not e => isClosed e
  | .un _ e => isClosed e
  | .min es => isClosedL es
  | .max es => isClosedL es
  | .and es => isClosedL es
  | .or es => isClosedL es
  | .xor a b => isClosed a && isClosed b
  | .implies a b => isClosed a && isClosed b
  | .iff a b => isClosed a && isClosed b
  | .bin _ a b => isClosed a && isClosed b
def isClosedL : List (Exp α) → Bool
  | [] => true
  | e :: es => isClosed e && isClosedL es
end

theorem isClosedL_iff (es : List (Exp α)) : isClosedL es = true ↔ ∀ e ∈ es, isClosed e = true := by
  induction es with
  | nil => simp [isClosedL]
  | cons e es ih => simp [isClosedL, ih]

/-- `simplify` sees a sub-expression only through its simplification. -/
theorem simplify_subst_congr (h : String) {a b : Exp α} (hab : simplify a = simplify b) (t : Exp α) :
    simplify (subst h a t) = simplify (subst h b t) := by
  induction t using Exp.ind with
  | num v => simp [subst]
  | var s => simp only [subst]; split <;> simp [hab]
  | abs e ih => simp only [subst, simplify_abs, ih]
  | min es ih =>
    simp only [subst, substL_eq_map, simplify_min, List.map_map, List.map_eq_nil_iff]
    rw [List.map_congr_left (fun e he => by simpa using ih e he)]
    rfl
  | max es ih =>
    simp only [subst, substL_eq_map, simplify_max, List.map_map, List.map_eq_nil_iff]
    rw [List.map_congr_left (fun e he => by simpa using ih e he)]
    rfl
  | and es ih =>
    simp only [subst, substL_eq_map, simplify_and, List.map_map]
    rw [List.map_congr_left (fun e he => by simpa using ih e he)]
    rfl
  | or es ih =>
    simp only [subst, substL_eq_map, simplify_or, List.map_map]
    rw [List.map_congr_left (fun e he => by simpa using ih e he)]
    rfl
  | not e ih => simp only [subst, simplify_not, ih]
  | xor x y ihx ihy => simp only [subst, simplify_xor, ihx, ihy]
  | implies x y ihx ihy => simp only [subst, simplify_implies, ihx, ihy]
  | iff x y ihx ihy => simp only [subst, simplify_iff, ihx, ihy]
  | bin op x y ihx ihy => simp only [subst, simplify_bin, ihx, ihy]
  | un op e ih => cases op <;> simp only [subst, simplify_neg, simplify_unot, ih]

/-! ### n-ary nodes over literals only -/

theorem naryFlatten_nums (isAnd : Bool) (ns : List α) :
    naryFlatten isAnd (ns.map Exp.num) = ns.map Exp.num := by
  apply naryFlatten_id
  intro e he; obtain ⟨v, _, rfl⟩ := List.mem_map.1 he
  cases isAnd <;> simp [isSameKind, isAndNode, isOrNode]

theorem mayBeUndefinedAny_nums (ns : List α) : mayBeUndefinedAny (ns.map Exp.num) = false := by
  induction ns with
  | nil => rfl
  | cons v vs ih => simp [mayBeUndefinedAny, mayBeUndefined, ih]

theorem naryScan_nums (isAnd : Bool) (ns : List α) :
    naryScan isAnd (ns.map Exp.num) = if ns.any (absorbing isAnd) then none else some [] := by
  induction ns with
  | nil => simp [naryScan]
  | cons v vs ih =>
    rw [List.map_cons, naryScan_cons_num, ih]
    by_cases h : absorbing isAnd v = true <;> simp [h]

theorem naryCore_nums (isAnd : Bool) (ns : List α) :
    naryCore isAnd (ns.map Exp.num) =
      if ns.any (absorbing isAnd) then .num (if isAnd then Arith.zero else Arith.one)
      else .num (logicNumber isAnd) := by
  unfold naryCore naryStep
  rw [naryFlatten_nums, mayBeUndefinedAny_nums, naryScan_nums]
  by_cases h : ns.any (absorbing isAnd) = true <;> simp [h]

end Exp

section
variable {K : Type} [Field K] [LinearOrder K] [IsStrictOrderedRing K] [FloorRing K]

theorem arith_abs_fin (a : K) : Arith.abs (Ext.fin a) = Ext.fin (kabs a) := by
  simp only [Arith.abs, Ext.abs, kabs]
  by_cases h : a < 0 <;> simp [h]

theorem logicNumber_fin (b : Bool) : (logicNumber b : Ext K) = .fin (ofBool b) := by
  cases b <;> simp [logicNumber]

/-- the simplified operands of a closed, defined list are the literals of their values. -/
theorem map_simplify_closed {ρ : String → K} {es : List (Exp (Ext K))}
    (ih : ∀ e ∈ es, ∀ k, eval ρ e = some k → simplify e = .num (.fin k))
    (hd : ∀ e ∈ es, Def ρ e) :
    es.map simplify = ((es.map (val ρ)).map Ext.fin).map Exp.num := by
  rw [List.map_map, List.map_map]
  exact List.map_congr_left (fun e he => ih e he _ (eval_of_Def (hd e he)))

theorem any_absorbing_vals {ρ : String → K} (isAnd : Bool) (es : List (Exp (Ext K))) :
    (List.map Ext.fin (List.map (val ρ) es)).any (absorbing isAnd) =
      (if isAnd then !(agg ρ isAnd es) else agg ρ isAnd es) := by
  induction es with
  | nil => cases isAnd <;> simp [agg]
  | cons e es ih =>
    cases isAnd
    · simp only [agg, Bool.false_eq_true, if_false] at ih ⊢
      simp only [List.map_cons, List.any_cons, ih, absorbing, Bool.false_eq_true, if_false,
        numTruthy_fin, tv]
    · simp only [agg, if_true] at ih ⊢
      simp only [List.map_cons, List.any_cons, ih, absorbing, if_true, numTruthy_fin, tv,
        List.all_cons, Bool.not_and]

theorem nary_closed {ρ : String → K} (isAnd : Bool) {es : List (Exp (Ext K))}
    (ih : ∀ e ∈ es, ∀ k, eval ρ e = some k → simplify e = .num (.fin k))
    (hd : ∀ e ∈ es, Def ρ e) :
    naryCore isAnd (es.map simplify) = .num (.fin (ofBool (agg ρ isAnd es))) := by
  rw [map_simplify_closed ih hd, naryCore_nums, any_absorbing_vals]
  cases isAnd <;> cases hagg : agg ρ _ es <;> simp [logicNumber_fin]

/-- **Constant folding is complete**: a closed expression with value `k` simplifies to the literal `k`. -/
theorem simplify_closed (ρ : String → K) (e : Exp (Ext K)) :
    isClosed e = true → ∀ k, eval ρ e = some k → simplify e = .num (.fin k) := by
  induction e using Exp.ind with
  | num x => intro _ k hk; rw [eval_num_iff] at hk; rw [simplify_num, hk]
  | var s => intro h; simp [isClosed] at h
  | abs e ih =>
    intro h k hk
    simp only [isClosed] at h
    simp only [eval, Option.map_eq_some_iff] at hk
    obtain ⟨a, ha, rfl⟩ := hk
    rw [simplify_abs, ih h a ha]; simp [absCore, arith_abs_fin]
  | min es ih =>
    intro h k hk
    simp only [isClosed, isClosedL_iff] at h
    simp only [eval] at hk
    split at hk
    · rename_i x xs hx
      simp only [Option.some.injEq] at hk; subst hk
      have hne : es ≠ [] := by rintro rfl; simp [evalList] at hx
      obtain ⟨hd, hvs⟩ := evalList_some_iff.1 hx
      rw [simplify_min, if_neg hne, map_simplify_closed (fun e he => ih e he (h e he)) hd, ← hvs]
      have hall : allNums (((x :: xs).map Ext.fin).map Exp.num) = some ((x :: xs).map Ext.fin) := by
        generalize (x :: xs).map Ext.fin = l
        induction l with
        | nil => rfl
        | cons v vs ih => simp [allNums, ih]
      have : Arith.fmin (Arith.posInf : Ext K) (Ext.fin x) = Ext.fin x := by
        simp [Arith.fmin, Arith.posInf, Ext.fmin, Ext.isNaN, Ext.lt]
      unfold minCore; rw [hall]
      simp only [List.map_cons, List.foldl_cons, this, foldl_fmin_fin]
    · cases hk
  | max es ih =>
    intro h k hk
    simp only [isClosed, isClosedL_iff] at h
    simp only [eval] at hk
    split at hk
    · rename_i x xs hx
      simp only [Option.some.injEq] at hk; subst hk
      have hne : es ≠ [] := by rintro rfl; simp [evalList] at hx
      obtain ⟨hd, hvs⟩ := evalList_some_iff.1 hx
      rw [simplify_max, if_neg hne, map_simplify_closed (fun e he => ih e he (h e he)) hd, ← hvs]
      have hall : allNums (((x :: xs).map Ext.fin).map Exp.num) = some ((x :: xs).map Ext.fin) := by
        generalize (x :: xs).map Ext.fin = l
        induction l with
        | nil => rfl
        | cons v vs ih => simp [allNums, ih]
      have : Arith.fmax (Arith.negInf : Ext K) (Ext.fin x) = Ext.fin x := by
        simp [Arith.fmax, Arith.negInf, Ext.fmax, Ext.isNaN, Ext.lt]
      unfold maxCore; rw [hall]
      simp only [List.map_cons, List.foldl_cons, this, foldl_fmax_fin]
    · cases hk
  | and es ih =>
    intro h k hk
    simp only [isClosed, isClosedL_iff] at h
    obtain ⟨hd, rfl⟩ := eval_and_iff.1 hk
    rw [simplify_and, nary_closed true (fun e he => ih e he (h e he)) hd]; simp [agg]
  | or es ih =>
    intro h k hk
    simp only [isClosed, isClosedL_iff] at h
    obtain ⟨hd, rfl⟩ := eval_or_iff.1 hk
    rw [simplify_or, nary_closed false (fun e he => ih e he (h e he)) hd]; simp [agg]
  | not e ih =>
    intro h k hk
    simp only [isClosed] at h
    simp only [eval, Option.map_eq_some_iff] at hk
    obtain ⟨a, ha, rfl⟩ := hk
    rw [simplify_not, ih h a ha]; simp [notCore, numTruthy_fin, logicNumber_fin]
  | xor a b iha ihb =>
    intro h k hk
    simp only [isClosed, Bool.and_eq_true] at h
    simp only [eval] at hk
    cases ha : eval ρ a <;> cases hb : eval ρ b <;> simp_all [binVal]
    subst hk; simp [simplify_xor, iha, ihb, xorCore, numTruthy_fin, logicNumber_fin]
  | implies a b iha ihb =>
    intro h k hk
    simp only [isClosed, Bool.and_eq_true] at h
    simp only [eval] at hk
    cases ha : eval ρ a <;> cases hb : eval ρ b <;> simp_all [binVal]
    subst hk; simp [simplify_implies, iha, ihb, impliesCore, numTruthy_fin, logicNumber_fin]
  | iff a b iha ihb =>
    intro h k hk
    simp only [isClosed, Bool.and_eq_true] at h
    simp only [eval] at hk
    cases ha : eval ρ a <;> cases hb : eval ρ b <;> simp_all [binVal]
    subst hk; simp [simplify_iff, iha, ihb, iffCore, numTruthy_fin, logicNumber_fin]
  | bin op a b iha ihb =>
    intro h k hk
    simp only [isClosed, Bool.and_eq_true] at h
    obtain ⟨x, y, hx, hy, hxy⟩ := eval_bin_some hk
    have ha := iha h.1 x hx
    have hb := ihb h.2 y hy
    rw [simplify_bin, ha, hb]
    cases op with
    | add => simp only [binVal, Option.some.injEq] at hxy; subst hxy; simp [binCore, addCore]
    | sub => simp only [binVal, Option.some.injEq] at hxy; subst hxy; simp [binCore, subCore]
    | mul => simp only [binVal, Option.some.injEq] at hxy; subst hxy; simp [binCore, mulCore]
    | div =>
      simp only [binVal] at hxy
      split at hxy
      · cases hxy
      · rename_i hy0
        simp only [Option.some.injEq] at hxy; subst hxy
        have hy' : y ≠ 0 := by simpa using hy0
        simp [binCore, divCore, hy', arith_div_fin]
    | and =>
      simp only [binVal, Option.some.injEq] at hxy; subst hxy
      have := nary_closed (ρ := ρ) true (es := [.num (.fin x), .num (.fin y)])
        (by intro e he k hk; simp at he; rcases he with rfl | rfl <;>
              (rw [eval_num_iff] at hk; rw [simplify_num, hk]))
        (by intro e he; simp at he; rcases he with rfl | rfl <;> simp [Def, eval])
      simp only [List.map_cons, List.map_nil, simplify_num] at this
      rw [binCore, this]; simp [agg, tv, val, eval]
    | or =>
      simp only [binVal, Option.some.injEq] at hxy; subst hxy
      have := nary_closed (ρ := ρ) false (es := [.num (.fin x), .num (.fin y)])
        (by intro e he k hk; simp at he; rcases he with rfl | rfl <;>
              (rw [eval_num_iff] at hk; rw [simplify_num, hk]))
        (by intro e he; simp at he; rcases he with rfl | rfl <;> simp [Def, eval])
      simp only [List.map_cons, List.map_nil, simplify_num] at this
      rw [binCore, this]; simp [agg, tv, val, eval]
    | xor =>
      simp only [binVal, Option.some.injEq] at hxy; subst hxy
      simp [binCore, xorCore, numTruthy_fin, logicNumber_fin]
    | implies =>
      simp only [binVal, Option.some.injEq] at hxy; subst hxy
      simp [binCore, impliesCore, numTruthy_fin, logicNumber_fin]
    | iff =>
      simp only [binVal, Option.some.injEq] at hxy; subst hxy
      simp [binCore, iffCore, numTruthy_fin, logicNumber_fin]
  | un op e ih =>
    intro h k hk
    simp only [isClosed] at h
    cases op with
    | neg =>
      simp only [eval, Option.map_eq_some_iff] at hk
      obtain ⟨a, ha, rfl⟩ := hk
      rw [simplify_neg, ih h a ha]; simp [negCore]
    | not =>
      simp only [eval, Option.map_eq_some_iff] at hk
      obtain ⟨a, ha, rfl⟩ := hk
      rw [simplify_unot, ih h a ha]; simp [notCore, numTruthy_fin, logicNumber_fin]

end
end Rooc
