/-
Stage D, part 3: `binary_affine_value`, affine 0/1 expressions, fresh Boolean witnesses bounded by affine
expressions.
-/
import Rooc.Proofs.LinD2

set_option linter.unusedSectionVars false
set_option linter.unusedSimpArgs false
set_option linter.unusedVariables false

namespace Rooc.LinP
open Rooc Rooc.Lin Rooc.Sem Rooc.Exp
open Rooc.Lin.Gadget (B01)

variable {K : Type} [Field K] [LinearOrder K] [IsStrictOrderedRing K] [FloorRing K]

/-! ### `binary_affine_value` -/

/-- a well-formed context over Boolean variables whose value is 0/1 when they are. -/
structure BinCtx (d : List (DomVar (Ext K))) (c : Ctx (Ext K)) : Prop where
  ok : CtxOK c
  bool : ∀ x ∈ ctxNames c, isBoolVar d x = true
  b01 : ∀ ρ : String → K, (∀ n ∈ ctxNames c, B01 (ρ n)) → B01 (ctxVal ρ c)

theorem negateCtx_spec {d : List (DomVar (Ext K))} {c : Ctx (Ext K)} (h : BinCtx d c) :
    BinCtx d (negateCtx c) ∧ ctxNames (negateCtx c) = ctxNames c ∧
      ∀ ρ : String → K, ctxVal ρ (negateCtx c) = 1 - ctxVal ρ c := by
  have hm1 : (Arith.ofInt (-1) : Ext K) = Ext.fin (-1) := by simp
  unfold negateCtx
  rw [hm1, ar_one]
  obtain ⟨okm, _, hnm⟩ := mulBy_spec (fun _ => (0 : K)) h.ok (-1)
  have hval : ∀ ρ : String → K, ctxVal ρ ((c.mulBy (Ext.fin (-1))).addRhs (Ext.fin 1)) = 1 - ctxVal ρ c := by
    intro ρ
    rw [addRhs_val ρ (mulBy_spec ρ h.ok (-1)).1, (mulBy_spec ρ h.ok (-1)).2.1]; ring
  have hnames : ctxNames ((c.mulBy (Ext.fin (-1))).addRhs (Ext.fin 1)) = ctxNames c := by
    rw [addRhs_names, hnm]
  refine ⟨⟨addRhs_ok okm 1, ?_, ?_⟩, hnames, hval⟩
  · intro x hx; rw [hnames] at hx; exact h.bool x hx
  · intro ρ hB; rw [hval]; exact (h.b01 ρ (fun n hn => hB n (by rw [hnames]; exact hn))).compl

theorem not_val {w : K} (hw : B01 w) : ofBool (!truthy w) = 1 - w := by
  rcases hw with rfl | rfl <;> simp [ofBool, truthy]

/-- what a successful `binary_affine_value` means. -/
theorem bav_spec {d : List (DomVar (Ext K))} : ∀ (e : Exp (Ext K)) (c : Ctx (Ext K)),
    binaryAffineValue d e = some c →
    BinCtx d c ∧ (∀ x ∈ ctxNames c, x ∈ varsOf e) ∧
      ∀ ρ : String → K, (∀ n ∈ ctxNames c, B01 (ρ n)) → eval ρ e = some (ctxVal ρ c) := by
  intro e
  induction e using Exp.ind with
  | num v =>
    intro c h
    simp only [binaryAffineValue] at h
    split at h
    · rename_i hv
      simp only [Option.some.injEq] at h; subst h
      simp only [Bool.or_eq_true] at hv
      have hk : ∃ k : K, v = Ext.fin k ∧ B01 k := by
        rcases hv with hv | hv
        · exact ⟨0, (ar_eq_zero_iff v).mp hv, Or.inl rfl⟩
        · rw [ar_one] at hv; exact ⟨1, (ar_eq_fin_iff v 1).mp hv, Or.inr rfl⟩
      obtain ⟨k, rfl, hk01⟩ := hk
      refine ⟨⟨fromRhs_ok k, by simp, fun ρ _ => by rw [fromRhs_val]; exact hk01⟩, by simp, ?_⟩
      intro ρ _; rw [fromRhs_val]; exact eval_num_fin ρ k
    · simp at h
  | var n =>
    intro c h
    simp only [binaryAffineValue] at h
    split at h
    · rename_i hb
      simp only [Option.some.injEq] at h; subst h
      rw [ar_one]
      refine ⟨⟨fromVar_ok n 1, ?_, ?_⟩, ?_, ?_⟩
      · intro x hx; simp only [fromVar_names, List.mem_singleton] at hx; subst hx; exact hb
      · intro ρ hB; rw [fromVar_val]; simpa using hB n (by simp)
      · intro x hx; simp only [fromVar_names, List.mem_singleton] at hx; subst hx; simp [varsOf]
      · intro ρ _; rw [fromVar_val, eval_var]; simp
    · simp at h
  | not e ih =>
    intro c h
    simp only [binaryAffineValue, Option.map_eq_some_iff] at h
    obtain ⟨c', hc', rfl⟩ := h
    obtain ⟨hb, hn, hv⟩ := ih c' hc'
    obtain ⟨hb', hn', hv'⟩ := negateCtx_spec hb
    rw [show (c'.mulBy (Arith.ofInt (-1))).addRhs Arith.one = negateCtx c' from rfl]
    refine ⟨hb', ?_, ?_⟩
    · intro x hx; rw [show ctxNames _ = ctxNames c' from hn'] at hx; simpa [varsOf] using hn x hx
    · intro ρ hB
      have hB' : ∀ n ∈ ctxNames c', B01 (ρ n) := fun n hn'' => hB n (by rw [show ctxNames _ = ctxNames c' from hn']; exact hn'')
      rw [eval, hv ρ hB', show ctxVal ρ _ = 1 - ctxVal ρ c' from hv' ρ]
      simp only [Option.map_some, Option.some.injEq]
      exact not_val (hb.b01 ρ hB')
  | un op e ih =>
    intro c h
    cases op with
    | neg => simp [binaryAffineValue] at h
    | not =>
      simp only [binaryAffineValue, Option.map_eq_some_iff] at h
      obtain ⟨c', hc', rfl⟩ := h
      obtain ⟨hb, hn, hv⟩ := ih c' hc'
      obtain ⟨hb', hn', hv'⟩ := negateCtx_spec hb
      rw [show (c'.mulBy (Arith.ofInt (-1))).addRhs Arith.one = negateCtx c' from rfl]
      refine ⟨hb', ?_, ?_⟩
      · intro x hx; rw [show ctxNames _ = ctxNames c' from hn'] at hx; simpa [varsOf] using hn x hx
      · intro ρ hB
        have hB' : ∀ n ∈ ctxNames c', B01 (ρ n) := fun n hn'' => hB n (by rw [show ctxNames _ = ctxNames c' from hn']; exact hn'')
        rw [eval, hv ρ hB', show ctxVal ρ _ = 1 - ctxVal ρ c' from hv' ρ]
        simp only [Option.map_some, Option.some.injEq]
        exact not_val (hb.b01 ρ hB')
  | _ => intro c h; simp [binaryAffineValue] at h

/-! ### affine 0/1 expressions -/

/-- an arithmetic expression over declared used variables, defined everywhere, 0/1-valued wherever the
domains hold. -/
structure BExp (d : List (DomVar (Ext K))) (x : Exp (Ext K)) : Prop where
  ag : AG (inScope d) x
  defd : DefinedE x
  b01 : ∀ ρ : String → K, DomSat ρ d → ∀ v, eval ρ x = some v → B01 v

theorem BExp.mono {d : List (DomVar (Ext K))} {x : Exp (Ext K)} (h : BExp d x) (d' : List (DomVar (Ext K))) :
    BExp (d ++ d') x :=
  ⟨⟨h.ag.1, fun y hy => inScope_append_left (h.ag.2 y hy)⟩, h.defd, fun ρ hd v hv => h.b01 ρ (domSat_left hd) v hv⟩

/-- the names of a Boolean context in scope are 0/1 wherever the domains hold. -/
theorem binCtx_names_b01 {d : List (DomVar (Ext K))} (hnd : (d.map (·.name)).Nodup) {c : Ctx (Ext K)}
    (hb : BinCtx d c) (hsc : ∀ x ∈ ctxNames c, inScope d x) {ρ : String → K} (hd : DomSat ρ d) :
    ∀ n ∈ ctxNames c, B01 (ρ n) :=
  fun n hn => boolOK_of_domSat hnd hd n (hsc n hn) (hb.bool n hn)

theorem BExp.ofBinCtx {d : List (DomVar (Ext K))} (hnd : (d.map (·.name)).Nodup) {c : Ctx (Ext K)}
    (hb : BinCtx d c) (hsc : ∀ x ∈ ctxNames c, inScope d x) : BExp d (ctxToExp c) := by
  refine ⟨AG_ctxToExp hsc, definedE_ctxToExp hb.ok, ?_⟩
  intro ρ hd v hv
  rw [ctxToExp_eval ρ hb.ok] at hv
  simp only [Option.some.injEq] at hv
  rw [← hv]
  exact hb.b01 ρ (binCtx_names_b01 hnd hb hsc hd)

theorem binCtx_of_isBinaryCtx {d : List (DomVar (Ext K))} {c : Ctx (Ext K)} (h : isBinaryCtx c d = true) :
    BinCtx d c := by
  obtain ⟨hok, hb⟩ := isBinaryCtx_sem h
  refine ⟨hok, ?_, fun ρ hB => hb ρ (fun n hn _ => hB n hn)⟩
  intro x hx
  unfold isBinaryCtx at h
  obtain ⟨vars, rhs⟩ := c
  cases vars with
  | nil => simp [ctxNames] at hx
  | cons p rest =>
    cases rest with
    | cons _ _ => simp at h
    | nil =>
      obtain ⟨n, k⟩ := p
      simp only [Bool.and_eq_true] at h
      simp only [ctxNames, List.map_cons, List.map_nil, List.mem_singleton] at hx
      subst hx; exact h.1

/-! ### rows and steps -/

theorem stepOK_addRow {s : St (Ext K)} {row : MidRow (Ext K)} {P : (String → K) → Prop}
    (hiff : ∀ ρ : String → K, Sat ρ s → (rowTrue ρ row ↔ P ρ)) : StepOK s (addRow s row) P :=
  { dom := ⟨[], by simp [addRow]⟩
    sound := fun ρ hs => by
      obtain ⟨h1, h2⟩ := (sat_addRow ρ).mp hs
      exact ⟨h1, (hiff ρ h1).mp h2⟩
    complete := fun ρ hs hp => ⟨ρ, fun _ _ => rfl, (sat_addRow ρ).mpr ⟨hs, (hiff ρ hs).mpr hp⟩⟩ }

/-! ### a fresh Boolean witness bounded by affine expressions -/

theorem freshWitness_ok (s : St (Ext K)) (r : String × St (Ext K)) :
    freshWitness s = .ok r ↔
      r.1 ∉ s.domain.map (·.name) ∧
      r.1 = toString "$logic_witness_" ++ toString s.witnessCount ∧
      r.2 = declState { s with witnessCount := s.witnessCount + 1 } r.1 .bool := by
  unfold freshWitness
  simp only [bind_ok, get_ok, set_ok, pure_ok, declareVariable_ok]
  constructor
  · rintro ⟨a, s1, h1, u, s2, h2, u2, s3, ⟨hf, h3⟩, h4⟩
    cases h1; cases h2
    simp only [Prod.mk.injEq] at h3
    obtain ⟨_, rfl⟩ := h3
    subst h4
    exact ⟨hf, rfl, rfl⟩
  · rintro ⟨hf, hn, hr⟩
    obtain ⟨w, s'⟩ := r
    simp only at hf hn hr
    subst hn; subst hr
    exact ⟨s, s, rfl, ⟨⟩, _, rfl, ⟨⟩, _, ⟨hf, rfl⟩, rfl⟩

theorem LoopInvD.declare {d0 : List (DomVar (Ext K))} {s : St (Ext K)} (h : LoopInvD d0 s) {w : String}
    (ty : VarType (Ext K)) (hf : w ∉ s.domain.map (·.name)) : LoopInvD d0 (declState s w ty) := by
  refine ⟨h.st.declare ty hf, ?_, ?_⟩
  · obtain ⟨d1, hd1⟩ := h.ext0
    exact ⟨d1 ++ [{ name := w, ty := ty, usage := 1 }], by simp [declState, hd1, List.append_assoc]⟩
  · intro r hr
    exact ⟨(h.rowsOK r hr).1, fun x hx => inScope_declState.mpr (Or.inl ((h.rowsOK r hr).2 x hx))⟩

theorem not_inScope_of_fresh {d : List (DomVar (Ext K))} {w : String} (hf : w ∉ d.map (·.name)) : ¬ inScope d w := by
  rintro ⟨dv, hdv, hn, _⟩
  exact hf (List.mem_map.mpr ⟨dv, hdv, hn⟩)

/-- declaring a fresh Boolean: solutions of the new state are the solutions of the old one with a 0/1 value
for the new name. -/
theorem sat_declare_bool {d0 : List (DomVar (Ext K))} {s : St (Ext K)} (hinv : LoopInvD d0 s) {w : String}
    (hf : w ∉ s.domain.map (·.name)) :
    (∀ ρ : String → K, Sat ρ (declState s w .bool) → Sat ρ s ∧ B01 (ρ w)) ∧
    (∀ ρ : String → K, Sat ρ s → ∀ b : K, B01 b → Sat (Function.update ρ w b) (declState s w .bool)) := by
  constructor
  · intro ρ hs
    have hd := domSat_append.mp (show DomSat ρ (s.domain ++ [{ name := w, ty := .bool, usage := 1 }]) from hs.dom)
    refine ⟨⟨hd.1, hs.q, hs.rows⟩, ?_⟩
    have := hd.2 ({ name := w, ty := .bool, usage := 1 } : DomVar (Ext K)) (by simp) (by simp)
    simp [inDomain] at this
    exact this
  · intro ρ hs b hb
    have hag : ∀ x, inScope s.domain x → Function.update ρ w b x = ρ x := by
      intro x hx
      have : x ≠ w := fun h => not_inScope_of_fresh hf (h ▸ hx)
      simp [Function.update, this]
    have hs' := sat_agree hinv hs hag
    refine ⟨?_, hs'.q, hs'.rows⟩
    show DomSat _ (s.domain ++ [{ name := w, ty := .bool, usage := 1 }])
    refine domSat_append.mpr ⟨hs'.dom, ?_⟩
    intro dv hdv _
    simp only [List.mem_singleton] at hdv
    subst hdv
    simp only [Function.update, inDomain]
    rcases hb with rfl | rfl <;> simp

/-- the rows `w ≤ ub` for a list of affine upper bounds. -/
theorem rows_le {d0 : List (DomVar (Ext K))} {w : String} : ∀ (ubs : List (Exp (Ext K))) (s s' : St (Ext K)),
    LoopInvD d0 s → inScope s.domain w →
    (∀ u ∈ ubs, AG (inScope s.domain) u ∧ DefinedE u) →
    seqOK (fun u => emitConstraint (.var w) .le u "") ubs s s' →
    LoopInvD d0 s' ∧ s'.domain = s.domain ∧ s'.queue = s.queue ∧
    ∀ ρ : String → K, Sat ρ s' ↔ Sat ρ s ∧ ∀ u ∈ ubs, ∀ a, eval ρ u = some a → ρ w ≤ a := by
  intro ubs
  induction ubs with
  | nil =>
    intro s s' hinv _ _ h
    simp only [seqOK] at h; subst h
    exact ⟨hinv, rfl, rfl, fun ρ => by simp⟩
  | cons u us ih =>
    intro s s' hinv hw hubs h
    simp only [seqOK] at h
    obtain ⟨s1, h1, h2⟩ := h
    obtain ⟨hag, hdef⟩ := hubs u (by simp)
    obtain ⟨row, hr1, hinv1, hrow⟩ := emitA hinv (AG_var.mpr hw) hag
      (definedE_of_eval (fun ρ => ρ w) (fun ρ => eval_var ρ w)) hdef h1
    simp only at hr1
    subst hr1
    obtain ⟨hinv2, hd2, hq2, hsat2⟩ := ih (addRow s row) s' hinv1 hw
      (fun u' hu' => hubs u' (by simp [hu'])) h2
    refine ⟨hinv2, hd2, hq2, ?_⟩
    intro ρ
    rw [hsat2, sat_addRow]
    obtain ⟨a0, ha0⟩ := hdef ρ
    have hrt : rowTrue ρ row ↔ ρ w ≤ a0 := by
      rw [hrow ρ (ρ w) a0 (eval_var ρ w) ha0]; simp [cmpK]
    constructor
    · rintro ⟨⟨hs, hr⟩, hrest⟩
      refine ⟨hs, ?_⟩
      intro u' hu' a ha
      rcases List.mem_cons.mp hu' with rfl | hu'
      · rw [ha0] at ha; cases ha; exact hrt.mp hr
      · exact hrest u' hu' a ha
    · rintro ⟨hs, hall⟩
      exact ⟨⟨hs, hrt.mpr (hall u (by simp) a0 ha0)⟩, fun u' hu' a ha => hall u' (by simp [hu']) a ha⟩

/-- **the witness step**: a fresh Boolean `w` followed by the rows `w ≤ ub`. -/
theorem witness_rows {d0 : List (DomVar (Ext K))} {s s2 s3 : St (Ext K)} {w : String} {ubs : List (Exp (Ext K))}
    (hinv : LoopInvD d0 s) (hf : freshWitness s = .ok (w, s2))
    (hubs : ∀ u ∈ ubs, AG (inScope s.domain) u ∧ DefinedE u)
    (hseq : seqOK (fun u => emitConstraint (.var w) .le u "") ubs s2 s3) :
    LoopInvD d0 s3 ∧ s3.domain = s.domain ++ [{ name := w, ty := .bool, usage := 1 }] ∧ s3.queue = s.queue ∧
    w ∉ s.domain.map (·.name) ∧
    (∀ ρ : String → K, Sat ρ s3 → Sat ρ s ∧ B01 (ρ w) ∧ ∀ u ∈ ubs, ∀ a, eval ρ u = some a → ρ w ≤ a) ∧
    (∀ ρ : String → K, Sat ρ s → ∀ b : K, B01 b → (∀ u ∈ ubs, ∀ a, eval ρ u = some a → b ≤ a) →
      Sat (Function.update ρ w b) s3) := by
  obtain ⟨hfresh, _, hs2⟩ := (freshWitness_ok _ _).mp hf
  simp only at hfresh hs2
  set sc : St (Ext K) := { s with witnessCount := s.witnessCount + 1 } with hsc
  have hinvc : LoopInvD d0 sc := hinv.of_eq rfl rfl rfl rfl
  have hsatc : ∀ ρ : String → K, Sat ρ sc ↔ Sat ρ s := sat_of_eq rfl rfl rfl
  have hinv2 : LoopInvD d0 s2 := by rw [hs2]; exact hinvc.declare .bool hfresh
  have hw2 : inScope s2.domain w := by rw [hs2]; exact inScope_declState.mpr (Or.inr rfl)
  have hubs2 : ∀ u ∈ ubs, AG (inScope s2.domain) u ∧ DefinedE u := by
    intro u hu
    obtain ⟨h1, h2⟩ := hubs u hu
    refine ⟨⟨h1.1, fun x hx => ?_⟩, h2⟩
    rw [hs2]; exact inScope_declState.mpr (Or.inl (h1.2 x hx))
  obtain ⟨hinv3, hd3, hq3, hsat3⟩ := rows_le ubs s2 s3 hinv2 hw2 hubs2 hseq
  obtain ⟨hdS, hdC⟩ := sat_declare_bool hinvc (w := w) hfresh
  have hupd : ∀ (ρ : String → K) (b : K), ∀ u ∈ ubs, eval (Function.update ρ w b) u = eval ρ u := by
    intro ρ b u hu
    apply eval_congr
    intro x hx
    have hxs := (hubs u hu).1.2 x hx
    have : x ≠ w := fun h => not_inScope_of_fresh hfresh (h ▸ hxs)
    simp [Function.update, this]
  refine ⟨hinv3, by rw [hd3, hs2]; rfl, by rw [hq3, hs2]; rfl, hfresh, ?_, ?_⟩
  · intro ρ hs
    obtain ⟨h2, hle⟩ := (hsat3 ρ).mp hs
    rw [hs2] at h2
    obtain ⟨hc, hb⟩ := hdS ρ h2
    exact ⟨(hsatc ρ).mp hc, hb, hle⟩
  · intro ρ hs b hb hle
    refine (hsat3 _).mpr ⟨by rw [hs2]; exact hdC ρ ((hsatc ρ).mpr hs) b hb, ?_⟩
    intro u hu a ha
    rw [hupd ρ b u hu] at ha
    simpa [Function.update] using hle u hu a ha

end Rooc.LinP
