/-
`lex (fmtExp t) = .ok (fmtToks t)`: the text the expression printer writes is cut by the lexer into exactly
the tokens of its token-level twin (the object of the C11 theorems), for every tree of the sub-language
whose names are plain identifiers.
-/
import Rooc.Proofs.Lex
import Rooc.Proofs.Format
namespace Rooc.Syntax.Proofs
open Rooc Rooc.Syntax

theorem digitChar_isDigit : ∀ d, d < 10 → isDigit (digitChar d) = true := by decide

theorem natDigits_spec (n : Nat) : natDigits n ≠ [] ∧ ∀ d ∈ natDigits n, isDigit d = true := by
  induction n using Nat.strongRecOn with
  | _ n ih =>
    rw [natDigits]
    split
    · rename_i h
      exact ⟨by simp, by intro d hd; simp at hd; subst hd; exact digitChar_isDigit n h⟩
    · rename_i h
      obtain ⟨_, h2⟩ := ih (n / 10) (by omega)
      refine ⟨by simp, ?_⟩
      intro d hd
      rcases List.mem_append.mp hd with hd | hd
      · exact h2 d hd
      · simp at hd; subst hd; exact digitChar_isDigit _ (by omega)

/-- a float text `ddd.ddd` -/
def FloatParts (s : String) : Prop :=
  ∃ ds fs : List Char, s.toList = ds ++ '.' :: fs ∧ ds ≠ [] ∧ fs ≠ [] ∧ (∀ d ∈ ds, isDigit d = true) ∧ (∀ d ∈ fs, isDigit d = true)

/-- **Contract of `Display for Primitive::Number`** assumed by the text-level theorems (number tokens are
opaque in the printer model): the text printed for a non-integral number is a float literal `ddd.ddd` of the
grammar.  Its value half — `text.parse::<f64>()` gives back the very same `f64`, and the text is what Rust's
`f64` Display prints — is checked by the harness on every number literal of every generated program
(`number-display-changes-value`), and the printed program is diffed byte-for-byte. -/
abbrev NumTokenOk (s : String) : Prop := FloatParts s

/-- trees whose printed text stays inside the lexer's sub-language: plain names, float literals (a call named
`range` is included since 10f80da: it is printed as a call, the sugar is confined to iterators) -/
def TextOK : PExp → Prop
  | .int _ => True
  | .num s => NumTokenOk s
  | .bool _ => True
  | .var n => plainWord n.toList = true
  | .call n args => plainWord n.toList = true ∧ TextOKs args
  | .un _ e => TextOK e
  | .bin _ l r => TextOK l ∧ TextOK r
  | _ => False
where TextOKs : List PExp → Prop
  | [] => True
  | a :: as => TextOK a ∧ TextOKs as

theorem plain_no_underscore {cs : List Char} (h : plainWord cs = true) : cs.contains '_' = false := by
  cases cs with
  | nil => simp [plainWord] at h
  | cons c tl =>
    simp only [plainWord, Bool.and_eq_true, List.all_eq_true, Bool.or_eq_true] at h
    simp only [List.contains_eq_mem, decide_eq_false_iff_not, List.mem_cons, not_or]
    refine ⟨fun e => ?_, fun hm => ?_⟩
    · have := h.1; rw [← e] at this; exact absurd this (by decide)
    · rcases h.2 _ hm with h' | h' <;> exact absurd h' (by decide)

theorem plain_no_escape {n : String} (h : plainWord n.toList = true) : needsEscape n = false := by
  unfold needsEscape
  cases hn : n.toList with
  | nil => rw [hn] at h; simp [plainWord] at h
  | cons c tl =>
    rw [hn] at h
    have hnu := plain_no_underscore h
    simp only [plainWord, Bool.and_eq_true] at h
    have h1 : (c == '$') = false := by
      have : c ≠ '$' := letter_ne h.1 (by decide)
      simpa using this
    have h2 : (c == '_') = false := by
      have : c ≠ '_' := letter_ne h.1 (by decide)
      simpa using this
    simp only [List.dropWhile, h1, h2]
    exact hnu

theorem delim_space (r : List Char) : Delim (' ' :: r) := Or.inr ⟨_, _, rfl, Or.inl rfl⟩
theorem delim_lpar (r : List Char) : Delim ('(' :: r) := Or.inr ⟨_, _, rfl, Or.inr (Or.inl rfl)⟩
theorem delim_rpar (r : List Char) : Delim (')' :: r) := Or.inr ⟨_, _, rfl, Or.inr (Or.inr (Or.inl rfl))⟩
theorem delim_comma (r : List Char) : Delim (',' :: r) := Or.inr ⟨_, _, rfl, Or.inr (Or.inr (Or.inr rfl))⟩

/-- a binary operator between two spaces -/
theorem lexTo_binop (op : BinOp) (r : List Char) (pw : Bool) (acc : List Tok) :
    LexTo ((binOpText op).toList ++ ' ' :: r) pw acc (' ' :: r) (binKwTok op :: acc) := by
  cases op
  · exact lexTo_plus _ pw acc
  · exact lexTo_minus _ pw acc (by intro tl h; cases h)
  · exact lexTo_star _ pw acc
  · exact lexTo_slash r pw acc
  · exact lexTo_word "and".toList _ pw acc (by decide) (delim_space r)
  · exact lexTo_word "or".toList _ pw acc (by decide) (delim_space r)
  · exact lexTo_word "xor".toList _ pw acc (by decide) (delim_space r)
  · exact lexTo_word "implies".toList _ pw acc (by decide) (delim_space r)
  · exact lexTo_word "iff".toList _ pw acc (by decide) (delim_space r)

/-- first character of the text of a leaf: a letter or a digit, never `>` -/
theorem leaf_head {e : PExp} (h : TextOK e) (hl : e.isLeaf = true) :
    ∀ (rest tl : List Char), (fmtExp e).toList ++ rest ≠ '>' :: tl := by
  intro rest tl
  cases e with
  | int v =>
    obtain ⟨hne, hd⟩ := natDigits_spec v
    simp only [fmtExp, String.toList_ofList]
    cases hn : natDigits v with
    | nil => exact absurd hn hne
    | cons c cs =>
      intro heq; simp at heq
      have := hd c (by rw [hn]; exact List.mem_cons_self)
      rw [heq.1] at this; exact absurd this (by decide)
  | num s =>
    obtain ⟨ds, fs, hs, hne, _, hd, _⟩ := h
    simp only [fmtExp, hs]
    cases ds with
    | nil => exact absurd rfl hne
    | cons c cs =>
      intro heq; simp at heq
      have := hd c List.mem_cons_self
      rw [heq.1] at this; exact absurd this (by decide)
  | bool b => cases b <;> simp [fmtExp] <;> decide
  | var n =>
    have hw : plainWord n.toList = true := h
    have hnu : needsEscape n = false := plain_no_escape hw
    simp only [fmtExp, varText, hnu]
    cases hn : n.toList with
    | nil => rw [hn] at hw; simp [plainWord] at hw
    | cons c cs =>
      rw [hn] at hw
      simp only [plainWord, Bool.and_eq_true] at hw
      intro heq; simp [hn] at heq
      have := hw.1; rw [heq.1] at this; exact absurd this (by decide)
  | call n args =>
    have hw := h.1
    have hct : ∀ ss, callText n ss = n ++ "(" ++ joinWith ", " ss ++ ")" := fun _ => rfl
    simp only [fmtExp, hct, String.toList_append]
    cases hn : n.toList with
    | nil => rw [hn] at hw; simp [plainWord] at hw
    | cons c cs =>
      rw [hn] at hw
      simp only [plainWord, Bool.and_eq_true] at hw
      intro heq; simp at heq
      have := hw.1; rw [heq.1] at this; exact absurd this (by decide)
  | un _ _ => simp [PExp.isLeaf] at hl
  | bin _ _ _ => simp [PExp.isLeaf] at hl
  | _ => simp [TextOK] at h

theorem rev_cons_append (x : Tok) (xs acc : List Tok) : (x :: xs).reverse ++ acc = xs.reverse ++ x :: acc := by simp

mutual
/-- the text of `t` followed by a delimiter is cut into the tokens of `fmtToks t` -/
theorem lexExp : (t : PExp) → TextOK t → ∀ (rest : List Char) (pw : Bool) (acc : List Tok), Delim rest →
    LexTo ((fmtExp t).toList ++ rest) pw acc rest ((fmtToks t).reverse ++ acc)
  | .int v, _, rest, pw, acc, hd => by
    obtain ⟨hne, hds⟩ := natDigits_spec v
    simpa [fmtExp, fmtToks] using lexTo_int (natDigits v) rest pw acc hne hds hd
  | .num s, h, rest, pw, acc, hd => by
    obtain ⟨ds, fs, hs, hne, hnf, hds, hfs⟩ := h
    have := lexTo_float ds fs rest pw acc hne hnf hds hfs hd
    have hs' : String.ofList (ds ++ '.' :: fs) = s := by rw [← hs]; simp
    rw [hs'] at this
    simpa [fmtExp, fmtToks, hs] using this
  | .bool true, _, rest, pw, acc, hd => by
    simpa [fmtExp, fmtToks] using lexTo_word "true".toList rest pw acc (by decide) hd
  | .bool false, _, rest, pw, acc, hd => by
    simpa [fmtExp, fmtToks] using lexTo_word "false".toList rest pw acc (by decide) hd
  | .var n, h, rest, pw, acc, hd => by
    have hw : plainWord n.toList = true := h
    have hnu : needsEscape n = false := plain_no_escape hw
    simpa [fmtExp, fmtToks, varText, hnu] using lexTo_word n.toList rest pw acc hw hd
  | .call n args, h, rest, pw, acc, hd => by
    have hct : ∀ ss, callText n ss = n ++ "(" ++ joinWith ", " ss ++ ")" := fun _ => rfl
    have ha := lexArgs args h.2 (')' :: rest) false (.lpar :: .word n :: acc) (delim_rpar rest)
    have h1 := lexTo_word n.toList ('(' :: ((joinWith ", " (fmtList args)).toList ++ ')' :: rest)) pw acc h.1 (delim_lpar _)
    have h2 := fun pw1 => lexTo_lpar ((joinWith ", " (fmtList args)).toList ++ ')' :: rest) pw1 (.word (String.ofList n.toList) :: acc)
    have h3 := fun pw1 => lexTo_rpar rest pw1 ((fmtToksArgs args).reverse ++ .lpar :: .word n :: acc)
    have := (h1.trans h2).trans (fun pw1 => by
      have := lexArgs args h.2 (')' :: rest) pw1 (.lpar :: .word n :: acc) (delim_rpar rest)
      simpa using this.trans h3)
    simpa [fmtExp, hct, fmtToks, String.toList_append] using this
  | .un u e, h, rest, pw, acc, hd => by
    have ih := lexExp e h
    -- the operand: bare leaf or parenthesised
    have hop : ∀ pw1 acc1, LexTo ((wrapLeaf e (fmtExp e)).toList ++ rest) pw1 acc1 rest
        ((if e.isLeaf then fmtToks e else parenToks (fmtToks e)).reverse ++ acc1) := by
      intro pw1 acc1
      by_cases hl : e.isLeaf = true
      · simpa [wrapLeaf, hl] using ih rest pw1 acc1 hd
      · have h1 := lexTo_lpar ((fmtExp e).toList ++ ')' :: rest) pw1 acc1
        have h2 := fun pw2 => ih (')' :: rest) pw2 (.lpar :: acc1) (delim_rpar rest)
        have h3 := fun pw2 => lexTo_rpar rest pw2 ((fmtToks e).reverse ++ .lpar :: acc1)
        have := (h1.trans h2).trans h3
        simpa [wrapLeaf, hl, parenToks, String.toList_append] using this
    cases u with
    | neg =>
      have hgt : ∀ tl, (wrapLeaf e (fmtExp e)).toList ++ rest ≠ '>' :: tl := by
        intro tl
        by_cases hl : e.isLeaf = true
        · simpa [wrapLeaf, hl] using leaf_head (e := e) h hl rest tl
        · simp [wrapLeaf, hl, String.toList_append]
      have h1 := lexTo_minus ((wrapLeaf e (fmtExp e)).toList ++ rest) pw acc hgt
      have := h1.trans (fun pw1 => hop pw1 (.minus :: acc))
      simpa [fmtExp, fmtToks, unOpText, unKwTok, String.toList_append] using this
    | not =>
      have h1 := lexTo_word "not".toList (' ' :: ((wrapLeaf e (fmtExp e)).toList ++ rest)) pw acc (by decide) (delim_space _)
      have h2 := fun pw1 => lexTo_space ((wrapLeaf e (fmtExp e)).toList ++ rest) pw1 (.word "not" :: acc)
      have := (h1.trans h2).trans (fun pw1 => hop pw1 (.word "not" :: acc))
      simpa [fmtExp, fmtToks, unOpText, unKwTok, String.toList_append] using this
  | .bin op l r, h, rest, pw, acc, hd => by
    have ihl := lexExp l h.1
    have ihr := lexExp r h.2
    -- an operand under `op`
    have hw : ∀ (side : Bool) (e : PExp), (∀ rest pw acc, Delim rest → LexTo ((fmtExp e).toList ++ rest) pw acc rest ((fmtToks e).reverse ++ acc)) →
        ∀ rest1 pw1 acc1, Delim rest1 →
        LexTo ((wrapOperand op side e (fmtExp e)).toList ++ rest1) pw1 acc1 rest1
          ((if printsParen op side e then parenToks (fmtToks e) else fmtToks e).reverse ++ acc1) := by
      intro side e ihe rest1 pw1 acc1 hd1
      unfold wrapOperand
      by_cases hp : printsParen op side e = true
      · have h1 := lexTo_lpar ((fmtExp e).toList ++ ')' :: rest1) pw1 acc1
        have h2 := fun pw2 => ihe (')' :: rest1) pw2 (.lpar :: acc1) (delim_rpar rest1)
        have h3 := fun pw2 => lexTo_rpar rest1 pw2 ((fmtToks e).reverse ++ .lpar :: acc1)
        have := (h1.trans h2).trans h3
        simpa [hp, parenToks, String.toList_append] using this
      · simpa [hp] using ihe rest1 pw1 acc1 hd1
    let R := (wrapOperand op true r (fmtExp r)).toList
    have h1 := hw false l ihl (' ' :: ((binOpText op).toList ++ ' ' :: (R ++ rest))) pw acc (delim_space _)
    have h2 := fun pw1 => lexTo_space ((binOpText op).toList ++ ' ' :: (R ++ rest)) pw1
      ((if printsParen op false l then parenToks (fmtToks l) else fmtToks l).reverse ++ acc)
    have h3 := fun pw1 => lexTo_binop op (R ++ rest) pw1
      ((if printsParen op false l then parenToks (fmtToks l) else fmtToks l).reverse ++ acc)
    have h4 := fun pw1 => lexTo_space (R ++ rest) pw1
      (binKwTok op :: ((if printsParen op false l then parenToks (fmtToks l) else fmtToks l).reverse ++ acc))
    have h5 := fun pw1 => hw true r ihr rest pw1
      (binKwTok op :: ((if printsParen op false l then parenToks (fmtToks l) else fmtToks l).reverse ++ acc)) hd
    have := (((h1.trans h2).trans h3).trans h4).trans h5
    simpa [fmtExp, fmtToks, String.toList_append, R] using this
  | .str _, h, _, _, _, _ | .prim _, h, _, _, _, _ | .cvar _ _, h, _, _, _, _ | .access _ _, h, _, _, _, _
  | .block _ _, h, _, _, _, _ | .scoped _ _ _ _, h, _, _, _, _ => by simp [TextOK] at h
/-- comma separated arguments, followed by `)` -/
theorem lexArgs : (args : List PExp) → TextOK.TextOKs args → ∀ (rest : List Char) (pw : Bool) (acc : List Tok), Delim rest →
    LexTo ((joinWith ", " (fmtList args)).toList ++ rest) pw acc rest ((fmtToksArgs args).reverse ++ acc)
  | [], _, rest, pw, acc, _ => by simpa [fmtList, joinWith, fmtToksArgs] using LexTo.refl rest pw acc
  | [a], h, rest, pw, acc, hd => by
    simpa [fmtList, joinWith, fmtToksArgs] using lexExp a h.1 rest pw acc hd
  | a :: b :: more, h, rest, pw, acc, hd => by
    have iha := lexExp a h.1
    have ihr := lexArgs (b :: more) h.2
    let T := (joinWith ", " (fmtList (b :: more))).toList
    have h1 := iha (',' :: ' ' :: (T ++ rest)) pw acc (delim_comma _)
    have h2 := fun pw1 => lexTo_comma (' ' :: (T ++ rest)) pw1 ((fmtToks a).reverse ++ acc)
    have h3 := fun pw1 => lexTo_space (T ++ rest) pw1 (.comma :: ((fmtToks a).reverse ++ acc))
    have h4 := fun pw1 => ihr rest pw1 (.comma :: ((fmtToks a).reverse ++ acc)) hd
    have := ((h1.trans h2).trans h3).trans h4
    simpa [fmtList, joinWith, fmtToksArgs, String.toList_append, T] using this
end

/-- **The printed text is cut into the tokens of the token-level printer.** -/
theorem lex_fmtExp (t : PExp) (h : TextOK t) : lex (fmtExp t).toList = .ok (fmtToks t) := by
  have := lex_of_lexTo (by simpa using lexExp t h [] false [] (Or.inl rfl))
  simpa using this

end Rooc.Syntax.Proofs
