/-
C01 / C02 for the whole pipeline `Compile.linearize` under the STATIC contract: well-scoped + finite literals.
The clause "no and/or node collapses to a non-0/1 value" (`NCon`, the harness flag `nary-singleton-nonbinary`) is
no longer assumed: `Linearizer::linearize` checks it up front on its scratch context (rooc 81a4b76 + e35561f) and
`logicModel_of_scratchOK` turns a passed check into the clause.
-/
import Rooc.Proofs.LinCheck
import Rooc.Proofs.LinOpt
import Rooc.Proofs.LinTrace2

set_option linter.unusedSectionVars false
set_option linter.unusedSimpArgs false
set_option linter.unusedVariables false

namespace Rooc.LinP
open Rooc Rooc.Lin Rooc.Sem Rooc.Exp Rooc.BoundsProofs

variable {K : Type} [Field K] [LinearOrder K] [IsStrictOrderedRing K] [FloorRing K]

/-- a model that compiles under the static contract satisfies the contract of the `linearizeWith` theorems. -/
theorem logicModel_of_compile {m : Model (Ext K)} {tol : Ext K} {maxSteps : Nat} {lm : LinModel (Ext K)}
    (h : Compile.linearize m tol maxSteps = .ok lm) (hm : StaticModel m) (hsh : AssertShape m)
    (hok : DeclOK m.domain) : LogicModel m m.domain :=
  logicModel_of_scratchOK hm hsh hok ((compile_ok_iff m tol maxSteps lm).mp h).1

/-- **`NCon` follows from "compile succeeds"**: at every assignment of the declared domains no and/or node of the
objective or of a constraint side collapses to a non-0/1 value. -/
theorem ncon_of_compile_ok {m : Model (Ext K)} {tol : Ext K} {maxSteps : Nat} {lm : LinModel (Ext K)}
    (h : Compile.linearize m tol maxSteps = .ok lm) (hm : StaticModel m) (hok : DeclOK m.domain) :
    NCon m.domain m.objective ∧
    ∀ c ∈ m.constraints, NCon m.domain c.lhs ∧ (c.isAssert = false → NCon m.domain c.rhs) := by
  have hnc := ncon_of_scratchOK hm hok ((compile_ok_iff m tol maxSteps lm).mp h).1
  exact ⟨fun ρ hd => (hnc ρ hd).1, fun c hc => ⟨fun ρ hd => ((hnc ρ hd).2 c hc).1,
    fun hA ρ hd => ((hnc ρ hd).2 c hc).2 hA⟩⟩

theorem compile_feasible_iff_static {m : Model (Ext K)} {t : K} (ht : 0 ≤ t) {maxSteps : Nat} {lm : LinModel (Ext K)}
    (h : Compile.linearize m (.fin t) maxSteps = .ok lm)
    (hm : StaticModel m) (hsh : AssertShape m) (hok : DeclOK m.domain)
    (ht1 : t < 1 ∨ NoIntVars m.domain) (ρ : String → K) :
    srcFeasible m ρ = true ↔
      ∃ ρ' : String → K, (∀ x, inScope m.domain x → ρ' x = ρ x) ∧ linFeasible lm ρ' = true :=
  compile_feasible_iff_logic ht h (logicModel_of_compile h hm hsh hok) hsh hok ht1 ρ

theorem compile_objective_static {m : Model (Ext K)} {t : K} (ht : 0 ≤ t) {maxSteps : Nat} {lm : LinModel (Ext K)}
    (h : Compile.linearize m (.fin t) maxSteps = .ok lm)
    (hm : StaticModel m) (hsh : AssertShape m) (hok : DeclOK m.domain)
    (ht1 : t < 1 ∨ NoIntVars m.domain) (ρ : String → K) (hs : srcFeasible m ρ = true) (v : K)
    (hv : eval ρ m.objective = some v) :
    (∀ ρ' : String → K, (∀ x, inScope m.domain x → ρ' x = ρ x) → linFeasible lm ρ' = true →
        ∃ w, linObjective lm ρ' = some w ∧ rel (objReq m) w v) ∧
    (∃ ρ' : String → K, (∀ x, inScope m.domain x → ρ' x = ρ x) ∧ linFeasible lm ρ' = true ∧
        linObjective lm ρ' = some v) :=
  compile_objective_logic ht h (logicModel_of_compile h hm hsh hok) hsh hok ht1 ρ hs v hv

theorem objLink_of_compile_static {m : Model (Ext K)} {t : K} (ht : 0 ≤ t) {maxSteps : Nat} {lm : LinModel (Ext K)}
    (h : Compile.linearize m (.fin t) maxSteps = .ok lm)
    (hm : StaticModel m) (hsh : AssertShape m) (hok : DeclOK m.domain)
    (ht1 : t < 1 ∨ NoIntVars m.domain) : ObjLink m lm :=
  objLink_of_compile ht h (logicModel_of_compile h hm hsh hok) hsh hok ht1

/-- compile succeeds ⇒ the objective and every constraint side are defined on the declared domains, under the
static contract alone. -/
theorem compile_sides_defined_static {m : Model (Ext K)} {tol : Ext K} {maxSteps : Nat} {lm : LinModel (Ext K)}
    (h : Compile.linearize m tol maxSteps = .ok lm) (hm : StaticModel m) (hsh : AssertShape m)
    (hok : DeclOK m.domain) :
    DefOn m.domain m.objective ∧
    ∀ c ∈ m.constraints, DefOn m.domain c.lhs ∧ (c.isAssert = false → DefOn m.domain c.rhs) :=
  compile_sides_defined h (logicModel_of_compile h hm hsh hok)

end Rooc.LinP
