/-
Stage C, part 1: combinators for the specification and the arithmetic constructors of `linExp`
(over arbitrary sub-expressions: the requirement flips through `-`, negative scales and divisions are the
monotonicity step).
-/
import Rooc.Proofs.LinSpec

set_option linter.unusedSectionVars false
set_option linter.unusedSimpArgs false
set_option linter.unusedVariables false

namespace Rooc.LinP
open Rooc Rooc.Lin Rooc.Sem Rooc.Exp
open Rooc.Lin.Gadget (B01)

variable {K : Type} [Field K] [LinearOrder K] [IsStrictOrderedRing K] [FloorRing K]
variable {Src : Constraint (Ext K) → Prop}

/-- post-processing the context of one call. -/
theorem Spec.map1 {e1 e : Exp (Ext K)} {req1 req : Req} {s s1 : St (Ext K)} {c1 c : Ctx (Ext K)} (F : K → K)
    (A : Spec Src e1 req1 s c1 s1) (hcok : CtxOK c) (hcn : ∀ x ∈ ctxNames c, x ∈ ctxNames c1)
    (hcv : ∀ ρ : String → K, ctxVal ρ c = F (ctxVal ρ c1))
    (hsem : ∀ (ρ : String → K) v, DomSat ρ s.domain → eval ρ e = some v →
      ∃ v1, eval ρ e1 = some v1 ∧ (∀ a1, rel req1 a1 v1 → rel req (F a1) v) ∧ F v1 = v) :
    Spec Src e req s c s1 :=
  { rows := A.rows, dom := A.dom, queue := A.queue, inv := A.inv, cok := hcok,
    cnames := fun x hx => A.cnames x (hcn x hx),
    sound := by
      intro ρ hd hq v hv
      obtain ⟨v1, h1, hr, _⟩ := hsem ρ v (A.keepsDom hd) hv
      rw [hcv]; exact hr _ (A.sound ρ hd hq v1 h1)
    complete := by
      intro ρ hd hq v hv
      obtain ⟨v1, h1, _, hF⟩ := hsem ρ v hd hv
      obtain ⟨ρ', hag, hd', hq', hval⟩ := A.complete ρ hd hq v1 h1
      exact ⟨ρ', hag, hd', hq', by rw [hcv, hval, hF]⟩ }

/-- two calls in sequence, contexts combined by `F`. -/
theorem Spec.seq2 {e1 e2 e : Exp (Ext K)} {req1 req2 req : Req} {s s1 s2 : St (Ext K)}
    {c1 c2 c : Ctx (Ext K)} (F : K → K → K)
    (A : Spec Src e1 req1 s c1 s1) (B : Spec Src e2 req2 s1 c2 s2)
    (hv2 : ∀ x ∈ varsOf e2, inScope s.domain x)
    (hcok : CtxOK c) (hcn : ∀ x ∈ ctxNames c, x ∈ ctxNames c1 ∨ x ∈ ctxNames c2)
    (hcv : ∀ ρ : String → K, ctxVal ρ c = F (ctxVal ρ c1) (ctxVal ρ c2))
    (hsem : ∀ (ρ : String → K) v, eval ρ e = some v →
      ∃ v1 v2, eval ρ e1 = some v1 ∧ eval ρ e2 = some v2 ∧
        (∀ a1 a2, rel req1 a1 v1 → rel req2 a2 v2 → rel req (F a1 a2) v) ∧ F v1 v2 = v) :
    Spec Src e req s c s2 := by
  obtain ⟨d1, hd1⟩ := A.dom
  obtain ⟨d2, hd2⟩ := B.dom
  obtain ⟨q1, hq1⟩ := A.queue
  obtain ⟨q2, hq2⟩ := B.queue
  refine
  { rows := by rw [B.rows, A.rows]
    dom := ⟨d1 ++ d2, by rw [hd2, hd1, List.append_assoc]⟩
    queue := ⟨q2 ++ q1, by rw [hq2, hq1, List.append_assoc]⟩
    inv := B.inv, cok := hcok
    cnames := ?_, sound := ?_, complete := ?_ }
  · intro x hx
    rcases hcn x hx with h | h
    · exact B.scopeMono (A.cnames x h)
    · exact B.cnames x h
  · intro ρ hd hq v hv
    obtain ⟨v1, v2, h1, h2, hr, _⟩ := hsem ρ v hv
    rw [hcv]
    exact hr _ _ (A.sound ρ (B.keepsDom hd) (B.keepsQ hq) v1 h1) (B.sound ρ hd hq v2 h2)
  · intro ρ hd hq v hv
    obtain ⟨v1, v2, h1, h2, _, hF⟩ := hsem ρ v hv
    obtain ⟨ρ1, hag1, hdm1, hqs1, hval1⟩ := A.complete ρ hd hq v1 h1
    have h2' : eval ρ1 e2 = some v2 := by
      rw [eval_congr e2 (fun x hx => hag1 x (hv2 x hx))]; exact h2
    obtain ⟨ρ2, hag2, hdm2, hqs2, hval2⟩ := B.complete ρ1 hdm1 hqs1 v2 h2'
    refine ⟨ρ2, fun x hx => by rw [hag2 x (A.scopeMono hx), hag1 x hx], hdm2, hqs2, ?_⟩
    rw [hcv, hval2, ctxVal_congr c1 (fun x hx => hag2 x (A.cnames x hx)), hval1, hF]

/-! ### definedness of sub-expressions (evaluation is strict) -/

theorem DefinedE.bin_left {op : BinOp} {a b : Exp (Ext K)} (h : DefinedE (.bin op a b)) : DefinedE a := by
  intro ρ; obtain ⟨v, hv⟩ := h ρ; obtain ⟨x, _, hx, _, _⟩ := eval_bin_some hv; exact ⟨x, hx⟩
theorem DefinedE.bin_right {op : BinOp} {a b : Exp (Ext K)} (h : DefinedE (.bin op a b)) : DefinedE b := by
  intro ρ; obtain ⟨v, hv⟩ := h ρ; obtain ⟨_, y, _, hy, _⟩ := eval_bin_some hv; exact ⟨y, hy⟩
theorem DefinedE.neg {a : Exp (Ext K)} (h : DefinedE (.un .neg a)) : DefinedE a := by
  intro ρ; obtain ⟨v, hv⟩ := h ρ; obtain ⟨x, hx, _⟩ := eval_neg_some hv; exact ⟨x, hx⟩
theorem DefinedE.num {x : Ext K} (h : DefinedE (.num x)) : ∃ k : K, x = .fin k := by
  obtain ⟨v, hv⟩ := h (fun _ => 0); exact ⟨v, eval_num_some hv⟩

theorem Pre.bin_left {op : BinOp} {a b : Exp (Ext K)} {s : St (Ext K)} (h : Pre Src (.bin op a b) s) :
    Pre Src a s :=
  ⟨h.inv, fun x hx => h.vars x (by simp [varsOf, hx]), h.defined.bin_left⟩

theorem Pre.bin_right {op : BinOp} {a b : Exp (Ext K)} {s : St (Ext K)} (h : Pre Src (.bin op a b) s) :
    Pre Src b s :=
  ⟨h.inv, fun x hx => h.vars x (by simp [varsOf, hx]), h.defined.bin_right⟩

/-- the contract of the second call of a sequence. -/
theorem Pre.after {e1 e2 : Exp (Ext K)} {req1 : Req} {s s1 : St (Ext K)} {c1 : Ctx (Ext K)}
    (A : Spec Src e1 req1 s c1 s1) (hv : ∀ x ∈ varsOf e2, inScope s.domain x) (hd : FinE e2) :
    Pre Src e2 s1 :=
  ⟨A.inv, fun x hx => A.scopeMono (hv x hx), hd⟩

/-- the induction hypothesis shape. -/
def SpecHolds (Src : Constraint (Ext K) → Prop) (e : Exp (Ext K)) : Prop :=
  ∀ (req : Req) (s : St (Ext K)) (c : Ctx (Ext K)) (s' : St (Ext K)),
    Pre Src e s → linExp e req s = .ok (c, s') → Spec Src e req s c s'

/-! ### leaves -/

theorem spec_num (x : Ext K) : SpecHolds Src (.num x) := by
  intro req s c s' hpre h
  rw [linExp] at h
  simp only [pure_ok, Prod.mk.injEq] at h
  obtain ⟨rfl, rfl⟩ := h
  obtain ⟨k, rfl⟩ := hpre.defined.num
  refine Spec.pure hpre.inv (fromRhs_ok k) (by simp) ?_
  intro ρ v hv
  rw [eval_num_fin] at hv
  simp only [Option.some.injEq] at hv
  rw [fromRhs_val, hv]

theorem spec_var (n : String) : SpecHolds Src (.var n) := by
  intro req s c s' hpre h
  rw [linExp] at h
  simp only [pure_ok, Prod.mk.injEq] at h
  obtain ⟨rfl, rfl⟩ := h
  rw [ar_one]
  refine Spec.pure hpre.inv (fromVar_ok n 1) ?_ ?_
  · intro x hx
    simp only [fromVar_names, List.mem_singleton] at hx
    subst hx
    exact hpre.vars x (by simp [varsOf])
  · intro ρ v hv
    rw [eval_var] at hv
    simp only [Option.some.injEq] at hv
    rw [fromVar_val, ← hv]; ring

/-! ### `+` and `-` -/

theorem spec_add {l r : Exp (Ext K)} (ihl : SpecHolds Src l) (ihr : SpecHolds Src r) :
    SpecHolds Src (.bin .add l r) := by
  intro req s c s' hpre h
  rw [linExp] at h
  simp only [bind_ok, pure_ok, Prod.mk.injEq] at h
  obtain ⟨x, s1, h1, y, s2, h2, rfl, rfl⟩ := h
  have A := ihl _ _ _ _ hpre.bin_left h1
  have hvr : ∀ z ∈ varsOf r, inScope s.domain z := hpre.bin_right.vars
  have B := ihr _ _ _ _ (Pre.after A hvr hpre.defined.bin_right) h2
  obtain ⟨ok, _, _⟩ := mergeAdd_spec (fun _ => (0 : K)) A.cok B.cok
  refine Spec.seq2 (· + ·) A B hvr ok (fun z hz => (mergeAdd_names x y z).mp hz)
    (fun ρ => (mergeAdd_spec ρ A.cok B.cok).2.1) ?_
  intro ρ v hv
  obtain ⟨p, q, hp, hq, hpq⟩ := eval_bin_some hv
  simp [binVal] at hpq
  exact ⟨p, q, hp, hq, fun a1 a2 r1 r2 => by rw [← hpq]; exact rel_add r1 r2, hpq⟩

theorem spec_sub {l r : Exp (Ext K)} (ihl : SpecHolds Src l) (ihr : SpecHolds Src r) :
    SpecHolds Src (.bin .sub l r) := by
  intro req s c s' hpre h
  rw [linExp] at h
  simp only [bind_ok, pure_ok, Prod.mk.injEq] at h
  obtain ⟨x, s1, h1, y, s2, h2, rfl, rfl⟩ := h
  have A := ihl _ _ _ _ hpre.bin_left h1
  have hvr : ∀ z ∈ varsOf r, inScope s.domain z := hpre.bin_right.vars
  have B := ihr _ _ _ _ (Pre.after A hvr hpre.defined.bin_right) h2
  obtain ⟨ok, _, _⟩ := mergeSub_spec (fun _ => (0 : K)) A.cok B.cok
  refine Spec.seq2 (· - ·) A B hvr ok (fun z hz => (mergeSub_names x y z).mp hz)
    (fun ρ => (mergeSub_spec ρ A.cok B.cok).2.1) ?_
  intro ρ v hv
  obtain ⟨p, q, hp, hq, hpq⟩ := eval_bin_some hv
  simp [binVal] at hpq
  exact ⟨p, q, hp, hq, fun a1 a2 r1 r2 => by rw [← hpq]; exact rel_sub r1 r2, hpq⟩

/-! ### unary minus, scaling, division by a literal -/

theorem spec_neg {e : Exp (Ext K)} (ih : SpecHolds Src e) : SpecHolds Src (.un .neg e) := by
  intro req s c s' hpre h
  rw [linExp] at h
  simp only [bind_ok, pure_ok, Prod.mk.injEq] at h
  obtain ⟨x, s1, h1, rfl, rfl⟩ := h
  have A := ih _ _ _ _ ⟨hpre.inv, fun z hz => hpre.vars z (by simpa [varsOf] using hz), hpre.defined.neg⟩ h1
  have hm1 : (Arith.ofInt (-1) : Ext K) = Ext.fin (-1) := by simp
  rw [hm1]
  obtain ⟨ok, _, hn⟩ := mulBy_spec (fun _ => (0 : K)) A.cok (-1)
  refine Spec.map1 (fun a => a * (-1)) A ok (fun z hz => by rwa [hn] at hz)
    (fun ρ => (mulBy_spec ρ A.cok (-1)).2.1) ?_
  intro ρ v _ hv
  obtain ⟨w, hw, rfl⟩ := eval_neg_some hv
  exact ⟨w, hw, fun a1 r1 => rel_neg r1, by ring⟩

/-- the shared argument of `c * e`, `e * c`: scale by a non-zero finite literal. -/
theorem spec_scale {e t : Exp (Ext K)} {k : K} (hk : k ≠ 0) {req : Req} {s s1 : St (Ext K)} {x : Ctx (Ext K)}
    (A : Spec Src t (req.throughScale (Ext.fin k)) s x s1)
    (hsem : ∀ (ρ : String → K) v, eval ρ e = some v → ∃ w, eval ρ t = some w ∧ w * k = v) :
    Spec Src e req s (x.mulBy (Ext.fin k)) s1 := by
  obtain ⟨ok, _, hn⟩ := mulBy_spec (fun _ => (0 : K)) A.cok k
  refine Spec.map1 (fun a => a * k) A ok (fun z hz => by rwa [hn] at hz)
    (fun ρ => (mulBy_spec ρ A.cok k).2.1) ?_
  intro ρ v _ hv
  obtain ⟨w, hw, hwk⟩ := hsem ρ v hv
  refine ⟨w, hw, fun a1 r1 => ?_, hwk⟩
  rw [← hwk]
  rw [throughScale_fin] at r1
  exact rel_scale hk r1

/-- scaling by the literal `0` of a factor that was still lowered (fix 5a25b35): the value is `0`, whatever
requirement the factor was lowered with. -/
theorem spec_scale_zero {e t : Exp (Ext K)} {req req1 : Req} {s s1 : St (Ext K)} {x : Ctx (Ext K)}
    (A : Spec Src t req1 s x s1)
    (hsem : ∀ (ρ : String → K) v, eval ρ e = some v → ∃ w, eval ρ t = some w ∧ w * 0 = v) :
    Spec Src e req s (x.mulBy (Ext.fin (0 : K))) s1 := by
  obtain ⟨ok, _, hn⟩ := mulBy_spec (fun _ => (0 : K)) A.cok 0
  refine Spec.map1 (fun a => a * 0) A ok (fun z hz => by rwa [hn] at hz)
    (fun ρ => (mulBy_spec ρ A.cok 0).2.1) ?_
  intro ρ v _ hv
  obtain ⟨w, hw, hwk⟩ := hsem ρ v hv
  refine ⟨w, hw, fun a1 _ => ?_, hwk⟩
  rw [← hwk]
  exact rel_of_eq req (by ring)

theorem spec_zero {e : Exp (Ext K)} {req : Req} {s : St (Ext K)} (hinv : StInv Src s)
    (hsem : ∀ (ρ : String → K) v, eval ρ e = some v → v = 0) :
    Spec Src e req s (Ctx.fromRhs (Arith.zero : Ext K)) s := by
  rw [ar_zero]
  exact Spec.pure hinv (fromRhs_ok 0) (by simp) (fun ρ v hv => by rw [fromRhs_val, hsem ρ v hv])

theorem spec_mul {a b : Exp (Ext K)} (iha : SpecHolds Src a) (ihb : SpecHolds Src b) :
    SpecHolds Src (.bin .mul a b) := by
  intro req s c s' hpre h
  rcases num_or_not a with ⟨k, rfl⟩ | hna
  · obtain ⟨kv, rfl⟩ := hpre.defined.bin_left.num
    rw [linExp] at h
    by_cases hk2 : (Arith.eq (Ext.fin kv) (Arith.zero : Ext K) && !(Exp.mayBeUndefined b)) = true
    · rw [if_pos hk2] at h
      have hk : Arith.eq (Ext.fin kv) (Arith.zero : Ext K) = true := (Bool.and_eq_true _ _ ▸ hk2).1
      simp only [pure_ok, Prod.mk.injEq] at h
      obtain ⟨rfl, rfl⟩ := h
      have hk0 : kv = 0 := by simpa using (ar_eq_zero_iff (Ext.fin kv)).mp hk
      refine spec_zero hpre.inv ?_
      intro ρ v hv
      obtain ⟨p, q, hp, hq, hpq⟩ := eval_bin_some hv
      rw [eval_num_fin] at hp
      simp only [Option.some.injEq] at hp
      simp [binVal, ← hp, hk0] at hpq
      exact hpq.symm
    · rw [if_neg hk2] at h
      simp only [bind_ok, pure_ok, Prod.mk.injEq] at h
      obtain ⟨x, s1, h1, rfl, rfl⟩ := h
      have B := ihb _ _ _ _ hpre.bin_right h1
      have hsem : ∀ (ρ : String → K) v, eval ρ (.bin .mul (.num (Ext.fin kv)) b) = some v →
          ∃ w, eval ρ b = some w ∧ w * kv = v := by
        intro ρ v hv
        obtain ⟨p, q, hp, hq, hpq⟩ := eval_bin_some hv
        rw [eval_num_fin] at hp
        simp only [Option.some.injEq] at hp
        simp [binVal, ← hp] at hpq
        exact ⟨q, hq, by rw [← hpq]; ring⟩
      by_cases hk0 : kv = 0
      · subst hk0; exact spec_scale_zero B hsem
      · exact spec_scale hk0 B hsem
  · rcases num_or_not b with ⟨k, rfl⟩ | hnb
    · obtain ⟨kv, rfl⟩ := hpre.defined.bin_right.num
      rw [linExp.eq_4 _ _ _ hna] at h
      by_cases hk2 : (Arith.eq (Ext.fin kv) (Arith.zero : Ext K) && !(Exp.mayBeUndefined a)) = true
      · rw [if_pos hk2] at h
        have hk : Arith.eq (Ext.fin kv) (Arith.zero : Ext K) = true := (Bool.and_eq_true _ _ ▸ hk2).1
        simp only [pure_ok, Prod.mk.injEq] at h
        obtain ⟨rfl, rfl⟩ := h
        have hk0 : kv = 0 := by simpa using (ar_eq_zero_iff (Ext.fin kv)).mp hk
        refine spec_zero hpre.inv ?_
        intro ρ v hv
        obtain ⟨p, q, hp, hq, hpq⟩ := eval_bin_some hv
        rw [eval_num_fin] at hq
        simp only [Option.some.injEq] at hq
        simp [binVal, ← hq, hk0] at hpq
        exact hpq.symm
      · rw [if_neg hk2] at h
        simp only [bind_ok, pure_ok, Prod.mk.injEq] at h
        obtain ⟨x, s1, h1, rfl, rfl⟩ := h
        have A := iha _ _ _ _ hpre.bin_left h1
        have hsem : ∀ (ρ : String → K) v, eval ρ (.bin .mul a (.num (Ext.fin kv))) = some v →
            ∃ w, eval ρ a = some w ∧ w * kv = v := by
          intro ρ v hv
          obtain ⟨p, q, hp, hq, hpq⟩ := eval_bin_some hv
          rw [eval_num_fin] at hq
          simp only [Option.some.injEq] at hq
          simp [binVal, ← hq] at hpq
          exact ⟨p, hp, hpq⟩
        by_cases hk0 : kv = 0
        · subst hk0; exact spec_scale_zero A hsem
        · exact spec_scale hk0 A hsem
    · rw [linExp.eq_5 _ _ _ hna hnb] at h
      simp [fail_ok] at h

theorem spec_div {a b : Exp (Ext K)} (iha : SpecHolds Src a) : SpecHolds Src (.bin .div a b) := by
  intro req s c s' hpre h
  rcases num_or_not b with ⟨k, rfl⟩ | hnb
  · obtain ⟨kv, rfl⟩ := hpre.defined.bin_right.num
    rw [linExp] at h
    by_cases hk : Arith.eq (Ext.fin kv) (Arith.zero : Ext K) = true
    · rw [if_pos hk] at h; simp [fail_ok] at h
    · rw [if_neg hk] at h
      simp only [bind_ok, pure_ok, Prod.mk.injEq] at h
      obtain ⟨x, s1, h1, rfl, rfl⟩ := h
      have hk0 : kv ≠ 0 := by
        intro h0; apply hk; rw [h0]; simp
      have hdiv : Arith.div (Arith.one : Ext K) (Ext.fin kv) = Ext.fin (1 / kv) := by
        rw [ar_one, ar_div _ _ hk0]
      rw [hdiv] at h1
      have A := iha _ _ _ _ hpre.bin_left h1
      have hinv0 : (1 / kv) ≠ 0 := one_div_ne_zero hk0
      have S1 := spec_scale (e := .bin .div a (.num (Ext.fin kv))) hinv0 A (by
        intro ρ v hv
        obtain ⟨p, q, hp, hq, hpq⟩ := eval_bin_some hv
        rw [eval_num_fin] at hq
        simp only [Option.some.injEq] at hq
        simp [binVal, ← hq, hk0] at hpq
        exact ⟨p, hp, by rw [← hpq]; field_simp⟩)
      -- `x.divBy k` and `x.mulBy (1/k)` are the same context up to the value
      obtain ⟨okd, _, hnd⟩ := divBy_spec (fun _ => (0 : K)) A.cok kv hk0
      exact
      { rows := S1.rows, dom := S1.dom, queue := S1.queue, inv := S1.inv, cok := okd
        cnames := fun z hz => A.cnames z (by rwa [hnd] at hz)
        sound := by
          intro ρ hd hq v hv
          have := S1.sound ρ hd hq v hv
          rwa [(mulBy_spec ρ A.cok (1 / kv)).2.1, mul_one_div, ← (divBy_spec ρ A.cok kv hk0).2.1] at this
        complete := by
          intro ρ hd hq v hv
          obtain ⟨ρ', h1', h2', h3', h4'⟩ := S1.complete ρ hd hq v hv
          refine ⟨ρ', h1', h2', h3', ?_⟩
          rwa [(mulBy_spec ρ' A.cok (1 / kv)).2.1, mul_one_div, ← (divBy_spec ρ' A.cok kv hk0).2.1] at h4' }
  · rw [linExp.eq_7 _ _ _ hnb] at h
    simp [fail_ok] at h

end Rooc.LinP
