/-
Slack form ↔ inequalities, and the bound rows: declared bounds of the original variables are exactly the
rows `to_standard_form` adds (plus the sign constraint of the kept columns).
-/
import Rooc.Proofs.StdNorm
namespace Rooc
namespace StdBounds
variable {K : Type} [Field K] [LinearOrder K] [IsStrictOrderedRing K] [FloorRing K]
open StdSem StdLayout StdSplit StdNorm Standardize

def RowHolds (r : LinRow (Ext K)) (x : List K) : Prop := cmpHolds r.cmp (rowVal r.coeffs x) (toK r.rhs)

/-- residuals as slack values. -/
noncomputable def slackOf : List (LinRow (Ext K)) → List K → List K
  | [], _ => []
  | r :: rs, u =>
    match r.cmp with
    | .le => (toK r.rhs - rowVal r.coeffs u) :: slackOf rs u
    | .ge => (rowVal r.coeffs u - toK r.rhs) :: slackOf rs u
    | _ => slackOf rs u

theorem slack_fwd : ∀ (rows : List (LinRow (Ext K))) (u : List K),
    (∀ r ∈ rows, r.cmp = .le ∨ r.cmp = .ge ∨ r.cmp = .eq) → (∀ r ∈ rows, RowHolds r u) →
    (slackOf rows u).length = nonEq rows ∧ (∀ v ∈ slackOf rows u, 0 ≤ v) ∧ SlackSem rows u (slackOf rows u)
  | [], u, _, _ => by simp [slackOf, nonEq, SlackSem]
  | r :: rs, u, hc, hh => by
    obtain ⟨il, inn, isem⟩ := slack_fwd rs u (fun r' h' => hc r' (List.mem_cons_of_mem _ h'))
      (fun r' h' => hh r' (List.mem_cons_of_mem _ h'))
    have hr := hh r (by simp)
    unfold RowHolds at hr
    rcases hc r (by simp) with h | h | h
    · simp only [h, cmpHolds] at hr
      simp only [slackOf, h, nonEq, SlackSem, List.length_cons, il, List.headD_cons, List.tail_cons, List.mem_cons]
      refine ⟨by omega, ?_, by ring, isem⟩
      rintro v (rfl | hv)
      · linarith
      · exact inn v hv
    · simp only [h, cmpHolds] at hr
      simp only [slackOf, h, nonEq, SlackSem, List.length_cons, il, List.headD_cons, List.tail_cons, List.mem_cons]
      refine ⟨by omega, ?_, by ring, isem⟩
      rintro v (rfl | hv)
      · linarith
      · exact inn v hv
    · simp only [h, cmpHolds] at hr
      simp only [slackOf, h, nonEq, SlackSem, il]
      exact ⟨by omega, inn, hr, isem⟩

theorem slack_bwd : ∀ (rows : List (LinRow (Ext K))) (u s : List K),
    (∀ r ∈ rows, r.cmp = .le ∨ r.cmp = .ge ∨ r.cmp = .eq) → s.length = nonEq rows → (∀ v ∈ s, 0 ≤ v) →
    SlackSem rows u s → ∀ r ∈ rows, RowHolds r u
  | [], _, _, _, _, _, _ => by simp
  | r :: rs, u, s, hc, hl, hn, hsem => by
    have hcr := hc r (by simp)
    have hcs : ∀ r' ∈ rs, r'.cmp = .le ∨ r'.cmp = .ge ∨ r'.cmp = .eq := fun r' h' => hc r' (List.mem_cons_of_mem _ h')
    rcases hcr with h | h | h
    · simp only [SlackSem, h] at hsem
      have hl' : s.length = 1 + nonEq rs := by simpa [nonEq, h] using hl
      obtain ⟨s0, s', rfl⟩ : ∃ s0 s', s = s0 :: s' := by
        cases s with
        | nil => simp at hl'; omega
        | cons a b => exact ⟨a, b, rfl⟩
      simp only [List.headD_cons, List.tail_cons] at hsem
      have h0 : 0 ≤ s0 := hn s0 (by simp)
      have ih := slack_bwd rs u s' hcs (by simp at hl'; omega) (fun v hv => hn v (List.mem_cons_of_mem _ hv)) hsem.2
      intro r' hr'
      rcases List.mem_cons.1 hr' with rfl | hr'
      · simp only [RowHolds, h, cmpHolds]; linarith [hsem.1]
      · exact ih r' hr'
    · simp only [SlackSem, h] at hsem
      have hl' : s.length = 1 + nonEq rs := by simpa [nonEq, h] using hl
      obtain ⟨s0, s', rfl⟩ : ∃ s0 s', s = s0 :: s' := by
        cases s with
        | nil => simp at hl'; omega
        | cons a b => exact ⟨a, b, rfl⟩
      simp only [List.headD_cons, List.tail_cons] at hsem
      have h0 : 0 ≤ s0 := hn s0 (by simp)
      have ih := slack_bwd rs u s' hcs (by simp at hl'; omega) (fun v hv => hn v (List.mem_cons_of_mem _ hv)) hsem.2
      intro r' hr'
      rcases List.mem_cons.1 hr' with rfl | hr'
      · simp only [RowHolds, h, cmpHolds]; linarith [hsem.1]
      · exact ih r' hr'
    · simp only [SlackSem, h] at hsem
      have ih := slack_bwd rs u s hcs (by simpa [nonEq, h] using hl) hn hsem.2
      intro r' hr'
      rcases List.mem_cons.1 hr' with rfl | hr'
      · simp only [RowHolds, h, cmpHolds]; exact hsem.1
      · exact ih r' hr'

/-! ### bound rows -/

theorem rowVal_unitRow : ∀ (n i : Nat) (x : List K), x.length = n → i < n →
    rowVal (unitRow n i : List (Ext K)) x = x.getD i 0
  | 0, _, _, _, h => by omega
  | n+1, 0, v :: vs, h, _ => by
    simp only [unitRow, List.replicate_succ, List.set_cons_zero, rowVal_cons, toK_one]
    have := rowVal_append_zeros ([] : List (Ext K)) n vs
    simp only [List.nil_append, rowVal_nil_left] at this
    simp [this]
  | n+1, i+1, v :: vs, h, hi => by
    have ih := rowVal_unitRow n i vs (by simpa using h) (by omega)
    simp only [unitRow] at ih ⊢
    simp [List.replicate_succ, ih]
  | _+1, _, [], h, _ => by simp at h

theorem unitRow_length (n i : Nat) : (unitRow n i : List (Ext K)).length = n := by simp [unitRow]

theorem unitRow_fin (n i : Nat) : ∀ c ∈ (unitRow n i : List (Ext K)), isFin c := by
  intro c hc
  simp only [unitRow] at hc
  rcases List.mem_or_eq_of_mem_set hc with h | rfl
  · rw [List.mem_replicate] at h; rw [h.2]; exact isFin_zero
  · exact isFin_one

/-- well-formed bounds of one declared type. -/
def BoundsOK : VarType (Ext K) → Prop
  | .real lo hi => (lo = .ninf ∨ isFin lo) ∧ (hi = .pinf ∨ isFin hi)
  | .nnreal lo hi => isFin lo ∧ (hi = .pinf ∨ isFin hi)
  | _ => False

/-- **bounds of one variable = its bound rows (+ the sign of a kept column).** -/
theorem boundRows_sem (n i : Nat) (ty : VarType (Ext K)) (hty : BoundsOK ty) (x : List K) (hx : x.length = n) (hi : i < n) :
    ((∀ r ∈ boundRows n i ty, RowHolds r x) ∧ (isFree ty = false → 0 ≤ x.getD i 0)) ↔ InDomain ty (x.getD i 0) := by
  have hu := rowVal_unitRow n i x hx hi
  cases ty with
  | bool => simp [BoundsOK] at hty
  | int a b => simp [BoundsOK] at hty
  | real lo hi =>
    obtain ⟨hlo, hhi⟩ := hty
    rcases hlo with rfl | hlo <;> rcases hhi with rfl | hhi
    · simp [boundRows, InDomain, isFree, Arith.eq, Ext.eq, Arith.negInf, Arith.posInf, Ext.le]
    · obtain ⟨h, rfl⟩ := isFin_iff.1 hhi
      simp [boundRows, InDomain, isFree, Arith.eq, Arith.ne, Ext.eq, Arith.negInf, Arith.posInf, Ext.le, RowHolds, cmpHolds, hu]
    · obtain ⟨l, rfl⟩ := isFin_iff.1 hlo
      simp [boundRows, InDomain, isFree, Arith.eq, Arith.ne, Ext.eq, Arith.negInf, Arith.posInf, Ext.le, RowHolds, cmpHolds, hu]
    · obtain ⟨l, rfl⟩ := isFin_iff.1 hlo
      obtain ⟨h, rfl⟩ := isFin_iff.1 hhi
      simp [boundRows, InDomain, isFree, Arith.eq, Arith.ne, Ext.eq, Arith.negInf, Arith.posInf, Ext.le, RowHolds, cmpHolds, hu]
  | nnreal lo hi =>
    obtain ⟨hlo, hhi⟩ := hty
    obtain ⟨l, rfl⟩ := isFin_iff.1 hlo
    rcases hhi with rfl | hhi
    · by_cases hl : l = 0
      · subst hl
        simp [boundRows, InDomain, isFree, Arith.eq, Arith.ne, Ext.eq, Arith.zero, Arith.ofInt, Arith.posInf, Ext.le]
      · simp [boundRows, InDomain, isFree, Arith.eq, Arith.ne, Ext.eq, Arith.zero, Arith.ofInt, Arith.posInf, Ext.le, RowHolds,
          cmpHolds, hu, hl]
        tauto
    · obtain ⟨h, rfl⟩ := isFin_iff.1 hhi
      by_cases hl : l = 0
      · subst hl
        simp [boundRows, InDomain, isFree, Arith.eq, Arith.ne, Ext.eq, Arith.zero, Arith.ofInt, Arith.posInf, Ext.le, RowHolds,
          cmpHolds, hu]
        tauto
      · simp [boundRows, InDomain, isFree, Arith.eq, Arith.ne, Ext.eq, Arith.zero, Arith.ofInt, Arith.posInf, Ext.le, RowHolds,
          cmpHolds, hu, hl]
        tauto

/-- every bound row is a well-formed `≤`/`≥` row with finite data. -/
theorem boundRows_ok (n i : Nat) (ty : VarType (Ext K)) (hty : BoundsOK ty) : ∀ r ∈ boundRows n i ty, RowOK n r := by
  intro r hr
  cases ty with
  | bool => simp [BoundsOK] at hty
  | int a b => simp [BoundsOK] at hty
  | real lo hi =>
    obtain ⟨hlo, hhi⟩ := hty
    simp only [boundRows] at hr
    split at hr
    · simp at hr
    · split at hr
      · simp only [List.mem_append] at hr
        rcases hr with hr | hr
        · split at hr
          · rename_i hne
            simp only [List.mem_singleton] at hr; subst hr
            refine ⟨unitRow_length n i, unitRow_fin n i, ?_, Or.inr (Or.inl rfl)⟩
            rcases hlo with rfl | hlo
            · simp [Arith.ne, Arith.eq, Ext.eq, Arith.negInf] at hne
            · exact hlo
          · simp at hr
        · split at hr
          · rename_i hne
            simp only [List.mem_singleton] at hr; subst hr
            refine ⟨unitRow_length n i, unitRow_fin n i, ?_, Or.inl rfl⟩
            rcases hhi with rfl | hhi
            · simp [Arith.ne, Arith.eq, Ext.eq, Arith.posInf] at hne
            · exact hhi
          · simp at hr
      · simp at hr
  | nnreal lo hi =>
    obtain ⟨hlo, hhi⟩ := hty
    simp only [boundRows] at hr
    split at hr
    · simp at hr
    · split at hr
      · simp only [List.mem_append] at hr
        rcases hr with hr | hr
        · split at hr
          · simp only [List.mem_singleton] at hr; subst hr
            exact ⟨unitRow_length n i, unitRow_fin n i, hlo, Or.inr (Or.inl rfl)⟩
          · simp at hr
        · split at hr
          · rename_i hne
            simp only [List.mem_singleton] at hr; subst hr
            refine ⟨unitRow_length n i, unitRow_fin n i, ?_, Or.inl rfl⟩
            rcases hhi with rfl | hhi
            · simp [Arith.ne, Arith.eq, Ext.eq, Arith.posInf] at hne
            · exact hhi
          · simp at hr
      · simp at hr

end StdBounds
end Rooc
