/-
Discharges the bounds-oracle hypothesis of Stage C: the linearizer's own port of `bounds_of`
(`Lin.boundsOf`) is, field for field, C07's `Analyzer.boundsOf`, whose enclosure theorem is
`Rooc.BoundsProofs.boundsOf_mem`.
-/
import Rooc.Proofs.LinSpecState
import Rooc.Proofs.BoundsEnclose

set_option linter.unusedSectionVars false
set_option linter.unusedSimpArgs false
set_option linter.unusedVariables false

namespace Rooc.LinP
open Rooc Rooc.Lin Rooc.Sem Rooc.Exp

section conv
variable {α : Type} [Arith α]

/-- the two `Bounds` records are the same record. -/
def cvB (b : Lin.Bounds α) : Rooc.Bounds α := ⟨b.lower, b.upper⟩
def cvM (bm : BoundsMap α) : List (String × Rooc.Bounds α) := bm.map fun p => (p.1, cvB p.2)

theorem cvB_unbounded : cvB (Lin.Bounds.unbounded : Lin.Bounds α) = Rooc.Bounds.unbounded := rfl

theorem get_cvM (bm : BoundsMap α) (n : String) : AList.get? (cvM bm) n = (lookupB bm n).map cvB := by
  induction bm with
  | nil => rfl
  | cons p bm ih =>
    obtain ⟨k, v⟩ := p
    simp only [cvM, List.map_cons, AList.get?]
    rw [lookupB_cons]
    by_cases h : k = n
    · simp [h]
    · have : (k == n) = false := by simpa using h
      simp only [this, h, if_false]
      exact ih

theorem cvB_abs (b : Lin.Bounds α) : cvB (Lin.Bounds.abs b) = Rooc.Bounds.abs (cvB b) := by
  simp only [Lin.Bounds.abs, Rooc.Bounds.abs, cvB]
  by_cases h1 : Arith.ge b.lower (Arith.zero : α) = true
  · simp [h1]
  · by_cases h2 : Arith.le b.upper (Arith.zero : α) = true
    · simp [h1, h2, Lin.Bounds.neg, Rooc.Bounds.neg]
    · simp [h1, h2]

theorem cvB_scale (b : Lin.Bounds α) (c : α) : cvB (Lin.Bounds.scale b c) = Rooc.Bounds.scale (cvB b) c := by
  simp only [Lin.Bounds.scale, Rooc.Bounds.scale, cvB]
  by_cases h1 : Arith.eq c (Arith.zero : α) = true
  · simp [h1, Lin.Bounds.singleton, Rooc.Bounds.singleton]
  · by_cases h2 : Arith.gt c (Arith.zero : α) = true
    · simp [h1, h2]
    · simp [h1, h2]

theorem cvB_divBy (b : Lin.Bounds α) (c : α) : cvB (Lin.Bounds.divBy b c) = Rooc.Bounds.divBy (cvB b) c := by
  simp only [Lin.Bounds.divBy, Rooc.Bounds.divBy]
  by_cases h1 : Arith.eq c (Arith.zero : α) = true
  · simp [h1]; rfl
  · by_cases h2 : Arith.gt c (Arith.zero : α) = true
    · simp [h1, h2, cvB]
    · simp [h1, h2, cvB]

theorem cvB_add (a b : Lin.Bounds α) : cvB (Lin.Bounds.add a b) = Rooc.Bounds.add (cvB a) (cvB b) := rfl
theorem cvB_neg (a : Lin.Bounds α) : cvB (Lin.Bounds.neg a) = Rooc.Bounds.neg (cvB a) := rfl
theorem cvB_sub (a b : Lin.Bounds α) : cvB (Lin.Bounds.sub a b) = Rooc.Bounds.sub (cvB a) (cvB b) := rfl

theorem cv_foldl_min (bs : List (Lin.Bounds α)) : ∀ b : Lin.Bounds α,
    cvB (bs.foldl (fun c n => ⟨Arith.fmin c.lower n.lower, Arith.fmin c.upper n.upper⟩) b)
      = (bs.map cvB).foldl Rooc.Bounds.minStep (cvB b) := by
  induction bs with
  | nil => intro b; rfl
  | cons x xs ih => intro b; simp only [List.foldl_cons, List.map_cons]; rw [ih]; rfl

theorem cv_foldl_max (bs : List (Lin.Bounds α)) : ∀ b : Lin.Bounds α,
    cvB (bs.foldl (fun c n => ⟨Arith.fmax c.lower n.lower, Arith.fmax c.upper n.upper⟩) b)
      = (bs.map cvB).foldl Rooc.Bounds.maxStep (cvB b) := by
  induction bs with
  | nil => intro b; rfl
  | cons x xs ih => intro b; simp only [List.foldl_cons, List.map_cons]; rw [ih]; rfl

theorem cv_boundsOfList (bm : BoundsMap α) : ∀ es : List (Exp α),
    (∀ e ∈ es, cvB (Lin.boundsOf bm e) = Analyzer.boundsOf (cvM bm) e) →
    (Lin.boundsOfList bm es).map cvB = Analyzer.boundsOfList (cvM bm) es
  | [], _ => rfl
  | e :: es, h => by
    simp only [Lin.boundsOfList, Analyzer.boundsOfList, List.map_cons, h e (by simp),
      cv_boundsOfList bm es (fun e' he' => h e' (by simp [he']))]

theorem asNum_none {a : Exp α} (h : ∀ c, a = .num c → False) : a.asNum = none := by
  cases a <;> first | rfl | exact absurd rfl (h _)

theorem cv_zeroOne : cvB (⟨Arith.zero, Arith.one⟩ : Lin.Bounds α) = Rooc.Bounds.zeroOne := rfl

theorem cv_boundsOf (bm : BoundsMap α) : ∀ e : Exp α, cvB (Lin.boundsOf bm e) = Analyzer.boundsOf (cvM bm) e := by
  intro e
  induction e using Exp.indL with
  | num v => simp only [Lin.boundsOf, Analyzer.boundsOf]; rfl
  | var n =>
    simp only [Lin.boundsOf, Analyzer.boundsOf, Analyzer.varBounds, get_cvM]
    cases lookupB bm n <;> rfl
  | abs e ih => simp only [Lin.boundsOf, Analyzer.boundsOf, ← ih, cvB_abs]
  | min es ih =>
    simp only [Lin.boundsOf, Analyzer.boundsOf, ← cv_boundsOfList bm es ih]
    cases Lin.boundsOfList bm es with
    | nil => rfl
    | cons b bs => simp only [List.map_cons]; exact cv_foldl_min bs b
  | max es ih =>
    simp only [Lin.boundsOf, Analyzer.boundsOf, ← cv_boundsOfList bm es ih]
    cases Lin.boundsOfList bm es with
    | nil => rfl
    | cons b bs => simp only [List.map_cons]; exact cv_foldl_max bs b
  | and es _ => simp only [Lin.boundsOf, Analyzer.boundsOf]; rfl
  | or es _ => simp only [Lin.boundsOf, Analyzer.boundsOf]; rfl
  | not e _ => simp only [Lin.boundsOf, Analyzer.boundsOf]; rfl
  | xor a b _ _ => simp only [Lin.boundsOf, Analyzer.boundsOf]; rfl
  | implies a b _ _ => simp only [Lin.boundsOf, Analyzer.boundsOf]; rfl
  | iff a b _ _ => simp only [Lin.boundsOf, Analyzer.boundsOf]; rfl
  | un op e ih =>
    cases op with
    | neg => simp only [Lin.boundsOf, Analyzer.boundsOf, ← ih]; rfl
    | not => simp only [Lin.boundsOf, Analyzer.boundsOf]; rfl
  | bin op a b iha ihb =>
    cases op with
    | add => simp only [Lin.boundsOf, Analyzer.boundsOf, ← iha, ← ihb]; rfl
    | sub => simp only [Lin.boundsOf, Analyzer.boundsOf, ← iha, ← ihb]; rfl
    | mul =>
      rcases num_or_not a with ⟨k, rfl⟩ | hna
      · simp only [Lin.boundsOf, Analyzer.boundsOf, Exp.asNum, ← ihb, cvB_scale]
      · rcases num_or_not b with ⟨k, rfl⟩ | hnb
        · rw [Lin.boundsOf.eq_15 _ _ _ hna, Analyzer.boundsOf]
          simp only [asNum_none hna, Exp.asNum, ← iha, cvB_scale]
        · rw [Lin.boundsOf.eq_16 _ _ _ hna hnb, Analyzer.boundsOf]
          simp only [asNum_none hna, asNum_none hnb]; rfl
    | div =>
      rcases num_or_not b with ⟨k, rfl⟩ | hnb
      · simp only [Lin.boundsOf, Analyzer.boundsOf, Exp.asNum, ← iha]
        split
        · exact cvB_divBy _ _
        · rfl
      · rw [Lin.boundsOf.eq_18 _ _ _ hnb, Analyzer.boundsOf]
        simp only [asNum_none hnb]; rfl
    | _ => simp only [Lin.boundsOf, Analyzer.boundsOf]; rfl
end conv

variable {K : Type} [Field K] [LinearOrder K] [IsStrictOrderedRing K] [FloorRing K]

theorem mem_cvB_iff (v : K) (b : Lin.Bounds (Ext K)) : BoundsSem.Mem v (cvB b) ↔ Encl b v := by
  simp only [BoundsSem.Mem, cvB, Encl]
  constructor
  · rintro ⟨h1, h2⟩
    constructor
    · cases hb : b.lower <;> rw [hb] at h1 <;> simp [Ext.le, lowerOK] at h1 ⊢
      exact h1
    · cases hb : b.upper <;> rw [hb] at h2 <;> simp [Ext.le, upperOK] at h2 ⊢
      exact h2
  · rintro ⟨h1, h2⟩
    constructor
    · cases hb : b.lower <;> rw [hb] at h1 <;> simp [Ext.le, lowerOK] at h1 ⊢
      exact h1
    · cases hb : b.upper <;> rw [hb] at h2 <;> simp [Ext.le, upperOK] at h2 ⊢
      exact h2

/-- **the bounds oracle holds**: `Lin.boundsOf` encloses `Sem.eval` on the box (C07's `boundsOf_mem`). -/
theorem boundsOracle : BoundsOracle K := by
  intro bm ρ e v hbox hv
  have hin : BoundsSem.InBox ρ (cvM bm) := by
    intro name
    simp only [Analyzer.varBounds, get_cvM]
    cases hl : lookupB bm name with
    | none =>
      simp only [Option.map_none, Option.getD_none]
      exact (mem_cvB_iff _ Lin.Bounds.unbounded).mpr ⟨by simp [Lin.Bounds.unbounded, lowerOK, Arith.negInf],
        by simp [Lin.Bounds.unbounded, upperOK, Arith.posInf]⟩
    | some b =>
      simp only [Option.map_some, Option.getD_some]
      exact (mem_cvB_iff _ b).mpr (hbox name b hl)
  have := BoundsProofs.boundsOf_mem (cvM bm) ρ hin e v hv
  rw [← cv_boundsOf] at this
  exact (mem_cvB_iff v _).mp this

end Rooc.LinP
