/-
Stage E, assembly: `linearizeWith` on a model of the piecewise-linear fragment — C01 (feasible sets) and
C02 (objective values), relative to the specification of `linExp` on the fragment.
-/
import Rooc.Proofs.LinLoop

set_option linter.unusedSectionVars false
set_option linter.unusedSimpArgs false
set_option linter.unusedVariables false

namespace Rooc.LinP
open Rooc Rooc.Lin Rooc.Sem Rooc.Exp
open Rooc.Lin.Gadget (B01)

variable {K : Type} [Field K] [LinearOrder K] [IsStrictOrderedRing K] [FloorRing K]

/-- objective and constraints lie in the fragment, mention only declared used variables, are comparisons
(no bare assertion) and are defined at every assignment. -/
structure FragModel (ext : Bool) (m : Model (Ext K)) (d : List (DomVar (Ext K))) : Prop where
  obj : FG ext (inScope d) m.objective
  objDefined : DefinedE m.objective
  cons : ∀ c ∈ m.constraints, SrcC ext d c

/-- the box `b` the rewrites rely on is implied by the domains `d` of the output
("every derived bound a rewrite relied on is enforced"; its Boolean case is `BooleanBoundsUntouched`).
Only the entries of declared, used variables matter. -/
def BoxEnforced (b : BoundsMap (Ext K)) (d : List (DomVar (Ext K))) : Prop :=
  ∀ ρ : String → K, DomSat ρ d → BoxOKon (inScope d) ρ b

/-- the initial linearizer state. -/
def initState {α : Type} (m : Model α) (b : BoundsMap α) (d : List (DomVar α)) : St α :=
  { queue := m.constraints, domain := d, bounds := b }

theorem initInv {ext : Bool} {m : Model (Ext K)} {b : BoundsMap (Ext K)} {d : List (DomVar (Ext K))}
    (hm : FragModel ext m d) (hnd : (d.map (·.name)).Nodup) (hbox : BoxEnforced b d) :
    LoopInv ext d (initState m b d) := by
  refine ⟨⟨hnd, hbox, ?_, fun c hc => Or.inl (hm.cons c hc)⟩, fun _ h => h, by simp [initState]⟩
  intro c hc x hx
  rcases hx with hx | hx
  · exact (hm.cons c hc).lhs.2 x hx
  · exact (hm.cons c hc).rhs.2 x hx

theorem sat_init {m : Model (Ext K)} {b : BoundsMap (Ext K)} {d : List (DomVar (Ext K))} (ρ : String → K) :
    Sat ρ (initState m b d) ↔ DomSat ρ d ∧ ∀ c ∈ m.constraints, constraintHolds ρ c = true := by
  constructor
  · intro h; exact ⟨h.dom, h.q⟩
  · rintro ⟨h1, h2⟩; exact ⟨h1, h2, by intro r hr; simp [initState] at hr⟩

/-- the compiled model is satisfied exactly by the solutions of the final state. -/
theorem linFeasible_assemble {ext : Bool} {d0 : List (DomVar (Ext K))} {m : Model (Ext K)} {obj : Ctx (Ext K)}
    {s : St (Ext K)} (hinv : LoopInv ext d0 s) (hq : s.queue = []) (ρ : String → K) :
    linFeasible (assemble m obj s) ρ = true ↔ Sat ρ s := by
  have hrows : (assemble m obj s).rows.all (rowHolds ρ (assemble m obj s).vars) = true ↔
      ∀ row ∈ s.rows, rowTrue ρ row :=
    rows_all_iff ρ (usedVars s.domain) s.rows (fun r hr => (hinv.rowsOK r hr).1)
      (fun r hr x hx => mem_usedVars.mpr ((hinv.rowsOK r hr).2 x hx))
  have hdom : ((assemble m obj s).domain.all fun dv => inDomain (ρ dv.name) dv.ty) = true ↔ DomSat ρ s.domain :=
    finalDomain_all ρ hinv.st.nodup
  simp only [linFeasible, Bool.and_eq_true, hrows, hdom]
  constructor
  · rintro ⟨h1, h2⟩
    exact ⟨h2, (by intro c hc; rw [hq] at hc; exact absurd hc (List.not_mem_nil)), h1⟩
  · intro h; exact ⟨h.rows, h.dom⟩

theorem linObjective_assemble {ext : Bool} {d0 : List (DomVar (Ext K))} {m : Model (Ext K)} {obj : Ctx (Ext K)}
    {s : St (Ext K)} (hok : CtxOK obj) (hnames : ∀ x ∈ ctxNames obj, inScope s.domain x) (ρ : String → K) :
    linObjective (assemble m obj s) ρ = some (ctxVal ρ obj) := by
  obtain ⟨k, hk⟩ := hok.rhs
  obtain ⟨h1, h2, h3⟩ := extractCoeffs_spec ρ (usedVars s.domain) obj.vars hok.fin hok.nodup
    (fun p hp => mem_usedVars.mpr (hnames p.1 (List.mem_map.mpr ⟨p, hp, rfl⟩)))
  have hv : (assemble m obj s).vars = usedVars s.domain := rfl
  have ho : (assemble m obj s).objective = extractCoeffs obj.vars (usedVars s.domain) := rfl
  have hoff : (assemble m obj s).offset = obj.rhs := rfl
  simp only [linObjective, hv, ho, hoff, dotK_eq ρ _ _ h2 (le_of_eq h1), h3, hk, ctxVal, xval_fin]
  simp

/-- everything `linearizeWith` guarantees on a fragment model, in one statement. -/
theorem linearizeWith_frag {ext : Bool} {m : Model (Ext K)} {b : BoundsMap (Ext K)} {d : List (DomVar (Ext K))}
    {lm : LinModel (Ext K)}
    (hspec : ∀ e : Exp (Ext K), frag ext e = true → SpecHolds (SrcC ext d) e)
    (hm : FragModel ext m d) (hnd : (d.map (·.name)).Nodup) (hbox : BoxEnforced b d)
    (h : linearizeWith m b d = .ok lm) :
    lm.optType = m.optType ∧
    -- soundness: a solution of the linear model satisfies the source constraints and `d`, and its objective
    -- value relates to the source objective as the optimisation direction requires
    (∀ ρ' : String → K, linFeasible lm ρ' = true →
      DomSat ρ' d ∧ (∀ c ∈ m.constraints, constraintHolds ρ' c = true) ∧
      ∀ v, eval ρ' m.objective = some v → ∃ w, linObjective lm ρ' = some w ∧ rel (objReq m) w v) ∧
    -- completeness: a solution of the source constraints and `d` extends to a solution of the linear model
    -- whose objective value is exactly the source objective
    (∀ ρ : String → K, DomSat ρ d → (∀ c ∈ m.constraints, constraintHolds ρ c = true) →
      ∃ ρ' : String → K, (∀ x, inScope d x → ρ' x = ρ x) ∧ linFeasible lm ρ' = true ∧
        ∀ v, eval ρ m.objective = some v → linObjective lm ρ' = some v) := by
  obtain ⟨objExp, s1, obj, s2, s3, hsf, hlin, hdrain, rfl⟩ := (linearizeWith_ok_iff _ _ _ _).mp h
  obtain ⟨oe, hnorm, hs1⟩ := (simplifyFlat_ok _ _ _).mp hsf
  cases hs1
  have hinv0 : LoopInv ext d (initState m b d) := initInv hm hnd hbox
  have hoe : FG ext (inScope d) objExp := FG_normalize hm.obj hnorm
  have hoev : ∀ (ρ : String → K) v, eval ρ m.objective = some v → eval ρ objExp = some v :=
    fun ρ v hv => normalize_eval_frag hm.obj.1 hnorm hv
  have hode : DefinedE objExp := fun ρ => by obtain ⟨v, hv⟩ := hm.objDefined ρ; exact ⟨v, hoev ρ v hv⟩
  have A : Spec (SrcC ext d) objExp (objReq m) (initState m b d) obj s2 :=
    hspec objExp hoe.1 _ _ _ _ ⟨hinv0.st, hoe.2, finE_of_definedE objExp hoe.1 hode⟩ hlin
  have hinv2 : LoopInv ext d s2 := by
    refine ⟨A.inv, fun x hx => A.scopeMono hx, ?_⟩
    intro r hr; rw [A.rows] at hr; simp [initState] at hr
  obtain ⟨hinv3, hq3, hst⟩ := drain_spec hspec _ _ _ hinv2 hdrain
  have hrows2 : ∀ ρ : String → K, RowsSat ρ s2 := by
    intro ρ r hr; rw [A.rows] at hr; simp [initState] at hr
  have hobjnames : ∀ x ∈ ctxNames obj, inScope s3.domain x := fun x hx => hst.scopeMono (A.cnames x hx)
  refine ⟨rfl, ?_, ?_⟩
  · intro ρ' hfeas
    have hs3 : Sat ρ' s3 := (linFeasible_assemble hinv3 hq3 ρ').mp hfeas
    obtain ⟨hs2, _⟩ := hst.sound ρ' hs3
    have hd0 : DomSat ρ' d := A.keepsDom hs2.dom
    have hq0 : QSat ρ' (initState m b d) := A.keepsQ hs2.q
    refine ⟨hd0, hq0, ?_⟩
    intro v hv
    refine ⟨ctxVal ρ' obj, linObjective_assemble (ext := ext) (d0 := d) A.cok hobjnames ρ', ?_⟩
    exact A.sound ρ' hs2.dom hs2.q v (hoev ρ' v hv)
  · intro ρ hd hc
    have hs0 : Sat ρ (initState m b d) := (sat_init ρ).mpr ⟨hd, hc⟩
    obtain ⟨v0, hv0⟩ := hm.objDefined ρ
    obtain ⟨ρ1, hag1, hd1, hq1, hval1⟩ := A.complete ρ hs0.dom hs0.q v0 (hoev ρ v0 hv0)
    obtain ⟨ρ2, hag2, hs3⟩ := hst.complete ρ1 ⟨hd1, hq1, hrows2 ρ1⟩ trivial
    refine ⟨ρ2, fun x hx => by rw [hag2 x (A.scopeMono hx), hag1 x hx],
      (linFeasible_assemble hinv3 hq3 ρ2).mpr hs3, ?_⟩
    intro v hv
    rw [hv0] at hv; cases hv
    rw [linObjective_assemble (ext := ext) (d0 := d) A.cok hobjnames ρ2,
      ctxVal_congr obj (fun x hx => hag2 x (A.cnames x hx)), hval1]

/-! ### the specification of `linExp` on the fragment, by structural induction -/

theorem lin_spec (hbo : BoundsOracle K) {Src : Constraint (Ext K) → Prop} (ext : Bool)
    (hmm : ext = true → ∀ es : List (Exp (Ext K)), (∀ e ∈ es, SpecHolds Src e) →
      SpecHolds Src (.max es) ∧ SpecHolds Src (.min es)) :
    ∀ e : Exp (Ext K), frag ext e = true → SpecHolds Src e := by
  intro e
  induction e using Exp.indL with
  | num v => intro _; exact spec_num v
  | var x => intro _; exact spec_var x
  | bin op a b iha ihb =>
    intro h
    simp only [frag, Bool.and_eq_true] at h
    obtain ⟨⟨ho, ha⟩, hb⟩ := h
    cases op <;> simp [isArithOp] at ho
    · exact spec_add (iha ha) (ihb hb)
    · exact spec_sub (iha ha) (ihb hb)
    · exact spec_mul (iha ha) (ihb hb)
    · exact spec_div (iha ha)
  | un op e ih =>
    intro h
    cases op with
    | not => simp [frag] at h
    | neg => simp only [frag] at h; exact spec_neg (ih h)
  | abs e ih => intro h; simp only [frag] at h; exact spec_abs hbo (ih h)
  | max es ih =>
    intro h
    simp only [frag, Bool.and_eq_true, fragList_iff] at h
    exact (hmm h.1 es (fun e he => ih e he (h.2 e he))).1
  | min es ih =>
    intro h
    simp only [frag, Bool.and_eq_true, fragList_iff] at h
    exact (hmm h.1 es (fun e he => ih e he (h.2 e he))).2
  | _ => intro h; simp [frag] at h

/-- C01 on a fragment model. -/
theorem frag_feasible_iff {ext : Bool} {m : Model (Ext K)} {b : BoundsMap (Ext K)} {d : List (DomVar (Ext K))}
    {lm : LinModel (Ext K)}
    (hspec : ∀ e : Exp (Ext K), frag ext e = true → SpecHolds (SrcC ext d) e)
    (hm : FragModel ext m d) (hdom : DomRel m d) (hbox : BoxEnforced b d)
    (h : linearizeWith m b d = .ok lm) (ρ : String → K) :
    srcFeasible m ρ = true ↔
      ∃ ρ' : String → K, (∀ x, inScope d x → ρ' x = ρ x) ∧ linFeasible lm ρ' = true := by
  obtain ⟨_, hsound, hcomplete⟩ := linearizeWith_frag hspec hm hdom.nodup hbox h
  have hscope : ∀ c ∈ m.constraints, ∀ x, (x ∈ varsOf c.lhs ∨ x ∈ varsOf c.rhs) → inScope d x := by
    intro c hc x hx
    rcases hx with hx | hx
    · exact (hm.cons c hc).lhs.2 x hx
    · exact (hm.cons c hc).rhs.2 x hx
  constructor
  · intro hs
    obtain ⟨hc, _⟩ := (srcFeasible_iff m ρ).mp hs
    obtain ⟨ρ', hag, hfeas, _⟩ := hcomplete ρ (hdom.sound ρ hs) hc
    exact ⟨ρ', hag, hfeas⟩
  · rintro ⟨ρ', hag, hfeas⟩
    obtain ⟨hd, hc, _⟩ := hsound ρ' hfeas
    have hs' : srcFeasible m ρ' = true := (srcFeasible_iff m ρ').mpr ⟨hc, hdom.tight ρ' hd⟩
    exact (srcFeasible_congr (d := d) hscope hdom.names hag).mp hs'

/-- C02 on a fragment model: over the auxiliary extensions of a source-feasible assignment, the linear
objective is on the right side of the source objective, and the source objective is attained. -/
theorem frag_objective {ext : Bool} {m : Model (Ext K)} {b : BoundsMap (Ext K)} {d : List (DomVar (Ext K))}
    {lm : LinModel (Ext K)}
    (hspec : ∀ e : Exp (Ext K), frag ext e = true → SpecHolds (SrcC ext d) e)
    (hm : FragModel ext m d) (hdom : DomRel m d) (hbox : BoxEnforced b d)
    (h : linearizeWith m b d = .ok lm) (ρ : String → K) (hs : srcFeasible m ρ = true) (v : K)
    (hv : eval ρ m.objective = some v) :
    (∀ ρ' : String → K, (∀ x, inScope d x → ρ' x = ρ x) → linFeasible lm ρ' = true →
        ∃ w, linObjective lm ρ' = some w ∧ rel (objReq m) w v) ∧
    (∃ ρ' : String → K, (∀ x, inScope d x → ρ' x = ρ x) ∧ linFeasible lm ρ' = true ∧
        linObjective lm ρ' = some v) := by
  obtain ⟨_, hsound, hcomplete⟩ := linearizeWith_frag hspec hm hdom.nodup hbox h
  constructor
  · intro ρ' hag hfeas
    obtain ⟨_, _, hobj⟩ := hsound ρ' hfeas
    apply hobj
    rw [eval_congr m.objective (fun x hx => hag x (hm.obj.2 x hx))]
    exact hv
  · obtain ⟨hc, _⟩ := (srcFeasible_iff m ρ).mp hs
    obtain ⟨ρ', hag, hfeas, hobj⟩ := hcomplete ρ (hdom.sound ρ hs) hc
    exact ⟨ρ', hag, hfeas, hobj v hv⟩

end Rooc.LinP
