/-
A concrete ENUMERABLE model for the non-vacuity examples of the C03 composition: `min x s.t. c: x ≤ y` with
`x, y` Boolean.  It has the objective and the constraint of `exAffine` (`Rooc/Proofs/LinExamples.lean`), so the
symbolic run of the lowering is reused; the bound inference runs on Boolean declarations.  Every ordered field
at once.
-/
import Rooc.Proofs.Compose

set_option linter.unusedSectionVars false
set_option linter.unusedSimpArgs false
set_option linter.unusedVariables false

namespace Rooc.Compose
open Rooc Rooc.Lin Rooc.Sem Rooc.LinP Rooc.Ref
variable {K : Type} [Field K] [LinearOrder K] [IsStrictOrderedRing K] [FloorRing K]

/-- `min x  s.t.  c: x ≤ y`, `x, y` Boolean (optimum 0 at `x = 0`). -/
def exBool : Model (Ext K) :=
  { optType := .min, objective := .var "x",
    constraints := [{ name := "c", lhs := .var "x", cmp := .le, rhs := .var "y", isAssert := false }],
    domain := [{ name := "x", ty := .bool, usage := 1 }, { name := "y", ty := .bool, usage := 1 }] }

theorem exBool_ok_of (b : BoundsMap (Ext K)) (d : List (DomVar (Ext K))) :
    ∃ lm, linearizeWith (exBool : Model (Ext K)) b d = .ok lm := by
  let s0 : St (Ext K) := { queue := (exBool : Model (Ext K)).constraints, domain := d, bounds := b }
  refine ⟨_, (linearizeWith_ok_iff _ _ _ _).mpr
    ⟨.var "x", s0, Ctx.fromVar "x" Arith.one, s0, _, exAffine_sf "x" _, ?_, exAffine_drain s0 rfl, rfl⟩⟩
  simp [linExp, pure_ok]

theorem exBool_normalized : Compile.normalizedForBounds (exBool : Model (Ext K)).constraints
    = some (exBool : Model (Ext K)).constraints := by
  simp [Compile.normalizedForBounds, exBool, exAbs_norm_var]

/-- the Boolean model goes through the whole pipeline, for every tolerance and every step limit. -/
theorem exBool_compile (tol : Ext K) (n : Nat) :
    ∃ lm, Compile.linearize (exBool : Model (Ext K)) tol n = .ok lm := by
  obtain ⟨lm, h⟩ := exBool_ok_of (K := K)
    (Compile.toLinBounds ((Analyzer.analyze (exBool : Model (Ext K)).domain (exBool : Model (Ext K)).constraints tol n).enforceable
      (exBool : Model (Ext K)).domain).variableBounds)
    (((Analyzer.analyze (exBool : Model (Ext K)).domain (exBool : Model (Ext K)).constraints tol n).enforceable
      (exBool : Model (Ext K)).domain).applyToDomain (exBool : Model (Ext K)).domain)
  refine ⟨lm, (compile_ok_iff _ _ _ _).mpr ⟨scratchOK_of_fragCheck _ _ (by simp [fragCheck, exBool, frag, fragList]), _, ?_, h⟩⟩
  simp [pipelineAnalyzer, exBool_normalized]

theorem exBool_frag : FragModel true (exBool : Model (Ext K)) (exBool : Model (Ext K)).domain := by
  have sx : inScope (exBool : Model (Ext K)).domain "x" :=
    ⟨{ name := "x", ty := .bool, usage := 1 }, by simp [exBool], rfl, by simp⟩
  have sy : inScope (exBool : Model (Ext K)).domain "y" :=
    ⟨{ name := "y", ty := .bool, usage := 1 }, by simp [exBool], rfl, by simp⟩
  refine ⟨FG_var.mpr sx, fun ρ => ⟨ρ "x", by simp [exBool, eval]⟩, ?_⟩
  intro c hc
  simp only [exBool, List.mem_singleton] at hc
  subst hc
  exact ⟨rfl, FG_var.mpr sx, FG_var.mpr sy, fun ρ => ⟨ρ "x", ρ "y", by simp [eval], by simp [eval]⟩⟩

theorem exBool_declOK : DeclOK (exBool : Model (Ext K)).domain := by
  refine ⟨by simp [exBool], ?_, ?_, ?_, ?_⟩
  · intro d hd lo hi hty
    simp only [exBool, List.mem_cons, List.mem_nil_iff, or_false] at hd
    rcases hd with rfl | rfl <;> simp at hty
  · intro d hd
    simp only [exBool, List.mem_cons, List.mem_nil_iff, or_false] at hd
    rcases hd with rfl | rfl <;> simp [TyNoNaN]
  · intro d hd
    simp only [exBool, List.mem_cons, List.mem_nil_iff, or_false] at hd
    rcases hd with rfl | rfl <;> simp [NNOK]
  · intro d hd hu
    simp only [exBool, List.mem_cons, List.mem_nil_iff, or_false] at hd
    rcases hd with rfl | rfl <;> simp at hu

theorem exBool_noInt : NoIntegerVars (exBool : Model (Ext K)).domain := by
  intro d hd lo hi
  simp only [exBool, List.mem_cons, List.mem_nil_iff, or_false] at hd
  rcases hd with rfl | rfl <;> simp

/-- C01 + C02 hold for whatever the pipeline returns on `exBool`. -/
theorem exBool_compilesTo {t : K} (ht : 0 ≤ t) {n : Nat} {lm : LinModel (Ext K)}
    (h : Compile.linearize (exBool : Model (Ext K)) (.fin t) n = .ok lm) : CompilesTo exBool lm :=
  compilesTo_of_compile ht h exBool_frag exBool_declOK (Or.inr exBool_noInt)

/-- `x = y = 0` is an optimum of `exBool` with value 0. -/
theorem exBool_srcOptimal : SrcOptimal (exBool : Model (Ext K)) (fun _ => 0) 0 := by
  refine ⟨?_, by simp [exBool, eval], ?_⟩
  · simp [srcFeasible, exBool, constraintHolds, eval, cmpK, inDomain, kzero]
  · intro ρ hs u hu
    have hx : ρ "x" = 0 ∨ ρ "x" = 1 := by
      have := ((srcFeasible_iff _ ρ).mp hs).2 { name := "x", ty := .bool, usage := 1 } (by simp [exBool]) (by simp)
      simpa [inDomain, kzero, kone] using this
    have : u = ρ "x" := by simpa [exBool, eval] using hu.symm
    subst this
    simp only [exBool, better_min, decide_eq_false_iff_not, not_lt]
    rcases hx with h | h <;> rw [h] <;> norm_num

end Rooc.Compose
