/-
C10 — structural facts about the output of `simplify` / `flatten` that later stages consume.
* `flattenF_preserves`   : any predicate that is compositional on binary nodes and negation (and does
                           not care which arithmetic operator it sees) is preserved by `flatten`;
* `noBinLogic`           : no `BinOp`-spelled logic node (`.bin .and/.or/.xor/.implies/.iff`) and no
                           `UnOp::Not`: `simplify` rewrites them all into the structural variants, and
                           `flatten` creates none — so `Exp::linearize`'s `UnimplementedExpression` arms
                           are unreachable from a normalized expression;
* `folded`               : every foldable constant has been folded;
* `AONF`                 : every and/or node is an n-ary node in normal form (no same-kind child, …).
-/
import Rooc.Proofs.ExpLemmasNF
import Rooc.Proofs.ExpLemmasFlatten
namespace Rooc
namespace Exp
set_option linter.unusedSectionVars false
variable {α : Type} [Arith α]
open Arith

/-! ### a generic preservation principle for `flatten` -/

theorem option_bind2_some'' {β γ δ : Type} {oa : Option β} {ob : Option γ} {f : β → γ → δ} {c : δ}
    (h : (do let x ← oa; let y ← ob; pure (f x y)) = some c) :
    ∃ a b, oa = some a ∧ ob = some b ∧ c = f a b := by
  cases oa <;> cases ob <;> simp_all

section flatten
variable (P : Exp α → Prop) (Q : BinOp → Prop)
  (hb : ∀ op a b, P (.bin op a b) ↔ (Q op ∧ P a ∧ P b))
  (hn : ∀ e, P (.un .neg e) ↔ P e)
  (hmul : Q .mul) (hdiv : Q .div) (haddsub : ∀ op, isAddSub op = true → Q op)
include hb hn hmul hdiv haddsub

theorem flattenMulRest_preserves (n : Nat)
    (ih : ∀ e e', flattenF n e = some e' → P e → P e') (l r : Exp α) :
    ∀ e', flattenF.flattenMulRest n l r = some e' → P l → P r → P e' := by
  intro e' h hl hr
  unfold flattenF.flattenMulRest at h
  split at h
  · rename_i c iop a b
    have hr' := (hb _ _ _).1 hr
    split at h
    · rename_i hiop
      exact ih _ _ h ((hb _ _ _).2 ⟨haddsub _ hiop, (hb _ _ _).2 ⟨hmul, hl, hr'.2.1⟩,
        (hb _ _ _).2 ⟨hmul, hl, hr'.2.2⟩⟩)
    · split at h
      · simp only [Option.map_eq_some_iff] at h
        obtain ⟨x, hx, rfl⟩ := h
        exact (hn _).2 (ih _ _ hx ((hb _ _ _).2 ⟨hmul, (hn _).1 hl, hr⟩))
      · obtain ⟨a', b', ha, hb', rfl⟩ := option_bind2_some'' h
        exact (hb _ _ _).2 ⟨hmul, ih _ _ ha hl, ih _ _ hb' hr⟩
  · simp only [Option.map_eq_some_iff] at h
    obtain ⟨x, hx, rfl⟩ := h
    exact (hn _).2 (ih _ _ hx ((hb _ _ _).2 ⟨hmul, (hn _).1 hl, hr⟩))
  · simp only [Option.map_eq_some_iff] at h
    obtain ⟨x, hx, rfl⟩ := h
    exact (hn _).2 (ih _ _ hx ((hb _ _ _).2 ⟨hmul, hl, (hn _).1 hr⟩))
  · obtain ⟨a', b', ha, hb', rfl⟩ := option_bind2_some'' h
    exact (hb _ _ _).2 ⟨hmul, ih _ _ ha hl, ih _ _ hb' hr⟩

/-- `flatten` only re-arranges `+ - * /` and negations around untouched sub-trees. -/
theorem flattenF_preserves (n : Nat) : ∀ e e', flattenF n e = some e' → P e → P e' := by
  induction n with
  | zero => intro e e' h; simp [flattenF] at h
  | succ n ih =>
    intro e e' h hP
    unfold flattenF at h
    split at h
    all_goals try (have hn' := Nat.succ.inj ‹n + 1 = _›; subst hn')
    · simp at h
    · rename_i iop l r c
      have h1 := (hb _ _ _).1 hP
      have h2 := (hb _ _ _).1 h1.2.1
      split at h
      · rename_i hiop
        exact ih _ _ h ((hb _ _ _).2 ⟨haddsub _ hiop, (hb _ _ _).2 ⟨hmul, h2.2.1, h1.2.2⟩,
          (hb _ _ _).2 ⟨hmul, h2.2.2, h1.2.2⟩⟩)
      · exact flattenMulRest_preserves P Q hb hn hmul hdiv haddsub n ih _ _ _ h h1.2.1 h1.2.2
    · have h1 := (hb _ _ _).1 hP
      exact flattenMulRest_preserves P Q hb hn hmul hdiv haddsub n ih _ _ _ h h1.2.1 h1.2.2
    · rename_i iop l r c
      have h1 := (hb _ _ _).1 hP
      have h2 := (hb _ _ _).1 h1.2.1
      split at h
      · rename_i hiop
        obtain ⟨a', b', ha, hb', rfl⟩ := option_bind2_some'' h
        exact (hb _ _ _).2 ⟨haddsub _ hiop, ih _ _ ha ((hb _ _ _).2 ⟨hdiv, h2.2.1, h1.2.2⟩),
          ih _ _ hb' ((hb _ _ _).2 ⟨hdiv, h2.2.2, h1.2.2⟩)⟩
      · obtain ⟨a', b', ha, hb', rfl⟩ := option_bind2_some'' h
        exact (hb _ _ _).2 ⟨hdiv, ih _ _ ha h1.2.1, ih _ _ hb' h1.2.2⟩
    · have h1 := (hb _ _ _).1 hP
      obtain ⟨a', b', ha, hb', rfl⟩ := option_bind2_some'' h
      exact (hb _ _ _).2 ⟨h1.1, ih _ _ ha h1.2.1, ih _ _ hb' h1.2.2⟩
    · simp at h; subst h; exact hP
end flatten

/-! ### no `BinOp`-spelled logic node, no `UnOp::Not` -/

def arithOp : BinOp → Bool
  | .add | .sub | .mul | .div => true
  | _ => false

mutual
def noBinLogic : Exp α → Bool
  | .num _ => true
  | .var _ => true
  | .abs e => noBinLogic e
  | .not e => noBinLogic e
  | .un .neg e => noBinLogic e
  | .un .not _ => false
  | .min es => noBinLogicL es
  | .max es => noBinLogicL es
  | .and es => noBinLogicL es
  | .or es => noBinLogicL es
  | .xor a b => noBinLogic a && noBinLogic b
  | .implies a b => noBinLogic a && noBinLogic b
  | .iff a b => noBinLogic a && noBinLogic b
  | .bin op a b => arithOp op && noBinLogic a && noBinLogic b
def noBinLogicL : List (Exp α) → Bool
  | [] => true
  | e :: es => noBinLogic e && noBinLogicL es
end

theorem noBinLogicL_iff (es : List (Exp α)) :
    noBinLogicL es = true ↔ ∀ e ∈ es, noBinLogic e = true := by
  induction es with
  | nil => simp [noBinLogicL]
  | cons e es ih => simp [noBinLogicL, ih]

theorem noBinLogic_mkNary (isAnd : Bool) (es : List (Exp α)) :
    noBinLogic (mkNary isAnd es) = true ↔ ∀ e ∈ es, noBinLogic e = true := by
  cases isAnd <;> simp [mkNary, noBinLogic, noBinLogicL_iff]

theorem noBinLogic_of_cases {op : BinOp} {l r x : Exp α} (hop : arithOp op = true)
    (hl : noBinLogic l = true) (hr : noBinLogic r = true)
    (h : x = l ∨ x = r ∨ (∃ v, x = .num v) ∨ x = .bin op l r) : noBinLogic x = true := by
  rcases h with h | h | ⟨v, h⟩ | h <;> subst h
  · exact hl
  · exact hr
  · simp [noBinLogic]
  · simp [noBinLogic, hop, hl, hr]

theorem noBinLogic_naryCore (isAnd : Bool) {cs : List (Exp α)}
    (h : ∀ c ∈ cs, noBinLogic c = true) : noBinLogic (naryCore isAnd cs) = true := by
  have hF : ∀ x ∈ naryFlatten isAnd cs, noBinLogic x = true := by
    intro x hx
    rcases mem_naryFlatten.1 hx with ⟨h1, _⟩ | ⟨inner, h1, h2⟩
    · exact h x h1
    · exact (noBinLogic_mkNary isAnd inner).1 (h _ h1) x h2
  have hres : ∀ res, naryStep isAnd (naryFlatten isAnd cs) = some res →
      ∀ x ∈ res, noBinLogic x = true := by
    intro res hs x hx
    obtain ⟨q, hq, _, _⟩ := naryStep_some hs
    rw [hq, List.mem_filter] at hx
    exact hF x hx.1
  rcases naryCore_cases isAnd cs with ⟨_, h2⟩ | ⟨_, h2⟩ | ⟨e, h1, h2⟩ | ⟨res, h1, _, h2⟩
  · rw [h2]; simp [noBinLogic]
  · rw [h2]; simp [noBinLogic]
  · rw [h2]; exact hres _ h1 e (by simp)
  · rw [h2, noBinLogic_mkNary]; exact hres _ h1

theorem noBinLogic_binCore (op : BinOp) {l r : Exp α} (hl : noBinLogic l = true)
    (hr : noBinLogic r = true) : noBinLogic (binCore op l r) = true := by
  cases op with
  | add => exact noBinLogic_of_cases rfl hl hr (addCore_cases l r)
  | sub => exact noBinLogic_of_cases rfl hl hr (subCore_cases l r)
  | mul => exact noBinLogic_of_cases rfl hl hr (mulCore_cases l r)
  | div => exact noBinLogic_of_cases rfl hl hr (divCore_cases l r)
  | and => exact noBinLogic_naryCore true (by simp [hl, hr])
  | or => exact noBinLogic_naryCore false (by simp [hl, hr])
  | xor => simp only [binCore, xorCore]; split <;> simp_all [noBinLogic]
  | implies => simp only [binCore, impliesCore]; split <;> simp_all [noBinLogic]
  | iff => simp only [binCore, iffCore]; split <;> simp_all [noBinLogic]

theorem noBinLogic_absCore {e : Exp α} (h : noBinLogic e = true) : noBinLogic (absCore e) = true := by
  unfold absCore; split <;> simp_all [noBinLogic]
theorem noBinLogic_negCore {e : Exp α} (h : noBinLogic e = true) : noBinLogic (negCore e) = true := by
  unfold negCore; split <;> simp_all [noBinLogic]
theorem noBinLogic_notCore {e : Exp α} (h : noBinLogic e = true) : noBinLogic (notCore e) = true := by
  unfold notCore; split <;> simp_all [noBinLogic]

/-- `simplify` rewrites every `BinOp`-spelled logic node and every `UnOp::Not` into the structural
variants — whatever the input. -/
theorem noBinLogic_simplify (e : Exp α) : noBinLogic (simplify e) = true := by
  induction e using Exp.ind with
  | num v => simp [simplify_num, noBinLogic]
  | var s => simp [simplify_var, noBinLogic]
  | abs e ih => rw [simplify_abs]; exact noBinLogic_absCore ih
  | min es ih =>
    rw [simplify_min]; split
    · simp [noBinLogic, noBinLogicL]
    · rw [minCore]; split
      · simp [noBinLogic]
      · simp only [noBinLogic, noBinLogicL_iff]
        intro c hc; obtain ⟨e, he, rfl⟩ := List.mem_map.1 hc; exact ih e he
  | max es ih =>
    rw [simplify_max]; split
    · simp [noBinLogic, noBinLogicL]
    · rw [maxCore]; split
      · simp [noBinLogic]
      · simp only [noBinLogic, noBinLogicL_iff]
        intro c hc; obtain ⟨e, he, rfl⟩ := List.mem_map.1 hc; exact ih e he
  | and es ih =>
    rw [simplify_and]; exact noBinLogic_naryCore true (by
      intro c hc; obtain ⟨e, he, rfl⟩ := List.mem_map.1 hc; exact ih e he)
  | or es ih =>
    rw [simplify_or]; exact noBinLogic_naryCore false (by
      intro c hc; obtain ⟨e, he, rfl⟩ := List.mem_map.1 hc; exact ih e he)
  | not e ih => rw [simplify_not]; exact noBinLogic_notCore ih
  | xor a b iha ihb => rw [simplify_xor]; exact noBinLogic_binCore .xor iha ihb
  | implies a b iha ihb => rw [simplify_implies]; exact noBinLogic_binCore .implies iha ihb
  | iff a b iha ihb => rw [simplify_iff]; exact noBinLogic_binCore .iff iha ihb
  | bin op a b iha ihb => rw [simplify_bin]; exact noBinLogic_binCore op iha ihb
  | un op e ih =>
    cases op with
    | neg => rw [simplify_neg]; exact noBinLogic_negCore ih
    | not => rw [simplify_unot]; exact noBinLogic_notCore ih

theorem noBinLogic_flatten (n : Nat) (e e' : Exp α) (h : flattenF n e = some e')
    (he : noBinLogic e = true) : noBinLogic e' = true :=
  flattenF_preserves (fun x => noBinLogic x = true) (fun op => arithOp op = true)
    (by intro op a b; simp [noBinLogic, and_assoc]) (by intro e; simp [noBinLogic]) rfl rfl
    (by intro op h; cases op <;> simp_all [isAddSub, arithOp]) n e e' h he

/-! ### every and/or node is an n-ary node in normal form -/

mutual
/-- and/or nodes are n-ary, in `NF` (so: no same-kind child, length ≥ 2, fixed by the second loop). -/
def AONF : Exp α → Prop
  | .num _ => True
  | .var _ => True
  | .abs e => AONF e
  | .not e => AONF e
  | .un _ e => AONF e
  | .min es => AONFL es
  | .max es => AONFL es
  | .and es => NF (.and es)
  | .or es => NF (.or es)
  | .xor a b => AONF a ∧ AONF b
  | .implies a b => AONF a ∧ AONF b
  | .iff a b => AONF a ∧ AONF b
  | .bin op a b => (op ≠ .and ∧ op ≠ .or) ∧ AONF a ∧ AONF b
def AONFL : List (Exp α) → Prop
  | [] => True
  | e :: es => AONF e ∧ AONFL es
end

theorem AONFL_iff (es : List (Exp α)) : AONFL es ↔ ∀ e ∈ es, AONF e := by
  induction es with
  | nil => simp [AONFL]
  | cons e es ih => simp [AONFL, ih]

theorem noBinLogic_of_NF (e : Exp α) : NF e → noBinLogic e = true := by
  induction e using Exp.ind with
  | num v => intro _; simp [noBinLogic]
  | var s => intro _; simp [noBinLogic]
  | abs e ih => intro h; simp only [NF] at h; simpa [noBinLogic] using ih h.1
  | min es ih =>
    intro h; simp only [NF, NFList_iff] at h
    simp only [noBinLogic, noBinLogicL_iff]
    rcases h with rfl | h
    · simp
    · exact fun e he => ih e he (h.1 e he)
  | max es ih =>
    intro h; simp only [NF, NFList_iff] at h
    simp only [noBinLogic, noBinLogicL_iff]
    rcases h with rfl | h
    · simp
    · exact fun e he => ih e he (h.1 e he)
  | and es ih =>
    intro h; simp only [NF, NFList_iff] at h
    simp only [noBinLogic, noBinLogicL_iff]; exact fun e he => ih e he (h.1 e he)
  | or es ih =>
    intro h; simp only [NF, NFList_iff] at h
    simp only [noBinLogic, noBinLogicL_iff]; exact fun e he => ih e he (h.1 e he)
  | not e ih => intro h; simp only [NF] at h; simpa [noBinLogic] using ih h.1
  | xor a b iha ihb => intro h; simp only [NF] at h; simp [noBinLogic, iha h.1, ihb h.2.1]
  | implies a b iha ihb => intro h; simp only [NF] at h; simp [noBinLogic, iha h.1, ihb h.2.1]
  | iff a b iha ihb => intro h; simp only [NF] at h; simp [noBinLogic, iha h.1, ihb h.2.1]
  | bin op a b iha ihb =>
    intro h; simp only [NF] at h
    have := noBinLogic_binCore op (iha h.1) (ihb h.2.1)
    rwa [h.2.2] at this
  | un op e ih =>
    intro h
    cases op with
    | neg => simp only [NF] at h; simpa [noBinLogic] using ih h.1
    | not => simp only [NF] at h

theorem AONF_of_NF (e : Exp α) : NF e → AONF e := by
  induction e using Exp.ind with
  | num v => intro _; simp [AONF]
  | var s => intro _; simp [AONF]
  | abs e ih => intro h; simp only [NF] at h; simpa only [AONF] using ih h.1
  | min es ih =>
    intro h; simp only [NF, NFList_iff] at h
    simp only [AONF, AONFL_iff]
    rcases h with rfl | h
    · simp
    · exact fun e he => ih e he (h.1 e he)
  | max es ih =>
    intro h; simp only [NF, NFList_iff] at h
    simp only [AONF, AONFL_iff]
    rcases h with rfl | h
    · simp
    · exact fun e he => ih e he (h.1 e he)
  | and es ih => intro h; simpa only [AONF] using h
  | or es ih => intro h; simpa only [AONF] using h
  | not e ih => intro h; simp only [NF] at h; simpa only [AONF] using ih h.1
  | xor a b iha ihb => intro h; simp only [NF] at h; simp only [AONF]; exact ⟨iha h.1, ihb h.2.1⟩
  | implies a b iha ihb => intro h; simp only [NF] at h; simp only [AONF]; exact ⟨iha h.1, ihb h.2.1⟩
  | iff a b iha ihb => intro h; simp only [NF] at h; simp only [AONF]; exact ⟨iha h.1, ihb h.2.1⟩
  | bin op a b iha ihb =>
    intro h
    have hnb := noBinLogic_of_NF _ h
    simp only [NF] at h
    simp only [AONF]
    refine ⟨?_, iha h.1, ihb h.2.1⟩
    constructor <;> (rintro rfl; simp [noBinLogic, arithOp] at hnb)
  | un op e ih =>
    intro h
    cases op with
    | neg => simp only [NF] at h; simpa only [AONF] using ih h.1
    | not => simp only [NF] at h

theorem AONF_flatten (n : Nat) (e e' : Exp α) (h : flattenF n e = some e') (he : AONF e) : AONF e' :=
  flattenF_preserves (fun x => AONF x) (fun op => op ≠ .and ∧ op ≠ .or)
    (by intro op a b; simp [AONF]) (by intro e; simp [AONF]) (by simp) (by simp)
    (by intro op h; cases op <;> simp_all [isAddSub]) n e e' h he

/-! ### every foldable constant has been folded -/

def isZeroLit : Exp α → Bool
  | .num z => Arith.eq z zero
  | _ => false

mutual
/-- no operator node all of whose operands are literals (except a division by the literal zero, which is
kept on purpose); n-ary and/or nodes have at least two operands; no empty-or-literal-only min/max other than
the empty one. -/
def constFolded : Exp α → Bool
  | .num _ => true
  | .var _ => true
  | .abs e => !(isNum e) && constFolded e
  | .not e => !(isNum e) && constFolded e
  | .un _ e => !(isNum e) && constFolded e
  | .min es => (es.isEmpty || !(es.all isNum)) && constFoldedL es
  | .max es => (es.isEmpty || !(es.all isNum)) && constFoldedL es
  | .and es => decide (2 ≤ es.length) && !(es.all isNum) && constFoldedL es
  | .or es => decide (2 ≤ es.length) && !(es.all isNum) && constFoldedL es
  | .xor a b => !(isNum a && isNum b) && constFolded a && constFolded b
  | .implies a b => !(isNum a && isNum b) && constFolded a && constFolded b
  | .iff a b => !(isNum a && isNum b) && constFolded a && constFolded b
  | .bin op a b => (!(isNum a && isNum b) || (op == .div && isZeroLit b)) && constFolded a && constFolded b
def constFoldedL : List (Exp α) → Bool
  | [] => true
  | e :: es => constFolded e && constFoldedL es
end

theorem constFoldedL_iff (es : List (Exp α)) :
    constFoldedL es = true ↔ ∀ e ∈ es, constFolded e = true := by
  induction es with
  | nil => simp [constFoldedL]
  | cons e es ih => simp [constFoldedL, ih]

theorem allNums_isSome_of_all {es : List (Exp α)} (h : es.all isNum = true) : (allNums es).isSome := by
  induction es with
  | nil => simp [allNums]
  | cons e es ih =>
    rw [List.all_cons, Bool.and_eq_true] at h
    rcases isNum_cases e with h' | ⟨v, rfl⟩
    · rw [h'] at h; cases h.1
    · obtain ⟨ns, hns⟩ := Option.isSome_iff_exists.1 (ih h.2)
      simp [allNums, hns]

/-- an n-ary normal form is not made of literals only. -/
theorem not_all_num_of_naryStep {isAnd : Bool} {es : List (Exp α)} (hs : naryStep isAnd es = some es)
    (hl : 2 ≤ es.length) : es.all isNum = false := by
  by_contra hc
  have hall : es.all isNum = true := by simpa using hc
  have hu : mayBeUndefinedAny es = false := by
    by_contra hu
    obtain ⟨x, hx, hxu⟩ := (mayBeUndefinedAny_iff es).1 (by simpa using hu)
    have := List.all_eq_true.1 hall x hx
    rcases isNum_cases x with h' | ⟨v, rfl⟩
    · rw [h'] at this; cases this
    · rw [mayBeUndefined_num] at hxu; cases hxu
  unfold naryStep at hs
  rw [hu] at hs
  simp only [Bool.false_eq_true, if_false] at hs
  have := naryScan_some hs
  have hnil : es.filter (fun x => !isNum x) = [] := by
    rw [List.filter_eq_nil_iff]; intro x hx; simpa using List.all_eq_true.1 hall x hx
  rw [hnil] at this; subst this; simp at hl

theorem constFolded_of_NF (e : Exp α) : NF e → constFolded e = true := by
  induction e using Exp.ind with
  | num v => intro _; simp [constFolded]
  | var s => intro _; simp [constFolded]
  | abs e ih => intro h; simp only [NF] at h; simp [constFolded, h.2, ih h.1]
  | min es ih =>
    intro h; simp only [NF, NFList_iff] at h
    simp only [constFolded, Bool.and_eq_true, constFoldedL_iff]
    rcases h with rfl | h
    · simp
    · refine ⟨?_, fun e he => ih e he (h.1 e he)⟩
      by_cases hall : es.all isNum = true
      · have := allNums_isSome_of_all hall; rw [h.2] at this; cases this
      · simp [hall]
  | max es ih =>
    intro h; simp only [NF, NFList_iff] at h
    simp only [constFolded, Bool.and_eq_true, constFoldedL_iff]
    rcases h with rfl | h
    · simp
    · refine ⟨?_, fun e he => ih e he (h.1 e he)⟩
      by_cases hall : es.all isNum = true
      · have := allNums_isSome_of_all hall; rw [h.2] at this; cases this
      · simp [hall]
  | and es ih =>
    intro h; simp only [NF, NFList_iff] at h
    simp only [constFolded, Bool.and_eq_true, constFoldedL_iff]
    exact ⟨⟨by simpa using h.2.2.2, by simp [not_all_num_of_naryStep h.2.2.1 h.2.2.2]⟩,
      fun e he => ih e he (h.1 e he)⟩
  | or es ih =>
    intro h; simp only [NF, NFList_iff] at h
    simp only [constFolded, Bool.and_eq_true, constFoldedL_iff]
    exact ⟨⟨by simpa using h.2.2.2, by simp [not_all_num_of_naryStep h.2.2.1 h.2.2.2]⟩,
      fun e he => ih e he (h.1 e he)⟩
  | not e ih => intro h; simp only [NF] at h; simp [constFolded, h.2, ih h.1]
  | xor a b iha ihb => intro h; simp only [NF] at h; simp [constFolded, h.2.2, iha h.1, ihb h.2.1]
  | implies a b iha ihb => intro h; simp only [NF] at h; simp [constFolded, h.2.2, iha h.1, ihb h.2.1]
  | iff a b iha ihb => intro h; simp only [NF] at h; simp [constFolded, h.2.2, iha h.1, ihb h.2.1]
  | bin op a b iha ihb =>
    intro h
    have hnb := noBinLogic_of_NF _ h
    simp only [NF] at h
    simp only [constFolded, Bool.and_eq_true, iha h.1, ihb h.2.1, and_true]
    rcases both_num_cases a b with hb | ⟨v, w, rfl, rfl⟩
    · simp [hb]
    · have hfix := h.2.2
      cases op <;> simp [noBinLogic, arithOp] at hnb
      · simp [binCore, addCore] at hfix
      · simp [binCore, subCore] at hfix
      · simp [binCore, mulCore] at hfix
      · simp only [binCore, divCore] at hfix
        split at hfix
        · rename_i hz; simp [isZeroLit, hz]
        · simp at hfix
  | un op e ih =>
    intro h
    cases op with
    | neg => simp only [NF] at h; simp [constFolded, h.2, ih h.1]
    | not => simp only [NF] at h

/-- `simplify` folds every foldable constant — any input, any number type. -/
theorem constFolded_simplify (e : Exp α) : constFolded (simplify e) = true :=
  constFolded_of_NF _ (NF_simplify e)

end Exp
end Rooc
