/-
Sharpness of `t < 1` in the pipeline theorems: for EVERY tolerance `t ≥ 1` the model
`min x`, `x ∈ IntegerRange(0, 5)` is published with a range that contains 6.
-/
import Rooc.Proofs.LinBridgeLogic
import Rooc.Proofs.LinCounter

set_option linter.unusedSectionVars false
set_option linter.unusedSimpArgs false
set_option linter.unusedVariables false

namespace Rooc.LinP
open Rooc Rooc.Lin Rooc.Sem Rooc.Exp Rooc.BoundsProofs Rooc.BoundsSem Arith

variable {K : Type} [Field K] [LinearOrder K] [IsStrictOrderedRing K] [FloorRing K]

/-- `min x`, no constraint, `x ∈ IntegerRange(0, 5)`. -/
def exI : Model (Ext K) :=
  { optType := .min, objective := .var "x", constraints := [],
    domain := [{ name := "x", ty := .int 0 5, usage := 1 }] }

theorem exI_lin (b : BoundsMap (Ext K)) (d : List (DomVar (Ext K))) :
    linearizeWith (exI : Model (Ext K)) b d = .ok (assemble exI (Ctx.fromVar "x" Arith.one)
      { queue := [], rows := [], domain := d, bounds := b }) := by
  let s0 : St (Ext K) := { queue := (exI : Model (Ext K)).constraints, domain := d, bounds := b }
  refine (linearizeWith_ok_iff _ _ _ _).mpr
    ⟨.var "x", s0, Ctx.fromVar "x" Arith.one, s0, s0, ?_, ?_, ?_, rfl⟩
  · simp [simplifyFlat, normalizeExp, flattenFuel, flattenF, simplify, pure_ok, exI, s0]
  · simp [linExp, pure_ok]
  · exact drain_nil 999999 s0 rfl

theorem clamp_ge_six {v : Int} (h : 6 ≤ v) : 6 ≤ Ext.clampInt i32Min i32Max v := by
  unfold Ext.clampInt i32Min i32Max; split_ifs <;> omega
theorem clamp_le_neg {v : Int} (h : v ≤ -1) : Ext.clampInt i32Min i32Max v ≤ -1 := by
  unfold Ext.clampInt i32Min i32Max; split_ifs <;> omega

/-- the domain the pipeline publishes for `exI` at a tolerance `t ≥ 1`: an integer range around `[-1, 6]`. -/
theorem exI_published {t : K} (ht : 1 ≤ t) (maxSteps : Nat) :
    ∃ lo hi : Int, lo ≤ -1 ∧ 6 ≤ hi ∧
      pipelineAnalyzer (exI : Model (Ext K)) (.fin t) maxSteps ≠ none ∧
      ∀ an, pipelineAnalyzer (exI : Model (Ext K)) (.fin t) maxSteps = some an →
        an.applyToDomain (exI : Model (Ext K)).domain = [{ name := "x", ty := .int lo hi, usage := 1 }] := by
  -- the first rounding (`enforceable`) and the second one (`apply_to_domain`)
  set a : Int := Int.ceil ((0 : K) - t) with ha
  set b : Int := Int.floor ((5 : K) + t) with hb
  have ha1 : a ≤ -1 := by rw [ha, Int.ceil_le]; push_cast; linarith
  have hb6 : 6 ≤ b := by rw [hb, Int.le_floor]; push_cast; linarith
  set a2 : Int := Int.ceil ((a : K) - t) with ha2
  set b2 : Int := Int.floor ((b : K) + t) with hb2
  have ha2' : a2 ≤ -1 := by
    rw [ha2, Int.ceil_le]; have : (a : K) ≤ -1 := by exact_mod_cast ha1
    push_cast; linarith
  have hb2' : 6 ≤ b2 := by
    rw [hb2, Int.le_floor]; have : (6 : K) ≤ b := by exact_mod_cast hb6
    push_cast; linarith
  refine ⟨Ext.clampInt i32Min i32Max a2, Ext.clampInt i32Min i32Max b2, clamp_le_neg ha2', clamp_ge_six hb2', ?_, ?_⟩
  · simp [pipelineAnalyzer, Compile.normalizedForBounds, exI]
  · intro an han
    have hnorm : Compile.normalizedForBounds (exI : Model (Ext K)).constraints = some [] := by
      simp [Compile.normalizedForBounds, exI]
    simp only [pipelineAnalyzer, hnorm, Option.map_some, Option.some.injEq] at han
    subst han
    have h1 : Analyzer.analyze (exI : Model (Ext K)).domain [] (.fin t) maxSteps
        = Analyzer.fromDomain (exI : Model (Ext K)).domain (.fin t) := by
      simp [Analyzer.analyze, Analyzer.propagate, Analyzer.propagateLoop, List.range, List.range.loop]
    rw [h1]
    have hvb : (Analyzer.fromDomain (exI : Model (Ext K)).domain (.fin t)).variableBounds
        = [("x", ⟨.fin 0, .fin 5⟩)] := by
      simp [Analyzer.fromDomain, exI, AList.insert, Bounds.ofVarType]
    have hgt1 : Arith.gt (Arith.ceil (Arith.sub (Ext.fin (0 : K)) (.fin t)))
        (Arith.floor (Arith.add (Ext.fin (5 : K)) (.fin t))) = false := by
      rw [gt_round_fin]; simp only [decide_eq_false_iff_not, not_lt]; omega
    have hgt2 : Arith.gt (Arith.ceil (Arith.sub (Ext.fin (a : K)) (.fin t)))
        (Arith.floor (Arith.add (Ext.fin (b : K)) (.fin t))) = false := by
      rw [gt_round_fin]; simp only [decide_eq_false_iff_not, not_lt]; omega
    have hr1 := round_fin (0 : K) 5 t
    have hr2 := round_fin (a : K) (b : K) t
    simp only [Bounds.mk.injEq] at hr1 hr2
    set an0 := Analyzer.fromDomain (exI : Model (Ext K)).domain (.fin t) with han0
    have htol0 : an0.tolerance = .fin t := rfl
    have hdi0 : an0.detectedInfeasible = false := rfl
    have henf : (an0.enforceable (exI : Model (Ext K)).domain).variableBounds = [("x", ⟨.fin (a : K), .fin (b : K)⟩)] ∧
        (an0.enforceable (exI : Model (Ext K)).domain).tolerance = .fin t := by
      have hempty : an0.emptyIntegerRange (exI : Model (Ext K)).domain = false := by
        simp only [Analyzer.emptyIntegerRange, exI, List.any_cons, List.any_nil, hvb, AList.get?, beq_self_eq_true,
          if_true, htol0, hgt1, Bool.or_false]
      have hE : an0.enforceable (exI : Model (Ext K)).domain = an0.roundIntegerRanges (exI : Model (Ext K)).domain := by
        unfold Analyzer.enforceable
        rw [hdi0, hempty]; simp
      rw [hE]
      simp only [Analyzer.roundIntegerRanges, exI, List.foldl_cons, List.foldl_nil, Analyzer.roundStep, hvb,
        AList.get?, beq_self_eq_true, if_true, htol0, hr1.1, hr1.2, AList.insert]
      exact ⟨rfl, trivial⟩
    obtain ⟨hvbE, htolE⟩ := henf
    generalize an0.enforceable (exI : Model (Ext K)).domain = E at hvbE htolE ⊢
    simp only [Analyzer.applyToDomain, exI, List.map_cons, List.map_nil, Analyzer.applyToVar, hvbE, AList.get?,
      beq_self_eq_true, if_true, htolE, hgt2, Bool.false_eq_true, if_false, hr2.1, hr2.2, toI32_int]
    rw [if_neg (by rw [← hr2.1, ← hr2.2, hgt2]; simp)]

/-- **`t < 1` is sharp**: for every tolerance `t ≥ 1` and every step limit the model compiles, its linear model
accepts `x = 6`, and the source model (`x ∈ IntegerRange(0, 5)`) does not — although every other hypothesis of
the pipeline theorems holds. -/
theorem tolerance_ge_one_breaks {t : K} (ht : 1 ≤ t) (maxSteps : Nat) :
    ∃ (lm : LinModel (Ext K)) (ρ : String → K),
      Compile.linearize (exI : Model (Ext K)) (.fin t) maxSteps = .ok lm ∧
      linFeasible lm ρ = true ∧ ¬ srcFeasible (exI : Model (Ext K)) ρ = true := by
  obtain ⟨lo, hi, hlo, hhi, hne, hpub⟩ := exI_published ht maxSteps
  cases han : pipelineAnalyzer (exI : Model (Ext K)) (.fin t) maxSteps with
  | none => exact absurd han hne
  | some an =>
    refine ⟨_, fun _ => 6, (compile_ok_iff _ _ _ _).mpr ⟨scratchOK_frag (ext := true) _ _ (by simp [exI, frag])
      (by intro c hc; simp [exI] at hc), an, han, exI_lin _ _⟩, ?_, ?_⟩
    · rw [hpub an han]
      have h1 : (lo : K) ≤ 6 := by exact_mod_cast (by omega : lo ≤ 6)
      have h2 : (6 : K) ≤ hi := by exact_mod_cast hhi
      have h3 : isIntK (6 : K) = true := (isIntK_iff 6).mpr ⟨6, by norm_num⟩
      simp [assemble, linFeasible, exI, dedupNames, sortStr, insertSortedDup, inDomain, h1, h2, h3]
    · intro h
      have := ((srcFeasible_iff _ _).mp h).2 { name := "x", ty := .int 0 5, usage := 1 } (by simp [exI]) (by simp)
      simp only [inDomain, Bool.and_eq_true, ef_le, ef_ofInt, decide_eq_true_eq] at this
      have := this.2
      norm_num at this

/-- every other hypothesis of the pipeline theorems holds for `exI`. -/
theorem exI_hyps : LogicModel (exI : Model (Ext K)) (exI : Model (Ext K)).domain ∧ AssertShape (exI : Model (Ext K)) ∧
    DeclOK (exI : Model (Ext K)).domain := by
  have sx : inScope (exI : Model (Ext K)).domain "x" :=
    ⟨{ name := "x", ty := .int 0 5, usage := 1 }, by simp [exI], rfl, by simp⟩
  refine ⟨⟨⟨by intro y hy; simp [exI, varsOf] at hy; subst hy; exact sx, by simp [FinE, exI, finiteLits],
    fun ρ _ => by simp [exI, NC]⟩, by intro c hc; simp [exI] at hc⟩,
    by intro c hc; simp [exI] at hc, ⟨by simp [exI], ?_, ?_, ?_, ?_⟩⟩
  · intro d hd lo hi hty
    simp only [exI, List.mem_singleton] at hd
    subst hd
    simp only [VarType.int.injEq] at hty
    obtain ⟨rfl, rfl⟩ := hty
    simp [i32Min, i32Max]
  · intro d hd; simp only [exI, List.mem_singleton] at hd; subst hd; simp [TyNoNaN]
  · intro d hd; simp only [exI, List.mem_singleton] at hd; subst hd; simp [NNOK]
  · intro d hd hu; simp only [exI, List.mem_singleton] at hd; subst hd; simp at hu

end Rooc.LinP
