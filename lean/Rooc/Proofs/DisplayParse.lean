/-
C12 helper lemmas: the text `impl Display for Exp` prints for an expression of the fragment `Frag` is
cut by the lexer model into `dToks`, and `dToks` is a rendering (`Tk`, C09) of `toP e` — so the parser
model reads the text back as `toP e`, which `into_exp` maps to `e` again.
-/
import Rooc.DisplayParse
import Rooc.Proofs.Group
import Rooc.Proofs.LexFormat
import Rooc.Proofs.Program
namespace Rooc.Display
open Rooc Rooc.Syntax Rooc.Syntax.Proofs Rooc.Syntax.Doc

section
variable {α : Type} [Arith α]

/-- **`NumTokenOk`**: the token Rust printed for `v` is an integer literal within `i64` whose value is `v`,
or a float literal `ddd.ddd` that the number reader `numOf` (Rust's `str::parse::<f64>`) maps back to `v`.
(Holds for the non-negative finite numbers below 1e16 or so; checked per case by the harness.) -/
def NumOk (tok : α → String) (numOf : String → α) (v : α) : Prop :=
  (isIntText (tok v) = true ∧ digitsToNat (tok v).toList ≤ i64Max ∧
      Arith.ofInt ((digitsToNat (tok v).toList : Nat) : Int) = v)
  ∨ (FloatParts (tok v) ∧ numOf (tok v) = v)

/-- The fragment of compiled expressions the theorem `parse_display_exp` covers: numbers under `NumOk`,
plain identifiers that are not keywords, `+ - * /`, unary minus,
`not`, and the two-operand logic nodes `into_exp` builds (`and`, `or`, `xor`, `implies`, `iff`). -/
def Frag (tok : α → String) (numOf : String → α) : Exp α → Prop
  | .num v => NumOk tok numOf v
  | .var n => plainWord n.toList = true ∧ isKeyword n = false
  | .bin o l r => isArith o = true ∧ Frag tok numOf l ∧ Frag tok numOf r
  | .un .neg e => Frag tok numOf e
  | .not e => Frag tok numOf e
  | .and [a, b] => Frag tok numOf a ∧ Frag tok numOf b
  | .or [a, b] => Frag tok numOf a ∧ Frag tok numOf b
  | .xor a b => Frag tok numOf a ∧ Frag tok numOf b
  | .implies a b => Frag tok numOf a ∧ Frag tok numOf b
  | .iff a b => Frag tok numOf a ∧ Frag tok numOf b
  | _ => False
end

/-! ### lexing -/

/-- the text `T`, followed by any delimiter, is cut into the tokens `ts` -/
def Lexes (T : List Char) (ts : List Tok) : Prop :=
  ∀ (rest : List Char) (pw : Bool) (acc : List Tok), Delim rest → LexTo (T ++ rest) pw acc rest (ts.reverse ++ acc)

theorem Lexes.paren {T : List Char} {ts : List Tok} (h : Lexes T ts) : Lexes ('(' :: T ++ [')']) (parenToks ts) := by
  intro rest pw acc hd
  have h1 := lexTo_lpar (T ++ ')' :: rest) pw acc
  have h2 := fun pw2 => h (')' :: rest) pw2 (.lpar :: acc) (delim_rpar rest)
  have h3 := fun pw2 => lexTo_rpar rest pw2 (ts.reverse ++ .lpar :: acc)
  have := (h1.trans h2).trans h3
  simpa [parenToks, List.append_assoc] using this

theorem binOpStr_eq (op : BinOp) : binOpStr op = binOpText op := by cases op <;> rfl

/-- `L op R` -/
theorem Lexes.binop {L R : List Char} {tl tr : List Tok} (op : BinOp) (hl : Lexes L tl) (hr : Lexes R tr) :
    Lexes (L ++ ' ' :: ((binOpStr op).toList ++ ' ' :: R)) (tl ++ binKwTok op :: tr) := by
  intro rest pw acc hd
  rw [binOpStr_eq]
  have h1 := hl (' ' :: ((binOpText op).toList ++ ' ' :: (R ++ rest))) pw acc (delim_space _)
  have h2 := fun pw1 => lexTo_space ((binOpText op).toList ++ ' ' :: (R ++ rest)) pw1 (tl.reverse ++ acc)
  have h3 := fun pw1 => lexTo_binop op (R ++ rest) pw1 (tl.reverse ++ acc)
  have h4 := fun pw1 => lexTo_space (R ++ rest) pw1 (binKwTok op :: (tl.reverse ++ acc))
  have h5 := fun pw1 => hr rest pw1 (binKwTok op :: (tl.reverse ++ acc)) hd
  have := (((h1.trans h2).trans h3).trans h4).trans h5
  simpa [List.append_assoc] using this

/-- `not T` -/
theorem Lexes.notWord {T : List Char} {ts : List Tok} (h : Lexes T ts) :
    Lexes ("not ".toList ++ T) (.word "not" :: ts) := by
  intro rest pw acc hd
  have h1 := lexTo_word "not".toList (' ' :: (T ++ rest)) pw acc (by decide) (delim_space _)
  have h2 := fun pw1 => lexTo_space (T ++ rest) pw1 (.word "not" :: acc)
  have h3 := fun pw1 => h rest pw1 (.word "not" :: acc) hd
  have := (h1.trans h2).trans h3
  simpa [List.append_assoc] using this

/-- `-T` when `T` does not start with `>` -/
theorem Lexes.minus {T : List Char} {ts : List Tok} (h : Lexes T ts) (hgt : ∀ rest tl, T ++ rest ≠ '>' :: tl) :
    Lexes ('-' :: T) (.minus :: ts) := by
  intro rest pw acc hd
  have h1 := lexTo_minus (T ++ rest) pw acc (hgt rest)
  have := h1.trans (fun pw1 => h rest pw1 (.minus :: acc) hd)
  simpa using this

theorem floatParts_not_int {s : String} (h : FloatParts s) : isIntText s = false := by
  obtain ⟨ds, fs, hs, _, _, _, _⟩ := h
  simp only [isIntText, hs, Bool.and_eq_false_imp]
  intro _
  simp only [List.all_eq_false]
  exact ⟨'.', by simp, by decide⟩

section
variable {α : Type} [Arith α] (tok : α → String) (numOf : String → α)

theorem lexes_num {v : α} (h : NumOk tok numOf v) : Lexes (tok v).toList [numTok (tok v)] := by
  intro rest pw acc hd
  rcases h with ⟨hi, _, _⟩ | ⟨hf, _⟩
  · have hi' := hi
    simp only [isIntText, Bool.and_eq_true, Bool.not_eq_true', List.all_eq_true] at hi'
    have hne : (tok v).toList ≠ [] := by intro e; simp [e] at hi'
    have := lexTo_int (tok v).toList rest pw acc hne hi'.2 hd
    simpa [numTok, hi] using this
  · obtain ⟨ds, fs, hs, hne, hnf, hds, hfs⟩ := hf
    have hni := floatParts_not_int ⟨ds, fs, hs, hne, hnf, hds, hfs⟩
    have := lexTo_float ds fs rest pw acc hne hnf hds hfs hd
    have hs' : String.ofList (ds ++ '.' :: fs) = tok v := by rw [← hs]; simp
    rw [hs'] at this
    simpa [numTok, hni, hs] using this

/-- a leaf of the fragment is a number or a variable: its text starts with a digit or a letter -/
theorem leaf_head_ne_gt {e : Exp α} (h : Frag tok numOf e) (hl : isLeaf e = true) (ctx : Option (BinOp × Bool)) :
    ∀ rest tl, (showE tok ctx e).toList ++ rest ≠ '>' :: tl := by
  intro rest tl
  cases e with
  | num v =>
    simp only [showE]
    rcases h with ⟨hi, _, _⟩ | ⟨hf, _⟩
    · simp only [isIntText, Bool.and_eq_true, Bool.not_eq_true', List.all_eq_true] at hi
      cases hn : (tok v).toList with
      | nil => simp [hn] at hi
      | cons c cs =>
        intro heq; simp at heq
        have := hi.2 c (by rw [hn]; simp)
        rw [heq.1] at this; exact absurd this (by decide)
    · obtain ⟨ds, fs, hs, hne, _, hd, _⟩ := hf
      rw [hs]
      cases ds with
      | nil => exact absurd rfl hne
      | cons c cs =>
        intro heq; simp at heq
        have := hd c List.mem_cons_self
        rw [heq.1] at this; exact absurd this (by decide)
  | var n =>
    simp only [showE]
    have hw := h.1
    cases hn : n.toList with
    | nil => rw [hn] at hw; simp [plainWord] at hw
    | cons c cs =>
      rw [hn] at hw
      simp only [plainWord, Bool.and_eq_true] at hw
      intro heq; simp at heq
      have := hw.1; rw [heq.1] at this; exact absurd this (by decide)
  | abs e => simp [Frag] at h
  | min es => simp [Frag] at h
  | max es => simp [Frag] at h
  | _ => simp [isLeaf] at hl

/-- operand of a unary operator: bare when a leaf, parenthesised otherwise -/
theorem lexes_unOperand {e : Exp α} (h : Frag tok numOf e) (ih : Lexes (showE tok none e).toList (dToks tok none e)) :
    Lexes (if isLeaf e then (showE tok none e).toList else '(' :: (showE tok none e).toList ++ [')'])
      (if isLeaf e then dToks tok none e else parenToks (dToks tok none e)) := by
  by_cases hl : isLeaf e = true
  · simpa [hl] using ih
  · simpa [hl] using ih.paren

/-- `logic_operand_to_string` -/
theorem lexes_logicOperand (e : Exp α) (ih : Lexes (showE tok none e).toList (dToks tok none e)) :
    Lexes (logicOperand e (showE tok none e)).toList (logicToks e (dToks tok none e)) := by
  unfold logicOperand logicToks
  by_cases hl : isLeaf e = true
  · simpa [hl] using ih
  · simp only [hl, Bool.false_eq_true, if_false]
    cases e with
    | not inner =>
      by_cases hi : isLeaf inner = true
      · simpa [hi] using ih
      · simpa [hi, String.toList_append] using ih.paren
    | _ => first | (simpa [String.toList_append] using ih.paren) | (simp [isLeaf] at hl)

/-- `a kw b` for a logic node -/
theorem lexes_logic2 (op : BinOp) (a b : Exp α)
    (iha : Lexes (showE tok none a).toList (dToks tok none a)) (ihb : Lexes (showE tok none b).toList (dToks tok none b)) :
    Lexes ((logicOperand a (showE tok none a)).toList ++ ' ' :: ((binOpStr op).toList ++ ' ' :: (logicOperand b (showE tok none b)).toList))
      (logicToks a (dToks tok none a) ++ binKwTok op :: logicToks b (dToks tok none b)) :=
  Lexes.binop op (lexes_logicOperand tok a iha) (lexes_logicOperand tok b ihb)

/-- **The text of `Display` is cut into the tokens of its token-level twin.** -/
theorem lexShow : (e : Exp α) → Frag tok numOf e → ∀ ctx, Lexes (showE tok ctx e).toList (dToks tok ctx e)
  | .num v, h, ctx => by simpa [showE, dToks] using lexes_num tok numOf h
  | .var n, h, ctx => by
    intro rest pw acc hd
    simpa [showE, dToks] using lexTo_word n.toList rest pw acc h.1 hd
  | .bin op l r, h, ctx => by
    have ihl := lexShow l h.2.1 (some (op, false))
    have ihr := lexShow r h.2.2 (some (op, true))
    have body := Lexes.binop op ihl ihr
    cases ctx with
    | none => simpa [showE, dToks, String.toList_append] using body
    | some p =>
      obtain ⟨parent, isRhs⟩ := p
      by_cases hp : parensRule parent isRhs op = true
      · simpa [showE, dToks, hp, String.toList_append] using body.paren
      · simpa [showE, dToks, hp, String.toList_append] using body
  | .un .neg e, h, ctx => by
    have h' : Frag tok numOf e := h
    have ih := lexShow e h' none
    have hop := lexes_unOperand tok numOf h' ih
    have := Lexes.minus hop (by
      intro rest tl
      by_cases hl : isLeaf e = true
      · simpa [hl] using leaf_head_ne_gt tok numOf h' hl none rest tl
      · simp [hl])
    by_cases hl : isLeaf e = true <;> simpa [showE, dToks, unOpStr, unKwTok, hl, String.toList_append] using this
  | .not e, h, ctx => by
    have h' : Frag tok numOf e := h
    have ih := lexShow e h' none
    have := Lexes.notWord (lexes_unOperand tok numOf h' ih)
    by_cases hl : isLeaf e = true <;> simpa [showE, dToks, hl, String.toList_append] using this
  | .and [a, b], h, ctx => by
    have := lexes_logic2 tok .and a b (lexShow a h.1 none) (lexShow b h.2 none)
    cases ctx with
    | none => simpa [showE, dToks, logicWrap, logicWrapToks, joinWith, binOpStr, binKwTok, String.toList_append] using this
    | some p => simpa [showE, dToks, logicWrap, logicWrapToks, joinWith, binOpStr, binKwTok, String.toList_append, parenToks] using this.paren
  | .or [a, b], h, ctx => by
    have := lexes_logic2 tok .or a b (lexShow a h.1 none) (lexShow b h.2 none)
    cases ctx with
    | none => simpa [showE, dToks, logicWrap, logicWrapToks, joinWith, binOpStr, binKwTok, String.toList_append] using this
    | some p => simpa [showE, dToks, logicWrap, logicWrapToks, joinWith, binOpStr, binKwTok, String.toList_append, parenToks] using this.paren
  | .xor a b, h, ctx => by
    have := lexes_logic2 tok .xor a b (lexShow a h.1 none) (lexShow b h.2 none)
    cases ctx with
    | none => simpa [showE, dToks, logicWrap, logicWrapToks, joinWith, binOpStr, binKwTok, String.toList_append] using this
    | some p => simpa [showE, dToks, logicWrap, logicWrapToks, joinWith, binOpStr, binKwTok, String.toList_append, parenToks] using this.paren
  | .implies a b, h, ctx => by
    have := lexes_logic2 tok .implies a b (lexShow a h.1 none) (lexShow b h.2 none)
    cases ctx with
    | none => simpa [showE, dToks, logicWrap, logicWrapToks, joinWith, binOpStr, binKwTok, String.toList_append] using this
    | some p => simpa [showE, dToks, logicWrap, logicWrapToks, joinWith, binOpStr, binKwTok, String.toList_append, parenToks] using this.paren
  | .iff a b, h, ctx => by
    have := lexes_logic2 tok .iff a b (lexShow a h.1 none) (lexShow b h.2 none)
    cases ctx with
    | none => simpa [showE, dToks, logicWrap, logicWrapToks, joinWith, binOpStr, binKwTok, String.toList_append] using this
    | some p => simpa [showE, dToks, logicWrap, logicWrapToks, joinWith, binOpStr, binKwTok, String.toList_append, parenToks] using this.paren
  | .un .not e, h, _ => by simp [Frag] at h
  | .abs _, h, _ => by simp [Frag] at h
  | .min _, h, _ => by simp [Frag] at h
  | .max _, h, _ => by simp [Frag] at h
  | .and [], h, _ => by simp [Frag] at h
  | .and [_], h, _ => by simp [Frag] at h
  | .and (_ :: _ :: _ :: _), h, _ => by simp [Frag] at h
  | .or [], h, _ => by simp [Frag] at h
  | .or [_], h, _ => by simp [Frag] at h
  | .or (_ :: _ :: _ :: _), h, _ => by simp [Frag] at h

theorem lex_displayExp (e : Exp α) (h : Frag tok numOf e) : lex (displayExp tok e).toList = .ok (dToks tok none e) := by
  have := lex_of_lexTo (by simpa using lexShow tok numOf e h none [] false [] (Or.inl rfl))
  simpa [displayExp] using this
end

/-! ### the tokens are a rendering of `toP e` -/

theorem binKwTok_mem (o : BinOp) : binKwTok o ∈ binToks o := by cases o <;> simp [binKwTok, binToks]
theorem unKwTok_mem (u : UnOp) : unKwTok u ∈ unToks u := by cases u <;> simp [unKwTok, unToks]

/-- the rule `Display` applies is the documented need for parentheses (C09's `Doc` table) -/
theorem needParenLeft_eq (p op : BinOp) (a b : PExp) : needParenLeft p (.bin op a b) = parensRule p false op := by
  cases p <;> cases op <;> rfl
theorem needParenRight_eq (p op : BinOp) (a b : PExp) : needParenRight p (.bin op a b) = parensRule p true op := by
  cases p <;> cases op <;> rfl

def needParenSide (p : BinOp) (isRhs : Bool) (t : PExp) : Bool := if isRhs then needParenRight p t else needParenLeft p t

section
variable {α : Type} [Arith α] (tok : α → String) (numOf : String → α)

theorem tk_num {v : α} (h : NumOk tok numOf v) : Tk (numP (tok v)) [numTok (tok v)] [.leaf (numP (tok v))] := by
  rcases h with ⟨hi, hle, _⟩ | ⟨hf, _⟩
  · simpa [numP, numTok, hi] using Tk.atom (Atom.int (tok v) hle)
  · have := floatParts_not_int hf
    simpa [numP, numTok, this] using Tk.atom (Atom.num (tok v))

/-- operand of a prefix operator: always ONE leaf pair -/
theorem tk_unOperand {e : Exp α} {items : List Item} (hk : Tk (toP tok e) (dToks tok none e) items)
    (hleaf : isLeaf e = true → items = [.leaf (toP tok e)]) :
    Tk (toP tok e) (if isLeaf e then dToks tok none e else parenToks (dToks tok none e)) [.leaf (toP tok e)] := by
  by_cases hl : isLeaf e = true
  · have := hleaf hl; subst this; simpa [hl] using hk
  · simpa [hl, parenToks] using Tk.paren hk

/-- operand of a logic node: one leaf pair, or a bare `not x` (which needs no parentheses anywhere) -/
theorem tk_logicOperand (o : BinOp) (isRhs : Bool) {e : Exp α} {items : List Item}
    (hk : Tk (toP tok e) (dToks tok none e) items) (hleaf : isLeaf e = true → items = [.leaf (toP tok e)]) :
    ∃ items', Tk (toP tok e) (logicToks e (dToks tok none e)) items' ∧
      (items' = [.leaf (toP tok e)] ∨ needParenSide o isRhs (toP tok e) = false) := by
  unfold logicToks
  by_cases hl : isLeaf e = true
  · exact ⟨items, by simpa [hl] using hk, Or.inl (hleaf hl)⟩
  · simp only [hl, Bool.false_eq_true, if_false]
    cases e with
    | not inner =>
      by_cases hi : isLeaf inner = true
      · refine ⟨items, by simpa [hi] using hk, Or.inr ?_⟩
        cases isRhs <;> simp [needParenSide, toP, needParenLeft, needParenRight]
      · exact ⟨_, by simpa [hi, parenToks] using Tk.paren hk, Or.inl rfl⟩
    | _ => first | exact ⟨_, by simpa [parenToks] using Tk.paren hk, Or.inl rfl⟩ | (simp [isLeaf] at hl)

theorem tk_logic2 (o : BinOp) {a b : Exp α} {ia ib : List Item}
    (ha : Tk (toP tok a) (dToks tok none a) ia) (hla : isLeaf a = true → ia = [.leaf (toP tok a)])
    (hb : Tk (toP tok b) (dToks tok none b) ib) (hlb : isLeaf b = true → ib = [.leaf (toP tok b)]) :
    ∃ items, Tk (.bin o (toP tok a) (toP tok b))
      (logicToks a (dToks tok none a) ++ binKwTok o :: logicToks b (dToks tok none b)) items := by
  obtain ⟨ia', hka, hpa⟩ := tk_logicOperand tok o false ha hla
  obtain ⟨ib', hkb, hpb⟩ := tk_logicOperand tok o true hb hlb
  exact ⟨_, Tk.bin hka hkb (by simpa [needParenSide] using hpa) (by simpa [needParenSide] using hpb) (binKwTok_mem o)⟩

/-- **The tokens of the rendering are a rendering (`Tk`, C09) of `toP e`**: a leaf is one leaf pair, and an
operand that is not a bare logic node carries the parentheses the grouping rules need. -/
theorem tkShow : (e : Exp α) → Frag tok numOf e → ∀ ctx, ∃ items, Tk (toP tok e) (dToks tok ctx e) items ∧
    (isLeaf e = true → items = [.leaf (toP tok e)]) ∧
    (∀ p s, ctx = some (p, s) → items = [.leaf (toP tok e)] ∨ needParenSide p s (toP tok e) = false)
  | .num v, h, ctx => ⟨_, by simpa [toP, dToks] using tk_num tok numOf h, fun _ => rfl, fun _ _ _ => Or.inl rfl⟩
  | .var n, h, ctx => ⟨_, by simpa [toP, dToks] using Tk.atom (Atom.var n h.2), fun _ => rfl, fun _ _ _ => Or.inl rfl⟩
  | .bin op l r, h, ctx => by
    obtain ⟨il, hkl, _, hpl⟩ := tkShow l h.2.1 (some (op, false))
    obtain ⟨ir, hkr, _, hpr⟩ := tkShow r h.2.2 (some (op, true))
    have body := Tk.bin hkl hkr (by simpa [needParenSide] using hpl op false rfl)
      (by simpa [needParenSide] using hpr op true rfl) (binKwTok_mem op)
    cases ctx with
    | none => exact ⟨_, by simpa [toP, dToks] using body, by simp [isLeaf], by intro p s e; cases e⟩
    | some ps =>
      obtain ⟨parent, isRhs⟩ := ps
      by_cases hp : parensRule parent isRhs op = true
      · exact ⟨_, by simpa [toP, dToks, hp, parenToks] using Tk.paren body, by simp [isLeaf],
          fun _ _ _ => Or.inl (by simp [toP])⟩
      · refine ⟨_, by simpa [toP, dToks, hp] using body, by simp [isLeaf], ?_⟩
        intro p s e
        cases e
        right
        have hp' : parensRule parent isRhs op = false := by simpa using hp
        cases isRhs <;> simp [needParenSide, toP, needParenLeft_eq, needParenRight_eq, hp']
  | .un .neg e, h, ctx => by
    have h' : Frag tok numOf e := h
    obtain ⟨ie, hke, hle, _⟩ := tkShow e h' none
    have := Tk.un (tk_unOperand tok hke hle) (unKwTok_mem .neg)
    refine ⟨_, by simpa [toP, dToks] using this, by simp [isLeaf], ?_⟩
    intro p s _
    right; cases s <;> simp [needParenSide, toP, needParenLeft, needParenRight]
  | .not e, h, ctx => by
    have h' : Frag tok numOf e := h
    obtain ⟨ie, hke, hle, _⟩ := tkShow e h' none
    have := Tk.un (tk_unOperand tok hke hle) (unKwTok_mem .not)
    refine ⟨_, by simpa [toP, dToks, unKwTok] using this, by simp [isLeaf], ?_⟩
    intro p s _
    right; cases s <;> simp [needParenSide, toP, needParenLeft, needParenRight]
  | .and [a, b], h, ctx => by
    obtain ⟨ia, hka, hla, _⟩ := tkShow a h.1 none
    obtain ⟨ib, hkb, hlb, _⟩ := tkShow b h.2 none
    obtain ⟨items, hk⟩ := tk_logic2 tok .and hka hla hkb hlb
    cases ctx with
    | none => exact ⟨items, by simpa [toP, dToks, binKwTok, logicWrapToks] using hk, by simp [isLeaf], by intro p s e; cases e⟩
    | some ps =>
      exact ⟨_, by simpa [toP, dToks, binKwTok, logicWrapToks, parenToks] using Tk.paren hk, by simp [isLeaf],
        fun _ _ _ => Or.inl (by simp [toP])⟩
  | .or [a, b], h, ctx => by
    obtain ⟨ia, hka, hla, _⟩ := tkShow a h.1 none
    obtain ⟨ib, hkb, hlb, _⟩ := tkShow b h.2 none
    obtain ⟨items, hk⟩ := tk_logic2 tok .or hka hla hkb hlb
    cases ctx with
    | none => exact ⟨items, by simpa [toP, dToks, binKwTok, logicWrapToks] using hk, by simp [isLeaf], by intro p s e; cases e⟩
    | some ps =>
      exact ⟨_, by simpa [toP, dToks, binKwTok, logicWrapToks, parenToks] using Tk.paren hk, by simp [isLeaf],
        fun _ _ _ => Or.inl (by simp [toP])⟩
  | .xor a b, h, ctx => by
    obtain ⟨ia, hka, hla, _⟩ := tkShow a h.1 none
    obtain ⟨ib, hkb, hlb, _⟩ := tkShow b h.2 none
    obtain ⟨items, hk⟩ := tk_logic2 tok .xor hka hla hkb hlb
    cases ctx with
    | none => exact ⟨items, by simpa [toP, dToks, binKwTok, logicWrapToks] using hk, by simp [isLeaf], by intro p s e; cases e⟩
    | some ps =>
      exact ⟨_, by simpa [toP, dToks, binKwTok, logicWrapToks, parenToks] using Tk.paren hk, by simp [isLeaf],
        fun _ _ _ => Or.inl (by simp [toP])⟩
  | .implies a b, h, ctx => by
    obtain ⟨ia, hka, hla, _⟩ := tkShow a h.1 none
    obtain ⟨ib, hkb, hlb, _⟩ := tkShow b h.2 none
    obtain ⟨items, hk⟩ := tk_logic2 tok .implies hka hla hkb hlb
    cases ctx with
    | none => exact ⟨items, by simpa [toP, dToks, binKwTok, logicWrapToks] using hk, by simp [isLeaf], by intro p s e; cases e⟩
    | some ps =>
      exact ⟨_, by simpa [toP, dToks, binKwTok, logicWrapToks, parenToks] using Tk.paren hk, by simp [isLeaf],
        fun _ _ _ => Or.inl (by simp [toP])⟩
  | .iff a b, h, ctx => by
    obtain ⟨ia, hka, hla, _⟩ := tkShow a h.1 none
    obtain ⟨ib, hkb, hlb, _⟩ := tkShow b h.2 none
    obtain ⟨items, hk⟩ := tk_logic2 tok .iff hka hla hkb hlb
    cases ctx with
    | none => exact ⟨items, by simpa [toP, dToks, binKwTok, logicWrapToks] using hk, by simp [isLeaf], by intro p s e; cases e⟩
    | some ps =>
      exact ⟨_, by simpa [toP, dToks, binKwTok, logicWrapToks, parenToks] using Tk.paren hk, by simp [isLeaf],
        fun _ _ _ => Or.inl (by simp [toP])⟩
  | .un .not e, h, _ => by simp [Frag] at h
  | .abs _, h, _ => by simp [Frag] at h
  | .min _, h, _ => by simp [Frag] at h
  | .max _, h, _ => by simp [Frag] at h
  | .and [], h, _ => by simp [Frag] at h
  | .and [_], h, _ => by simp [Frag] at h
  | .and (_ :: _ :: _ :: _), h, _ => by simp [Frag] at h
  | .or [], h, _ => by simp [Frag] at h
  | .or [_], h, _ => by simp [Frag] at h
  | .or (_ :: _ :: _ :: _), h, _ => by simp [Frag] at h

/-- `into_exp` maps the parsed tree back to the expression -/
theorem intoExp_toP : (e : Exp α) → Frag tok numOf e → intoExp numOf (toP tok e) = some e
  | .num v, h => by
    rcases h with ⟨hi, _, hv⟩ | ⟨hf, hv⟩
    · simp [toP, numP, hi, intoExp, hv]
    · simp [toP, numP, floatParts_not_int hf, intoExp, hv]
  | .var n, _ => by simp [toP, intoExp]
  | .bin op l r, h => by
    have hl := intoExp_toP l h.2.1
    have hr := intoExp_toP r h.2.2
    have ha := h.1
    cases op <;> simp [isArith] at ha <;> simp [toP, intoExp, hl, hr, mkBinExp]
  | .un .neg e, h => by
    have h' : Frag tok numOf e := h
    simp [toP, intoExp, intoExp_toP e h']
  | .not e, h => by
    have h' : Frag tok numOf e := h
    simp [toP, intoExp, intoExp_toP e h']
  | .and [a, b], h => by simp [toP, intoExp, intoExp_toP a h.1, intoExp_toP b h.2, mkBinExp]
  | .or [a, b], h => by simp [toP, intoExp, intoExp_toP a h.1, intoExp_toP b h.2, mkBinExp]
  | .xor a b, h => by simp [toP, intoExp, intoExp_toP a h.1, intoExp_toP b h.2, mkBinExp]
  | .implies a b, h => by simp [toP, intoExp, intoExp_toP a h.1, intoExp_toP b h.2, mkBinExp]
  | .iff a b, h => by simp [toP, intoExp, intoExp_toP a h.1, intoExp_toP b h.2, mkBinExp]
  | .un .not e, h => by simp [Frag] at h
  | .abs _, h => by simp [Frag] at h
  | .min _, h => by simp [Frag] at h
  | .max _, h => by simp [Frag] at h
  | .and [], h => by simp [Frag] at h
  | .and [_], h => by simp [Frag] at h
  | .and (_ :: _ :: _ :: _), h => by simp [Frag] at h
  | .or [], h => by simp [Frag] at h
  | .or [_], h => by simp [Frag] at h
  | .or (_ :: _ :: _ :: _), h => by simp [Frag] at h
end


/-! ### constraints -/

theorem logicToks_expr {α : Type} (e : Exp α) {ts : List Tok} (h : ∀ tk ∈ ts, isExprTok tk = true) :
    ∀ tk ∈ logicToks e ts, isExprTok tk = true := by
  unfold logicToks
  split
  · exact h
  · split
    · split
      · exact h
      · exact mem_paren_expr h
    · exact mem_paren_expr h

section
variable {α : Type} [Arith α] (tok : α → String) (numOf : String → α)

theorem numTok_expr (s : String) : isExprTok (numTok s) = true := by unfold numTok; split <;> rfl

/-- the rendering uses expression tokens only -/
theorem dToks_expr : (e : Exp α) → Frag tok numOf e → ∀ ctx, ∀ tk ∈ dToks tok ctx e, isExprTok tk = true
  | .num v, _, ctx => by intro tk h; simp [dToks] at h; subst h; exact numTok_expr _
  | .var n, _, ctx => by intro tk h; simp [dToks] at h; subst h; rfl
  | .bin op l r, h, ctx => by
    have ihl := dToks_expr l h.2.1 (some (op, false))
    have ihr := dToks_expr r h.2.2 (some (op, true))
    have body : ∀ tk ∈ dToks tok (some (op, false)) l ++ binKwTok op :: dToks tok (some (op, true)) r, isExprTok tk = true := by
      intro tk htk
      rcases List.mem_append.mp htk with h1 | h1
      · exact ihl tk h1
      · rcases List.mem_cons.mp h1 with rfl | h1
        · exact binKwTok_expr op
        · exact ihr tk h1
    cases ctx with
    | none => simpa [dToks] using body
    | some p =>
      obtain ⟨parent, isRhs⟩ := p
      by_cases hp : parensRule parent isRhs op = true
      · simpa [dToks, hp] using mem_paren_expr body
      · simpa [dToks, hp] using body
  | .un .neg e, h, ctx => by
    have h' : Frag tok numOf e := h
    have ih := dToks_expr e h' none
    intro tk htk
    simp only [dToks] at htk
    rcases List.mem_cons.mp htk with rfl | htk
    · rfl
    · split at htk
      · exact ih tk htk
      · exact mem_paren_expr ih tk htk
  | .not e, h, ctx => by
    have h' : Frag tok numOf e := h
    have ih := dToks_expr e h' none
    intro tk htk
    simp only [dToks] at htk
    rcases List.mem_cons.mp htk with rfl | htk
    · rfl
    · split at htk
      · exact ih tk htk
      · exact mem_paren_expr ih tk htk
  | .and [a, b], h, ctx => by
    have body : ∀ tk ∈ logicToks a (dToks tok none a) ++ .word "and" :: logicToks b (dToks tok none b), isExprTok tk = true := by
      intro tk htk
      rcases List.mem_append.mp htk with h1 | h1
      · exact logicToks_expr a (dToks_expr a h.1 none) tk h1
      · rcases List.mem_cons.mp h1 with rfl | h1
        · rfl
        · exact logicToks_expr b (dToks_expr b h.2 none) tk h1
    cases ctx with
    | none => simpa [dToks, logicWrapToks] using body
    | some p => simpa [dToks, logicWrapToks] using mem_paren_expr body
  | .or [a, b], h, ctx => by
    have body : ∀ tk ∈ logicToks a (dToks tok none a) ++ .word "or" :: logicToks b (dToks tok none b), isExprTok tk = true := by
      intro tk htk
      rcases List.mem_append.mp htk with h1 | h1
      · exact logicToks_expr a (dToks_expr a h.1 none) tk h1
      · rcases List.mem_cons.mp h1 with rfl | h1
        · rfl
        · exact logicToks_expr b (dToks_expr b h.2 none) tk h1
    cases ctx with
    | none => simpa [dToks, logicWrapToks] using body
    | some p => simpa [dToks, logicWrapToks] using mem_paren_expr body
  | .xor a b, h, ctx => by
    have body : ∀ tk ∈ logicToks a (dToks tok none a) ++ .word "xor" :: logicToks b (dToks tok none b), isExprTok tk = true := by
      intro tk htk
      rcases List.mem_append.mp htk with h1 | h1
      · exact logicToks_expr a (dToks_expr a h.1 none) tk h1
      · rcases List.mem_cons.mp h1 with rfl | h1
        · rfl
        · exact logicToks_expr b (dToks_expr b h.2 none) tk h1
    cases ctx with
    | none => simpa [dToks, logicWrapToks] using body
    | some p => simpa [dToks, logicWrapToks] using mem_paren_expr body
  | .implies a b, h, ctx => by
    have body : ∀ tk ∈ logicToks a (dToks tok none a) ++ .word "implies" :: logicToks b (dToks tok none b), isExprTok tk = true := by
      intro tk htk
      rcases List.mem_append.mp htk with h1 | h1
      · exact logicToks_expr a (dToks_expr a h.1 none) tk h1
      · rcases List.mem_cons.mp h1 with rfl | h1
        · rfl
        · exact logicToks_expr b (dToks_expr b h.2 none) tk h1
    cases ctx with
    | none => simpa [dToks, logicWrapToks] using body
    | some p => simpa [dToks, logicWrapToks] using mem_paren_expr body
  | .iff a b, h, ctx => by
    have body : ∀ tk ∈ logicToks a (dToks tok none a) ++ .word "iff" :: logicToks b (dToks tok none b), isExprTok tk = true := by
      intro tk htk
      rcases List.mem_append.mp htk with h1 | h1
      · exact logicToks_expr a (dToks_expr a h.1 none) tk h1
      · rcases List.mem_cons.mp h1 with rfl | h1
        · rfl
        · exact logicToks_expr b (dToks_expr b h.2 none) tk h1
    cases ctx with
    | none => simpa [dToks, logicWrapToks] using body
    | some p => simpa [dToks, logicWrapToks] using mem_paren_expr body
  | .un .not e, h, _ => by simp [Frag] at h
  | .abs _, h, _ => by simp [Frag] at h
  | .min _, h, _ => by simp [Frag] at h
  | .max _, h, _ => by simp [Frag] at h
  | .and [], h, _ => by simp [Frag] at h
  | .and [_], h, _ => by simp [Frag] at h
  | .and (_ :: _ :: _ :: _), h, _ => by simp [Frag] at h
  | .or [], h, _ => by simp [Frag] at h
  | .or [_], h, _ => by simp [Frag] at h
  | .or (_ :: _ :: _ :: _), h, _ => by simp [Frag] at h

/-- the rendering is not empty (it lexes from a non-empty text: shown via the parser reading it) -/
theorem dToks_ne_nil (e : Exp α) (h : Frag tok numOf e) : ∃ tk tl, dToks tok none e = tk :: tl := by
  obtain ⟨items, hk, _⟩ := tkShow tok numOf e h none
  obtain ⟨tk, tl, e, _⟩ := tk_head hk
  exact ⟨tk, tl, e⟩

/-- one rendered expression followed by a terminator is read back as `toP e` -/
theorem expAt_dToks (e : Exp α) (h : Frag tok numOf e) {rest : List Tok} (hc : Closed rest) :
    expAt (dToks tok none e ++ rest) = .ok (toP tok e, rest) := by
  obtain ⟨items, hk, _⟩ := tkShow tok numOf e h none
  exact parseExp_of_main (tk_main hk).1 hk.toIR hc _ (by simp [parseFuel])

/-- a compiled constraint of the fragment: expressions in `Frag`, a plain name that is not a keyword -/
def FragC (c : Constraint α) : Prop :=
  (c.name.isEmpty = true ∨ (plainWord c.name.toList = true ∧ isKeyword c.name = false))
  ∧ Frag tok numOf c.lhs ∧ (c.isAssert = true ∨ Frag tok numOf c.rhs)

/-- **The tokens of a rendered compiled constraint are read by the constraint rule as the constraint.** -/
theorem parseConstraint_dToks (c : Constraint α) (h : FragC tok numOf c) :
    parseConstraint (constraintDToks tok c) = .ok (toPConstraint tok c, []) := by
  obtain ⟨hn, hl, hr⟩ := h
  have hbody : ∀ nm, constraintBody nm
        (dToks tok none c.lhs ++ (if c.isAssert then [] else cmpTok (cmpOf c.cmp) :: dToks tok none c.rhs)) =
      .ok ({ name := nm, lhs := toP tok c.lhs, cmp := if c.isAssert then .eq else cmpOf c.cmp,
             rhs := if c.isAssert then .bool true else toP tok c.rhs, logic := c.isAssert, iterVars := [], iters := [] }, []) := by
    intro nm
    unfold constraintBody
    cases ha : c.isAssert with
    | true =>
      simp only [if_true, List.append_nil]
      have := expAt_dToks tok numOf c.lhs hl (rest := []) (Or.inl rfl)
      simp only [List.append_nil] at this
      rw [this]
      simp [optFor_nil]
    | false =>
      have hr' : Frag tok numOf c.rhs := by
        rcases hr with hr | hr
        · rw [ha] at hr; cases hr
        · exact hr
      simp only [Bool.false_eq_true, if_false]
      rw [expAt_dToks tok numOf c.lhs hl (closed_cmp _ _)]
      simp only [cmpOfTok_cmpTok]
      have := expAt_dToks tok numOf c.rhs hr' (rest := []) (Or.inl rfl)
      simp only [List.append_nil] at this
      rw [this]
      simp [optFor_nil]
  obtain ⟨items, hkl, _⟩ := tkShow tok numOf c.lhs hl none
  unfold parseConstraint constraintDToks toPConstraint
  by_cases hne : c.name.isEmpty = true
  · -- no name: behind the variable the expression may begin with, no `:` follows
    have hcn : constraintName (dToks tok none c.lhs ++ (if c.isAssert then [] else cmpTok (cmpOf c.cmp) :: dToks tok none c.rhs))
        = .ok (none, dToks tok none c.lhs ++ (if c.isAssert then [] else cmpTok (cmpOf c.cmp) :: dToks tok none c.rhs)) := by
      cases ha : c.isAssert with
      | true =>
        have := constraintName_none' hkl (rest := []) (by intro tl e; cases e) (by intro tl e; cases e)
        simpa using this
      | false =>
        have := constraintName_none hkl (x := cmpTok (cmpOf c.cmp)) (tail := dToks tok none c.rhs)
          (by cases c.cmp <;> simp [cmpTok, cmpOf]) (by cases c.cmp <;> simp [cmpTok, cmpOf])
        simpa using this
    simp only [hne, if_true, List.nil_append, List.append_assoc]
    rw [hcn]
    exact hbody none
  · have hne' : c.name.isEmpty = false := by simpa using hne
    obtain ⟨_, hk⟩ : plainWord c.name.toList = true ∧ isKeyword c.name = false := by
      rcases hn with hn | hn
      · exact absurd hn hne
      · exact hn
    obtain ⟨tk, tl, e⟩ := dToks_ne_nil tok numOf c.lhs hl
    have hx := dToks_expr tok numOf c.lhs hl none tk (by rw [e]; simp)
    have hcn := nameAt_plain hk (.colon :: (dToks tok none c.lhs ++ (if c.isAssert then [] else cmpTok (cmpOf c.cmp) :: dToks tok none c.rhs)))
      (by intro tl e; cases e)
    simp only [hne', Bool.false_eq_true, if_false, List.cons_append, List.nil_append, List.append_assoc, constraintName]
    rw [hcn]
    have hsk : skipNl (dToks tok none c.lhs ++ (if c.isAssert then [] else cmpTok (cmpOf c.cmp) :: dToks tok none c.rhs)) =
        dToks tok none c.lhs ++ (if c.isAssert then [] else cmpTok (cmpOf c.cmp) :: dToks tok none c.rhs) := by
      rw [e]; exact skipNl_expr hx _
    simp only [hsk]
    exact hbody (some (.plain c.name))
end


/-! ### the text of a constraint -/

/-- a plain word directly followed by `:` (copy of `lex_word` for the one delimiter `Delim` does not cover) -/
theorem lex_word_colon (f : Nat) (cs rest : List Char) (pw : Bool) (acc : List Tok) (hw : plainWord cs = true) :
    lexAux (f+1) (cs ++ ':' :: rest) pw acc = lexAux f (':' :: rest) true (.word (String.ofList cs) :: acc) := by
  cases cs with
  | nil => simp [plainWord] at hw
  | cons c tl =>
    simp only [plainWord, Bool.and_eq_true, List.all_eq_true, Bool.or_eq_true] at hw
    obtain ⟨hc, htl⟩ := hw
    have hall : ∀ d ∈ c :: tl, isWordChar d = true := by
      intro d hd'
      rcases List.mem_cons.mp hd' with rfl | hd'
      · simp [isWordChar, hc]
      · rcases htl d hd' with h | h <;> simp [isWordChar, h]
    have hspan : spanWhile isWordChar (c :: (tl ++ ':' :: rest)) = (c :: tl, ':' :: rest) := by
      have := spanWhile_all (p := isWordChar) (xs := c :: tl) (rest := ':' :: rest) hall
        (by intro c' tl' e; injection e with e _; subst e; decide)
      simpa using this
    have hsimple : isSimpleRun (c :: tl) = true := by
      have hcu : (c == '_') = false := by
        have : c ≠ '_' := letter_ne hc (by decide)
        simpa using this
      simp only [isSimpleRun, spanWhile, hcu]
      simp [hc]
      intro d hd'
      rcases htl d hd' with h | h <;> simp [h]
    have h1 : c ≠ ' ' := letter_ne hc (by decide)
    have h2 : c ≠ '\t' := letter_ne hc (by decide)
    have h3 : c ≠ '/' := letter_ne hc (by decide)
    have h4 : c ≠ '(' := letter_ne hc (by decide)
    have h5 : c ≠ ')' := letter_ne hc (by decide)
    have h6 : c ≠ ',' := letter_ne hc (by decide)
    have h7 : c ≠ '+' := letter_ne hc (by decide)
    have h8 : c ≠ '*' := letter_ne hc (by decide)
    have h9 : c ≠ '!' := letter_ne hc (by decide)
    have h10 : c ≠ '-' := letter_ne hc (by decide)
    have h11 : c ≠ '<' := letter_ne hc (by decide)
    have h12 : c ≠ '&' := letter_ne hc (by decide)
    have h13 : c ≠ '|' := letter_ne hc (by decide)
    have h14 : c ≠ '$' := letter_ne hc (by decide)
    have h15 : c ≠ '_' := letter_ne hc (by decide)
    have h16 : c ≠ '\n' := letter_ne hc (by decide)
    have h17 : c ≠ '\r' := letter_ne hc (by decide)
    have h18 : c ≠ ':' := letter_ne hc (by decide)
    have h19 : c ≠ '=' := letter_ne hc (by decide)
    have h20 : c ≠ '>' := letter_ne hc (by decide)
    have hst : dotTDot (tl ++ ':' :: rest) = false := by
      apply dotTDot_false
      intro d tl' e
      cases tl with
      | nil => simp at e; rw [← e.1]; decide
      | cons x xs =>
        simp at e
        rcases htl x List.mem_cons_self with h | h
        · rw [← e.1]; exact letter_ne h (by decide)
        · rw [← e.1]; exact digit_ne h (by decide)
    simp [lexAux, h1, h2, h3, h4, h5, h6, h7, h8, h9, h10, h11, h12, h13, h14, h15, h16, h17, h18, h19, h20, hst,
      letter_not_digit hc, hc, hspan, hsimple]

def cmpChars : Rooc.Cmp → List Char
  | .le => ['<', '='] | .ge => ['>', '='] | .eq => ['='] | .lt => ['<'] | .gt => ['>']

theorem cmpStr_toList (c : Rooc.Cmp) : (cmpStr c).toList = cmpChars c := by cases c <;> rfl

/-- a comparison between two spaces -/
theorem lexTo_cmp (c : Rooc.Cmp) (r : List Char) (pw : Bool) (acc : List Tok) :
    LexTo (cmpChars c ++ ' ' :: r) pw acc (' ' :: r) (cmpTok (cmpOf c) :: acc) := by
  cases c <;>
    exact LexTo.of_step (pw' := false) (fun f => by simp [cmpChars, cmpTok, cmpOf, lexAux]) (by simp [cmpChars])

/-- `name: T` -/
theorem Lexes.named {T : List Char} {ts : List Tok} (n : String) (hw : plainWord n.toList = true) (h : Lexes T ts) :
    Lexes (n.toList ++ ':' :: ' ' :: T) (.word n :: .colon :: ts) := by
  intro rest pw acc hd
  have h1 : LexTo (n.toList ++ ':' :: ' ' :: (T ++ rest)) pw acc (':' :: ' ' :: (T ++ rest)) (.word n :: acc) := by
    have := LexTo.of_step (fun f => lex_word_colon f n.toList (' ' :: (T ++ rest)) pw acc hw) (by
      cases hn : n.toList with
      | nil => rw [hn] at hw; simp [plainWord] at hw
      | cons c tl => simp; omega)
    simpa using this
  have h2 : ∀ pw1, LexTo (':' :: ' ' :: (T ++ rest)) pw1 (.word n :: acc) (' ' :: (T ++ rest)) (.colon :: .word n :: acc) :=
    fun pw1 => LexTo.of_step (pw' := false) (fun f => by simp [lexAux]) (by simp)
  have h3 := fun pw1 => lexTo_space (T ++ rest) pw1 (.colon :: .word n :: acc)
  have h4 := fun pw1 => h rest pw1 (.colon :: .word n :: acc) hd
  have := ((h1.trans h2).trans h3).trans h4
  simpa [List.append_assoc] using this

/-- `L cmp R` -/
theorem Lexes.cmp {L R : List Char} {tl tr : List Tok} (c : Rooc.Cmp) (hl : Lexes L tl) (hr : Lexes R tr) :
    Lexes (L ++ ' ' :: (cmpChars c ++ ' ' :: R)) (tl ++ cmpTok (cmpOf c) :: tr) := by
  intro rest pw acc hd
  have h1 := hl (' ' :: (cmpChars c ++ ' ' :: (R ++ rest))) pw acc (delim_space _)
  have h2 := fun pw1 => lexTo_space (cmpChars c ++ ' ' :: (R ++ rest)) pw1 (tl.reverse ++ acc)
  have h3 := fun pw1 => lexTo_cmp c (R ++ rest) pw1 (tl.reverse ++ acc)
  have h4 := fun pw1 => lexTo_space (R ++ rest) pw1 (cmpTok (cmpOf c) :: (tl.reverse ++ acc))
  have h5 := fun pw1 => hr rest pw1 (cmpTok (cmpOf c) :: (tl.reverse ++ acc)) hd
  have := (((h1.trans h2).trans h3).trans h4).trans h5
  simpa [List.append_assoc] using this

section
variable {α : Type} [Arith α] (tok : α → String) (numOf : String → α)

/-- **The text of a rendered compiled constraint is cut into `constraintDToks`.** -/
theorem lex_displayConstraint (c : Constraint α) (h : FragC tok numOf c) :
    lex (displayConstraint tok c).toList = .ok (constraintDToks tok c) := by
  obtain ⟨hn, hl, hr⟩ := h
  have L := lexShow tok numOf c.lhs hl none
  -- the body after the name
  have body : Lexes (if c.isAssert then (displayExp tok c.lhs).toList
        else (displayExp tok c.lhs).toList ++ ' ' :: (cmpChars c.cmp ++ ' ' :: (displayExp tok c.rhs).toList))
      (dToks tok none c.lhs ++ (if c.isAssert then [] else cmpTok (cmpOf c.cmp) :: dToks tok none c.rhs)) := by
    cases ha : c.isAssert with
    | true => simpa [displayExp] using L
    | false =>
      have hr' : Frag tok numOf c.rhs := by
        rcases hr with hr | hr
        · rw [ha] at hr; cases hr
        · exact hr
      simpa [displayExp] using Lexes.cmp c.cmp L (lexShow tok numOf c.rhs hr' none)
  have all : Lexes (displayConstraint tok c).toList (constraintDToks tok c) := by
    unfold displayConstraint constraintDToks
    by_cases hne : c.name.isEmpty = true
    · cases ha : c.isAssert <;> simp [hne, ha, String.toList_append, cmpStr_toList] <;> simpa [ha] using body
    · have hne' : c.name.isEmpty = false := by simpa using hne
      have hw : plainWord c.name.toList = true := by
        rcases hn with hn | hn
        · exact absurd hn hne
        · exact hn.1
      have := Lexes.named c.name hw body
      cases ha : c.isAssert <;> simp [hne', ha, String.toList_append, cmpStr_toList, List.append_assoc] <;>
        simpa [ha, List.append_assoc] using this
  have := lex_of_lexTo (by simpa using all [] false [] (Or.inl rfl))
  simpa using this
end

end Rooc.Display
