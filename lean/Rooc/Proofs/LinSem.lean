/-
`Sem.eval` depends only on the variables that occur in the expression.
-/
import Rooc.Proofs.LinAffine

set_option linter.unusedSectionVars false
set_option linter.unusedSimpArgs false
set_option linter.unusedVariables false

namespace Rooc.LinP
open Rooc Rooc.Lin Rooc.Sem

theorem mem_varsOfList {α : Type} {x : String} : ∀ {es : List (Exp α)},
    x ∈ varsOfList es ↔ ∃ e ∈ es, x ∈ varsOf e
  | [] => by simp [varsOfList]
  | e :: es => by
    simp only [varsOfList, List.mem_append, mem_varsOfList (es := es), List.mem_cons, exists_eq_or_imp]

variable {K : Type} [Field K] [LinearOrder K] [IsStrictOrderedRing K] [FloorRing K]

theorem evalList_congr {ρ ρ' : String → K} : ∀ {es : List (Exp (Ext K))},
    (∀ e ∈ es, eval ρ' e = eval ρ e) → evalList ρ' es = evalList ρ es
  | [], _ => by simp [evalList]
  | e :: es, h => by
    simp only [evalList, h e (by simp), evalList_congr (es := es) (fun e' he' => h e' (by simp [he']))]

theorem eval_congr {ρ ρ' : String → K} : ∀ (e : Exp (Ext K)),
    (∀ x ∈ varsOf e, ρ' x = ρ x) → eval ρ' e = eval ρ e := by
  intro e
  induction e using Exp.indL with
  | num v => intro _; cases v <;> simp [eval]
  | var s => intro h; simp [eval, h s (by simp [varsOf])]
  | abs e ih => intro h; simp only [eval, ih (by simpa [varsOf] using h)]
  | not e ih => intro h; simp only [eval, ih (by simpa [varsOf] using h)]
  | un op e ih => intro h; cases op <;> simp only [eval, ih (by simpa [varsOf] using h)]
  | min es ih =>
    intro h
    have : evalList ρ' es = evalList ρ es := evalList_congr fun e he =>
      ih e he (fun x hx => h x (by simp only [varsOf]; exact mem_varsOfList.mpr ⟨e, he, hx⟩))
    simp only [eval, this]
  | max es ih =>
    intro h
    have : evalList ρ' es = evalList ρ es := evalList_congr fun e he =>
      ih e he (fun x hx => h x (by simp only [varsOf]; exact mem_varsOfList.mpr ⟨e, he, hx⟩))
    simp only [eval, this]
  | and es ih =>
    intro h
    have : evalList ρ' es = evalList ρ es := evalList_congr fun e he =>
      ih e he (fun x hx => h x (by simp only [varsOf]; exact mem_varsOfList.mpr ⟨e, he, hx⟩))
    simp only [eval, this]
  | or es ih =>
    intro h
    have : evalList ρ' es = evalList ρ es := evalList_congr fun e he =>
      ih e he (fun x hx => h x (by simp only [varsOf]; exact mem_varsOfList.mpr ⟨e, he, hx⟩))
    simp only [eval, this]
  | xor a b iha ihb =>
    intro h
    simp only [varsOf, List.mem_append] at h
    simp only [eval, iha (fun x hx => h x (Or.inl hx)), ihb (fun x hx => h x (Or.inr hx))]
  | implies a b iha ihb =>
    intro h
    simp only [varsOf, List.mem_append] at h
    simp only [eval, iha (fun x hx => h x (Or.inl hx)), ihb (fun x hx => h x (Or.inr hx))]
  | iff a b iha ihb =>
    intro h
    simp only [varsOf, List.mem_append] at h
    simp only [eval, iha (fun x hx => h x (Or.inl hx)), ihb (fun x hx => h x (Or.inr hx))]
  | bin op a b iha ihb =>
    intro h
    simp only [varsOf, List.mem_append] at h
    simp only [eval, iha (fun x hx => h x (Or.inl hx)), ihb (fun x hx => h x (Or.inr hx))]

end Rooc.LinP
