/- The token-level printer (`fmtToks`) writes renderings in the sense of `Tk`: every parenthesis the grammar needs. -/
import Rooc.Proofs.Render
import Rooc.Syntax.FormatToks
namespace Rooc.Syntax.Proofs
open Rooc Rooc.Syntax Rooc.Syntax.Doc

theorem prec_documented (o : BinOp) : Gen.binPrec o = docLevel o := by cases o <;> rfl
theorem assoc_documented (o : BinOp) : Gen.binLeftAssoc o = !(docRightAssoc o) := by cases o <;> rfl

theorem binKwTok_mem (o : BinOp) : binKwTok o ∈ binToks o := by cases o <;> simp [binKwTok, binToks]
theorem unKwTok_mem (u : UnOp) : unKwTok u ∈ unToks u := by cases u <;> simp [unKwTok, unToks]

/-- the printer parenthesises every operand that needs it -/
theorem printer_covers_left (p : BinOp) (l : PExp) (h : needParenLeft p l = true) : printsParen p false l = true := by
  cases l with
  | bin c a b =>
    simp only [needParenLeft, decide_eq_true_eq] at h
    simp only [printsParen]
    revert h; cases p <;> cases c <;> decide
  | _ => simp [needParenLeft] at h
theorem printer_covers_right (p : BinOp) (r : PExp) (h : needParenRight p r = true) : printsParen p true r = true := by
  cases r with
  | bin c a b =>
    simp only [needParenRight, decide_eq_true_eq] at h
    simp only [printsParen]
    revert h; cases p <;> cases c <;> decide
  | _ => simp [needParenRight] at h

mutual
theorem fmt_tk : (t : PExp) → WF t →
    ∃ items, Tk t (fmtToks t) items ∧ (t.isLeaf = true → items = [.leaf t])
  | .int v, h => by
    refine ⟨[.leaf (.int v)], ?_, fun _ => rfl⟩
    have := Atom.int (String.ofList (natDigits v)) (by simpa [WF, digitsToNat_natDigits] using h)
    simp only [String.toList_ofList, digitsToNat_natDigits] at this
    exact Tk.atom this
  | .num s, _ => ⟨[.leaf (.num s)], Tk.atom (Atom.num s), fun _ => rfl⟩
  | .bool true, _ => ⟨[.leaf (.bool true)], Tk.atom Atom.tt, fun _ => rfl⟩
  | .bool false, _ => ⟨[.leaf (.bool false)], Tk.atom Atom.ff, fun _ => rfl⟩
  | .var n, h => ⟨[.leaf (.var n)], Tk.atom (Atom.var n h), fun _ => rfl⟩
  | .call n args, h => by
    have ha := fmtArgs_tk args h.2.2
    exact ⟨[.leaf (.call n args)], by simpa [fmtToks] using Tk.call h.1 h.2.1 ha, fun _ => rfl⟩
  | .un u e, h => by
    obtain ⟨items, hk, hleaf⟩ := fmt_tk e h
    refine ⟨[.op (docUnRule u), .leaf e], ?_, fun hl => by simp [PExp.isLeaf] at hl⟩
    simp only [fmtToks]
    by_cases he : e.isLeaf = true
    · simp only [he, if_true]
      have := hleaf he; subst this
      exact Tk.un hk (unKwTok_mem u)
    · simp only [he]
      exact Tk.un (Tk.paren hk) (unKwTok_mem u)
  | .bin o l r, h => by
    obtain ⟨il, hl, _⟩ := fmt_tk l h.1
    obtain ⟨ir, hr, _⟩ := fmt_tk r h.2
    refine ⟨(if printsParen o false l then [.leaf l] else il) ++ .op (docRule o) ::
        (if printsParen o true r then [.leaf r] else ir), ?_, fun hl => by simp [PExp.isLeaf] at hl⟩
    simp only [fmtToks]
    have hL : Tk l (if printsParen o false l then parenToks (fmtToks l) else fmtToks l)
        (if printsParen o false l then [.leaf l] else il) := by
      by_cases hp : printsParen o false l = true
      · simp only [hp, if_true]; exact Tk.paren hl
      · simp only [hp]; exact hl
    have hR : Tk r (if printsParen o true r then parenToks (fmtToks r) else fmtToks r)
        (if printsParen o true r then [.leaf r] else ir) := by
      by_cases hp : printsParen o true r = true
      · simp only [hp, if_true]; exact Tk.paren hr
      · simp only [hp]; exact hr
    refine Tk.bin hL hR ?_ ?_ (binKwTok_mem o)
    · by_cases hp : printsParen o false l = true
      · left; simp [hp]
      · right
        by_cases hn : needParenLeft o l = true
        · exact absurd (printer_covers_left o l hn) hp
        · simpa using hn
    · by_cases hp : printsParen o true r = true
      · left; simp [hp]
      · right
        by_cases hn : needParenRight o r = true
        · exact absurd (printer_covers_right o r hn) hp
        · simpa using hn
  | .str _, h | .prim _, h | .cvar _ _, h | .access _ _, h | .block _ _, h | .scoped _ _ _ _, h => by
    simp [WF] at h
theorem fmtArgs_tk : (args : List PExp) → WF.WFs args → Args args (fmtToksArgs args)
  | [], _ => Args.nil
  | [a], h => by
    obtain ⟨items, hk, _⟩ := fmt_tk a h.1
    simpa [fmtToksArgs] using Args.one hk
  | a :: b :: rest, h => by
    obtain ⟨items, hk, _⟩ := fmt_tk a h.1
    have hr' := fmtArgs_tk (b :: rest) h.2
    simpa [fmtToksArgs] using Args.cons hk hr'
end

end Rooc.Syntax.Proofs
