/- The token-level printer (`fmtToks`) writes renderings in the sense of `Tk`: every parenthesis the grammar needs. -/
import Rooc.Proofs.Render
import Rooc.Syntax.FormatToks
namespace Rooc.Syntax.Proofs
open Rooc Rooc.Syntax Rooc.Syntax.Doc

theorem prec_documented (o : BinOp) : Gen.binPrec o = docLevel o := by cases o <;> rfl
theorem assoc_documented (o : BinOp) : Gen.binLeftAssoc o = !(docRightAssoc o) := by cases o <;> rfl

theorem binKwTok_mem (o : BinOp) : binKwTok o ∈ binToks o := by cases o <;> simp [binKwTok, binToks]
theorem unKwTok_mem (u : UnOp) : unKwTok u ∈ unToks u := by cases u <;> simp [unKwTok, unToks]

/-- the printer parenthesises every operand that needs it -/
theorem printer_covers_left (p : BinOp) (l : PExp) (h : needParenLeft p l = true) : printsParen p false l = true := by
  cases l with
  | bin c a b =>
    simp only [needParenLeft, decide_eq_true_eq] at h
    simp only [printsParen]
    revert h; cases p <;> cases c <;> decide
  | _ => simp [needParenLeft] at h
theorem printer_covers_right (p : BinOp) (r : PExp) (h : needParenRight p r = true) : printsParen p true r = true := by
  cases r with
  | bin c a b =>
    simp only [needParenRight, decide_eq_true_eq] at h
    simp only [printsParen]
    revert h; cases p <;> cases c <;> decide
  | _ => simp [needParenRight] at h

/-- trees the printer writes in a form the parser reads back (token level): the printable fragment without the
lexical conditions on names — integer literals within `i64`, names that are no keywords, known block kinds with
the right number of members, as many iteration variables as iterators, arrays of integers; a decimal or string
index of a compound variable is one the printer writes in braces (since 7352fcb every index that is no
non-negative integer, integral decimal, name fragment `_2` or variable) -/
def WFx : PExp → Prop
  | .int v => v ≤ i64Max
  | .num _ => True
  | .bool _ => True
  | .str _ => True
  | .prim d => ∃ ns : List Nat, intArrayOf d = some ns ∧ (∀ v ∈ ns, v ≤ i64Max) ∧
      d = arrayText (ns.map fun v => String.ofList (natDigits v))
  | .var n => isKeyword n = false
  | .cvar _ idx => idx ≠ [] ∧ WFidx idx
  | .access n idx => n ≠ "not" ∧ n ≠ "_" ∧ idx ≠ [] ∧ WFxs idx
  | .call n args => isFunctionName n = true ∧ n ≠ "not" ∧ WFxs args
  | .block k es => isFunctionName k = true ∧ k ≠ "not" ∧ canonKind Gen.blockKinds k = k ∧ blockKindErr k es.length = none
      ∧ es ≠ [] ∧ WFxs es
  | .scoped k vs its b => isFunctionName k = true ∧ k ≠ "not" ∧ canonKind Gen.scopedKinds k = k ∧ scopedKindErr k = none
      ∧ WFits vs its ∧ WFx b
  | .un _ e => WFx e
  | .bin _ l r => WFx l ∧ WFx r
where
  WFxs : List PExp → Prop
    | [] => True
    | a :: as => WFx a ∧ WFxs as
  WFidx : List PExp → Prop
    | [] => True
    | .var i :: es => (i.toList.contains '_' = true → isKeyword i = false) ∧ WFidx es   -- in braces: read as an expression
    | .num t :: es => numIndexBare t = false ∧ WFidx es     -- written in braces (7352fcb)
    | .str s :: es => strIndexBare s = false ∧ WFidx es
    | e :: es => WFx e ∧ WFidx es
  /-- as many variables as iterators, at least one, no empty tuple -/
  WFits : List IterVar → List PExp → Prop
    | [v], [e] => WFvar v ∧ WFit e
    | v :: v2 :: vs, e :: e2 :: es => WFvar v ∧ WFit e ∧ WFits (v2 :: vs) (e2 :: es)
    | _, _ => False
  WFit : PExp → Prop
    | .call "range" [a, b, .bool _] => WFx a ∧ WFx b
    | e => WFx e
  WFvar : IterVar → Prop
    | .single n => n ≠ "_"
    | .tuple ns => ns ≠ []

theorem intArrToks_map (ns : List Nat) :
    (ns.map fun v => Tok.int (String.ofList (natDigits v))).intersperse .comma ++ [.rbrack]
      = intArrToks (ns.map fun v => String.ofList (natDigits v)) := by
  induction ns with
  | nil => rfl
  | cons v vs ih =>
    cases vs with
    | nil => rfl
    | cons w ws =>
      simp only [List.map_cons, List.intersperse_cons_cons, List.cons_append, intArrToks] at ih ⊢
      rw [ih]

theorem intArrayToks_eq (ns : List Nat) :
    intArrayToks ns = .lbrack :: intArrToks (ns.map fun v => String.ofList (natDigits v)) := by
  unfold intArrayToks
  rw [List.cons_append, intArrToks_map]

theorem tupleToks_eq (n : String) (ns : List String) :
    ((n :: ns).map Tok.word).intersperse .comma = .word n :: (ns.flatMap fun m => [Tok.comma, Tok.word m]) := by
  induction ns generalizing n with
  | nil => rfl
  | cons m ms ih =>
    have := ih m
    simp only [List.map_cons, List.intersperse_cons_cons, List.flatMap_cons, List.cons_append, List.nil_append] at this ⊢
    rw [this]

theorem iterVarToks_head : (v : IterVar) → WFx.WFvar v → IterHead v (iterVarToks v)
  | .single n, h => IterHead.single n h
  | .tuple [], h => absurd rfl h
  | .tuple (n :: ns), _ => by
    have : iterVarToks (.tuple (n :: ns)) = .lpar :: .word n :: (ns.flatMap fun m => [Tok.comma, Tok.word m]) ++ [.rpar] := by
      simp only [iterVarToks, List.cons_append]
      rw [tupleToks_eq]; rfl
    rw [this]
    exact IterHead.tuple n ns

mutual
theorem fmt_tk : (t : PExp) → WFx t →
    ∃ items, Tk t (fmtToks t) items ∧ (t.isLeaf = true → items = [.leaf t])
  | .int v, h => by
    simp only [WFx] at h
    refine ⟨[.leaf (.int v)], ?_, fun _ => rfl⟩
    have := Atom.int (String.ofList (natDigits v)) (by simpa [digitsToNat_natDigits] using h)
    simp only [String.toList_ofList, digitsToNat_natDigits] at this
    simp only [fmtToks]
    exact Tk.atom this
  | .num s, _ => ⟨[.leaf (.num s)], by simp only [fmtToks]; exact Tk.atom (Atom.num s), fun _ => rfl⟩
  | .bool true, _ => ⟨[.leaf (.bool true)], by simp only [fmtToks]; exact Tk.atom Atom.tt, fun _ => rfl⟩
  | .bool false, _ => ⟨[.leaf (.bool false)], by simp only [fmtToks]; exact Tk.atom Atom.ff, fun _ => rfl⟩
  | .str s, _ => ⟨[.leaf (.str s)], by simp only [fmtToks]; exact Tk.atom (Atom.str s), fun _ => rfl⟩
  | .var n, h => by
    simp only [WFx] at h
    exact ⟨[.leaf (.var n)], by simp only [fmtToks]; exact Tk.atom (Atom.var n h), fun _ => rfl⟩
  | .prim d, h => by
    simp only [WFx] at h
    obtain ⟨ns, hd, hle, hdt⟩ := h
    refine ⟨[.leaf (.prim d)], ?_, fun _ => rfl⟩
    have hk := Tk.arr (ss := ns.map fun v => String.ofList (natDigits v)) (by
      intro s hs
      simp only [List.mem_map] at hs
      obtain ⟨v, hv, rfl⟩ := hs
      simpa [digitsToNat_natDigits] using hle v hv)
    have hmap : ((ns.map fun v => String.ofList (natDigits v)).map fun s => String.ofList (natDigits (digitsToNat s.toList)))
        = ns.map fun v => String.ofList (natDigits v) := by
      simp [List.map_map, Function.comp_def, digitsToNat_natDigits]
    rw [hmap, ← hdt] at hk
    simp only [fmtToks, hd, intArrayToks_eq]
    exact hk
  | .cvar n [], h => by simp [WFx] at h
  | .cvar n (e :: es), h => by
    simp only [WFx] at h
    have hi := fmtIdx_tk (e :: es) h.2
    exact ⟨[.leaf (.cvar n (e :: es))], by simp only [fmtToks]; exact Tk.cvar hi, fun _ => rfl⟩
  | .access n [], h => by simp [WFx] at h
  | .access n (e :: es), h => by
    simp only [WFx] at h
    have hi := fmtAcc_tk (e :: es) h.2.2.2
    exact ⟨[.leaf (.access n (e :: es))], by simp only [fmtToks]; exact Tk.access h.1 h.2.1 hi, fun _ => rfl⟩
  | .call n args, h => by
    simp only [WFx] at h
    have ha := fmtArgs_tk args h.2.2
    exact ⟨[.leaf (.call n args)], by simp only [fmtToks]; exact Tk.call h.1 h.2.1 ha, fun _ => rfl⟩
  | .block k [], h => by simp [WFx] at h
  | .block k (e :: es), h => by
    simp only [WFx] at h
    have ha := fmtArgs_tk (e :: es) h.2.2.2.2.2
    exact ⟨[.leaf (.block k (e :: es))], by simp only [fmtToks]; exact Tk.block h.1 h.2.1 h.2.2.1 h.2.2.2.1 ha, fun _ => rfl⟩
  | .scoped k vs its b, h => by
    simp only [WFx] at h
    have hi := fmtIters_tk vs its h.2.2.2.2.1
    obtain ⟨items, hb, _⟩ := fmt_tk b h.2.2.2.2.2
    refine ⟨[.leaf (.scoped k vs its b)], ?_, fun _ => rfl⟩
    have := Tk.scoped h.1 h.2.1 h.2.2.1 h.2.2.2.1 hi hb
    simp only [fmtToks]
    simpa using this
  | .un u e, h => by
    simp only [WFx] at h
    obtain ⟨items, hk, hleaf⟩ := fmt_tk e h
    refine ⟨[.op (docUnRule u), .leaf e], ?_, fun hl => by simp [PExp.isLeaf] at hl⟩
    simp only [fmtToks]
    by_cases he : e.isLeaf = true
    · simp only [he, if_true]
      have := hleaf he; subst this
      exact Tk.un hk (unKwTok_mem u)
    · simp only [he]
      exact Tk.un (Tk.paren hk) (unKwTok_mem u)
  | .bin o l r, h => by
    simp only [WFx] at h
    obtain ⟨il, hl, _⟩ := fmt_tk l h.1
    obtain ⟨ir, hr, _⟩ := fmt_tk r h.2
    refine ⟨(if printsParen o false l then [.leaf l] else il) ++ .op (docRule o) ::
        (if printsParen o true r then [.leaf r] else ir), ?_, fun hl => by simp [PExp.isLeaf] at hl⟩
    simp only [fmtToks]
    have hL : Tk l (if printsParen o false l then parenToks (fmtToks l) else fmtToks l)
        (if printsParen o false l then [.leaf l] else il) := by
      by_cases hp : printsParen o false l = true
      · simp only [hp, if_true]; exact Tk.paren hl
      · simp only [hp]; exact hl
    have hR : Tk r (if printsParen o true r then parenToks (fmtToks r) else fmtToks r)
        (if printsParen o true r then [.leaf r] else ir) := by
      by_cases hp : printsParen o true r = true
      · simp only [hp, if_true]; exact Tk.paren hr
      · simp only [hp]; exact hr
    refine Tk.bin hL hR ?_ ?_ (binKwTok_mem o)
    · by_cases hp : printsParen o false l = true
      · left; simp [hp]
      · right
        by_cases hn : needParenLeft o l = true
        · exact absurd (printer_covers_left o l hn) hp
        · simpa using hn
    · by_cases hp : printsParen o true r = true
      · left; simp [hp]
      · right
        by_cases hn : needParenRight o r = true
        · exact absurd (printer_covers_right o r hn) hp
        · simpa using hn
termination_by t => (sizeOf t, 0)
theorem fmtArgs_tk : (args : List PExp) → WFx.WFxs args → Args args (fmtToksArgs args)
  | [], _ => by simp only [fmtToksArgs]; exact Args.nil
  | [a], h => by
    simp only [WFx.WFxs] at h
    obtain ⟨items, hk, _⟩ := fmt_tk a h.1
    simp only [fmtToksArgs]; exact Args.one hk
  | a :: b :: rest, h => by
    simp only [WFx.WFxs] at h
    obtain ⟨items, hk, _⟩ := fmt_tk a h.1
    have hr' := fmtArgs_tk (b :: rest) (by simp only [WFx.WFxs]; exact h.2)
    simp only [fmtToksArgs]; exact Args.cons hk hr'
termination_by args => (sizeOf args, 0)
theorem fmtIdx_tk : (idx : List PExp) → WFx.WFidx idx → Idx idx (fmtToksIdx idx)
  | [], _ => by simp only [fmtToksIdx]; exact Idx.nil
  | .var i :: es, h => by
    simp only [WFx.WFidx] at h
    have hr := fmtIdx_tk es h.2
    simp only [fmtToksIdx]
    split
    · rename_i hc
      have := Idx.brace (Tk.atom (Atom.var i (h.1 hc))) hr
      simpa using this
    · exact Idx.var (i := i) hr
  | .int v :: es, h => by
    simp only [WFx.WFidx, WFx] at h
    have hr := fmtIdx_tk es h.2
    have := Idx.int (s := String.ofList (natDigits v)) (by simpa [digitsToNat_natDigits] using h.1) hr
    simp only [String.toList_ofList, digitsToNat_natDigits] at this
    simp only [fmtToksIdx]; exact this
  | .num t :: es, h => by
    simp only [WFx.WFidx] at h
    obtain ⟨items, hk, _⟩ := fmt_tk (.num t) (by simp [WFx])
    simp only [fmtToksIdx]; exact Idx.brace hk (fmtIdx_tk es h.2)
  | .str s :: es, h => by
    simp only [WFx.WFidx] at h
    obtain ⟨items, hk, _⟩ := fmt_tk (.str s) (by simp [WFx])
    simp only [fmtToksIdx]; exact Idx.brace hk (fmtIdx_tk es h.2)
  | .bool b :: es, h => by
    simp only [WFx.WFidx] at h
    obtain ⟨items, hk, _⟩ := fmt_tk (.bool b) h.1
    simp only [fmtToksIdx]; exact Idx.brace hk (fmtIdx_tk es h.2)
  | .prim d :: es, h => by
    simp only [WFx.WFidx] at h
    obtain ⟨items, hk, _⟩ := fmt_tk (.prim d) h.1
    simp only [fmtToksIdx]; exact Idx.brace hk (fmtIdx_tk es h.2)
  | .cvar n i :: es, h => by
    simp only [WFx.WFidx] at h
    obtain ⟨items, hk, _⟩ := fmt_tk (.cvar n i) h.1
    simp only [fmtToksIdx]; exact Idx.brace hk (fmtIdx_tk es h.2)
  | .access n i :: es, h => by
    simp only [WFx.WFidx] at h
    obtain ⟨items, hk, _⟩ := fmt_tk (.access n i) h.1
    simp only [fmtToksIdx]; exact Idx.brace hk (fmtIdx_tk es h.2)
  | .call n i :: es, h => by
    simp only [WFx.WFidx] at h
    obtain ⟨items, hk, _⟩ := fmt_tk (.call n i) h.1
    simp only [fmtToksIdx]; exact Idx.brace hk (fmtIdx_tk es h.2)
  | .block n i :: es, h => by
    simp only [WFx.WFidx] at h
    obtain ⟨items, hk, _⟩ := fmt_tk (.block n i) h.1
    simp only [fmtToksIdx]; exact Idx.brace hk (fmtIdx_tk es h.2)
  | .scoped k vs its b :: es, h => by
    simp only [WFx.WFidx] at h
    obtain ⟨items, hk, _⟩ := fmt_tk (.scoped k vs its b) h.1
    simp only [fmtToksIdx]; exact Idx.brace hk (fmtIdx_tk es h.2)
  | .bin o l r :: es, h => by
    simp only [WFx.WFidx] at h
    obtain ⟨items, hk, _⟩ := fmt_tk (.bin o l r) h.1
    simp only [fmtToksIdx]; exact Idx.brace hk (fmtIdx_tk es h.2)
  | .un o e :: es, h => by
    simp only [WFx.WFidx] at h
    obtain ⟨items, hk, _⟩ := fmt_tk (.un o e) h.1
    simp only [fmtToksIdx]; exact Idx.brace hk (fmtIdx_tk es h.2)
termination_by idx => (sizeOf idx, 0)
theorem fmtAcc_tk : (idx : List PExp) → WFx.WFxs idx → Acc idx (fmtToksAcc idx)
  | [], _ => by simp only [fmtToksAcc]; exact Acc.nil
  | e :: es, h => by
    simp only [WFx.WFxs] at h
    obtain ⟨items, hk, _⟩ := fmt_tk e h.1
    simp only [fmtToksAcc]; exact Acc.cons hk (fmtAcc_tk es h.2)
termination_by idx => (sizeOf idx, 0)
theorem fmtIters_tk : (vs : List IterVar) → (its : List PExp) → WFx.WFits vs its → Iters vs its (fmtToksIters vs its)
  | [v], [e], h => by
    simp only [WFx.WFits] at h
    have := Iters.one (inw := "in") (iterVarToks_head v h.1) (by decide) (fmtIter_tk e h.2)
    simp only [fmtToksIters]; exact this
  | v :: v2 :: vs, e :: e2 :: es, h => by
    simp only [WFx.WFits] at h
    have hr := fmtIters_tk (v2 :: vs) (e2 :: es) h.2.2
    have := Iters.cons (inw := "in") (iterVarToks_head v h.1) (by decide) (fmtIter_tk e h.2.1) hr
    simp only [fmtToksIters]; simpa using this
  | [], _, h => by simp [WFx.WFits] at h
  | [_], [], h => by simp [WFx.WFits] at h
  | [_], _ :: _ :: _, h => by simp [WFx.WFits] at h
  | _ :: _ :: _, [], h => by simp [WFx.WFits] at h
  | _ :: _ :: _, [_], h => by simp [WFx.WFits] at h
termination_by vs its => (sizeOf its, 0)
theorem fmtIter_tk : (e : PExp) → WFx.WFit e → Iter e (fmtToksIter e)
  | e, h => by
    unfold fmtToksIter
    split
    · rename_i a b incl
      simp only [WFx.WFit] at h
      obtain ⟨ia, ha, hla⟩ := fmt_tk a h.1
      obtain ⟨ib, hb, hlb⟩ := fmt_tk b h.2
      have hA : ∃ ia', Tk a (if a.isLeaf then fmtToks a else parenToks (fmtToks a)) ia' := by
        by_cases hl : a.isLeaf = true
        · simp only [hl, if_true]; exact ⟨ia, ha⟩
        · simp only [hl]; exact ⟨_, Tk.paren ha⟩
      have hB : ∃ ib', Tk b (if b.isLeaf then fmtToks b else parenToks (fmtToks b)) ib' := by
        by_cases hl : b.isLeaf = true
        · simp only [hl, if_true]; exact ⟨ib, hb⟩
        · simp only [hl]; exact ⟨_, Tk.paren hb⟩
      obtain ⟨ia', hA⟩ := hA
      obtain ⟨ib', hB⟩ := hB
      exact Iter.range (incl := incl) hA hB
    · rename_i hne
      have hw : WFx e := by
        unfold WFx.WFit at h
        split at h
        · rename_i a b incl; exact absurd rfl (hne a b incl)
        · exact h
      obtain ⟨items, hk, _⟩ := fmt_tk e hw
      exact Iter.set hk
termination_by e => (sizeOf e, 1)
end

mutual
/-- the expression sub-language of C09 is part of the printable fragment -/
theorem wf_wfx : (t : PExp) → WF t → WFx t
  | .int v, h => by simpa [WF, WFx] using h
  | .num _, _ => by simp [WFx]
  | .bool _, _ => by simp [WFx]
  | .var n, h => by simpa [WF, WFx] using h
  | .call n args, h => by
    simp only [WF] at h
    simp only [WFx]
    exact ⟨h.1, h.2.1, wfs_wfxs args h.2.2⟩
  | .un _ e, h => by simp only [WF] at h; simp only [WFx]; exact wf_wfx e h
  | .bin _ l r, h => by simp only [WF] at h; simp only [WFx]; exact ⟨wf_wfx l h.1, wf_wfx r h.2⟩
  | .str _, h | .prim _, h | .cvar _ _, h | .access _ _, h | .block _ _, h | .scoped _ _ _ _, h => by simp [WF] at h
theorem wfs_wfxs : (ts : List PExp) → WF.WFs ts → WFx.WFxs ts
  | [], _ => by simp [WFx.WFxs]
  | t :: ts, h => by
    simp only [WF.WFs] at h
    simp only [WFx.WFxs]
    exact ⟨wf_wfx t h.1, wfs_wfxs ts h.2⟩
end

end Rooc.Syntax.Proofs
