/-
Stage D, final assembly: `linearizeWith` on models with logic values and bare assertions — C01 and C02.
-/
import Rooc.Proofs.LinD9

set_option linter.unusedSectionVars false
set_option linter.unusedSimpArgs false
set_option linter.unusedVariables false

namespace Rooc.LinP
open Rooc Rooc.Lin Rooc.Sem Rooc.Exp
open Rooc.Lin.Gadget (B01)

variable {K : Type} [Field K] [LinearOrder K] [IsStrictOrderedRing K] [FloorRing K]

/-- the contract on a model with logic values and bare assertions, over the domain `d`: the objective and both
sides of every constraint use declared used variables only, have finite literals, and have no `and`/`or` node
that collapses to a non-0/1 value on the domains (`GoodS`; = not flagged `nary-singleton-nonbinary`).
DEFINEDNESS IS NOT ASSUMED: it follows from the successful compilation (`LogicModel.obj_defined`,
`process_defined`). -/
structure LogicModel (m : Model (Ext K)) (d : List (DomVar (Ext K))) : Prop where
  obj : GoodS d m.objective
  cons : ∀ c ∈ m.constraints, SrcD d c

/-- the objective of a model that compiles has a value wherever no and/or node collapses (finite literals). -/
theorem obj_defined_at {m : Model (Ext K)} {b : BoundsMap (Ext K)} {d : List (DomVar (Ext K))}
    {lm : LinModel (Ext K)} (h : linearizeWith m b d = .ok lm) (hf : FinE m.objective) (ρ : String → K)
    (hnc : NC ρ m.objective) : Def ρ m.objective := by
  obtain ⟨objExp, s1, obj, s2, s3, hsf, hlin, _, _⟩ := (linearizeWith_ok_iff _ _ _ _).mp h
  obtain ⟨oe, hnorm, hs1⟩ := (simplifyFlat_ok _ _ _).mp hsf
  cases hs1
  exact (def_congr (normalize_eval_eq_nc hnorm hnc hf)).mp (def_of_linExp hlin (finiteLits_normalize hf hnorm) ρ)

/-- the objective of a model that compiles is defined at every assignment satisfying the domains. -/
theorem LogicModel.obj_defined {m : Model (Ext K)} {b : BoundsMap (Ext K)} {d : List (DomVar (Ext K))}
    {lm : LinModel (Ext K)} (hm : LogicModel m d) (h : linearizeWith m b d = .ok lm) : DefOn d m.objective :=
  fun ρ hd => def_iff_exists.mp (obj_defined_at h hm.obj.fin ρ (hm.obj.nc ρ hd))

theorem initInvD {m : Model (Ext K)} {b : BoundsMap (Ext K)} {d : List (DomVar (Ext K))}
    (hm : LogicModel m d) (hnd : (d.map (·.name)).Nodup) (hbox : BoxEnforced b d) :
    LoopInvD d (initState m b d) := by
  refine ⟨⟨hnd, hbox, ?_, fun c hc => Or.inl (hm.cons c hc)⟩, ⟨[], by simp [initState]⟩, by simp [initState]⟩
  intro c hc x hx
  rcases hx with hx | hx
  · exact (hm.cons c hc).lhs.vars x hx
  · exact (hm.cons c hc).rhs.vars x hx

theorem linFeasible_assembleD {d0 : List (DomVar (Ext K))} {m : Model (Ext K)} {obj : Ctx (Ext K)}
    {s : St (Ext K)} (hinv : LoopInvD d0 s) (hq : s.queue = []) (ρ : String → K) :
    linFeasible (assemble m obj s) ρ = true ↔ Sat ρ s := by
  have hrows : (assemble m obj s).rows.all (rowHolds ρ (assemble m obj s).vars) = true ↔
      ∀ row ∈ s.rows, rowTrue ρ row :=
    rows_all_iff ρ (usedVars s.domain) s.rows (fun r hr => (hinv.rowsOK r hr).1)
      (fun r hr x hx => mem_usedVars.mpr ((hinv.rowsOK r hr).2 x hx))
  have hdom : ((assemble m obj s).domain.all fun dv => inDomain (ρ dv.name) dv.ty) = true ↔ DomSat ρ s.domain :=
    finalDomain_all ρ hinv.st.nodup
  simp only [linFeasible, Bool.and_eq_true, hrows, hdom]
  constructor
  · rintro ⟨h1, h2⟩
    exact ⟨h2, (by intro c hc; rw [hq] at hc; exact absurd hc (List.not_mem_nil)), h1⟩
  · intro h; exact ⟨h.rows, h.dom⟩

/-- everything `linearizeWith` guarantees on a model with logic, in one statement. -/
theorem linearizeWith_logic {m : Model (Ext K)} {b : BoundsMap (Ext K)} {d : List (DomVar (Ext K))}
    {lm : LinModel (Ext K)} (hm : LogicModel m d) (hnd : (d.map (·.name)).Nodup) (hbox : BoxEnforced b d)
    (h : linearizeWith m b d = .ok lm) :
    lm.optType = m.optType ∧
    (∀ ρ' : String → K, linFeasible lm ρ' = true →
      DomSat ρ' d ∧ (∀ c ∈ m.constraints, constraintHolds ρ' c = true) ∧
      ∀ v, eval ρ' m.objective = some v → ∃ w, linObjective lm ρ' = some w ∧ rel (objReq m) w v) ∧
    (∀ ρ : String → K, DomSat ρ d → (∀ c ∈ m.constraints, constraintHolds ρ c = true) →
      ∃ ρ' : String → K, (∀ x, inScope d x → ρ' x = ρ x) ∧ linFeasible lm ρ' = true ∧
        ∀ v, eval ρ m.objective = some v → linObjective lm ρ' = some v) := by
  have hobjE : GoodE d m.objective := hm.obj.withDef (hm.obj_defined h)
  obtain ⟨objExp, s1, obj, s2, s3, hsf, hlin, hdrain, rfl⟩ := (linearizeWith_ok_iff _ _ _ _).mp h
  obtain ⟨oe, hnorm, hs1⟩ := (simplifyFlat_ok _ _ _).mp hsf
  cases hs1
  have hinv0 : LoopInvD d (initState m b d) := initInvD hm hnd hbox
  obtain ⟨hoe, hoev⟩ := hobjE.normalize hnorm
  have A : Spec (SrcD d) objExp (objReq m) (initState m b d) obj s2 :=
    lin_spec_all objExp _ _ _ _ ⟨hinv0.st, hoe.vars, hoe.fin⟩ hlin
  obtain ⟨hinv2, _, _⟩ := spec_states hinv0 A
  obtain ⟨hinv3, hq3, hst⟩ := drainD _ _ _ hinv2 hdrain
  have hrows2 : ∀ ρ : String → K, RowsSat ρ s2 := by
    intro ρ r hr; rw [A.rows] at hr; simp [initState] at hr
  have hobjnames : ∀ x ∈ ctxNames obj, inScope s3.domain x := fun x hx => hst.scopeMono (A.cnames x hx)
  refine ⟨rfl, ?_, ?_⟩
  · intro ρ' hfeas
    have hs3 : Sat ρ' s3 := (linFeasible_assembleD hinv3 hq3 ρ').mp hfeas
    obtain ⟨hs2, _⟩ := hst.sound ρ' hs3
    have hd0 : DomSat ρ' d := A.keepsDom hs2.dom
    have hq0 : QSat ρ' (initState m b d) := A.keepsQ hs2.q
    refine ⟨hd0, hq0, ?_⟩
    intro v hv
    refine ⟨ctxVal ρ' obj, linObjective_assemble (ext := true) (d0 := d) A.cok hobjnames ρ', ?_⟩
    exact A.sound ρ' hs2.dom hs2.q v (by rw [hoev ρ' hd0]; exact hv)
  · intro ρ hd hc
    have hs0 : Sat ρ (initState m b d) := (sat_init ρ).mpr ⟨hd, hc⟩
    obtain ⟨v0, hv0⟩ := hobjE.defd ρ hd
    obtain ⟨ρ1, hag1, hd1, hq1, hval1⟩ := A.complete ρ hs0.dom hs0.q v0 (by rw [hoev ρ hd]; exact hv0)
    obtain ⟨ρ2, hag2, hs3⟩ := hst.complete ρ1 ⟨hd1, hq1, hrows2 ρ1⟩ trivial
    refine ⟨ρ2, fun x hx => by rw [hag2 x (A.scopeMono hx), hag1 x hx],
      (linFeasible_assembleD hinv3 hq3 ρ2).mpr hs3, ?_⟩
    intro v hv
    rw [hv0] at hv; cases hv
    rw [linObjective_assemble (ext := true) (d0 := d) A.cok hobjnames ρ2,
      ctxVal_congr obj (fun x hx => hag2 x (A.cnames x hx)), hval1]

/-- **C01 on models with logic values and bare assertions.** -/
theorem logic_feasible_iff {m : Model (Ext K)} {b : BoundsMap (Ext K)} {d : List (DomVar (Ext K))}
    {lm : LinModel (Ext K)} (hm : LogicModel m d) (hdom : DomRel m d) (hbox : BoxEnforced b d)
    (h : linearizeWith m b d = .ok lm) (ρ : String → K) :
    srcFeasible m ρ = true ↔
      ∃ ρ' : String → K, (∀ x, inScope d x → ρ' x = ρ x) ∧ linFeasible lm ρ' = true := by
  obtain ⟨_, hsound, hcomplete⟩ := linearizeWith_logic hm hdom.nodup hbox h
  have hscope : ∀ c ∈ m.constraints, ∀ x, (x ∈ varsOf c.lhs ∨ x ∈ varsOf c.rhs) → inScope d x := by
    intro c hc x hx
    rcases hx with hx | hx
    · exact (hm.cons c hc).lhs.vars x hx
    · exact (hm.cons c hc).rhs.vars x hx
  constructor
  · intro hs
    obtain ⟨hc, _⟩ := (srcFeasible_iff m ρ).mp hs
    obtain ⟨ρ', hag, hfeas, _⟩ := hcomplete ρ (hdom.sound ρ hs) hc
    exact ⟨ρ', hag, hfeas⟩
  · rintro ⟨ρ', hag, hfeas⟩
    obtain ⟨hd, hc, _⟩ := hsound ρ' hfeas
    have hs' : srcFeasible m ρ' = true := (srcFeasible_iff m ρ').mpr ⟨hc, hdom.tight ρ' hd⟩
    exact (srcFeasible_congr (d := d) hscope hdom.names hag).mp hs'

/-- **C02 on models with logic values and bare assertions.** -/
theorem logic_objective {m : Model (Ext K)} {b : BoundsMap (Ext K)} {d : List (DomVar (Ext K))}
    {lm : LinModel (Ext K)} (hm : LogicModel m d) (hdom : DomRel m d) (hbox : BoxEnforced b d)
    (h : linearizeWith m b d = .ok lm) (ρ : String → K) (hs : srcFeasible m ρ = true) (v : K)
    (hv : eval ρ m.objective = some v) :
    (∀ ρ' : String → K, (∀ x, inScope d x → ρ' x = ρ x) → linFeasible lm ρ' = true →
        ∃ w, linObjective lm ρ' = some w ∧ rel (objReq m) w v) ∧
    (∃ ρ' : String → K, (∀ x, inScope d x → ρ' x = ρ x) ∧ linFeasible lm ρ' = true ∧
        linObjective lm ρ' = some v) := by
  obtain ⟨_, hsound, hcomplete⟩ := linearizeWith_logic hm hdom.nodup hbox h
  constructor
  · intro ρ' hag hfeas
    obtain ⟨_, _, hobj⟩ := hsound ρ' hfeas
    apply hobj
    rw [eval_congr m.objective (fun x hx => hag x (hm.obj.vars x hx))]
    exact hv
  · obtain ⟨hc, _⟩ := (srcFeasible_iff m ρ).mp hs
    obtain ⟨ρ', hag, hfeas, hobj⟩ := hcomplete ρ (hdom.sound ρ hs) hc
    exact ⟨ρ', hag, hfeas, hobj v hv⟩

end Rooc.LinP
