/-
C08 / C07 glue — the bounds analyzer publishes PROPER ranges.

Over `Ext K` (`K` a linearly ordered field): if every declared range is proper (lower end finite or `−inf`, upper
end finite or `+inf`, `NonNegativeReal` lower ends finite and `≥ 0`) and the constraints have no non-finite
literal, then every entry of `analyze … |> enforceable` is proper, `apply_to_domain` publishes proper types and
`toLinBounds` hands a proper bounds map to the linearizer.  Together with `Lin.domain_proper` (the lowering keeps
domains proper) this gives: every domain entry of `Compile.linearize m` is well-formed.

Every update of the analyzer goes through `tighten_variable`, whose new entry is the intersection of the current
entry with a candidate; candidates are built from proper ranges by `add / sub / neg / scale / div_by` with finite
coefficients (`AffineForm::from_constraint` rejects non-finite ones), so they are proper.
-/
import Rooc.Proofs.WFProper
import Rooc.Proofs.WFCompile
import Rooc.Proofs.LinOracle
import Rooc.Proofs.BoundsTighten
import Rooc.Proofs.BoundsFrame

set_option linter.unusedSectionVars false
set_option linter.unusedSimpArgs false
set_option linter.unusedVariables false

namespace Rooc
namespace APr
open Rooc.Lin Rooc.LinP Arith
variable {K : Type} [Field K] [LinearOrder K] [IsStrictOrderedRing K] [FloorRing K]

/-- the analyzer's `Bounds` record read as the linearizer's. -/
def uc (b : Rooc.Bounds (Ext K)) : Lin.Bounds (Ext K) := ⟨b.lower, b.upper⟩

theorem cvB_uc (b : Rooc.Bounds (Ext K)) : cvB (uc b) = b := rfl
theorem uc_cvB (b : Lin.Bounds (Ext K)) : uc (cvB b) = b := rfl

/-- a proper range of the analyzer. -/
def PB (b : Rooc.Bounds (Ext K)) : Prop := BP fin? (uc b)

theorem PB_cvB {b : Lin.Bounds (Ext K)} : PB (cvB b) ↔ BP fin? b := Iff.rfl

theorem PB_iff (b : Rooc.Bounds (Ext K)) :
    PB b ↔ ((∃ x, b.lower = .fin x) ∨ b.lower = .ninf) ∧ ((∃ x, b.upper = .fin x) ∨ b.upper = .pinf) := by
  unfold PB BP uc
  rw [LOK_iff, UOK_iff]

theorem PB_add {a b : Rooc.Bounds (Ext K)} (ha : PB a) (hb : PB b) : PB (a.add b) := by
  have : a.add b = cvB ((uc a).add (uc b)) := rfl
  rw [this, PB_cvB]
  exact BP_add (closed_isFinite K) bax_isFinite ha hb

theorem PB_neg {a : Rooc.Bounds (Ext K)} (ha : PB a) : PB a.neg := by
  have : a.neg = cvB ((uc a).neg) := rfl
  rw [this, PB_cvB]
  exact BP_neg (closed_isFinite K) bax_isFinite ha

theorem PB_sub {a b : Rooc.Bounds (Ext K)} (ha : PB a) (hb : PB b) : PB (a.sub b) := PB_add ha (PB_neg hb)

theorem PB_scale {a : Rooc.Bounds (Ext K)} (ha : PB a) {c : Ext K} (hc : fin? c = true) : PB (a.scale c) := by
  have : a.scale c = cvB ((uc a).scale c) := by rw [cvB_scale, cvB_uc]
  rw [this, PB_cvB]
  exact bax_isFinite.scale _ _ ha hc

theorem PB_divBy {a : Rooc.Bounds (Ext K)} (ha : PB a) {c : Ext K} (hc : fin? c = true) : PB (a.divBy c) := by
  have : a.divBy c = cvB ((uc a).divBy c) := by rw [cvB_divBy, cvB_uc]
  rw [this, PB_cvB]
  exact bax_isFinite.divBy _ _ ha hc

theorem PB_unbounded : PB (Rooc.Bounds.unbounded : Rooc.Bounds (Ext K)) :=
  BP_unbounded (closed_isFinite K) bax_isFinite

theorem PB_singleton {v : Ext K} (h : fin? v = true) : PB (Rooc.Bounds.singleton v) := ⟨Or.inl h, Or.inl h⟩

theorem PB_required (c : Cmp) : PB (Rooc.Bounds.required c : Rooc.Bounds (Ext K)) := by
  cases c <;> simp [Rooc.Bounds.required, PB_iff, Rooc.Bounds.singleton, Arith.negInf, Arith.posInf, Arith.zero,
    Arith.ofInt]

theorem PB_intersection {a b t : Rooc.Bounds (Ext K)} {tol : Ext K} (ha : PB a) (hb : PB b)
    (h : a.intersection b tol = some t) : PB t := by
  unfold Rooc.Bounds.intersection at h
  dsimp only at h
  split at h
  · injection h with h; subst h
    exact ⟨bax_isFinite.fmaxL _ _ ha.1 hb.1, bax_isFinite.fminU _ _ ha.2 hb.2⟩
  · split at h
    · injection h with h; subst h; exact ha
    · cases h

/-! ### the variable box -/

/-- every variable's range is proper (no entry = unbounded = proper). -/
def VBP (vb : List (String × Rooc.Bounds (Ext K))) : Prop := ∀ name, PB (Analyzer.varBounds vb name)

/-- the analyzer's box read as a linearizer bounds map. -/
def ucM (vb : List (String × Rooc.Bounds (Ext K))) : BoundsMap (Ext K) := vb.map fun p => (p.1, uc p.2)

theorem cvM_ucM (vb : List (String × Rooc.Bounds (Ext K))) : cvM (ucM vb) = vb := by
  simp only [cvM, ucM, List.map_map]
  conv_rhs => rw [← List.map_id vb]
  exact List.map_congr_left (fun p _ => rfl)

theorem ucM_eq_toLinBounds (vb : List (String × Rooc.Bounds (Ext K))) : ucM vb = Compile.toLinBounds vb := rfl

theorem varBounds_ucM (vb : List (String × Rooc.Bounds (Ext K))) (x : String) :
    Lin.varBounds (ucM vb) x = uc (Analyzer.varBounds vb x) := by
  have h := get_cvM (ucM vb) x
  rw [cvM_ucM] at h
  unfold Lin.varBounds Analyzer.varBounds
  rw [h]
  cases lookupB (ucM vb) x with
  | none => rfl
  | some b => rfl

theorem boundsProper_of_VBP {vb : List (String × Rooc.Bounds (Ext K))} (h : VBP vb) : BoundsProper (ucM vb) := by
  intro x
  rw [varBounds_ucM]
  exact h x

/-- `bounds_of` of an expression with finite literals over a proper box is proper. -/
theorem boundsOf_PB {vb : List (String × Rooc.Bounds (Ext K))} (h : VBP vb) {e : Exp (Ext K)}
    (he : allLits fin? e = true) : PB (Analyzer.boundsOf vb e) := by
  have := Lin.boundsOf_BP (closed_isFinite K) bax_isFinite (ucM vb) (boundsProper_of_VBP h) e he
  rw [← PB_cvB, cv_boundsOf, cvM_ucM] at this
  exact this

theorem VBP_insert {vb : List (String × Rooc.Bounds (Ext K))} (h : VBP vb) (name : String)
    {t : Rooc.Bounds (Ext K)} (ht : PB t) : VBP (AList.insert vb name t) := by
  intro x
  unfold Analyzer.varBounds
  rw [BoundsProofs.get?_insert]
  split
  · exact ht
  · exact h x

/-! ### `tighten_variable` and the expression walk -/

theorem tightenVariable_VBP {an : Analyzer (Ext K)} (h : VBP an.variableBounds) (name : String)
    {cand : Rooc.Bounds (Ext K)} (hc : PB cand) : VBP (an.tightenVariable name cand).1.variableBounds := by
  unfold Analyzer.tightenVariable
  split
  · exact h
  · dsimp only
    split
    · exact h
    · rename_i t ht
      split
      · exact VBP_insert h name (PB_intersection (h name) hc ht)
      · exact h

theorem tightenVar_VBP {s : TState (Ext K)} (h : VBP s.an.variableBounds) (name : String)
    {cand : Rooc.Bounds (Ext K)} (hc : PB cand) : VBP (Analyzer.tightenVar s name cand).an.variableBounds := by
  unfold Analyzer.tightenVar
  dsimp only
  split <;> exact tightenVariable_VBP h name hc

/-- the statement carried through `tighten_expression`. -/
def WalkOK (e : Exp (Ext K)) : Prop :=
  ∀ (requested : Rooc.Bounds (Ext K)) (s : TState (Ext K)), VBP s.an.variableBounds → PB requested →
    VBP (Analyzer.tightenExpression e requested s).an.variableBounds

theorem tightenList_VBP : ∀ (es : List (Exp (Ext K))) (required : Rooc.Bounds (Ext K)) (s : TState (Ext K)),
    (∀ e ∈ es, WalkOK e) → VBP s.an.variableBounds → PB required →
    VBP (Analyzer.tightenList es required s).an.variableBounds
  | [], _, s, _, h, _ => by unfold Analyzer.tightenList; exact h
  | e :: es, required, s, ih, h, hr => by
    unfold Analyzer.tightenList
    exact tightenList_VBP es required _ (fun e' he' => ih e' (List.mem_cons_of_mem _ he'))
      (ih e (List.mem_cons_self ..) required s h hr) hr

theorem fin_of_isFinite {a : Ext K} (h : Arith.isFinite a = true) : ∃ x, a = .fin x := by
  cases a <;> simp [Arith.isFinite, Ext.isFinite] at h ⊢

theorem tightenExpression_VBP : ∀ e : Exp (Ext K), allLits fin? e = true → WalkOK e := by
  intro e
  induction e using BoundsProofs.expInd with
  | num x =>
    intro _ requested s h hr; unfold Analyzer.tightenExpression; split; exact h; split; exact h; exact h
  | var name =>
    intro _ requested s h hr; unfold Analyzer.tightenExpression; split; exact h; split; exact h
    rename_i req hreq
    exact tightenVar_VBP h name (PB_intersection (boundsOf_PB h (by simp [allLits])) hr hreq)
  | abs e ih =>
    intro he requested s h hr; unfold Analyzer.tightenExpression; split; exact h; split; exact h
    rename_i req hreq
    simp only [allLits] at he
    dsimp only; split
    · rename_i hf
      obtain ⟨x, hx⟩ := fin_of_isFinite hf
      refine ih he _ s h ?_
      rw [PB_iff, hx]; simp [Arith.neg, Ext.neg]
    · exact h
  | min es ih =>
    intro he requested s h hr; unfold Analyzer.tightenExpression; split; exact h; split; exact h
    simp only [allLits, allLitsL_iff] at he
    dsimp only; split
    · rename_i hf
      obtain ⟨x, hx⟩ := fin_of_isFinite hf
      refine tightenList_VBP es _ s (fun e' he' => ih e' he' (he e' he')) h ?_
      rw [PB_iff, hx]; simp [Arith.posInf]
    · exact h
  | max es ih =>
    intro he requested s h hr; unfold Analyzer.tightenExpression; split; exact h; split; exact h
    simp only [allLits, allLitsL_iff] at he
    dsimp only; split
    · rename_i hf
      obtain ⟨x, hx⟩ := fin_of_isFinite hf
      refine tightenList_VBP es _ s (fun e' he' => ih e' he' (he e' he')) h ?_
      rw [PB_iff, hx]; simp [Arith.negInf]
    · exact h
  | and es _ => intro _ requested s h hr; unfold Analyzer.tightenExpression; split; exact h; split; exact h; exact h
  | or es _ => intro _ requested s h hr; unfold Analyzer.tightenExpression; split; exact h; split; exact h; exact h
  | not e _ => intro _ requested s h hr; unfold Analyzer.tightenExpression; split; exact h; split; exact h; exact h
  | xor a b _ _ => intro _ requested s h hr; unfold Analyzer.tightenExpression; split; exact h; split; exact h; exact h
  | implies a b _ _ => intro _ requested s h hr; unfold Analyzer.tightenExpression; split; exact h; split; exact h; exact h
  | iff a b _ _ => intro _ requested s h hr; unfold Analyzer.tightenExpression; split; exact h; split; exact h; exact h
  | bin op a b iha ihb =>
    intro he requested s h hr; unfold Analyzer.tightenExpression; split; exact h; split; exact h
    simp only [allLits, Bool.and_eq_true] at he
    have hba := boundsOf_PB h he.1
    have hbb := boundsOf_PB h he.2
    cases op
    · dsimp only
      exact ihb he.2 _ _ (iha he.1 _ s h (PB_sub hr hbb)) (PB_sub hr hba)
    · dsimp only
      exact ihb he.2 _ _ (iha he.1 _ s h (PB_add hr hbb)) (PB_sub hba hr)
    · dsimp only
      split
      · rename_i c hc
        have hcn := BoundsProofs.asNum_eq hc
        rw [hcn] at he
        split
        · exact ihb he.2 _ s h (PB_divBy hr (by simpa [allLits] using he.1))
        · exact h
      · split
        · rename_i c hc
          have hcn := BoundsProofs.asNum_eq hc
          rw [hcn] at he
          split
          · exact iha he.1 _ s h (PB_divBy hr (by simpa [allLits] using he.2))
          · exact h
        · exact h
    · dsimp only
      split
      · rename_i d hd
        have hdn := BoundsProofs.asNum_eq hd
        rw [hdn] at he
        split
        · exact iha he.1 _ s h (PB_scale hr (by simpa [allLits] using he.2))
        · exact h
      · exact h
    all_goals exact h
  | un op e ih =>
    intro he requested s h hr; unfold Analyzer.tightenExpression; split; exact h; split; exact h
    simp only [allLits] at he
    cases op
    · exact ih he _ s h (PB_neg hr)
    · exact h

/-! ### constraints, affine forms, the work-list -/

/-- a constraint without non-finite literals (for an assertion the right-hand side is not read, but the
normalisation keeps it, so both sides are required). -/
def ConFin (c : Constraint (Ext K)) : Prop := allLits fin? c.lhs = true ∧ allLits fin? c.rhs = true

theorem tightenConstraintExpression_VBP {c : Constraint (Ext K)} (hc : ConFin c) {req : Rooc.Bounds (Ext K)}
    (hr : PB req) {s : TState (Ext K)} (h : VBP s.an.variableBounds) :
    VBP (Analyzer.tightenConstraintExpression c req s).an.variableBounds := by
  unfold Analyzer.tightenConstraintExpression
  dsimp only
  have hl := boundsOf_PB h hc.1
  have hrb := boundsOf_PB h hc.2
  split
  · exact h
  · exact tightenExpression_VBP _ hc.2 _ _ (tightenExpression_VBP _ hc.1 _ s h (PB_add hr hrb)) (PB_sub hl hr)

theorem PB_suffixSum : ∀ (ts : List (Rooc.Bounds (Ext K))), (∀ t ∈ ts, PB t) → PB (Analyzer.suffixSum ts)
  | [], _ => by
    unfold Analyzer.suffixSum
    exact PB_singleton (by simp [fin?, Arith.isFinite, Ext.isFinite, Arith.zero, Arith.ofInt])
  | t :: ts, h => by
    unfold Analyzer.suffixSum
    exact PB_add (h t (by simp)) (PB_suffixSum ts (fun t' ht' => h t' (by simp [ht'])))

theorem affineLoop_VBP {required : Rooc.Bounds (Ext K)} (hreq : PB required) :
    ∀ (cs : List (String × Ext K)) (ts : List (Rooc.Bounds (Ext K))) (pre : Rooc.Bounds (Ext K)) (s : TState (Ext K)),
    (∀ q ∈ cs, fin? q.2 = true) → (∀ t ∈ ts, PB t) → PB pre → VBP s.an.variableBounds →
    VBP (Analyzer.affineLoop required cs ts pre s).an.variableBounds
  | [], _, _, _, _, _, _, h => by simp [Analyzer.affineLoop]; exact h
  | _ :: _, [], _, _, _, _, _, h => by simp [Analyzer.affineLoop]; exact h
  | (n, c) :: cs, t :: ts, pre, s, hcs, hts, hpre, h => by
    simp only [Analyzer.affineLoop]
    have hcand : PB ((required.sub (pre.add (Analyzer.suffixSum ts))).divBy c) :=
      PB_divBy (PB_sub hreq (PB_add hpre (PB_suffixSum ts (fun t' ht' => hts t' (by simp [ht'])))))
        (hcs (n, c) (by simp))
    have h1 := tightenVar_VBP (s := s) h n hcand
    split
    · exact h1
    · exact affineLoop_VBP hreq cs ts _ _ (fun q hq => hcs q (by simp [hq])) (fun t' ht' => hts t' (by simp [ht']))
        (PB_add hpre (hts t (by simp))) h1

/-- an affine form with finite coefficients and constant (what `from_constraint` returns). -/
def FormFin (f : AffineForm (Ext K)) : Prop := fin? f.constant = true ∧ ∀ q ∈ f.coefficients, fin? q.2 = true

theorem fromConstraint_fin {c : Constraint (Ext K)} {f : AffineForm (Ext K)}
    (h : AffineForm.fromConstraint c = some f) : FormFin f := by
  unfold AffineForm.fromConstraint at h
  split at h
  · cases h
  · split at h
    · cases h
    · dsimp only at h
      split at h
      · cases h
      · rename_i hfin
        injection h with h
        subst h
        simp only [Bool.or_eq_true, Bool.not_eq_true', List.any_eq_true, not_or, not_exists, not_and,
          Bool.not_eq_false] at hfin
        refine ⟨by simpa using hfin.1, fun q hq => ?_⟩
        have := hfin.2 q hq
        simpa using this

theorem tightenAffineForm_VBP {an : Analyzer (Ext K)} (h : VBP an.variableBounds) {f : AffineForm (Ext K)}
    (hf : FormFin f) (cmp : Cmp) : VBP (an.tightenAffineForm f cmp).an.variableBounds := by
  unfold Analyzer.tightenAffineForm
  dsimp only
  have hloop := affineLoop_VBP (PB_required cmp) f.coefficients
    (f.coefficients.map fun p => (Analyzer.varBounds an.variableBounds p.1).scale p.2)
    (Rooc.Bounds.singleton f.constant) ⟨an, []⟩ hf.2
    (by
      intro t ht
      obtain ⟨q, hq, rfl⟩ := List.mem_map.mp ht
      exact PB_scale (h q.1) (hf.2 q hq))
    (PB_singleton hf.1) h
  split
  · exact hloop
  · exact hloop

theorem stepConstraint_VBP {an : Analyzer (Ext K)} (h : VBP an.variableBounds) {c : Constraint (Ext K)}
    (hc : ConFin c) : VBP (Analyzer.stepConstraint an c (AffineForm.fromConstraint c)).an.variableBounds := by
  unfold Analyzer.stepConstraint
  cases hf : AffineForm.fromConstraint c with
  | some f => exact tightenAffineForm_VBP h (fromConstraint_fin hf) c.cmp
  | none => exact tightenConstraintExpression_VBP hc (PB_required c.cmp) (s := ⟨an, []⟩) h

theorem propagateLoop_VBP (cs : List (Constraint (Ext K))) (hcs : ∀ c ∈ cs, ConFin c)
    (deps : List (String × List Nat)) : ∀ (fuel : Nat) (an : Analyzer (Ext K)) (queue : List Nat) (queued : List Bool),
    VBP an.variableBounds →
    VBP (Analyzer.propagateLoop cs (cs.map AffineForm.fromConstraint) deps fuel an queue queued).variableBounds := by
  intro fuel
  induction fuel with
  | zero =>
    intro an queue queued h
    cases queue with
    | nil => simpa [Analyzer.propagateLoop] using h
    | cons _ _ => simpa [Analyzer.propagateLoop] using h
  | succ fuel ih =>
    intro an queue queued h
    cases queue with
    | nil => simpa [Analyzer.propagateLoop] using h
    | cons index queue =>
      simp only [Analyzer.propagateLoop]
      split
      · rename_i c form hc hform
        have hmem : c ∈ cs := List.mem_of_getElem? hc
        have hform' : form = AffineForm.fromConstraint c := by
          rw [List.getElem?_map, hc] at hform
          simpa using hform.symm
        subst hform'
        have hstep := stepConstraint_VBP h (hcs c hmem)
        split
        · exact hstep
        · exact ih _ _ _ hstep
      · exact ih _ _ _ h

/-! ### `from_domain`, `enforceable`, `apply_to_domain` -/

/-- every declared type is proper. -/
def DeclProper (dom : List (DomVar (Ext K))) : Prop := Lin.DomainProper dom

theorem PB_ofVarType {ty : VarType (Ext K)} (h : TP fin? ty) : PB (Rooc.Bounds.ofVarType ty) := by
  have := Lin.BP_ofVarType (closed_isFinite K) h
  cases ty <;> exact this

theorem fromDomain_VBP {dom : List (DomVar (Ext K))} (h : DeclProper dom) (tol : Ext K) :
    VBP (Analyzer.fromDomain dom tol).variableBounds := by
  simp only [Analyzer.fromDomain]
  suffices hs : ∀ (dom : List (DomVar (Ext K))) (m : List (String × Rooc.Bounds (Ext K))),
      (∀ d ∈ dom, TP fin? d.ty) → VBP m →
      VBP (dom.foldl (fun m d => AList.insert m d.name (Rooc.Bounds.ofVarType d.ty)) m) from
    hs dom [] h (fun _ => by simp [Analyzer.varBounds, AList.get?]; exact PB_unbounded)
  intro dom
  induction dom with
  | nil => intro m _ hm; exact hm
  | cons d ds ih =>
    intro m hd hm
    simp only [List.foldl_cons]
    exact ih _ (fun d' hd' => hd d' (by simp [hd'])) (VBP_insert hm d.name (PB_ofVarType (hd d (by simp))))

theorem analyze_VBP {dom : List (DomVar (Ext K))} (hd : DeclProper dom) {cs : List (Constraint (Ext K))}
    (hcs : ∀ c ∈ cs, ConFin c) (tol : Ext K) (maxSteps : Nat) :
    VBP (Analyzer.analyze dom cs tol maxSteps).variableBounds := by
  unfold Analyzer.analyze Analyzer.propagate
  exact propagateLoop_VBP cs hcs _ _ _ _ _ (fromDomain_VBP hd tol)

theorem analyze_tolerance (dom : List (DomVar (Ext K))) (cs : List (Constraint (Ext K))) (tol : Ext K)
    (maxSteps : Nat) : (Analyzer.analyze dom cs tol maxSteps).tolerance = tol := by
  unfold Analyzer.analyze Analyzer.propagate
  rw [BoundsProofs.propagateLoop_tolerance]
  rfl

theorem roundStep_VBP {a : Analyzer (Ext K)} (h : VBP a.variableBounds) (htol : fin? a.tolerance = true)
    (d : DomVar (Ext K)) : VBP (a.roundStep d).variableBounds ∧ (a.roundStep d).tolerance = a.tolerance := by
  unfold Analyzer.roundStep
  split
  · split
    · rename_i b hb
      refine ⟨VBP_insert h d.name ?_, rfl⟩
      have hpb : PB b := by
        have := h d.name
        unfold Analyzer.varBounds at this
        rw [hb] at this
        exact this
      obtain ⟨t, ht⟩ := fin_of_isFinite htol
      rw [PB_iff] at hpb ⊢
      dsimp only
      rw [ht]
      obtain ⟨hl, hu⟩ := hpb
      constructor
      · rcases hl with ⟨x, hx⟩ | hx <;> rw [hx] <;>
          simp [Arith.sub, Ext.sub, Ext.add, Ext.neg, Arith.ceil]
      · rcases hu with ⟨x, hx⟩ | hx <;> rw [hx] <;>
          simp [Arith.add, Ext.add, Arith.floor]
    · exact ⟨h, rfl⟩
  · exact ⟨h, rfl⟩

theorem roundIntegerRanges_VBP : ∀ (dom : List (DomVar (Ext K))) (a : Analyzer (Ext K)),
    VBP a.variableBounds → fin? a.tolerance = true → VBP (a.roundIntegerRanges dom).variableBounds
  | [], a, h, _ => h
  | d :: ds, a, h, htol => by
    unfold Analyzer.roundIntegerRanges
    simp only [List.foldl_cons]
    have := roundStep_VBP h htol d
    exact roundIntegerRanges_VBP ds _ this.1 (by rw [this.2]; exact htol)

theorem enforceable_VBP {dom : List (DomVar (Ext K))} (hd : DeclProper dom) {an : Analyzer (Ext K)}
    (h : VBP an.variableBounds) (htol : fin? an.tolerance = true) : VBP (an.enforceable dom).variableBounds := by
  unfold Analyzer.enforceable
  split
  · exact fromDomain_VBP hd an.tolerance
  · exact roundIntegerRanges_VBP dom an h htol

theorem nn_lower_ok {l : Ext K} (hl : (∃ x, l = .fin x) ∨ l = .ninf) :
    fin? (if Arith.gt l Arith.zero then l else Arith.zero) = true ∧
      Arith.le (Arith.zero : Ext K) (if Arith.gt l Arith.zero then l else Arith.zero) = true := by
  rcases hl with ⟨x, rfl⟩ | rfl
  · by_cases hx : (0 : K) < x
    · have : Arith.gt (Ext.fin x) (Arith.zero : Ext K) = true := by
        simp [Arith.gt, Arith.lt, Ext.lt, Arith.zero, Arith.ofInt, hx]
      rw [if_pos this]
      exact ⟨rfl, by simp [Arith.le, Ext.le, Arith.zero, Arith.ofInt, hx.le]⟩
    · have : Arith.gt (Ext.fin x) (Arith.zero : Ext K) = false := by
        simp [Arith.gt, Arith.lt, Ext.lt, Arith.zero, Arith.ofInt, hx]
      rw [this]
      exact ⟨rfl, by simp [Arith.le, Ext.le, Arith.zero, Arith.ofInt]⟩
  · have : Arith.gt (Ext.ninf : Ext K) (Arith.zero : Ext K) = false := rfl
    rw [this]
    exact ⟨rfl, by simp [Arith.le, Ext.le, Arith.zero, Arith.ofInt]⟩

/-- `apply_to_domain` publishes proper types. -/
theorem applyToDomain_proper {dom : List (DomVar (Ext K))} (hd : DeclProper dom) {an : Analyzer (Ext K)}
    (h : VBP an.variableBounds) : Lin.DomainProper (an.applyToDomain dom) := by
  intro v hv
  simp only [Analyzer.applyToDomain, List.mem_map] at hv
  obtain ⟨d, hdm, rfl⟩ := hv
  unfold Analyzer.applyToVar
  split
  · exact hd d hdm
  · rename_i b hb
    have hpb : PB b := by
      have := h d.name
      unfold Analyzer.varBounds at this
      rw [hb] at this
      exact this
    split
    · exact hd d hdm
    · dsimp only
      split
      · exact hd d hdm
      · trivial
    · rw [PB_iff] at hpb
      obtain ⟨hl, hu⟩ := hpb
      show TP fin? (.nnreal _ _)
      exact ⟨(nn_lower_ok hl).1, (nn_lower_ok hl).2, (UOK_iff _).mpr hu⟩
    · exact ⟨(LOK_iff _).mpr ((PB_iff b).mp hpb).1, (UOK_iff _).mpr ((PB_iff b).mp hpb).2⟩

/-! ### the whole compiler -/

theorem normalizedForBounds_fin : ∀ (cs cs' : List (Constraint (Ext K))),
    (∀ c ∈ cs, ConFin c) → Compile.normalizedForBounds cs = some cs' → ∀ c ∈ cs', ConFin c
  | [], cs', _, h => by
    simp only [Compile.normalizedForBounds, List.foldr_nil] at h
    injection h with h; subst h; simp
  | c :: cs, cs', hc, h => by
    have hs := simpOK_of_closed (closed_isFinite K)
    simp only [Compile.normalizedForBounds, List.foldr_cons] at h
    cases hrest : Compile.normalizedForBounds cs with
    | none => simp [Compile.normalizedForBounds] at hrest; simp [hrest] at h
    | some rest =>
      have ih := normalizedForBounds_fin cs rest (fun c' hc' => hc c' (by simp [hc'])) hrest
      simp only [Compile.normalizedForBounds] at hrest
      rw [hrest] at h
      simp only [Option.bind_eq_bind, Option.bind_some] at h
      cases hl : normalizeExp c.lhs with
      | none => simp [hl] at h
      | some l =>
        have hlf := normalizeExp_ok hs (hc c (by simp)).1 hl
        simp only [hl, Option.bind_some] at h
        split at h
        · simp only [Option.pure_def, Option.some.injEq] at h
          subst h
          intro c' hc'
          rcases List.mem_cons.mp hc' with rfl | hc'
          · exact ⟨hlf, (hc c (by simp)).2⟩
          · exact ih c' hc'
        · cases hr : normalizeExp c.rhs with
          | none => simp [hr] at h
          | some r =>
            have hrf := normalizeExp_ok hs (hc c (by simp)).2 hr
            simp only [hr, Option.bind_some, Option.pure_def, Option.some.injEq] at h
            subst h
            intro c' hc'
            rcases List.mem_cons.mp hc' with rfl | hc'
            · exact ⟨hlf, hrf⟩
            · exact ih c' hc'

/-- **domains of the compiled model are well-formed**: for every model whose declared ranges are proper and
whose objective and constraints have no non-finite literal, every finite tolerance and every step limit, every
domain entry of `Compile.linearize m` — tightened source variables and `$` auxiliaries — is a proper range. -/
theorem compile_domain_proper {m : Model (Ext K)} {t : K} {maxSteps : Nat} {lm : LinModel (Ext K)}
    (hdecl : Lin.DomainProper m.domain) (hfin : Lin.FiniteLits m = true)
    (h : Compile.linearize m (.fin t) maxSteps = .ok lm) : Lin.DomainProper lm.domain := by
  unfold Compile.linearize at h
  split at h
  · cases h
  · -- past the up-front collapse check (rooc e35561f), whose scratch context is dropped
    split at h
    · cases h
    · rename_i cs hcs
      dsimp only at h
      have hfin' := hfin
      simp only [Lin.FiniteLits, Bool.and_eq_true, List.all_eq_true] at hfin'
      have hcf : ∀ c ∈ cs, ConFin c := normalizedForBounds_fin _ _ (fun c hc => hfin'.2 c hc) hcs
      have hvb := enforceable_VBP (dom := m.domain) hdecl (analyze_VBP hdecl hcf (.fin t) maxSteps)
        (by rw [analyze_tolerance]; rfl)
      exact Lin.domain_proper hfin (boundsProper_of_VBP hvb) (applyToDomain_proper hdecl hvb) h

end APr
end Rooc

