/-
C08 helpers — every action of the `linExp` mutual block preserves the state invariant `Rel N p`
and returns values whose literals / coefficients satisfy `p`.
-/
import Rooc.Proofs.WFInv

set_option linter.unusedSectionVars false
set_option linter.unusedVariables false

namespace Rooc
namespace Lin
open Arith
variable {α : Type} [Arith α] [BCfg α] {β γ : Type}
variable {N : String → Prop} {p : α → Bool}

section block
attribute [local irreducible] CtxOK Ctx.mergeAdd Ctx.mergeSub Ctx.mulBy Ctx.divBy Ctx.addRhs Ctx.addVar
  Ctx.fromRhs Ctx.fromVar Ctx.new ctxToExp sumExps isAux retainedFlagsE
variable (hN : N "") (hp : Closed p) (hB : BTrack p)
include hN hp hB

set_option maxHeartbeats 1000000 in
theorem linExp_block :
    (∀ (e : Exp α) (req : Req), allLits p e = true → ∀ s, SpAt (Rel N p) (Inv N p) s (linExp e req) (CtxOK p)) ∧
    (∀ (e : Exp α), allLits p e = true → ∀ s, SpAt (Rel N p) (Inv N p) s (linBinaryOperand e) (fun x => allLits p x = true)) ∧
    (∀ (es : List (Exp α)), allLitsL p es = true →
      ∀ s, SpAt (Rel N p) (Inv N p) s (linBinaryOperands es) (fun xs => allLitsL p xs = true)) ∧
    (∀ (kind : ExtKind) (es : List (Exp α)) (req : Req), allLitsL p es = true →
      ∀ s, SpAt (Rel N p) (Inv N p) s (linExtreme kind es req) (CtxOK p)) ∧
    (∀ (es : List (Exp α)) (fs : List Bool) (req : Req), allLitsL p es = true →
      ∀ s, SpAt (Rel N p) (Inv N p) s (linFlagged es fs req) (fun xs => allLitsL p xs = true)) ∧
    (∀ (es : List (Exp α)) (fs : List Bool) (req : Req), allLitsL p es = true →
      ∀ s, SpAt (Rel N p) (Inv N p) s (linFirstFlagged es fs req) (CtxOK p)) := by
  have hR := rel_isPre (α := α) N p
  apply linExp.mutual_induct
    (motive1 := fun e req => allLits p e = true → ∀ s, SpAt (Rel N p) (Inv N p) s (linExp e req) (CtxOK p))
    (motive2 := fun e => allLits p e = true → ∀ s, SpAt (Rel N p) (Inv N p) s (linBinaryOperand e) (fun x => allLits p x = true))
    (motive3 := fun es => allLitsL p es = true →
      ∀ s, SpAt (Rel N p) (Inv N p) s (linBinaryOperands es) (fun xs => allLitsL p xs = true))
    (motive4 := fun kind es req => allLitsL p es = true →
      ∀ s, SpAt (Rel N p) (Inv N p) s (linExtreme kind es req) (CtxOK p))
    (motive5 := fun es fs req => allLitsL p es = true →
      ∀ s, SpAt (Rel N p) (Inv N p) s (linFlagged es fs req) (fun xs => allLitsL p xs = true))
    (motive6 := fun es fs req => allLitsL p es = true →
      ∀ s, SpAt (Rel N p) (Inv N p) s (linFirstFlagged es fs req) (CtxOK p))
  case case1 =>
    intro l r req ih1 ih2 hl s
    simp only [allLits, Bool.and_eq_true] at hl
    simp only [linExp]
    refine SpAt.bind hR (ih1 hl.1 s) ?_
    intro a ha s1
    refine SpAt.bind hR (ih2 hl.2 s1) ?_
    intro b hb s2
    exact SpAt.pure hR (ha.mergeAdd hp hb)
  case case31 =>
    intro kind es req hne ih6 ih5 hes s
    dsimp only at ih5 ih6
    cases kind
    · simp only [linExtreme]
      sp_go
      all_goals
        have hm := mem_zip3 (by assumption)
        have hf := hasFinite_of_guard (by assumption) (by assumption)
        simp only [Bool.and_eq_true, List.all_eq_true] at hf
        first
          | exact (allLitsL_iff _ _).mp (by assumption) _ hm.1
          | (simp only [allLits, subExp, mulExp, Bool.and_eq_true]
             exact ⟨(allLitsL_iff _ _).mp (by assumption) _ hm.1,
               hp.sub _ _ (hp.ofFinite _ (hf.2 _ hm.2.1)) (hp.ofFinite _ hf.1), hp.ofInt 1, allLits_of_mem_vars hm.2.2⟩)
    · simp only [linExtreme]
      sp_go
      all_goals
        have hm := mem_zip3 (by assumption)
        have hf := hasFinite_of_guard (by assumption) (by assumption)
        simp only [Bool.and_eq_true, List.all_eq_true] at hf
        first
          | exact (allLitsL_iff _ _).mp (by assumption) _ hm.1
          | (simp only [allLits, addExp, subExp, mulExp, Bool.and_eq_true]
             exact ⟨(allLitsL_iff _ _).mp (by assumption) _ hm.1,
               hp.sub _ _ (hp.ofFinite _ hf.1) (hp.ofFinite _ (hf.2 _ hm.2.1)), hp.ofInt 1, allLits_of_mem_vars hm.2.2⟩)
  all_goals (intros; (first | simp only [linExp] | simp only [linBinaryOperands] | simp only [linFlagged] | simp only [linFirstFlagged] | unfold linBinaryOperand | unfold linExtreme | skip); sp_go)



end block
end Lin
end Rooc
