/-
The canonicalising eliminations of the direct start (`into_tableau`, `standard_linear_model.rs:93-102`):
row `k` is divided by its independent entry, the objective row is reduced by it.
-/
import Rooc.Proofs.Start
namespace Rooc
namespace Start
variable {K : Type} [Field K] [LinearOrder K] [IsStrictOrderedRing K]
attribute [local instance] exactArith
open Tableau TabSem PivotLemmas

abbrev St (K : Type) := List (List K) × List K × List K × K

/-- one canonicalising step (the body of the loop over the selected variables). -/
noncomputable def cstep (st : St K) (iv : Indep K) : St K :=
  let a := st.1.modify iv.row (rowDiv iv.value)
  let b := st.2.1.modify iv.row (fun x => x / iv.value)
  let amount := nth st.2.2.1 iv.column
  (a, b, rowSubMul amount st.2.2.1 (row a iv.row), st.2.2.2 - amount * nth b iv.row)

theorem canonicalise_eq (sel : List (Indep K)) (a : List (List K)) (b c : List K) :
    canonicalise sel a b c = sel.foldl cstep (a, b, c, 0) := by
  unfold canonicalise cstep
  simp only [ExactK.zero_eq, ExactK.div_eq, ExactK.sub_eq, ExactK.mul_eq]

/-- the tableau view of a state. -/
def tabOf (basis : List Nat) (off : K) (flip : Bool) (st : St K) : Tab K :=
  { c := st.2.2.1, a := st.1, b := st.2.1, basis := basis, value := st.2.2.2, offset := off, flip := flip }

theorem row_modify (a : List (List K)) (k : Nat) (f : List K → List K) (i : Nat) (hf : f [] = []) :
    row (a.modify k f) i = if k = i then f (row a i) else row a i := by
  simp only [row, List.getD_eq_getElem?_getD, List.getElem?_modify]
  cases h : a[i]? with
  | none => by_cases e : k = i <;> simp [e, hf]
  | some r => by_cases e : k = i <;> simp [e]

theorem nth_modify (b : List K) (k : Nat) (f : K → K) (i : Nat) (hf : f 0 = 0) :
    nth (b.modify k f) i = if k = i then f (nth b i) else nth b i := by
  simp only [nth, List.getD_eq_getElem?_getD, List.getElem?_modify, ExactK.zero_eq]
  cases h : b[i]? with
  | none => by_cases e : k = i <;> simp [e, hf]
  | some r => by_cases e : k = i <;> simp [e]

/-- what is known about the selected variables: `B j` is the column selected for row `j`. -/
structure Data (m n : Nat) (a0 : List (List K)) (B : Nat → Nat) : Prop where
  inRange : ∀ j, j < m → B j < n
  pos : ∀ j, j < m → 0 < nth (row a0 j) (B j)
  off : ∀ i j, i < m → j < m → i ≠ j → nth (row a0 i) (B j) = 0

/-- invariant after the first `k` rows have been canonicalised. -/
structure J (Bl : List Nat) (m n : Nat) (a0 : List (List K)) (b0 c0 : List K) (B : Nat → Nat) (k : Nat) (st : St K) : Prop where
  rect : Rect (tabOf Bl 0 false st) m n
  sol : ∀ x, Sol (tabOf Bl 0 false st) x ↔ Sol (tabOf Bl 0 false (a0, b0, c0, 0)) x
  obj : ObjInv (tabOf Bl 0 false st) c0
  offd : ∀ i j, i < m → j < m → i ≠ j → nth (row st.1 i) (B j) = 0
  diag : ∀ j, j < k → j < m → nth (row st.1 j) (B j) = 1
  cost : ∀ j, j < k → j < m → nth st.2.2.1 (B j) = 0
  rest : ∀ j, k ≤ j → j < m → row st.1 j = row a0 j
  feas : (∀ i, i < m → 0 ≤ nth b0 i) → ∀ i, i < m → 0 ≤ nth st.2.1 i

theorem J_init {Bl : List Nat} {m n : Nat} {a0 : List (List K)} {b0 c0 : List K} {B : Nat → Nat}
    (hR : Rect (tabOf Bl 0 false (a0, b0, c0, 0)) m n) (hD : Data m n a0 B) : J Bl m n a0 b0 c0 B 0 (a0, b0, c0, 0) :=
  ⟨hR, fun _ => Iff.rfl, by intro x _ _; simp [tabOf], hD.off, by intro j hj; omega, by intro j hj; omega,
   fun _ _ _ => rfl, fun h => h⟩

theorem J_step {Bl : List Nat} {m n : Nat} {a0 : List (List K)} {b0 c0 : List K} {B : Nat → Nat} (hD : Data m n a0 B)
    {k : Nat} {st : St K} (hJ : J Bl m n a0 b0 c0 B k st) (hk : k < m) (iv : Indep K) (hrow : iv.row = k)
    (hcol : iv.column = B k) (hval : iv.value = nth (row a0 k) (B k)) :
    J Bl m n a0 b0 c0 B (k+1) (cstep st iv) := by
  obtain ⟨a, b, c, v⟩ := st
  have hR := hJ.rect
  have hpos : 0 < iv.value := by rw [hval]; exact hD.pos k hk
  have hne : iv.value ≠ 0 := ne_of_gt hpos
  have hrk : row a k = row a0 k := hJ.rest k (le_refl _) hk
  have hal : a.length = m := hR.rows
  have hbl : b.length = m := hR.rhs
  have hcl : c.length = n := hR.costs
  have hw : ∀ i, i < m → (row a i).length = n := hR.width
  -- the new rows / rhs
  have hrow' : ∀ i, row (a.modify k (rowDiv iv.value)) i = if k = i then rowDiv iv.value (row a i) else row a i :=
    fun i => row_modify a k _ i (by simp [rowDiv])
  have hb' : ∀ i, nth (b.modify k (fun x => x / iv.value)) i = if k = i then nth b i / iv.value else nth b i :=
    fun i => nth_modify b k _ i (by simp)
  have hrkk : row (a.modify k (rowDiv iv.value)) k = rowDiv iv.value (row a k) := by rw [hrow']; simp
  have hbk : nth (b.modify k (fun x => x / iv.value)) k = nth b k / iv.value := by rw [hb']; simp
  have hwk : (rowDiv iv.value (row a k)).length = n := by simp [hw k hk]
  have hsolstep : ∀ x, Sol (tabOf Bl 0 false (cstep (a, b, c, v) iv)) x ↔ Sol (tabOf Bl 0 false (a, b, c, v)) x := by
    intro x
    simp only [Sol, tabOf, cstep, hrow, List.length_modify]
    constructor <;> intro h i hi
    · have := h i hi
      rw [hrow', hb'] at this
      by_cases e : k = i
      · subst e
        simp only [if_true, dot_rowDiv] at this
        field_simp at this; exact this
      · simpa [e] using this
    · rw [hrow', hb']
      by_cases e : k = i
      · subst e; simp only [if_true, dot_rowDiv]; rw [h k hi]
      · simpa [e] using h i hi
  refine ⟨?_, ?_, ?_, ?_, ?_, ?_, ?_, ?_⟩
  · -- rect
    refine ⟨by simp [tabOf, cstep, hal], by simp [tabOf, cstep, hbl], by simpa [tabOf] using hR.basis, ?_, ?_⟩
    · simp only [tabOf, cstep, hrow, hrkk]
      rw [length_rowSubMul _ _ _ (by rw [hcl, hwk]), hcl]
    · intro i hi
      simp only [tabOf, cstep, hrow]
      rw [hrow']; by_cases e : k = i
      · subst e; simpa using hwk
      · simpa [e] using hw i hi
  · exact fun x => (hsolstep x).trans (hJ.sol x)
  · -- objective
    intro x hx hS
    have hS' := (hsolstep x).1 hS
    have hxl : x.length = c.length := by
      simp only [tabOf, cstep, hrow, hrkk] at hx
      rw [hx, length_rowSubMul _ _ _ (by rw [hcl, hwk])]
    have e := hJ.obj x (by simpa [tabOf] using hxl) hS'
    have ek := hS k (by simp [tabOf, cstep, hal, hk])
    simp only [tabOf, cstep, hrow] at ek
    rw [e]
    simp only [tabOf, cstep, hrow, hrkk, hbk, hcol] at ek ⊢
    rw [dot_rowSubMul _ _ _ _ (by rw [hcl, hwk]), ek]
    simp only [ExactK.sub_eq]; ring
  · -- off-diagonal zeros
    intro i j hi hj hij
    simp only [cstep, hrow]
    rw [hrow']
    by_cases e : k = i
    · subst e
      simp only [if_true, nth_rowDiv]
      have := hJ.offd k j hk hj hij
      simp only at this
      rw [this]; simp
    · simpa [e] using hJ.offd i j hi hj hij
  · -- diagonal ones
    intro j hj hjm
    simp only [cstep, hrow]
    rw [hrow']
    by_cases e : k = j
    · subst e
      simp only [if_true, nth_rowDiv, hrk, ← hval]
      exact div_self hne
    · simp only [e, if_false]
      exact hJ.diag j (by omega) hjm
  · -- reduced costs of the processed columns
    intro j hj hjm
    simp only [cstep, hrow, hrkk, hcol]
    rw [nth_rowSubMul _ _ _ _ (by rw [hcl, hwk]), nth_rowDiv]
    by_cases e : k = j
    · subst e
      rw [hrk, ← hval, div_self hne]; ring
    · have h1 := hJ.cost j (by omega) hjm
      have h2 := hJ.offd k j hk hjm e
      simp only at h1 h2
      rw [h1, h2]; simp
  · intro j hj hjm
    simp only [cstep, hrow]
    rw [hrow']
    have e : ¬ k = j := by omega
    simp only [e, if_false]
    exact hJ.rest j (by omega) hjm
  · intro h0 i hi
    simp only [cstep, hrow]
    rw [hb']
    have := hJ.feas h0 i hi
    simp only at this
    by_cases e : k = i
    · simp only [e, if_true]; exact div_nonneg this hpos.le
    · simpa [e] using this

theorem J_fold {Bl : List Nat} {m n : Nat} {a0 : List (List K)} {b0 c0 : List K} {B : Nat → Nat} (hD : Data m n a0 B) :
    ∀ (l : List (Indep K)) (k : Nat) (st : St K), J Bl m n a0 b0 c0 B k st → k + l.length ≤ m →
      (∀ p, (hp : p < l.length) → l[p].row = k + p ∧ l[p].column = B (k + p) ∧ l[p].value = nth (row a0 (k + p)) (B (k + p))) →
      J Bl m n a0 b0 c0 B (k + l.length) (l.foldl cstep st)
  | [], k, st, hJ, _, _ => by simpa using hJ
  | iv :: l, k, st, hJ, hk, hl => by
    have h0 := hl 0 (by simp)
    simp only [List.getElem_cons_zero, Nat.add_zero] at h0
    have hJ' := J_step hD hJ (by simp only [List.length_cons] at hk; omega) iv h0.1 h0.2.1 h0.2.2
    have := J_fold hD l (k+1) (cstep st iv) hJ' (by simp only [List.length_cons] at hk; omega)
      (fun p hp => by
        have := hl (p+1) (by simpa using hp)
        simpa [Nat.add_assoc, Nat.add_comm 1 p] using this)
    simpa [Nat.add_assoc, Nat.add_comm 1 l.length] using this

end Start
end Rooc
