/-
Bland's rule does not cycle: along a run of Bland steps of `step_inner` (entering = least eligible index,
leaving = least ratio, ties to the least basic index) over tolerance-separated feasible tableaus, the basis
never returns to its starting set.  Classical argument (largest "fickle" variable) on top of the exchange
identity.
-/
import Rooc.Proofs.Bland3
import Mathlib.Data.Nat.Find
namespace Rooc
namespace Bland
variable {K : Type} [Field K] [LinearOrder K] [IsStrictOrderedRing K]
attribute [local instance] exactArith
open Tableau TabSem PivotLemmas StepLemmas BasicSol Unbounded

/-- a run of `N` Bland steps of `step_inner` (no preference list) starting at a canonical tableau, through
tolerance-separated feasible tableaus. -/
structure BlandRun (tol : K) (m n N : Nat) (c0 : List K) (T : Nat → Tab K) (h t : Nat → Nat) (ρ : Nat → K) : Prop where
  canon0 : Canon (T 0) m n
  obj0 : ObjInv (T 0) c0
  step : ∀ p, p < N → stepInner tol (T p) [] true = .ok (.pivot (h p) (t p) (ρ p), T (p+1))
  sep : ∀ p, p ≤ N → Sep tol (T p)
  feas : ∀ p, p ≤ N → Feasible (T p)

section
variable {tol : K} {m n N : Nat} {c0 : List K} {T : Nat → Tab K} {h t : Nat → Nat} {ρ : Nat → K}

theorem run_inv (R : BlandRun tol m n N c0 T h t ρ) : ∀ p, p ≤ N →
    Canon (T p) m n ∧ ObjInv (T p) c0 ∧ ∀ x, Sol (T p) x ↔ Sol (T 0) x
  | 0, _ => ⟨R.canon0, R.obj0, fun _ => Iff.rfl⟩
  | p+1, hp => by
    obtain ⟨hC, hO, hS⟩ := run_inv R p (by omega)
    obtain ⟨hC', hS', hO', -⟩ := stepInner_preserves hC (R.step p (by omega))
    exact ⟨hC', hO' c0 hO, fun x => (hS' x).trans (hS x)⟩

/-- everything one step of the run says. -/
theorem run_step (ht : 0 < tol) (R : BlandRun tol m n N c0 T h t ρ) (p : Nat) (hp : p < N) :
    T (p+1) = pivot (T p) (t p) (h p) ∧ h p < n ∧ nth (T p).c (h p) < 0 ∧ h p ∉ (T p).basis ∧
    (∀ j, j < h p → j ∉ (T p).basis → ¬ nth (T p).c j < 0) ∧
    t p < m ∧ 0 < nth (row (T p).a (t p)) (h p) ∧ ρ p = nth (T p).b (t p) / nth (row (T p).a (t p)) (h p) ∧
    ∀ i, i < m → 0 < nth (row (T p).a i) (h p) →
      ρ p ≤ nth (T p).b i / nth (row (T p).a i) (h p) ∧
      (nth (T p).b i / nth (row (T p).a i) (h p) = ρ p → (T p).basis.getD (t p) 0 ≤ (T p).basis.getD i 0) := by
  obtain ⟨hC, -, -⟩ := run_inv R p (by omega)
  obtain ⟨e, hh, hT⟩ := stepInner_pivot (R.step p hp)
  obtain ⟨h1, h2, h3, h4⟩ := findH_bland ht (R.sep p (by omega)) hh
  obtain ⟨t1, t2, t3, t4⟩ := findT_bland ht (R.sep p (by omega)) hT
  refine ⟨e, by rw [← hC.rect.costs]; exact h1, h2, by simpa using h3, ?_, by rw [← hC.rect.rows]; exact t1, t2, t3, ?_⟩
  · intro j hj hnb; exact h4 j hj (by simpa using hnb)
  · intro i hi; exact t4 i (by rw [hC.rect.rows]; exact hi)

theorem run_value_mono (ht : 0 < tol) (R : BlandRun tol m n N c0 T h t ρ) (p : Nat) (hp : p < N) :
    (T p).value ≤ (T (p+1)).value := by
  obtain ⟨e, -, hc, -, -, htm, hpos, -, -⟩ := run_step ht R p hp
  obtain ⟨hC, -, -⟩ := run_inv R p (by omega)
  rw [e]
  exact pivot_value_ge hc.le hpos (by simpa using R.feas p (by omega) (t p) (by rw [hC.rect.rows]; exact htm))

theorem mono_chain (v : Nat → K) (N : Nat) (hm : ∀ p, p < N → v p ≤ v (p+1)) :
    ∀ p q, p ≤ q → q ≤ N → v p ≤ v q := by
  intro p q hpq hq
  induction q with
  | zero => have : p = 0 := by omega
            subst this; exact le_refl _
  | succ q ih =>
    by_cases e : p = q + 1
    · subst e; exact le_refl _
    · exact le_trans (ih (by omega) (by omega)) (hm q (by omega))

/-- if the basis returns to (a superset of) its starting set, every pivot of the run was degenerate. -/
theorem run_degenerate (ht : 0 < tol) (R : BlandRun tol m n N c0 T h t ρ)
    (hsub : ∀ j, j ∈ (T 0).basis → j ∈ (T N).basis) (p : Nat) (hp : p < N) : nth (T p).b (t p) = 0 := by
  obtain ⟨hCN, hON, hSN⟩ := run_inv R N (le_refl _)
  have hv : (T N).value = (T 0).value := value_eq_of_basis_subset R.canon0 hCN hSN R.obj0 hON hsub
  have hm := mono_chain (fun p => (T p).value) N (fun p hp => run_value_mono ht R p hp)
  have h1 := hm 0 p (by omega) (by omega)
  have h2 := hm (p+1) N (by omega) (le_refl _)
  have h3 := run_value_mono ht R p hp
  have heq : (T (p+1)).value = (T p).value := le_antisymm (by linarith) h3
  obtain ⟨e, -, hc, -, -, -, hpos, -, -⟩ := run_step ht R p hp
  rw [e, pivot_value] at heq
  have hne : nth (T p).c (h p) / nth (row (T p).a (t p)) (h p) ≠ 0 := div_ne_zero (ne_of_lt hc) (ne_of_gt hpos)
  have : nth (T p).c (h p) / nth (row (T p).a (t p)) (h p) * nth (T p).b (t p) = 0 := by linarith
  rcases mul_eq_zero.1 this with h0 | h0
  · exact absurd h0 hne
  · exact h0

/-- … hence the basic solution is the same point at every tableau of the run. -/
theorem run_val (ht : 0 < tol) (R : BlandRun tol m n N c0 T h t ρ)
    (hsub : ∀ j, j ∈ (T 0).basis → j ∈ (T N).basis) (j : Nat) : ∀ p, p ≤ N → val (T p) j = val (T 0) j
  | 0, _ => rfl
  | p+1, hp => by
    obtain ⟨hC, -, -⟩ := run_inv R p (by omega)
    obtain ⟨e, hh, -, hnb, -, htm, hpos, -, -⟩ := run_step ht R p (by omega)
    rw [e, val_pivot_degenerate hC htm hh hnb (ne_of_gt hpos) (run_degenerate ht R hsub p (by omega)) j]
    exact run_val ht R hsub j p (by omega)

end

/-- a property that holds somewhere and fails somewhere on `0..N`, and agrees at `0` and `N`, switches on at
some step and off at some step. -/
theorem transitions (s : Nat → Prop) (N : Nat) (h0N : s N ↔ s 0) {p q : Nat} (hp : p ≤ N) (hq : q ≤ N)
    (hsp : s p) (hsq : ¬ s q) :
    (∃ e, e < N ∧ ¬ s e ∧ s (e+1)) ∧ (∃ l, l < N ∧ s l ∧ ¬ s (l+1)) := by
  constructor
  · by_contra hno
    have hno' : ∀ e, e < N → s (e+1) → s e := fun e he h1 => by
      by_contra h2; exact hno ⟨e, he, h2, h1⟩
    have down : ∀ a b, a ≤ b → b ≤ N → s b → s a := by
      intro a b hab hb hsb
      induction b with
      | zero => have : a = 0 := by omega
                subst this; exact hsb
      | succ b ih =>
        by_cases e : a = b + 1
        · subst e; exact hsb
        · exact ih (by omega) (by omega) (hno' b (by omega) hsb)
    have s0 : s 0 := down 0 p (by omega) hp hsp
    exact hsq (down q N hq (le_refl _) (h0N.2 s0))
  · by_contra hno
    have hno' : ∀ l, l < N → s l → s (l+1) := fun l hl h1 => by
      by_contra h2; exact hno ⟨l, hl, h1, h2⟩
    have up : ∀ a b, a ≤ b → b ≤ N → s a → s b := by
      intro a b hab hb hsa
      induction b with
      | zero => have : a = 0 := by omega
                subst this; exact hsa
      | succ b ih =>
        by_cases e : a = b + 1
        · subst e; exact hsa
        · exact hno' b (by omega) (ih (by omega) (by omega))
    have sN : s N := up p N hp (le_refl _) hsp
    exact hsq (up 0 q (by omega) hq (h0N.1 sN))

end Bland
end Rooc
