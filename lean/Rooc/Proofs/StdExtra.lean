/-
Further facts about `to_standard_form`: no row is lost, `remove_many` in closed form, the bound rows of every
variable type written out.
-/
import Rooc.Proofs.StdShape
namespace Rooc
namespace StdExtra
variable {K : Type} [Field K] [LinearOrder K] [IsStrictOrderedRing K] [FloorRing K]
open StdSem StdLayout StdSplit StdNorm StdBounds StdSpec StdMain Standardize

/-- `normalize_constraint` maps rows one to one. -/
theorem normalizeAll_length : ∀ (rows : List (LinRow (Ext K))) (total sl su : Nat)
    (srows : List (StdRow (Ext K))) (names : List String) (total' : Nat),
    normalizeAll total sl su rows = .ok (srows, names, total') → srows.length = rows.length
  | [], total, sl, su, srows, names, total', h => by
    simp only [normalizeAll, Except.ok.injEq, Prod.mk.injEq] at h
    obtain ⟨rfl, -, -⟩ := h; rfl
  | r :: rs, total, sl, su, srows, names, total', h => by
    simp only [normalizeAll] at h
    split at h
    · cases hrec : normalizeAll total sl su rs with
      | error e => simp [hrec] at h
      | ok res =>
        obtain ⟨rows', names', t'⟩ := res
        simp only [hrec, Except.ok.injEq, Prod.mk.injEq] at h
        obtain ⟨rfl, -, -⟩ := h
        simp [normalizeAll_length rs _ _ _ _ _ _ hrec]
    · cases hrec : normalizeAll (total+1) (sl+1) su rs with
      | error e => simp [hrec] at h
      | ok res =>
        obtain ⟨rows', names', t'⟩ := res
        simp only [hrec, Except.ok.injEq, Prod.mk.injEq] at h
        obtain ⟨rfl, -, -⟩ := h
        simp [normalizeAll_length rs _ _ _ _ _ _ hrec]
    · cases hrec : normalizeAll (total+1) sl (su+1) rs with
      | error e => simp [hrec] at h
      | ok res =>
        obtain ⟨rows', names', t'⟩ := res
        simp only [hrec, Except.ok.injEq, Prod.mk.injEq] at h
        obtain ⟨rfl, -, -⟩ := h
        simp [normalizeAll_length rs _ _ _ _ _ _ hrec]
    · cases h

/-- **no row is lost**: the standard form has one row per row of the model plus one per bound row
(`StandardLinearModel::new` and `normalize_constraint` keep every row, whatever its coefficients). -/
theorem rows_count (lm : LinModel (Ext K)) (hW : WF lm) {sm : StdModel (Ext K)} (hs : standardize lm = .ok sm) :
    sm.rows.length = lm.rows.length + (boundsOf lm.vars.length 0 (tys lm)).length := by
  obtain ⟨sm', srows, names, total, hstd, hnorm, -, hr, -, -, -⟩ := standardize_spec lm hW
  rw [hs] at hstd; cases hstd
  rw [hr, List.length_map, normalizeAll_length _ _ _ _ _ _ _ hnorm]
  simp [splitRows]

/-- **`remove_many` in closed form**: exactly the elements whose POSITION is not listed survive, in order. -/
theorem removeManyFrom_spec {β : Type} (idx : List Nat) : ∀ (l : List β) (k : Nat),
    removeManyFrom idx k l = ((l.zipIdx k).filter (fun p => !(idx.contains p.2))).map (·.1)
  | [], _ => by simp [removeManyFrom]
  | x :: xs, k => by
    simp only [removeManyFrom, List.zipIdx_cons, List.filter_cons]
    rw [removeManyFrom_spec idx xs (k+1)]
    by_cases h : idx.contains k = true
    · simp only [h, if_true, Bool.not_true, Bool.false_eq_true, if_false]
    · have h' : idx.contains k = false := by simpa using h
      simp only [h', Bool.false_eq_true, if_false, Bool.not_false, if_true, List.map_cons]

theorem removeMany_spec {β : Type} (l : List β) (idx : List Nat) :
    removeMany l idx = (l.zipIdx.filter (fun p => !(idx.contains p.2))).map (·.1) :=
  removeManyFrom_spec idx l 0

/-! ### the bound rows, type by type -/

theorem boundRows_real_lower (n i : Nat) (l : K) (hi : Ext K) :
    ({ name := "", coeffs := unitRow n i, cmp := .ge, rhs := .fin l } : LinRow (Ext K)) ∈ boundRows n i (.real (.fin l) hi) := by
  cases hi <;> simp [boundRows, Arith.eq, Arith.ne, Ext.eq, Arith.negInf, Arith.posInf]

theorem boundRows_real_upper (n i : Nat) (lo : Ext K) (u : K) :
    ({ name := "", coeffs := unitRow n i, cmp := .le, rhs := .fin u } : LinRow (Ext K)) ∈ boundRows n i (.real lo (.fin u)) := by
  cases lo <;> simp [boundRows, Arith.eq, Arith.ne, Ext.eq, Arith.negInf, Arith.posInf]

theorem boundRows_nnreal_lower (n i : Nat) (l : K) (hl : l ≠ 0) (hi : Ext K) :
    ({ name := "", coeffs := unitRow n i, cmp := .ge, rhs := .fin l } : LinRow (Ext K)) ∈ boundRows n i (.nnreal (.fin l) hi) := by
  cases hi <;> simp [boundRows, Arith.eq, Arith.ne, Ext.eq, Arith.zero, Arith.ofInt, Arith.posInf, hl]

theorem boundRows_nnreal_upper (n i : Nat) (lo : Ext K) (u : K) :
    ({ name := "", coeffs := unitRow n i, cmp := .le, rhs := .fin u } : LinRow (Ext K)) ∈ boundRows n i (.nnreal lo (.fin u)) := by
  cases lo <;> simp [boundRows, Arith.eq, Arith.ne, Ext.eq, Arith.zero, Arith.ofInt, Arith.posInf]

theorem boundRows_free (n i : Nat) : boundRows n i (VarType.real (Ext.ninf : Ext K) Ext.pinf) = [] := by
  simp [boundRows, Arith.eq, Ext.eq, Arith.negInf, Arith.posInf]

theorem boundRows_nonneg (n i : Nat) : boundRows n i (VarType.nnreal (Ext.fin (0:K)) Ext.pinf) = [] := by
  simp [boundRows, Arith.eq, Ext.eq, Arith.zero, Arith.ofInt, Arith.posInf]

end StdExtra
end Rooc
