/-
C08 helpers — from `Lin.linearizeWith` to the WHOLE compiler `Compile.linearize`
(normalise for bounds → `BoundsAnalyzer::analyze` → `enforceable` → `apply_to_domain` → work-list lowering):
`apply_to_domain` only rewrites variable TYPES, so the input hypotheses of the C08 theorems
(`DomainNodup`, `UsedKept`, `DeclaredIn`) on the tightened domain follow from ONE hypothesis on the source:
its declared names are pairwise distinct.
-/
import Rooc.Compile
import Rooc.Proofs.WFFinal

set_option linter.unusedSectionVars false

namespace Rooc
namespace Lin
variable {α : Type} [Arith α]

theorem applyToVar_name' (an : Analyzer α) (d : DomVar α) : (an.applyToVar d).name = d.name := by
  unfold Analyzer.applyToVar
  split
  · rfl
  · split
    · rfl
    · dsimp only; split <;> rfl
    · rfl
    · rfl

theorem applyToVar_usage' (an : Analyzer α) (d : DomVar α) : (an.applyToVar d).usage = d.usage := by
  unfold Analyzer.applyToVar
  split
  · rfl
  · split
    · rfl
    · dsimp only; split <;> rfl
    · rfl
    · rfl

theorem applyToDomain_names (an : Analyzer α) (dom : List (DomVar α)) :
    (an.applyToDomain dom).map (·.name) = dom.map (·.name) := by
  simp only [Analyzer.applyToDomain, List.map_map]
  exact List.map_congr_left (fun d _ => applyToVar_name' an d)

/-- a successful run of the whole compiler is a successful run of the lowering on the analyzer's output. -/
theorem compile_ok_linearizeWith {m : Model α} {tol : α} {maxSteps : Nat} {lm : LinModel α}
    (h : Compile.linearize m tol maxSteps = .ok lm) :
    ∃ an : Analyzer α,
      linearizeWith m (Compile.toLinBounds an.variableBounds) (an.applyToDomain m.domain) = .ok lm := by
  unfold Compile.linearize at h
  split at h
  · cases h
  · split at h
    · cases h
    · exact ⟨_, h⟩

/-- an error of the whole compiler comes from the up-front collapse check on the scratch context (rooc e35561f),
from the flatten fuel of the model, or from the lowering on the analyzer's output. -/
theorem compile_error_linearizeWith {m : Model α} {tol : α} {maxSteps : Nat} {err : LinErr}
    (h : Compile.linearize m tol maxSteps = .error err) :
    collapseCheckAll m (Compile.scratchState m tol maxSteps) = .error err ∨
    err = .fuel ∨ ∃ an : Analyzer α,
      linearizeWith m (Compile.toLinBounds an.variableBounds) (an.applyToDomain m.domain) = .error err := by
  unfold Compile.linearize at h
  split at h
  · rename_i e hchk
    injection h with h
    subst h
    exact Or.inl hchk
  · split at h
    · injection h with h; exact Or.inr (Or.inl h.symm)
    · exact Or.inr (Or.inr ⟨_, h⟩)

/-- the source declares pairwise distinct names (its domain is an `IndexMap`). -/
def SourceNodup (m : Model α) : Bool := DomainNodup m.domain

theorem domainNodup_apply (an : Analyzer α) {m : Model α} (h : SourceNodup m = true) :
    DomainNodup (an.applyToDomain m.domain) = true := by
  unfold SourceNodup DomainNodup at *
  rw [applyToDomain_names]; exact h

theorem usedKept_apply (an : Analyzer α) (m : Model α) : UsedKept m (an.applyToDomain m.domain) = true := by
  simp only [UsedKept, List.all_eq_true, List.any_eq_true, Bool.and_eq_true, beq_iff_eq, decide_eq_true_eq]
  intro v hv
  have hv' := List.mem_filter.mp hv
  refine ⟨an.applyToVar v, ?_, applyToVar_name' an v, ?_⟩
  · simp only [Analyzer.applyToDomain]; exact List.mem_map.mpr ⟨v, hv'.1, rfl⟩
  · rw [applyToVar_usage']; simpa using hv'.2

theorem declaredIn_apply (an : Analyzer α) (m : Model α) : DeclaredIn m (an.applyToDomain m.domain) = true := by
  simp only [DeclaredIn, List.all_eq_true, List.contains_iff_mem]
  intro v hv
  simp only [Analyzer.applyToDomain, List.mem_map] at hv
  obtain ⟨d, hd, rfl⟩ := hv
  rw [applyToVar_name']
  exact List.mem_map.mpr ⟨d, hd, rfl⟩

end Lin
end Rooc
