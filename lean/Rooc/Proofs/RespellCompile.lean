/-
C10 — the model-level respelling theorem: two models with the same declarations whose objective and constraint
sides have pairwise equal normal forms, and on which the up-front collapse check has the same outcome, compile to
the SAME result under `Compile.linearize` (the same linear model, or the same error).
-/
import Rooc.Proofs.RespellRelLin
import Rooc.Proofs.ExpLemmasCompile
namespace Rooc
namespace Compile
open Rooc.Lin
set_option linter.unusedSectionVars false
variable {α : Type} [Arith α]

/-- twins: same kind of objective, same declarations, objective and constraint sides with equal normal forms. -/
structure Twins (m m' : Model α) : Prop where
  optType : m'.optType = m.optType
  domain : m'.domain = m.domain
  objective : normalizeExp m'.objective = normalizeExp m.objective
  constraints : List.Forall₂ SameNorm m.constraints m'.constraints

theorem CR_of_SameNorm {c c' : Constraint α} (h : SameNorm c c') : LinQ.CR c c' := by
  refine ⟨h.name, h.cmp, h.isAssert, h.lhs, ?_⟩
  have := h.rhs
  by_cases ha : c.isAssert = true
  · rw [if_pos ha] at this; rw [this]
  · rw [if_neg ha] at this; exact this

/-- the outcome of the up-front collapse check (its scratch state is dropped). -/
def checkOutcome (m : Model α) (tol : α) (maxSteps : Nat) : Except LinErr Unit :=
  match collapseCheckAll m (scratchState m tol maxSteps) with
  | .ok _ => .ok ()
  | .error e => .error e

theorem coreProg_twins {m m' : Model α} (h : Twins m m') : coreProg m' = coreProg m := by
  unfold coreProg
  rw [LinQ.simplifyFlat_congr h.objective, h.optType]

/-- the lowering after bound inference is the same for twins. -/
theorem linearizeWith_twins {m m' : Model α} (h : Twins m m') (b : BoundsMap α) (d : List (DomVar α)) :
    linearizeWith m' b d = linearizeWith m b d := by
  have hS : LinQ.S (initSt m b d) (initSt m' b d) :=
    ⟨List.Forall₂.imp (fun _ _ h => CR_of_SameNorm h) h.constraints,
      rfl, rfl, rfl, rfl, rfl, rfl, rfl, rfl, rfl, rfl, rfl, rfl⟩
  have hrel := LinQ.coreProg2 m _ _ hS
  rw [linearizeWith_eq_core, linearizeWith_eq_core, coreProg_twins h]
  unfold LinQ.RunRel at hrel
  cases h1 : coreProg m (initSt m b d) with
  | error e =>
    cases h2 : coreProg m (initSt m' b d) with
    | error e' => rw [h1, h2] at hrel; simp only [hrel]
    | ok q => rw [h1, h2] at hrel; exact hrel.elim
  | ok q =>
    obtain ⟨obj, t⟩ := q
    cases h2 : coreProg m (initSt m' b d) with
    | error e' => rw [h1, h2] at hrel; exact hrel.elim
    | ok q' =>
      obtain ⟨obj', t'⟩ := q'
      rw [h1, h2] at hrel
      obtain ⟨rfl, hS'⟩ := hrel
      simp only [assemble, h.optType, hS'.rows, hS'.dom]

/-- **Model-level respelling**: twins on which the collapse check has the same outcome compile to the same
result — `Ok` with the same linear model, or the same error. -/
theorem linearize_twins {m m' : Model α} (h : Twins m m') (tol : α) (maxSteps : Nat)
    (hchk : checkOutcome m' tol maxSteps = checkOutcome m tol maxSteps) :
    Compile.linearize m' tol maxSteps = Compile.linearize m tol maxSteps := by
  unfold Compile.linearize
  unfold checkOutcome at hchk
  have hnb := (bounds_stage_respell m m' tol maxSteps h.domain h.constraints).1
  cases h1 : collapseCheckAll m (scratchState m tol maxSteps) with
  | error e =>
    cases h2 : collapseCheckAll m' (scratchState m' tol maxSteps) with
    | error e' => rw [h1, h2] at hchk; simp only at hchk ⊢; injection hchk with hchk; rw [hchk]
    | ok q => rw [h1, h2] at hchk; cases hchk
  | ok q =>
    cases h2 : collapseCheckAll m' (scratchState m' tol maxSteps) with
    | error e' => rw [h1, h2] at hchk; cases hchk
    | ok q' =>
      simp only
      rw [hnb]
      cases normalizedForBounds m.constraints with
      | none => rfl
      | some cs =>
        simp only [h.domain]
        exact linearizeWith_twins h _ _

end Compile
end Rooc
