/-
Helper lemmas for C07: the `Arith (Ext K)` operations over a Mathlib ordered field seen through
"is a lower bound of" / "is an upper bound of", interval arithmetic enclosure, reverse rules.
-/
import Rooc.BoundsSem
import Rooc.Proofs.Field
set_option linter.unusedTactic false
set_option linter.unreachableTactic false
set_option linter.unnecessarySeqFocus false
set_option linter.unusedSimpArgs false
namespace Rooc
namespace BoundsProofs
open BoundsSem Arith

variable {K : Type} [Field K] [LinearOrder K] [IsStrictOrderedRing K] [FloorRing K]

/-- `a ≤ x` for an extended endpoint `a` (false for NaN). -/
def LB (a : Ext K) (x : K) : Prop := Ext.le a (.fin x) = true
/-- `x ≤ b` for an extended endpoint `b` (false for NaN). -/
def UB (b : Ext K) (x : K) : Prop := Ext.le (.fin x) b = true

theorem mem_iff (x : K) (b : Bounds (Ext K)) : Mem x b ↔ LB b.lower x ∧ UB b.upper x := Iff.rfl

@[simp] theorem LB_nan (x : K) : ¬ LB (.nan : Ext K) x := by simp [LB, Ext.le]
@[simp] theorem LB_ninf (x : K) : LB (.ninf : Ext K) x := by simp [LB, Ext.le]
@[simp] theorem LB_pinf (x : K) : ¬ LB (.pinf : Ext K) x := by simp [LB, Ext.le]
@[simp] theorem LB_fin (a x : K) : LB (.fin a : Ext K) x ↔ a ≤ x := by simp [LB, Ext.le]
@[simp] theorem UB_nan (x : K) : ¬ UB (.nan : Ext K) x := by simp [UB, Ext.le]
@[simp] theorem UB_ninf (x : K) : ¬ UB (.ninf : Ext K) x := by simp [UB, Ext.le]
@[simp] theorem UB_pinf (x : K) : UB (.pinf : Ext K) x := by simp [UB, Ext.le]
@[simp] theorem UB_fin (a x : K) : UB (.fin a : Ext K) x ↔ x ≤ a := by simp [UB, Ext.le]

/-! ### the instance, unfolded -/
@[simp] theorem a_zero : (Arith.zero : Ext K) = .fin 0 := by simp [Arith.zero, Arith.ofInt]
@[simp] theorem a_one : (Arith.one : Ext K) = .fin 1 := by simp [Arith.one, Arith.ofInt]
@[simp] theorem a_ofInt (i : Int) : (Arith.ofInt i : Ext K) = .fin (i : K) := by simp [Arith.ofInt]
@[simp] theorem a_posInf : (Arith.posInf : Ext K) = .pinf := rfl
@[simp] theorem a_negInf : (Arith.negInf : Ext K) = .ninf := rfl
@[simp] theorem a_add (a b : Ext K) : Arith.add a b = Ext.add a b := rfl
@[simp] theorem a_sub (a b : Ext K) : Arith.sub a b = Ext.sub a b := rfl
@[simp] theorem a_mul (a b : Ext K) : Arith.mul a b = Ext.mul a b := rfl
@[simp] theorem a_div (a b : Ext K) : Arith.div a b = Ext.div a b := rfl
@[simp] theorem a_neg (a : Ext K) : Arith.neg a = Ext.neg a := rfl
@[simp] theorem a_fmax (a b : Ext K) : Arith.fmax a b = Ext.fmax a b := rfl
@[simp] theorem a_fmin (a b : Ext K) : Arith.fmin a b = Ext.fmin a b := rfl
@[simp] theorem a_lt (a b : Ext K) : Arith.lt a b = Ext.lt a b := rfl
@[simp] theorem a_le (a b : Ext K) : Arith.le a b = Ext.le a b := rfl
@[simp] theorem a_gt (a b : Ext K) : Arith.gt a b = Ext.lt b a := rfl
@[simp] theorem a_ge (a b : Ext K) : Arith.ge a b = Ext.le b a := rfl
@[simp] theorem a_eq (a b : Ext K) : Arith.eq a b = Ext.eq a b := rfl
@[simp] theorem a_ne (a b : Ext K) : Arith.ne a b = !(Ext.eq a b) := rfl
@[simp] theorem a_isNaN (a : Ext K) : Arith.isNaN a = Ext.isNaN a := rfl
@[simp] theorem a_isFinite (a : Ext K) : Arith.isFinite a = Ext.isFinite a := rfl

/-! ### sums -/
theorem LB_lowerSum {a b : Ext K} {x y : K} (hx : LB a x) (hy : LB b y) :
    LB (Bounds.lowerSum a b) (x + y) := by
  cases a <;> cases b <;> simp_all [Bounds.lowerSum, Ext.add, Ext.isNaN] <;> linarith

theorem UB_upperSum {a b : Ext K} {x y : K} (hx : UB a x) (hy : UB b y) :
    UB (Bounds.upperSum a b) (x + y) := by
  cases a <;> cases b <;> simp_all [Bounds.upperSum, Ext.add, Ext.isNaN] <;> linarith

theorem UB_neg {a : Ext K} {x : K} (h : LB a x) : UB (Ext.neg a) (-x) := by
  cases a <;> simp_all [Ext.neg]
theorem LB_neg {a : Ext K} {x : K} (h : UB a x) : LB (Ext.neg a) (-x) := by
  cases a <;> simp_all [Ext.neg]


/-! ### products with a finite coefficient -/
theorem sgn_pos {c : K} (h : 0 < c) : Ext.sgn c = 1 := by
  simp [Ext.sgn, h, not_lt.2 (le_of_lt h)]
theorem sgn_neg {c : K} (h : c < 0) : Ext.sgn c = -1 := by
  simp [Ext.sgn, h]

theorem LB_mul_pos {a : Ext K} {x c : K} (hc : 0 < c) (h : LB a x) : LB (Ext.mul a (.fin c)) (x * c) := by
  cases a <;> simp_all [Ext.mul, Ext.sign, Ext.ofSign, sgn_pos hc]
theorem UB_mul_pos {a : Ext K} {x c : K} (hc : 0 < c) (h : UB a x) : UB (Ext.mul a (.fin c)) (x * c) := by
  cases a <;> simp_all [Ext.mul, Ext.sign, Ext.ofSign, sgn_pos hc]
theorem UB_mul_neg {a : Ext K} {x c : K} (hc : c < 0) (h : LB a x) : UB (Ext.mul a (.fin c)) (x * c) := by
  cases a <;> simp_all [Ext.mul, Ext.sign, Ext.ofSign, sgn_neg hc]
theorem LB_mul_neg {a : Ext K} {x c : K} (hc : c < 0) (h : UB a x) : LB (Ext.mul a (.fin c)) (x * c) := by
  cases a <;> simp_all [Ext.mul, Ext.sign, Ext.ofSign, sgn_neg hc]

/-! ### intervals -/
theorem mem_unbounded (x : K) : Mem x (Bounds.unbounded : Bounds (Ext K)) := by
  simp [mem_iff, Bounds.unbounded]
theorem mem_singleton (x : K) : Mem x (Bounds.singleton (.fin x) : Bounds (Ext K)) := by
  simp [mem_iff, Bounds.singleton]
theorem mem_add {x y : K} {a b : Bounds (Ext K)} (hx : Mem x a) (hy : Mem y b) : Mem (x + y) (a.add b) :=
  ⟨LB_lowerSum hx.1 hy.1, UB_upperSum hx.2 hy.2⟩
theorem mem_neg {x : K} {a : Bounds (Ext K)} (hx : Mem x a) : Mem (-x) a.neg :=
  ⟨LB_neg hx.2, UB_neg hx.1⟩
theorem mem_sub {x y : K} {a b : Bounds (Ext K)} (hx : Mem x a) (hy : Mem y b) : Mem (x - y) (a.sub b) := by
  rw [sub_eq_add_neg]; exact mem_add hx (mem_neg hy)

theorem mem_scale {x : K} {a : Bounds (Ext K)} (c : K) (hx : Mem x a) : Mem (x * c) (a.scale (.fin c)) := by
  rcases lt_trichotomy c 0 with hc | hc | hc
  · have h0 : ¬ (0 < c) := not_lt.2 (le_of_lt hc)
    simp only [Bounds.scale, a_eq, a_zero, Ext.eq, ef_eq, ne_of_lt hc, decide_false, a_gt, Ext.lt, ef_lt, h0,
      a_mul, mem_iff, Bool.false_eq_true, if_false]
    exact ⟨LB_mul_neg hc hx.2, UB_mul_neg hc hx.1⟩
  · subst hc; simp [Bounds.scale, Ext.eq, mem_iff, Bounds.singleton]
  · simp only [Bounds.scale, a_eq, a_zero, Ext.eq, ef_eq, ne_of_gt hc, decide_false, a_gt, Ext.lt, ef_lt, hc,
      a_mul, mem_iff, Bool.false_eq_true, if_false, decide_true, if_true]
    exact ⟨LB_mul_pos hc hx.1, UB_mul_pos hc hx.2⟩

theorem LB_div_pos {a : Ext K} {x d : K} (hd : 0 < d) (h : LB a x) : LB (Ext.div a (.fin d)) (x / d) := by
  have hd' : d ≠ 0 := ne_of_gt hd
  cases a <;> simp_all [Ext.div, Ext.sign, Ext.ofSign, sgn_pos hd]
  exact div_le_div_of_nonneg_right h (le_of_lt hd)
theorem UB_div_pos {a : Ext K} {x d : K} (hd : 0 < d) (h : UB a x) : UB (Ext.div a (.fin d)) (x / d) := by
  have hd' : d ≠ 0 := ne_of_gt hd
  cases a <;> simp_all [Ext.div, Ext.sign, Ext.ofSign, sgn_pos hd]
  exact div_le_div_of_nonneg_right h (le_of_lt hd)
theorem UB_div_neg {a : Ext K} {x d : K} (hd : d < 0) (h : LB a x) : UB (Ext.div a (.fin d)) (x / d) := by
  have hd' : d ≠ 0 := ne_of_lt hd
  cases a <;> simp_all [Ext.div, Ext.sign, Ext.ofSign, sgn_neg hd]
  exact div_le_div_of_nonpos_of_le (le_of_lt hd) h
theorem LB_div_neg {a : Ext K} {x d : K} (hd : d < 0) (h : UB a x) : LB (Ext.div a (.fin d)) (x / d) := by
  have hd' : d ≠ 0 := ne_of_lt hd
  cases a <;> simp_all [Ext.div, Ext.sign, Ext.ofSign, sgn_neg hd]
  exact div_le_div_of_nonpos_of_le (le_of_lt hd) h

theorem mem_divBy {x : K} {a : Bounds (Ext K)} (d : K) (hx : Mem x a) (hd : d ≠ 0) :
    Mem (x / d) (a.divBy (.fin d)) := by
  rcases lt_or_gt_of_ne hd with hc | hc
  · have h0 : ¬ (0 < d) := not_lt.2 (le_of_lt hc)
    simp only [Bounds.divBy, a_eq, a_zero, Ext.eq, ef_eq, hd, decide_false, a_gt, Ext.lt, ef_lt, h0,
      a_div, mem_iff, Bool.false_eq_true, if_false]
    exact ⟨LB_div_neg hc hx.2, UB_div_neg hc hx.1⟩
  · simp only [Bounds.divBy, a_eq, a_zero, Ext.eq, ef_eq, hd, decide_false, a_gt, Ext.lt, ef_lt, hc,
      a_div, mem_iff, Bool.false_eq_true, if_false, decide_true, if_true]
    exact ⟨LB_div_pos hc hx.1, UB_div_pos hc hx.2⟩

theorem mem_divBy_zero {x : K} {a : Bounds (Ext K)} : Mem x (a.divBy (.fin (0 : K))) := by
  simp [Bounds.divBy, Ext.eq, mem_unbounded]


/-! ### max / min of endpoints -/
theorem LB_fmax {a b : Ext K} {x : K} (ha : LB a x) (hb : LB b x) : LB (Ext.fmax a b) x := by
  cases a <;> cases b <;> simp_all [Ext.fmax, Ext.isNaN, Ext.lt] <;> split <;> simp_all
theorem UB_fmin {a b : Ext K} {x : K} (ha : UB a x) (hb : UB b x) : UB (Ext.fmin a b) x := by
  cases a <;> cases b <;> simp_all [Ext.fmin, Ext.isNaN, Ext.lt] <;> split <;> simp_all
theorem LB_fmax_max {a b : Ext K} {x y : K} (ha : LB a x) (hb : LB b y) : LB (Ext.fmax a b) (max x y) := by
  cases a <;> cases b <;> simp_all [Ext.fmax, Ext.isNaN, Ext.lt] <;> split <;> simp_all <;> (first | done | linarith | (constructor <;> linarith) | (left; linarith) | (right; linarith))
theorem UB_fmax_max {a b : Ext K} {x y : K} (ha : UB a x) (hb : UB b y) : UB (Ext.fmax a b) (max x y) := by
  cases a <;> cases b <;> simp_all [Ext.fmax, Ext.isNaN, Ext.lt] <;> split <;> simp_all <;> (first | done | linarith | (constructor <;> linarith) | (left; linarith) | (right; linarith))
theorem LB_fmin_min {a b : Ext K} {x y : K} (ha : LB a x) (hb : LB b y) : LB (Ext.fmin a b) (min x y) := by
  cases a <;> cases b <;> simp_all [Ext.fmin, Ext.isNaN, Ext.lt] <;> split <;> simp_all <;> (first | done | linarith | (constructor <;> linarith) | (left; linarith) | (right; linarith))
theorem UB_fmin_min {a b : Ext K} {x y : K} (ha : UB a x) (hb : UB b y) : UB (Ext.fmin a b) (min x y) := by
  cases a <;> cases b <;> simp_all [Ext.fmin, Ext.isNaN, Ext.lt] <;> split <;> simp_all <;> (first | done | linarith | (constructor <;> linarith) | (left; linarith) | (right; linarith))

theorem le_of_LB_UB {a b : Ext K} {x : K} (ha : LB a x) (hb : UB b x) : Ext.le a b = true := by
  cases a <;> cases b <;> simp_all [Ext.le]
  exact le_trans ha hb


/-! ### `intersection` -/
theorem mem_intersection {a b r : Bounds (Ext K)} {tol : Ext K} {x : K}
    (h : a.intersection b tol = some r) (ha : Mem x a) (hb : Mem x b) : Mem x r := by
  simp only [Bounds.intersection, a_fmax, a_fmin, a_le, a_sub] at h
  split at h
  · cases h; exact ⟨LB_fmax ha.1 hb.1, UB_fmin ha.2 hb.2⟩
  · split at h
    · cases h; exact ha
    · cases h

theorem intersection_isSome {a b : Bounds (Ext K)} (tol : Ext K) {x : K} (ha : Mem x a) (hb : Mem x b) :
    ∃ r, a.intersection b tol = some r := by
  have : Ext.le (Ext.fmax a.lower b.lower) (Ext.fmin a.upper b.upper) = true :=
    le_of_LB_UB (LB_fmax ha.1 hb.1) (UB_fmin ha.2 hb.2)
  simp [Bounds.intersection, this]

/-! ### `abs`, `min`, `max` forward -/
theorem kabs_eq (x : K) : Sem.kabs x = |x| := by
  simp only [Sem.kabs, Sem.kzero, ef_lt, ef_ofInt, Int.cast_zero, ef_neg, decide_eq_true_eq]
  split
  · rw [abs_of_neg (by assumption)]
  · rw [abs_of_nonneg (le_of_not_gt (by assumption))]
theorem kmax_eq (x y : K) : Sem.kmax x y = max x y := by
  simp only [Sem.kmax, ef_lt, decide_eq_true_eq]
  split
  · rw [max_eq_right (le_of_lt (by assumption))]
  · rw [max_eq_left (le_of_not_gt (by assumption))]
theorem kmin_eq (x y : K) : Sem.kmin x y = min x y := by
  simp only [Sem.kmin, ef_lt, decide_eq_true_eq]
  split
  · rw [min_eq_right (le_of_lt (by assumption))]
  · rw [min_eq_left (le_of_not_gt (by assumption))]

theorem mem_abs {x : K} {a : Bounds (Ext K)} (hx : Mem x a) : Mem |x| a.abs := by
  obtain ⟨lo, hi⟩ := a
  obtain ⟨h1, h2⟩ := hx
  simp only [Bounds.abs, a_ge, a_le, a_zero, a_neg, a_fmax]
  split
  · rename_i h
    have : 0 ≤ x := by cases lo <;> simp_all [Ext.le] <;> linarith
    rw [abs_of_nonneg this]; exact ⟨h1, h2⟩
  · split
    · rename_i h
      have : x ≤ 0 := by cases hi <;> simp_all [Ext.le] <;> linarith
      rw [abs_of_nonpos this]; exact mem_neg ⟨h1, h2⟩
    · refine ⟨(LB_fin 0 |x|).2 (abs_nonneg x), ?_⟩
      have := UB_fmax_max (UB_neg h1) h2
      rwa [max_comm, ← abs_eq_max_neg] at this

theorem mem_minStep {x y : K} {a b : Bounds (Ext K)} (hx : Mem x a) (hy : Mem y b) :
    Mem (min x y) (Bounds.minStep a b) :=
  ⟨LB_fmin_min hx.1 hy.1, UB_fmin_min hx.2 hy.2⟩
theorem mem_maxStep {x y : K} {a b : Bounds (Ext K)} (hx : Mem x a) (hy : Mem y b) :
    Mem (max x y) (Bounds.maxStep a b) :=
  ⟨LB_fmax_max hx.1 hy.1, UB_fmax_max hx.2 hy.2⟩

theorem mem_zeroOne_ofBool (b : Bool) : Mem (Sem.ofBool b : K) (Bounds.zeroOne : Bounds (Ext K)) := by
  cases b <;> simp [Sem.ofBool, Sem.kone, Sem.kzero, Bounds.zeroOne, mem_iff]

end BoundsProofs
end Rooc
