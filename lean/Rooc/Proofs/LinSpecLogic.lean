/-
Stage D (values): logic connectives used as VALUES inside expressions — `not` as the affine value `1 - e`,
and/or/implies/iff/xor reified by a fresh Boolean auxiliary.  Operands must linearize to "binary contexts"
(a 0/1 constant, a Boolean variable, or one minus a Boolean variable), which makes them 0/1-valued.
-/
import Rooc.Proofs.LinSpecMin

set_option linter.unusedSectionVars false
set_option linter.unusedSimpArgs false
set_option linter.unusedVariables false

namespace Rooc.LinP
open Rooc Rooc.Lin Rooc.Sem Rooc.Exp
open Rooc.Lin.Gadget (B01)

variable {K : Type} [Field K] [LinearOrder K] [IsStrictOrderedRing K] [FloorRing K]
variable {Src : Constraint (Ext K) → Prop}

/-! ### binary contexts -/

theorem isBinaryCtx_sem {c : Ctx (Ext K)} {d : List (DomVar (Ext K))} (h : isBinaryCtx c d = true) :
    CtxOK c ∧ ∀ ρ : String → K, (∀ n ∈ ctxNames c, isBoolVar d n = true → B01 (ρ n)) → B01 (ctxVal ρ c) := by
  unfold isBinaryCtx at h
  obtain ⟨vars, rhs⟩ := c
  cases vars with
  | nil =>
    simp only [Bool.or_eq_true] at h
    rcases h with h | h
    · have := (ar_eq_zero_iff rhs).mp h
      subst this
      exact ⟨⟨by simp, ⟨0, rfl⟩, by simp⟩, fun ρ _ => by simp [ctxVal, B01]⟩
    · rw [ar_one] at h
      have := (ar_eq_fin_iff rhs 1).mp h
      subst this
      exact ⟨⟨by simp, ⟨1, rfl⟩, by simp⟩, fun ρ _ => by simp [ctxVal, B01]⟩
  | cons p rest =>
    cases rest with
    | cons _ _ => simp at h
    | nil =>
      obtain ⟨n, k⟩ := p
      simp only [Bool.and_eq_true, Bool.or_eq_true] at h
      obtain ⟨hb, hcase⟩ := h
      rcases hcase with ⟨hk, hr⟩ | ⟨hk, hr⟩
      · rw [ar_one] at hk
        have hk' := (ar_eq_fin_iff k 1).mp hk
        have hr' := (ar_eq_zero_iff rhs).mp hr
        subst hk' hr'
        refine ⟨⟨by simp [TermsFin], ⟨0, rfl⟩, by simp⟩, fun ρ hB => ?_⟩
        simp only [ctxVal, termsVal_cons, termsVal_nil, xval_fin]
        have := hB n (by simp [ctxNames]) hb
        simpa using this
      · rw [ar_ofInt] at hk
        rw [ar_one] at hr
        have hk' := (ar_eq_fin_iff k _).mp hk
        have hr' := (ar_eq_fin_iff rhs 1).mp hr
        subst hk' hr'
        refine ⟨⟨by simp [TermsFin], ⟨1, rfl⟩, by simp⟩, fun ρ hB => ?_⟩
        simp only [ctxVal, termsVal_cons, termsVal_nil, xval_fin]
        have := (hB n (by simp [ctxNames]) hb).compl
        simp only [Int.reduceNeg, Int.cast_neg, Int.cast_one]
        have e : -1 * ρ n + 0 + 1 = 1 - ρ n := by ring
        rw [e]; exact this

theorem isBoolVar_append {d d' : List (DomVar (Ext K))} {n : String} (h : isBoolVar d n = true) :
    isBoolVar (d ++ d') n = true := by
  unfold isBoolVar domainType at *
  rw [List.find?_append]
  cases hf : d.find? (fun x => x.name == n) with
  | none => simp [hf] at h
  | some dv => simpa [hf] using h

theorem isBinaryCtx_append {c : Ctx (Ext K)} {d d' : List (DomVar (Ext K))} (h : isBinaryCtx c d = true) :
    isBinaryCtx c (d ++ d') = true := by
  unfold isBinaryCtx at *
  obtain ⟨vars, rhs⟩ := c
  cases vars with
  | nil => exact h
  | cons p rest =>
    cases rest with
    | cons _ _ => simp at h
    | nil =>
      simp only [Bool.and_eq_true] at h ⊢
      exact ⟨isBoolVar_append h.1, h.2⟩

/-- a binary context over declared, used variables is 0/1-valued at every assignment satisfying the domains. -/
theorem binaryCtx_B01 {c : Ctx (Ext K)} {d : List (DomVar (Ext K))} (hnd : (d.map (·.name)).Nodup)
    (hbin : isBinaryCtx c d = true) (hnames : ∀ x ∈ ctxNames c, inScope d x) {ρ : String → K} (hd : DomSat ρ d) :
    B01 (ctxVal ρ c) :=
  (isBinaryCtx_sem hbin).2 ρ (fun n hn hb => boolOK_of_domSat hnd hd n (hnames n hn) hb)

/-! ### semantics of the connectives on 0/1 values -/

theorem truthy_iff (x : K) : truthy x = true ↔ x ≠ 0 := by simp [truthy]
theorem ofBool_true : (ofBool true : K) = 1 := by simp [ofBool]
theorem ofBool_false : (ofBool false : K) = 0 := by simp [ofBool]
theorem truthy_B01 {x : K} (h : B01 x) : truthy x = true ↔ x = 1 := by
  rcases h with rfl | rfl <;> simp [truthy]

theorem eval_not_some {ρ : String → K} {e : Exp (Ext K)} {v : K} (h : eval ρ (.not e) = some v) :
    ∃ w, eval ρ e = some w ∧ v = ofBool (!truthy w) := by
  rw [eval] at h
  cases he : eval ρ e with
  | none => simp [he] at h
  | some w => exact ⟨w, rfl, by simpa [he, eq_comm] using h⟩

theorem DefinedE.not {e : Exp (Ext K)} (h : DefinedE (.not e)) : DefinedE e := by
  intro ρ; obtain ⟨v, hv⟩ := h ρ; obtain ⟨w, hw, _⟩ := eval_not_some hv; exact ⟨w, hw⟩

/-! ### `not e = 1 - e` -/

theorem spec_not {e : Exp (Ext K)} (ih : SpecHolds Src e) : SpecHolds Src (.not e) := by
  intro req s c s' hpre h
  rw [linExp] at h
  simp only [bind_ok, get_ok, ite_ok, fail_ok, pure_ok, and_false, false_or] at h
  obtain ⟨x, s1, h1, s2, s2', hget, hbin, hres⟩ := h
  cases hget
  simp only [Prod.mk.injEq] at hres
  obtain ⟨rfl, rfl⟩ := hres
  have hbin' : isBinaryCtx x s'.domain = true := by simpa using hbin
  have A := ih _ _ _ _ ⟨hpre.inv, fun z hz => hpre.vars z (by simpa [varsOf] using hz), hpre.defined.not⟩ h1
  have hm1 : (Arith.ofInt (-1) : Ext K) = Ext.fin (-1) := by simp
  rw [hm1, ar_one]
  obtain ⟨okm, _, hnm⟩ := mulBy_spec (fun _ => (0 : K)) A.cok (-1)
  have hval : ∀ ρ : String → K, ctxVal ρ ((x.mulBy (Ext.fin (-1))).addRhs (Ext.fin 1)) = 1 - ctxVal ρ x := by
    intro ρ
    rw [addRhs_val ρ (mulBy_spec ρ A.cok (-1)).1, (mulBy_spec ρ A.cok (-1)).2.1]; ring
  have hB : ∀ ρ : String → K, DomSat ρ s'.domain → B01 (ctxVal ρ x) :=
    fun ρ hd => binaryCtx_B01 A.inv.nodup hbin' A.cnames hd
  have hnot : ∀ w : K, B01 w → ofBool (!truthy w) = 1 - w := by
    intro w hw; rcases hw with rfl | rfl <;> simp [ofBool, truthy]
  refine
  { rows := A.rows, dom := A.dom, queue := A.queue, inv := A.inv
    cok := addRhs_ok okm 1
    cnames := fun z hz => A.cnames z (by rw [addRhs_names, hnm] at hz; exact hz)
    sound := ?_, complete := ?_ }
  · intro ρ hd hq v hv
    obtain ⟨w, hw, rfl⟩ := eval_not_some hv
    have hx := A.sound ρ hd hq w hw
    simp only [rel] at hx
    apply rel_of_eq
    rw [hval, hx, hnot w (hx ▸ hB ρ hd)]
  · intro ρ hd hq v hv
    obtain ⟨w, hw, rfl⟩ := eval_not_some hv
    obtain ⟨ρ', hag, hd', hq', hval'⟩ := A.complete ρ hd hq w hw
    refine ⟨ρ', hag, hd', hq', ?_⟩
    rw [hval, hval', hnot w (hval' ▸ hB ρ' hd')]

/-! ### binary operands, `reify_logic_variable` -/

theorem linBinaryOperand_ok (e : Exp (Ext K)) (s : St (Ext K)) (r : Exp (Ext K) × St (Ext K)) :
    linBinaryOperand e s = .ok r ↔
      ∃ c, linExp e .exact s = .ok (c, r.2) ∧ isBinaryCtx c r.2.domain = true ∧ r.1 = ctxToExp c := by
  unfold linBinaryOperand
  simp only [bind_ok, get_ok, ite_ok, fail_ok, pure_ok, and_false, false_or]
  constructor
  · rintro ⟨c, s1, h1, s2, s2', hg, hb, hr⟩
    cases hg
    subst hr
    exact ⟨c, h1, by simpa using hb, rfl⟩
  · rintro ⟨c, h1, hb, hr⟩
    obtain ⟨o, s'⟩ := r
    simp only at h1 hb hr
    subst hr
    exact ⟨c, s', h1, s', s', rfl, by simpa using hb, rfl⟩

/-- every operand expression is `ctxToExp` of a binary context over declared used variables. -/
def OpsBinary (ops : List (Exp (Ext K))) (d : List (DomVar (Ext K))) : Prop :=
  ∀ o ∈ ops, ∃ c, o = ctxToExp c ∧ isBinaryCtx c d = true ∧ ∀ x ∈ ctxNames c, inScope d x

theorem OpsBinary.mono {ops : List (Exp (Ext K))} {d d' : List (DomVar (Ext K))} (h : OpsBinary ops d) :
    OpsBinary ops (d ++ d') := by
  intro o ho
  obtain ⟨c, h1, h2, h3⟩ := h o ho
  exact ⟨c, h1, isBinaryCtx_append h2, fun x hx => inScope_append_left (h3 x hx)⟩

/-- a binary operand evaluates to a 0/1 value wherever the domains hold. -/
theorem OpsBinary.eval {ops : List (Exp (Ext K))} {d : List (DomVar (Ext K))} (h : OpsBinary ops d)
    (hnd : (d.map (·.name)).Nodup) {ρ : String → K} (hd : DomSat ρ d) :
    ∀ o ∈ ops, ∃ x, Sem.eval ρ o = some x ∧ B01 x := by
  intro o ho
  obtain ⟨c, rfl, h2, h3⟩ := h o ho
  exact ⟨ctxVal ρ c, ctxToExp_eval ρ (isBinaryCtx_sem h2).1, binaryCtx_B01 hnd h2 h3 hd⟩

/-- the operands loop of the logic connectives: the list specification at requirement `exact`, plus
"every operand is binary". -/
theorem binOperands_spec : ∀ (es : List (Exp (Ext K))), (∀ e ∈ es, SpecHolds Src e) →
    ∀ (s : St (Ext K)) (ops : List (Exp (Ext K))) (sL : St (Ext K)),
      StInv Src s → (∀ e ∈ es, ∀ x ∈ varsOf e, inScope s.domain x) → (∀ e ∈ es, FinE e) →
      linBinaryOperands es s = .ok (ops, sL) →
      linList es .exact s = .ok (ops, sL) ∧ OpsBinary ops sL.domain := by
  intro es
  induction es with
  | nil =>
    intro _ s ops sL _ _ _ h
    simp only [linBinaryOperands, pure_ok, Prod.mk.injEq] at h
    obtain ⟨rfl, rfl⟩ := h
    exact ⟨by simp [linList, pure_ok], by intro o ho; cases ho⟩
  | cons e es ih =>
    intro hall s ops sL hinv hvars hdef h
    simp only [linBinaryOperands, bind_ok, pure_ok, Prod.mk.injEq] at h
    obtain ⟨o, s1, h1, os, s2, h2, rfl, rfl⟩ := h
    obtain ⟨c, hc1, hc2, hc3⟩ := (linBinaryOperand_ok _ _ _).mp h1
    simp only at hc1 hc2 hc3
    subst hc3
    have A := hall e (by simp) .exact s c s1 ⟨hinv, hvars e (by simp), hdef e (by simp)⟩ hc1
    obtain ⟨hl, hb⟩ := ih (fun e' he' => hall e' (by simp [he'])) s1 os sL A.inv
      (fun e' he' x hx => A.scopeMono (hvars e' (by simp [he']) x hx))
      (fun e' he' => hdef e' (by simp [he'])) h2
    obtain ⟨cs, _, L⟩ := specL_of es (fun e' he' => hall e' (by simp [he'])) .exact s1 os sL A.inv
      (fun e' he' x hx => A.scopeMono (hvars e' (by simp [he']) x hx))
      (fun e' he' => hdef e' (by simp [he'])) hl
    obtain ⟨dL, hdL⟩ := L.dom
    refine ⟨by simp only [linList, bind_ok, pure_ok]; exact ⟨c, s1, hc1, os, sL, hl, rfl⟩, ?_⟩
    intro o' ho'
    rcases List.mem_cons.mp ho' with rfl | ho'
    · rw [hdL]
      exact ⟨c, rfl, isBinaryCtx_append hc2, fun x hx => inScope_append_left (A.cnames x hx)⟩
    · exact hb o' ho'

theorem reify_ok (v : String) (cs : List (Cmp × Exp (Ext K))) (s : St (Ext K)) (r : Ctx (Ext K) × St (Ext K)) :
    reify v cs s = .ok r ↔
      v ∉ s.domain.map (·.name) ∧
      r = (Ctx.fromVar v Arith.one, declState (pushAll s (cs.map fun p => mkC (.var v) p.1 p.2)) v .bool) := by
  unfold reify
  simp only [bind_ok, pure_ok, declareVariable_ok]
  constructor
  · rintro ⟨u, s1, h1, u2, s2, ⟨hf, h2⟩, hr⟩
    have h1' := (forIn_ok (fun (p : Cmp × Exp (Ext K)) => addConstraint (mkC (.var v) p.1 p.2)) _
      (by rintro ⟨c, rhs⟩ u; rfl) _ _ _).mp h1
    rw [seqOK_push (fun (p : Cmp × Exp (Ext K)) => addConstraint (mkC (.var v) p.1 p.2))
      (fun (p : Cmp × Exp (Ext K)) => [mkC (.var v) p.1 p.2]) (fun x s => addConstraint_eq _ s)] at h1'
    simp only [flatMap_singleton_map] at h1'
    subst h1'
    cases h2
    exact ⟨hf, hr⟩
  · rintro ⟨hf, hr⟩
    refine ⟨⟨⟩, pushAll s (cs.map fun p => mkC (.var v) p.1 p.2), ?_, ⟨⟩, _, ⟨hf, rfl⟩, hr⟩
    refine (forIn_ok (fun (p : Cmp × Exp (Ext K)) => addConstraint (mkC (.var v) p.1 p.2)) _
      (by rintro ⟨c, rhs⟩ u; rfl) _ _ _).mpr ?_
    rw [seqOK_push (fun (p : Cmp × Exp (Ext K)) => addConstraint (mkC (.var v) p.1 p.2))
      (fun (p : Cmp × Exp (Ext K)) => [mkC (.var v) p.1 p.2]) (fun x s => addConstraint_eq _ s)]
    simp only [flatMap_singleton_map]

theorem declState_pushAll {α : Type} [Arith α] (s : St α) (cs : List (Constraint α)) (v : String) (ty : VarType α) :
    declState (pushAll s cs) v ty = pushAll (declState s v ty) cs := rfl

/-! ### the generic reification step -/

/-- One lemma for all five reified connectives: the operands `es` are linearized exactly and are binary, a
fresh Boolean `v` is constrained by `rows`, and on 0/1 values the rows say exactly `v = T operands`. -/
theorem spec_reify {e : Exp (Ext K)} {es : List (Exp (Ext K))} {s sL : St (Ext K)} {ops : List (Exp (Ext K))}
    {v : String} {rows : List (Cmp × Exp (Ext K))} (req : Req) (T : List K → K)
    (hall : ∀ r ∈ es, SpecHolds Src r) (hinv : StInv Src s)
    (hvars : ∀ r ∈ es, ∀ x ∈ varsOf r, inScope s.domain x) (hdef : ∀ r ∈ es, FinE r)
    (hlin : linList es .exact s = .ok (ops, sL)) (hbin : OpsBinary ops sL.domain)
    (hfresh : v ∉ sL.domain.map (·.name))
    (hT01 : ∀ as, B01 (T as))
    (hrowsAG : ∀ S : String → Prop, (∀ o ∈ ops, AG S o) → ∀ p ∈ rows, AG S p.2)
    (hrowsDef : (∀ o ∈ ops, DefinedE o) → ∀ p ∈ rows, DefinedE p.2)
    (hrowsSem : ∀ (ρ : String → K) (as : List K), List.Forall₂ (fun o a => eval ρ o = some a) ops as →
      (∀ a ∈ as, B01 a) → B01 (ρ v) →
      ((∀ p ∈ rows, constraintHolds ρ (mkC (.var v) p.1 p.2) = true) ↔ ρ v = T as))
    (hsem : ∀ (ρ : String → K) vs m, evalList ρ es = some vs → (∀ x ∈ vs, B01 x) → eval ρ e = some m → m = T vs)
    (hstrict : ∀ (ρ : String → K) m, eval ρ e = some m → ∃ vs, evalList ρ es = some vs) :
    Spec Src e req s (Ctx.fromVar v Arith.one)
      (declState (pushAll sL (rows.map fun p => mkC (.var v) p.1 p.2)) v .bool) := by
  obtain ⟨cs, rfl, L⟩ := specL_of es hall .exact s ops sL hinv hvars hdef hlin
  rw [declState_pushAll]
  set sD := declState sL v (.bool : VarType (Ext K)) with hsD
  set new : List (Constraint (Ext K)) := rows.map (fun p => mkC (.var v) p.1 p.2) with hnew
  have ID : StInv Src sD := L.inv.declare .bool hfresh
  have hscD : ∀ x, inScope sL.domain x → inScope sD.domain x := fun x hx => inScope_declState.mpr (Or.inl hx)
  have hvD : inScope sD.domain v := inScope_declState.mpr (Or.inr rfl)
  have hvfresh : ∀ x, inScope sL.domain x → x ≠ v := by
    rintro x ⟨dv, hdv, rfl, _⟩ hxv
    exact hfresh (List.mem_map.mpr ⟨dv, hdv, hxv⟩)
  have hDv : DefinedE (.var v : Exp (Ext K)) := definedE_of_eval (fun ρ => ρ v) (fun ρ => eval_var ρ v)
  have hopsAG : ∀ o ∈ cs.map ctxToExp, AG (inScope sD.domain) o := by
    intro o ho
    obtain ⟨c, hc, rfl⟩ := List.mem_map.mp ho
    exact AG_ctxToExp (fun x hx => hscD x (L.cnames c hc x hx))
  have hopsDef : ∀ o ∈ cs.map ctxToExp, DefinedE o := by
    intro o ho
    obtain ⟨c, hc, rfl⟩ := List.mem_map.mp ho
    exact definedE_ctxToExp (L.cok c hc)
  have hnewOK : ∀ c ∈ new, ArithC (inScope sD.domain) c ∧ DefinedC c := by
    intro c hc
    obtain ⟨p, hp, rfl⟩ := List.mem_map.mp hc
    exact ⟨arithC_mkC _ (AG_var.mpr hvD) (hrowsAG _ hopsAG p hp), definedC_mkC _ hDv (hrowsDef hopsDef p hp)⟩
  have IF : StInv Src (pushAll sD new) := ID.pushAll new hnewOK
  have hevalOps : ∀ ρ : String → K, List.Forall₂ (fun o a => eval ρ o = some a) (cs.map ctxToExp) (cs.map (ctxVal ρ)) := by
    intro ρ
    rw [List.forall₂_map_left_iff, List.forall₂_map_right_iff]
    exact List.forall₂_same.mpr (fun c hc => ctxToExp_eval ρ (L.cok c hc))
  have hB01 : ∀ ρ : String → K, DomSat ρ sL.domain → ∀ a ∈ cs.map (ctxVal ρ), B01 a := by
    intro ρ hd a ha
    obtain ⟨c, hc, rfl⟩ := List.mem_map.mp ha
    obtain ⟨x, hx, hx01⟩ := hbin.eval L.inv.nodup hd (ctxToExp c) (List.mem_map.mpr ⟨c, hc, rfl⟩)
    rw [ctxToExp_eval ρ (L.cok c hc)] at hx
    cases hx; exact hx01
  have hrowsIff : ∀ ρ : String → K, (∀ c ∈ new, constraintHolds ρ c = true) ↔
      ∀ p ∈ rows, constraintHolds ρ (mkC (.var v) p.1 p.2) = true := by
    intro ρ
    simp only [hnew, List.mem_map, forall_exists_index, and_imp, forall_apply_eq_imp_iff₂]
  have hcv : ∀ ρ : String → K, ctxVal ρ (Ctx.fromVar v (Arith.one : Ext K)) = ρ v := by
    intro ρ; rw [ar_one, fromVar_val]; ring
  obtain ⟨dL, hdL⟩ := L.dom
  obtain ⟨qL, hqL⟩ := L.queue
  have hFdom : (pushAll sD new).domain = sL.domain ++ [{ name := v, ty := .bool, usage := 1 }] := rfl
  have hFq : (pushAll sD new).queue = new.reverse ++ sL.queue := rfl
  refine
  { rows := by rw [pushAll_rows, hsD, declState_rows, L.rows]
    dom := ⟨dL ++ [{ name := v, ty := .bool, usage := 1 }], by rw [hFdom, hdL, List.append_assoc]⟩
    queue := ⟨new.reverse ++ qL, by rw [hFq, hqL, List.append_assoc]⟩
    inv := IF
    cok := by rw [ar_one]; exact fromVar_ok v 1
    cnames := by intro x hx; simp at hx; rw [hx]; exact hvD
    sound := ?_, complete := ?_ }
  · intro ρ hd hq m hm
    rw [hFdom] at hd
    obtain ⟨hdL', hdv⟩ := domSat_append.mp hd
    have hv01 : B01 (ρ v) := B01_of_inDomain_bool (hdv { name := v, ty := .bool, usage := 1 } (by simp) (by simp))
    have hqL' : QSat ρ sL := fun c hc => hq c (by rw [hFq]; exact List.mem_append_right _ hc)
    have hnewH : ∀ c ∈ new, constraintHolds ρ c = true := fun c hc => hq c (by
      rw [hFq]; exact List.mem_append_left _ (List.mem_reverse.mpr hc))
    obtain ⟨vs, hvs⟩ := hstrict ρ m hm
    have hrel := L.sound ρ hdL' hqL' vs hvs
    have hvals : cs.map (ctxVal ρ) = vs := by
      have : List.Forall₂ (fun a b => a = b) (cs.map (ctxVal ρ)) vs := by
        rw [List.forall₂_map_left_iff]; exact hrel
      exact List.forall₂_eq_eq_eq ▸ this
    have h01 := hB01 ρ hdL'
    have hz := (hrowsSem ρ _ (hevalOps ρ) h01 hv01).mp ((hrowsIff ρ).mp hnewH)
    apply rel_of_eq
    rw [hcv, hz, hvals]
    exact (hsem ρ vs m hvs (hvals ▸ h01) hm).symm
  · intro ρ hd hq m hm
    obtain ⟨vs, hvs⟩ := hstrict ρ m hm
    obtain ⟨ρ1, hag1, hd1, hq1, hval1⟩ := L.complete ρ hd hq vs hvs
    have h01 : ∀ a ∈ vs, B01 a := hval1 ▸ hB01 ρ1 hd1
    have hm' : m = T vs := hsem ρ vs m hvs h01 hm
    let ρ2 : String → K := Function.update ρ1 v (T vs)
    have hag2 : ∀ y, inScope sL.domain y → ρ2 y = ρ1 y := fun y hy => Function.update_of_ne (hvfresh y hy) _ _
    have hv2 : ρ2 v = T vs := by simp [ρ2]
    have hvals2 : cs.map (ctxVal ρ2) = vs := by
      rw [← hval1]
      exact List.map_congr_left (fun c hc => ctxVal_congr c (fun y hy => hag2 y (L.cnames c hc y hy)))
    have FF : Frame sL (pushAll sD new) [{ name := v, ty := .bool, usage := 1 }] new.reverse := ⟨by
      rw [pushAll_rows, hsD, declState_rows], hFdom, hFq⟩
    obtain ⟨hdF, hqF⟩ := FF.lift L.inv hd1 hq1 hag2 (by
      intro dv hdv _
      simp only [List.mem_singleton] at hdv
      subst hdv
      simp only [hv2]
      exact inDomain_bool_of_B01 (hT01 vs)) (by
      intro c hc
      have := (hrowsSem ρ2 vs (hvals2 ▸ hevalOps ρ2) h01 (hv2 ▸ hT01 vs)).mpr hv2
      exact (hrowsIff ρ2).mpr this c (List.mem_reverse.mp hc))
    exact ⟨ρ2, fun y hy => by rw [hag2 y (L.scopeMono hy), hag1 y hy], hdF, hqF, by rw [hcv, hv2, hm']⟩

/-! ### helpers: sums of operand expressions, rows over all operands, state congruence -/

theorem eval_foldl_addExp (ρ : String → K) : ∀ (os : List (Exp (Ext K))) (as : List K) (acc : Exp (Ext K)) (a : K),
    List.Forall₂ (fun o x => eval ρ o = some x) os as → eval ρ acc = some a →
    eval ρ (os.foldl addExp acc) = some (a + as.sum)
  | [], [], acc, a, _, h => by simpa using h
  | o :: os, x :: as, acc, a, hf, h => by
    cases hf with
    | cons h1 h2 =>
      simp only [List.foldl_cons, List.sum_cons]
      rw [eval_foldl_addExp ρ os as _ (a + x) h2 (eval_addExp h h1)]
      congr 1; ring

theorem eval_sumExps (ρ : String → K) {os : List (Exp (Ext K))} {as : List K}
    (hf : List.Forall₂ (fun o x => eval ρ o = some x) os as) : eval ρ (sumExps os) = some as.sum := by
  cases hf with
  | nil => simp [sumExps, eval]
  | cons h1 h2 =>
    simp only [sumExps, List.sum_cons]
    exact eval_foldl_addExp ρ _ _ _ _ h2 h1

theorem AG_foldl_addExp {S : String → Prop} : ∀ (os : List (Exp (Ext K))) (acc : Exp (Ext K)), AG S acc →
    (∀ o ∈ os, AG S o) → AG S (os.foldl addExp acc)
  | [], acc, h, _ => h
  | o :: os, acc, h, hs =>
    AG_foldl_addExp os _ (AG_addExp h (hs o (by simp))) (fun o' ho' => hs o' (by simp [ho']))

theorem AG_sumExps {S : String → Prop} {os : List (Exp (Ext K))} (hs : ∀ o ∈ os, AG S o) : AG S (sumExps os) := by
  cases os with
  | nil => exact AG_num _
  | cons o os => exact AG_foldl_addExp os o (hs o (by simp)) (fun o' ho' => hs o' (by simp [ho']))

theorem exists_vals (ρ : String → K) : ∀ (os : List (Exp (Ext K))), (∀ o ∈ os, DefinedE o) →
    ∃ as, List.Forall₂ (fun o x => eval ρ o = some x) os as
  | [], _ => ⟨[], List.Forall₂.nil⟩
  | o :: os, h => by
    obtain ⟨a, ha⟩ := h o (by simp) ρ
    obtain ⟨as, has⟩ := exists_vals ρ os (fun o' ho' => h o' (by simp [ho']))
    exact ⟨a :: as, List.Forall₂.cons ha has⟩

theorem definedE_sumExps {os : List (Exp (Ext K))} (h : ∀ o ∈ os, DefinedE o) : DefinedE (sumExps os) := by
  intro ρ
  obtain ⟨as, has⟩ := exists_vals ρ os h
  exact ⟨_, eval_sumExps ρ has⟩

/-- the rows `v ⋈ oᵢ` over all operands. -/
theorem holds_all_ops (ρ : String → K) (v : String) (cmp : Cmp) : ∀ {os : List (Exp (Ext K))} {as : List K},
    List.Forall₂ (fun o x => eval ρ o = some x) os as →
    ((∀ o ∈ os, constraintHolds ρ (mkC (.var v) cmp o) = true) ↔ ∀ a ∈ as, cmpK cmp (ρ v) a = true)
  | [], [], _ => by simp
  | o :: os, a :: as, hf => by
    cases hf with
    | cons h1 h2 =>
      simp only [List.mem_cons, forall_eq_or_imp, holds_all_ops ρ v cmp h2,
        holds_mkC ρ _ _ _ (eval_var ρ v) h1]

/-- the specification does not look at the name counters. -/
theorem Spec.of_eq {e : Exp (Ext K)} {req : Req} {s s' s'' : St (Ext K)} {c : Ctx (Ext K)}
    (h : Spec Src e req s c s') (hr : s''.rows = s'.rows) (hd : s''.domain = s'.domain)
    (hq : s''.queue = s'.queue) (hb : s''.bounds = s'.bounds) : Spec Src e req s c s'' :=
  { rows := by rw [hr]; exact h.rows
    dom := by rw [hd]; exact h.dom
    queue := by rw [hq]; exact h.queue
    inv := h.inv.of_eq hd hb hq
    cok := h.cok
    cnames := by rw [hd]; exact h.cnames
    sound := by rw [hd]; intro ρ hdm hqs; exact h.sound ρ hdm (fun c hc => hqs c (by rw [hq]; exact hc))
    complete := by
      intro ρ hdm hqs v hv
      obtain ⟨ρ', h1, h2, h3, h4⟩ := h.complete ρ hdm hqs v hv
      exact ⟨ρ', h1, by rw [hd]; exact h2, fun c hc => h3 c (by rw [← hq]; exact hc), h4⟩ }

theorem ofBool_B01 (b : Bool) : B01 (ofBool b : K) := by cases b <;> simp [ofBool, B01]

theorem eq_ofBool_iff {z : K} (hz : B01 z) (b : Bool) : z = ofBool b ↔ (z = 1 ↔ b = true) := by
  rcases hz with rfl | rfl <;> cases b <;> simp [ofBool]

theorem all_truthy_iff {as : List K} (h : ∀ a ∈ as, B01 a) : as.all truthy = true ↔ ∀ a ∈ as, a = 1 := by
  simp only [List.all_eq_true]
  constructor
  · intro h' a ha; exact (truthy_B01 (h a ha)).mp (h' a ha)
  · intro h' a ha; exact (truthy_B01 (h a ha)).mpr (h' a ha)

theorem any_truthy_iff {as : List K} (h : ∀ a ∈ as, B01 a) : as.any truthy = true ↔ ∃ a ∈ as, a = 1 := by
  simp only [List.any_eq_true]
  constructor
  · rintro ⟨a, ha, ht⟩; exact ⟨a, ha, (truthy_B01 (h a ha)).mp ht⟩
  · rintro ⟨a, ha, ht⟩; exact ⟨a, ha, (truthy_B01 (h a ha)).mpr ht⟩

end Rooc.LinP
