/-
Stage B (part 4): structural facts about `Exp.flattenF` and `Exp.simplify` that the linearizer relies on
— both stay inside the arithmetic fragment and never introduce a variable.
-/
import Rooc.Proofs.LinAffine

set_option linter.unusedSectionVars false
set_option linter.unusedSimpArgs false
set_option linter.unusedVariables false

namespace Rooc.LinP
open Rooc Rooc.Lin Rooc.Exp

section flatten
variable {α : Type} [Arith α]

theorem opt_bind2_some {β γ δ : Type} {oa : Option β} {ob : Option γ} {f : β → γ → δ} {c : δ}
    (h : (do let x ← oa; let y ← ob; pure (f x y)) = some c) :
    ∃ a b, oa = some a ∧ ob = some b ∧ c = f a b := by
  cases oa <;> cases ob <;> simp_all

/-- a predicate on expressions that is "compositional" on binary nodes and unary minus. -/
structure BinCompositional (P : Exp α → Prop) (R : BinOp → Prop) : Prop where
  bin : ∀ op a b, P (.bin op a b) ↔ (R op ∧ P a ∧ P b)
  neg : ∀ e, P (.un .neg e) ↔ P e

theorem flattenMulRest_pres {P : Exp α → Prop} {R : BinOp → Prop} (hP : BinCompositional P R) (n : Nat)
    (ih : ∀ e e', P e → flattenF n e = some e' → P e') (l r : Exp α) :
    ∀ e', P (.bin .mul l r) → flattenF.flattenMulRest n l r = some e' → P e' := by
  intro e' hp h
  obtain ⟨hm, hl, hr⟩ := (hP.bin _ _ _).mp hp
  unfold flattenF.flattenMulRest at h
  split at h
  · obtain ⟨hi, ha, hb⟩ := (hP.bin _ _ _).mp hr
    split at h
    · exact ih _ _ ((hP.bin _ _ _).mpr ⟨hi, (hP.bin _ _ _).mpr ⟨hm, hl, ha⟩, (hP.bin _ _ _).mpr ⟨hm, hl, hb⟩⟩) h
    · split at h
      · simp only [Option.map_eq_some_iff] at h
        obtain ⟨x, hx, rfl⟩ := h
        exact (hP.neg _).mpr (ih _ _ ((hP.bin _ _ _).mpr ⟨hm, (hP.neg _).mp hl, hr⟩) hx)
      · obtain ⟨a, b, ha', hb', rfl⟩ := opt_bind2_some h
        exact (hP.bin _ _ _).mpr ⟨hm, ih _ _ hl ha', ih _ _ hr hb'⟩
  · simp only [Option.map_eq_some_iff] at h
    obtain ⟨x, hx, rfl⟩ := h
    exact (hP.neg _).mpr (ih _ _ ((hP.bin _ _ _).mpr ⟨hm, (hP.neg _).mp hl, hr⟩) hx)
  · simp only [Option.map_eq_some_iff] at h
    obtain ⟨x, hx, rfl⟩ := h
    exact (hP.neg _).mpr (ih _ _ ((hP.bin _ _ _).mpr ⟨hm, hl, (hP.neg _).mp hr⟩) hx)
  · obtain ⟨a, b, ha', hb', rfl⟩ := opt_bind2_some h
    exact (hP.bin _ _ _).mpr ⟨hm, ih _ _ hl ha', ih _ _ hr hb'⟩

/-- `flattenF` preserves every compositional predicate. -/
theorem flattenF_pres {P : Exp α → Prop} {R : BinOp → Prop} (hP : BinCompositional P R) (n : Nat) :
    ∀ (e e' : Exp α), P e → flattenF n e = some e' → P e' := by
  induction n with
  | zero => intro e e' _ h; simp [flattenF] at h
  | succ n ih =>
    intro e e' hp h
    unfold flattenF at h
    split at h
    all_goals try (have hn := Nat.succ.inj ‹n + 1 = _›; subst hn)
    · simp at h
    · obtain ⟨hm, hlr, hc⟩ := (hP.bin _ _ _).mp hp
      obtain ⟨hi, hl, hr⟩ := (hP.bin _ _ _).mp hlr
      split at h
      · exact ih _ _ ((hP.bin _ _ _).mpr ⟨hi, (hP.bin _ _ _).mpr ⟨hm, hl, hc⟩, (hP.bin _ _ _).mpr ⟨hm, hr, hc⟩⟩) h
      · exact flattenMulRest_pres hP n ih _ _ _ hp h
    · exact flattenMulRest_pres hP n ih _ _ _ hp h
    · obtain ⟨hd, hlr, hc⟩ := (hP.bin _ _ _).mp hp
      obtain ⟨hi, hl, hr⟩ := (hP.bin _ _ _).mp hlr
      split at h
      · obtain ⟨a, b, ha, hb, rfl⟩ := opt_bind2_some h
        exact (hP.bin _ _ _).mpr ⟨hi, ih _ _ ((hP.bin _ _ _).mpr ⟨hd, hl, hc⟩) ha,
          ih _ _ ((hP.bin _ _ _).mpr ⟨hd, hr, hc⟩) hb⟩
      · obtain ⟨a, b, ha, hb, rfl⟩ := opt_bind2_some h
        exact (hP.bin _ _ _).mpr ⟨hd, ih _ _ hlr ha, ih _ _ hc hb⟩
    · obtain ⟨ho, hl, hr⟩ := (hP.bin _ _ _).mp hp
      obtain ⟨a, b, ha, hb, rfl⟩ := opt_bind2_some h
      exact (hP.bin _ _ _).mpr ⟨ho, ih _ _ hl ha, ih _ _ hr hb⟩
    · simp at h; subst h; exact hp

end flatten

/-! ### the arithmetic fragment with variables in a set `S` -/

/-- arithmetic-only and every variable satisfies `S`. -/
def AG {α : Type} (S : String → Prop) (e : Exp α) : Prop := arithOnly e = true ∧ ∀ x ∈ varsOf e, S x

section ag
variable {α : Type} [Arith α] {S : String → Prop}

theorem AG_num (v : α) : AG S (.num v : Exp α) := ⟨rfl, by simp [varsOf]⟩
theorem AG_var {x : String} : AG S (.var x : Exp α) ↔ S x := by simp [AG, arithOnly, varsOf]
theorem AG_bin {op : BinOp} {a b : Exp α} :
    AG S (.bin op a b) ↔ (isArithOp op = true ∧ AG S a ∧ AG S b) := by
  simp only [AG, arithOnly, Bool.and_eq_true, varsOf, List.mem_append]
  constructor
  · rintro ⟨⟨⟨h1, h2⟩, h3⟩, h4⟩
    exact ⟨h1, ⟨h2, fun x hx => h4 x (Or.inl hx)⟩, ⟨h3, fun x hx => h4 x (Or.inr hx)⟩⟩
  · rintro ⟨h1, ⟨h2, h4⟩, ⟨h3, h5⟩⟩
    exact ⟨⟨⟨h1, h2⟩, h3⟩, fun x hx => hx.elim (h4 x) (h5 x)⟩
theorem AG_neg {e : Exp α} : AG S (.un .neg e) ↔ AG S e := by
  simp [AG, arithOnly, varsOf]

theorem AG_compositional : BinCompositional (AG S : Exp α → Prop) (fun op => isArithOp op = true) :=
  ⟨fun _ _ _ => AG_bin, fun _ => AG_neg⟩

theorem AG_flatten {n : Nat} {e e' : Exp α} (h : AG S e) (hf : flattenF n e = some e') : AG S e' :=
  flattenF_pres AG_compositional n e e' h hf

theorem AG_addCore {l r : Exp α} (hl : AG S l) (hr : AG S r) : AG S (addCore l r) := by
  unfold addCore
  split
  · exact AG_num _
  · split
    · exact hr
    · exact AG_bin.mpr ⟨rfl, hl, hr⟩
  · split
    · exact hl
    · exact AG_bin.mpr ⟨rfl, hl, hr⟩
  · exact AG_bin.mpr ⟨rfl, hl, hr⟩

theorem AG_subCore {l r : Exp α} (hl : AG S l) (hr : AG S r) : AG S (subCore l r) := by
  unfold subCore
  split
  · exact AG_num _
  · split
    · exact hl
    · exact AG_bin.mpr ⟨rfl, hl, hr⟩
  · exact AG_bin.mpr ⟨rfl, hl, hr⟩

theorem AG_mulCore {l r : Exp α} (hl : AG S l) (hr : AG S r) : AG S (mulCore l r) := by
  unfold mulCore
  split
  · exact AG_num _
  · split
    · exact AG_num _
    · split
      · exact hr
      · split
        · exact hl
        · exact AG_bin.mpr ⟨rfl, hl, hr⟩

theorem AG_divCore {l r : Exp α} (hl : AG S l) (hr : AG S r) : AG S (divCore l r) := by
  unfold divCore
  split
  · split
    · exact AG_bin.mpr ⟨rfl, hl, hr⟩
    · exact AG_num _
  · split
    · exact hl
    · exact AG_bin.mpr ⟨rfl, hl, hr⟩

theorem AG_simplify : ∀ (e : Exp α), AG S e → AG S (simplify e) := by
  intro e
  induction e using Exp.indL with
  | num v => intro h; simpa [simplify] using h
  | var x => intro h; simpa [simplify] using h
  | bin op a b iha ihb =>
    intro h
    obtain ⟨ho, ha, hb⟩ := AG_bin.mp h
    have ha' := iha ha
    have hb' := ihb hb
    cases op <;> simp only [simplify] <;> simp [isArithOp] at ho
    · exact AG_addCore ha' hb'
    · exact AG_subCore ha' hb'
    · exact AG_mulCore ha' hb'
    · exact AG_divCore ha' hb'
  | un op e ih =>
    intro h
    cases op with
    | not => simp [AG, arithOnly] at h
    | neg =>
      have := ih (AG_neg.mp h)
      simp only [simplify]
      split
      · exact AG_num _
      · exact AG_neg.mpr this
  | _ => intro h; simp [AG, arithOnly] at h

end ag
end Rooc.LinP
