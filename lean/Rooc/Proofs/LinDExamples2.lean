/-
Stage D: the example `assert (a or b)` through the whole pipeline `Compile.linearize`.
-/
import Rooc.Proofs.LinDExamples
import Rooc.Proofs.LinBridgeLogic
import Rooc.Proofs.LinBridgeCounter

set_option linter.unusedSectionVars false
set_option linter.unusedSimpArgs false
set_option linter.unusedVariables false

namespace Rooc.LinP
open Rooc Rooc.Lin Rooc.Sem Rooc.Exp Rooc.BoundsProofs

variable {K : Type} [Field K] [LinearOrder K] [IsStrictOrderedRing K] [FloorRing K]

theorem exOr_ok_of (b : BoundsMap (Ext K)) :
    ∃ lm, linearizeWith (exOr : Model (Ext K)) b (exOr : Model (Ext K)).domain = .ok lm := by
  let s0 : St (Ext K) := { queue := (exOr : Model (Ext K)).constraints, domain := (exOr : Model (Ext K)).domain, bounds := b }
  have hba : isBoolVar s0.domain "a" = true := by simp [s0, exOr, isBoolVar, domainType]
  have hbb : isBoolVar s0.domain "b" = true := by simp [s0, exOr, isBoolVar, domainType]
  obtain ⟨row, hproc⟩ := exOr_proc { s0 with queue := [] } hba hbb
  have hdrain : ∃ s3, drain drainFuel s0 = .ok ((), s3) := by
    have h1 : drainFuel = 999998 + 1 + 1 := rfl
    rw [h1]
    refine ⟨addRow { s0 with queue := [] } row, ?_⟩
    apply drain_cons _ s0 _ _ [] rfl hproc
    exact drain_nil _ _ rfl
  obtain ⟨s3, hs3⟩ := hdrain
  exact ⟨_, (linearizeWith_ok_iff _ _ _ _).mpr ⟨.var "a", s0, Ctx.fromVar "a" Arith.one, s0, s3,
    by simp [simplifyFlat_ok, exAbs_norm_var, exOr, s0], by simp [linExp, pure_ok], hs3, rfl⟩⟩

theorem exOr_normalized : Compile.normalizedForBounds (exOr : Model (Ext K)).constraints
    = some (exOr : Model (Ext K)).constraints := by
  simp [Compile.normalizedForBounds, exOr, exOrC, exOr_norm]

theorem exOr_declOK : DeclOK (exOr : Model (Ext K)).domain := by
  refine ⟨by simp [exOr], ?_, ?_, ?_, ?_⟩
  · intro d hd lo hi hty
    simp only [exOr, List.mem_cons, List.mem_nil_iff, or_false] at hd
    rcases hd with rfl | rfl <;> simp at hty
  · intro d hd
    simp only [exOr, List.mem_cons, List.mem_nil_iff, or_false] at hd
    rcases hd with rfl | rfl <;> simp [TyNoNaN]
  · intro d hd
    simp only [exOr, List.mem_cons, List.mem_nil_iff, or_false] at hd
    rcases hd with rfl | rfl <;> simp [NNOK]
  · intro d hd hu
    simp only [exOr, List.mem_cons, List.mem_nil_iff, or_false] at hd
    rcases hd with rfl | rfl <;> simp at hu

theorem exOr_noInt : NoIntVars (exOr : Model (Ext K)).domain := by
  intro d hd lo hi
  simp only [exOr, List.mem_cons, List.mem_nil_iff, or_false] at hd
  rcases hd with rfl | rfl <;> simp

theorem exOr_assertShape : AssertShape (exOr : Model (Ext K)) := by
  intro c hc _
  simp only [exOr, List.mem_singleton] at hc
  subst hc
  exact ⟨rfl, rfl⟩

/-- the analyzer of the pipeline on `exOr` with step limit 0: the declared box, limit flag raised. -/
theorem exOr_analyzer (tol : Ext K) :
    (Analyzer.analyze (exOr : Model (Ext K)).domain (exOr : Model (Ext K)).constraints tol 0).enforceable
      (exOr : Model (Ext K)).domain
    = { Analyzer.fromDomain (exOr : Model (Ext K)).domain tol with reachedIterationLimit := true } := by
  have h1 : Analyzer.analyze (exOr : Model (Ext K)).domain (exOr : Model (Ext K)).constraints tol 0
      = { Analyzer.fromDomain (exOr : Model (Ext K)).domain tol with reachedIterationLimit := true } := by
    simp [Analyzer.analyze, Analyzer.propagate, exOr, Analyzer.propagateLoop, List.range, List.range.loop]
  rw [h1]
  simp [Analyzer.enforceable, Analyzer.emptyIntegerRange, Analyzer.fromDomain, exOr, Analyzer.roundIntegerRanges,
    Analyzer.roundStep]

/-- `min a s.t. assert (a or b)` goes through the whole pipeline, for every tolerance, at step limit 0. -/
theorem exOr_compile (tol : Ext K) : ∃ lm, Compile.linearize (exOr : Model (Ext K)) tol 0 = .ok lm := by
  have hd : ({ Analyzer.fromDomain (exOr : Model (Ext K)).domain tol with reachedIterationLimit := true } : Analyzer (Ext K)).applyToDomain
      (exOr : Model (Ext K)).domain = (exOr : Model (Ext K)).domain := by
    simp [Analyzer.applyToDomain, Analyzer.applyToVar, Analyzer.fromDomain, exOr, AList.insert, AList.get?,
      Bounds.ofVarType]
  obtain ⟨lm, h⟩ := exOr_ok_of (K := K)
    (Compile.toLinBounds ({ Analyzer.fromDomain (exOr : Model (Ext K)).domain tol with reachedIterationLimit := true } : Analyzer (Ext K)).variableBounds)
  have hscr : scratchOK (exOr : Model (Ext K)) tol 0 := by
    refine ⟨((), Compile.scratchState exOr tol 0), ?_⟩
    have hsimp : simplify (.or [.var "a", .var "b"] : Exp (Ext K)) = .or [.var "a", .var "b"] := by
      simp [simplify, naryCore, naryFlatten, naryStep, naryScan, mayBeUndefinedAny, mayBeUndefined]
    have hnode : ∀ s : St (Ext K), collapseCheck (.or [.var "a", .var "b"] : Exp (Ext K)) s = .ok ((), s) := by
      intro s
      rw [collapseCheck]
      simp only [bind_ok]
      refine ⟨⟨⟩, s, ?_, ?_⟩
      · simp only [collapseCheckList, bind_ok]
        exact ⟨⟨⟩, _, by rw [collapseCheck]; rfl, ⟨⟩, _, by rw [collapseCheck]; rfl, rfl⟩
      · unfold collapseNode
        simp only [bind_ok, get_ok, hsimp]
        exact ⟨_, _, rfl, by simp [isLogicValue, pure_ok]⟩
    unfold collapseCheckAll
    simp only [bind_ok]
    refine ⟨⟨⟩, Compile.scratchState exOr tol 0, by simp only [exOr]; rw [collapseCheck]; rfl, ?_⟩
    show collapseCheckConstraints [exOrC] _ = _
    rw [collapseCheckConstraints]
    simp only [exOrC, Bool.not_true, Bool.false_eq_true, if_false, bind_ok]
    exact ⟨⟨⟩, _, hnode _, by rw [collapseCheckConstraints]; rfl⟩
  refine ⟨lm, (compile_ok_iff _ _ _ _).mpr
    ⟨hscr, { Analyzer.fromDomain (exOr : Model (Ext K)).domain tol with reachedIterationLimit := true }, ?_, ?_⟩⟩
  · simp only [pipelineAnalyzer, exOr_normalized, Option.map_some, exOr_analyzer]
  · rw [hd]; exact h

end Rooc.LinP
