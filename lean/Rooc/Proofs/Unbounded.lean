/-
An `Unbounded` answer is genuine (exact comparisons): the entering column is a feasible ray along which
the objective decreases without bound.
-/
import Rooc.Proofs.Feasible
namespace Rooc
namespace Unbounded
variable {K : Type} [Field K] [LinearOrder K] [IsStrictOrderedRing K]
attribute [local instance] exactArith
open Tableau TabSem PivotLemmas StepLemmas BasicSol FeasibleLemmas

theorem nth_fill_not_mem (b : List K) : ∀ (l : List Nat) (k0 : Nat) (v : List K) (j : Nat),
    (∀ i ∈ l, i < v.length) → j ∉ l → nth (fill b l k0 v) j = nth v j
  | [], k0, v, j, _, _ => by simp [fill_nil]
  | i :: l, k0, v, j, hlt, hj => by
    rw [fill_cons, nth_fill_not_mem b l (k0+1) _ j
      (by intro i' hi'; simpa using hlt i' (List.mem_cons_of_mem _ hi'))
      (fun h => hj (List.mem_cons_of_mem _ h)),
      nth_set _ _ _ _ (hlt i (by simp))]
    have : j ≠ i := fun e => hj (by simp [e])
    simp [this]

theorem ratios_nil_of_findT_none {tol : K} {T : Tab K} {h : Nat} {prefer : List Nat}
    (hf : findT tol T h prefer = none) : ratios tol T h = [] := by
  rw [findT_eq_sel] at hf
  split at hf
  · assumption
  · cases hf

/-- all entries of the entering column are `≤ 0` when the exact ratio test finds no row. -/
theorem col_nonpos_of_findT_none {T : Tab K} {h : Nat} {prefer : List Nat}
    (hf : findT (0:K) T h prefer = none) : ∀ i, i < T.a.length → nth (row T.a i) h ≤ 0 := by
  intro i hi
  by_contra hc
  have hg : Tol.fgt (0:K) (nth (row T.a i) h) 0 = true :=
    (ExactK.fgt_iff 0 _ 0).2 ⟨not_le.1 hc, abs_not_lt_zero _⟩
  have := mem_ratios_of (tol := (0:K)) hi hg
  rw [ratios_nil_of_findT_none hf] at this
  cases this

/-- the point at distance `θ` on the ray of the entering column `h`. -/
noncomputable def rayPoint (T : Tab K) (h : Nat) (θ : K) : List K :=
  (fill ((List.range T.a.length).map fun k => nth T.b k - θ * nth (row T.a k) h) T.basis 0
    (List.replicate T.c.length 0)).set h θ

theorem nth_map_range (f : Nat → K) (m k : Nat) (hk : k < m) : nth ((List.range m).map f) k = f k := by
  simp [nth, List.getD_eq_getElem?_getD, hk]

/-- **the ray of a non-basic column with negative reduced cost and no positive entry**: non-negative solutions with
objective below every bound. -/
theorem ray_unbounded {T : Tab K} {m n : Nat} (hC : Canon T m n) (hF : Feasible T) {c0 : List K}
    (hO : ObjInv T c0) {h : Nat} (hh1 : h < T.c.length) (hnb : h ∉ T.basis) (hch : nth T.c h < 0)
    (hcol : ∀ i, i < T.a.length → nth (row T.a i) h ≤ 0) (M : K) :
    ∃ x : List K, x.length = n ∧ Sol T x ∧ (∀ j, 0 ≤ nth x j) ∧ dot c0 x < M := by
  -- far enough along the ray
  let θ : K := max 0 ((-T.value - M) / (-(nth T.c h)) + 1)
  have hθ0 : 0 ≤ θ := le_max_left _ _
  have hθ1 : (-T.value - M) / (-(nth T.c h)) + 1 ≤ θ := le_max_right _ _
  let b' : List K := (List.range T.a.length).map fun k => nth T.b k - θ * nth (row T.a k) h
  let v := fill b' T.basis 0 (List.replicate T.c.length 0)
  have hvlen : v.length = T.c.length := by simp [v, fill_length]
  have hvh : nth v h = 0 := by
    rw [nth_fill_not_mem b' T.basis 0 _ h (basis_lt hC) hnb, nth_replicate_zero]
  have hdot : ∀ (r : List K), r.length = T.c.length → dot r (rayPoint T h θ) = dot r v + nth r h * θ := by
    intro r hr
    show dot r (v.set h θ) = _
    rw [dot_set r v h θ (by rw [hvlen]; exact hh1) (by rw [hr, hvlen]), hvh]; ring
  refine ⟨rayPoint T h θ, ?_, ?_, ?_, ?_⟩
  · show (v.set h θ).length = n
    rw [List.length_set, hvlen, hC.rect.costs]
  · intro i hi
    have him : i < m := hC.rect.rows ▸ hi
    rw [hdot _ (by rw [hC.rect.width i him, hC.rect.costs])]
    show dot (row T.a i) (fill b' T.basis 0 _) + _ = _
    rw [dot_fill_unit b' (row T.a i) i T.basis 0 _ (by simp [hC.rect.width i him, hC.rect.costs]) (basis_nodup hC)
      (basis_lt hC) (fun j _ => nth_replicate_zero _ _)
      (by intro k hk
          have := hC.unit i k hi (by rw [hC.rect.rows, ← hC.rect.basis]; exact hk)
          simpa using this)]
    have : 0 ≤ i ∧ i < 0 + T.basis.length := ⟨Nat.zero_le _, by rw [hC.rect.basis]; simpa using him⟩
    rw [if_pos this, dot_replicate_zero, nth_map_range _ _ _ hi]; ring
  · intro j
    show 0 ≤ nth (v.set h θ) j
    rw [nth_set _ _ _ _ (by rw [hvlen]; exact hh1)]
    split
    · exact hθ0
    · apply fill_nonneg b' _ T.basis 0 _ (basis_lt hC) (fun j => by rw [nth_replicate_zero])
      intro k
      by_cases hk : k < T.a.length
      · rw [nth_map_range _ _ _ hk]
        have hb : 0 ≤ nth T.b k := by simpa using hF k hk
        have := mul_nonpos_of_nonneg_of_nonpos hθ0 (hcol k hk)
        linarith
      · have hk' : T.a.length ≤ k := Nat.le_of_not_lt hk
        have : nth b' k = 0 := by
          simp only [b', nth, List.getD_eq_getElem?_getD]
          rw [List.getElem?_eq_none (by simpa using hk')]; simp
        rw [this]
  · have hsol : Sol T (rayPoint T h θ) := by
      intro i hi
      have him : i < m := hC.rect.rows ▸ hi
      rw [hdot _ (by rw [hC.rect.width i him, hC.rect.costs])]
      show dot (row T.a i) (fill b' T.basis 0 _) + _ = _
      rw [dot_fill_unit b' (row T.a i) i T.basis 0 _ (by simp [hC.rect.width i him, hC.rect.costs]) (basis_nodup hC)
        (basis_lt hC) (fun j _ => nth_replicate_zero _ _)
        (by intro k hk
            have := hC.unit i k hi (by rw [hC.rect.rows, ← hC.rect.basis]; exact hk)
            simpa using this)]
      have : 0 ≤ i ∧ i < 0 + T.basis.length := ⟨Nat.zero_le _, by rw [hC.rect.basis]; simpa using him⟩
      rw [if_pos this, dot_replicate_zero, nth_map_range _ _ _ hi]; ring
    have hlen : (rayPoint T h θ).length = T.c.length := by
      show (v.set h θ).length = _
      rw [List.length_set, hvlen]
    rw [hO _ hlen hsol, hdot T.c rfl]
    show dot T.c (fill b' T.basis 0 _) + _ - _ < M
    rw [dot_fill_zero b' T.c T.basis 0 _ (by simp) (basis_lt hC)
      (by intro j hj
          obtain ⟨k, hk, e⟩ := basis_mem hj
          have := hC.costs k (by rw [hC.rect.rows, ← hC.rect.basis]; exact hk)
          rw [e] at this; simpa using this), dot_replicate_zero]
    simp only [ExactK.sub_eq, zero_add]
    have hneg : 0 < -(nth T.c h) := by linarith
    have h1 : (-T.value - M) / (-(nth T.c h)) < θ := by linarith
    have h2 : -T.value - M < θ * (-(nth T.c h)) := by
      rw [div_lt_iff₀ hneg] at h1; exact h1
    nlinarith

/-- **`Unbounded` is genuine** (exact comparisons): below every bound `M` there is a non-negative solution. -/
theorem unbounded_genuine {T : Tab K} {m n : Nat} (hC : Canon T m n) (hF : Feasible T) {c0 : List K}
    (hO : ObjInv T c0) {prefer : List Nat} {bland : Bool} {e : SimplexErr}
    (hs : stepInner (0:K) T prefer bland = .error e) (M : K) :
    ∃ x : List K, x.length = n ∧ Sol T x ∧ (∀ j, 0 ≤ nth x j) ∧ dot c0 x < M := by
  obtain ⟨-, h, hh, ht⟩ := stepInner_unbounded hs
  obtain ⟨hh1, hh2, hh3⟩ := findH_spec hh
  exact ray_unbounded hC hF hO hh1 (by simpa using hh3) ((ExactK.flt_iff 0 _ 0).1 hh2).1 (col_nonpos_of_findT_none ht) M

/-- a one-row tableau whose basic column is a unit column is canonical (used by the non-vacuity examples). -/
theorem canon_of_one_row (T : Tab K) (r : List K) (b0 : K) (j : Nat) (ha : T.a = [r]) (hb : T.b = [b0])
    (hj : T.basis = [j]) (hr : r.length = T.c.length) (hjn : j < T.c.length) (h1 : nth r j = 1)
    (hc : nth T.c j = 0) : Canon T 1 T.c.length := by
  refine ⟨⟨by simp [ha], by simp [hb], by simp [hj], rfl, ?_⟩, ?_, ?_, ?_⟩
  · intro i hi; have : i = 0 := by omega
    subst this; simp [ha, row, hr]
  · intro i k hi hk
    have hi' : i = 0 := by simp [ha] at hi; omega
    have hk' : k = 0 := by simp [ha] at hk; omega
    subst hi' hk'; simpa [ha, hj, row] using h1
  · intro k hk
    have hk' : k = 0 := by simp [ha] at hk; omega
    subst hk'; simpa [hj] using hjn
  · intro k hk
    have hk' : k = 0 := by simp [ha] at hk; omega
    subst hk'; simpa [hj] using hc

end Unbounded
end Rooc
