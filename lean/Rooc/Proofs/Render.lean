/- The minimal printer (`Rooc/Syntax/Render.lean`) is an instance of the general rendering relation `Tk`. -/
import Rooc.Proofs.Group
import Rooc.Syntax.Render
namespace Rooc.Syntax.Proofs
open Rooc Rooc.Syntax Rooc.Syntax.Doc

theorem digitChar_val : ∀ d, d < 10 → (digitChar d).toNat - 48 = d := by decide

theorem digitsToNat_snoc (cs : List Char) (c : Char) :
    digitsToNat (cs ++ [c]) = 10 * digitsToNat cs + (c.toNat - 48) := by
  simp [digitsToNat, List.foldl_append]

theorem digitsToNat_natDigits (n : Nat) : digitsToNat (natDigits n) = n := by
  induction n using Nat.strongRecOn with
  | _ n ih =>
    rw [natDigits]
    split
    · rename_i h
      simp [digitsToNat, digitChar_val n h]
    · rename_i h
      rw [digitsToNat_snoc, ih (n / 10) (by omega), digitChar_val (n % 10) (by omega)]
      omega

/-- trees of the expression sub-language whose leaves can be written down -/
def WF : PExp → Prop
  | .int v => v ≤ i64Max
  | .num _ => True
  | .bool _ => True
  | .var n => isKeyword n = false
  | .call n args => isFunctionName n = true ∧ n ≠ "not" ∧ WFs args
  | .un _ e => WF e
  | .bin _ l r => WF l ∧ WF r
  | _ => False
where WFs : List PExp → Prop
  | [] => True
  | a :: as => WF a ∧ WFs as

theorem binTokS_mem (alias : Bool) (o : BinOp) : binTokS alias o ∈ binToks o := by
  cases o <;> cases alias <;> simp [binTokS, binToks]
theorem unTokS_mem (alias : Bool) (u : UnOp) : unTokS alias u ∈ unToks u := by
  cases u <;> cases alias <;> simp [unTokS, unToks]

mutual
/-- the minimal printer produces a rendering in the sense of `Tk`; a leaf is rendered as one leaf pair -/
theorem render_tk (alias : Bool) : (t : PExp) → WF t →
    ∃ items, Tk t (render alias t) items ∧ (t.isLeaf = true → items = [.leaf t])
  | .int v, h => by
    refine ⟨[.leaf (.int v)], ?_, fun _ => rfl⟩
    have := Atom.int (String.ofList (natDigits v)) (by simpa [WF, digitsToNat_natDigits] using h)
    simp only [String.toList_ofList, digitsToNat_natDigits] at this
    exact Tk.atom this
  | .num s, _ => ⟨[.leaf (.num s)], Tk.atom (Atom.num s), fun _ => rfl⟩
  | .bool true, _ => ⟨[.leaf (.bool true)], Tk.atom Atom.tt, fun _ => rfl⟩
  | .bool false, _ => ⟨[.leaf (.bool false)], Tk.atom Atom.ff, fun _ => rfl⟩
  | .var n, h => ⟨[.leaf (.var n)], Tk.atom (Atom.var n h), fun _ => rfl⟩
  | .call n args, h => by
    have ha := renderArgs_tk alias args h.2.2
    exact ⟨[.leaf (.call n args)], by simpa [render] using Tk.call h.1 h.2.1 ha, fun _ => rfl⟩
  | .un u e, h => by
    obtain ⟨items, hk, hleaf⟩ := render_tk alias e h
    refine ⟨[.op (docUnRule u), .leaf e], ?_, fun hl => by simp [PExp.isLeaf] at hl⟩
    simp only [render]
    by_cases he : e.isLeaf = true
    · simp only [he, if_true]
      have := hleaf he; subst this
      exact Tk.un hk (unTokS_mem alias u)
    · simp only [he]
      exact Tk.un (Tk.paren hk) (unTokS_mem alias u)
  | .bin o l r, h => by
    obtain ⟨il, hl, _⟩ := render_tk alias l h.1
    obtain ⟨ir, hr, _⟩ := render_tk alias r h.2
    refine ⟨(if needParenLeft o l then [.leaf l] else il) ++ .op (docRule o) :: (if needParenRight o r then [.leaf r] else ir),
      ?_, fun hl => by simp [PExp.isLeaf] at hl⟩
    simp only [render]
    have hL : Tk l (if needParenLeft o l then parenToks (render alias l) else render alias l)
        (if needParenLeft o l then [.leaf l] else il) := by
      by_cases hp : needParenLeft o l = true
      · simp only [hp, if_true]; exact Tk.paren hl
      · simp only [hp]; exact hl
    have hR : Tk r (if needParenRight o r then parenToks (render alias r) else render alias r)
        (if needParenRight o r then [.leaf r] else ir) := by
      by_cases hp : needParenRight o r = true
      · simp only [hp, if_true]; exact Tk.paren hr
      · simp only [hp]; exact hr
    refine Tk.bin hL hR ?_ ?_ (binTokS_mem alias o)
    · by_cases hp : needParenLeft o l = true
      · left; simp [hp]
      · right; simpa using hp
    · by_cases hp : needParenRight o r = true
      · left; simp [hp]
      · right; simpa using hp
  | .str _, h | .prim _, h | .cvar _ _, h | .access _ _, h | .block _ _, h | .scoped _ _ _ _, h => by
    simp [WF] at h
theorem renderArgs_tk (alias : Bool) : (args : List PExp) → WF.WFs args → Args args (renderArgs alias args)
  | [], _ => Args.nil
  | [a], h => by
    obtain ⟨items, hk, _⟩ := render_tk alias a h.1
    simpa [renderArgs] using Args.one hk
  | a :: b :: rest, h => by
    obtain ⟨items, hk, _⟩ := render_tk alias a h.1
    have hr := renderArgs_tk alias (b :: rest) h.2
    simpa [renderArgs] using Args.cons hk hr
end

end Rooc.Syntax.Proofs
