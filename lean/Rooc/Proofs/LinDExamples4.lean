/-
Finding 4 (real code): the residual clause `VerdictDef` of the contract cannot be dropped.
`try_normalize_logic_constraint` decides `(b and (x / 0)) ≤ 1` from the literal alone (`Tautology`), the logic
value is never lowered, the division by zero never reported: the model compiles to NO row.
`min x  s.t.  c: (b and (x / 0)) ≤ 1`,  `x ∈ Real(0, 1)`, `b` Boolean.
-/
import Rooc.Proofs.LinDExamples

set_option linter.unusedSectionVars false
set_option linter.unusedSimpArgs false
set_option linter.unusedVariables false

namespace Rooc.LinP
open Rooc Rooc.Lin Rooc.Sem Rooc.Exp
open Rooc.Lin.Gadget (B01)

variable {K : Type} [Field K] [LinearOrder K] [IsStrictOrderedRing K] [FloorRing K]

/-- `b and (x / 0)`: no value at any assignment. -/
def exTautL : Exp (Ext K) := .and [.var "b", .bin .div (.var "x") (.num (.fin 0))]

def exTautC : Constraint (Ext K) :=
  { name := "c", lhs := exTautL, cmp := .le, rhs := .num (.fin 1), isAssert := false }

def exTaut : Model (Ext K) :=
  { optType := .min, objective := .var "x", constraints := [exTautC],
    domain := [{ name := "x", ty := .real (.fin 0) (.fin 1), usage := 1 }, { name := "b", ty := .bool, usage := 1 }] }

theorem exTaut_norm : normalizeExp (exTautL : Exp (Ext K)) = some exTautL := by
  simp [exTautL, normalizeExp, flattenFuel, flattenF, simplify, naryCore, naryFlatten, naryStep, naryScan, naryKeep,
    mayBeUndefinedAny, mayBeUndefined, divCore, isNumEq, isNonzeroLit, Arith.ne, Arith.eq, Ext.eq, Arith.zero, allNums]

/-- the verdict is `Tautology`: nothing is emitted, nothing is lowered. -/
theorem exTaut_proc (s : St (Ext K)) : processConstraint (exTautC : Constraint (Ext K)) s = .ok ((), s) := by
  unfold processConstraint exTautC
  simp only [bind_ok, simplifyFlat_ok]
  refine ⟨_, _, ⟨_, exTaut_norm, rfl⟩, _, _, ⟨_, exOr_norm_one, rfl⟩, ?_⟩
  simp only [Bool.false_eq_true, if_false]
  unfold dispatch
  simp only [bind_ok, get_ok]
  refine ⟨s, s, rfl, ?_⟩
  have h01 : (0 : K) ≤ 1 := zero_le_one
  have : tryNormalize s.domain (exTautL : Exp (Ext K)) .le (.num (.fin 1)) = some .tautology := by
    simp [tryNormalize, isLogicValue, exTautL, cmpHolds, Arith.le, Ext.le, Arith.zero, Arith.one, h01]
  simp only [this, pure_ok]

noncomputable def exTautLM : LinModel (Ext K) :=
  assemble exTaut (Ctx.fromVar "x" Arith.one)
    { queue := [], rows := [], domain := (exTaut : Model (Ext K)).domain, bounds := [] }

theorem exTaut_ok : linearizeWith (exTaut : Model (Ext K)) [] (exTaut : Model (Ext K)).domain = .ok exTautLM := by
  let s0 : St (Ext K) := { queue := (exTaut : Model (Ext K)).constraints, domain := (exTaut : Model (Ext K)).domain, bounds := [] }
  have hdrain : drain drainFuel s0 = .ok ((), { s0 with queue := [] }) := by
    have h1 : drainFuel = 999998 + 1 + 1 := rfl
    rw [h1]
    apply drain_cons _ s0 _ _ [] rfl (exTaut_proc _)
    exact drain_nil _ _ rfl
  exact (linearizeWith_ok_iff _ _ _ _).mpr ⟨.var "x", s0, Ctx.fromVar "x" Arith.one, s0, _,
    by simp [simplifyFlat_ok, exAbs_norm_var, exTaut, s0], by simp [linExp, pure_ok], hdrain, rfl⟩

theorem exTaut_linFeasible : linFeasible (exTautLM : LinModel (Ext K)) (fun _ => 0) = true := by
  simp [exTautLM, assemble, linFeasible, exTaut, dedupNames, sortStr, insertSortedDup,
    extractCoeffs, rowHolds, dotK, cmpK, inDomain, geExt, leExt, indexOf, indexOf.go]

theorem exTaut_not_srcFeasible (ρ : String → K) : ¬ srcFeasible (exTaut : Model (Ext K)) ρ = true := by
  intro h
  have := ((srcFeasible_iff _ _).mp h).1 exTautC (by simp [exTaut])
  simp [constraintHolds, exTautC, exTautL, eval, evalList, binVal] at this

/-- **the residual clause cannot be dropped** (finding 4): every STATIC clause of the contract holds — scope,
finite literals, no collapsing and/or node — `DomRel` and `BoxEnforced` hold, the model compiles, the linear
model is feasible (`x = 0`, `b = 0`) and the source model is not (its constraint has no value at any
assignment). -/
theorem verdict_needed :
    ∃ (m : Model (Ext K)) (b : BoundsMap (Ext K)) (d : List (DomVar (Ext K))) (lm : LinModel (Ext K))
      (ρ : String → K),
      linearizeWith m b d = .ok lm ∧ DomRel m d ∧ BoxEnforced b d ∧
      (∀ c ∈ m.constraints, GoodS d c.lhs ∧ GoodS d c.rhs) ∧ GoodS d m.objective ∧
      linFeasible lm ρ = true ∧ ∀ ρ' : String → K, ¬ srcFeasible m ρ' = true := by
  have sx : inScope (exTaut : Model (Ext K)).domain "x" :=
    ⟨{ name := "x", ty := .real (.fin 0) (.fin 1), usage := 1 }, by simp [exTaut], rfl, by simp⟩
  have sb : inScope (exTaut : Model (Ext K)).domain "b" :=
    ⟨{ name := "b", ty := .bool, usage := 1 }, by simp [exTaut], rfl, by simp⟩
  have hnd : ((exTaut : Model (Ext K)).domain.map (·.name)).Nodup := by simp [exTaut]
  refine ⟨exTaut, [], exTaut.domain, exTautLM, fun _ => 0, exTaut_ok,
    ⟨hnd, fun _ h => h, fun ρ h => ((srcFeasible_iff _ ρ).mp h).2, fun dv hdv hu => ⟨dv, hdv, rfl, hu⟩⟩,
    by intro ρ _ n bd _ hl; simp [lookupB] at hl, ?_, ?_, exTaut_linFeasible, exTaut_not_srcFeasible⟩
  · intro c hc
    simp only [exTaut, List.mem_singleton] at hc
    subst hc
    have hvars : ∀ y ∈ varsOf (exTautL : Exp (Ext K)), inScope (exTaut : Model (Ext K)).domain y := by
      intro y hy
      simp [exTautL, varsOf, varsOfList] at hy
      rcases hy with rfl | rfl; exacts [sb, sx]
    refine ⟨⟨hvars, by simp [FinE, exTautC, exTautL, finiteLits, finiteLitsL, isFin], ?_⟩,
      ⟨by simp [exTautC, varsOf], by simp [FinE, exTautC, finiteLits, isFin], fun ρ _ => by simp [exTautC, NC]⟩⟩
    exact NCon.ofFlag hnd hvars (by
      simp [exTautC, exTautL, collapsesNonbinary, collapsesNonbinaryAny, collapseHere, simplify, naryCore, naryFlatten,
        naryStep, naryScan, naryKeep, mayBeUndefinedAny, mayBeUndefined, divCore, isNumEq, isNonzeroLit, Arith.ne,
        Arith.eq, Ext.eq, Arith.zero, allNums])
  · exact ⟨by intro y hy; simp [exTaut, varsOf] at hy; subst hy; exact sx, by simp [FinE, exTaut, finiteLits],
      fun ρ _ => by simp [exTaut, NC]⟩

end Rooc.LinP
