/-
Finding 4 (real code, repaired in rooc ba14904): `try_normalize_logic_constraint` decided
`(b and (x / 0)) ≤ 1` from the literal alone (`Tautology`), the logic value was never lowered, the division by zero
never reported: the model compiled to NO row.  Regression: it is now rejected.
`min x  s.t.  c: (b and (x / 0)) ≤ 1`,  `x ∈ Real(0, 1)`, `b` Boolean.
-/
import Rooc.Proofs.LinDExamples

set_option linter.unusedSectionVars false
set_option linter.unusedSimpArgs false
set_option linter.unusedVariables false

namespace Rooc.LinP
open Rooc Rooc.Lin Rooc.Sem Rooc.Exp
open Rooc.Lin.Gadget (B01)

variable {K : Type} [Field K] [LinearOrder K] [IsStrictOrderedRing K] [FloorRing K]

/-- `b and (x / 0)`: no value at any assignment. -/
def exTautL : Exp (Ext K) := .and [.var "b", .bin .div (.var "x") (.num (.fin 0))]

def exTautC : Constraint (Ext K) :=
  { name := "c", lhs := exTautL, cmp := .le, rhs := .num (.fin 1), isAssert := false }

def exTaut : Model (Ext K) :=
  { optType := .min, objective := .var "x", constraints := [exTautC],
    domain := [{ name := "x", ty := .real (.fin 0) (.fin 1), usage := 1 }, { name := "b", ty := .bool, usage := 1 }] }

theorem exTaut_norm : normalizeExp (exTautL : Exp (Ext K)) = some exTautL := by
  simp [exTautL, normalizeExp, flattenFuel, flattenF, simplify, naryCore, naryFlatten, naryStep, naryScan, naryKeep,
    mayBeUndefinedAny, mayBeUndefined, divCore, isNumEq, isNonzeroLit, Arith.ne, Arith.eq, Ext.eq, Arith.zero, allNums]

theorem exTaut_norm_sub : normalizeExp (.bin .sub (exTautL : Exp (Ext K)) (.num (.fin 1)))
    = some (.bin .sub exTautL (.num (.fin 1))) := by
  simp [exTautL, normalizeExp, flattenFuel, flattenF, simplify, naryCore, naryFlatten, naryStep, naryScan, naryKeep,
    mayBeUndefinedAny, mayBeUndefined, divCore, subCore, isNumEq, isNonzeroLit, Arith.ne, Arith.eq, Ext.eq, Arith.zero,
    allNums]

theorem exTaut_div (req : Req) (s : St (Ext K)) :
    linExp (.bin .div (.var "x") (.num (.fin 0)) : Exp (Ext K)) req s = .error .divisionByZero := by
  rw [linExp]
  have h0 : Arith.eq (Ext.fin (0 : K)) (Arith.zero : Ext K) = true := by simp [Arith.eq, Ext.eq, Arith.zero]
  rw [if_pos h0]
  rfl

/-- the logic value is lowered (the operand `b` is fine, the operand `x / 0` is not). -/
theorem exTaut_lin (req : Req) (s : St (Ext K)) (hb : isBoolVar s.domain "b" = true) :
    linExp (exTautL : Exp (Ext K)) req s = .error .divisionByZero := by
  rw [exTautL, linExp]
  simp only [List.isEmpty_cons, Bool.false_eq_true, if_false]
  rw [bind_err]
  left
  rw [linBinaryOperands, bind_err]
  right
  refine ⟨ctxToExp (Ctx.fromVar "b" Arith.one), s, ?_, ?_⟩
  · rw [linBinaryOperand_ok]
    refine ⟨Ctx.fromVar "b" Arith.one, by rw [linExp]; rfl, ?_, rfl⟩
    simp [isBinaryCtx, fromVar_eq, hb, Arith.eq, Ext.eq, Arith.one, Arith.zero]
  · rw [bind_err]
    left
    rw [linBinaryOperands, bind_err]
    left
    unfold linBinaryOperand
    rw [bind_err]
    left
    exact exTaut_div _ _

/-- since fix ba14904 the verdict is no longer `Tautology`: the constraint takes the generic path, the logic value
is lowered, its division by zero reported. -/
theorem exTaut_proc (s : St (Ext K)) (hb : isBoolVar s.domain "b" = true) :
    processConstraint (exTautC : Constraint (Ext K)) s = .error .divisionByZero := by
  unfold processConstraint
  rw [bind_err]
  right
  refine ⟨exTautL, s, (simplifyFlat_ok _ _ _).mpr ⟨_, exTaut_norm, rfl⟩, ?_⟩
  rw [bind_err]
  right
  refine ⟨.num (.fin 1), s, (simplifyFlat_ok _ _ _).mpr ⟨_, exOr_norm_one, rfl⟩, ?_⟩
  show dispatch "c" exTautL .le (.num (.fin 1)) s = _
  unfold dispatch
  rw [bind_err]
  right
  refine ⟨s, s, rfl, ?_⟩
  have h01 : (0 : K) ≤ 1 := zero_le_one
  have : tryNormalize s.domain (exTautL : Exp (Ext K)) .le (.num (.fin 1)) = none := by
    simp [tryNormalize, isLogicValue, exTautL, cmpHolds, Arith.le, Ext.le, Arith.zero, Arith.one, h01,
      mayBeUndefined, mayBeUndefinedAny, isNonzeroLit, Arith.ne, Arith.eq, Ext.eq]
  simp only [this]
  unfold emitConstraint
  simp only [exTaut_norm_sub]
  rw [bind_err]
  left
  rw [linExp, bind_err]
  left
  exact exTaut_lin _ s hb

/-- **regression for the repaired finding 4** (rooc ba14904): `min x s.t. (b and (x / 0)) ≤ 1` used to compile to
NO row (verdict `Tautology` from the literal alone); the compilation is now rejected with `divisionByZero`. -/
theorem exTaut_error :
    linearizeWith (exTaut : Model (Ext K)) [] (exTaut : Model (Ext K)).domain = .error .divisionByZero := by
  let s0 : St (Ext K) := { queue := (exTaut : Model (Ext K)).constraints, domain := (exTaut : Model (Ext K)).domain, bounds := [] }
  have hb : isBoolVar s0.domain "b" = true := by simp [s0, exTaut, isBoolVar, domainType]
  have hdrain : drain drainFuel s0 = .error .divisionByZero := by
    have h1 : drainFuel = 999999 + 1 := rfl
    rw [h1, drain_succ, bind_err]
    right
    refine ⟨s0, s0, rfl, ?_⟩
    show (do set { s0 with queue := [] }; processConstraint exTautC; drain 999999 : M (Ext K) Unit) s0 = _
    rw [bind_err]
    right
    refine ⟨⟨⟩, _, rfl, ?_⟩
    rw [bind_err]
    left
    exact exTaut_proc _ hb
  exact linearizeWith_error_of_drain (o := .var "x") (c := Ctx.fromVar "x" Arith.one) (s1 := s0)
    ((simplifyFlat_ok _ _ _).mpr ⟨_, by simpa [exTaut] using exAbs_norm_var (K := K) "x", rfl⟩)
    (by rw [linExp]; rfl) hdrain

end Rooc.LinP
