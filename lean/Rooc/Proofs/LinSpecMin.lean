/-
Stage C, part 7: `min{…}` — the mirror image of `Rooc/Proofs/LinSpecMax.lean`.
-/
import Rooc.Proofs.LinSpecMax

set_option linter.unusedSectionVars false
set_option linter.unusedSimpArgs false
set_option linter.unusedVariables false

namespace Rooc.LinP
open Rooc Rooc.Lin Rooc.Sem Rooc.Exp
open Rooc.Lin.Gadget (B01)

variable {K : Type} [Field K] [LinearOrder K] [IsStrictOrderedRing K] [FloorRing K]
variable {Src : Constraint (Ext K) → Prop}

/-- the state reached by the one-sided `min` gadget. -/
def minState1 {α : Type} [Arith α] (s : St α) (v : String) (eb : Lin.Bounds α) : St α :=
  declState (bumpMin s) v (.real eb.lower eb.upper)

/-- **one-sided min**: `v ≤ oᵢ` for every (retained) operand. -/
theorem spec_min_oneSided {e : Exp (Ext K)} {rs : List (Exp (Ext K))} {s sL : St (Ext K)} {v : String}
    {eb : Lin.Bounds (Ext K)} {ops : List (Exp (Ext K))}
    (hall : ∀ r ∈ rs, SpecHolds Src r) (hinv : StInv Src s)
    (hvars : ∀ r ∈ rs, ∀ x ∈ varsOf r, inScope s.domain x) (hdef : ∀ r ∈ rs, FinE r)
    (hev : ∀ x ∈ varsOf e, inScope s.domain x)
    (hval : ∀ (ρ : String → K) m, DomSat ρ s.domain → eval ρ e = some m →
      ∃ x xs, evalList ρ rs = some (x :: xs) ∧ m = xs.foldl min x ∧ Encl eb m)
    (hfresh : v ∉ s.domain.map (·.name))
    (hlin : linList rs .higher (minState1 s v eb) = .ok (ops, sL)) :
    Spec Src e .higher s (Ctx.fromVar v Arith.one)
      (pushAll sL (ops.map fun o => mkC (.var v) .le o)) := by
  have I0 : StInv Src (bumpMin s) := hinv.of_eq rfl rfl rfl
  have IV : StInv Src (minState1 s v eb) := I0.declare _ hfresh
  have hscV : ∀ x, inScope s.domain x → inScope (minState1 s v eb).domain x :=
    fun x hx => inScope_declState.mpr (Or.inl hx)
  have hvV : inScope (minState1 s v eb).domain v := inScope_declState.mpr (Or.inr rfl)
  obtain ⟨cs, rfl, L⟩ := specL_of rs hall .higher _ ops sL IV
    (fun r hr x hx => hscV x (hvars r hr x hx)) hdef hlin
  have hvL : inScope sL.domain v := L.scopeMono hvV
  have hvfresh : ∀ x, inScope s.domain x → x ≠ v := by
    rintro x ⟨dv, hdv, rfl, _⟩ hxv
    exact hfresh (List.mem_map.mpr ⟨dv, hdv, hxv⟩)
  set new : List (Constraint (Ext K)) := (cs.map ctxToExp).map fun o => mkC (.var v) .le o with hnew
  have hDv : DefinedE (.var v : Exp (Ext K)) := definedE_of_eval (fun ρ => ρ v) (fun ρ => eval_var ρ v)
  have hnewOK : ∀ c ∈ new, ArithC (inScope sL.domain) c ∧ DefinedC c := by
    intro c hc
    simp only [hnew, List.map_map, List.mem_map, Function.comp] at hc
    obtain ⟨cx, hcx, rfl⟩ := hc
    exact ⟨arithC_mkC _ (AG_var.mpr hvL) (AG_ctxToExp (L.cnames cx hcx)),
      definedC_mkC _ hDv (definedE_ctxToExp (L.cok cx hcx))⟩
  have IF : StInv Src (pushAll sL new) := L.inv.pushAll new hnewOK
  have hrow : ∀ (ρ : String → K), (∀ c ∈ new, constraintHolds ρ c = true) ↔ ∀ cx ∈ cs, ρ v ≤ ctxVal ρ cx := by
    intro ρ
    simp only [hnew, List.map_map, List.mem_map, Function.comp, forall_exists_index, and_imp,
      forall_apply_eq_imp_iff₂]
    constructor
    · intro h cx hcx
      have := h cx hcx
      rw [holds_mkC ρ _ _ _ (eval_var ρ v) (ctxToExp_eval ρ (L.cok cx hcx))] at this
      simpa [cmpK] using this
    · intro h cx hcx
      rw [holds_mkC ρ _ _ _ (eval_var ρ v) (ctxToExp_eval ρ (L.cok cx hcx))]
      simpa [cmpK] using h cx hcx
  have hcv : ∀ ρ : String → K, ctxVal ρ (Ctx.fromVar v (Arith.one : Ext K)) = ρ v := by
    intro ρ; rw [ar_one, fromVar_val]; ring
  obtain ⟨dL, hdL⟩ := L.dom
  obtain ⟨qL, hqL⟩ := L.queue
  refine
  { rows := by rw [pushAll_rows, L.rows]; rfl
    dom := ⟨[{ name := v, ty := .real eb.lower eb.upper, usage := 1 }] ++ dL, by
      rw [pushAll_domain, hdL]; simp [minState1, bumpMin, List.append_assoc]⟩
    queue := ⟨new.reverse ++ qL, by rw [pushAll_queue, hqL]; simp [minState1, bumpMin, List.append_assoc]⟩
    inv := IF
    cok := by rw [ar_one]; exact fromVar_ok v 1
    cnames := by intro x hx; simp at hx; subst hx; exact hvL
    sound := ?_, complete := ?_ }
  · intro ρ hd hq m hm
    have hdL' : DomSat ρ sL.domain := hd
    have hqL' : QSat ρ sL := fun c hc => hq c (by simp [hc])
    have hnewH : ∀ c ∈ new, constraintHolds ρ c = true := fun c hc => hq c (by simp [hc])
    have hdV : DomSat ρ (minState1 s v eb).domain := L.keepsDom hdL'
    have hds : DomSat ρ s.domain := fun dv hdv hu => hdV dv (by simp only [minState1, declState_domain, List.mem_append]; exact Or.inl hdv) hu
    obtain ⟨x, xs, hvs, rfl, _⟩ := hval ρ m hds hm
    have hrel := L.sound ρ hdL' hqL' _ hvs
    have hge := (hrow ρ).mp hnewH
    simp only [rel, hcv]
    rw [Gadget.le_foldl_min_iff]
    -- every operand value is above its context, which is above `ρ v`
    have hall' : ∀ y ∈ x :: xs, ρ v ≤ y := by
      intro y hy
      obtain ⟨i, hi, rfl⟩ := List.mem_iff_getElem.mp hy
      obtain ⟨hlen, hget⟩ := List.forall₂_iff_get.mp hrel
      have hi' : i < cs.length := by omega
      have h1 := hget i hi' hi
      simp only [rel, List.get_eq_getElem] at h1
      exact le_trans (hge _ (List.getElem_mem hi')) h1
    exact ⟨hall' x (by simp), fun y hy => hall' y (by simp [hy])⟩
  · intro ρ hd hq m hm
    obtain ⟨x, xs, hvs, rfl, henc⟩ := hval ρ _ hd hm
    set m := xs.foldl min x with hm'
    -- give the auxiliary its value
    let ρ0 : String → K := Function.update ρ v m
    have hag0 : ∀ y, inScope s.domain y → ρ0 y = ρ y := fun y hy => Function.update_of_ne (hvfresh y hy) _ _
    have FV : Frame s (minState1 s v eb) [{ name := v, ty := .real eb.lower eb.upper, usage := 1 }] [] :=
      ⟨rfl, rfl, rfl⟩
    obtain ⟨hd0, hq0⟩ := FV.lift hinv hd hq hag0 (by
      intro dv hdv _
      simp only [List.mem_singleton] at hdv
      subst hdv
      simp only [ρ0, Function.update_self, inDomain_real_iff]
      exact henc) (by simp)
    have hvs0 : evalList ρ0 rs = some (x :: xs) := by
      rw [← hvs]
      exact evalList_congr (fun r hr => eval_congr r (fun y hy => hag0 y (hvars r hr y hy)))
    obtain ⟨ρ1, hag1, hd1, hq1, hval1⟩ := L.complete ρ0 hd0 hq0 _ hvs0
    have hv1 : ρ1 v = m := by rw [hag1 v hvV]; simp [ρ0]
    have FF : Frame sL (pushAll sL new) [] new.reverse := ⟨rfl, by simp, rfl⟩
    obtain ⟨hdF, hqF⟩ := FF.lift L.inv hd1 hq1 (fun _ _ => rfl) (by intro dv hdv; cases hdv) (by
      intro c hc
      apply ((hrow ρ1).mpr _) c (List.mem_reverse.mp hc)
      intro cx hcx
      rw [hv1]
      have hmem : ctxVal ρ1 cx ∈ cs.map (ctxVal ρ1) := List.mem_map.mpr ⟨cx, hcx, rfl⟩
      rw [hval1] at hmem
      exact Gadget.foldl_min_le x xs _ hmem)
    exact ⟨ρ1, fun y hy => by rw [hag1 y (hscV y hy), hag0 y hy], hdF, hqF, by rw [hcv, hv1]⟩

/-! ### exact min: selector rows -/

/-- the two rows of one operand in the exact `min` gadget. -/
def minPair {α : Type} [Arith α] (v : String) (U : α) (x : (Exp α × Lin.Bounds α) × Exp α) : List (Constraint α) :=
  [mkC (.var v) .le x.1.1,
   mkC (.var v) .ge (subExp x.1.1 (mulExp (.num (Arith.sub x.1.2.upper U)) (subExp (.num Arith.one) x.2)))]

/-- the final state of the exact `min` gadget. -/
def minState2 {α : Type} [Arith α] (sL : St α) (v : String) (U : α) (ops : List (Exp α))
    (rbs : List (Lin.Bounds α)) (selNames : List String) : St α :=
  pushC (pushAll (declAll sL .bool selNames) (((ops.zip rbs).zip (selNames.map .var)).flatMap (minPair v U)))
    (mkC (sumExps (selNames.map .var)) .eq (.num Arith.one))

theorem spec_min_exact {e : Exp (Ext K)} {rs : List (Exp (Ext K))} {s sL : St (Ext K)} {v : String}
    {eb : Lin.Bounds (Ext K)} {ops : List (Exp (Ext K))} {rbs : List (Lin.Bounds (Ext K))} {selNames : List String}
    (req : Req)
    (hall : ∀ r ∈ rs, SpecHolds Src r) (hinv : StInv Src s)
    (hvars : ∀ r ∈ rs, ∀ x ∈ varsOf r, inScope s.domain x) (hdef : ∀ r ∈ rs, FinE r)
    (hval : ∀ (ρ : String → K) m, DomSat ρ s.domain → eval ρ e = some m →
      ∃ x xs, evalList ρ rs = some (x :: xs) ∧ m = xs.foldl min x ∧ Encl eb m ∧
        List.Forall₂ Encl rbs (x :: xs))
    (hU : ∃ U, eb.lower = Ext.fin U) (hLfin : ∀ b ∈ rbs, ∃ l, b.upper = Ext.fin l)
    (hrbs : rbs.length = rs.length)
    (hfresh : v ∉ s.domain.map (·.name))
    (hlin : linList rs .exact (minState1 s v eb) = .ok (ops, sL))
    (hsnl : selNames.length = ops.length) (hsnf : ∀ n ∈ selNames, n ∉ sL.domain.map (·.name))
    (hsnd : selNames.Nodup) :
    Spec Src e req s (Ctx.fromVar v Arith.one) (minState2 sL v eb.lower ops rbs selNames) := by
  obtain ⟨U, hU⟩ := hU
  have I0 : StInv Src (bumpMin s) := hinv.of_eq rfl rfl rfl
  have IV : StInv Src (minState1 s v eb) := I0.declare _ hfresh
  have hscV : ∀ x, inScope s.domain x → inScope (minState1 s v eb).domain x :=
    fun x hx => inScope_declState.mpr (Or.inl hx)
  have hvV : inScope (minState1 s v eb).domain v := inScope_declState.mpr (Or.inr rfl)
  obtain ⟨cs, rfl, L⟩ := specL_of rs hall .exact _ ops sL IV
    (fun r hr x hx => hscV x (hvars r hr x hx)) hdef hlin
  have hvL : inScope sL.domain v := L.scopeMono hvV
  have hvfresh : ∀ x, inScope s.domain x → x ≠ v := by
    rintro x ⟨dv, hdv, rfl, _⟩ hxv
    exact hfresh (List.mem_map.mpr ⟨dv, hdv, hxv⟩)
  -- one list of items (context, bound, selector name)
  obtain ⟨items, hcs, hrb, hsn⟩ := exists_items cs rbs selNames (by rw [L.len, hrbs]) (by
    rw [hsnl, List.length_map])
  subst hcs hrb hsn
  set sD := declAll sL (.bool : VarType (Ext K)) (items.map (·.2)) with hsD
  have ID : StInv Src sD := StInv.declAll .bool _ L.inv hsnf hsnd
  have hsDdom : sD.domain = sL.domain ++ (items.map (·.2)).map
      (fun n => ({ name := n, ty := .bool, usage := 1 } : DomVar (Ext K))) := declAll_domain _ _ _
  have hscD : ∀ x, inScope sL.domain x → inScope sD.domain x := fun x hx => by
    rw [hsDdom]; exact inScope_append_left hx
  have hselD : ∀ it ∈ items, inScope sD.domain it.2 := by
    intro it hit
    rw [hsDdom]
    exact ⟨{ name := it.2, ty := .bool, usage := 1 }, List.mem_append_right _
      (List.mem_map.mpr ⟨it.2, List.mem_map.mpr ⟨it, hit, rfl⟩, rfl⟩), rfl, by simp⟩
  have hselfresh : ∀ it ∈ items, ∀ x, inScope sL.domain x → x ≠ it.2 := by
    rintro it hit x ⟨dv, hdv, rfl, _⟩ hx
    exact hsnf it.2 (List.mem_map.mpr ⟨it, hit, rfl⟩) (List.mem_map.mpr ⟨dv, hdv, hx⟩)
  have htri : (((items.map (·.1.1)).map ctxToExp).zip (items.map (·.1.2))).zip ((items.map (·.2)).map Exp.var)
      = items.map (fun it => ((ctxToExp it.1.1, it.1.2), (Exp.var it.2 : Exp (Ext K)))) := by
    simp only [List.map_map, List.zip_map', Function.comp]
  -- the pushed constraints
  set pairs : List (Constraint (Ext K)) :=
    (items.map (fun it => ((ctxToExp it.1.1, it.1.2), (Exp.var it.2 : Exp (Ext K))))).flatMap (minPair v eb.lower)
    with hpairs
  set sumC : Constraint (Ext K) := mkC (sumExps ((items.map (·.2)).map Exp.var)) .eq (.num Arith.one) with hsumC
  have hstate : minState2 sL v eb.lower ((items.map (·.1.1)).map ctxToExp) (items.map (·.1.2)) (items.map (·.2))
      = pushC (pushAll sD pairs) sumC := by
    simp only [minState2, htri, hsD, hpairs, hsumC]
  rw [hstate]
  have hlof : ∀ it ∈ items, ∃ l, it.1.2.upper = Ext.fin l :=
    fun it hit => hLfin it.1.2 (List.mem_map.mpr ⟨it, hit, rfl⟩)
  have hDv : DefinedE (.var v : Exp (Ext K)) := definedE_of_eval (fun ρ => ρ v) (fun ρ => eval_var ρ v)
  have hcok : ∀ it ∈ items, CtxOK it.1.1 := fun it hit => L.cok _ (List.mem_map.mpr ⟨it, hit, rfl⟩)
  have hcn : ∀ it ∈ items, ∀ x ∈ ctxNames it.1.1, inScope sL.domain x :=
    fun it hit => L.cnames _ (List.mem_map.mpr ⟨it, hit, rfl⟩)
  -- evaluation of the big-M row
  have eM : ∀ (ρ : String → K) it, it ∈ items → ∀ l, it.1.2.upper = Ext.fin l →
      eval ρ (subExp (ctxToExp it.1.1) (mulExp (.num (Arith.sub it.1.2.upper eb.lower))
        (subExp (.num Arith.one) (.var it.2)))) = some (ctxVal ρ it.1.1 - (l - U) * (1 - ρ it.2)) := by
    intro ρ it hit l hl
    rw [hU, hl, ar_sub, ar_one]
    exact eval_subExp (ctxToExp_eval ρ (hcok it hit)) (eval_mulExp (eval_num_fin ρ _)
      (eval_subExp (eval_num_fin ρ _) (eval_var ρ it.2)))
  have hpairsOK : ∀ c ∈ pairs, ArithC (inScope sD.domain) c ∧ DefinedC c := by
    intro c hc
    simp only [hpairs, List.mem_flatMap, List.mem_map] at hc
    obtain ⟨x, ⟨it, hit, rfl⟩, hc⟩ := hc
    obtain ⟨l, hl⟩ := hlof it hit
    have hAGv : AG (inScope sD.domain) (.var v : Exp (Ext K)) := AG_var.mpr (hscD v hvL)
    have hAGo : AG (inScope sD.domain) (ctxToExp it.1.1) := AG_ctxToExp (fun x hx => hscD x (hcn it hit x hx))
    simp only [minPair, List.mem_cons, List.mem_singleton, List.not_mem_nil, or_false] at hc
    rcases hc with rfl | rfl
    · exact ⟨arithC_mkC _ hAGv hAGo, definedC_mkC _ hDv (definedE_ctxToExp (hcok it hit))⟩
    · exact ⟨arithC_mkC _ hAGv (AG_subExp hAGo (AG_mulExp (AG_num _) (AG_subExp (AG_num _)
        (AG_var.mpr (hselD it hit))))), definedC_mkC _ hDv (definedE_of_eval _ (fun ρ => eM ρ it hit l hl))⟩
  have IP : StInv Src (pushAll sD pairs) := ID.pushAll pairs hpairsOK
  have hsumOK : ArithC (inScope (pushAll sD pairs).domain) sumC ∧ DefinedC sumC := by
    refine ⟨arithC_mkC _ (AG_sumVars _ ?_) (AG_num _), definedC_mkC _
      (definedE_of_eval _ (fun ρ => eval_sumVars ρ _))
      (definedE_of_eval (fun _ => (1 : K)) (fun ρ => by rw [ar_one]; exact eval_num_fin ρ 1))⟩
    intro n hn
    obtain ⟨it, hit, rfl⟩ := List.mem_map.mp hn
    exact hselD it hit
  have IF : StInv Src (pushC (pushAll sD pairs) sumC) := IP.pushC hsumOK.1 hsumOK.2
  -- meaning of the rows
  have hrowP : ∀ (ρ : String → K), (∀ c ∈ pairs, constraintHolds ρ c = true) ↔
      ∀ it ∈ items, ∀ l, it.1.2.upper = Ext.fin l →
        ρ v ≤ ctxVal ρ it.1.1 ∧ ctxVal ρ it.1.1 - (l - U) * (1 - ρ it.2) ≤ ρ v := by
    intro ρ
    constructor
    · intro h it hit l hl
      have m1 : mkC (.var v) .le (ctxToExp it.1.1) ∈ pairs := by
        simp only [hpairs, List.mem_flatMap, List.mem_map]
        exact ⟨_, ⟨it, hit, rfl⟩, by simp [minPair]⟩
      have m2 : mkC (.var v) .ge (subExp (ctxToExp it.1.1) (mulExp (.num (Arith.sub it.1.2.upper eb.lower))
          (subExp (.num Arith.one) (.var it.2)))) ∈ pairs := by
        simp only [hpairs, List.mem_flatMap, List.mem_map]
        exact ⟨_, ⟨it, hit, rfl⟩, by simp [minPair]⟩
      have r1 := h _ m1
      have r2 := h _ m2
      rw [holds_mkC ρ _ _ _ (eval_var ρ v) (ctxToExp_eval ρ (hcok it hit))] at r1
      rw [holds_mkC ρ _ _ _ (eval_var ρ v) (eM ρ it hit l hl)] at r2
      exact ⟨by simpa [cmpK] using r1, by simpa [cmpK] using r2⟩
    · intro h c hc
      simp only [hpairs, List.mem_flatMap, List.mem_map] at hc
      obtain ⟨x, ⟨it, hit, rfl⟩, hc⟩ := hc
      obtain ⟨l, hl⟩ := hlof it hit
      obtain ⟨g1, g2⟩ := h it hit l hl
      simp only [minPair, List.mem_cons, List.mem_singleton, List.not_mem_nil, or_false] at hc
      rcases hc with rfl | rfl
      · rw [holds_mkC ρ _ _ _ (eval_var ρ v) (ctxToExp_eval ρ (hcok it hit))]; simpa [cmpK] using g1
      · rw [holds_mkC ρ _ _ _ (eval_var ρ v) (eM ρ it hit l hl)]; simpa [cmpK] using g2
  have hrowS : ∀ (ρ : String → K), constraintHolds ρ sumC = true ↔ ((items.map (·.2)).map ρ).sum = 1 := by
    intro ρ
    rw [holds_mkC ρ _ _ _ (eval_sumVars ρ _) (by rw [ar_one]; exact eval_num_fin ρ 1)]
    simp [cmpK]
  have hcv : ∀ ρ : String → K, ctxVal ρ (Ctx.fromVar v (Arith.one : Ext K)) = ρ v := by
    intro ρ; rw [ar_one, fromVar_val]; ring
  obtain ⟨dL, hdL⟩ := L.dom
  obtain ⟨qL, hqL⟩ := L.queue
  have hqF : (pushC (pushAll sD pairs) sumC).queue = (sumC :: pairs.reverse) ++ sL.queue := by
    simp [hsD, declAll_queue]
  have hdF : (pushC (pushAll sD pairs) sumC).domain = sD.domain := rfl
  refine
  { rows := by simp [hsD, declAll_rows, L.rows]; rfl
    dom := ⟨[{ name := v, ty := .real eb.lower eb.upper, usage := 1 }] ++ dL ++
        (items.map (·.2)).map (fun n => ({ name := n, ty := .bool, usage := 1 } : DomVar (Ext K))), by
      rw [hdF, hsDdom, hdL]; simp [minState1, bumpMin, List.append_assoc]⟩
    queue := ⟨(sumC :: pairs.reverse) ++ qL, by
      rw [hqF, hqL]; simp [minState1, bumpMin, List.append_assoc]⟩
    inv := IF
    cok := by rw [ar_one]; exact fromVar_ok v 1
    cnames := by intro x hx; simp at hx; rw [hx]; exact hscD v hvL
    sound := ?_, complete := ?_ }
  · intro ρ hd hq m hm
    have hdD : DomSat ρ sD.domain := hd
    have hdL' : DomSat ρ sL.domain := by
      rw [hsDdom] at hdD; exact (domSat_append.mp hdD).1
    have hdSel : ∀ it ∈ items, B01 (ρ it.2) := by
      intro it hit
      rw [hsDdom] at hdD
      have := (domSat_append.mp hdD).2 { name := it.2, ty := .bool, usage := 1 }
        (List.mem_map.mpr ⟨it.2, List.mem_map.mpr ⟨it, hit, rfl⟩, rfl⟩) (by simp)
      exact B01_of_inDomain_bool this
    have hqL' : QSat ρ sL := fun c hc => hq c (by rw [hqF]; exact List.mem_append_right _ hc)
    have hP : ∀ c ∈ pairs, constraintHolds ρ c = true := fun c hc => hq c (by
      rw [hqF]; exact List.mem_append_left _ (List.mem_cons_of_mem _ (List.mem_reverse.mpr hc)))
    have hS : constraintHolds ρ sumC = true := hq sumC (by rw [hqF]; simp)
    have hdV : DomSat ρ (minState1 s v eb).domain := L.keepsDom hdL'
    have hds : DomSat ρ s.domain := fun dv hdv hu =>
      hdV dv (by simp only [minState1, declState_domain, List.mem_append]; exact Or.inl hdv) hu
    obtain ⟨x, xs, hvs, rfl, _, _⟩ := hval ρ m hds hm
    have hrel := L.sound ρ hdL' hqL' _ hvs
    -- exact contexts: the list of context values IS the list of operand values
    have hvals : (items.map (·.1.1)).map (ctxVal ρ) = x :: xs := by
      have : List.Forall₂ (fun a b => a = b) ((items.map (·.1.1)).map (ctxVal ρ)) (x :: xs) := by
        rw [List.forall₂_map_left_iff]; exact hrel
      exact List.forall₂_eq_eq_eq ▸ this
    have hrows := (hrowP ρ).mp hP
    have hsum := (hrowS ρ).mp hS
    have key := Gadget.min_selector_sound (L := U) (z := ρ v)
      (items.map (fun it => (ctxVal ρ it.1.1, xval it.1.2.upper, ρ it.2)))
      (by intro t ht; obtain ⟨it, hit, rfl⟩ := List.mem_map.mp ht; exact hdSel it hit)
      (by
        have : (items.map (fun it => (ctxVal ρ it.1.1, xval it.1.2.upper, ρ it.2))).map (·.2.2)
            = (items.map (·.2)).map ρ := by simp only [List.map_map]; rfl
        rw [this]; exact hsum)
      (by
        intro t ht; obtain ⟨it, hit, rfl⟩ := List.mem_map.mp ht
        obtain ⟨l, hl⟩ := hlof it hit
        exact (hrows it hit l hl).1)
      (by
        intro t ht; obtain ⟨it, hit, rfl⟩ := List.mem_map.mp ht
        obtain ⟨l, hl⟩ := hlof it hit
        have := (hrows it hit l hl).2
        simpa [hl] using this)
    have hmapeq : (items.map (fun it => (ctxVal ρ it.1.1, xval it.1.2.upper, ρ it.2))).map (·.1) = x :: xs := by
      rw [← hvals]; simp [List.map_map, Function.comp]
    rw [hmapeq] at key
    apply rel_of_eq
    rw [hcv]
    exact ((Gadget.foldl_min_eq_iff (ρ v) x xs).mpr key).symm
  · intro ρ hd hq m hm
    obtain ⟨x, xs, hvs, rfl, henc, hencs⟩ := hval ρ _ hd hm
    set m := xs.foldl min x with hm'
    let ρ0 : String → K := Function.update ρ v m
    have hag0 : ∀ y, inScope s.domain y → ρ0 y = ρ y := fun y hy => Function.update_of_ne (hvfresh y hy) _ _
    have FV : Frame s (minState1 s v eb) [{ name := v, ty := .real eb.lower eb.upper, usage := 1 }] [] :=
      ⟨rfl, rfl, rfl⟩
    obtain ⟨hd0, hq0⟩ := FV.lift hinv hd hq hag0 (by
      intro dv hdv _
      simp only [List.mem_singleton] at hdv
      subst hdv
      simp only [ρ0, Function.update_self, inDomain_real_iff]
      exact henc) (by simp)
    have hvs0 : evalList ρ0 rs = some (x :: xs) := by
      rw [← hvs]
      exact evalList_congr (fun r hr => eval_congr r (fun y hy => hag0 y (hvars r hr y hy)))
    obtain ⟨ρ1, hag1, hd1, hq1, hval1⟩ := L.complete ρ0 hd0 hq0 _ hvs0
    have hv1 : ρ1 v = m := by rw [hag1 v hvV]; simp [ρ0]
    -- selectors
    have hUm : U ≤ m := by have := henc.1; rw [hU] at this; exact this
    let ps : List (K × K) := items.map (fun it => (ctxVal ρ1 it.1.1, xval it.1.2.upper))
    have hps1 : ps.map (·.1) = x :: xs := by
      rw [← hval1]; simp [ps, List.map_map, Function.comp]
    have hbnd : ∀ p ∈ ps, p.1 ≤ p.2 ∧ U ≤ p.1 := by
      intro p hp
      obtain ⟨it, hit, rfl⟩ := List.mem_map.mp hp
      obtain ⟨i, hi, rfl⟩ := List.mem_iff_getElem.mp hit
      -- the i-th bound encloses the i-th value
      obtain ⟨hlen, hget⟩ := List.forall₂_iff_get.mp hencs
      have hi1 : i < (items.map (·.1.2)).length := by simpa using hi
      have hi2 : i < (x :: xs).length := by omega
      have hE := hget i hi1 hi2
      simp only [List.get_eq_getElem, List.getElem_map] at hE
      have hvi : (x :: xs)[i] = ctxVal ρ1 items[i].1.1 := by
        have : ((items.map (·.1.1)).map (ctxVal ρ1))[i]'(by simpa using hi) = (x :: xs)[i] := by
          simp only [hval1]
        rw [← this]; simp
      obtain ⟨l, hl⟩ := hlof items[i] (List.getElem_mem hi)
      constructor
      · have := hE.2; rw [hl] at this; simp only [upperOK] at this
        simp only [hl, xval_fin]; rw [← hvi]; exact this
      · rw [← hvi]
        exact le_trans hUm (Gadget.foldl_min_le x xs _ (List.getElem_mem hi2))
    obtain ⟨ss, hsslen, hss01, hsssum, hssrows⟩ := Gadget.min_selector_complete (L := U) (z := m) ps hbnd
      (by rw [hps1]; exact Gadget.foldl_min_mem x xs) (by rw [hps1]; exact Gadget.foldl_min_le x xs)
    let npairs : List (String × K) := (items.map (·.2)).zip ss
    have hnlen : ss.length = items.length := by rw [hsslen]; simp [ps]
    have hnp1 : npairs.map (·.1) = items.map (·.2) := by
      simp only [npairs]; exact List.map_fst_zip (by simp [hnlen])
    let ρ2 : String → K := updNames ρ1 npairs
    have hag2 : ∀ y, inScope sL.domain y → ρ2 y = ρ1 y := by
      intro y hy
      apply updNames_of_not_mem
      rw [hnp1]
      intro hmem
      obtain ⟨it, hit, rfl⟩ := List.mem_map.mp hmem
      exact hselfresh it hit _ hy rfl
    have hsel2 : ∀ i (hi : i < items.length), ρ2 items[i].2 = ss[i]'(by omega) := by
      intro i hi
      have hmem : (items[i].2, ss[i]'(by omega)) ∈ npairs := by
        simp only [npairs]
        refine List.mem_iff_getElem.mpr ⟨i, by simp [hnlen, hi], by simp⟩
      exact updNames_of_mem ρ1 npairs (by rw [hnp1]; exact hsnd) _ hmem
    have hv2 : ρ2 v = m := by rw [hag2 v hvL, hv1]
    have hctx2 : ∀ it ∈ items, ctxVal ρ2 it.1.1 = ctxVal ρ1 it.1.1 :=
      fun it hit => ctxVal_congr _ (fun y hy => hag2 y (hcn it hit y hy))
    have FF : Frame sL (pushC (pushAll sD pairs) sumC)
        ((items.map (·.2)).map (fun n => ({ name := n, ty := .bool, usage := 1 } : DomVar (Ext K))))
        (sumC :: pairs.reverse) := ⟨by simp [hsD, declAll_rows], by rw [hdF, hsDdom], hqF⟩
    obtain ⟨hdF2, hqF2⟩ := FF.lift L.inv hd1 hq1 hag2 (by
      intro dv hdv _
      obtain ⟨n, hn, rfl⟩ := List.mem_map.mp hdv
      obtain ⟨it, hit, rfl⟩ := List.mem_map.mp hn
      obtain ⟨i, hi, rfl⟩ := List.mem_iff_getElem.mp hit
      simp only [hsel2 i hi]
      exact inDomain_bool_of_B01 (hss01 _ (List.getElem_mem _))) (by
      intro c hc
      rcases List.mem_cons.mp hc with rfl | hc
      · rw [hrowS]
        have : (items.map (·.2)).map ρ2 = ss := by
          apply List.ext_getElem
          · simp [hnlen]
          · intro i h1 h2
            simp only [List.getElem_map]
            exact hsel2 i (by simpa using h1)
        rw [this, hsssum]
      · apply ((hrowP ρ2).mpr _) c (List.mem_reverse.mp hc)
        intro it hit l hl
        obtain ⟨i, hi, rfl⟩ := List.mem_iff_getElem.mp hit
        have hz : ((ps[i]'(by simp [ps, hi])), ss[i]'(by omega)) ∈ ps.zip ss :=
          List.mem_iff_getElem.mpr ⟨i, by simp [ps, hnlen, hi], by simp⟩
        obtain ⟨g1, g2⟩ := hssrows _ hz
        simp only [ps, List.getElem_map, hl, xval_fin] at g1 g2
        rw [hctx2 _ (List.getElem_mem hi), hv2, hsel2 i hi]
        exact ⟨g1, g2⟩)
    exact ⟨ρ2, fun y hy => by rw [hag2 y (L.scopeMono (hscV y hy)), hag1 y (hscV y hy), hag0 y hy],
      hdF2, hqF2, by rw [hcv, hv2]⟩

/-- the branches of `linearize_extreme` for `min`, once more than one operand is retained. -/
theorem linExtreme_min_gadget {es : List (Exp (Ext K))} {req : Req} {s : St (Ext K)} {r : Ctx (Ext K) × St (Ext K)}
    (h : linExtreme .min es req s = .ok r)
    (hn1 : ((retainedFlagsE .min es (boundsOfList s.bounds es)).filter id).length ≠ 1) :
    let flags := retainedFlagsE .min es (boundsOfList s.bounds es)
    let rs := selectFlagged es flags
    let rbs := selectFlagged (boundsOfList s.bounds es) flags
    let eb := boundsOf s.bounds (.min rs)
    es ≠ [] ∧ (flags.filter id).length ≠ 0 ∧
    ∃ (v : String) (ops : List (Exp (Ext K))) (sL : St (Ext K)),
      v ∉ s.domain.map (·.name) ∧
      ((req = .higher ∧ linList rs .higher (minState1 s v eb) = .ok (ops, sL) ∧
          r = (Ctx.fromVar v Arith.one, pushAll sL (ops.map fun o => mkC (.var v) .le o))) ∨
       (req ≠ .higher ∧ Arith.isFinite eb.lower = true ∧ (∀ b ∈ rbs, Arith.isFinite b.upper = true) ∧
          linList rs .exact (minState1 s v eb) = .ok (ops, sL) ∧
          ∃ selNames : List String, selNames.length = ops.length ∧
            (∀ n ∈ selNames, n ∉ sL.domain.map (·.name)) ∧ selNames.Nodup ∧
            r = (Ctx.fromVar v Arith.one, minState2 sL v eb.lower ops rbs selNames))) := by
  intro flags rs rbs eb
  rw [linExtreme.eq_def] at h
  simp only [ite_ok, fail_ok, bind_ok, get_ok, set_ok, declareVariable_ok, pure_ok, and_false, false_or] at h
  obtain ⟨hne, s0, s0', h0, h⟩ := h
  cases h0
  obtain ⟨hn0, h⟩ := h
  have hne' : es ≠ [] := by intro h'; apply hne; simp [h']
  have hn0' : (flags.filter id).length ≠ 0 := by simpa using hn0
  rcases h with ⟨hone, _⟩ | ⟨_, h⟩
  · exact absurd (by simpa using hone) hn1
  · obtain ⟨hfin, u1, s1, hs1, u2, s2, ⟨hfresh, hs2⟩, ops, sL, hlin, hrest⟩ := h
    cases hs1; cases hs2
    generalize hv : (toString "$" ++ toString ExtKind.min.name ++ toString "_" ++ toString s.minCount) = v at *
    refine ⟨hne', hn0', v, ops, sL, hfresh, ?_⟩
    rw [linFlagged_eq] at hlin
    rcases hrest with ⟨hos, u3, s3, hloop, hr⟩ | ⟨hos, u3, sD, hdecl, u4, sP, hpush, u5, s5, hsum, hr⟩
    · left
      have hreq : req = .higher := by simpa using hos
      subst hreq
      simp only [beq_self_eq_true, Bool.and_self, Bool.true_or, if_true] at hlin
      have hloop' := (forIn_ok (fun o => addConstraint (mkC (.var v) .le o)) _ (by intro x u; rfl) _ _ _).mp hloop
      rw [seqOK_push _ (fun o => [mkC (.var v) .le o]) (fun x s => addConstraint_eq _ s)] at hloop'
      simp only [flatMap_singleton_map] at hloop'
      subst hloop'
      exact ⟨rfl, hlin, hr⟩
    · right
      have hreq : req ≠ .higher := by
        intro hreq; apply hos; simp [hreq]
      have hos' : (ExtKind.min == ExtKind.max && req == Req.lower || ExtKind.min == ExtKind.min && req == Req.higher) = false := by
        simpa using hos
      simp only [hos', Bool.false_eq_true, if_false] at hlin
      simp only [hos', Bool.not_false, Bool.true_and, Bool.not_eq_true', Bool.not_eq_false, Bool.and_eq_true,
        List.all_eq_true] at hfin
      have hdecl' := (forIn_ok (fun sn => declareVariable sn (VarType.bool : VarType (Ext K))) _
        (by intro x u; rfl) _ _ _).mp hdecl
      obtain ⟨hsD, hfreshSel, hnd⟩ := (seqOK_declare _ _ _ _).mp hdecl'
      simp only at hsD
      subst hsD
      have hpush' := (forIn_ok (fun (x : (Exp (Ext K) × Lin.Bounds (Ext K)) × Exp (Ext K)) => do
          addConstraint (mkC (.var v) .le x.1.1)
          addConstraint (mkC (.var v) .ge (subExp x.1.1 (mulExp (.num (Arith.sub x.1.2.upper eb.lower))
            (subExp (.num Arith.one) x.2))))) _ (by intro x u; simp [bind_assoc]; rfl) _ _ _).mp hpush
      rw [seqOK_push _ (minPair v eb.lower) (by
        intro x s
        simp only [bind_ok, minPair]
        exact ⟨⟨⟩, _, addConstraint_eq _ _, by rw [addConstraint_eq, pushAll_append]; rfl⟩)] at hpush'
      simp only at hpush'
      subst hpush'
      rw [addConstraint_ok] at hsum
      cases hsum
      exact ⟨hreq, hfin.1, hfin.2, hlin, _, by simp, hfreshSel, hnd, hr⟩

theorem eval_min_some {ρ : String → K} {es : List (Exp (Ext K))} {m : K} (h : eval ρ (.min es) = some m) :
    ∃ x xs, evalList ρ es = some (x :: xs) ∧ m = xs.foldl min x := by
  rw [eval] at h
  cases hl : evalList ρ es with
  | none => simp [hl] at h
  | some vs =>
    cases vs with
    | nil => simp [hl] at h
    | cons x xs =>
      simp only [hl, Option.some.injEq] at h
      exact ⟨x, xs, rfl, by rw [← h, foldl_kmin_eq]⟩

theorem eval_min_of_list {ρ : String → K} {es : List (Exp (Ext K))} {x : K} {xs : List K}
    (h : evalList ρ es = some (x :: xs)) : eval ρ (.min es) = some (xs.foldl min x) := by
  rw [eval]; simp only [h, foldl_kmin_eq]

/-- pruning, semantically: the value of `max es` is the maximum over the retained operands, whose
bounds enclose them. -/
theorem min_hval (hbo : BoundsOracle K) {es : List (Exp (Ext K))} {bm : BoundsMap (Ext K)} {ρ : String → K} {m : K}
    {S : String → Prop} (hbox : BoxOKon S ρ bm) (hS : ∀ e ∈ es, ∀ x ∈ varsOf e, S x)
    (hm : eval ρ (.min es) = some m) :
    ∃ x xs, evalList ρ (selectFlagged es (retainedFlagsE .min es (boundsOfList bm es))) = some (x :: xs) ∧
      m = xs.foldl min x ∧
      Encl (boundsOf bm (.min (selectFlagged es (retainedFlagsE .min es (boundsOfList bm es))))) m ∧
      List.Forall₂ Encl (selectFlagged (boundsOfList bm es) (retainedFlagsE .min es (boundsOfList bm es))) (x :: xs) := by
  obtain ⟨y, ys, hvs, rfl⟩ := eval_min_some hm
  have hF := evalList_eq_some_iff.mp hvs
  have hE : List.Forall₂ Encl (boundsOfList bm es) (y :: ys) := by
    rw [boundsOfList_eq_map, List.forall₂_map_left_iff]
    have hF' : List.Forall₂ (fun e v => eval ρ e = some v ∧ e ∈ es) es (y :: ys) := by
      rw [List.forall₂_iff_get] at hF ⊢
      exact ⟨hF.1, fun i h1 h2 => ⟨hF.2 i h1 h2, List.getElem_mem h1⟩⟩
    exact hF'.imp (fun e _ he => hbo.on hbox (hS e he.2) he.1)
  obtain ⟨x, xs, hsel, hmax⟩ := min_pruned hE
    (retainedFlagsE_covers .min es _ (by rw [boundsOfList_eq_map, List.length_map]))
  have hrs := evalList_selectFlagged (retainedFlagsE .min es (boundsOfList bm es)) hvs
  rw [hsel] at hrs
  refine ⟨x, xs, hrs, hmax.symm, ?_, ?_⟩
  · rw [← hmax]
    refine hbo.on hbox ?_ (eval_min_of_list hrs)
    intro x hx
    simp only [varsOf] at hx
    obtain ⟨e, he, hxe⟩ := mem_varsOfList.mp hx
    exact hS e (selectFlagged_subset he) x hxe
  · rw [← hsel]; exact forall₂_selectFlagged _ hE

theorem DefinedE.min_mem {es : List (Exp (Ext K))} (h : DefinedE (.min es)) : ∀ e ∈ es, DefinedE e := by
  intro e he ρ
  obtain ⟨m, hm⟩ := h ρ
  obtain ⟨x, xs, hvs, _⟩ := eval_min_some hm
  have hF := evalList_eq_some_iff.mp hvs
  obtain ⟨i, hi, rfl⟩ := List.mem_iff_getElem.mp he
  obtain ⟨hlen, hget⟩ := List.forall₂_iff_get.mp hF
  exact ⟨_, hget i hi (by omega)⟩

theorem spec_min (hbo : BoundsOracle K) {es : List (Exp (Ext K))} (ih : ∀ e ∈ es, SpecHolds Src e) :
    SpecHolds Src (.min es) := by
  intro req s c s' hpre h
  rw [linExp] at h
  have hvars : ∀ e ∈ es, ∀ x ∈ varsOf e, inScope s.domain x := fun e he x hx =>
    hpre.vars x (by simp only [varsOf]; exact mem_varsOfList.mpr ⟨e, he, hx⟩)
  have hdef : ∀ e ∈ es, FinE e := hpre.defined.min_mem
  set flags := retainedFlagsE .min es (boundsOfList s.bounds es) with hflags
  have hsub : ∀ r ∈ selectFlagged es flags, r ∈ es := fun r hr => selectFlagged_subset hr
  have hval : ∀ (ρ : String → K) m, DomSat ρ s.domain → eval ρ (.min es) = some m →
      ∃ x xs, evalList ρ (selectFlagged es flags) = some (x :: xs) ∧ m = xs.foldl min x ∧
        Encl (boundsOf s.bounds (.min (selectFlagged es flags))) m ∧
        List.Forall₂ Encl (selectFlagged (boundsOfList s.bounds es) flags) (x :: xs) :=
    fun ρ m hd hm => min_hval hbo (hpre.inv.box ρ hd) hvars hm
  have hlenflags : es.length = flags.length := by
    rw [hflags, retainedFlagsE_length _ _ _ (by rw [boundsOfList_eq_map, List.length_map])]
  by_cases hn1 : (flags.filter id).length = 1
  · -- a single retained operand: it is linearized with the caller's requirement
    rw [linExtreme.eq_def] at h
    simp only [ite_ok, fail_ok, bind_ok, get_ok, and_false, false_or] at h
    obtain ⟨_, s0, s0', h0, h⟩ := h
    cases h0
    obtain ⟨_, h⟩ := h
    rcases h with ⟨_, h⟩ | ⟨hne1, _⟩
    · rw [linFirstFlagged_eq] at h
      have hlen := selectFlagged_length es flags hlenflags
      rw [hn1] at hlen
      cases hrs : selectFlagged es flags with
      | nil => rw [hrs] at hlen; simp at hlen
      | cons e1 rest =>
        rw [hrs] at hlen
        have hrest : rest = [] := by
          cases rest with
          | nil => rfl
          | cons _ _ => simp at hlen
        subst hrest
        simp only [← hflags, hrs] at h
        have he1 : e1 ∈ es := hsub e1 (by rw [hrs]; simp)
        have A := ih e1 he1 req s c s' ⟨hpre.inv, hvars e1 he1, hdef e1 he1⟩ h
        refine Spec.map1 id A A.cok (fun _ hx => hx) (fun _ => rfl) ?_
        intro ρ m hd hm
        obtain ⟨x, xs, hvs, rfl, _, _⟩ := hval ρ m hd hm
        rw [hrs] at hvs
        obtain ⟨v1, ws, hv1, hws, hcons⟩ := evalList_cons_some hvs
        simp [evalList] at hws
        subst hws
        simp only [List.cons.injEq] at hcons
        obtain ⟨rfl, rfl⟩ := hcons
        exact ⟨x, hv1, fun a1 r1 => by simpa using r1, by simp⟩
    · exact absurd (by simpa using hn1) hne1
  · obtain ⟨_, _, v, ops, sL, hfresh, hcase⟩ := linExtreme_min_gadget h hn1
    have hall : ∀ r ∈ selectFlagged es flags, SpecHolds Src r := fun r hr => ih r (hsub r hr)
    have hvars' : ∀ r ∈ selectFlagged es flags, ∀ x ∈ varsOf r, inScope s.domain x :=
      fun r hr => hvars r (hsub r hr)
    have hdef' : ∀ r ∈ selectFlagged es flags, FinE r := fun r hr => hdef r (hsub r hr)
    rcases hcase with ⟨rfl, hlin, hr⟩ | ⟨hreq, hfU, hfL, hlin, selNames, hsl, hsf, hsn, hr⟩
    · simp only [Prod.mk.injEq] at hr
      obtain ⟨rfl, rfl⟩ := hr
      exact spec_min_oneSided hall hpre.inv hvars' hdef' hpre.vars
        (fun ρ m hd hm => by
          obtain ⟨x, xs, h1, h2, h3, _⟩ := hval ρ m hd hm
          exact ⟨x, xs, h1, h2, h3⟩) hfresh hlin
    · simp only [Prod.mk.injEq] at hr
      obtain ⟨rfl, rfl⟩ := hr
      refine spec_min_exact req hall hpre.inv hvars' hdef' hval ((isFinite_iff _).mp hfU)
        (fun b hb => (isFinite_iff _).mp (hfL b hb)) ?_ hfresh hlin hsl hsf hsn
      have hl2 : (boundsOfList s.bounds es).length = flags.length := by
        rw [← hlenflags, boundsOfList_eq_map, List.length_map]
      rw [selectFlagged_length _ _ hl2, selectFlagged_length _ _ hlenflags]

end Rooc.LinP
