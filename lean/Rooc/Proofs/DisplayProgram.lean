/-
C12 helper lemmas: the token twins of `Display for Model` / `Display for LinearModel` (`Rooc/DisplayProgram.lean`)
are programs of rendered lines in the sense of `Proofs/ProgramGen.lean`, so the program-level parser model reads
them back as `modelProgram` / `linProgram`.
-/
import Rooc.Proofs.ProgramGen
import Rooc.Proofs.DisplayParse
import Rooc.Proofs.Field
namespace Rooc.Display
open Rooc Rooc.Syntax Rooc.Syntax.Proofs Rooc.Syntax.Doc Arith

/-- a digit-string token fits `i64` (`Rule::integer => parse::<i64>()`); nothing is asked of other tokens -/
def IntOk (s : String) : Prop := isIntText s = true → digitsToNat s.toList ≤ i64Max

theorem tk_numTok {s : String} (h : IntOk s) : Tk (numP s) [numTok s] [.leaf (numP s)] := by
  by_cases hi : isIntText s = true
  · simpa [numP, numTok, hi] using Tk.atom (Atom.int s (h hi))
  · simpa [numP, numTok, hi] using Tk.atom (Atom.num s)

theorem wf_numP {s : String} (h : IntOk s) : WF (numP s) := by
  by_cases hi : isIntText s = true
  · simpa [numP, hi, WF] using h hi
  · simp [numP, hi, WF]

/-- the tokens `fmtToks` writes for a number tree are the number token when the digit string is canonical;
in general they are A rendering of the same tree, which is all the `define` block needs -/
theorem wf_zero : WF (.int 0) := by simp [WF, i64Max]

section
variable {α : Type} [Arith α] (tok : α → String)
set_option linter.unusedSectionVars false

/-! ### linear expressions -/

theorem tk_termBody {v : String} (hv : isKeyword v = false) (m : Option α) (hm : ∀ x, m = some x → IntOk (tok x)) :
    Tk (termBodyP tok v m) (termBodyToks tok v m) [.leaf (termBodyP tok v m)] := by
  cases m with
  | none => exact Tk.atom (Atom.var v hv)
  | some x =>
    have hx := hm x rfl
    by_cases hi : isIntText (tok x) = true
    · have := Tk.imul (Juxt.int (hx hi) Juxt.nil) (VarTail.var v hv) (by simp)
      simpa [termBodyP, termBodyToks, numP, numTok, hi, mulAll] using this
    · have := Tk.imul (Juxt.num (s := tok x) Juxt.nil) (VarTail.var v hv) (by simp)
      simpa [termBodyP, termBodyToks, numP, numTok, hi, mulAll] using this

/-- what a running sum may be: no parentheses needed as the left operand of `+` / `-` -/
def SumOk (acc : PExp) : Prop := needParenLeft .add acc = false ∧ needParenLeft .sub acc = false

theorem sumOk_bin_add (l r : PExp) : SumOk (.bin .add l r) := by
  have h1 : decide (rbpD .add < lbpD .add) = false := by decide
  have h2 : decide (rbpD .add < lbpD .sub) = false := by decide
  exact ⟨by simp only [needParenLeft, h1], by simp only [needParenLeft, h2]⟩
theorem sumOk_bin_sub (l r : PExp) : SumOk (.bin .sub l r) := by
  have h1 : decide (rbpD .sub < lbpD .add) = false := by decide
  have h2 : decide (rbpD .sub < lbpD .sub) = false := by decide
  exact ⟨by simp only [needParenLeft, h1], by simp only [needParenLeft, h2]⟩
theorem sumOk_bin_mul (l r : PExp) : SumOk (.bin .mul l r) := by
  have h1 : decide (rbpD .mul < lbpD .add) = false := by decide
  have h2 : decide (rbpD .mul < lbpD .sub) = false := by decide
  exact ⟨by simp only [needParenLeft, h1], by simp only [needParenLeft, h2]⟩

/-- the coefficients of a term list: the variable is not a keyword and the magnitude token is fine -/
def TermsOk (ts : List (String × α)) : Prop :=
  ∀ p ∈ ts, isKeyword p.1 = false ∧ IntOk (tok (Arith.abs p.2))

theorem magOk {c : α} (h : IntOk (tok (Arith.abs c))) : ∀ x, (formatVarParts c).2 = some x → IntOk (tok x) := by
  intro x hx
  unfold formatVarParts at hx
  simp only at hx
  split at hx
  · cases hx
  · cases hx; exact h

theorem tk_rest : ∀ (ts : List (String × α)), TermsOk tok ts → ∀ (acc : PExp) (L : List Tok) (il : List Item),
    Tk acc L il → SumOk acc → ∃ items, Tk (restP tok acc ts) (L ++ restToks tok ts) items ∧ SumOk (restP tok acc ts)
  | [], _, acc, L, il, hk, hs => ⟨il, by simpa [restP, restToks] using hk, hs⟩
  | (v, c) :: ts, h, acc, L, il, hk, hs => by
    obtain ⟨hv, hc⟩ := h (v, c) List.mem_cons_self
    have hb := tk_termBody tok hv (formatVarParts c).2 (magOk tok hc)
    have hts : TermsOk tok ts := fun p hp => h p (List.mem_cons_of_mem _ hp)
    cases hsg : (formatVarParts c).1 with
    | true =>
      have hbin := Tk.bin (o := .sub) (optok := .minus) hk hb (Or.inr hs.2) (Or.inl rfl) (by simp [binToks])
      obtain ⟨items, h1, h2⟩ := tk_rest ts hts _ _ _ hbin (sumOk_bin_sub _ _)
      exact ⟨items, by simpa [restP, restToks, hsg] using h1, by simpa [restP, hsg] using h2⟩
    | false =>
      have hbin := Tk.bin (o := .add) (optok := .plus) hk hb (Or.inr hs.1) (Or.inl rfl) (by simp [binToks])
      obtain ⟨items, h1, h2⟩ := tk_rest ts hts _ _ _ hbin (sumOk_bin_add _ _)
      exact ⟨items, by simpa [restP, restToks, hsg] using h1, by simpa [restP, hsg] using h2⟩

theorem sumOk_termBody (v : String) (m : Option α) : SumOk (termBodyP tok v m) := by
  cases m with
  | none => exact ⟨rfl, rfl⟩
  | some x => exact sumOk_bin_mul _ _

theorem tk_linExp (ts : List (String × α)) (h : TermsOk tok ts) :
    ∃ items, Tk (linExpP tok ts) (linExpToks tok ts) items ∧ SumOk (linExpP tok ts) := by
  cases ts with
  | nil =>
    have := Tk.atom (Atom.int "0" (by decide))
    have h0 : digitsToNat "0".toList = 0 := by decide
    rw [h0] at this
    exact ⟨_, this, rfl, rfl⟩
  | cons p ts =>
    obtain ⟨v, c⟩ := p
    obtain ⟨hv, hc⟩ := h (v, c) List.mem_cons_self
    have hb := tk_termBody tok hv (formatVarParts c).2 (magOk tok hc)
    have hts : TermsOk tok ts := fun p hp => h p (List.mem_cons_of_mem _ hp)
    cases hsg : (formatVarParts c).1 with
    | true =>
      have hun := Tk.un (u := .neg) (utok := .minus) hb (by simp [unToks])
      obtain ⟨items, h1, h2⟩ := tk_rest tok ts hts _ _ _ hun ⟨rfl, rfl⟩
      exact ⟨items, by simpa [linExpP, linExpToks, hsg] using h1, by simpa [linExpP, hsg] using h2⟩
    | false =>
      obtain ⟨items, h1, h2⟩ := tk_rest tok ts hts _ _ _ hb (sumOk_termBody tok v _)
      exact ⟨items, by simpa [linExpP, linExpToks, hsg] using h1, by simpa [linExpP, hsg] using h2⟩

/-- a value and its magnitude print as fine tokens -/
def ValOk (v : α) : Prop := IntOk (tok v) ∧ IntOk (tok (Arith.abs v))

theorem tk_offset {off : α} (ho : ValOk tok off) {acc : PExp} {L : List Tok} {il : List Item} (hk : Tk acc L il)
    (hs : SumOk acc) : ∃ items, Tk (offsetP tok off acc) (L ++ offsetToks tok off) items := by
  unfold offsetP offsetToks
  by_cases hz : isZero off = true
  · exact ⟨il, by simpa [hz] using hk⟩
  · by_cases hl : floatLt off zero = true
    · have := Tk.bin (o := .sub) (optok := .minus) hk (tk_numTok ho.2) (Or.inr hs.2) (Or.inl rfl) (by simp [binToks])
      exact ⟨_, by simpa [hz, hl] using this⟩
    · have := Tk.bin (o := .add) (optok := .plus) hk (tk_numTok ho.1) (Or.inr hs.1) (Or.inl rfl) (by simp [binToks])
      exact ⟨_, by simpa [hz, hl] using this⟩

theorem tk_signed {v : α} (h : ValOk tok v) : ∃ items, Tk (signedP tok v) (signedToks tok v) items := by
  unfold signedP signedToks
  by_cases hl : Arith.lt v zero = true
  · exact ⟨_, by simpa [hl] using Tk.un (u := .neg) (utok := .minus) (tk_numTok h.2) (by simp [unToks])⟩
  · exact ⟨_, by simpa [hl] using tk_numTok h.1⟩

theorem tk_rhs {v : α} (h : ValOk tok v) : ∃ items, Tk (rhsP tok v) (rhsToks tok v) items := by
  unfold rhsP rhsToks
  by_cases hz : isZero v = true
  · have := Tk.atom (Atom.int "0" (by decide))
    have h0 : digitsToNat "0".toList = 0 := by decide
    rw [h0] at this
    exact ⟨_, by simpa [hz] using this⟩
  · simpa [hz] using tk_signed tok h

theorem termList_mem : ∀ (cs : List α) (vs : List String) (ts : List (String × α)), termList cs vs = some ts →
    ∀ p ∈ ts, p.1 ∈ vs ∧ p.2 ∈ cs
  | [], _, ts, h, p, hp => by simp [termList] at h; subst h; cases hp
  | c :: cs, vs, ts, h, p, hp => by
    unfold termList at h
    by_cases hz : isZero c = true
    · simp only [hz, if_true] at h
      obtain ⟨h1, h2⟩ := termList_mem cs vs.tail ts h p hp
      exact ⟨List.mem_of_mem_tail h1, List.mem_cons_of_mem _ h2⟩
    · simp only [hz, Bool.false_eq_true, if_false] at h
      cases vs with
      | nil => cases h
      | cons v vs' =>
        simp only [Option.map_eq_some_iff] at h
        obtain ⟨ts', h', rfl⟩ := h
        rcases List.mem_cons.1 hp with rfl | hp'
        · exact ⟨List.mem_cons_self, List.mem_cons_self⟩
        · obtain ⟨h1, h2⟩ := termList_mem cs vs' ts' h' p hp'
          exact ⟨List.mem_cons_of_mem _ h1, List.mem_cons_of_mem _ h2⟩

theorem termList_nonzero : ∀ (cs : List α) (vs : List String) (ts : List (String × α)), termList cs vs = some ts →
    ∀ p ∈ ts, isZero p.2 = false
  | [], _, ts, h, p, hp => by simp [termList] at h; subst h; cases hp
  | c :: cs, vs, ts, h, p, hp => by
    unfold termList at h
    by_cases hz : isZero c = true
    · simp only [hz, if_true] at h
      exact termList_nonzero cs vs.tail ts h p hp
    · simp only [hz, Bool.false_eq_true, if_false] at h
      cases vs with
      | nil => cases h
      | cons v vs' =>
        simp only [Option.map_eq_some_iff] at h
        obtain ⟨ts', h', rfl⟩ := h
        rcases List.mem_cons.1 hp with rfl | hp'
        · simpa using hz
        · exact termList_nonzero cs vs' ts' h' p hp'

theorem allSome_mem {β : Type} : ∀ (xs : List (Option β)) (ys : List β), allSome xs = some ys →
    ∀ y ∈ ys, some y ∈ xs
  | [], ys, h, y, hy => by simp [allSome] at h; subst h; cases hy
  | none :: xs, ys, h, _, _ => by simp [allSome] at h
  | some x :: xs, ys, h, y, hy => by
    simp only [allSome, Option.map_eq_some_iff] at h
    obtain ⟨ys', h', rfl⟩ := h
    rcases List.mem_cons.1 hy with rfl | hy'
    · exact List.mem_cons_self
    · exact List.mem_cons_of_mem _ (allSome_mem xs ys' h' y hy')

theorem allSome_length {β : Type} : ∀ (xs : List (Option β)) (ys : List β), allSome xs = some ys → ys.length = xs.length
  | [], ys, h => by simp [allSome] at h; subst h; rfl
  | none :: xs, ys, h => by simp [allSome] at h
  | some x :: xs, ys, h => by
    simp only [allSome, Option.map_eq_some_iff] at h
    obtain ⟨ys', h', rfl⟩ := h
    simp [allSome_length xs ys' h']

/-! ### the `define` block -/

def TyOk : VarType α → Prop
  | .bool => True
  | .nnreal lo hi => ValOk tok lo ∧ ValOk tok hi
  | .real lo hi => ValOk tok lo ∧ ValOk tok hi
  | .int lo hi => lo.natAbs ≤ i64Max ∧ hi.natAbs ≤ i64Max

theorem wf_signedP {v : α} (h : ValOk tok v) : WF (signedP tok v) := by
  unfold signedP
  by_cases hl : Arith.lt v zero = true
  · simpa [hl, WF] using wf_numP h.2
  · simpa [hl] using wf_numP h.1

theorem wf_boundP {v : α} (h : ValOk tok v) : WF (boundP tok v) := by
  unfold boundP
  split
  · show isKeyword "Infinity" = false; decide
  · split
    · show isKeyword "MinusInfinity" = false; decide
    · exact wf_signedP tok h

theorem wf_intP {i : Int} (h : i.natAbs ≤ i64Max) : WF (intP i) := by
  unfold intP
  split <;> simpa [WF] using h

theorem wft_ptyOf {ty : VarType α} (h : TyOk tok ty) : WFt (ptyOf tok ty) := by
  cases ty with
  | bool => trivial
  | nnreal lo hi =>
    by_cases hd : (Arith.eq lo zero && Arith.eq hi posInf) = true
    · simp only [ptyOf, hd, if_true]; trivial
    · simp only [ptyOf, hd, Bool.false_eq_true, if_false]
      exact ⟨wf_boundP tok h.1, wf_boundP tok h.2⟩
  | real lo hi =>
    by_cases hd : (Arith.eq lo negInf && Arith.eq hi posInf) = true
    · simp only [ptyOf, hd, if_true]; trivial
    · simp only [ptyOf, hd, Bool.false_eq_true, if_false]
      exact ⟨wf_boundP tok h.1, wf_boundP tok h.2⟩
  | int lo hi => exact ⟨wf_intP h.1, wf_intP h.2⟩

/-- invariant of the grouping fold -/
def GroupsOk (dom : List (DomVar α)) (g : List (String × VarType α × List String)) : Prop :=
  ∀ x ∈ g, x.2.2 ≠ [] ∧ (∀ n ∈ x.2.2, ∃ d ∈ dom, d.name = n) ∧ ∃ d ∈ dom, d.ty = x.2.1

theorem groupInsertT_ok (dom : List (DomVar α)) (d : DomVar α) (hd : d ∈ dom) (key : String) :
    ∀ g, GroupsOk dom g → GroupsOk dom (groupInsertT key d.ty d.name g)
  | [], _ => by
    intro x hx
    simp only [groupInsertT, List.mem_singleton] at hx
    subst hx
    exact ⟨by simp, by intro n hn; simp at hn; exact ⟨d, hd, hn.symm⟩, d, hd, rfl⟩
  | (k, t, ns) :: rest, h => by
    intro x hx
    unfold groupInsertT at hx
    by_cases hk : (k == key) = true
    · simp only [hk, if_true] at hx
      rcases List.mem_cons.1 hx with rfl | hx'
      · obtain ⟨_, h2, h3⟩ := h (k, t, ns) List.mem_cons_self
        refine ⟨by simp, ?_, h3⟩
        intro n hn
        rcases List.mem_append.1 hn with hn | hn
        · exact h2 n hn
        · simp at hn; exact ⟨d, hd, hn.symm⟩
      · exact h x (List.mem_cons_of_mem _ hx')
    · simp only [hk, Bool.false_eq_true, if_false] at hx
      rcases List.mem_cons.1 hx with rfl | hx'
      · exact h _ List.mem_cons_self
      · exact groupInsertT_ok dom d hd key rest (fun y hy => h y (List.mem_cons_of_mem _ hy)) x hx'

theorem groups_ok (dom : List (DomVar α)) : ∀ (ds : List (DomVar α)), (∀ d ∈ ds, d ∈ dom) → ∀ g, GroupsOk dom g →
    GroupsOk dom (ds.foldl (fun g d => groupInsertT (varTypeStr tok d.ty) d.ty d.name g) g)
  | [], _, g, hg => hg
  | d :: ds, h, g, hg => by
    simp only [List.foldl_cons]
    exact groups_ok dom ds (fun x hx => h x (List.mem_cons_of_mem _ hx)) _
      (groupInsertT_ok dom d (h d List.mem_cons_self) _ g hg)

theorem wfd_domainDecls (dom : List (DomVar α)) (h : ∀ d ∈ dom, isKeyword d.name = false ∧ TyOk tok d.ty) :
    ∀ d ∈ domainDecls tok dom, WFd d := by
  intro d hd
  unfold domainDecls at hd
  simp only [List.mem_map] at hd
  obtain ⟨⟨k, ty, ns⟩, hx, rfl⟩ := hd
  obtain ⟨h1, h2, d0, hd0, h3⟩ := groups_ok tok dom dom (fun _ h => h) [] (by intro x hx; cases hx) _ hx
  simp only at h1 h2 h3
  refine ⟨by simpa using h1, ?_, ?_, rfl, rfl⟩
  · intro v hv
    simp only [List.mem_map] at hv
    obtain ⟨n, hn, rfl⟩ := hv
    obtain ⟨d1, hd1, rfl⟩ := h2 n hn
    exact (h d1 hd1).1
  · show WFt (ptyOf tok ty)
    rw [← h3]
    exact wft_ptyOf tok (h d0 hd0).2

/-- no declaration of the `define` block begins with a word that reads `for` -/
theorem nofor_domainDecls (dom : List (DomVar α)) (h : ∀ d ∈ dom, lowerWord d.name ≠ "for") :
    ∀ d ∈ domainDecls tok dom, NotForHead (domainToks d) := by
  intro d hd
  unfold domainDecls at hd
  simp only [List.mem_map] at hd
  obtain ⟨⟨k, ty, ns⟩, hx, rfl⟩ := hd
  obtain ⟨h1, h2, _⟩ := groups_ok tok dom dom (fun _ h => h) [] (by intro x hx; cases hx) _ hx
  simp only at h1 h2
  cases ns with
  | nil => exact absurd rfl h1
  | cons n ns =>
    obtain ⟨d1, hd1, hn1⟩ := h2 n List.mem_cons_self
    intro w r e
    have hw : w = n := by
      cases ns with
      | nil =>
        simp only [domainToks, List.map_cons, List.map_nil, varListToks, cnameToks, List.cons_append, List.nil_append] at e
        injection e with e1 _; injection e1 with e1; exact e1.symm
      | cons m ms =>
        simp only [domainToks, List.map_cons, varListToks, cnameToks, List.cons_append, List.nil_append, List.append_assoc] at e
        injection e with e1 _; injection e1 with e1; exact e1.symm
    rw [hw, ← hn1]
    exact h d1 hd1

theorem headName_restP : ∀ (ts : List (String × α)) (acc : PExp), headName (restP tok acc ts) = headName acc
  | [], acc => rfl
  | (v, c) :: ts, acc => by
    simp only [restP]
    rw [headName_restP ts]
    rfl

/-- a printed linear expression begins with a variable of its terms, if it begins with a word at all -/
theorem headName_linExp (ts : List (String × α)) (w : String) (h : headName (linExpP tok ts) = some w) : ∃ p ∈ ts, p.1 = w := by
  cases ts with
  | nil => simp [linExpP, headName] at h
  | cons p ts =>
    obtain ⟨v, c⟩ := p
    simp only [linExpP, headName_restP] at h
    refine ⟨(v, c), List.mem_cons_self, ?_⟩
    cases hs : (formatVarParts c).1 with
    | true => simp [hs, headName] at h
    | false =>
      simp only [hs, Bool.false_eq_true, if_false] at h
      cases hm : (formatVarParts c).2 with
      | none => simp only [hm, termBodyP, headName] at h; injection h
      | some m =>
        simp only [hm, termBodyP, headName] at h
        unfold numP at h
        split at h <;> simp [headName] at h

/-! ### `Display for LinearModel` -/

/-- the linear models the theorem covers: names that are not keywords, digit-string tokens that fit `i64` -/
structure LinFrag (lm : LinModel α) : Prop where
  vars_ok : ∀ v ∈ lm.vars, isKeyword v = false
  names_ok : ∀ r ∈ lm.rows, isKeyword r.name = false
  coef_ok : ∀ r ∈ lm.rows, ∀ c ∈ r.coeffs, IntOk (tok (Arith.abs c))
  rhs_ok : ∀ r ∈ lm.rows, ValOk tok r.rhs
  obj_ok : ∀ c ∈ lm.objective, IntOk (tok (Arith.abs c))
  off_ok : ValOk tok lm.offset
  dom_ok : ∀ d ∈ lm.domain, isKeyword d.name = false ∧ TyOk tok d.ty
  /-- no name reads `for` in some letter case: `for_iteration = _{ ^"for" ~ … }` is matched in any letter case, a line
  that begins with such a name could be taken for the iteration of the line before it -/
  nofor_vars : ∀ v ∈ lm.vars, lowerWord v ≠ "for"
  nofor_rows : ∀ r ∈ lm.rows, lowerWord r.name ≠ "for"
  nofor_dom : ∀ d ∈ lm.domain, lowerWord d.name ≠ "for"

theorem lineOk_row {lm : LinModel α} (h : LinFrag tok lm) {r : LinRow α} (hr : r ∈ lm.rows) {l : Line}
    (hl : rowLineOf tok lm.vars r = some l) : LineOk l := by
  unfold rowLineOf at hl
  simp only [Option.map_eq_some_iff] at hl
  obtain ⟨ts, hts, rfl⟩ := hl
  have hok : TermsOk tok ts := fun p hp =>
    let ⟨h1, h2⟩ := termList_mem r.coeffs lm.vars ts hts p hp
    ⟨h.vars_ok _ h1, h.coef_ok r hr _ h2⟩
  obtain ⟨items, hk, _⟩ := tk_linExp tok ts hok
  refine ⟨?_, ⟨items, hk⟩, ?_, ?_, ?_⟩
  · intro n hn
    simp only at hn
    split at hn
    · cases hn
    · cases hn; exact h.names_ok r hr
  · intro c rr rt he
    simp only [Option.some.injEq, Prod.mk.injEq] at he
    obtain ⟨_, rfl, rfl⟩ := he
    exact tk_rhs tok (h.rhs_ok r hr)
  · intro n hn
    simp only at hn
    split at hn
    · cases hn
    · cases hn; exact h.nofor_rows r hr
  · intro w hw
    obtain ⟨p, hp, rfl⟩ := headName_linExp tok ts w hw
    exact h.nofor_vars _ (termList_mem r.coeffs lm.vars ts hts p hp).1

/-- **`Display for LinearModel` → program parser**: the tokens of the rendered linear model are read back as the
`PreModel` `linProgram` — same objective kind, one constraint per row with its name, comparison and the trees of
the printed sides, the `define` declarations grouped as printed. -/
theorem parseProgram_linToks (lm : LinModel α) (h : LinFrag tok lm) (hrows : lm.rows ≠ []) (ts : List Tok)
    (hts : linToks tok lm = some ts) : ∃ pm, linProgram tok lm = some pm ∧ parseProgram ts = .ok pm := by
  unfold linToks at hts
  simp only [Option.map_eq_some_iff] at hts
  obtain ⟨p, hp, rfl⟩ := hts
  refine ⟨progOf p.kind p.obj p.lines p.decls, by simp [linProgram, hp], ?_⟩
  unfold linParts at hp
  split at hp
  · rename_i lines ots hlines hots
    simp only [Option.some.injEq] at hp
    subst hp
    simp only
    have hlen := allSome_length _ _ hlines
    cases hl : lines with
    | nil =>
      rw [hl] at hlen
      simp only [List.length_nil, List.length_map] at hlen
      exact absurd (List.length_eq_zero_iff.1 hlen.symm) hrows
    | cons l ls =>
      have hok : ∀ d ∈ l :: ls, LineOk d := by
        intro d hd
        rw [← hl] at hd
        have := allSome_mem _ _ hlines d hd
        simp only [List.mem_map] at this
        obtain ⟨r, hr, hrl⟩ := this
        exact lineOk_row tok h hr hrl
      have hobjok : TermsOk tok ots := fun p hp =>
        let ⟨h1, h2⟩ := termList_mem lm.objective lm.vars ots hots p hp
        ⟨h.vars_ok _ h1, h.obj_ok _ h2⟩
      obtain ⟨io, hko, hso⟩ := tk_linExp tok ots hobjok
      obtain ⟨io', hko'⟩ := tk_offset tok h.off_ok hko hso
      apply parseProgram_lines _ _ _ _ l ls hok _ (wfd_domainDecls tok lm.domain h.dom_ok) (nofor_domainDecls tok lm.domain h.nofor_dom)
      cases lm.optType with
      | satisfy => rfl
      | min => exact ⟨io', hko'⟩
      | max => exact ⟨io', hko'⟩
  · cases hp

end

/-! ### `Display for Model` -/

section
variable {α : Type} [Arith α] (tok : α → String) (numOf : String → α)
set_option linter.unusedSectionVars false

theorem constraintLine_pc (c : Constraint α) : (constraintLine tok c).pc = toPConstraint tok c := by
  unfold constraintLine Line.pc toPConstraint
  cases c.isAssert <;> cases c.name.isEmpty <;> simp [tailCmp, tailRhs]

theorem constraintLine_toks (c : Constraint α) : (constraintLine tok c).toks = constraintDToks tok c := by
  unfold constraintLine Line.toks constraintDToks
  cases c.isAssert <;> cases c.name.isEmpty <;> simp [tailToks]

theorem lineOk_constraint (c : Constraint α) (h : FragC tok numOf c)
    (hnf : lowerWord c.name ≠ "for" ∧ ∀ w, headName (toP tok c.lhs) = some w → lowerWord w ≠ "for") :
    LineOk (constraintLine tok c) := by
  obtain ⟨hn, hl, hr⟩ := h
  obtain ⟨il, hkl, _⟩ := tkShow tok numOf c.lhs hl none
  refine ⟨?_, ⟨il, hkl⟩, ?_, ?_, hnf.2⟩
  rotate_left 2
  · intro n hn'
    simp only [constraintLine] at hn'
    split at hn'
    · cases hn'
    · cases hn'; exact hnf.1
  · intro n hn'
    simp only [constraintLine] at hn'
    split at hn'
    · cases hn'
    · rename_i hne
      cases hn'
      rcases hn with hn | hn
      · exact absurd hn hne
      · exact hn.2
  · intro cc r rt he
    simp only [constraintLine] at he
    split at he
    · cases he
    · rename_i ha
      simp only [Option.some.injEq, Prod.mk.injEq] at he
      obtain ⟨_, rfl, rfl⟩ := he
      rcases hr with hr | hr
      · exact absurd hr ha
      · obtain ⟨ir, hkr, _⟩ := tkShow tok numOf c.rhs hr none
        exact ⟨ir, hkr⟩

/-- the source models the theorem covers -/
structure ModelFrag (m : Model α) : Prop where
  obj_ok : m.optType = .satisfy ∨ Frag tok numOf m.objective
  cons_ok : ∀ c ∈ m.constraints, FragC tok numOf c
  dom_ok : ∀ d ∈ m.domain, isKeyword d.name = false ∧ TyOk tok d.ty
  /-- no line and no declaration begins with a word that reads `for` in some letter case (`for_iteration = _{ ^"for" ~ … }`
  is matched in any letter case: such a line could be taken for the iteration of the line before it) -/
  nofor_cons : ∀ c ∈ m.constraints, lowerWord c.name ≠ "for" ∧ ∀ w, headName (toP tok c.lhs) = some w → lowerWord w ≠ "for"
  nofor_dom : ∀ d ∈ m.domain, lowerWord d.name ≠ "for"

/-- **`Display for Model` → program parser**: the tokens of the rendered compiled model are read back as the
`PreModel` `modelProgram`. -/
theorem parseProgram_modelToks (m : Model α) (h : ModelFrag tok numOf m) (hc : m.constraints ≠ []) :
    parseProgram (modelToks tok m) = .ok (modelProgram tok m) := by
  unfold modelToks modelProgram
  cases hcs : m.constraints with
  | nil => exact absurd hcs hc
  | cons c cs =>
    have hok : ∀ d ∈ (c :: cs).map (constraintLine tok), LineOk d := by
      intro d hd
      simp only [List.mem_map] at hd
      obtain ⟨c', hc', rfl⟩ := hd
      exact lineOk_constraint tok numOf c' (h.cons_ok c' (hcs ▸ hc')) (h.nofor_cons c' (hcs ▸ hc'))
    simp only [List.map_cons] at hok ⊢
    apply parseProgram_lines _ _ _ _ _ _ hok _ (wfd_domainDecls tok m.domain h.dom_ok) (nofor_domainDecls tok m.domain h.nofor_dom)
    cases hop : m.optType with
    | satisfy => rfl
    | min =>
      rcases h.obj_ok with ho | ho
      · rw [hop] at ho; cases ho
      · obtain ⟨io, hko, _⟩ := tkShow tok numOf m.objective ho none
        exact ⟨io, hko⟩
    | max =>
      rcases h.obj_ok with ho | ho
      · rw [hop] at ho; cases ho
      · obtain ⟨io, hko, _⟩ := tkShow tok numOf m.objective ho none
        exact ⟨io, hko⟩

/-! ### reading the printed terms back -/

/-- the number reader maps the token of `v` back to `v` -/
def NumBack (v : α) : Prop := leafVal numOf (numP (tok v)) = some v

/-- magnitude of a printed term (`1` when omitted) -/
def magOf (m : Option α) : α := match m with | none => one | some m => m

theorem readTerm_body (v : String) (m : Option α) (hm : ∀ x, m = some x → NumBack tok numOf x) :
    readTerm numOf (termBodyP tok v m) = some (v, magOf m) := by
  cases m with
  | none => rfl
  | some x =>
    have := hm x rfl
    unfold NumBack at this
    simp [termBodyP, readTerm, this, magOf]

theorem readSum_body (v : String) (m : Option α) (hm : ∀ x, m = some x → NumBack tok numOf x) :
    readSum numOf (termBodyP tok v m) = some [(v, magOf m)] := by
  have h := readTerm_body tok numOf v m hm
  cases m with
  | none => rfl
  | some x =>
    simp only [termBodyP] at h ⊢
    simp only [readSum, h, Option.map_some]

def TermsBack (ts : List (String × α)) : Prop :=
  ∀ p ∈ ts, ∀ x, (formatVarParts p.2).2 = some x → NumBack tok numOf x

theorem termValue_eq (c : α) :
    termValue (formatVarParts c) = if (formatVarParts c).1 then Arith.neg (magOf (formatVarParts c).2) else magOf (formatVarParts c).2 := by
  unfold termValue magOf
  rfl

theorem readSum_rest : ∀ (ts : List (String × α)), TermsBack tok numOf ts → ∀ (acc : PExp) (xs : List (String × α)),
    readSum numOf acc = some xs →
    readSum numOf (restP tok acc ts) = some (xs ++ ts.map fun p => (p.1, termValue (formatVarParts p.2)))
  | [], _, acc, xs, h => by simpa [restP] using h
  | (v, c) :: ts, hb, acc, xs, h => by
    have hbody := readTerm_body tok numOf v (formatVarParts c).2 (hb (v, c) List.mem_cons_self)
    have hts : TermsBack tok numOf ts := fun p hp => hb p (List.mem_cons_of_mem _ hp)
    cases hsg : (formatVarParts c).1 with
    | true =>
      have := readSum_rest ts hts (.bin .sub acc (termBodyP tok v (formatVarParts c).2))
        (xs ++ [(v, Arith.neg (magOf (formatVarParts c).2))]) (by simp only [readSum, h, hbody])
      simpa [restP, hsg, termValue_eq] using this
    | false =>
      have := readSum_rest ts hts (.bin .add acc (termBodyP tok v (formatVarParts c).2))
        (xs ++ [(v, magOf (formatVarParts c).2)]) (by simp only [readSum, h, hbody])
      simpa [restP, hsg, termValue_eq] using this

/-- **The printed terms are read back**: variable by variable, sign times magnitude. -/
theorem readSum_linExp (ts : List (String × α)) (hb : TermsBack tok numOf ts) :
    readSum numOf (linExpP tok ts) = some (ts.map fun p => (p.1, termValue (formatVarParts p.2))) := by
  cases ts with
  | nil => rfl
  | cons p ts =>
    obtain ⟨v, c⟩ := p
    have hm := hb (v, c) List.mem_cons_self
    have hts : TermsBack tok numOf ts := fun p hp => hb p (List.mem_cons_of_mem _ hp)
    cases hsg : (formatVarParts c).1 with
    | true =>
      have h0 : readSum numOf (.un .neg (termBodyP tok v (formatVarParts c).2)) =
          some [(v, Arith.neg (magOf (formatVarParts c).2))] := by
        simp only [readSum, readTerm_body tok numOf v _ hm, Option.map_some]
      have := readSum_rest tok numOf ts hts _ _ h0
      simpa [linExpP, hsg, termValue_eq] using this
    | false =>
      have := readSum_rest tok numOf ts hts _ _ (readSum_body tok numOf v _ hm)
      simpa [linExpP, hsg, termValue_eq] using this

end
section
variable {K : Type} [Field K] [LinearOrder K] [IsStrictOrderedRing K] [FloorRing K]


theorem readSigned_rhs (tok : Ext K → String) (numOf : String → Ext K) (v : Ext K)
    (hb : isZero v = false → NumBack tok numOf (if Arith.lt v zero then Arith.abs v else v)) :
    readSigned numOf (rhsP tok v) = some v := by
  have hleaf : ∀ s, readSigned numOf (numP s) = leafVal numOf (numP s) := by
    intro s; unfold numP; split <;> rfl
  unfold rhsP signedP
  by_cases hz : isZero v = true
  · simp only [hz, if_true]
    have : v = Ext.fin 0 := by
      cases v <;> simp_all [isZero, Arith.eq, Ext.eq, Arith.zero, Arith.ofInt]
    subst this
    simp [readSigned, leafVal, Arith.ofInt]
  · have hb := hb (by simpa using hz)
    simp only [hz, Bool.false_eq_true, if_false]
    by_cases hl : Arith.lt v zero = true
    · simp only [hl, if_true] at hb ⊢
      unfold NumBack at hb
      simp only [readSigned, hb, Option.map_some]
      cases v <;> simp_all [Arith.lt, Ext.lt, Arith.zero, Arith.ofInt, Arith.abs, Ext.abs, Arith.neg, Ext.neg]
    · simp only [hl, Bool.false_eq_true, if_false] at hb ⊢
      rw [hleaf]; exact hb

theorem forall2_allSome {β γ : Type} (f : β → Option γ) (R : β → γ → Prop) : ∀ (xs : List β) (ys : List γ),
    (∀ x ∈ xs, ∀ y, f x = some y → R x y) → allSome (xs.map f) = some ys → List.Forall₂ R xs ys
  | [], ys, _, h => by simp [allSome] at h; subst h; exact .nil
  | x :: xs, ys, hR, h => by
    cases hx : f x with
    | none => simp [allSome, hx] at h
    | some y =>
      simp only [List.map_cons, hx, allSome, Option.map_eq_some_iff] at h
      obtain ⟨ys', h', rfl⟩ := h
      exact .cons (hR x List.mem_cons_self y hx)
        (forall2_allSome f R xs ys' (fun x' hx' => hR x' (List.mem_cons_of_mem _ hx')) h')

end
end Rooc.Display
