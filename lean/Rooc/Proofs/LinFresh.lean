/-
Fresh-name availability: if the names the user declared do not start with `$`, every name the linearizer
generates is new at the moment it is declared, so `declare_variable` never fails with a duplicate.
The invariant `NamesOK` ("every `$`-name in the domain was generated below the current counter of its family")
and the step relation `Grow` ("new names are generated at or above the old counters, bounds of user names are not
touched").
-/
import Rooc.Proofs.LinNames
import Rooc.Proofs.LinSpecAbs

set_option linter.unusedSectionVars false
set_option linter.unusedSimpArgs false
set_option linter.unusedVariables false

namespace Rooc.LinP
open Rooc Rooc.Lin Rooc.Sem Rooc.Exp

variable {K : Type} [Field K] [LinearOrder K] [IsStrictOrderedRing K] [FloorRing K]

/-- the counter of a family. -/
def ctr (s : St (Ext K)) : Fam → Nat
  | .abs => s.absCount | .min => s.minCount | .max => s.maxCount | .and => s.andCount | .or => s.orCount
  | .xor => s.xorCount | .implies => s.impliesCount | .iff => s.iffCount | .witness => s.witnessCount

def namesOf (s : St (Ext K)) : List String := s.domain.map (·.name)

/-- every `$`-name in the domain was generated with a counter below the current one. -/
def NamesOK (s : St (Ext K)) : Prop :=
  ∀ x ∈ namesOf s, SrcName x ∨ ∃ F i suf, x = gen F i suf ∧ i < ctr s F

/-- the bounds map agrees with `bm` on the names the user may write. -/
def BAgree (bm : BoundsMap (Ext K)) (s : St (Ext K)) : Prop :=
  ∀ x, SrcName x → lookupB s.bounds x = lookupB bm x

/-- what a lowering step may do to names, counters and bounds. -/
structure Grow (s s' : St (Ext K)) : Prop where
  mono : ∀ F, ctr s F ≤ ctr s' F
  names : ∀ x ∈ namesOf s', x ∈ namesOf s ∨ ∃ F i suf, x = gen F i suf ∧ ctr s F ≤ i ∧ i < ctr s' F
  bounds : ∀ x, SrcName x → lookupB s'.bounds x = lookupB s.bounds x

theorem Grow.refl (s : St (Ext K)) : Grow s s := ⟨fun _ => le_rfl, fun x hx => Or.inl hx, fun _ _ => rfl⟩

theorem Grow.trans {s s1 s2 : St (Ext K)} (h1 : Grow s s1) (h2 : Grow s1 s2) : Grow s s2 := by
  refine ⟨fun F => le_trans (h1.mono F) (h2.mono F), ?_, fun x hx => by rw [h2.bounds x hx, h1.bounds x hx]⟩
  intro x hx
  rcases h2.names x hx with h | ⟨F, i, suf, rfl, hlo, hhi⟩
  · rcases h1.names x h with h' | ⟨F, i, suf, rfl, hlo, hhi⟩
    · exact Or.inl h'
    · exact Or.inr ⟨F, i, suf, rfl, hlo, lt_of_lt_of_le hhi (h2.mono F)⟩
  · exact Or.inr ⟨F, i, suf, rfl, le_trans (h1.mono F) hlo, hhi⟩

theorem NamesOK.grow {s s' : St (Ext K)} (h : NamesOK s) (g : Grow s s') : NamesOK s' := by
  intro x hx
  rcases g.names x hx with h' | ⟨F, i, suf, rfl, _, hhi⟩
  · rcases h x h' with hs | ⟨F, i, suf, rfl, hi⟩
    · exact Or.inl hs
    · exact Or.inr ⟨F, i, suf, rfl, lt_of_lt_of_le hi (g.mono F)⟩
  · exact Or.inr ⟨F, i, suf, rfl, hhi⟩

theorem BAgree.grow {bm : BoundsMap (Ext K)} {s s' : St (Ext K)} (h : BAgree bm s) (g : Grow s s') : BAgree bm s' :=
  fun x hx => by rw [g.bounds x hx, h x hx]

/-- **a name generated at or above the current counter is new.** -/
theorem NamesOK.fresh {s : St (Ext K)} (h : NamesOK s) (F : Fam) {i : Nat} (hi : ctr s F ≤ i) (suf : Suf) :
    gen F i suf ∉ namesOf s := by
  intro hmem
  rcases h _ hmem with hs | ⟨F', i', suf', heq, hlt⟩
  · exact gen_not_src F i suf hs
  · obtain ⟨rfl, rfl, _⟩ := gen_inj heq
    omega

/-- a state change that keeps domain and bounds and does not lower a counter. -/
theorem Grow.same {s0 s s' : St (Ext K)} (h : Grow s0 s) (hd : s'.domain = s.domain) (hb : s'.bounds = s.bounds)
    (hc : ∀ F, ctr s F ≤ ctr s' F) : Grow s0 s' := by
  refine ⟨fun F => le_trans (h.mono F) (hc F), ?_, fun x hx => by rw [hb]; exact h.bounds x hx⟩
  intro x hx
  have hx' : x ∈ namesOf s := by simpa only [namesOf, hd] using hx
  rcases h.names x hx' with h' | ⟨F, i, suf, rfl, hlo, hhi⟩
  · exact Or.inl h'
  · exact Or.inr ⟨F, i, suf, rfl, hlo, lt_of_lt_of_le hhi (hc F)⟩

/-- declaring a generated name whose counter lies in the window of the step. -/
theorem Grow.decl {s0 s : St (Ext K)} (h : Grow s0 s) (F : Fam) (i : Nat) (suf : Suf) (ty : VarType (Ext K))
    (h1 : ctr s0 F ≤ i) (h2 : i < ctr s F) : Grow s0 (declState s (gen F i suf) ty) := by
  refine ⟨fun F' => h.mono F', ?_, ?_⟩
  · intro x hx
    simp only [namesOf, declState_domain, List.map_append, List.map_cons, List.map_nil, List.mem_append,
      List.mem_singleton] at hx
    rcases hx with hx | rfl
    · exact h.names x hx
    · exact Or.inr ⟨F, i, suf, rfl, h1, h2⟩
  · intro x hx
    have hne : x ≠ gen F i suf := fun he => gen_not_src F i suf (he ▸ hx)
    show lookupB (declBounds s.bounds (gen F i suf) _) x = _
    rw [lookupB_declBounds, if_neg hne]
    exact h.bounds x hx

theorem Grow.pushC {s0 s : St (Ext K)} (h : Grow s0 s) (c : Constraint (Ext K)) : Grow s0 (pushC s c) :=
  h.same rfl rfl (fun _ => le_rfl)

theorem Grow.pushAll {s0 s : St (Ext K)} (h : Grow s0 s) (cs : List (Constraint (Ext K))) : Grow s0 (pushAll s cs) :=
  h.same rfl rfl (fun _ => le_rfl)

theorem Grow.declAll {s0 : St (Ext K)} (F : Fam) (i : Nat) (ty : VarType (Ext K)) (h1 : ctr s0 F ≤ i) :
    ∀ (js : List Nat) (s : St (Ext K)), Grow s0 s → i < ctr s F →
      Grow s0 (declAll s ty (js.map fun j => gen F i (.select j)))
  | [], s, h, _ => h
  | j :: js, s, h, h2 => by
    simp only [List.map_cons, Rooc.LinP.declAll]
    exact Grow.declAll F i ty h1 js _ (h.decl F i (.select j) ty h1 h2) h2

theorem ctr_bumpAbs (s : St (Ext K)) (F : Fam) : ctr s F ≤ ctr (bumpAbs s) F := by
  cases F <;> simp [ctr, bumpAbs]

theorem ctr_abs_bumpAbs (s : St (Ext K)) : ctr (bumpAbs s) .abs = ctr s .abs + 1 := rfl

end Rooc.LinP
