/-
The concrete model behind `Rooc.Props.C01.c01_counterexample`: a bounds map with a tightened Boolean range
makes `linearize_extreme` prune the Boolean operand; the port is run symbolically, for every ordered field.
-/
import Rooc.Proofs.LinMain
import Rooc.Proofs.ExpLemmasDefined

set_option linter.unusedSectionVars false
set_option linter.unusedSimpArgs false
set_option linter.unusedVariables false

namespace Rooc.LinP
open Rooc Rooc.Lin Rooc.Sem Rooc.Exp
variable {K : Type} [Field K] [LinearOrder K] [IsStrictOrderedRing K] [FloorRing K]

/-- `max x  s.t.  c: max{x, k} ≤ k`, `x` of type `ty` (Boolean with `k = 1/2`: the first confirmed defect;
`IntegerRange(0,5)` with `k` just below 5: the integer-tolerance defect). -/
def exBool (ty : VarType (Ext K)) (k : K) : Model (Ext K) :=
  { optType := .max, objective := .var "x",
    constraints := [{ name := "c", lhs := .max [.var "x", .num (.fin k)], cmp := .le, rhs := .num (.fin k), isAssert := false }],
    domain := [{ name := "x", ty := ty, usage := 1 }] }

/-- the tightened (and unenforced) bounds map: `x ∈ [0, k]`. -/
def exBoolBounds (k : K) : BoundsMap (Ext K) := [("x", ⟨.fin 0, .fin k⟩)]

theorem ext_eq_fin (a b : K) : (Ext.fin a).eq (Ext.fin b) = decide (a = b) := rfl
theorem ext_le_fin (a b : K) : (Ext.fin a).le (Ext.fin b) = decide (a ≤ b) := rfl
theorem ext_add_fin (a b : K) : (Ext.fin a).add (Ext.fin b) = Ext.fin (a + b) := rfl
theorem ext_neg_fin (a : K) : (Ext.fin a).neg = Ext.fin (-a) := rfl

variable {k : K} {ty : VarType (Ext K)}

theorem exBool_norm_lhs : normalizeExp (.max [.var "x", .num (.fin k)] : Exp (Ext K)) = some (.max [.var "x", .num (.fin k)]) := by
  simp [normalizeExp, flattenFuel, flattenF, simplify, allNums]

theorem exBool_norm_rhs : normalizeExp (.num (.fin k) : Exp (Ext K)) = some (.num (.fin k)) := by
  simp [normalizeExp, flattenFuel, flattenF, simplify]

theorem exBool_norm_sub (hk : 0 < k) : normalizeExp (.bin .sub (.max [.var "x", .num (.fin k)]) (.num (.fin k)) : Exp (Ext K))
    = some (.bin .sub (.max [.var "x", .num (.fin k)]) (.num (.fin k))) := by
  have h2 : ¬ (k = 0) := ne_of_gt hk
  simp [normalizeExp, flattenFuel, flattenF, simplify, allNums, subCore, ext_eq_fin, h2]

theorem exBool_flags (hk : 0 < k) :
    retainedFlags .max (boundsOfList (exBoolBounds k) [.var "x", .num (.fin k : Ext K)]) = [false, true] := by
  rw [retainedFlags_eq]
  have hl : (boundsOfList (exBoolBounds k) [.var "x", .num (.fin k : Ext K)])
      = [⟨.fin 0, .fin k⟩, ⟨.fin k, .fin k⟩] := by
    simp [boundsOfList, boundsOf, exBoolBounds, lookupB, Lin.Bounds.singleton]
  rw [hl]
  have hk0 : ¬ (0 = k) := ne_of_lt hk
  have hk1 : ¬ (k ≤ 0) := not_le.mpr hk
  have h0 : domB .max ([⟨.fin 0, .fin k⟩, ⟨.fin k, .fin k⟩] : List (Lin.Bounds (Ext K))) 0 = true := by
    rw [domB_iff]
    refine ⟨1, by simp, by simp, ?_⟩
    simp [domPair, bAt, Arith.ge, Arith.le, Arith.eq, ext_le_fin, ext_eq_fin, hk0]
  have h1 : domB .max ([⟨.fin 0, .fin k⟩, ⟨.fin k, .fin k⟩] : List (Lin.Bounds (Ext K))) 1 = false := by
    cases hd : domB .max ([⟨.fin 0, .fin k⟩, ⟨.fin k, .fin k⟩] : List (Lin.Bounds (Ext K))) 1 with
    | false => rfl
    | true =>
      exfalso
      obtain ⟨j, hj, hne, hp⟩ := (domB_iff _ _ _).mp hd
      have : j = 0 := by simp at hj; omega
      subst this
      simp [domPair, bAt, Arith.ge, Arith.le, ext_le_fin, hk1] at hp
  simp only [List.length_cons, List.length_nil, List.range, List.range.loop, List.map_cons, List.map_nil, h0, h1]
  rfl

theorem exBool_max (hk : 0 < k) (s : St (Ext K)) (hb : s.bounds = exBoolBounds k) :
    linExp (.max [.var "x", .num (.fin k)] : Exp (Ext K)) .lower s = .ok (Ctx.fromRhs (.fin k), s) := by
  rw [linExp, linExtreme.eq_def]
  simp only [ite_ok, fail_ok, bind_ok, get_ok, and_false, false_or]
  refine ⟨by simp, s, s, rfl, ?_⟩
  have hfl : retainedFlagsE .max [.var "x", .num (.fin k : Ext K)]
      (boundsOfList (exBoolBounds k) [.var "x", .num (.fin k : Ext K)]) = [false, true] := by
    simp [retainedFlagsE, exBool_flags hk, mayBeUndefined]
  rw [hb, hfl]
  refine ⟨by simp, Or.inl ⟨by simp, ?_⟩⟩
  simp [linFirstFlagged, linExp, pure_ok]

theorem exBool_emit (hk : 0 < k) (s : St (Ext K)) (hb : s.bounds = exBoolBounds k) :
    emitConstraint (.max [.var "x", .num (.fin k)] : Exp (Ext K)) .le (.num (.fin k)) "c" s
      = .ok ((), { s with rows := s.rows ++ [{ name := "c", lhs := [], rhs := .fin 0, cmp := .le }] }) := by
  rw [emitConstraint_ok]
  refine ⟨_, ⟨[], .fin 0⟩, s, exBool_norm_sub hk, ?_, ?_⟩
  · rw [linExp]
    simp only [bind_ok, pure_ok]
    refine ⟨_, _, exBool_max hk s hb, Ctx.fromRhs (.fin k), s, by simp [linExp, pure_ok], ?_⟩
    simp [Ctx.mergeSub, Ctx.fromRhs, Ctx.new, Ctx.addRhs, ext_add_fin, ext_neg_fin]
  · simp [ext_neg_fin]

def exBoolC (k : K) : Constraint (Ext K) :=
  { name := "c", lhs := .max [.var "x", .num (.fin k)], cmp := .le, rhs := .num (.fin k), isAssert := false }

def exBoolRow : MidRow (Ext K) := { name := "c", lhs := [], rhs := .fin 0, cmp := .le }

theorem exBool_proc (hk : 0 < k) (s : St (Ext K)) (hb : s.bounds = exBoolBounds k) :
    processConstraint (exBoolC k) s = .ok ((), { s with rows := s.rows ++ [exBoolRow] }) := by
  unfold processConstraint dispatch exBoolC
  simp only [bind_ok, get_ok, simplifyFlat_ok]
  refine ⟨_, _, ⟨_, exBool_norm_lhs, rfl⟩, _, _, ⟨_, exBool_norm_rhs, rfl⟩, ?_⟩
  simp only [Bool.false_eq_true, if_false, bind_ok, get_ok]
  refine ⟨s, s, rfl, ?_⟩
  have : tryNormalize s.domain (.max [.var "x", .num (.fin k)] : Exp (Ext K)) .le (.num (.fin k)) = none := by
    simp [tryNormalize, isLogicValue]
  simp only [this]
  exact exBool_emit hk s hb

theorem exBool_drain (hk : 0 < k) (s : St (Ext K)) (hb : s.bounds = exBoolBounds k)
    (hs : s.queue = (exBool ty k).constraints) :
    drain drainFuel s = .ok ((), { s with queue := [], rows := s.rows ++ [exBoolRow] }) := by
  have h1 : drainFuel = 999998 + 1 + 1 := rfl
  rw [h1, drain_succ]
  simp only [bind_ok, get_ok]
  refine ⟨s, s, rfl, ?_⟩
  simp only [hs, exBool, bind_ok, set_ok]
  refine ⟨_, _, rfl, _, _, exBool_proc hk _ hb, ?_⟩
  rw [drain_succ]
  simp only [bind_ok, get_ok]
  exact ⟨_, _, rfl, by simp [pure_ok]⟩

/-- the compiled model, explicitly. -/
noncomputable def exBoolLM (ty : VarType (Ext K)) (k : K) : LinModel (Ext K) :=
  assemble (exBool ty k) (Ctx.fromVar "x" Arith.one)
    { queue := [], rows := [exBoolRow], domain := (exBool ty k).domain, bounds := exBoolBounds k }

theorem exBool_ok (hk : 0 < k) : linearizeWith (exBool ty k) (exBoolBounds k) (exBool ty k).domain = .ok (exBoolLM ty k) := by
  let s0 : St (Ext K) := { queue := (exBool ty k).constraints, domain := (exBool ty k).domain, bounds := exBoolBounds k }
  refine (linearizeWith_ok_iff _ _ _ _).mpr
    ⟨.var "x", s0, Ctx.fromVar "x" Arith.one, s0, _, ?_, ?_, exBool_drain (ty := ty) hk s0 rfl rfl, rfl⟩
  · simp [simplifyFlat, normalizeExp, flattenFuel, flattenF, simplify, pure_ok, exBool, s0]
  · simp [linExp, pure_ok]

theorem exBool_linFeasible {x0 : K} (hx0 : inDomain x0 ty = true) :
    linFeasible (exBoolLM ty k) (fun _ => x0) = true := by
  simp [exBoolLM, assemble, linFeasible, exBoolRow, exBool, dedupNames, sortStr, insertSortedDup, extractCoeffs,
    rowHolds, dotK, cmpK, hx0]

theorem exBool_hyps (hk : 0 < k) : FragModel true (exBool ty k) (exBool ty k).domain ∧ DomRel (exBool ty k) (exBool ty k).domain := by
  have sx : inScope (exBool ty k).domain "x" :=
    ⟨{ name := "x", ty := ty, usage := 1 }, by simp [exBool], rfl, by simp⟩
  refine ⟨⟨FG_var.mpr sx, fun ρ => ⟨ρ "x", by simp [exBool, eval]⟩, ?_⟩, ⟨by simp [exBool], fun _ h => h, ?_, ?_⟩⟩
  · intro c hc
    simp only [exBool, List.mem_singleton] at hc
    subst hc
    refine ⟨rfl, FG_max.mpr ⟨rfl, ?_⟩, FG_num _, ?_⟩
    · intro e he
      simp only [List.mem_cons, List.mem_singleton, List.not_mem_nil, or_false] at he
      rcases he with rfl | rfl
      · exact FG_var.mpr sx
      · exact FG_num _
    · intro ρ
      exact ⟨_, _, eval_max_of_list (es := [.var "x", .num (.fin k)]) (x := ρ "x") (xs := [k])
        (by simp [evalList, eval]), eval_num_fin ρ k⟩
  · intro ρ h; exact ((srcFeasible_iff _ ρ).mp h).2
  · intro dv hdv hu; exact ⟨dv, hdv, rfl, hu⟩

theorem exBool_not_enforced {x0 : K} (hx0 : inDomain x0 ty = true) (hk1 : k < x0) :
    ¬ BoxEnforced (exBoolBounds k) (exBool ty k).domain := by
  intro h
  have hd : DomSat (fun _ => x0) (exBool ty k).domain := by
    intro dv hdv _
    simp only [exBool, List.mem_singleton] at hdv
    subst hdv
    exact hx0
  have sx : inScope (exBool ty k).domain "x" :=
    ⟨{ name := "x", ty := ty, usage := 1 }, by simp [exBool], rfl, by simp⟩
  have := h (fun _ => x0) hd "x" ⟨.fin 0, .fin k⟩ sx (by simp [exBoolBounds, lookupB])
  have := this.2
  simp only [upperOK] at this
  exact absurd this (not_le.mpr hk1)

theorem exBool_not_srcFeasible {x0 : K} (hk1 : k < x0) : ¬ srcFeasible (exBool ty k) (fun _ => x0) = true := by
  intro h
  have := ((srcFeasible_iff _ _).mp h).1 (exBoolC k) (by simp [exBool, exBoolC])
  have hev : eval (fun _ => x0) (.max [.var "x", .num (.fin k)] : Exp (Ext K)) = some (max x0 k) :=
    eval_max_of_list (es := [.var "x", .num (.fin k)]) (x := x0) (xs := [k]) (by simp [evalList, eval])
  rw [constraintHolds_arith (c := exBoolC k) rfl hev (eval_num_fin _ k)] at this
  simp only [exBoolC, cmpK, ef_le, decide_eq_true_eq] at this
  have h1 : x0 ≤ max x0 k := le_max_left _ _
  linarith

/-- **Why `BoxEnforced` is a hypothesis**: with a bounds map in which the range of `x` is `[0, k]` while the
domain handed to the linearizer still allows a value `x0 > k`, the model `max x s.t. max{x, k} ≤ k` compiles to
the single row `0 ≤ 0`; the assignment `x = x0` is feasible for the linear model but not for the source. -/
theorem boxEnforced_needed {x0 : K} (hx0 : inDomain x0 ty = true) (hk : 0 < k) (hk1 : k < x0) :
    ∃ (m : Model (Ext K)) (b : BoundsMap (Ext K)) (d : List (DomVar (Ext K))) (lm : LinModel (Ext K))
      (ρ : String → K),
      linearizeWith m b d = .ok lm ∧ FragModel true m d ∧ DomRel m d ∧ ¬ BoxEnforced b d ∧
      ¬ (srcFeasible m ρ = true ↔
          ∃ ρ' : String → K, (∀ x, inScope d x → ρ' x = ρ x) ∧ linFeasible lm ρ' = true) := by
  refine ⟨exBool ty k, exBoolBounds k, (exBool ty k).domain, exBoolLM ty k, fun _ => x0, exBool_ok hk,
    (exBool_hyps hk).1, (exBool_hyps hk).2, exBool_not_enforced hx0 hk1, ?_⟩
  intro hiff
  exact exBool_not_srcFeasible hk1 (hiff.mpr ⟨fun _ => x0, fun _ _ => rfl, exBool_linFeasible hx0⟩)

/-! ### the definedness hypothesis -/

/-- `min x  s.t.  c: 0 * (x + inf) ≤ 1`, `x` a free real: the constraint is undefined at every assignment
(the literal `inf` is not a number).  (Before rooc 9f62afd the witness was `0 * (x / 0)`; the repaired
`simplify` keeps that product, see `Rooc.Props.C10.div_preserved`.) -/
def exUndef : Model (Ext K) :=
  { optType := .min, objective := .var "x",
    constraints := [{ name := "c", lhs := .bin .mul (.num (.fin 0)) (.bin .add (.var "x") (.num .pinf)),
                      cmp := .le, rhs := .num (.fin 1), isAssert := false }],
    domain := [{ name := "x", ty := .real .ninf .pinf, usage := 1 }] }

def exUndefC : Constraint (Ext K) :=
  { name := "c", lhs := .bin .mul (.num (.fin 0)) (.bin .add (.var "x") (.num .pinf)),
    cmp := .le, rhs := .num (.fin 1), isAssert := false }

theorem exUndef_norm_lhs : normalizeExp (.bin .mul (.num (.fin 0)) (.bin .add (.var "x") (.num .pinf)) : Exp (Ext K))
    = some (.num (.fin 0)) := by
  simp [normalizeExp, flattenFuel, flattenF, simplify, mulCore, addCore, isNumEq, mayBeUndefined, ext_eq_fin,
    Arith.eq, Ext.eq]

theorem exUndef_norm_rhs : normalizeExp (.num (.fin 1) : Exp (Ext K)) = some (.num (.fin 1)) := by
  simp [normalizeExp, flattenFuel, flattenF, simplify]

/-- the constraint is folded to `0 ≤ 1`, recognised as a tautology, and dropped. -/
theorem exUndef_proc (s : St (Ext K)) : processConstraint (exUndefC : Constraint (Ext K)) s = .ok ((), s) := by
  unfold processConstraint dispatch exUndefC
  simp only [bind_ok, get_ok, simplifyFlat_ok]
  refine ⟨_, _, ⟨_, exUndef_norm_lhs, rfl⟩, _, _, ⟨_, exUndef_norm_rhs, rfl⟩, ?_⟩
  simp only [Bool.false_eq_true, if_false, bind_ok, get_ok]
  refine ⟨s, s, rfl, ?_⟩
  have : tryNormalize s.domain (.num (.fin 0) : Exp (Ext K)) .le (.num (.fin 1)) = some .tautology := by
    simp [tryNormalize, isLogicValue, cmpHolds, Arith.eq, Arith.le, ext_eq_fin, ext_le_fin]
  simp only [this, pure_ok]

theorem exUndef_drain (s : St (Ext K)) (hs : s.queue = (exUndef : Model (Ext K)).constraints) :
    drain drainFuel s = .ok ((), { s with queue := [] }) := by
  have h1 : drainFuel = 999998 + 1 + 1 := rfl
  rw [h1, drain_succ]
  simp only [bind_ok, get_ok]
  refine ⟨s, s, rfl, ?_⟩
  simp only [hs, exUndef, bind_ok, set_ok]
  refine ⟨_, _, rfl, _, _, exUndef_proc _, ?_⟩
  rw [drain_succ]
  simp only [bind_ok, get_ok]
  exact ⟨_, _, rfl, by simp [pure_ok]⟩

noncomputable def exUndefLM : LinModel (Ext K) :=
  assemble exUndef (Ctx.fromVar "x" Arith.one)
    { queue := [], rows := [], domain := (exUndef : Model (Ext K)).domain, bounds := [] }

theorem exUndef_ok : linearizeWith (exUndef : Model (Ext K)) [] (exUndef : Model (Ext K)).domain = .ok exUndefLM := by
  let s0 : St (Ext K) := { queue := (exUndef : Model (Ext K)).constraints, domain := (exUndef : Model (Ext K)).domain, bounds := [] }
  refine (linearizeWith_ok_iff _ _ _ _).mpr
    ⟨.var "x", s0, Ctx.fromVar "x" Arith.one, s0, _, ?_, ?_, exUndef_drain s0 rfl, rfl⟩
  · simp [simplifyFlat, normalizeExp, flattenFuel, flattenF, simplify, pure_ok, exUndef, s0]
  · simp [linExp, pure_ok]

theorem exUndef_linFeasible (ρ : String → K) : linFeasible (exUndefLM : LinModel (Ext K)) ρ = true := by
  simp [exUndefLM, assemble, linFeasible, exUndef, dedupNames, sortStr, insertSortedDup, inDomain, geExt, leExt]

theorem exUndef_not_srcFeasible (ρ : String → K) : ¬ srcFeasible (exUndef : Model (Ext K)) ρ = true := by
  intro h
  have := ((srcFeasible_iff _ _).mp h).1 exUndefC (by simp [exUndef, exUndefC])
  simp [constraintHolds, exUndefC, eval, binVal] at this

/-- **Why definedness is a hypothesis**: `c: 0 * (x + inf) ≤ 1` has no value at any assignment (a
non-finite literal), so the source model is infeasible; `simplify` folds the product to `0`, the comparison becomes the
tautology `0 ≤ 1` and is dropped: every assignment is feasible for the linear model.  Everything else
`c01_partial` asks for holds (the model is affine, the bounds map is empty). -/
theorem defined_needed :
    ∃ (m : Model (Ext K)) (b : BoundsMap (Ext K)) (d : List (DomVar (Ext K))) (lm : LinModel (Ext K)),
      linearizeWith m b d = .ok lm ∧ DomRel m d ∧ BoxEnforced b d ∧
      (∀ c ∈ m.constraints, c.isAssert = false ∧ FG true (inScope d) c.lhs ∧ FG true (inScope d) c.rhs) ∧
      (∀ ρ : String → K, ¬ srcFeasible m ρ = true) ∧ (∀ ρ : String → K, linFeasible lm ρ = true) := by
  have sx : inScope (exUndef : Model (Ext K)).domain "x" :=
    ⟨{ name := "x", ty := .real .ninf .pinf, usage := 1 }, by simp [exUndef], rfl, by simp⟩
  refine ⟨exUndef, [], exUndef.domain, exUndefLM, exUndef_ok, ⟨by simp [exUndef], fun _ h => h, ?_, ?_⟩, ?_, ?_,
    exUndef_not_srcFeasible, exUndef_linFeasible⟩
  · intro ρ h; exact ((srcFeasible_iff _ ρ).mp h).2
  · intro dv hdv hu; exact ⟨dv, hdv, rfl, hu⟩
  · intro ρ _ n bd _ hl; simp [lookupB] at hl
  · intro c hc
    simp only [exUndef, List.mem_singleton] at hc
    subst hc
    exact ⟨rfl, FG_bin.mpr ⟨rfl, FG_num _, FG_bin.mpr ⟨rfl, FG_var.mpr sx, FG_num _⟩⟩, FG_num _⟩

/-! ### regression: the linearizer's `0 * _` shortcut no longer hides a division by zero (fix 5a25b35) -/

/-- `min x  s.t.  c: 0 * (x / 0) ≤ 1`, `x` a free real.  Every literal is finite.  Since rooc 9f62afd `simplify`
keeps the product; before rooc 5a25b35 `Exp::linearize` on a product with the constant factor `0` returned the
constant `0` without visiting the other factor, so the row was `0 ≤ 1` and the linear model accepted every
assignment although the source constraint has no value at any (finding, HEAD 8a8f98f).  Now the factor is
lowered whenever it may be undefined, and the compilation fails with `divisionByZero`. -/
def exUndefDivL : Exp (Ext K) := .bin .mul (.num (.fin 0)) (.bin .div (.var "x") (.num (.fin 0)))

def exUndefDivC : Constraint (Ext K) :=
  { name := "c", lhs := exUndefDivL, cmp := .le, rhs := .num (.fin 1), isAssert := false }

def exUndefDiv : Model (Ext K) :=
  { optType := .min, objective := .var "x", constraints := [exUndefDivC],
    domain := [{ name := "x", ty := .real .ninf .pinf, usage := 1 }] }

theorem exUndefDiv_norm_lhs : normalizeExp (exUndefDivL : Exp (Ext K)) = some exUndefDivL := by
  simp [exUndefDivL, normalizeExp, flattenFuel, flattenF, simplify, mulCore, divCore, isNumEq, mayBeUndefined,
    ext_eq_fin, Arith.eq, Ext.eq, isNonzeroLit, Arith.zero, flattenF.flattenMulRest, isAddSub]

theorem exUndefDiv_norm_sub : normalizeExp (.bin .sub exUndefDivL (.num (.fin 1)) : Exp (Ext K))
    = some (.bin .sub exUndefDivL (.num (.fin 1))) := by
  simp [exUndefDivL, normalizeExp, flattenFuel, flattenF, simplify, mulCore, divCore, subCore, isNumEq,
    mayBeUndefined, ext_eq_fin, Arith.eq, Ext.eq, isNonzeroLit, Arith.zero, flattenF.flattenMulRest, isAddSub]

theorem bind_err {α β γ : Type} [Arith α] (x : M α β) (f : β → M α γ) (s : St α) (e : LinErr) :
    (x >>= f) s = .error e ↔ x s = .error e ∨ ∃ a s1, x s = .ok (a, s1) ∧ f a s1 = .error e := by
  show (StateT.bind x f s) = _ ↔ _
  unfold StateT.bind
  cases h : x s with
  | error e' => simp [bind, Except.bind]
  | ok p => obtain ⟨a, s1⟩ := p; simp [bind, Except.bind]

theorem exUndefDiv_linExp (req : Req) (s : St (Ext K)) :
    linExp (.bin .sub exUndefDivL (.num (.fin 1)) : Exp (Ext K)) req s = .error .divisionByZero := by
  rw [linExp, bind_err]
  left
  rw [exUndefDivL, linExp]
  have hg : (Arith.eq (Ext.fin (0 : K)) (Arith.zero : Ext K) &&
      !(Exp.mayBeUndefined (.bin .div (.var "x") (.num (.fin 0)) : Exp (Ext K)))) = false := by
    simp [mayBeUndefined, isNonzeroLit, Arith.ne, Arith.eq, Ext.eq, Arith.zero]
  rw [hg]
  simp only [Bool.false_eq_true, if_false]
  rw [bind_err]
  left
  rw [linExp]
  have h0 : Arith.eq (Ext.fin (0 : K)) (Arith.zero : Ext K) = true := by simp [Arith.eq, Ext.eq, Arith.zero]
  rw [if_pos h0]
  rfl

theorem exUndefDiv_proc (s : St (Ext K)) :
    processConstraint (exUndefDivC : Constraint (Ext K)) s = .error .divisionByZero := by
  unfold processConstraint
  rw [bind_err]
  right
  refine ⟨exUndefDivL, s, (simplifyFlat_ok _ _ _).mpr ⟨_, exUndefDiv_norm_lhs, rfl⟩, ?_⟩
  rw [bind_err]
  right
  refine ⟨.num (.fin 1), s, (simplifyFlat_ok _ _ _).mpr ⟨_, exUndef_norm_rhs, rfl⟩, ?_⟩
  show dispatch "c" exUndefDivL .le (.num (.fin 1)) s = _
  unfold dispatch
  rw [bind_err]
  right
  refine ⟨s, s, rfl, ?_⟩
  have : tryNormalize s.domain (exUndefDivL : Exp (Ext K)) .le (.num (.fin 1)) = none := by
    simp [tryNormalize, isLogicValue, exUndefDivL]
  simp only [this]
  unfold emitConstraint
  simp only [exUndefDiv_norm_sub]
  rw [bind_err]
  left
  exact exUndefDiv_linExp _ s

theorem exUndefDiv_drain (s : St (Ext K)) (hs : s.queue = (exUndefDiv : Model (Ext K)).constraints) :
    drain drainFuel s = .error .divisionByZero := by
  have h1 : drainFuel = 999999 + 1 := rfl
  rw [h1, drain_succ, bind_err]
  right
  refine ⟨s, s, rfl, ?_⟩
  simp only [hs, exUndefDiv]
  rw [bind_err]
  right
  refine ⟨⟨⟩, _, rfl, ?_⟩
  rw [bind_err]
  left
  exact exUndefDiv_proc _

/-- **regression for the repaired finding**: every literal of `c: 0 * (x / 0) ≤ 1` is finite and the constraint
has no value at any assignment; the compilation is now rejected with `divisionByZero` (before rooc 5a25b35 it
produced the row `0 ≤ 1`). -/
theorem exUndefDiv_error :
    linearizeWith (exUndefDiv : Model (Ext K)) [] (exUndefDiv : Model (Ext K)).domain = .error .divisionByZero := by
  cases h : linearizeWith (exUndefDiv : Model (Ext K)) [] (exUndefDiv : Model (Ext K)).domain with
  | ok lm =>
    exfalso
    obtain ⟨objExp, s1, obj, s2, s3, h1, h2, h3, _⟩ := (linearizeWith_ok_iff _ _ _ _).mp h
    obtain ⟨e', he', hr⟩ := (simplifyFlat_ok _ _ _).mp h1
    simp only [Prod.mk.injEq] at hr
    obtain ⟨rfl, rfl⟩ := hr
    have hx : normalizeExp (.var "x" : Exp (Ext K)) = some (.var "x") := by
      simp [normalizeExp, flattenFuel, flattenF, simplify]
    simp only [exUndefDiv, hx, Option.some.injEq] at he'
    subst he'
    rw [linExp] at h2
    simp only [pure_ok, Prod.mk.injEq] at h2
    obtain ⟨_, rfl⟩ := h2
    rw [exUndefDiv_drain _ rfl] at h3
    cases h3
  | error e =>
    unfold linearizeWith at h
    simp only at h
    split at h
    · cases h
    · rename_i e' hprog
      simp only [Except.error.injEq] at h
      subst h
      simp only [bind_err] at hprog
      have hx : normalizeExp (.var "x" : Exp (Ext K)) = some (.var "x") := by
        simp [normalizeExp, flattenFuel, flattenF, simplify]
      have hsf : ∀ s : St (Ext K), simplifyFlat (exUndefDiv : Model (Ext K)).objective s = .ok (.var "x", s) :=
        fun s => (simplifyFlat_ok _ _ _).mpr ⟨_, by simpa [exUndefDiv] using hx, rfl⟩
      rcases hprog with hp | ⟨a, s1, hp, hprog⟩
      · rw [hsf] at hp; cases hp
      · rw [hsf] at hp
        simp only [Except.ok.injEq, Prod.mk.injEq] at hp
        obtain ⟨rfl, rfl⟩ := hp
        rcases hprog with hp | ⟨a, s2, hp, hprog⟩
        · rw [linExp] at hp; cases hp
        · rw [linExp] at hp
          have hp' : (a, s2) = (Ctx.fromVar "x" (Arith.one : Ext K), _) := ((pure_ok _ _ _).mp hp)
          simp only [Prod.mk.injEq] at hp'
          obtain ⟨rfl, rfl⟩ := hp'
          rcases hprog with hp | ⟨a, s3, hp, hprog⟩
          · rw [exUndefDiv_drain _ rfl] at hp
            simp only [Except.error.injEq] at hp
            rw [hp]
          · rw [exUndefDiv_drain _ rfl] at hp; cases hp

/-- if the objective is lowered and the loop stops with an error, `linearizeWith` reports that error. -/
theorem linearizeWith_error_of_drain {m : Model (Ext K)} {b : BoundsMap (Ext K)} {d : List (DomVar (Ext K))}
    {o : Exp (Ext K)} {c : Ctx (Ext K)} {s1 : St (Ext K)} {e : LinErr}
    (h1 : simplifyFlat m.objective { queue := m.constraints, domain := d, bounds := b } =
      .ok (o, { queue := m.constraints, domain := d, bounds := b }))
    (h2 : linExp o (objReq m) { queue := m.constraints, domain := d, bounds := b } = .ok (c, s1))
    (h3 : drain drainFuel s1 = .error e) : linearizeWith m b d = .error e := by
  cases h : linearizeWith m b d with
  | ok lm =>
    exfalso
    obtain ⟨o', s1', c', s2', s3', g1, g2, g3, _⟩ := (linearizeWith_ok_iff _ _ _ _).mp h
    rw [h1] at g1
    simp only [Except.ok.injEq, Prod.mk.injEq] at g1
    obtain ⟨rfl, rfl⟩ := g1
    rw [h2] at g2
    simp only [Except.ok.injEq, Prod.mk.injEq] at g2
    obtain ⟨rfl, rfl⟩ := g2
    rw [h3] at g3; cases g3
  | error e' =>
    unfold linearizeWith at h
    simp only at h
    split at h
    · cases h
    · rename_i e'' hprog
      simp only [Except.error.injEq] at h
      subst h
      simp only [bind_err] at hprog
      rcases hprog with hp | ⟨a, s1', hp, hprog⟩
      · rw [h1] at hp; cases hp
      · rw [h1] at hp
        simp only [Except.ok.injEq, Prod.mk.injEq] at hp
        obtain ⟨rfl, rfl⟩ := hp
        rcases hprog with hp | ⟨a', s2', hp, hprog⟩
        · have key : (Except.error e'' : Except LinErr (Ctx (Ext K) × St (Ext K))) = Except.ok (c, s1) :=
            hp.symm.trans h2
          cases key
        · have key : (Except.ok (a', s2') : Except LinErr (Ctx (Ext K) × St (Ext K))) = Except.ok (c, s1) :=
            hp.symm.trans h2
          simp only [Except.ok.injEq, Prod.mk.injEq] at key
          obtain ⟨rfl, rfl⟩ := key
          rcases hprog with hp | ⟨a'', s3', hp, hprog⟩
          · rw [h3] at hp
            simp only [Except.error.injEq] at hp
            rw [hp]
          · rw [h3] at hp; cases hp

theorem exUndefDivL_linExp (req : Req) (s : St (Ext K)) :
    linExp (exUndefDivL : Exp (Ext K)) req s = .error .divisionByZero := by
  rw [exUndefDivL, linExp]
  have hg : (Arith.eq (Ext.fin (0 : K)) (Arith.zero : Ext K) &&
      !(Exp.mayBeUndefined (.bin .div (.var "x") (.num (.fin 0)) : Exp (Ext K)))) = false := by
    simp [mayBeUndefined, isNonzeroLit, Arith.ne, Arith.eq, Ext.eq, Arith.zero]
  rw [hg]
  simp only [Bool.false_eq_true, if_false]
  rw [bind_err]
  left
  rw [linExp]
  have h0 : Arith.eq (Ext.fin (0 : K)) (Arith.zero : Ext K) = true := by simp [Arith.eq, Ext.eq, Arith.zero]
  rw [if_pos h0]
  rfl

/-! ### a decidable sufficient condition for definedness on the piecewise-linear fragment -/

mutual
/-- every literal is finite, every divisor is a non-zero finite literal, no `min`/`max` is empty. -/
noncomputable def wellDef : Exp (Ext K) → Bool
  | .num v => Arith.isFinite v
  | .var _ => true
  | .abs e => wellDef e
  | .un .neg e => wellDef e
  | .min es => !es.isEmpty && wellDefList es
  | .max es => !es.isEmpty && wellDefList es
  | .bin .div a (.num d) => wellDef a && Arith.isFinite d && !(Arith.eq d Arith.zero)
  | .bin .div _ _ => false
  | .bin op a b => isArithOp op && wellDef a && wellDef b
  | _ => false
noncomputable def wellDefList : List (Exp (Ext K)) → Bool
  | [] => true
  | e :: es => wellDef e && wellDefList es
end

theorem wellDefList_iff : ∀ es : List (Exp (Ext K)), wellDefList es = true ↔ ∀ e ∈ es, wellDef e = true
  | [] => by simp [wellDefList]
  | e :: es => by simp [wellDefList, wellDefList_iff es]

theorem evalList_of_all {ρ : String → K} : ∀ (es : List (Exp (Ext K))), (∀ e ∈ es, ∃ v, eval ρ e = some v) →
    ∃ vs, evalList ρ es = some vs ∧ vs.length = es.length
  | [], _ => ⟨[], by simp [evalList], rfl⟩
  | e :: es, h => by
    obtain ⟨v, hv⟩ := h e (by simp)
    obtain ⟨vs, hvs, hl⟩ := evalList_of_all es (fun e' he' => h e' (by simp [he']))
    exact ⟨v :: vs, by simp [evalList, hv, hvs], by simp [hl]⟩

theorem definedE_of_wellDef : ∀ e : Exp (Ext K), wellDef e = true → DefinedE e := by
  intro e
  induction e using Exp.indL with
  | num v =>
    intro h ρ
    simp only [wellDef] at h
    obtain ⟨k, rfl⟩ := (isFinite_iff v).mp h
    exact ⟨k, eval_num_fin ρ k⟩
  | var x => intro _ ρ; exact ⟨ρ x, eval_var ρ x⟩
  | abs e ih =>
    intro h ρ
    simp only [wellDef] at h
    obtain ⟨v, hv⟩ := ih h ρ
    exact ⟨kabs v, by rw [eval]; simp [hv]⟩
  | un op e ih =>
    intro h ρ
    cases op with
    | not => simp [wellDef] at h
    | neg =>
      simp only [wellDef] at h
      obtain ⟨v, hv⟩ := ih h ρ
      exact ⟨_, eval_negExp hv⟩
  | max es ih =>
    intro h ρ
    simp only [wellDef, Bool.and_eq_true, Bool.not_eq_true', wellDefList_iff] at h
    obtain ⟨vs, hvs, hl⟩ := evalList_of_all (ρ := ρ) es (fun e he => ih e he (h.2 e he) ρ)
    cases vs with
    | nil =>
      have : es = [] := List.length_eq_zero_iff.mp hl.symm
      rw [this] at h; simp at h
    | cons x xs => exact ⟨_, eval_max_of_list hvs⟩
  | min es ih =>
    intro h ρ
    simp only [wellDef, Bool.and_eq_true, Bool.not_eq_true', wellDefList_iff] at h
    obtain ⟨vs, hvs, hl⟩ := evalList_of_all (ρ := ρ) es (fun e he => ih e he (h.2 e he) ρ)
    cases vs with
    | nil =>
      have : es = [] := List.length_eq_zero_iff.mp hl.symm
      rw [this] at h; simp at h
    | cons x xs => exact ⟨_, eval_min_of_list hvs⟩
  | bin op a b iha ihb =>
    intro h ρ
    cases op with
    | div =>
      rcases num_or_not b with ⟨d, rfl⟩ | hnb
      · simp only [wellDef, Bool.and_eq_true, Bool.not_eq_true'] at h
        obtain ⟨⟨ha, hfd⟩, hd0⟩ := h
        obtain ⟨k, rfl⟩ := (isFinite_iff d).mp hfd
        obtain ⟨v, hv⟩ := iha ha ρ
        have hk : k ≠ 0 := by
          intro hk0; rw [hk0] at hd0
          simp [Arith.eq, ext_eq_fin] at hd0
        exact ⟨v / k, by simp [eval_bin, hv, eval_num_fin, binVal, hk]⟩
      · exfalso
        cases b <;> simp [wellDef] at h
        exact hnb _ rfl
    | add =>
      simp only [wellDef, isArithOp, Bool.and_eq_true, Bool.true_and] at h
      obtain ⟨x, hx⟩ := iha h.1 ρ; obtain ⟨y, hy⟩ := ihb h.2 ρ
      exact ⟨x + y, by simp [eval_bin, hx, hy, binVal]⟩
    | sub =>
      simp only [wellDef, isArithOp, Bool.and_eq_true, Bool.true_and] at h
      obtain ⟨x, hx⟩ := iha h.1 ρ; obtain ⟨y, hy⟩ := ihb h.2 ρ
      exact ⟨x - y, by simp [eval_bin, hx, hy, binVal]⟩
    | mul =>
      simp only [wellDef, isArithOp, Bool.and_eq_true, Bool.true_and] at h
      obtain ⟨x, hx⟩ := iha h.1 ρ; obtain ⟨y, hy⟩ := ihb h.2 ρ
      exact ⟨x * y, by simp [eval_bin, hx, hy, binVal]⟩
    | _ => simp [wellDef, isArithOp] at h
  | _ => intro h; simp [wellDef] at h


/-! ### a model that really introduces an auxiliary: non-vacuity of `c01_partial` / `c02_partial` -/

/-- `min y  s.t.  c: abs{x} ≤ y`, `x ∈ [-1, 2]`, `y` free. -/
def exAbs : Model (Ext K) :=
  { optType := .min, objective := .var "y",
    constraints := [{ name := "c", lhs := .abs (.var "x"), cmp := .le, rhs := .var "y", isAssert := false }],
    domain := [{ name := "x", ty := .real (.fin (-1)) (.fin 2), usage := 1 },
               { name := "y", ty := .real .ninf .pinf, usage := 1 }] }

def exAbsBounds : BoundsMap (Ext K) := [("x", ⟨.fin (-1), .fin 2⟩)]

def exAbsInner : Exp (Ext K) := .bin .add (.num (.fin 0)) (.bin .mul (.num (.fin 1)) (.var "x"))

theorem exAbs_norm_abs : normalizeExp (.abs (.var "x") : Exp (Ext K)) = some (.abs (.var "x")) := by
  simp [normalizeExp, flattenFuel, flattenF, simplify]
theorem exAbs_norm_var (n : String) : normalizeExp (.var n : Exp (Ext K)) = some (.var n) := by
  simp [normalizeExp, flattenFuel, flattenF, simplify]
theorem exAbs_norm_sub1 : normalizeExp (.bin .sub (.abs (.var "x")) (.var "y") : Exp (Ext K))
    = some (.bin .sub (.abs (.var "x")) (.var "y")) := by
  simp [normalizeExp, flattenFuel, flattenF, simplify, subCore]
theorem exAbs_norm_inner : normalizeExp (exAbsInner : Exp (Ext K)) = some (.var "x") := by
  simp [exAbsInner, normalizeExp, flattenFuel, flattenF, simplify, addCore, mulCore, isNumEq, ext_eq_fin]
theorem exAbs_norm_neg_inner : normalizeExp (.un .neg exAbsInner : Exp (Ext K)) = some (.un .neg (.var "x")) := by
  simp [exAbsInner, normalizeExp, flattenFuel, flattenF, simplify, addCore, mulCore, isNumEq, ext_eq_fin]
theorem exAbs_norm_sub2 (v : String) : normalizeExp (.bin .sub (.var v) (.un .neg (.var "x")) : Exp (Ext K))
    = some (.bin .sub (.var v) (.un .neg (.var "x"))) := by
  simp [normalizeExp, flattenFuel, flattenF, simplify, subCore]
theorem exAbs_norm_sub3 (v : String) : normalizeExp (.bin .sub (.var v) (.var "x") : Exp (Ext K))
    = some (.bin .sub (.var v) (.var "x")) := by
  simp [normalizeExp, flattenFuel, flattenF, simplify, subCore]

/-- the abs gadget on `abs{x}` with `x ∈ [-1, 2]`, requirement `lower`. -/
theorem exAbs_lin_abs (s : St (Ext K)) (hb : lookupB s.bounds "x" = some ⟨.fin (-1), .fin 2⟩)
    (hf : toString "$abs_" ++ toString s.absCount ∉ s.domain.map (·.name)) :
    linExp (.abs (.var "x") : Exp (Ext K)) .lower s = .ok (Ctx.fromVar (toString "$abs_" ++ toString s.absCount) Arith.one,
      absState1 s (toString "$abs_" ++ toString s.absCount) ⟨.fin (-1), .fin 2⟩ exAbsInner) := by
  rw [linExp]
  simp only [bind_ok, get_ok]
  refine ⟨s, s, rfl, ?_⟩
  have hbo : boundsOf s.bounds (.var "x" : Exp (Ext K)) = ⟨.fin (-1), .fin 2⟩ := by simp [boundsOf, hb]
  rw [hbo]
  have h1 : ¬ (Arith.ge (Ext.fin (-1) : Ext K) Arith.zero = true) := by simp [Arith.ge, Arith.le, ext_le_fin]
  have h2 : ¬ (Arith.le (Ext.fin 2 : Ext K) Arith.zero = true) := by simp [Arith.le, ext_le_fin]
  simp only [if_neg h1, if_neg h2]
  simp only [ite_ok, bind_ok, pure_ok, fail_ok, get_ok, set_ok, declareVariable_ok, addConstraint_ok]
  right
  refine ⟨by simp, Ctx.fromVar "x" Arith.one, s, by simp [linExp, pure_ok], ?_⟩
  refine ⟨s, s, rfl, ⟨⟩, _, rfl, ⟨⟩, _, ⟨hf, rfl⟩, ⟨⟩, _, rfl, ⟨⟩, _, rfl, Or.inr ⟨by simp, ?_⟩⟩
  simp [absState1, bumpAbs, pushC, exAbsInner, fromVar_eq, ctxToExp]

theorem exAbs_emit_c (s : St (Ext K)) (hb : lookupB s.bounds "x" = some ⟨.fin (-1), .fin 2⟩)
    (hf : toString "$abs_" ++ toString s.absCount ∉ s.domain.map (·.name)) :
    ∃ row, emitConstraint (.abs (.var "x") : Exp (Ext K)) .le (.var "y") "c" s = .ok ((),
      addRow (absState1 s (toString "$abs_" ++ toString s.absCount) ⟨.fin (-1), .fin 2⟩ exAbsInner) row) := by
  let cx : Ctx (Ext K) := (Ctx.fromVar (toString "$abs_" ++ toString s.absCount) Arith.one).mergeSub
    (Ctx.fromVar "y" Arith.one)
  refine ⟨{ name := "c", lhs := cx.vars, rhs := Arith.neg cx.rhs, cmp := .le }, ?_⟩
  rw [emitConstraint_ok]
  refine ⟨_, cx, _, exAbs_norm_sub1, ?_, rfl⟩
  rw [linExp]
  simp only [bind_ok, pure_ok]
  exact ⟨_, _, exAbs_lin_abs s hb hf, Ctx.fromVar "y" Arith.one, _, by simp [linExp, pure_ok], rfl⟩

theorem exAbs_proc_c (s : St (Ext K)) (hb : lookupB s.bounds "x" = some ⟨.fin (-1), .fin 2⟩)
    (hf : toString "$abs_" ++ toString s.absCount ∉ s.domain.map (·.name)) :
    ∃ row, processConstraint ({ name := "c", lhs := .abs (.var "x"), cmp := .le, rhs := .var "y", isAssert := false } :
      Constraint (Ext K)) s = .ok ((),
      addRow (absState1 s (toString "$abs_" ++ toString s.absCount) ⟨.fin (-1), .fin 2⟩ exAbsInner) row) := by
  obtain ⟨row, hrow⟩ := exAbs_emit_c s hb hf
  refine ⟨row, ?_⟩
  unfold processConstraint dispatch
  simp only [bind_ok, get_ok, simplifyFlat_ok]
  refine ⟨_, _, ⟨_, exAbs_norm_abs, rfl⟩, _, _, ⟨_, exAbs_norm_var "y", rfl⟩, ?_⟩
  simp only [Bool.false_eq_true, if_false, bind_ok, get_ok]
  refine ⟨s, s, rfl, ?_⟩
  have : tryNormalize s.domain (.abs (.var "x") : Exp (Ext K)) .le (.var "y") = none := by
    simp [tryNormalize]
  simp only [this]
  exact hrow

/-- an auxiliary row `v ≥ rhs` whose right side normalises to `rhs'`, an affine expression in `x`. -/
theorem exAbs_proc_aux (s : St (Ext K)) (v : String) (rhs rhs' : Exp (Ext K))
    (hn : normalizeExp rhs = some rhs')
    (hn2 : normalizeExp (.bin .sub (.var v) rhs' : Exp (Ext K)) = some (.bin .sub (.var v) rhs'))
    (hshape : rhs' = .var "x" ∨ rhs' = .un .neg (.var "x")) :
    ∃ row, processConstraint ({ name := "", lhs := .var v, cmp := .ge, rhs := rhs, isAssert := false } :
      Constraint (Ext K)) s = .ok ((), addRow s row) := by
  have hlin : ∃ c, linExp (.bin .sub (.var v) rhs' : Exp (Ext K)) .higher s = .ok (c, s) := by
    rcases hshape with rfl | rfl
    · exact ⟨(Ctx.fromVar v Arith.one).mergeSub (Ctx.fromVar "x" Arith.one), by simp [linExp, bind_ok, pure_ok]⟩
    · exact ⟨(Ctx.fromVar v Arith.one).mergeSub ((Ctx.fromVar "x" Arith.one).mulBy (Arith.ofInt (-1))),
        by simp [linExp, bind_ok, pure_ok]⟩
  obtain ⟨c, hc⟩ := hlin
  refine ⟨{ name := "", lhs := c.vars, rhs := Arith.neg c.rhs, cmp := .ge }, ?_⟩
  unfold processConstraint dispatch
  simp only [bind_ok, get_ok, simplifyFlat_ok]
  refine ⟨_, _, ⟨_, exAbs_norm_var v, rfl⟩, _, _, ⟨_, hn, rfl⟩, ?_⟩
  simp only [Bool.false_eq_true, if_false, bind_ok, get_ok]
  refine ⟨s, s, rfl, ?_⟩
  have : tryNormalize s.domain (.var v : Exp (Ext K)) .ge rhs' = none := by
    rcases hshape with rfl | rfl <;> simp [tryNormalize]
  simp only [this]
  rw [emitConstraint_ok]
  exact ⟨_, c, s, hn2, hc, rfl⟩

theorem drain_nil (n : Nat) (s : St (Ext K)) (hq : s.queue = []) : drain (n + 1) s = .ok ((), s) := by
  rw [drain_succ]
  simp only [bind_ok, get_ok]
  exact ⟨s, s, rfl, by simp [hq, pure_ok]⟩

theorem drain_cons (n : Nat) (s s1 : St (Ext K)) (c : Constraint (Ext K)) (rest : List (Constraint (Ext K)))
    (hq : s.queue = c :: rest) (hp : processConstraint c { s with queue := rest } = .ok ((), s1)) (r : Unit × St (Ext K))
    (hd : drain n s1 = .ok r) : drain (n + 1) s = .ok r := by
  rw [drain_succ]
  simp only [bind_ok, get_ok]
  refine ⟨s, s, rfl, ?_⟩
  simp only [hq, bind_ok, set_ok]
  exact ⟨_, _, rfl, _, _, hp, hd⟩

theorem exAbs_ok_of (b : BoundsMap (Ext K)) (hb : lookupB b "x" = some ⟨.fin (-1), .fin 2⟩) :
    ∃ lm, linearizeWith (exAbs : Model (Ext K)) b (exAbs : Model (Ext K)).domain = .ok lm := by
  let s0 : St (Ext K) := { queue := (exAbs : Model (Ext K)).constraints, domain := (exAbs : Model (Ext K)).domain, bounds := b }
  have hb0 : lookupB s0.bounds "x" = some ⟨.fin (-1), .fin 2⟩ := hb
  have hf0 : toString "$abs_" ++ toString ({ s0 with queue := [] } : St (Ext K)).absCount ∉
      ({ s0 with queue := [] } : St (Ext K)).domain.map (·.name) := by
    simp [s0, exAbs]; decide
  obtain ⟨row, hproc⟩ := exAbs_proc_c { s0 with queue := [] } hb0 hf0
  set v := toString "$abs_" ++ toString ({ s0 with queue := [] } : St (Ext K)).absCount with hv
  set s1 := addRow (absState1 { s0 with queue := [] } v ⟨.fin (-1), .fin 2⟩ exAbsInner) row with hs1
  have hq1 : s1.queue = [mkC (.var v) .ge (.un .neg exAbsInner), mkC (.var v) .ge exAbsInner] := rfl
  obtain ⟨row2, hp2⟩ := exAbs_proc_aux { s1 with queue := [mkC (.var v) .ge exAbsInner] } v (.un .neg exAbsInner) _
    exAbs_norm_neg_inner (exAbs_norm_sub2 v) (Or.inr rfl)
  obtain ⟨row3, hp3⟩ := exAbs_proc_aux
    { (addRow { s1 with queue := [mkC (.var v) .ge exAbsInner] } row2) with queue := [] } v exAbsInner _
    exAbs_norm_inner (exAbs_norm_sub3 v) (Or.inl rfl)
  have hdrain : ∃ s3, drain drainFuel s0 = .ok ((), s3) := by
    have h1 : drainFuel = 999995 + 1 + 1 + 1 + 1 + 1 := rfl
    rw [h1]
    have key : ∀ r, drain (999995 + 1 + 1) (addRow { (addRow { s1 with queue := [mkC (.var v) .ge exAbsInner] } row2) with queue := [] } row3) = .ok r →
        drain (999995 + 1 + 1 + 1 + 1 + 1) s0 = .ok r := by
      intro r hr
      apply drain_cons _ s0 s1 _ [] rfl hproc
      apply drain_cons _ s1 _ _ _ hq1 hp2
      apply drain_cons _ _ _ _ [] rfl hp3
      exact hr
    exact ⟨_, key _ (drain_nil (999995 + 1) _ rfl)⟩
  obtain ⟨s3, hs3⟩ := hdrain
  exact ⟨_, (linearizeWith_ok_iff _ _ _ _).mpr ⟨.var "y", s0, Ctx.fromVar "y" Arith.one, s0, s3,
    by simp [simplifyFlat_ok, exAbs_norm_var, exAbs, s0], by simp [linExp, pure_ok], hs3, rfl⟩⟩

theorem exAbs_ok : ∃ lm, linearizeWith (exAbs : Model (Ext K)) exAbsBounds (exAbs : Model (Ext K)).domain = .ok lm :=
  exAbs_ok_of _ (by simp [exAbsBounds, lookupB])

theorem exAbs_hyps : FragModel true (exAbs : Model (Ext K)) (exAbs : Model (Ext K)).domain ∧
    DomRel (exAbs : Model (Ext K)) (exAbs : Model (Ext K)).domain ∧
    BoxEnforced (exAbsBounds : BoundsMap (Ext K)) (exAbs : Model (Ext K)).domain := by
  have sx : inScope (exAbs : Model (Ext K)).domain "x" :=
    ⟨{ name := "x", ty := .real (.fin (-1)) (.fin 2), usage := 1 }, by simp [exAbs], rfl, by simp⟩
  have sy : inScope (exAbs : Model (Ext K)).domain "y" :=
    ⟨{ name := "y", ty := .real .ninf .pinf, usage := 1 }, by simp [exAbs], rfl, by simp⟩
  refine ⟨⟨FG_var.mpr sy, fun ρ => ⟨ρ "y", by simp [exAbs, eval]⟩, ?_⟩,
    ⟨by simp [exAbs], fun _ h => h, fun ρ h => ((srcFeasible_iff _ ρ).mp h).2,
      fun dv hdv hu => ⟨dv, hdv, rfl, hu⟩⟩, ?_⟩
  · intro c hc
    simp only [exAbs, List.mem_singleton] at hc
    subst hc
    refine ⟨rfl, FG_abs.mpr (FG_var.mpr sx), FG_var.mpr sy, fun ρ => ⟨|ρ "x"|, ρ "y", ?_, by simp [eval]⟩⟩
    rw [eval]; simp [eval, kabs_eq]
  · intro ρ hd n bd _ hl
    simp only [exAbsBounds, lookupB_cons] at hl
    by_cases hn : "x" = n
    · subst hn
      simp only [if_true, Option.some.injEq] at hl
      subst hl
      have := hd { name := "x", ty := .real (.fin (-1)) (.fin 2), usage := 1 } (by simp [exAbs]) (by simp)
      exact (inDomain_real_iff _ _ _).mp this
    · simp [hn, lookupB] at hl

end Rooc.LinP
