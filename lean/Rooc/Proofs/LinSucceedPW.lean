/-
No spurious error on the piecewise-linear fragment, part 1: `Exp::linearize`.
-/
import Rooc.Proofs.LinFresh
import Rooc.Proofs.LinSize

set_option linter.unusedSectionVars false
set_option linter.unusedSimpArgs false
set_option linter.unusedVariables false
set_option linter.unusedTactic false
set_option linter.unreachableTactic false

namespace Rooc.LinP
open Rooc Rooc.Lin Rooc.Sem Rooc.Exp

variable {K : Type} [Field K] [LinearOrder K] [IsStrictOrderedRing K] [FloorRing K]

theorem gen_abs_pos (id : Nat) : gen .abs id .none ++ toString "_positive" = gen .abs id .positive := by
  apply String.toList_inj.mp
  simp [gen, Fam.pre, Suf.str, String.toList_append, List.append_assoc]
  rfl

/-- the big-M gadget of `abs` goes through: both auxiliary names are new. -/
theorem abs_gadget_succeeds {e : Exp (Ext K)} {req : Req} {s s1 : St (Ext K)} {innerC : Ctx (Ext K)}
    (h1 : ¬ Arith.ge (boundsOf s.bounds e).lower (Arith.zero : Ext K) = true)
    (h2 : ¬ Arith.le (boundsOf s.bounds e).upper (Arith.zero : Ext K) = true)
    (hreq : req = .lower ∨ (Arith.isFinite (boundsOf s.bounds e).lower = true ∧
      Arith.isFinite (boundsOf s.bounds e).upper = true))
    (hin : linExp e .exact s = .ok (innerC, s1)) (hn : NamesOK s1) :
    ∃ c s', linExp (.abs e) req s = .ok (c, s') ∧ Grow s1 s' ∧ csz c = 1 ∧
      ∃ extra, s'.queue = extra ++ s1.queue ∧ extra.length ≤ 4 ∧ ∀ a ∈ extra, AuxC (5 * csz innerC + 20) a := by
  have hsz := fsize_ctxToExp innerC
  have hL := L1_ctxToExp innerC
  have hA1 : ∀ v : String, AuxC (5 * csz innerC + 20) (mkC (.var v) .ge (ctxToExp innerC)) := fun v =>
    auxC_mkC (by simp [L1]) hL (by simp only [fsize]; omega)
  have hA2 : ∀ v : String, AuxC (5 * csz innerC + 20) (mkC (.var v) .ge (.un .neg (ctxToExp innerC))) := fun v =>
    auxC_mkC (by simp [L1]) (by simpa [L1] using hL) (by simp only [fsize]; omega)
  have hA3 : ∀ (v p : String) (M : Ext K), AuxC (5 * csz innerC + 20) (mkC (.var v) .le
      (subExp (ctxToExp innerC) (mulExp (.num M) (subExp (.num Arith.one) (.var p))))) := fun v p M =>
    auxC_mkC (by simp [L1]) (by simp [subExp, mulExp, L1, hL, isNum]) (by simp only [fsize, subExp, mulExp]; omega)
  have hA4 : ∀ (v p : String) (M : Ext K), AuxC (5 * csz innerC + 20) (mkC (.var v) .le
      (addExp (.un .neg (ctxToExp innerC)) (mulExp (.num M) (.var p)))) := fun v p M =>
    auxC_mkC (by simp [L1]) (by simp [addExp, mulExp, L1, hL, isNum]) (by simp only [fsize, addExp, mulExp]; omega)
  have hv : gen .abs s1.absCount .none ∉ namesOf s1 := hn.fresh .abs (le_refl _) .none
  have hg1 : Grow s1 (absState1 s1 (gen .abs s1.absCount .none) (boundsOf s.bounds e) (ctxToExp innerC)) := by
    unfold absState1
    exact ((((Grow.refl s1).same (s' := bumpAbs s1) rfl rfl (ctr_bumpAbs s1)).decl .abs s1.absCount .none _
      (le_refl _) (by rw [ctr_abs_bumpAbs]; exact Nat.lt_succ_self _)).pushC _).pushC _
  by_cases hl : req = .lower
  · subst hl
    refine ⟨Ctx.fromVar (gen .abs s1.absCount .none) Arith.one, _, ?_, hg1, csz_fromVar _ _,
      [mkC (.var (gen .abs s1.absCount .none)) .ge (.un .neg (ctxToExp innerC)),
       mkC (.var (gen .abs s1.absCount .none)) .ge (ctxToExp innerC)], rfl, by simp, ?_⟩
    rotate_left
    · intro a ha
      simp only [List.mem_cons, List.mem_nil_iff, or_false] at ha
      rcases ha with rfl | rfl
      · exact hA2 _
      · exact hA1 _
    rw [linExp]
    simp only [bind_ok, get_ok]
    refine ⟨s, s, rfl, ?_⟩
    rw [if_neg h1, if_neg h2]
    simp only [ite_ok, bind_ok, pure_ok, fail_ok, get_ok, set_ok, declareVariable_ok, addConstraint_ok, name_abs]
    refine Or.inr ⟨by simp, innerC, s1, hin, _, _, rfl, _, _, rfl, _, _, ⟨hv, rfl⟩, _, _, rfl, _, _, rfl,
      Or.inr ⟨by simp, rfl⟩⟩
  · have hfin : Arith.isFinite (boundsOf s.bounds e).lower = true ∧ Arith.isFinite (boundsOf s.bounds e).upper = true :=
      hreq.resolve_left hl
    have hne : (req != Req.lower) = true := by simpa using hl
    have hp : gen .abs s1.absCount .positive ∉
        namesOf (absState1 s1 (gen .abs s1.absCount .none) (boundsOf s.bounds e) (ctxToExp innerC)) := by
      intro hmem
      simp only [namesOf, absState1, pushC_domain, declState_domain, List.map_append, List.map_cons, List.map_nil,
        List.mem_append, List.mem_singleton] at hmem
      rcases hmem with hmem | heq
      · exact hn.fresh .abs (le_refl _) .positive hmem
      · have := (gen_inj heq).2.2; cases this
    have hg2 : Grow s1 (absState2 (absState1 s1 (gen .abs s1.absCount .none) (boundsOf s.bounds e) (ctxToExp innerC))
        (gen .abs s1.absCount .none) (gen .abs s1.absCount .positive) (boundsOf s.bounds e) (ctxToExp innerC)) := by
      unfold absState2
      exact ((hg1.decl .abs s1.absCount .positive _ (le_refl _)
        (by show s1.absCount < s1.absCount + 1; exact Nat.lt_succ_self _)).pushC _).pushC _
    refine ⟨Ctx.fromVar (gen .abs s1.absCount .none) Arith.one, _, ?_, hg2, csz_fromVar _ _,
      [mkC (.var (gen .abs s1.absCount .none)) .le (addExp (.un .neg (ctxToExp innerC))
          (mulExp (.num (Arith.mul (Arith.ofInt 2) (boundsOf s.bounds e).upper)) (.var (gen .abs s1.absCount .positive)))),
       mkC (.var (gen .abs s1.absCount .none)) .le (subExp (ctxToExp innerC)
          (mulExp (.num (Arith.mul (Arith.ofInt 2) (boundsOf s.bounds e).lower))
            (subExp (.num Arith.one) (.var (gen .abs s1.absCount .positive))))),
       mkC (.var (gen .abs s1.absCount .none)) .ge (.un .neg (ctxToExp innerC)),
       mkC (.var (gen .abs s1.absCount .none)) .ge (ctxToExp innerC)], rfl, by simp, ?_⟩
    rotate_left
    · intro a ha
      simp only [List.mem_cons, List.mem_nil_iff, or_false] at ha
      rcases ha with rfl | rfl | rfl | rfl
      · exact hA4 _ _ _
      · exact hA3 _ _ _
      · exact hA2 _
      · exact hA1 _
    rw [linExp]
    simp only [bind_ok, get_ok]
    refine ⟨s, s, rfl, ?_⟩
    rw [if_neg h1, if_neg h2]
    simp only [ite_ok, bind_ok, pure_ok, fail_ok, get_ok, set_ok, declareVariable_ok, addConstraint_ok, name_abs,
      gen_abs_pos]
    refine Or.inr ⟨by simp [hfin.1, hfin.2], innerC, s1, hin, _, _, rfl, _, _, rfl, _, _, ⟨hv, rfl⟩, _, _, rfl, _, _, rfl,
      Or.inl ⟨hne, _, _, ⟨hp, rfl⟩, _, _, rfl, _, _, rfl, rfl⟩⟩

theorem gen_none_sel (F : Fam) (id j : Nat) :
    gen F id .none ++ toString "_select_" ++ toString j = gen F id (.select j) := by
  apply String.toList_inj.mp
  simp [gen, Suf.str, String.toList_append, List.append_assoc]
  rfl

theorem ctr_bumpMax (s : St (Ext K)) (F : Fam) : ctr s F ≤ ctr (bumpMax s) F := by
  cases F <;> simp [ctr, bumpMax]
theorem ctr_bumpMin (s : St (Ext K)) (F : Fam) : ctr s F ≤ ctr (bumpMin s) F := by
  cases F <;> simp [ctr, bumpMin]

theorem range_map_nodup (F : Fam) (id n : Nat) : ((List.range n).map fun j => gen F id (.select j)).Nodup := by
  refine (List.nodup_range).map ?_
  intro a b h
  have := (gen_inj h).2.2
  cases this; rfl

/-- the select names of a gadget are new after the operands have been lowered. -/
theorem sel_fresh {s s1 sL : St (Ext K)} (F : Fam) (hn : NamesOK s) (id : Nat) (hid : id = ctr s F)
    (hs1 : namesOf s1 = namesOf s ++ [gen F id .none]) (hc1 : ctr s1 F = id + 1) (g : Grow s1 sL) (j : Nat) :
    gen F id (.select j) ∉ namesOf sL := by
  intro hmem
  rcases g.names _ hmem with h | ⟨F', i, suf, heq, hlo, _⟩
  · rw [hs1, List.mem_append, List.mem_singleton] at h
    rcases h with h | h
    · exact hn.fresh F (by omega) (.select j) h
    · have := (gen_inj h).2.2; cases this
  · obtain ⟨rfl, rfl, _⟩ := gen_inj heq
    omega

/-- the gadget of `max{…}` with at least two retained operands goes through once the operands do. -/
theorem max_gadget_succeeds {es : List (Exp (Ext K))} {req : Req} {s : St (Ext K)}
    (flags : List Bool) (hflags : flags = retainedFlagsE .max es (boundsOfList s.bounds es))
    (rs : List (Exp (Ext K))) (hrs : rs = selectFlagged es flags)
    (rbs : List (Lin.Bounds (Ext K))) (hrbs : rbs = selectFlagged (boundsOfList s.bounds es) flags)
    (eb : Lin.Bounds (Ext K)) (heb : eb = boundsOf s.bounds (.max rs))
    (hne : es ≠ []) (hn0 : (flags.filter id).length ≠ 0) (hn1 : (flags.filter id).length ≠ 1)
    (hfin : req = .lower ∨ (Arith.isFinite eb.upper = true ∧ ∀ b ∈ rbs, Arith.isFinite b.lower = true))
    (hn : NamesOK s) (S : Nat) (R : St (Ext K) → List (Exp (Ext K)) → St (Ext K) → Prop)
    (hops : ∀ s1, Grow s s1 → s1.queue = s.queue →
      ∃ ops sL, linList rs (if req = .lower then .lower else .exact) s1 = .ok (ops, sL) ∧
        Grow s1 sL ∧ (∀ o ∈ ops, L1 o ∧ fsize o ≤ S) ∧ R s1 ops sL) :
    ∃ c s', linExtreme .max es req s = .ok (c, s') ∧ Grow s s' ∧ csz c = 1 ∧
      ∃ s1 ops sL extra, s1.queue = s.queue ∧ R s1 ops sL ∧ s'.queue = extra ++ sL.queue ∧
        extra.length ≤ 2 * ops.length + 1 ∧ ∀ a ∈ extra, AuxC (S + 3 * ops.length + 20) a := by
  subst hflags hrs hrbs heb
  set flags := retainedFlagsE .max es (boundsOfList s.bounds es) with hflags
  set v := gen .max s.maxCount .none with hv
  have hvfresh : v ∉ namesOf s := hn.fresh .max (le_refl _) .none
  have g1 : Grow s (maxState1 s v (boundsOf s.bounds (.max (selectFlagged es flags)))) := by
    unfold maxState1
    exact ((Grow.refl s).same (s' := bumpMax s) rfl rfl (ctr_bumpMax s)).decl .max s.maxCount .none _
      (le_refl _) (by show s.maxCount < s.maxCount + 1; exact Nat.lt_succ_self _)
  obtain ⟨ops, sL, hlin, gL, hopsOK, hR⟩ := hops _ g1 rfl
  have gsL : Grow s sL := g1.trans gL
  by_cases hl : req = .lower
  · subst hl
    simp only [if_true] at hlin
    refine ⟨Ctx.fromVar v Arith.one, pushAll sL (ops.flatMap fun o => [mkC (.var v) .ge o]), ?_, gsL.pushAll _,
      csz_fromVar _ _, maxState1 s v (boundsOf s.bounds (.max (selectFlagged es flags))), ops, sL,
      (ops.flatMap fun o => [mkC (.var v) .ge o]).reverse, rfl, hR, rfl, ?_, ?_⟩
    rotate_left
    · simp only [List.length_reverse, flatMap_singleton_map, List.length_map]; omega
    · intro a ha
      simp only [List.mem_reverse, flatMap_singleton_map, List.mem_map] at ha
      obtain ⟨o, ho, rfl⟩ := ha
      exact auxC_mkC (by simp [L1]) (hopsOK o ho).1 (by have := (hopsOK o ho).2; simp only [fsize]; omega)
    rw [linExtreme.eq_def]
    simp only [ite_ok, fail_ok, bind_ok, get_ok, set_ok, declareVariable_ok, pure_ok, and_false, false_or, name_ext,
      gen_none_sel]
    refine ⟨by simpa using hne, s, s, rfl, by simpa using hn0, Or.inr ⟨by simpa using hn1, by simp, _, _, rfl, _, _,
      ⟨hvfresh, rfl⟩, ops, sL, ?_, Or.inl ⟨by simp, ⟨⟩, _, ?_, rfl⟩⟩⟩
    · rw [linFlagged_eq]
      simp only [beq_self_eq_true, Bool.and_self, Bool.true_or, if_true]
      exact hlin
    · exact (forIn_ok (fun o => addConstraint (mkC (.var v) .ge o)) _ (by intro x u; rfl) _ _ _).mpr
        ((seqOK_push _ (fun o => [mkC (.var v) .ge o]) (fun x s => addConstraint_eq _ s) _ _ _).mpr rfl)
  · have hfin' := hfin.resolve_left hl
    have hos : (ExtKind.max == ExtKind.max && req == Req.lower || ExtKind.max == ExtKind.min && req == Req.higher) = false := by
      cases req <;> simp at hl ⊢
    simp only [hl, if_false] at hlin
    set eb := boundsOf s.bounds (.max (selectFlagged es flags)) with heb
    set rbs := selectFlagged (boundsOfList s.bounds es) flags with hrbs
    set selNames := (List.range ops.length).map (fun j => gen .max s.maxCount (.select j)) with hsel
    have hs1names : namesOf (maxState1 s v eb) = namesOf s ++ [v] := by
      simp [namesOf, maxState1, bumpMax]
    have hfreshSel : ∀ n ∈ selNames, n ∉ sL.domain.map (·.name) := by
      intro n hn'
      obtain ⟨j, _, rfl⟩ := List.mem_map.mp hn'
      exact sel_fresh .max hn s.maxCount rfl hs1names rfl gL j
    have hnd : selNames.Nodup := range_map_nodup .max s.maxCount ops.length
    have gD : Grow s (declAll sL .bool selNames) :=
      Grow.declAll .max s.maxCount .bool (le_refl _) (List.range ops.length) sL gsL
        (lt_of_lt_of_le (by show s.maxCount < s.maxCount + 1; exact Nat.lt_succ_self _) (gL.mono .max))
    refine ⟨Ctx.fromVar v Arith.one, maxState2 sL v eb.upper ops rbs selNames, ?_, ?_, csz_fromVar _ _, maxState1 s v eb, ops, sL,
      mkC (sumExps (selNames.map .var)) .eq (.num Arith.one) ::
        (((ops.zip rbs).zip (selNames.map .var)).flatMap (maxPair v eb.upper)).reverse, rfl, hR, ?_, ?_, ?_⟩
    rotate_left 2
    · simp [maxState2, pushC, pushAll, declAll_queue]
    · have hzl : ((ops.zip rbs).zip (selNames.map (Exp.var : String → Exp (Ext K)))).length ≤ ops.length := by
        simp only [List.length_zip]; omega
      have hfl : ∀ (l : List ((Exp (Ext K) × Lin.Bounds (Ext K)) × Exp (Ext K))),
          (l.flatMap (maxPair v eb.upper)).length = 2 * l.length := by
        intro l; induction l with
        | nil => rfl
        | cons x xs ih => simp only [List.flatMap_cons, List.length_append, ih, maxPair, List.length_cons, List.length_nil]; omega
      simp only [List.length_cons, List.length_reverse, hfl]; omega
    · intro a ha
      simp only [List.mem_cons, List.mem_reverse, List.mem_flatMap] at ha
      rcases ha with rfl | ⟨x, hx, hax⟩
      · have h1 := fsize_sumVars (K := K) selNames
        have h2 : selNames.length = ops.length := by simp [hsel]
        exact auxC_mkC (L1_sumVars _) (by simp [L1]) (by simp only [fsize]; omega)
      · have hx1 : x.1.1 ∈ ops := (List.of_mem_zip (List.of_mem_zip hx).1).1
        have hx2 : x.2 ∈ selNames.map Exp.var := (List.of_mem_zip hx).2
        obtain ⟨nm, _, hnm⟩ := List.mem_map.mp hx2
        have hL1 := (hopsOK _ hx1).1
        have hS := (hopsOK _ hx1).2
        simp only [maxPair, List.mem_cons, List.mem_nil_iff, or_false] at hax
        rcases hax with rfl | rfl
        · exact auxC_mkC (by simp [L1]) hL1 (by simp only [fsize]; omega)
        · exact auxC_mkC (by simp [L1]) (by rw [← hnm]; simp [addExp, mulExp, subExp, L1, hL1, isNum])
            (by rw [← hnm]; simp only [fsize, addExp, mulExp, subExp]; omega)
    · rw [linExtreme.eq_def]
      simp only [ite_ok, fail_ok, bind_ok, get_ok, set_ok, declareVariable_ok, pure_ok, and_false, false_or, name_ext,
        gen_none_sel]
      refine ⟨by simpa using hne, s, s, rfl, by simpa using hn0, Or.inr ⟨by simpa using hn1, ?_, _, _, rfl, _, _,
        ⟨hvfresh, rfl⟩, ops, sL, ?_, Or.inr ⟨by simpa using hl, ⟨⟩, declAll sL .bool selNames, ?_, ⟨⟩,
          pushAll (declAll sL .bool selNames) (((ops.zip rbs).zip (selNames.map .var)).flatMap (maxPair v eb.upper)), ?_,
          ⟨⟩, maxState2 sL v eb.upper ops rbs selNames, ?_, rfl⟩⟩⟩
      · simp only [hos, Bool.not_false, Bool.true_and, Bool.not_eq_true', Bool.not_eq_false, Bool.and_eq_true,
          List.all_eq_true]
        exact ⟨hfin'.1, hfin'.2⟩
      · rw [linFlagged_eq]
        simp only [hos, Bool.false_eq_true, if_false]
        exact hlin
      · exact (forIn_ok (fun sn => declareVariable sn (VarType.bool : VarType (Ext K))) _
          (by intro x u; rfl) _ _ _).mpr ((seqOK_declare _ _ _ _).mpr ⟨rfl, hfreshSel, hnd⟩)
      · exact (forIn_ok (fun (x : (Exp (Ext K) × Lin.Bounds (Ext K)) × Exp (Ext K)) => do
            addConstraint (mkC (.var v) .ge x.1.1)
            addConstraint (mkC (.var v) .le (addExp x.1.1 (mulExp (.num (Arith.sub eb.upper x.1.2.lower))
              (subExp (.num Arith.one) x.2))))) _ (by intro x u; simp [bind_assoc]; rfl) _ _ _).mpr
          ((seqOK_push _ (maxPair v eb.upper) (by
            intro x s
            simp only [bind_ok, maxPair]
            exact ⟨⟨⟩, _, addConstraint_eq _ _, by rw [addConstraint_eq, pushAll_append]; rfl⟩) _ _ _).mpr rfl)
      · rw [addConstraint_ok]; rfl
    · unfold maxState2
      exact (gD.pushAll _).pushC _

/-- the gadget of `min{…}` with at least two retained operands goes through once the operands do. -/
theorem min_gadget_succeeds {es : List (Exp (Ext K))} {req : Req} {s : St (Ext K)}
    (flags : List Bool) (hflags : flags = retainedFlagsE .min es (boundsOfList s.bounds es))
    (rs : List (Exp (Ext K))) (hrs : rs = selectFlagged es flags)
    (rbs : List (Lin.Bounds (Ext K))) (hrbs : rbs = selectFlagged (boundsOfList s.bounds es) flags)
    (eb : Lin.Bounds (Ext K)) (heb : eb = boundsOf s.bounds (.min rs))
    (hne : es ≠ []) (hn0 : (flags.filter id).length ≠ 0) (hn1 : (flags.filter id).length ≠ 1)
    (hfin : req = .higher ∨ (Arith.isFinite eb.lower = true ∧ ∀ b ∈ rbs, Arith.isFinite b.upper = true))
    (hn : NamesOK s) (S : Nat) (R : St (Ext K) → List (Exp (Ext K)) → St (Ext K) → Prop)
    (hops : ∀ s1, Grow s s1 → s1.queue = s.queue →
      ∃ ops sL, linList rs (if req = .higher then .higher else .exact) s1 = .ok (ops, sL) ∧
        Grow s1 sL ∧ (∀ o ∈ ops, L1 o ∧ fsize o ≤ S) ∧ R s1 ops sL) :
    ∃ c s', linExtreme .min es req s = .ok (c, s') ∧ Grow s s' ∧ csz c = 1 ∧
      ∃ s1 ops sL extra, s1.queue = s.queue ∧ R s1 ops sL ∧ s'.queue = extra ++ sL.queue ∧
        extra.length ≤ 2 * ops.length + 1 ∧ ∀ a ∈ extra, AuxC (S + 3 * ops.length + 20) a := by
  subst hflags hrs hrbs heb
  set flags := retainedFlagsE .min es (boundsOfList s.bounds es) with hflags
  set v := gen .min s.minCount .none with hv
  have hvfresh : v ∉ namesOf s := hn.fresh .min (le_refl _) .none
  have g1 : Grow s (minState1 s v (boundsOf s.bounds (.min (selectFlagged es flags)))) := by
    unfold minState1
    exact ((Grow.refl s).same (s' := bumpMin s) rfl rfl (ctr_bumpMin s)).decl .min s.minCount .none _
      (le_refl _) (by show s.minCount < s.minCount + 1; exact Nat.lt_succ_self _)
  obtain ⟨ops, sL, hlin, gL, hopsOK, hR⟩ := hops _ g1 rfl
  have gsL : Grow s sL := g1.trans gL
  by_cases hl : req = .higher
  · subst hl
    simp only [if_true] at hlin
    refine ⟨Ctx.fromVar v Arith.one, pushAll sL (ops.flatMap fun o => [mkC (.var v) .le o]), ?_, gsL.pushAll _,
      csz_fromVar _ _, minState1 s v (boundsOf s.bounds (.min (selectFlagged es flags))), ops, sL,
      (ops.flatMap fun o => [mkC (.var v) .le o]).reverse, rfl, hR, rfl, ?_, ?_⟩
    rotate_left
    · simp only [List.length_reverse, flatMap_singleton_map, List.length_map]; omega
    · intro a ha
      simp only [List.mem_reverse, flatMap_singleton_map, List.mem_map] at ha
      obtain ⟨o, ho, rfl⟩ := ha
      exact auxC_mkC (by simp [L1]) (hopsOK o ho).1 (by have := (hopsOK o ho).2; simp only [fsize]; omega)
    rw [linExtreme.eq_def]
    simp only [ite_ok, fail_ok, bind_ok, get_ok, set_ok, declareVariable_ok, pure_ok, and_false, false_or, name_ext,
      gen_none_sel]
    refine ⟨by simpa using hne, s, s, rfl, by simpa using hn0, Or.inr ⟨by simpa using hn1, by simp, _, _, rfl, _, _,
      ⟨hvfresh, rfl⟩, ops, sL, ?_, Or.inl ⟨by simp, ⟨⟩, _, ?_, rfl⟩⟩⟩
    · rw [linFlagged_eq]
      simp only [beq_self_eq_true, Bool.and_self, Bool.true_or, if_true]
      exact hlin
    · exact (forIn_ok (fun o => addConstraint (mkC (.var v) .le o)) _ (by intro x u; rfl) _ _ _).mpr
        ((seqOK_push _ (fun o => [mkC (.var v) .le o]) (fun x s => addConstraint_eq _ s) _ _ _).mpr rfl)
  · have hfin' := hfin.resolve_left hl
    have hos : (ExtKind.min == ExtKind.max && req == Req.lower || ExtKind.min == ExtKind.min && req == Req.higher) = false := by
      cases req <;> simp at hl ⊢
    simp only [hl, if_false] at hlin
    set eb := boundsOf s.bounds (.min (selectFlagged es flags)) with heb
    set rbs := selectFlagged (boundsOfList s.bounds es) flags with hrbs
    set selNames := (List.range ops.length).map (fun j => gen .min s.minCount (.select j)) with hsel
    have hs1names : namesOf (minState1 s v eb) = namesOf s ++ [v] := by
      simp [namesOf, minState1, bumpMin]
    have hfreshSel : ∀ n ∈ selNames, n ∉ sL.domain.map (·.name) := by
      intro n hn'
      obtain ⟨j, _, rfl⟩ := List.mem_map.mp hn'
      exact sel_fresh .min hn s.minCount rfl hs1names rfl gL j
    have hnd : selNames.Nodup := range_map_nodup .min s.minCount ops.length
    have gD : Grow s (declAll sL .bool selNames) :=
      Grow.declAll .min s.minCount .bool (le_refl _) (List.range ops.length) sL gsL
        (lt_of_lt_of_le (by show s.minCount < s.minCount + 1; exact Nat.lt_succ_self _) (gL.mono .min))
    refine ⟨Ctx.fromVar v Arith.one, minState2 sL v eb.lower ops rbs selNames, ?_, ?_, csz_fromVar _ _, minState1 s v eb, ops, sL,
      mkC (sumExps (selNames.map .var)) .eq (.num Arith.one) ::
        (((ops.zip rbs).zip (selNames.map .var)).flatMap (minPair v eb.lower)).reverse, rfl, hR, ?_, ?_, ?_⟩
    rotate_left 2
    · simp [minState2, pushC, pushAll, declAll_queue]
    · have hzl : ((ops.zip rbs).zip (selNames.map (Exp.var : String → Exp (Ext K)))).length ≤ ops.length := by
        simp only [List.length_zip]; omega
      have hfl : ∀ (l : List ((Exp (Ext K) × Lin.Bounds (Ext K)) × Exp (Ext K))),
          (l.flatMap (minPair v eb.lower)).length = 2 * l.length := by
        intro l; induction l with
        | nil => rfl
        | cons x xs ih => simp only [List.flatMap_cons, List.length_append, ih, minPair, List.length_cons, List.length_nil]; omega
      simp only [List.length_cons, List.length_reverse, hfl]; omega
    · intro a ha
      simp only [List.mem_cons, List.mem_reverse, List.mem_flatMap] at ha
      rcases ha with rfl | ⟨x, hx, hax⟩
      · have h1 := fsize_sumVars (K := K) selNames
        have h2 : selNames.length = ops.length := by simp [hsel]
        exact auxC_mkC (L1_sumVars _) (by simp [L1]) (by simp only [fsize]; omega)
      · have hx1 : x.1.1 ∈ ops := (List.of_mem_zip (List.of_mem_zip hx).1).1
        have hx2 : x.2 ∈ selNames.map Exp.var := (List.of_mem_zip hx).2
        obtain ⟨nm, _, hnm⟩ := List.mem_map.mp hx2
        have hL1 := (hopsOK _ hx1).1
        have hS := (hopsOK _ hx1).2
        simp only [minPair, List.mem_cons, List.mem_nil_iff, or_false] at hax
        rcases hax with rfl | rfl
        · exact auxC_mkC (by simp [L1]) hL1 (by simp only [fsize]; omega)
        · exact auxC_mkC (by simp [L1]) (by rw [← hnm]; simp [addExp, mulExp, subExp, L1, hL1, isNum])
            (by rw [← hnm]; simp only [fsize, addExp, mulExp, subExp]; omega)
    · rw [linExtreme.eq_def]
      simp only [ite_ok, fail_ok, bind_ok, get_ok, set_ok, declareVariable_ok, pure_ok, and_false, false_or, name_ext,
        gen_none_sel]
      refine ⟨by simpa using hne, s, s, rfl, by simpa using hn0, Or.inr ⟨by simpa using hn1, ?_, _, _, rfl, _, _,
        ⟨hvfresh, rfl⟩, ops, sL, ?_, Or.inr ⟨by simpa using hl, ⟨⟩, declAll sL .bool selNames, ?_, ⟨⟩,
          pushAll (declAll sL .bool selNames) (((ops.zip rbs).zip (selNames.map .var)).flatMap (minPair v eb.lower)), ?_,
          ⟨⟩, minState2 sL v eb.lower ops rbs selNames, ?_, rfl⟩⟩⟩
      · simp only [hos, Bool.not_false, Bool.true_and, Bool.not_eq_true', Bool.not_eq_false, Bool.and_eq_true,
          List.all_eq_true]
        exact ⟨hfin'.1, hfin'.2⟩
      · rw [linFlagged_eq]
        simp only [hos, Bool.false_eq_true, if_false]
        exact hlin
      · exact (forIn_ok (fun sn => declareVariable sn (VarType.bool : VarType (Ext K))) _
          (by intro x u; rfl) _ _ _).mpr ((seqOK_declare _ _ _ _).mpr ⟨rfl, hfreshSel, hnd⟩)
      · exact (forIn_ok (fun (x : (Exp (Ext K) × Lin.Bounds (Ext K)) × Exp (Ext K)) => do
            addConstraint (mkC (.var v) .le x.1.1)
            addConstraint (mkC (.var v) .ge (subExp x.1.1 (mulExp (.num (Arith.sub x.1.2.upper eb.lower))
              (subExp (.num Arith.one) x.2))))) _ (by intro x u; simp [bind_assoc]; rfl) _ _ _).mpr
          ((seqOK_push _ (minPair v eb.lower) (by
            intro x s
            simp only [bind_ok, minPair]
            exact ⟨⟨⟩, _, addConstraint_eq _ _, by rw [addConstraint_eq, pushAll_append]; rfl⟩) _ _ _).mpr rfl)
      · rw [addConstraint_ok]; rfl
    · unfold minState2
      exact (gD.pushAll _).pushC _


/-! ### the piecewise-linear fragment, relative to the bounds the analyzer publishes -/

def SrcVars (e : Exp (Ext K)) : Prop := ∀ x ∈ varsOf e, SrcName x
def SrcVarsL (es : List (Exp (Ext K))) : Prop := ∀ e ∈ es, SrcVars e

/-- `PW bm e q`: `e` is built from affine shapes, `abs`, `min`, `max`; every product has a literal factor, every
divisor is a non-zero literal; and wherever a big-M gadget is needed for the requirement at hand, the bounds `bm`
are finite (exactly the condition whose failure is `MissingFiniteBounds`).  Decidable, by recursion on `e`. -/
inductive PW (bm : BoundsMap (Ext K)) : Exp (Ext K) → Req → Prop
  | num (v : Ext K) (q : Req) : PW bm (.num v) q
  | var (x : String) (q : Req) : PW bm (.var x) q
  | add {l r : Exp (Ext K)} {q : Req} : PW bm l q → PW bm r q → PW bm (.bin .add l r) q
  | sub {l r : Exp (Ext K)} {q : Req} : PW bm l q → PW bm r q.reversed → PW bm (.bin .sub l r) q
  | mulL0 (c : Ext K) (r : Exp (Ext K)) (q : Req) :
      (Arith.eq c (Arith.zero : Ext K) && !(Exp.mayBeUndefined r)) = true → PW bm (.bin .mul (.num c) r) q
  | mulL (c : Ext K) {r : Exp (Ext K)} {q : Req} : PW bm r (q.throughScale c) → PW bm (.bin .mul (.num c) r) q
  | mulR0 {l : Exp (Ext K)} (c : Ext K) (q : Req) : (∀ v, l = .num v → False) →
      (Arith.eq c (Arith.zero : Ext K) && !(Exp.mayBeUndefined l)) = true → PW bm (.bin .mul l (.num c)) q
  | mulR {l : Exp (Ext K)} (c : Ext K) {q : Req} : (∀ v, l = .num v → False) → PW bm l (q.throughScale c) →
      PW bm (.bin .mul l (.num c)) q
  | div {l : Exp (Ext K)} (d : Ext K) {q : Req} : ¬ (Arith.eq d (Arith.zero : Ext K) = true) →
      PW bm l (q.throughScale (Arith.div Arith.one d)) → PW bm (.bin .div l (.num d)) q
  | neg {e : Exp (Ext K)} {q : Req} : PW bm e q.reversed → PW bm (.un .neg e) q
  | absPos {e : Exp (Ext K)} {q : Req} : SrcVars e → Arith.ge (boundsOf bm e).lower (Arith.zero : Ext K) = true →
      PW bm e q → PW bm (.abs e) q
  | absNeg {e : Exp (Ext K)} {q : Req} : SrcVars e → ¬ Arith.ge (boundsOf bm e).lower (Arith.zero : Ext K) = true →
      Arith.le (boundsOf bm e).upper (Arith.zero : Ext K) = true → PW bm e q.reversed → PW bm (.abs e) q
  | absBigM {e : Exp (Ext K)} {q : Req} : SrcVars e → ¬ Arith.ge (boundsOf bm e).lower (Arith.zero : Ext K) = true →
      ¬ Arith.le (boundsOf bm e).upper (Arith.zero : Ext K) = true →
      (q = .lower ∨ (Arith.isFinite (boundsOf bm e).lower = true ∧ Arith.isFinite (boundsOf bm e).upper = true)) →
      PW bm e .exact → PW bm (.abs e) q
  | max1 {es : List (Exp (Ext K))} {q : Req} : SrcVarsL es → es ≠ [] →
      ((retainedFlagsE .max es (boundsOfList bm es)).filter id).length = 1 →
      (∀ e ∈ selectFlagged es (retainedFlagsE .max es (boundsOfList bm es)), PW bm e q) → PW bm (.max es) q
  | maxN {es : List (Exp (Ext K))} {q : Req} : SrcVarsL es → es ≠ [] →
      ((retainedFlagsE .max es (boundsOfList bm es)).filter id).length ≠ 0 →
      ((retainedFlagsE .max es (boundsOfList bm es)).filter id).length ≠ 1 →
      (q = .lower ∨
        (Arith.isFinite (boundsOf bm (.max (selectFlagged es (retainedFlagsE .max es (boundsOfList bm es))))).upper = true ∧
         ∀ b ∈ selectFlagged (boundsOfList bm es) (retainedFlagsE .max es (boundsOfList bm es)),
           Arith.isFinite b.lower = true)) →
      (∀ e ∈ selectFlagged es (retainedFlagsE .max es (boundsOfList bm es)),
        PW bm e (if q = .lower then .lower else .exact)) → PW bm (.max es) q
  | min1 {es : List (Exp (Ext K))} {q : Req} : SrcVarsL es → es ≠ [] →
      ((retainedFlagsE .min es (boundsOfList bm es)).filter id).length = 1 →
      (∀ e ∈ selectFlagged es (retainedFlagsE .min es (boundsOfList bm es)), PW bm e q) → PW bm (.min es) q
  | minN {es : List (Exp (Ext K))} {q : Req} : SrcVarsL es → es ≠ [] →
      ((retainedFlagsE .min es (boundsOfList bm es)).filter id).length ≠ 0 →
      ((retainedFlagsE .min es (boundsOfList bm es)).filter id).length ≠ 1 →
      (q = .higher ∨
        (Arith.isFinite (boundsOf bm (.min (selectFlagged es (retainedFlagsE .min es (boundsOfList bm es))))).lower = true ∧
         ∀ b ∈ selectFlagged (boundsOfList bm es) (retainedFlagsE .min es (boundsOfList bm es)),
           Arith.isFinite b.upper = true)) →
      (∀ e ∈ selectFlagged es (retainedFlagsE .min es (boundsOfList bm es)),
        PW bm e (if q = .higher then .higher else .exact)) → PW bm (.min es) q

/-- the size budget of the rows pushed while lowering an expression of weight `w`. -/
def budget (w : Nat) : Nat := 10 * w + 60

/-- the queue part of a step of weight `w`: new rows in front only, at most `4w − 2` of them, each an affine
comparison within the size budget. -/
def QStep (w : Nat) (s s' : St (Ext K)) : Prop :=
  ∃ new, s'.queue = new ++ s.queue ∧ new.length + 2 ≤ 4 * w ∧ ∀ a ∈ new, AuxC (budget w) a

theorem QStep.refl {w : Nat} (hw : 1 ≤ w) (s : St (Ext K)) : QStep w s s :=
  ⟨[], rfl, by simp; omega, fun a ha => by cases ha⟩

theorem QStep.mono {w w' : Nat} {s s' : St (Ext K)} (h : QStep w s s') (hw : w ≤ w') : QStep w' s s' := by
  obtain ⟨new, h1, h2, h3⟩ := h
  exact ⟨new, h1, by omega, fun a ha => (h3 a ha).mono (by unfold budget; omega)⟩

theorem QStep.seq {w1 w2 w : Nat} {s s1 s2 : St (Ext K)} (h1 : QStep w1 s s1) (h2 : QStep w2 s1 s2)
    (hw : w1 + w2 ≤ w) : QStep w s s2 := by
  obtain ⟨n1, e1, l1, a1⟩ := h1
  obtain ⟨n2, e2, l2, a2⟩ := h2
  refine ⟨n2 ++ n1, by rw [e2, e1, List.append_assoc], by simp only [List.length_append]; omega, ?_⟩
  intro a ha
  rcases List.mem_append.mp ha with ha | ha
  · exact (a2 a ha).mono (by unfold budget; omega)
  · exact (a1 a ha).mono (by unfold budget; omega)

/-- a step followed by `k` more rows pushed by a gadget. -/
theorem QStep.extend {w w' k : Nat} {s s1 s' : St (Ext K)} {extra : List (Constraint (Ext K))} (h : QStep w s s1)
    (hq : s'.queue = extra ++ s1.queue) (hlen : extra.length ≤ k) (hk : 4 * w + k ≤ 4 * w')
    (haux : ∀ a ∈ extra, AuxC (budget w') a) : QStep w' s s' := by
  obtain ⟨n1, e1, l1, a1⟩ := h
  refine ⟨extra ++ n1, by rw [hq, e1, List.append_assoc], by simp only [List.length_append]; omega, ?_⟩
  intro a ha
  rcases List.mem_append.mp ha with ha | ha
  · exact haux a ha
  · exact (a1 a ha).mono (by unfold budget; omega)

/-- what success means here: a result whose context is no larger than the expression, a state reached by a
`Grow` step, and new queue entries that are affine rows within the budget. -/
def Succ (bm : BoundsMap (Ext K)) (e : Exp (Ext K)) (q : Req) : Prop :=
  ∀ s : St (Ext K), NamesOK s → BAgree bm s →
    ∃ c s', linExp e q s = .ok (c, s') ∧ Grow s s' ∧ csz c ≤ wt e ∧ QStep (wt e) s s'

theorem boundsOf_agree {bm : BoundsMap (Ext K)} {s : St (Ext K)} (hb : BAgree bm s) {e : Exp (Ext K)}
    (hv : SrcVars e) : boundsOf s.bounds e = boundsOf bm e :=
  boundsOf_congr e (fun x hx => hb x (hv x hx))

theorem boundsOfList_agree {bm : BoundsMap (Ext K)} {s : St (Ext K)} (hb : BAgree bm s) {es : List (Exp (Ext K))}
    (hv : SrcVarsL es) : boundsOfList s.bounds es = boundsOfList bm es :=
  boundsOfList_congr es (fun e he => boundsOf_agree hb (hv e he))

theorem srcVars_max {es : List (Exp (Ext K))} (hv : SrcVarsL es) (fl : List Bool) :
    SrcVars (.max (selectFlagged es fl)) := by
  intro x hx
  simp only [varsOf] at hx
  obtain ⟨e, he, hxe⟩ := mem_varsOfList.mp hx
  exact hv e (selectFlagged_subset he) x hxe

theorem srcVars_min {es : List (Exp (Ext K))} (hv : SrcVarsL es) (fl : List Bool) :
    SrcVars (.min (selectFlagged es fl)) := by
  intro x hx
  simp only [varsOf] at hx
  obtain ⟨e, he, hxe⟩ := mem_varsOfList.mp hx
  exact hv e (selectFlagged_subset he) x hxe

/-- the accounting of a list of operands lowered one after the other. -/
def ListAcc (rs : List (Exp (Ext K))) (s1 : St (Ext K)) (ops : List (Exp (Ext K))) (sL : St (Ext K)) : Prop :=
  ops.length = rs.length ∧
  ∃ new, sL.queue = new ++ s1.queue ∧ new.length + 2 * rs.length ≤ 4 * wtL rs ∧ ∀ a ∈ new, AuxC (budget (wtL rs)) a

theorem linList_succeeds {bm : BoundsMap (Ext K)} {q : Req} : ∀ (rs : List (Exp (Ext K))),
    (∀ e ∈ rs, Succ bm e q) → ∀ s : St (Ext K), NamesOK s → BAgree bm s →
      ∃ ops sL, linList rs q s = .ok (ops, sL) ∧ Grow s sL ∧ (∀ o ∈ ops, L1 o ∧ fsize o ≤ 2 + 5 * wtL rs) ∧
        ListAcc rs s ops sL
  | [], _, s, _, _ => by
    refine ⟨[], s, by simp [linList, pure_ok], Grow.refl s, ?_, rfl, [], rfl, by simp [wtL], ?_⟩
    · intro o ho; cases ho
    · intro a ha; cases ha
  | e :: rs, h, s, hn, hb => by
    obtain ⟨c, s1, h1, g1, hc, n1, e1, l1, a1⟩ := h e (by simp) s hn hb
    obtain ⟨ops, sL, h2, g2, ho, hlen, n2, e2, l2, a2⟩ :=
      linList_succeeds rs (fun x hx => h x (by simp [hx])) s1 (hn.grow g1) (hb.grow g1)
    refine ⟨ctxToExp c :: ops, sL, by simp only [linList, bind_ok, pure_ok]; exact ⟨c, s1, h1, ops, sL, h2, rfl⟩,
      g1.trans g2, ?_, by simp [hlen], n2 ++ n1, by rw [e2, e1, List.append_assoc], ?_, ?_⟩
    · intro o ho'
      rcases List.mem_cons.mp ho' with rfl | ho'
      · exact ⟨L1_ctxToExp c, by rw [fsize_ctxToExp]; simp only [wtL]; omega⟩
      · obtain ⟨hL, hS⟩ := ho o ho'
        exact ⟨hL, by simp only [wtL]; omega⟩
    · simp only [List.length_append, List.length_cons, wtL]; omega
    · intro a ha
      rcases List.mem_append.mp ha with ha | ha
      · exact (a2 a ha).mono (by unfold budget; simp only [wtL]; omega)
      · exact (a1 a ha).mono (by unfold budget; simp only [wtL]; omega)

/-- **no spurious error in `Exp::linearize` on the piecewise-linear fragment**: whatever the state — as long as
the user's names do not start with `$` (`NamesOK`) and the bounds of the user's variables are those of `bm` —
the lowering succeeds; in particular every auxiliary name is new when it is declared.  Accounting: the context has
at most `wt e` entries, at most `4·wt e − 2` rows are queued, each an affine comparison of size ≤ `10·wt e + 60`. -/
theorem linExp_PW {bm : BoundsMap (Ext K)} {e : Exp (Ext K)} {q : Req} (h : PW bm e q) : Succ bm e q := by
  induction h with
  | num v q =>
    intro s _ _
    exact ⟨_, s, by rw [linExp]; rfl, Grow.refl s, by rw [csz_fromRhs]; simp, QStep.refl (by simp [wt]) s⟩
  | var x q =>
    intro s _ _
    exact ⟨_, s, by rw [linExp]; rfl, Grow.refl s, by rw [csz_fromVar]; simp [wt], QStep.refl (by simp [wt]) s⟩
  | add _ _ ihl ihr =>
    intro s hn hb
    obtain ⟨a, s1, h1, g1, c1, q1⟩ := ihl s hn hb
    obtain ⟨b, s2, h2, g2, c2, q2⟩ := ihr s1 (hn.grow g1) (hb.grow g1)
    exact ⟨_, s2, by rw [linExp]; simp only [bind_ok, pure_ok]; exact ⟨a, s1, h1, b, s2, h2, rfl⟩, g1.trans g2,
      by have := csz_mergeAdd a b; simp only [wt]; omega, q1.seq q2 (by simp only [wt]; omega)⟩
  | sub _ _ ihl ihr =>
    intro s hn hb
    obtain ⟨a, s1, h1, g1, c1, q1⟩ := ihl s hn hb
    obtain ⟨b, s2, h2, g2, c2, q2⟩ := ihr s1 (hn.grow g1) (hb.grow g1)
    exact ⟨_, s2, by rw [linExp]; simp only [bind_ok, pure_ok]; exact ⟨a, s1, h1, b, s2, h2, rfl⟩, g1.trans g2,
      by have := csz_mergeSub a b; simp only [wt]; omega, q1.seq q2 (by simp only [wt]; omega)⟩
  | mulL0 c r q hg =>
    intro s _ _
    exact ⟨_, s, by rw [linExp, if_pos hg]; rfl, Grow.refl s, by rw [csz_fromRhs]; omega,
      QStep.refl (one_le_wt _) s⟩
  | @mulL c r q _ ih =>
    intro s hn hb
    by_cases hg : (Arith.eq c (Arith.zero : Ext K) && !(Exp.mayBeUndefined r)) = true
    · exact ⟨_, s, by rw [linExp, if_pos hg]; rfl, Grow.refl s, by rw [csz_fromRhs]; omega,
        QStep.refl (one_le_wt _) s⟩
    · obtain ⟨y, s1, hy, g1, c1, q1⟩ := ih s hn hb
      exact ⟨_, s1, by rw [linExp, if_neg hg]; simp only [bind_ok, pure_ok]; exact ⟨y, s1, hy, rfl⟩, g1,
        by rw [csz_mulBy]; simp only [wt]; omega, q1.mono (by simp only [wt]; omega)⟩
  | mulR0 c q hna hg =>
    intro s _ _
    exact ⟨_, s, by rw [linExp.eq_4 _ _ _ hna, if_pos hg]; rfl, Grow.refl s, by rw [csz_fromRhs]; omega,
      QStep.refl (one_le_wt _) s⟩
  | @mulR l c q hna _ ih =>
    intro s hn hb
    by_cases hg : (Arith.eq c (Arith.zero : Ext K) && !(Exp.mayBeUndefined l)) = true
    · exact ⟨_, s, by rw [linExp.eq_4 _ _ _ hna, if_pos hg]; rfl, Grow.refl s, by rw [csz_fromRhs]; omega,
        QStep.refl (one_le_wt _) s⟩
    · obtain ⟨y, s1, hy, g1, c1, q1⟩ := ih s hn hb
      exact ⟨_, s1, by rw [linExp.eq_4 _ _ _ hna, if_neg hg]; simp only [bind_ok, pure_ok]; exact ⟨y, s1, hy, rfl⟩, g1,
        by rw [csz_mulBy]; simp only [wt]; omega, q1.mono (by simp only [wt]; omega)⟩
  | div d hd _ ih =>
    intro s hn hb
    obtain ⟨y, s1, hy, g1, c1, q1⟩ := ih s hn hb
    exact ⟨_, s1, by rw [linExp, if_neg hd]; simp only [bind_ok, pure_ok]; exact ⟨y, s1, hy, rfl⟩, g1,
      by rw [csz_divBy]; simp only [wt]; omega, q1.mono (by simp only [wt]; omega)⟩
  | neg _ ih =>
    intro s hn hb
    obtain ⟨y, s1, hy, g1, c1, q1⟩ := ih s hn hb
    exact ⟨_, s1, by rw [linExp]; simp only [bind_ok, pure_ok]; exact ⟨y, s1, hy, rfl⟩, g1,
      by rw [csz_mulBy]; simp only [wt]; omega, q1.mono (by simp only [wt]; omega)⟩
  | absPos hv hpos _ ih =>
    intro s hn hb
    obtain ⟨y, s1, hy, g1, c1, q1⟩ := ih s hn hb
    refine ⟨y, s1, ?_, g1, by simp only [wt]; omega, q1.mono (by simp only [wt]; omega)⟩
    rw [linExp]
    simp only [bind_ok, get_ok]
    refine ⟨s, s, rfl, ?_⟩
    rw [boundsOf_agree hb hv, if_pos hpos]
    exact hy
  | absNeg hv h1 h2 _ ih =>
    intro s hn hb
    obtain ⟨y, s1, hy, g1, c1, q1⟩ := ih s hn hb
    refine ⟨y.mulBy (Arith.ofInt (-1)), s1, ?_, g1, by rw [csz_mulBy]; simp only [wt]; omega,
      q1.mono (by simp only [wt]; omega)⟩
    rw [linExp]
    simp only [bind_ok, get_ok]
    refine ⟨s, s, rfl, ?_⟩
    rw [boundsOf_agree hb hv, if_neg h1, if_pos h2]
    simp only [bind_ok, pure_ok]
    exact ⟨y, s1, hy, rfl⟩
  | @absBigM e q hv h1 h2 hfin _ ih =>
    intro s hn hb
    obtain ⟨innerC, s1, hin, g1, c1, q1⟩ := ih s hn hb
    have hbe := boundsOf_agree hb hv
    obtain ⟨c, s', hok, g2, hc, extra, hq, hlen, haux⟩ := abs_gadget_succeeds (req := q) (by rw [hbe]; exact h1)
      (by rw [hbe]; exact h2) (by rw [hbe]; exact hfin) hin (hn.grow g1)
    refine ⟨c, s', hok, g1.trans g2, by rw [hc]; exact one_le_wt _, ?_⟩
    exact q1.extend hq hlen (by simp only [wt]; omega)
      (fun a ha => (haux a ha).mono (by unfold budget; simp only [wt]; omega))
  | @max1 es q hv hne h1 _ ih =>
    intro s hn hb
    have hbl := boundsOfList_agree hb hv
    have hlen : es.length = (retainedFlagsE .max es (boundsOfList bm es)).length := by
      rw [retainedFlagsE_length _ _ _ (by rw [boundsOfList_eq_map, List.length_map])]
    have hsl := selectFlagged_length es _ hlen
    rw [h1] at hsl
    cases hrs : selectFlagged es (retainedFlagsE .max es (boundsOfList bm es)) with
    | nil => rw [hrs] at hsl; simp at hsl
    | cons e1 rest =>
      have he1 : e1 ∈ es := selectFlagged_subset (by rw [hrs]; simp)
      obtain ⟨c, s', hok, g, hc, hq⟩ := ih e1 (by rw [hrs]; simp) s hn hb
      have hw : wt e1 ≤ wt (.max es) := by have := wt_le_wtL he1; simp only [wt]; omega
      refine ⟨c, s', ?_, g, le_trans hc hw, hq.mono hw⟩
      rw [linExp, linExtreme.eq_def]
      simp only [ite_ok, fail_ok, bind_ok, get_ok, and_false, false_or]
      refine ⟨by simpa using hne, s, s, rfl, ?_, Or.inl ⟨?_, ?_⟩⟩
      · rw [hbl, h1]; simp
      · rw [hbl, h1]; simp
      · rw [linFirstFlagged_eq, hbl, hrs]; exact hok
  | @maxN es q hv hne hn0 hn1 hfin _ ih =>
    intro s hn hb
    have hbl := boundsOfList_agree hb hv
    have hbe : boundsOf s.bounds (.max (selectFlagged es (retainedFlagsE .max es (boundsOfList bm es)))) =
        boundsOf bm (.max (selectFlagged es (retainedFlagsE .max es (boundsOfList bm es)))) :=
      boundsOf_agree hb (srcVars_max hv _)
    have hW := wtL_selectFlagged es (retainedFlagsE .max es (boundsOfList bm es))
    set rs := selectFlagged es (retainedFlagsE .max es (boundsOfList bm es)) with hrs
    rw [linExp]
    obtain ⟨c, s', hok, g, hc, s1, ops, sL, extra, hq1, ⟨hol, new, hqL, hnl, hna⟩, hq', hel, hea⟩ :=
      max_gadget_succeeds (es := es) (req := q) (s := s) _ rfl _ rfl _ rfl _ rfl hne (by rw [hbl]; exact hn0)
        (by rw [hbl]; exact hn1) (by rw [hbl, hbe]; exact hfin) hn (2 + 5 * wtL rs) (ListAcc rs) (by
          intro s1 g1 _
          rw [hbl]
          exact linList_succeeds _ ih s1 (hn.grow g1) (hb.grow g1))
    refine ⟨c, s', hok, g, by rw [hc]; exact one_le_wt _, extra ++ new, by rw [hq', hqL, hq1, List.append_assoc], ?_, ?_⟩
    · simp only [List.length_append, wt]; omega
    · intro a ha
      rcases List.mem_append.mp ha with ha | ha
      · exact (hea a ha).mono (by unfold budget; simp only [wt]; have := length_le_wtL rs; omega)
      · exact (hna a ha).mono (by unfold budget; simp only [wt]; omega)
  | @min1 es q hv hne h1 _ ih =>
    intro s hn hb
    have hbl := boundsOfList_agree hb hv
    have hlen : es.length = (retainedFlagsE .min es (boundsOfList bm es)).length := by
      rw [retainedFlagsE_length _ _ _ (by rw [boundsOfList_eq_map, List.length_map])]
    have hsl := selectFlagged_length es _ hlen
    rw [h1] at hsl
    cases hrs : selectFlagged es (retainedFlagsE .min es (boundsOfList bm es)) with
    | nil => rw [hrs] at hsl; simp at hsl
    | cons e1 rest =>
      have he1 : e1 ∈ es := selectFlagged_subset (by rw [hrs]; simp)
      obtain ⟨c, s', hok, g, hc, hq⟩ := ih e1 (by rw [hrs]; simp) s hn hb
      have hw : wt e1 ≤ wt (.min es) := by have := wt_le_wtL he1; simp only [wt]; omega
      refine ⟨c, s', ?_, g, le_trans hc hw, hq.mono hw⟩
      rw [linExp, linExtreme.eq_def]
      simp only [ite_ok, fail_ok, bind_ok, get_ok, and_false, false_or]
      refine ⟨by simpa using hne, s, s, rfl, ?_, Or.inl ⟨?_, ?_⟩⟩
      · rw [hbl, h1]; simp
      · rw [hbl, h1]; simp
      · rw [linFirstFlagged_eq, hbl, hrs]; exact hok
  | @minN es q hv hne hn0 hn1 hfin _ ih =>
    intro s hn hb
    have hbl := boundsOfList_agree hb hv
    have hbe : boundsOf s.bounds (.min (selectFlagged es (retainedFlagsE .min es (boundsOfList bm es)))) =
        boundsOf bm (.min (selectFlagged es (retainedFlagsE .min es (boundsOfList bm es)))) :=
      boundsOf_agree hb (srcVars_min hv _)
    have hW := wtL_selectFlagged es (retainedFlagsE .min es (boundsOfList bm es))
    set rs := selectFlagged es (retainedFlagsE .min es (boundsOfList bm es)) with hrs
    rw [linExp]
    obtain ⟨c, s', hok, g, hc, s1, ops, sL, extra, hq1, ⟨hol, new, hqL, hnl, hna⟩, hq', hel, hea⟩ :=
      min_gadget_succeeds (es := es) (req := q) (s := s) _ rfl _ rfl _ rfl _ rfl hne (by rw [hbl]; exact hn0)
        (by rw [hbl]; exact hn1) (by rw [hbl, hbe]; exact hfin) hn (2 + 5 * wtL rs) (ListAcc rs) (by
          intro s1 g1 _
          rw [hbl]
          exact linList_succeeds _ ih s1 (hn.grow g1) (hb.grow g1))
    refine ⟨c, s', hok, g, by rw [hc]; exact one_le_wt _, extra ++ new, by rw [hq', hqL, hq1, List.append_assoc], ?_, ?_⟩
    · simp only [List.length_append, wt]; omega
    · intro a ha
      rcases List.mem_append.mp ha with ha | ha
      · exact (hea a ha).mono (by unfold budget; simp only [wt]; have := length_le_wtL rs; omega)
      · exact (hna a ha).mono (by unfold budget; simp only [wt]; omega)

/-! ### non-vacuity -/

def exPWBounds : BoundsMap (Ext K) := [("x", ⟨.fin (-3), .fin 3⟩)]
def exPWState : St (Ext K) :=
  { queue := [], domain := [{ name := "x", ty := .real (.fin (-3)) (.fin 3), usage := 1 }], bounds := exPWBounds }

/-- `|x|` with `x ∈ [−3, 3]` at requirement `exact` needs the big-M gadget and is in the fragment. -/
theorem exPW_pw : PW (exPWBounds : BoundsMap (Ext K)) (.abs (.var "x")) .exact := by
  refine PW.absBigM (by intro x hx; simp [varsOf] at hx; subst hx; exact (by unfold SrcName; decide)) ?_ ?_ (Or.inr ⟨rfl, rfl⟩) (PW.var _ _)
  · simp [exPWBounds, boundsOf, lookupB, Arith.ge, Arith.le, Ext.le, Arith.zero]
  · simp [exPWBounds, boundsOf, lookupB, Arith.le, Ext.le, Arith.zero]

theorem exPW_names : NamesOK (exPWState : St (Ext K)) := by
  intro x hx
  simp [namesOf, exPWState] at hx
  subst hx
  exact Or.inl (by unfold SrcName; decide)

theorem exPW_agree : BAgree (exPWBounds : BoundsMap (Ext K)) exPWState := fun _ _ => rfl

end Rooc.LinP
