/-
No spurious error on the piecewise-linear fragment, part 1: `Exp::linearize`.
-/
import Rooc.Proofs.LinFresh
import Rooc.Proofs.LinSucceed

set_option linter.unusedSectionVars false
set_option linter.unusedSimpArgs false
set_option linter.unusedVariables false
set_option linter.unusedTactic false
set_option linter.unreachableTactic false

namespace Rooc.LinP
open Rooc Rooc.Lin Rooc.Sem Rooc.Exp

variable {K : Type} [Field K] [LinearOrder K] [IsStrictOrderedRing K] [FloorRing K]

theorem gen_abs_pos (id : Nat) : gen .abs id .none ++ toString "_positive" = gen .abs id .positive := by
  apply String.toList_inj.mp
  simp [gen, Fam.pre, Suf.str, String.toList_append, List.append_assoc]
  rfl

/-- the big-M gadget of `abs` goes through: both auxiliary names are new. -/
theorem abs_gadget_succeeds {e : Exp (Ext K)} {req : Req} {s s1 : St (Ext K)} {innerC : Ctx (Ext K)}
    (h1 : ¬ Arith.ge (boundsOf s.bounds e).lower (Arith.zero : Ext K) = true)
    (h2 : ¬ Arith.le (boundsOf s.bounds e).upper (Arith.zero : Ext K) = true)
    (hreq : req = .lower ∨ (Arith.isFinite (boundsOf s.bounds e).lower = true ∧
      Arith.isFinite (boundsOf s.bounds e).upper = true))
    (hin : linExp e .exact s = .ok (innerC, s1)) (hn : NamesOK s1) :
    ∃ c s', linExp (.abs e) req s = .ok (c, s') ∧ Grow s1 s' := by
  have hv : gen .abs s1.absCount .none ∉ namesOf s1 := hn.fresh .abs (le_refl _) .none
  have hg1 : Grow s1 (absState1 s1 (gen .abs s1.absCount .none) (boundsOf s.bounds e) (ctxToExp innerC)) := by
    unfold absState1
    exact ((((Grow.refl s1).same (s' := bumpAbs s1) rfl rfl (ctr_bumpAbs s1)).decl .abs s1.absCount .none _
      (le_refl _) (by rw [ctr_abs_bumpAbs]; exact Nat.lt_succ_self _)).pushC _).pushC _
  by_cases hl : req = .lower
  · subst hl
    refine ⟨Ctx.fromVar (gen .abs s1.absCount .none) Arith.one, _, ?_, hg1⟩
    rw [linExp]
    simp only [bind_ok, get_ok]
    refine ⟨s, s, rfl, ?_⟩
    rw [if_neg h1, if_neg h2]
    simp only [ite_ok, bind_ok, pure_ok, fail_ok, get_ok, set_ok, declareVariable_ok, addConstraint_ok, name_abs]
    refine Or.inr ⟨by simp, innerC, s1, hin, _, _, rfl, _, _, rfl, _, _, ⟨hv, rfl⟩, _, _, rfl, _, _, rfl,
      Or.inr ⟨by simp, rfl⟩⟩
  · have hfin : Arith.isFinite (boundsOf s.bounds e).lower = true ∧ Arith.isFinite (boundsOf s.bounds e).upper = true :=
      hreq.resolve_left hl
    have hne : (req != Req.lower) = true := by simpa using hl
    have hp : gen .abs s1.absCount .positive ∉
        namesOf (absState1 s1 (gen .abs s1.absCount .none) (boundsOf s.bounds e) (ctxToExp innerC)) := by
      intro hmem
      simp only [namesOf, absState1, pushC_domain, declState_domain, List.map_append, List.map_cons, List.map_nil,
        List.mem_append, List.mem_singleton] at hmem
      rcases hmem with hmem | heq
      · exact hn.fresh .abs (le_refl _) .positive hmem
      · have := (gen_inj heq).2.2; cases this
    have hg2 : Grow s1 (absState2 (absState1 s1 (gen .abs s1.absCount .none) (boundsOf s.bounds e) (ctxToExp innerC))
        (gen .abs s1.absCount .none) (gen .abs s1.absCount .positive) (boundsOf s.bounds e) (ctxToExp innerC)) := by
      unfold absState2
      exact ((hg1.decl .abs s1.absCount .positive _ (le_refl _)
        (by show s1.absCount < s1.absCount + 1; exact Nat.lt_succ_self _)).pushC _).pushC _
    refine ⟨Ctx.fromVar (gen .abs s1.absCount .none) Arith.one, _, ?_, hg2⟩
    rw [linExp]
    simp only [bind_ok, get_ok]
    refine ⟨s, s, rfl, ?_⟩
    rw [if_neg h1, if_neg h2]
    simp only [ite_ok, bind_ok, pure_ok, fail_ok, get_ok, set_ok, declareVariable_ok, addConstraint_ok, name_abs,
      gen_abs_pos]
    refine Or.inr ⟨by simp [hfin.1, hfin.2], innerC, s1, hin, _, _, rfl, _, _, rfl, _, _, ⟨hv, rfl⟩, _, _, rfl, _, _, rfl,
      Or.inl ⟨hne, _, _, ⟨hp, rfl⟩, _, _, rfl, _, _, rfl, rfl⟩⟩

theorem gen_none_sel (F : Fam) (id j : Nat) :
    gen F id .none ++ toString "_select_" ++ toString j = gen F id (.select j) := by
  apply String.toList_inj.mp
  simp [gen, Suf.str, String.toList_append, List.append_assoc]
  rfl

theorem ctr_bumpMax (s : St (Ext K)) (F : Fam) : ctr s F ≤ ctr (bumpMax s) F := by
  cases F <;> simp [ctr, bumpMax]
theorem ctr_bumpMin (s : St (Ext K)) (F : Fam) : ctr s F ≤ ctr (bumpMin s) F := by
  cases F <;> simp [ctr, bumpMin]

theorem range_map_nodup (F : Fam) (id n : Nat) : ((List.range n).map fun j => gen F id (.select j)).Nodup := by
  refine (List.nodup_range).map ?_
  intro a b h
  have := (gen_inj h).2.2
  cases this; rfl

/-- the select names of a gadget are new after the operands have been lowered. -/
theorem sel_fresh {s s1 sL : St (Ext K)} (F : Fam) (hn : NamesOK s) (id : Nat) (hid : id = ctr s F)
    (hs1 : namesOf s1 = namesOf s ++ [gen F id .none]) (hc1 : ctr s1 F = id + 1) (g : Grow s1 sL) (j : Nat) :
    gen F id (.select j) ∉ namesOf sL := by
  intro hmem
  rcases g.names _ hmem with h | ⟨F', i, suf, heq, hlo, _⟩
  · rw [hs1, List.mem_append, List.mem_singleton] at h
    rcases h with h | h
    · exact hn.fresh F (by omega) (.select j) h
    · have := (gen_inj h).2.2; cases this
  · obtain ⟨rfl, rfl, _⟩ := gen_inj heq
    omega

/-- the gadget of `max{…}` with at least two retained operands goes through once the operands do. -/
theorem max_gadget_succeeds {es : List (Exp (Ext K))} {req : Req} {s : St (Ext K)}
    (flags : List Bool) (hflags : flags = retainedFlagsE .max es (boundsOfList s.bounds es))
    (rs : List (Exp (Ext K))) (hrs : rs = selectFlagged es flags)
    (rbs : List (Lin.Bounds (Ext K))) (hrbs : rbs = selectFlagged (boundsOfList s.bounds es) flags)
    (eb : Lin.Bounds (Ext K)) (heb : eb = boundsOf s.bounds (.max rs))
    (hne : es ≠ []) (hn0 : (flags.filter id).length ≠ 0) (hn1 : (flags.filter id).length ≠ 1)
    (hfin : req = .lower ∨ (Arith.isFinite eb.upper = true ∧ ∀ b ∈ rbs, Arith.isFinite b.lower = true))
    (hn : NamesOK s)
    (hops : ∀ s1, Grow s s1 → ∃ ops sL, linList rs (if req = .lower then .lower else .exact) s1 = .ok (ops, sL) ∧
      Grow s1 sL) :
    ∃ c s', linExtreme .max es req s = .ok (c, s') ∧ Grow s s' := by
  subst hflags hrs hrbs heb
  set flags := retainedFlagsE .max es (boundsOfList s.bounds es) with hflags
  set v := gen .max s.maxCount .none with hv
  have hvfresh : v ∉ namesOf s := hn.fresh .max (le_refl _) .none
  have g1 : Grow s (maxState1 s v (boundsOf s.bounds (.max (selectFlagged es flags)))) := by
    unfold maxState1
    exact ((Grow.refl s).same (s' := bumpMax s) rfl rfl (ctr_bumpMax s)).decl .max s.maxCount .none _
      (le_refl _) (by show s.maxCount < s.maxCount + 1; exact Nat.lt_succ_self _)
  obtain ⟨ops, sL, hlin, gL⟩ := hops _ g1
  have gsL : Grow s sL := g1.trans gL
  by_cases hl : req = .lower
  · subst hl
    simp only [if_true] at hlin
    refine ⟨Ctx.fromVar v Arith.one, pushAll sL (ops.flatMap fun o => [mkC (.var v) .ge o]), ?_, gsL.pushAll _⟩
    rw [linExtreme.eq_def]
    simp only [ite_ok, fail_ok, bind_ok, get_ok, set_ok, declareVariable_ok, pure_ok, and_false, false_or, name_ext,
      gen_none_sel]
    refine ⟨by simpa using hne, s, s, rfl, by simpa using hn0, Or.inr ⟨by simpa using hn1, by simp, _, _, rfl, _, _,
      ⟨hvfresh, rfl⟩, ops, sL, ?_, Or.inl ⟨by simp, ⟨⟩, _, ?_, rfl⟩⟩⟩
    · rw [linFlagged_eq]
      simp only [beq_self_eq_true, Bool.and_self, Bool.true_or, if_true]
      exact hlin
    · exact (forIn_ok (fun o => addConstraint (mkC (.var v) .ge o)) _ (by intro x u; rfl) _ _ _).mpr
        ((seqOK_push _ (fun o => [mkC (.var v) .ge o]) (fun x s => addConstraint_eq _ s) _ _ _).mpr rfl)
  · have hfin' := hfin.resolve_left hl
    have hos : (ExtKind.max == ExtKind.max && req == Req.lower || ExtKind.max == ExtKind.min && req == Req.higher) = false := by
      cases req <;> simp at hl ⊢
    simp only [hl, if_false] at hlin
    set eb := boundsOf s.bounds (.max (selectFlagged es flags)) with heb
    set rbs := selectFlagged (boundsOfList s.bounds es) flags with hrbs
    set selNames := (List.range ops.length).map (fun j => gen .max s.maxCount (.select j)) with hsel
    have hs1names : namesOf (maxState1 s v eb) = namesOf s ++ [v] := by
      simp [namesOf, maxState1, bumpMax]
    have hfreshSel : ∀ n ∈ selNames, n ∉ sL.domain.map (·.name) := by
      intro n hn'
      obtain ⟨j, _, rfl⟩ := List.mem_map.mp hn'
      exact sel_fresh .max hn s.maxCount rfl hs1names rfl gL j
    have hnd : selNames.Nodup := range_map_nodup .max s.maxCount ops.length
    have gD : Grow s (declAll sL .bool selNames) :=
      Grow.declAll .max s.maxCount .bool (le_refl _) (List.range ops.length) sL gsL
        (lt_of_lt_of_le (by show s.maxCount < s.maxCount + 1; exact Nat.lt_succ_self _) (gL.mono .max))
    refine ⟨Ctx.fromVar v Arith.one, maxState2 sL v eb.upper ops rbs selNames, ?_, ?_⟩
    · rw [linExtreme.eq_def]
      simp only [ite_ok, fail_ok, bind_ok, get_ok, set_ok, declareVariable_ok, pure_ok, and_false, false_or, name_ext,
        gen_none_sel]
      refine ⟨by simpa using hne, s, s, rfl, by simpa using hn0, Or.inr ⟨by simpa using hn1, ?_, _, _, rfl, _, _,
        ⟨hvfresh, rfl⟩, ops, sL, ?_, Or.inr ⟨by simpa using hl, ⟨⟩, declAll sL .bool selNames, ?_, ⟨⟩,
          pushAll (declAll sL .bool selNames) (((ops.zip rbs).zip (selNames.map .var)).flatMap (maxPair v eb.upper)), ?_,
          ⟨⟩, maxState2 sL v eb.upper ops rbs selNames, ?_, rfl⟩⟩⟩
      · simp only [hos, Bool.not_false, Bool.true_and, Bool.not_eq_true', Bool.not_eq_false, Bool.and_eq_true,
          List.all_eq_true]
        exact ⟨hfin'.1, hfin'.2⟩
      · rw [linFlagged_eq]
        simp only [hos, Bool.false_eq_true, if_false]
        exact hlin
      · exact (forIn_ok (fun sn => declareVariable sn (VarType.bool : VarType (Ext K))) _
          (by intro x u; rfl) _ _ _).mpr ((seqOK_declare _ _ _ _).mpr ⟨rfl, hfreshSel, hnd⟩)
      · exact (forIn_ok (fun (x : (Exp (Ext K) × Lin.Bounds (Ext K)) × Exp (Ext K)) => do
            addConstraint (mkC (.var v) .ge x.1.1)
            addConstraint (mkC (.var v) .le (addExp x.1.1 (mulExp (.num (Arith.sub eb.upper x.1.2.lower))
              (subExp (.num Arith.one) x.2))))) _ (by intro x u; simp [bind_assoc]; rfl) _ _ _).mpr
          ((seqOK_push _ (maxPair v eb.upper) (by
            intro x s
            simp only [bind_ok, maxPair]
            exact ⟨⟨⟩, _, addConstraint_eq _ _, by rw [addConstraint_eq, pushAll_append]; rfl⟩) _ _ _).mpr rfl)
      · rw [addConstraint_ok]; rfl
    · unfold maxState2
      exact (gD.pushAll _).pushC _

/-- the gadget of `min{…}` with at least two retained operands goes through once the operands do. -/
theorem min_gadget_succeeds {es : List (Exp (Ext K))} {req : Req} {s : St (Ext K)}
    (flags : List Bool) (hflags : flags = retainedFlagsE .min es (boundsOfList s.bounds es))
    (rs : List (Exp (Ext K))) (hrs : rs = selectFlagged es flags)
    (rbs : List (Lin.Bounds (Ext K))) (hrbs : rbs = selectFlagged (boundsOfList s.bounds es) flags)
    (eb : Lin.Bounds (Ext K)) (heb : eb = boundsOf s.bounds (.min rs))
    (hne : es ≠ []) (hn0 : (flags.filter id).length ≠ 0) (hn1 : (flags.filter id).length ≠ 1)
    (hfin : req = .higher ∨ (Arith.isFinite eb.lower = true ∧ ∀ b ∈ rbs, Arith.isFinite b.upper = true))
    (hn : NamesOK s)
    (hops : ∀ s1, Grow s s1 → ∃ ops sL, linList rs (if req = .higher then .higher else .exact) s1 = .ok (ops, sL) ∧
      Grow s1 sL) :
    ∃ c s', linExtreme .min es req s = .ok (c, s') ∧ Grow s s' := by
  subst hflags hrs hrbs heb
  set flags := retainedFlagsE .min es (boundsOfList s.bounds es) with hflags
  set v := gen .min s.minCount .none with hv
  have hvfresh : v ∉ namesOf s := hn.fresh .min (le_refl _) .none
  have g1 : Grow s (minState1 s v (boundsOf s.bounds (.min (selectFlagged es flags)))) := by
    unfold minState1
    exact ((Grow.refl s).same (s' := bumpMin s) rfl rfl (ctr_bumpMin s)).decl .min s.minCount .none _
      (le_refl _) (by show s.minCount < s.minCount + 1; exact Nat.lt_succ_self _)
  obtain ⟨ops, sL, hlin, gL⟩ := hops _ g1
  have gsL : Grow s sL := g1.trans gL
  by_cases hl : req = .higher
  · subst hl
    simp only [if_true] at hlin
    refine ⟨Ctx.fromVar v Arith.one, pushAll sL (ops.flatMap fun o => [mkC (.var v) .le o]), ?_, gsL.pushAll _⟩
    rw [linExtreme.eq_def]
    simp only [ite_ok, fail_ok, bind_ok, get_ok, set_ok, declareVariable_ok, pure_ok, and_false, false_or, name_ext,
      gen_none_sel]
    refine ⟨by simpa using hne, s, s, rfl, by simpa using hn0, Or.inr ⟨by simpa using hn1, by simp, _, _, rfl, _, _,
      ⟨hvfresh, rfl⟩, ops, sL, ?_, Or.inl ⟨by simp, ⟨⟩, _, ?_, rfl⟩⟩⟩
    · rw [linFlagged_eq]
      simp only [beq_self_eq_true, Bool.and_self, Bool.true_or, if_true]
      exact hlin
    · exact (forIn_ok (fun o => addConstraint (mkC (.var v) .le o)) _ (by intro x u; rfl) _ _ _).mpr
        ((seqOK_push _ (fun o => [mkC (.var v) .le o]) (fun x s => addConstraint_eq _ s) _ _ _).mpr rfl)
  · have hfin' := hfin.resolve_left hl
    have hos : (ExtKind.min == ExtKind.max && req == Req.lower || ExtKind.min == ExtKind.min && req == Req.higher) = false := by
      cases req <;> simp at hl ⊢
    simp only [hl, if_false] at hlin
    set eb := boundsOf s.bounds (.min (selectFlagged es flags)) with heb
    set rbs := selectFlagged (boundsOfList s.bounds es) flags with hrbs
    set selNames := (List.range ops.length).map (fun j => gen .min s.minCount (.select j)) with hsel
    have hs1names : namesOf (minState1 s v eb) = namesOf s ++ [v] := by
      simp [namesOf, minState1, bumpMin]
    have hfreshSel : ∀ n ∈ selNames, n ∉ sL.domain.map (·.name) := by
      intro n hn'
      obtain ⟨j, _, rfl⟩ := List.mem_map.mp hn'
      exact sel_fresh .min hn s.minCount rfl hs1names rfl gL j
    have hnd : selNames.Nodup := range_map_nodup .min s.minCount ops.length
    have gD : Grow s (declAll sL .bool selNames) :=
      Grow.declAll .min s.minCount .bool (le_refl _) (List.range ops.length) sL gsL
        (lt_of_lt_of_le (by show s.minCount < s.minCount + 1; exact Nat.lt_succ_self _) (gL.mono .min))
    refine ⟨Ctx.fromVar v Arith.one, minState2 sL v eb.lower ops rbs selNames, ?_, ?_⟩
    · rw [linExtreme.eq_def]
      simp only [ite_ok, fail_ok, bind_ok, get_ok, set_ok, declareVariable_ok, pure_ok, and_false, false_or, name_ext,
        gen_none_sel]
      refine ⟨by simpa using hne, s, s, rfl, by simpa using hn0, Or.inr ⟨by simpa using hn1, ?_, _, _, rfl, _, _,
        ⟨hvfresh, rfl⟩, ops, sL, ?_, Or.inr ⟨by simpa using hl, ⟨⟩, declAll sL .bool selNames, ?_, ⟨⟩,
          pushAll (declAll sL .bool selNames) (((ops.zip rbs).zip (selNames.map .var)).flatMap (minPair v eb.lower)), ?_,
          ⟨⟩, minState2 sL v eb.lower ops rbs selNames, ?_, rfl⟩⟩⟩
      · simp only [hos, Bool.not_false, Bool.true_and, Bool.not_eq_true', Bool.not_eq_false, Bool.and_eq_true,
          List.all_eq_true]
        exact ⟨hfin'.1, hfin'.2⟩
      · rw [linFlagged_eq]
        simp only [hos, Bool.false_eq_true, if_false]
        exact hlin
      · exact (forIn_ok (fun sn => declareVariable sn (VarType.bool : VarType (Ext K))) _
          (by intro x u; rfl) _ _ _).mpr ((seqOK_declare _ _ _ _).mpr ⟨rfl, hfreshSel, hnd⟩)
      · exact (forIn_ok (fun (x : (Exp (Ext K) × Lin.Bounds (Ext K)) × Exp (Ext K)) => do
            addConstraint (mkC (.var v) .le x.1.1)
            addConstraint (mkC (.var v) .ge (subExp x.1.1 (mulExp (.num (Arith.sub x.1.2.upper eb.lower))
              (subExp (.num Arith.one) x.2))))) _ (by intro x u; simp [bind_assoc]; rfl) _ _ _).mpr
          ((seqOK_push _ (minPair v eb.lower) (by
            intro x s
            simp only [bind_ok, minPair]
            exact ⟨⟨⟩, _, addConstraint_eq _ _, by rw [addConstraint_eq, pushAll_append]; rfl⟩) _ _ _).mpr rfl)
      · rw [addConstraint_ok]; rfl
    · unfold minState2
      exact (gD.pushAll _).pushC _

/-! ### the piecewise-linear fragment, relative to the bounds the analyzer publishes -/

def SrcVars (e : Exp (Ext K)) : Prop := ∀ x ∈ varsOf e, SrcName x
def SrcVarsL (es : List (Exp (Ext K))) : Prop := ∀ e ∈ es, SrcVars e

/-- `PW bm e q`: `e` is built from affine shapes, `abs`, `min`, `max`; every product has a literal factor, every
divisor is a non-zero literal; and wherever a big-M gadget is needed for the requirement at hand, the bounds `bm`
are finite (exactly the condition whose failure is `MissingFiniteBounds`).  Decidable, by recursion on `e`. -/
inductive PW (bm : BoundsMap (Ext K)) : Exp (Ext K) → Req → Prop
  | num (v : Ext K) (q : Req) : PW bm (.num v) q
  | var (x : String) (q : Req) : PW bm (.var x) q
  | add {l r : Exp (Ext K)} {q : Req} : PW bm l q → PW bm r q → PW bm (.bin .add l r) q
  | sub {l r : Exp (Ext K)} {q : Req} : PW bm l q → PW bm r q.reversed → PW bm (.bin .sub l r) q
  | mulL0 (c : Ext K) (r : Exp (Ext K)) (q : Req) :
      (Arith.eq c (Arith.zero : Ext K) && !(Exp.mayBeUndefined r)) = true → PW bm (.bin .mul (.num c) r) q
  | mulL (c : Ext K) {r : Exp (Ext K)} {q : Req} : PW bm r (q.throughScale c) → PW bm (.bin .mul (.num c) r) q
  | mulR0 {l : Exp (Ext K)} (c : Ext K) (q : Req) : (∀ v, l = .num v → False) →
      (Arith.eq c (Arith.zero : Ext K) && !(Exp.mayBeUndefined l)) = true → PW bm (.bin .mul l (.num c)) q
  | mulR {l : Exp (Ext K)} (c : Ext K) {q : Req} : (∀ v, l = .num v → False) → PW bm l (q.throughScale c) →
      PW bm (.bin .mul l (.num c)) q
  | div {l : Exp (Ext K)} (d : Ext K) {q : Req} : ¬ (Arith.eq d (Arith.zero : Ext K) = true) →
      PW bm l (q.throughScale (Arith.div Arith.one d)) → PW bm (.bin .div l (.num d)) q
  | neg {e : Exp (Ext K)} {q : Req} : PW bm e q.reversed → PW bm (.un .neg e) q
  | absPos {e : Exp (Ext K)} {q : Req} : SrcVars e → Arith.ge (boundsOf bm e).lower (Arith.zero : Ext K) = true →
      PW bm e q → PW bm (.abs e) q
  | absNeg {e : Exp (Ext K)} {q : Req} : SrcVars e → ¬ Arith.ge (boundsOf bm e).lower (Arith.zero : Ext K) = true →
      Arith.le (boundsOf bm e).upper (Arith.zero : Ext K) = true → PW bm e q.reversed → PW bm (.abs e) q
  | absBigM {e : Exp (Ext K)} {q : Req} : SrcVars e → ¬ Arith.ge (boundsOf bm e).lower (Arith.zero : Ext K) = true →
      ¬ Arith.le (boundsOf bm e).upper (Arith.zero : Ext K) = true →
      (q = .lower ∨ (Arith.isFinite (boundsOf bm e).lower = true ∧ Arith.isFinite (boundsOf bm e).upper = true)) →
      PW bm e .exact → PW bm (.abs e) q
  | max1 {es : List (Exp (Ext K))} {q : Req} : SrcVarsL es → es ≠ [] →
      ((retainedFlagsE .max es (boundsOfList bm es)).filter id).length = 1 →
      (∀ e ∈ selectFlagged es (retainedFlagsE .max es (boundsOfList bm es)), PW bm e q) → PW bm (.max es) q
  | maxN {es : List (Exp (Ext K))} {q : Req} : SrcVarsL es → es ≠ [] →
      ((retainedFlagsE .max es (boundsOfList bm es)).filter id).length ≠ 0 →
      ((retainedFlagsE .max es (boundsOfList bm es)).filter id).length ≠ 1 →
      (q = .lower ∨
        (Arith.isFinite (boundsOf bm (.max (selectFlagged es (retainedFlagsE .max es (boundsOfList bm es))))).upper = true ∧
         ∀ b ∈ selectFlagged (boundsOfList bm es) (retainedFlagsE .max es (boundsOfList bm es)),
           Arith.isFinite b.lower = true)) →
      (∀ e ∈ selectFlagged es (retainedFlagsE .max es (boundsOfList bm es)),
        PW bm e (if q = .lower then .lower else .exact)) → PW bm (.max es) q
  | min1 {es : List (Exp (Ext K))} {q : Req} : SrcVarsL es → es ≠ [] →
      ((retainedFlagsE .min es (boundsOfList bm es)).filter id).length = 1 →
      (∀ e ∈ selectFlagged es (retainedFlagsE .min es (boundsOfList bm es)), PW bm e q) → PW bm (.min es) q
  | minN {es : List (Exp (Ext K))} {q : Req} : SrcVarsL es → es ≠ [] →
      ((retainedFlagsE .min es (boundsOfList bm es)).filter id).length ≠ 0 →
      ((retainedFlagsE .min es (boundsOfList bm es)).filter id).length ≠ 1 →
      (q = .higher ∨
        (Arith.isFinite (boundsOf bm (.min (selectFlagged es (retainedFlagsE .min es (boundsOfList bm es))))).lower = true ∧
         ∀ b ∈ selectFlagged (boundsOfList bm es) (retainedFlagsE .min es (boundsOfList bm es)),
           Arith.isFinite b.upper = true)) →
      (∀ e ∈ selectFlagged es (retainedFlagsE .min es (boundsOfList bm es)),
        PW bm e (if q = .higher then .higher else .exact)) → PW bm (.min es) q

/-- what success means here: a result, and a state reached by a `Grow` step. -/
def Succ (bm : BoundsMap (Ext K)) (e : Exp (Ext K)) (q : Req) : Prop :=
  ∀ s : St (Ext K), NamesOK s → BAgree bm s → ∃ c s', linExp e q s = .ok (c, s') ∧ Grow s s'

theorem boundsOf_agree {bm : BoundsMap (Ext K)} {s : St (Ext K)} (hb : BAgree bm s) {e : Exp (Ext K)}
    (hv : SrcVars e) : boundsOf s.bounds e = boundsOf bm e :=
  boundsOf_congr e (fun x hx => hb x (hv x hx))

theorem boundsOfList_agree {bm : BoundsMap (Ext K)} {s : St (Ext K)} (hb : BAgree bm s) {es : List (Exp (Ext K))}
    (hv : SrcVarsL es) : boundsOfList s.bounds es = boundsOfList bm es :=
  boundsOfList_congr es (fun e he => boundsOf_agree hb (hv e he))

theorem srcVars_max {es : List (Exp (Ext K))} (hv : SrcVarsL es) (fl : List Bool) :
    SrcVars (.max (selectFlagged es fl)) := by
  intro x hx
  simp only [varsOf] at hx
  obtain ⟨e, he, hxe⟩ := mem_varsOfList.mp hx
  exact hv e (selectFlagged_subset he) x hxe

theorem srcVars_min {es : List (Exp (Ext K))} (hv : SrcVarsL es) (fl : List Bool) :
    SrcVars (.min (selectFlagged es fl)) := by
  intro x hx
  simp only [varsOf] at hx
  obtain ⟨e, he, hxe⟩ := mem_varsOfList.mp hx
  exact hv e (selectFlagged_subset he) x hxe

theorem linList_succeeds {bm : BoundsMap (Ext K)} {q : Req} : ∀ (rs : List (Exp (Ext K))),
    (∀ e ∈ rs, Succ bm e q) → ∀ s : St (Ext K), NamesOK s → BAgree bm s →
      ∃ ops sL, linList rs q s = .ok (ops, sL) ∧ Grow s sL
  | [], _, s, _, _ => ⟨[], s, by simp [linList, pure_ok], Grow.refl s⟩
  | e :: rs, h, s, hn, hb => by
    obtain ⟨c, s1, h1, g1⟩ := h e (by simp) s hn hb
    obtain ⟨ops, sL, h2, g2⟩ := linList_succeeds rs (fun x hx => h x (by simp [hx])) s1 (hn.grow g1) (hb.grow g1)
    exact ⟨ctxToExp c :: ops, sL, by simp only [linList, bind_ok, pure_ok]; exact ⟨c, s1, h1, ops, sL, h2, rfl⟩,
      g1.trans g2⟩

/-- **no spurious error in `Exp::linearize` on the piecewise-linear fragment**: whatever the state — as long as
the user's names do not start with `$` (`NamesOK`) and the bounds of the user's variables are those of `bm` —
the lowering succeeds; in particular every auxiliary name is new when it is declared. -/
theorem linExp_PW {bm : BoundsMap (Ext K)} {e : Exp (Ext K)} {q : Req} (h : PW bm e q) : Succ bm e q := by
  induction h with
  | num v q => intro s _ _; exact ⟨_, s, by rw [linExp]; rfl, Grow.refl s⟩
  | var x q => intro s _ _; exact ⟨_, s, by rw [linExp]; rfl, Grow.refl s⟩
  | add _ _ ihl ihr =>
    intro s hn hb
    obtain ⟨a, s1, h1, g1⟩ := ihl s hn hb
    obtain ⟨b, s2, h2, g2⟩ := ihr s1 (hn.grow g1) (hb.grow g1)
    exact ⟨_, s2, by rw [linExp]; simp only [bind_ok, pure_ok]; exact ⟨a, s1, h1, b, s2, h2, rfl⟩, g1.trans g2⟩
  | sub _ _ ihl ihr =>
    intro s hn hb
    obtain ⟨a, s1, h1, g1⟩ := ihl s hn hb
    obtain ⟨b, s2, h2, g2⟩ := ihr s1 (hn.grow g1) (hb.grow g1)
    exact ⟨_, s2, by rw [linExp]; simp only [bind_ok, pure_ok]; exact ⟨a, s1, h1, b, s2, h2, rfl⟩, g1.trans g2⟩
  | mulL0 c r q hg =>
    intro s _ _
    exact ⟨_, s, by rw [linExp, if_pos hg]; rfl, Grow.refl s⟩
  | @mulL c r q _ ih =>
    intro s hn hb
    by_cases hg : (Arith.eq c (Arith.zero : Ext K) && !(Exp.mayBeUndefined r)) = true
    · exact ⟨_, s, by rw [linExp, if_pos hg]; rfl, Grow.refl s⟩
    · obtain ⟨y, s1, hy, g1⟩ := ih s hn hb
      exact ⟨_, s1, by rw [linExp, if_neg hg]; simp only [bind_ok, pure_ok]; exact ⟨y, s1, hy, rfl⟩, g1⟩
  | mulR0 c q hna hg =>
    intro s _ _
    exact ⟨_, s, by rw [linExp.eq_4 _ _ _ hna, if_pos hg]; rfl, Grow.refl s⟩
  | @mulR l c q hna _ ih =>
    intro s hn hb
    by_cases hg : (Arith.eq c (Arith.zero : Ext K) && !(Exp.mayBeUndefined l)) = true
    · exact ⟨_, s, by rw [linExp.eq_4 _ _ _ hna, if_pos hg]; rfl, Grow.refl s⟩
    · obtain ⟨y, s1, hy, g1⟩ := ih s hn hb
      exact ⟨_, s1, by rw [linExp.eq_4 _ _ _ hna, if_neg hg]; simp only [bind_ok, pure_ok]; exact ⟨y, s1, hy, rfl⟩, g1⟩
  | div d hd _ ih =>
    intro s hn hb
    obtain ⟨y, s1, hy, g1⟩ := ih s hn hb
    exact ⟨_, s1, by rw [linExp, if_neg hd]; simp only [bind_ok, pure_ok]; exact ⟨y, s1, hy, rfl⟩, g1⟩
  | neg _ ih =>
    intro s hn hb
    obtain ⟨y, s1, hy, g1⟩ := ih s hn hb
    exact ⟨_, s1, by rw [linExp]; simp only [bind_ok, pure_ok]; exact ⟨y, s1, hy, rfl⟩, g1⟩
  | absPos hv hpos _ ih =>
    intro s hn hb
    obtain ⟨y, s1, hy, g1⟩ := ih s hn hb
    refine ⟨y, s1, ?_, g1⟩
    rw [linExp]
    simp only [bind_ok, get_ok]
    refine ⟨s, s, rfl, ?_⟩
    rw [boundsOf_agree hb hv, if_pos hpos]
    exact hy
  | absNeg hv h1 h2 _ ih =>
    intro s hn hb
    obtain ⟨y, s1, hy, g1⟩ := ih s hn hb
    refine ⟨y.mulBy (Arith.ofInt (-1)), s1, ?_, g1⟩
    rw [linExp]
    simp only [bind_ok, get_ok]
    refine ⟨s, s, rfl, ?_⟩
    rw [boundsOf_agree hb hv, if_neg h1, if_pos h2]
    simp only [bind_ok, pure_ok]
    exact ⟨y, s1, hy, rfl⟩
  | absBigM hv h1 h2 hfin _ ih =>
    intro s hn hb
    obtain ⟨innerC, s1, hin, g1⟩ := ih s hn hb
    have hbe := boundsOf_agree hb hv
    obtain ⟨c, s', hok, g2⟩ := abs_gadget_succeeds (req := _) (by rw [hbe]; exact h1) (by rw [hbe]; exact h2)
      (by rw [hbe]; exact hfin) hin (hn.grow g1)
    exact ⟨c, s', hok, g1.trans g2⟩
  | @max1 es q hv hne h1 _ ih =>
    intro s hn hb
    have hbl := boundsOfList_agree hb hv
    have hlen : es.length = (retainedFlagsE .max es (boundsOfList bm es)).length := by
      rw [retainedFlagsE_length _ _ _ (by rw [boundsOfList_eq_map, List.length_map])]
    have hsl := selectFlagged_length es _ hlen
    rw [h1] at hsl
    cases hrs : selectFlagged es (retainedFlagsE .max es (boundsOfList bm es)) with
    | nil => rw [hrs] at hsl; simp at hsl
    | cons e1 rest =>
      obtain ⟨c, s', hok, g⟩ := ih e1 (by rw [hrs]; simp) s hn hb
      refine ⟨c, s', ?_, g⟩
      rw [linExp, linExtreme.eq_def]
      simp only [ite_ok, fail_ok, bind_ok, get_ok, and_false, false_or]
      refine ⟨by simpa using hne, s, s, rfl, ?_, Or.inl ⟨?_, ?_⟩⟩
      · rw [hbl, h1]; simp
      · rw [hbl, h1]; simp
      · rw [linFirstFlagged_eq, hbl, hrs]; exact hok
  | @maxN es q hv hne hn0 hn1 hfin _ ih =>
    intro s hn hb
    have hbl := boundsOfList_agree hb hv
    have hbe : boundsOf s.bounds (.max (selectFlagged es (retainedFlagsE .max es (boundsOfList bm es)))) =
        boundsOf bm (.max (selectFlagged es (retainedFlagsE .max es (boundsOfList bm es)))) :=
      boundsOf_agree hb (srcVars_max hv _)
    rw [linExp]
    refine max_gadget_succeeds _ rfl _ rfl _ rfl _ rfl hne (by rw [hbl]; exact hn0) (by rw [hbl]; exact hn1)
      (by rw [hbl, hbe]; exact hfin) hn ?_
    intro s1 g1
    rw [hbl]
    exact linList_succeeds _ ih s1 (hn.grow g1) (hb.grow g1)
  | @min1 es q hv hne h1 _ ih =>
    intro s hn hb
    have hbl := boundsOfList_agree hb hv
    have hlen : es.length = (retainedFlagsE .min es (boundsOfList bm es)).length := by
      rw [retainedFlagsE_length _ _ _ (by rw [boundsOfList_eq_map, List.length_map])]
    have hsl := selectFlagged_length es _ hlen
    rw [h1] at hsl
    cases hrs : selectFlagged es (retainedFlagsE .min es (boundsOfList bm es)) with
    | nil => rw [hrs] at hsl; simp at hsl
    | cons e1 rest =>
      obtain ⟨c, s', hok, g⟩ := ih e1 (by rw [hrs]; simp) s hn hb
      refine ⟨c, s', ?_, g⟩
      rw [linExp, linExtreme.eq_def]
      simp only [ite_ok, fail_ok, bind_ok, get_ok, and_false, false_or]
      refine ⟨by simpa using hne, s, s, rfl, ?_, Or.inl ⟨?_, ?_⟩⟩
      · rw [hbl, h1]; simp
      · rw [hbl, h1]; simp
      · rw [linFirstFlagged_eq, hbl, hrs]; exact hok
  | @minN es q hv hne hn0 hn1 hfin _ ih =>
    intro s hn hb
    have hbl := boundsOfList_agree hb hv
    have hbe : boundsOf s.bounds (.min (selectFlagged es (retainedFlagsE .min es (boundsOfList bm es)))) =
        boundsOf bm (.min (selectFlagged es (retainedFlagsE .min es (boundsOfList bm es)))) :=
      boundsOf_agree hb (srcVars_min hv _)
    rw [linExp]
    refine min_gadget_succeeds _ rfl _ rfl _ rfl _ rfl hne (by rw [hbl]; exact hn0) (by rw [hbl]; exact hn1)
      (by rw [hbl, hbe]; exact hfin) hn ?_
    intro s1 g1
    rw [hbl]
    exact linList_succeeds _ ih s1 (hn.grow g1) (hb.grow g1)

/-! ### non-vacuity -/

def exPWBounds : BoundsMap (Ext K) := [("x", ⟨.fin (-3), .fin 3⟩)]
def exPWState : St (Ext K) :=
  { queue := [], domain := [{ name := "x", ty := .real (.fin (-3)) (.fin 3), usage := 1 }], bounds := exPWBounds }

/-- `|x|` with `x ∈ [−3, 3]` at requirement `exact` needs the big-M gadget and is in the fragment. -/
theorem exPW_pw : PW (exPWBounds : BoundsMap (Ext K)) (.abs (.var "x")) .exact := by
  refine PW.absBigM (by intro x hx; simp [varsOf] at hx; subst hx; exact (by unfold SrcName; decide)) ?_ ?_ (Or.inr ⟨rfl, rfl⟩) (PW.var _ _)
  · simp [exPWBounds, boundsOf, lookupB, Arith.ge, Arith.le, Ext.le, Arith.zero]
  · simp [exPWBounds, boundsOf, lookupB, Arith.le, Ext.le, Arith.zero]

theorem exPW_names : NamesOK (exPWState : St (Ext K)) := by
  intro x hx
  simp [namesOf, exPWState] at hx
  subst hx
  exact Or.inl (by unfold SrcName; decide)

theorem exPW_agree : BAgree (exPWBounds : BoundsMap (Ext K)) exPWState := fun _ _ => rfl

end Rooc.LinP
