/-
Helper lemmas for C17 that do not involve the lexer: row names, bounds entries of `Lp.denote`.
-/
import Rooc.LpFormat
import Rooc.Proofs.Field
import Mathlib.Data.List.Perm.Subperm
import Mathlib.Data.List.Nodup
import Mathlib.Data.List.Range
namespace Rooc.Lp
open Rooc Arith
set_option linter.unusedSectionVars false

theorem natChars_inj {a b : Nat} (h : natChars a = natChars b) : a = b := by
  have ha := @Nat.ofDigitChars_ten_toDigits a
  have hb := @Nat.ofDigitChars_ten_toDigits b
  unfold natChars at h
  rw [h] at ha
  omega

/-! ### generated row names -/

theorem candidate_inj (base : List Char) {j k : Nat} (h : candidate base j = candidate base k) : j = k := by
  unfold candidate at h
  by_cases hj : j = 0 <;> by_cases hk : k = 0 <;> simp only [hj, hk, if_true, if_false] at h
  · omega
  · have := congrArg List.length h; simp at this
  · have := congrArg List.length h; simp at this
  · have := List.append_cancel_left h
    exact natChars_inj (List.cons.inj this).2

theorem freshName_aux (used : List (List Char)) (base : List Char) (f k : Nat) :
    freshName used base f k ∉ used ∨ (∀ j, k ≤ j → j < k + f → candidate base j ∈ used) := by
  induction f generalizing k with
  | zero => right; intro j h1 h2; omega
  | succ f ih =>
    simp only [freshName]
    by_cases hc : used.contains (candidate base k) = true
    · simp only [hc, if_true]
      rcases ih (k + 1) with h | h
      · exact Or.inl h
      · right
        intro j h1 h2
        by_cases e : j = k
        · subst e; simpa using hc
        · exact h j (by omega) (by omega)
    · simp only [hc, if_false]
      left; simpa using hc

/-- the name the loop settles on is not taken -/
theorem freshName_not_mem (used : List (List Char)) (base : List Char) :
    freshName used base (used.length + 1) 0 ∉ used := by
  rcases freshName_aux used base (used.length + 1) 0 with h | h
  · exact h
  · exfalso
    have hsub : (List.range (used.length + 1)).map (candidate base) ⊆ used := by
      intro x hx
      obtain ⟨j, hj, rfl⟩ := List.mem_map.mp hx
      exact h j (Nat.zero_le _) (by simpa using List.mem_range.mp hj)
    have hnd : ((List.range (used.length + 1)).map (candidate base)).Nodup :=
      (List.nodup_range).map (fun a b e => candidate_inj base e)
    have := (List.subperm_of_subset hnd hsub).length_le
    simp at this

section
variable {α : Type}

/-- a named row keeps its name -/
theorem rowNamesFrom_named (U : List (List Char)) (i : Nat) (rows : List (LinRow α)) (p : Nat) (rp : LinRow α)
    (hp : rows[p]? = some rp) (hn : rp.name.toList ≠ []) : (rowNamesFrom U i rows)[p]? = some rp.name.toList := by
  induction rows generalizing U i p with
  | nil => simp at hp
  | cons r rs ih =>
    cases p with
    | zero =>
      simp at hp; subst hp
      have : r.name.toList.isEmpty = false := by cases h : r.name.toList <;> simp_all
      simp [rowNamesFrom, this]
    | succ p =>
      simp at hp
      simp only [rowNamesFrom]
      split <;> simpa using ih _ _ p hp

/-- the name generated for an unnamed row is outside the names taken when the loop started -/
theorem rowNamesFrom_generated (U : List (List Char)) (i : Nat) (rows : List (LinRow α)) (p : Nat) (rp : LinRow α)
    (hp : rows[p]? = some rp) (hn : rp.name.toList = []) (m : List Char)
    (hm : (rowNamesFrom U i rows)[p]? = some m) : m ∉ U := by
  induction rows generalizing U i p with
  | nil => simp at hp
  | cons r rs ih =>
    cases p with
    | zero =>
      simp at hp; subst hp
      simp [rowNamesFrom, hn] at hm
      subst hm
      exact freshName_not_mem U _
    | succ p =>
      simp at hp
      simp only [rowNamesFrom] at hm
      split at hm
      · have := ih _ _ p hp (by simpa using hm)
        exact fun h => this (List.mem_cons_of_mem _ h)
      · exact ih _ _ p hp (by simpa using hm)

theorem rowNamesFrom_unique (U : List (List Char)) (i : Nat) (rows : List (LinRow α))
    (hU : ∀ r ∈ rows, r.name.toList ≠ [] → r.name.toList ∈ U)
    (p q : Nat) (rp rq : LinRow α) (hp : rows[p]? = some rp) (hq : rows[q]? = some rq) (hpq : p ≠ q)
    (hgen : rp.name.toList = []) : (rowNamesFrom U i rows)[p]? ≠ (rowNamesFrom U i rows)[q]? := by
  induction rows generalizing U i p q with
  | nil => simp at hp
  | cons r rs ih =>
    have hU' : ∀ r' ∈ rs, r'.name.toList ≠ [] → r'.name.toList ∈ U := fun r' h' => hU r' (by simp [h'])
    -- the name at a position `q' + 1`, seen from the tail
    have tailName : ∀ (V : List (List Char)) (x : List Char) (q' : Nat),
        (x :: rowNamesFrom V (i + 1) rs)[q' + 1]? = (rowNamesFrom V (i + 1) rs)[q']? := by intros; simp
    by_cases hr : r.name.toList = []
    · -- the head row gets a generated name `n`
      have hn := freshName_not_mem U ('c' :: natChars (i + 1))
      simp only [rowNamesFrom, hr, List.isEmpty_nil, if_true]
      cases p with
      | zero =>
        cases q with
        | zero => exact absurd rfl hpq
        | succ q =>
          simp at hq
          rw [tailName]
          simp only [List.getElem?_cons_zero]
          intro e
          by_cases hqn : rq.name.toList = []
          · exact rowNamesFrom_generated _ _ rs q rq hq hqn _ e.symm (by simp)
          · rw [rowNamesFrom_named _ _ rs q rq hq hqn] at e
            have := hU' rq (List.mem_of_getElem? hq) hqn
            rw [← Option.some.inj e] at this
            exact hn this
      | succ p =>
        simp at hp
        cases q with
        | zero =>
          rw [tailName]
          simp only [List.getElem?_cons_zero]
          intro e
          exact rowNamesFrom_generated _ _ rs p rp hp hgen _ e (by simp)
        | succ q =>
          simp at hq
          rw [tailName, tailName]
          exact ih _ _ (fun r' h' hne => List.mem_cons_of_mem _ (hU' r' h' hne)) p q hp hq (by omega)
    · have hne : r.name.toList.isEmpty = false := by cases h : r.name.toList <;> simp_all
      simp only [rowNamesFrom, hne, Bool.false_eq_true, if_false]
      cases p with
      | zero => simp at hp; subst hp; exact absurd hgen hr
      | succ p =>
        simp at hp
        cases q with
        | zero =>
          rw [tailName]
          simp only [List.getElem?_cons_zero]
          intro e
          exact rowNamesFrom_generated _ _ rs p rp hp hgen _ e (hU r (by simp) hr)
        | succ q =>
          simp at hq
          rw [tailName, tailName]
          exact ih _ _ hU' p q hp hq (by omega)

theorem mem_userNames (rows : List (LinRow α)) : ∀ r ∈ rows, r.name.toList ≠ [] → r.name.toList ∈ userNames rows := by
  induction rows with
  | nil => simp
  | cons r rs ih =>
    intro r' hr' hne
    simp only [userNames]
    rcases List.mem_cons.mp hr' with rfl | h
    · have : r'.name.toList.isEmpty = false := by cases h : r'.name.toList <;> simp_all
      simp [this]
    · split
      · exact ih r' h hne
      · exact List.mem_cons_of_mem _ (ih r' h hne)
end

/-! ### `Ext K` facts -/
section ExtK
variable {K : Type} [Field K] [LinearOrder K] [IsStrictOrderedRing K] [FloorRing K]

theorem ext_eq_true {a b : Ext K} (h : Arith.eq a b = true) : a = b := by
  cases a <;> cases b <;> simp_all [Arith.eq, Ext.eq]

theorem mem_binaryNames {ds : List (DomVar (Ext K))} {n : String} :
    n ∈ binaryNames ds ↔ ∃ d ∈ ds, d.name = n ∧ d.ty = .bool := by
  induction ds with
  | nil => simp [binaryNames]
  | cons d ds ih =>
    cases hty : d.ty <;> simp [binaryNames, hty, ih]
    exact or_congr_left eq_comm

theorem mem_generalNames {ds : List (DomVar (Ext K))} {n : String} :
    n ∈ generalNames ds ↔ ∃ d ∈ ds, d.name = n ∧ ∃ a b, d.ty = .int a b := by
  induction ds with
  | nil => simp [generalNames]
  | cons d ds ih =>
    cases hty : d.ty <;> simp [generalNames, hty, ih]
    exact or_congr_left eq_comm

theorem mem_denoteBounds_var {ds : List (DomVar (Ext K))} {b : LpBound (Ext K)} (h : b ∈ denoteBounds ds) :
    ∃ d ∈ ds, d.name = b.var := by
  induction ds with
  | nil => simp [denoteBounds] at h
  | cons d ds ih =>
    unfold denoteBounds at h
    split at h
    · obtain ⟨d', hd', e⟩ := ih h; exact ⟨d', by simp [hd'], e⟩
    · rcases List.mem_cons.mp h with h | h
      · exact ⟨d, by simp, by rw [h]⟩
      · obtain ⟨d', hd', e⟩ := ih h; exact ⟨d', by simp [hd'], e⟩
    · split at h
      · rcases List.mem_cons.mp h with h | h
        · exact ⟨d, by simp, by rw [h]⟩
        · obtain ⟨d', hd', e⟩ := ih h; exact ⟨d', by simp [hd'], e⟩
      · obtain ⟨d', hd', e⟩ := ih h; exact ⟨d', by simp [hd'], e⟩
    · rcases List.mem_cons.mp h with h | h
      · exact ⟨d, by simp, by rw [h]⟩
      · obtain ⟨d', hd', e⟩ := ih h; exact ⟨d', by simp [hd'], e⟩

theorem foldl_rangeStep_skip (bs : List (LpBound (Ext K))) (v : String) (acc : Ext K × Ext K)
    (h : ∀ b ∈ bs, b.var ≠ v) : bs.foldl (rangeStep v) acc = acc := by
  induction bs generalizing acc with
  | nil => rfl
  | cons b bs ih =>
    have hb := h b (by simp)
    simp only [List.foldl_cons, rangeStep]
    rw [if_neg (by simpa using hb)]
    exact ih _ (fun b' hb' => h b' (by simp [hb']))

/-- the range the `Bounds` entries of `denote` give to a declared, non-Boolean variable. -/
theorem foldl_denoteBounds (ds : List (DomVar (Ext K))) (hnd : (ds.map (·.name)).Nodup)
    (d : DomVar (Ext K)) (hd : d ∈ ds) (hb : d.ty ≠ .bool) (acc : Ext K × Ext K)
    (hacc : acc = (zero, posInf)) :
    (denoteBounds ds).foldl (rangeStep d.name) acc = domainRange d.ty := by
  induction ds generalizing acc with
  | nil => simp at hd
  | cons x xs ih =>
    simp only [List.map_cons, List.nodup_cons] at hnd
    rcases List.mem_cons.mp hd with rfl | hd'
    · -- the entry of `d` itself; the rest is skipped
      have hskip : ∀ b ∈ denoteBounds xs, b.var ≠ d.name := by
        intro b hb' e
        obtain ⟨d', hd', e'⟩ := mem_denoteBounds_var hb'
        exact hnd.1 (List.mem_map.mpr ⟨d', hd', by rw [e', e]⟩)
      unfold denoteBounds
      cases hty : d.ty with
      | bool => exact absurd hty hb
      | int lo hi => simp [List.foldl_cons, rangeStep, foldl_rangeStep_skip _ _ _ hskip, domainRange]
      | real lo hi => simp [List.foldl_cons, rangeStep, foldl_rangeStep_skip _ _ _ hskip, domainRange]
      | nnreal lo hi =>
        by_cases hdef : (Arith.eq lo zero && Arith.eq hi posInf) = true
        · simp only [hdef, Bool.not_true, Bool.false_eq_true, if_false]
          rw [foldl_rangeStep_skip _ _ _ hskip, hacc]
          simp only [Bool.and_eq_true] at hdef
          simp [domainRange, ext_eq_true hdef.1, ext_eq_true hdef.2]
        · simp [hdef, List.foldl_cons, rangeStep, foldl_rangeStep_skip _ _ _ hskip, domainRange]
    · have hne : x.name ≠ d.name := fun e => hnd.1 (List.mem_map.mpr ⟨d, hd', e.symm⟩)
      have key : ∀ (b : LpBound (Ext K)), b.var = x.name → rangeStep d.name acc b = acc := by
        intro b e; simp [rangeStep, e, hne]
      unfold denoteBounds
      split
      · exact ih hnd.2 hd' acc hacc
      · rw [List.foldl_cons, key _ rfl]; exact ih hnd.2 hd' acc hacc
      · split
        · rw [List.foldl_cons, key _ rfl]; exact ih hnd.2 hd' acc hacc
        · exact ih hnd.2 hd' acc hacc
      · rw [List.foldl_cons, key _ rfl]; exact ih hnd.2 hd' acc hacc

end ExtK
end Rooc.Lp
