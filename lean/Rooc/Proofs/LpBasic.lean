/-
Helper lemmas for C17 that do not involve the lexer: row names, bounds entries of `Lp.denote`.
-/
import Rooc.LpFormat
import Rooc.Proofs.Field
namespace Rooc.Lp
open Rooc Arith
set_option linter.unusedSectionVars false

theorem natChars_inj {a b : Nat} (h : natChars a = natChars b) : a = b := by
  have ha := @Nat.ofDigitChars_ten_toDigits a
  have hb := @Nat.ofDigitChars_ten_toDigits b
  unfold natChars at h
  rw [h] at ha
  omega

section
variable {α : Type}

theorem rowNames_get (rows : List (LinRow α)) (k i : Nat) (r : LinRow α) (h : rows[i]? = some r) :
    (rowNames k rows)[i]? = some (rowName (k + i) r.name) := by
  induction rows generalizing k i with
  | nil => simp at h
  | cons x xs ih =>
    cases i with
    | zero => simp at h; subst h; simp [rowNames]
    | succ i =>
      simp at h
      have := ih (k+1) i h
      simp [rowNames, this]
      congr 1; omega

theorem rowNames_length (rows : List (LinRow α)) (k : Nat) : (rowNames k rows).length = rows.length := by
  induction rows generalizing k with
  | nil => rfl
  | cons x xs ih => simp [rowNames, ih]
end

/-! ### `Ext K` facts -/
section ExtK
variable {K : Type} [Field K] [LinearOrder K] [IsStrictOrderedRing K] [FloorRing K]

theorem ext_eq_true {a b : Ext K} (h : Arith.eq a b = true) : a = b := by
  cases a <;> cases b <;> simp_all [Arith.eq, Ext.eq]

theorem mem_binaryNames {ds : List (DomVar (Ext K))} {n : String} :
    n ∈ binaryNames ds ↔ ∃ d ∈ ds, d.name = n ∧ d.ty = .bool := by
  induction ds with
  | nil => simp [binaryNames]
  | cons d ds ih =>
    cases hty : d.ty <;> simp [binaryNames, hty, ih]
    exact or_congr_left eq_comm

theorem mem_generalNames {ds : List (DomVar (Ext K))} {n : String} :
    n ∈ generalNames ds ↔ ∃ d ∈ ds, d.name = n ∧ ∃ a b, d.ty = .int a b := by
  induction ds with
  | nil => simp [generalNames]
  | cons d ds ih =>
    cases hty : d.ty <;> simp [generalNames, hty, ih]
    exact or_congr_left eq_comm

theorem mem_denoteBounds_var {ds : List (DomVar (Ext K))} {b : LpBound (Ext K)} (h : b ∈ denoteBounds ds) :
    ∃ d ∈ ds, d.name = b.var := by
  induction ds with
  | nil => simp [denoteBounds] at h
  | cons d ds ih =>
    unfold denoteBounds at h
    split at h
    · obtain ⟨d', hd', e⟩ := ih h; exact ⟨d', by simp [hd'], e⟩
    · rcases List.mem_cons.mp h with h | h
      · exact ⟨d, by simp, by rw [h]⟩
      · obtain ⟨d', hd', e⟩ := ih h; exact ⟨d', by simp [hd'], e⟩
    · split at h
      · rcases List.mem_cons.mp h with h | h
        · exact ⟨d, by simp, by rw [h]⟩
        · obtain ⟨d', hd', e⟩ := ih h; exact ⟨d', by simp [hd'], e⟩
      · obtain ⟨d', hd', e⟩ := ih h; exact ⟨d', by simp [hd'], e⟩
    · rcases List.mem_cons.mp h with h | h
      · exact ⟨d, by simp, by rw [h]⟩
      · obtain ⟨d', hd', e⟩ := ih h; exact ⟨d', by simp [hd'], e⟩

theorem foldl_rangeStep_skip (bs : List (LpBound (Ext K))) (v : String) (acc : Ext K × Ext K)
    (h : ∀ b ∈ bs, b.var ≠ v) : bs.foldl (rangeStep v) acc = acc := by
  induction bs generalizing acc with
  | nil => rfl
  | cons b bs ih =>
    have hb := h b (by simp)
    simp only [List.foldl_cons, rangeStep]
    rw [if_neg (by simpa using hb)]
    exact ih _ (fun b' hb' => h b' (by simp [hb']))

/-- the range the `Bounds` entries of `denote` give to a declared, non-Boolean variable. -/
theorem foldl_denoteBounds (ds : List (DomVar (Ext K))) (hnd : (ds.map (·.name)).Nodup)
    (d : DomVar (Ext K)) (hd : d ∈ ds) (hb : d.ty ≠ .bool) (acc : Ext K × Ext K)
    (hacc : acc = (zero, posInf)) :
    (denoteBounds ds).foldl (rangeStep d.name) acc = domainRange d.ty := by
  induction ds generalizing acc with
  | nil => simp at hd
  | cons x xs ih =>
    simp only [List.map_cons, List.nodup_cons] at hnd
    rcases List.mem_cons.mp hd with rfl | hd'
    · -- the entry of `d` itself; the rest is skipped
      have hskip : ∀ b ∈ denoteBounds xs, b.var ≠ d.name := by
        intro b hb' e
        obtain ⟨d', hd', e'⟩ := mem_denoteBounds_var hb'
        exact hnd.1 (List.mem_map.mpr ⟨d', hd', by rw [e', e]⟩)
      unfold denoteBounds
      cases hty : d.ty with
      | bool => exact absurd hty hb
      | int lo hi => simp [List.foldl_cons, rangeStep, foldl_rangeStep_skip _ _ _ hskip, domainRange]
      | real lo hi => simp [List.foldl_cons, rangeStep, foldl_rangeStep_skip _ _ _ hskip, domainRange]
      | nnreal lo hi =>
        by_cases hdef : (Arith.eq lo zero && Arith.eq hi posInf) = true
        · simp only [hdef, Bool.not_true, Bool.false_eq_true, if_false]
          rw [foldl_rangeStep_skip _ _ _ hskip, hacc]
          simp only [Bool.and_eq_true] at hdef
          simp [domainRange, ext_eq_true hdef.1, ext_eq_true hdef.2]
        · simp [hdef, List.foldl_cons, rangeStep, foldl_rangeStep_skip _ _ _ hskip, domainRange]
    · have hne : x.name ≠ d.name := fun e => hnd.1 (List.mem_map.mpr ⟨d, hd', e.symm⟩)
      have key : ∀ (b : LpBound (Ext K)), b.var = x.name → rangeStep d.name acc b = acc := by
        intro b e; simp [rangeStep, e, hne]
      unfold denoteBounds
      split
      · exact ih hnd.2 hd' acc hacc
      · rw [List.foldl_cons, key _ rfl]; exact ih hnd.2 hd' acc hacc
      · split
        · rw [List.foldl_cons, key _ rfl]; exact ih hnd.2 hd' acc hacc
        · exact ih hnd.2 hd' acc hacc
      · rw [List.foldl_cons, key _ rfl]; exact ih hnd.2 hd' acc hacc

end ExtK
end Rooc.Lp
