/-
Bridge C07 → C01, part 1: a generic frame theorem for `BoundsAnalyzer::analyze` (any reflexive, transitive
relation on analyzer states that `tighten_variable`, `mark_infeasible` and the iteration-limit flag respect is
respected by the whole propagation), instantiated with "the box only shrinks, Boolean entries and the
tolerance are never touched".
-/
import Rooc.Proofs.BoundsPropagate
import Rooc.Proofs.BoundsFrame

set_option linter.unusedTactic false
set_option linter.unreachableTactic false
set_option linter.unnecessarySeqFocus false
set_option linter.unusedSimpArgs false
set_option linter.unusedVariables false
set_option linter.unusedSectionVars false

namespace Rooc.LinP
open Rooc Rooc.BoundsProofs Rooc.BoundsSem Arith

section generic
variable {α : Type} [Arith α]

/-- what a relation must satisfy to be carried through the propagation. -/
structure FrameRel (R : Analyzer α → Analyzer α → Prop) : Prop where
  refl : ∀ an, R an an
  trans : ∀ {a b c}, R a b → R b c → R a c
  mark : ∀ an, R an an.markInfeasible
  limit : ∀ an, R an { an with reachedIterationLimit := true }
  tighten : ∀ an name cand, R an (an.tightenVariable name cand).1

variable {R : Analyzer α → Analyzer α → Prop} (hR : FrameRel R)
include hR

theorem tightenVar_frame (s : TState α) (name : String) (cand : Bounds α) :
    R s.an (Analyzer.tightenVar s name cand).an := by
  unfold Analyzer.tightenVar
  dsimp only
  split <;> exact hR.tighten s.an name cand

def FrameOK (R : Analyzer α → Analyzer α → Prop) (e : Exp α) : Prop :=
  ∀ (required : Bounds α) (s : TState α), R s.an (Analyzer.tightenExpression e required s).an

theorem tightenList_frame : ∀ (es : List (Exp α)) (required : Bounds α) (s : TState α),
    (∀ e ∈ es, FrameOK R e) → R s.an (Analyzer.tightenList es required s).an
  | [], _, s, _ => by unfold Analyzer.tightenList; exact hR.refl _
  | e :: es, required, s, ih => by
    unfold Analyzer.tightenList
    exact hR.trans (ih e (List.mem_cons_self ..) required s)
      (tightenList_frame es required _ (fun e' he' => ih e' (List.mem_cons_of_mem _ he')))

theorem tightenExpression_frame : ∀ e : Exp α, FrameOK R e := by
  intro e
  induction e using expInd with
  | num x => intro required s; unfold Analyzer.tightenExpression; split; exact hR.refl _; split; exact hR.mark _; exact hR.refl _
  | var name =>
    intro required s; unfold Analyzer.tightenExpression; split; exact hR.refl _; split; exact hR.mark _
    exact tightenVar_frame hR s name _
  | abs e ih =>
    intro required s; unfold Analyzer.tightenExpression; split; exact hR.refl _; split; exact hR.mark _
    dsimp only; split
    · exact ih _ s
    · exact hR.refl _
  | min es ih =>
    intro required s; unfold Analyzer.tightenExpression; split; exact hR.refl _; split; exact hR.mark _
    dsimp only; split
    · exact tightenList_frame hR es _ s ih
    · exact hR.refl _
  | max es ih =>
    intro required s; unfold Analyzer.tightenExpression; split; exact hR.refl _; split; exact hR.mark _
    dsimp only; split
    · exact tightenList_frame hR es _ s ih
    · exact hR.refl _
  | and es _ => intro required s; unfold Analyzer.tightenExpression; split; exact hR.refl _; split; exact hR.mark _; exact hR.refl _
  | or es _ => intro required s; unfold Analyzer.tightenExpression; split; exact hR.refl _; split; exact hR.mark _; exact hR.refl _
  | not e _ => intro required s; unfold Analyzer.tightenExpression; split; exact hR.refl _; split; exact hR.mark _; exact hR.refl _
  | xor a b _ _ => intro required s; unfold Analyzer.tightenExpression; split; exact hR.refl _; split; exact hR.mark _; exact hR.refl _
  | implies a b _ _ => intro required s; unfold Analyzer.tightenExpression; split; exact hR.refl _; split; exact hR.mark _; exact hR.refl _
  | iff a b _ _ => intro required s; unfold Analyzer.tightenExpression; split; exact hR.refl _; split; exact hR.mark _; exact hR.refl _
  | bin op a b iha ihb =>
    intro required s; unfold Analyzer.tightenExpression; split; exact hR.refl _; split; exact hR.mark _
    cases op
    · dsimp only; exact hR.trans (iha _ s) (ihb _ _)
    · dsimp only; exact hR.trans (iha _ s) (ihb _ _)
    · dsimp only
      split
      · split
        · exact ihb _ s
        · exact hR.refl _
      · split
        · split
          · exact iha _ s
          · exact hR.refl _
        · exact hR.refl _
    · dsimp only
      split
      · split
        · exact iha _ s
        · exact hR.refl _
      · exact hR.refl _
    all_goals exact hR.refl _
  | un op e ih =>
    intro required s; unfold Analyzer.tightenExpression; split; exact hR.refl _; split; exact hR.mark _
    cases op
    · exact ih _ s
    · exact hR.refl _

theorem tightenConstraintExpression_frame (c : Constraint α) (req : Bounds α) (s : TState α) :
    R s.an (Analyzer.tightenConstraintExpression c req s).an := by
  unfold Analyzer.tightenConstraintExpression
  dsimp only
  split
  · exact hR.mark _
  · exact hR.trans (tightenExpression_frame hR _ _ s) (tightenExpression_frame hR _ _ _)

theorem affineLoop_frame (required : Bounds α) : ∀ (cs : List (String × α)) (ts : List (Bounds α)) (pre : Bounds α)
    (s : TState α), R s.an (Analyzer.affineLoop required cs ts pre s).an
  | [], _, _, _ => by simp [Analyzer.affineLoop]; exact hR.refl _
  | _ :: _, [], _, _ => by simp [Analyzer.affineLoop]; exact hR.refl _
  | (n, c) :: cs, t :: ts, pre, s => by
    simp only [Analyzer.affineLoop]
    split
    · exact tightenVar_frame hR s n _
    · exact hR.trans (tightenVar_frame hR s n _) (affineLoop_frame required cs ts _ _)

theorem tightenAffineForm_frame (an : Analyzer α) (f : AffineForm α) (cmp : Cmp) :
    R an (an.tightenAffineForm f cmp).an := by
  unfold Analyzer.tightenAffineForm
  dsimp only
  split
  · exact hR.trans (affineLoop_frame hR _ _ _ _ ⟨an, []⟩) (hR.mark _)
  · exact affineLoop_frame hR _ _ _ _ ⟨an, []⟩

theorem stepConstraint_frame (an : Analyzer α) (c : Constraint α) (f : Option (AffineForm α)) :
    R an (Analyzer.stepConstraint an c f).an := by
  unfold Analyzer.stepConstraint
  cases f with
  | some f => exact tightenAffineForm_frame hR an f c.cmp
  | none => exact tightenConstraintExpression_frame hR c _ ⟨an, []⟩

theorem propagateLoop_frame (cs : List (Constraint α)) (forms : List (Option (AffineForm α)))
    (deps : List (String × List Nat)) : ∀ (fuel : Nat) (an : Analyzer α) (queue : List Nat) (queued : List Bool),
    R an (Analyzer.propagateLoop cs forms deps fuel an queue queued) := by
  intro fuel
  induction fuel with
  | zero =>
    intro an queue queued
    cases queue with
    | nil => simp [Analyzer.propagateLoop]; exact hR.refl _
    | cons _ _ => simp [Analyzer.propagateLoop]; exact hR.limit _
  | succ fuel ih =>
    intro an queue queued
    cases queue with
    | nil => simp [Analyzer.propagateLoop]; exact hR.refl _
    | cons index queue =>
      simp only [Analyzer.propagateLoop]
      split
      · split
        · exact stepConstraint_frame hR _ _ _
        · exact hR.trans (stepConstraint_frame hR _ _ _) (ih _ _ _)
      · exact ih _ _ _

theorem analyze_frame (domain : List (DomVar α)) (cs : List (Constraint α)) (tol : α) (maxSteps : Nat) :
    R (Analyzer.fromDomain domain tol) (Analyzer.analyze domain cs tol maxSteps) := by
  unfold Analyzer.analyze Analyzer.propagate
  exact propagateLoop_frame hR _ _ _ _ _ _ _

end generic
end Rooc.LinP
