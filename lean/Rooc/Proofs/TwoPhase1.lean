/-
The tail of `into_tableau_two_phase`, part 1: at a phase-1 optimum of value 0 every basic artificial variable
sits at 0, and the drive-out loop is a sequence of (degenerate) pivots on structural columns.
-/
import Rooc.Proofs.Bland6
namespace Rooc
namespace TwoPhase
variable {K : Type} [Field K] [LinearOrder K] [IsStrictOrderedRing K]
attribute [local instance] exactArith
open Tableau TabSem PivotLemmas BasicSol Phase1

/-! ### artificial variables at a zero phase-1 optimum -/

theorem all_zero_of_sum_zero : ∀ (l : List K), (∀ v ∈ l, 0 ≤ v) → l.sum = 0 → ∀ v ∈ l, v = 0
  | [], _, _, v, hv => by simp at hv
  | a :: as, hn, hs, v, hv => by
    have ha := hn a (by simp)
    have has := Optimal.sum_nonneg' as (fun y hy => hn y (List.mem_cons_of_mem _ hy))
    simp only [List.sum_cons] at hs
    rcases List.mem_cons.1 hv with rfl | hv
    · linarith
    · exact all_zero_of_sum_zero as (fun y hy => hn y (List.mem_cons_of_mem _ hy)) (by linarith) v hv

theorem dot_ones : ∀ (m : Nat) (x : List K), x.length = m → dot (List.replicate m (1:K)) x = x.sum
  | 0, [], _ => by simp
  | m+1, x :: xs, h => by simp [List.replicate_succ, dot_ones m xs (by simpa using h)]
  | 0, _ :: _, h => by simp at h
  | _+1, [], h => by simp at h

/-- a non-negative vector on which the phase-1 objective vanishes has all artificial components zero. -/
theorem art_components_zero {n m : Nat} (x : List K) (hl : x.length = n + m) (hnn : ∀ j, 0 ≤ nth x j)
    (h0 : dot (phase1Cost n m) x = 0) (k : Nat) (hk : k < m) : nth x (k + n) = 0 := by
  have hx : x = x.take n ++ x.drop n := (List.take_append_drop n x).symm
  have htl : (x.take n).length = n := by simp; omega
  have hdl : (x.drop n).length = m := by simp; omega
  rw [hx, phase1Cost, dot_append _ _ _ _ (by simp [htl]), dot_zeros_left, dot_ones m _ hdl, zero_add] at h0
  have hmem : nth x (k + n) ∈ x.drop n := by
    have : nth x (k + n) = nth (x.drop n) k := by
      simp [nth, List.getD_eq_getElem?_getD, Nat.add_comm]
    rw [this]; exact Optimal.mem_of_nth (by rw [hdl]; exact hk)
  refine all_zero_of_sum_zero (x.drop n) ?_ h0 _ hmem
  intro v hv
  obtain ⟨j, _, rfl⟩ := Optimal.exists_nth_of_mem hv
  have : nth (x.drop n) j = nth x (n + j) := by simp [nth, List.getD_eq_getElem?_getD]
  rw [this]; exact hnn _

/-- **at a feasible phase-1 tableau of value 0, every row whose basic variable is artificial has `b = 0`.** -/
theorem artificial_rows_zero {P : Tab K} {m n : Nat} (hC : Canon P m (n + m)) (hO : ObjInv P (phase1Cost n m))
    (hF : Feasible P) (hv : P.value = 0) (r : Nat) (hr : r < m) (hart : n ≤ P.basis.getD r 0) : nth P.b r = 0 := by
  have hobj := basicSolution_objective hC hO
  rw [hv, neg_zero] at hobj
  have hnn := basicSolution_nonneg hC hF
  have hin := hC.inRange r (by rw [hC.rect.rows]; exact hr)
  rw [hC.rect.costs] at hin
  have := art_components_zero (basicSolution P) (by rw [basicSolution_length, hC.rect.costs]) hnn hobj
    (P.basis.getD r 0 - n) (by omega)
  rw [Nat.sub_add_cancel hart] at this
  rw [← Bland.val_basic hC hr]; exact this

/-! ### one drive-out step is a pivot -/

theorem rowSubMul_zero : ∀ (r t : List K), rowSubMul 0 r t = r
  | [], t => by cases t <;> simp [rowSubMul]
  | x :: xs, [] => by simp [rowSubMul]
  | x :: xs, p :: ps => by simp [rowSubMul, rowSubMul_zero xs ps]

theorem rowSubMul_rowDiv (f p : K) : ∀ (r t : List K), rowSubMul f r (rowDiv p t) = rowSubMul (f / p) r t
  | [], t => by cases t <;> simp [rowSubMul, rowDiv]
  | x :: xs, [] => by simp [rowSubMul, rowDiv]
  | x :: xs, q :: qs => by
    have ih := rowSubMul_rowDiv f p xs qs
    simp only [rowDiv, List.map_cons, rowSubMul, ExactK.sub_eq, ExactK.mul_eq, ExactK.div_eq] at ih ⊢
    rw [ih]; congr 1; ring

/-- the matrix, right-hand side and basis after one drive-out pivot are those of `pivot`. -/
theorem driveStep_eq (X : Tab K) (r col : Nat) :
    (X.a.mapIdx fun i ri =>
        if i = r then rowDiv (nth (row X.a r) col) (row X.a r) else
          if Arith.eq (nth ri col) Arith.zero then ri else rowSubMul (nth ri col) ri (rowDiv (nth (row X.a r) col) (row X.a r)))
      = (pivot X r col).a ∧
    (X.b.mapIdx fun i bi =>
        if i = r then Arith.div (nth X.b r) (nth (row X.a r) col) else
          if Arith.eq (nth (row X.a i) col) Arith.zero then bi
          else Arith.sub bi (Arith.mul (nth (row X.a i) col) (Arith.div (nth X.b r) (nth (row X.a r) col))))
      = (pivot X r col).b ∧
    X.basis.set r col = (pivot X r col).basis := by
  refine ⟨?_, ?_, by simp [pivot]⟩
  · simp only [pivot]
    apply List.ext_getElem?
    intro i
    simp only [List.getElem?_mapIdx]
    cases hi : X.a[i]? with
    | none => simp
    | some ri =>
      simp only [Option.map_some, Option.some.injEq]
      by_cases e : i = r
      · subst e
        have : row X.a i = ri := by simp [row, List.getD_eq_getElem?_getD, hi]
        simp [this]
      · simp only [e, if_false, ExactK.eq_eq, ExactK.zero_eq, decide_eq_true_eq]
        by_cases h0 : nth ri col = 0
        · simp [h0, rowSubMul_zero]
        · simp only [h0, if_false, rowSubMul_rowDiv]; rfl
  · simp only [pivot]
    apply List.ext_getElem?
    intro i
    simp only [List.getElem?_mapIdx]
    cases hi : X.b[i]? with
    | none => simp
    | some bi =>
      simp only [Option.map_some, Option.some.injEq]
      by_cases e : i = r
      · subst e
        have : nth X.b i = bi := by simp [nth, List.getD_eq_getElem?_getD, hi]
        simp [this]
      · simp only [e, if_false, ExactK.eq_eq, ExactK.zero_eq, decide_eq_true_eq, ExactK.sub_eq, ExactK.mul_eq, ExactK.div_eq]
        by_cases h0 : nth (row X.a i) col = 0
        · simp [h0]
        · simp only [h0, if_false]; ring

end TwoPhase
end Rooc
