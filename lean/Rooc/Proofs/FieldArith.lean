/-
The exact-arithmetic instantiation of the number interface at a linearly ordered field `K` itself
(DESIGN §2.1: theorems are stated over `Ext K` / `K`).  `add sub mul div neg abs lt le eq fmax fmin ofInt`
are the field's own operations; `isNaN = false`, `isFinite = true`.  The remaining members of `Arith`
(`posInf negInf nan floor ceil toI32 toI64`) have no counterpart in a bare field and are given dummy
values — they are NOT used by any function of `Rooc/Tableau.lean`, the only model proved at this
instance (the functions of `Standardize.lean`, which compare against `±inf`, are proved at `Ext K`).
-/
import Rooc.Num
import Rooc.Tol
import Mathlib.Algebra.Order.Field.Basic
import Mathlib.Algebra.Order.AbsoluteValue.Basic
import Mathlib.Tactic.Linarith
import Mathlib.Tactic.Ring
import Mathlib.Tactic.FieldSimp
import Mathlib.Tactic.LinearCombination

namespace Rooc
open Classical in
/-- exact arithmetic of an ordered field as an `Arith` instance (see the header for the dummy members). -/
@[reducible] noncomputable def exactArith (K : Type) [Field K] [LinearOrder K] [IsStrictOrderedRing K] : Arith K where
  ofInt i := (i : K)
  posInf := 0
  negInf := 0
  nan := 0
  add := (· + ·)
  sub := (· - ·)
  mul := (· * ·)
  div := (· / ·)
  neg := fun a => -a
  abs := fun a => |a|
  floor := id
  ceil := id
  fmax := max
  fmin := min
  lt a b := decide (a < b)
  le a b := decide (a ≤ b)
  eq a b := decide (a = b)
  isNaN _ := false
  isFinite _ := true
  toI32 _ := 0
  toI64 _ := 0

namespace ExactK
variable {K : Type} [Field K] [LinearOrder K] [IsStrictOrderedRing K]
attribute [local instance] exactArith

@[simp] theorem zero_eq : (Arith.zero : K) = 0 := by simp [Arith.zero, Arith.ofInt]
@[simp] theorem one_eq : (Arith.one : K) = 1 := by simp [Arith.one, Arith.ofInt]
@[simp] theorem ofInt_eq (i : Int) : (Arith.ofInt i : K) = (i : K) := rfl
@[simp] theorem add_eq (a b : K) : Arith.add a b = a + b := rfl
@[simp] theorem sub_eq (a b : K) : Arith.sub a b = a - b := rfl
@[simp] theorem mul_eq (a b : K) : Arith.mul a b = a * b := rfl
@[simp] theorem div_eq (a b : K) : Arith.div a b = a / b := rfl
@[simp] theorem neg_eq (a : K) : Arith.neg a = -a := rfl
@[simp] theorem abs_eq (a : K) : Arith.abs a = |a| := rfl
@[simp] theorem lt_eq (a b : K) : Arith.lt a b = decide (a < b) := rfl
@[simp] theorem le_eq (a b : K) : Arith.le a b = decide (a ≤ b) := rfl
@[simp] theorem eq_eq (a b : K) : Arith.eq a b = decide (a = b) := rfl

/-! tolerance predicates at the exact instance -/
theorem feq_iff (tol a b : K) : Tol.feq tol a b = true ↔ |a - b| < tol := by simp [Tol.feq]
theorem flt_iff (tol a b : K) : Tol.flt tol a b = true ↔ a < b ∧ ¬ |a - b| < tol := by simp [Tol.flt, Tol.feq]
theorem fgt_iff (tol a b : K) : Tol.fgt tol a b = true ↔ b < a ∧ ¬ |a - b| < tol := by simp [Tol.fgt, Tol.feq]
theorem fge_iff (tol a b : K) : Tol.fge tol a b = true ↔ b < a ∨ |a - b| < tol := by simp [Tol.fge, Tol.feq]
theorem fne_iff (tol a b : K) : Tol.fne tol a b = true ↔ ¬ |a - b| < tol := by simp [Tol.fne, Tol.feq]

theorem fgt_zero_pos {tol a : K} (h : Tol.fgt tol a 0 = true) : 0 < a := ((fgt_iff tol a 0).1 h).1
theorem fgt_zero_ge {tol a : K} (h : Tol.fgt tol a 0 = true) : tol ≤ a := by
  have h' := (fgt_iff tol a 0).1 h
  have : ¬ |a| < tol := by simpa using h'.2
  have ha : |a| = a := abs_of_pos h'.1
  rw [ha] at this; exact not_lt.1 this
end ExactK
end Rooc
