/-
Graph literals: the token rendering of `Display for Graph` (`graphToks`, Rooc/Syntax/FormatToks.lean) is read back
by the parser model as the graph it renders — `graphLeaf`, then the whole `leaf` (the block-function reading of
`Graph { … }` is tried first and fails at the first `-> [ name`), then `parseExp`.
-/
import Rooc.Proofs.Group
import Rooc.Syntax.FormatToks
namespace Rooc.Syntax.Proofs
open Rooc Rooc.Syntax

/-- well-formed edges: destinations are `simple_variable`s -/
def EdgesOK (es : List GEdge) : Prop := ∀ e ∈ es, isSimpleWord e.to = true

theorem edgeToks_len (e : GEdge) : 1 ≤ (edgeToks e).length := by simp [edgeToks]

theorem edgesToks_len : ∀ (es : List GEdge), es.length ≤ (edgesToks es).length
  | [] => by simp
  | [e] => by simpa [edgesToks] using edgeToks_len e
  | e :: e2 :: es => by
    have := edgesToks_len (e2 :: es)
    have := edgeToks_len e
    simp [edgesToks] at *; omega

/-- one edge behind which the list goes on with `next` (a `,` or the `]`) -/
theorem graphEdges_step (f : Nat) (e : GEdge) (he : isSimpleWord e.to = true) (next : List Tok) (acc : List GEdge)
    (hn : (∃ r, next = .comma :: r) ∨ (∃ r, next = .rbrack :: r)) :
    graphEdges (f+1) (edgeToks e ++ next) acc =
      (match next with
       | .comma :: r2 => graphEdges f (skipNl r2) (acc ++ [e])
       | .rbrack :: r2 => some (acc ++ [e], r2)
       | _ => none) := by
  obtain ⟨to, cost⟩ := e
  simp only at he
  cases cost with
  | none =>
    rcases hn with ⟨r, rfl⟩ | ⟨r, rfl⟩ <;> simp [edgeToks, graphEdges, he]
  | some c =>
    obtain ⟨neg, s⟩ := c
    rcases hn with ⟨r, rfl⟩ | ⟨r, rfl⟩ <;> cases neg <;> by_cases hd : s.toList.all isDigit = true <;>
      simp [edgeToks, graphEdges, he, costNumTok, hd]

theorem graphEdges_render : ∀ (es : List GEdge), es ≠ [] → EdgesOK es → ∀ (f : Nat), es.length ≤ f →
    ∀ (rest : List Tok) (acc : List GEdge), graphEdges f (edgesToks es ++ .rbrack :: rest) acc = some (acc ++ es, rest)
  | [], h, _, _, _, _, _ => absurd rfl h
  | [e], _, hok, f, hf, rest, acc => by
    obtain ⟨f', rfl⟩ : ∃ f', f = f' + 1 := ⟨f - 1, by simp at hf; omega⟩
    have := graphEdges_step f' e (hok e List.mem_cons_self) (.rbrack :: rest) acc (Or.inr ⟨_, rfl⟩)
    simpa [edgesToks] using this
  | e :: e2 :: es, _, hok, f, hf, rest, acc => by
    obtain ⟨f', rfl⟩ : ∃ f', f = f' + 1 := ⟨f - 1, by simp at hf; omega⟩
    have hstep := graphEdges_step f' e (hok e List.mem_cons_self) (.comma :: (edgesToks (e2 :: es) ++ .rbrack :: rest)) acc (Or.inl ⟨_, rfl⟩)
    have ih := graphEdges_render (e2 :: es) (by simp) (fun x hx => hok x (List.mem_cons_of_mem _ hx)) f' (by simp at hf ⊢; omega) rest (acc ++ [e])
    have hsk : skipNl (edgesToks (e2 :: es) ++ .rbrack :: rest) = edgesToks (e2 :: es) ++ .rbrack :: rest := by
      cases es <;> simp [edgesToks, edgeToks, skipNl]
    simp only [edgesToks, List.append_assoc, List.cons_append] at hstep ⊢
    rw [hstep]
    simp only [hsk, ih]
    simp

/-- well-formed node: names are `simple_variable`s -/
def NodeOK (n : GNode) : Prop := isSimpleWord n.name = true ∧ EdgesOK n.edges

theorem graphNode_render (n : GNode) (h : NodeOK n) (rest : List Tok) (hr : ∀ r1, rest ≠ .arrow :: .lbrack :: r1) :
    graphNode (nodeToks n ++ rest) = some (n, rest) := by
  obtain ⟨name, edges⟩ := n
  obtain ⟨hn, he⟩ := h
  simp only at hn he
  cases edges with
  | nil =>
    simp only [nodeToks, List.cons_append, List.nil_append, graphNode, hn, Bool.not_true, Bool.false_eq_true, if_false]
    first | done | (split <;> first | (rename_i r1; exact absurd rfl (hr r1)) | rfl)
  | cons e es =>
    have hlen := edgesToks_len (e :: es)
    have := graphEdges_render (e :: es) (by simp) he ((edgesToks (e :: es)).length + (rest.length + 1) + 1)
      (by simp at hlen ⊢; omega) rest []
    simp only [List.nil_append] at this
    simp [nodeToks, graphNode, hn, this]

theorem nodeToks_head (n : GNode) : ∃ tl, nodeToks n = .word n.name :: tl := by
  unfold nodeToks; split <;> exact ⟨_, rfl⟩

theorem moreNodesToks_len : ∀ (ns : List GNode), ns.length ≤ (moreNodesToks ns).length
  | [] => by simp
  | n :: ns => by have := moreNodesToks_len ns; simp [moreNodesToks]; omega

theorem graphTail_render : ∀ (ns : List GNode), (∀ n ∈ ns, NodeOK n) → ∀ (f : Nat), ns.length + 1 ≤ f →
    ∀ (rest : List Tok) (acc : List GNode),
      graphTail f (moreNodesToks ns ++ .nl :: .rbrace :: rest) acc = some (acc ++ ns, rest)
  | [], _, f, hf, rest, acc => by
    obtain ⟨f', rfl⟩ : ∃ f', f = f' + 1 := ⟨f - 1, by omega⟩
    simp [moreNodesToks, graphTail, skipNl]
  | n :: ns, hok, f, hf, rest, acc => by
    obtain ⟨f', rfl⟩ : ∃ f', f = f' + 1 := ⟨f - 1, by omega⟩
    obtain ⟨tl, htl⟩ := nodeToks_head n
    have hnext : ∀ r1, moreNodesToks ns ++ .nl :: .rbrace :: rest ≠ .arrow :: .lbrack :: r1 := by
      intro r1; cases ns <;> simp [moreNodesToks]
    have hnode := graphNode_render n (hok n List.mem_cons_self) (moreNodesToks ns ++ .nl :: .rbrace :: rest) hnext
    have ih := graphTail_render ns (fun x hx => hok x (List.mem_cons_of_mem _ hx)) f' (by simp at hf ⊢; omega) rest (acc ++ [n])
    have hsk : skipNl (.nl :: (nodeToks n ++ (moreNodesToks ns ++ .nl :: .rbrace :: rest)))
        = nodeToks n ++ (moreNodesToks ns ++ .nl :: .rbrace :: rest) := by
      rw [htl]; simp [skipNl]
    simp only [moreNodesToks, List.cons_append, List.append_assoc, graphTail, hsk, hnode, ih]
    simp

/-- **the rendering of a graph is read back as its nodes** -/
theorem graphNodes_render (ns : List GNode) (hok : ∀ n ∈ ns, NodeOK n) (rest : List Tok) :
    graphNodes (graphBodyToks ns ++ rest) = some (ns, rest) := by
  cases ns with
  | nil => simp [graphBodyToks, graphNodes, skipNl, graphNode, graphTail]
  | cons n ns =>
    obtain ⟨tl, htl⟩ := nodeToks_head n
    have hnext : ∀ r1, moreNodesToks ns ++ .nl :: .rbrace :: rest ≠ .arrow :: .lbrack :: r1 := by
      intro r1; cases ns <;> simp [moreNodesToks]
    have hnode := graphNode_render n (hok n List.mem_cons_self) (moreNodesToks ns ++ .nl :: .rbrace :: rest) hnext
    have hlen := moreNodesToks_len ns
    have htail := graphTail_render ns (fun x hx => hok x (List.mem_cons_of_mem _ hx))
      ((moreNodesToks ns ++ .nl :: .rbrace :: rest).length + 1) (by simp; omega) rest [n]
    have hsk : skipNl (.nl :: (nodeToks n ++ (moreNodesToks ns ++ .nl :: .rbrace :: rest)))
        = nodeToks n ++ (moreNodesToks ns ++ .nl :: .rbrace :: rest) := by
      rw [htl]; simp [skipNl]
    simp only [graphBodyToks, List.cons_append, List.append_assoc, List.nil_append, graphNodes, hsk, hnode, htail]

/-- the graphs of the theorem: `simple_variable` names, no parallel edges, and the FIRST node has an edge whose
destination is no boolean word and a name that is no keyword — then the block-function reading of `Graph { … }`, which
the PEG tries first, fails at that node's `-> [ name` (a graph whose nodes are all expressions — isolated nodes,
`A -> [true]` — IS read as a block function and refused, finding C11-isolated-nodes-graph) -/
structure GraphOK (ns : List GNode) : Prop where
  nodes : ∀ n ∈ ns, NodeOK n
  nodup : ns.any (fun n => hasDupEdge n.edges) = false
  first : ∃ n e es tl, ns = ⟨n, e :: es⟩ :: tl ∧ isKeyword n = false ∧ e.to ≠ "true" ∧ e.to ≠ "false"

theorem graphLeaf_render {ns : List GNode} (h : GraphOK ns) (rest : List Tok) :
    graphLeaf (graphBodyToks ns ++ rest) = some (.prim (graphText ns), rest) := by
  simp [graphLeaf, graphNodes_render ns h.nodes rest, h.nodup]

/-- an array literal cannot start with a name -/
theorem arrayLeaf_word_reject (x : String) (Y : List Tok) (h1 : x ≠ "true") (h2 : x ≠ "false") :
    arrayLeaf (.word x :: Y) = .error .reject := by
  simp [arrayLeaf, skipNl, arrayEntries, h1, h2]

/-- the expression reading of `name -> [ dest …` stops before the `->` -/
theorem parseExp_node_stops (n x : String) (Y : List Tok) (hk : isKeyword n = false) (h1 : x ≠ "true") (h2 : x ≠ "false")
    (f : Nat) : parseExp (f+6) (.word n :: .arrow :: .lbrack :: .word x :: Y) = .ok (.var n, .arrow :: .lbrack :: .word x :: Y) := by
  have hnot : n ≠ "not" := by intro e; subst e; exact absurd hk (by decide)
  have hleaf : leaf (f+4) (.word n :: .arrow :: .lbrack :: .word x :: Y) = .ok (.var n, .arrow :: .lbrack :: .word x :: Y) := by
    rw [leaf_word (f+2) n _ (by intro tl; simp)]
    have hb := not_boolean_of_not_keyword hk
    simp only [wordLeaf, hb, hk]
    rfl
  have hloop : collectLoop (f+4) (.arrow :: .lbrack :: .word x :: Y) [.leaf (.var n)]
      = .ok ([.leaf (.var n)], .arrow :: .lbrack :: .word x :: Y) := by
    obtain ⟨rule, hb⟩ : ∃ rule, binRule .arrow = some rule :=
      ⟨_, binRule_of_mem (o := .implies) (tk := .arrow) (by simp [binToks])⟩
    rw [collectLoop_unfold hb (by intro tl; simp)]
    have hou : optUnary (.lbrack :: .word x :: Y) = ([], .lbrack :: .word x :: Y) :=
      optUnary_plain (by simp [unRule, ruleOfTok, Tok.opSpelling]) _
    simp only [hou]
    have : leaf (f+3) (.lbrack :: .word x :: Y) = .error .reject := by
      simp only [leaf]; exact arrayLeaf_word_reject x Y h1 h2
    simp [this]
  have hcol : collect (f+5) (.word n :: .arrow :: .lbrack :: .word x :: Y) = .ok ([.leaf (.var n)], .arrow :: .lbrack :: .word x :: Y) := by
    rw [collect_eq_stepC]
    have hou := optUnary_word hnot (.arrow :: .lbrack :: .word x :: Y)
    simp only [stepC, hou, hleaf, List.nil_append, hloop]
  exact parseExp_of_collect hcol (pratt_roundtrip (IR.leaf _))

/-- **a graph literal is read back as the graph it renders** (the `leaf` of the parser model on `Graph { … }`) -/
theorem leaf_graph {ns : List GNode} (h : GraphOK ns) (rest : List Tok) (f : Nat) :
    leaf (f+9) (graphToks ns ++ rest) = .ok (.prim (graphText ns), rest) := by
  obtain ⟨n, e, es, tl, rfl, hk, h1, h2⟩ := h.first
  have hgl := graphLeaf_render h rest
  -- the shape of the tokens behind `Graph {`
  have hshape : ∃ Y, graphBodyToks (⟨n, e :: es⟩ :: tl) ++ rest = .nl :: .word n :: .arrow :: .lbrack :: .word e.to :: Y := by
    have : ∃ Z, edgesToks (e :: es) = .word e.to :: Z := by
      cases es <;> simp [edgesToks, edgeToks]
    obtain ⟨Z, hZ⟩ := this
    exact ⟨Z ++ .rbrack :: (moreNodesToks tl ++ .nl :: .rbrace :: rest), by simp [graphBodyToks, nodeToks, hZ]⟩
  obtain ⟨Y, hY⟩ := hshape
  have hfn : fnNameTail (.lbrace :: (graphBodyToks (⟨n, e :: es⟩ :: tl) ++ rest)) "Graph"
      = ("Graph", .lbrace :: (graphBodyToks (⟨n, e :: es⟩ :: tl) ++ rest)) := fnNameTail_stop _ _ (by intro tl; simp)
  have hexp : expList (f+8) (skipNl (graphBodyToks (⟨n, e :: es⟩ :: tl) ++ rest)) []
      = .ok ([.var n], .arrow :: .lbrack :: .word e.to :: Y) := by
    rw [hY]
    simp only [skipNl, expList, parseExp_node_stops n e.to Y hk h1 h2 (f+1), List.nil_append]
  have hfun : isFunctionName "Graph" = true := by decide
  have hlow : lowerWord "Graph" = "graph" := by decide
  simp only [graphToks, List.cons_append, leaf, hfun, if_true, hfn, hexp, skipNl]
  simp only [wordRest, hlow, beq_self_eq_true, if_true, hgl]

theorem main1_graph {ns : List GNode} (h : GraphOK ns) : Main1 (graphToks ns) [.leaf (.prim (graphText ns))] :=
  main1_of_leaf (by simp [graphToks]) (fun rest _ =>
    ⟨by simpa [graphToks] using optUnary_word (w := "Graph") (by decide) (.lbrace :: (graphBodyToks ns ++ rest)),
     fun f hlen => by
      obtain ⟨f', rfl⟩ : ∃ f', f = f' + 9 := ⟨f - 9, by simp [graphToks] at hlen; omega⟩
      exact leaf_graph h rest f'⟩)

/-- **`parse (tokens of a graph literal) = that graph`**, as a whole expression -/
theorem parseExp_graph {ns : List GNode} (h : GraphOK ns) {rest : List Tok} (hc : Closed rest) (f : Nat)
    (hf : 6 * ((graphToks ns).length + rest.length) + 10 ≤ f) :
    parseExp f (graphToks ns ++ rest) = .ok (.prim (graphText ns), rest) :=
  parseExp_of_main (main1_graph h) (IR.leaf _) hc f hf

theorem graphOKb_ok {ns : List GNode} (h : graphOKb ns = true) : GraphOK ns := by
  simp only [graphOKb, Bool.and_eq_true, List.all_eq_true, Bool.not_eq_true'] at h
  obtain ⟨⟨hn, hd⟩, hf⟩ := h
  refine ⟨fun n hn' => ⟨(hn n hn').1, fun e he => ((hn n hn').2 e he).1⟩, hd, ?_⟩
  match ns, hf with
  | ⟨n, e :: es⟩ :: tl, hf =>
    simp only [Bool.and_eq_true, Bool.not_eq_true', bne_iff_ne, ne_eq] at hf
    exact ⟨n, e, es, tl, rfl, hf.1.1, hf.1.2, hf.2⟩

end Rooc.Syntax.Proofs
