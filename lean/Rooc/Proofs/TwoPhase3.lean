/-
The tail of `into_tableau_two_phase`, part 3: restoring the original costs over the final basis; padding lemmas.
-/
import Rooc.Proofs.TwoPhase2
namespace Rooc
namespace TwoPhase
variable {K : Type} [Field K] [LinearOrder K] [IsStrictOrderedRing K]
attribute [local instance] exactArith
open Tableau TabSem PivotLemmas BasicSol Phase1

/-- one step of `restoreCosts`. -/
noncomputable def rcStep (a : List (List K)) (b : List K) (st : List K × K) (vr : Nat × Nat) : List K × K :=
  (rowSubMul (nth st.1 vr.1) st.1 (row a vr.2), st.2 - nth st.1 vr.1 * nth b vr.2)

theorem restoreCosts_eq (c : List K) (a : List (List K)) (b : List K) (basis : List Nat) :
    restoreCosts c a b basis = basis.zipIdx.foldl (rcStep a b) (c, 0) := by
  unfold restoreCosts rcStep
  simp only [ExactK.zero_eq, ExactK.sub_eq, ExactK.mul_eq]

/-- invariant of `restoreCosts` after the rows `< k` have been used. -/
structure RC (X : Tab K) (m n : Nat) (c0 : List K) (k : Nat) (st : List K × K) : Prop where
  len : st.1.length = n
  zero : ∀ j, j < k → j < m → nth st.1 (X.basis.getD j 0) = 0
  obj : ∀ x, x.length = n → Sol X x → dot c0 x = dot st.1 x - st.2

theorem rc_fold {X : Tab K} {m n : Nat} (hR : Rect X m n) (hU : UnitCols X) {c0 : List K} :
    ∀ (l : List Nat) (k : Nat) (st : List K × K), k + l.length = m →
      (∀ p, (hp : p < l.length) → l[p] = X.basis.getD (k + p) 0) → RC X m n c0 k st →
      RC X m n c0 m ((l.zipIdx k).foldl (rcStep X.a X.b) st)
  | [], k, st, hk, _, h => by
    have : k = m := by simpa using hk
    subst this; simpa using h
  | v :: l, k, st, hk, hl, h => by
    have hkm : k < m := by simp only [List.length_cons] at hk; omega
    have hv : v = X.basis.getD k 0 := by
      have := hl 0 (by simp)
      simpa only [List.getElem_cons_zero, Nat.add_zero] using this
    simp only [List.zipIdx_cons, List.foldl_cons]
    apply rc_fold hR hU l (k+1) _ (by simp only [List.length_cons] at hk; omega)
      (fun p hp => by have := hl (p+1) (by simpa using hp); simpa [Nat.add_assoc, Nat.add_comm 1 p] using this)
    have hw : (row X.a k).length = n := hR.width k hkm
    have hka : k < X.a.length := by rw [hR.rows]; exact hkm
    refine ⟨?_, ?_, ?_⟩
    · simp only [rcStep]; rw [length_rowSubMul _ _ _ (by rw [h.len, hw]), h.len]
    · intro j hj hjm
      simp only [rcStep]
      rw [nth_rowSubMul _ _ _ _ (by rw [h.len, hw])]
      have hja : j < X.a.length := by rw [hR.rows]; exact hjm
      by_cases e : j = k
      · subst e
        have h1 := hU j j hja hja
        simp only [if_true, ExactK.one_eq] at h1
        rw [hv, h1]; ring
      · have h1 := hU k j hka hja
        have hkj : ¬ k = j := fun e' => e e'.symm
        simp only [hkj, if_false, ExactK.zero_eq] at h1
        rw [h.zero j (by omega) hjm, h1]; ring
    · intro x hx hS
      simp only [rcStep]
      rw [dot_rowSubMul _ _ _ _ (by rw [h.len, hw]), hS k hka, h.obj x hx hS]; ring

/-- **`restoreCosts`**: over a rectangular tableau with unit basic columns it produces a cost row of the right
length, zero on the basic columns, that together with the value represents `c0` on the solution set. -/
theorem restoreCosts_spec {X : Tab K} {m n : Nat} (hR : Rect X m n) (hU : UnitCols X) (c0 : List K) (hc : c0.length = n) :
    RC X m n c0 m (restoreCosts c0 X.a X.b X.basis) := by
  rw [restoreCosts_eq]
  exact rc_fold hR hU X.basis 0 (c0, 0) (by rw [Nat.zero_add, hR.basis])
    (fun p hp => by simp [List.getD_eq_getElem?_getD, hp])
    ⟨hc, fun j hj => absurd hj (Nat.not_lt_zero _), fun x _ _ => by simp⟩

/-! ### padding / truncating a point to `n` coordinates -/

theorem dot_resize : ∀ (r x : List K) (n : Nat), r.length ≤ n → dot r (Standardize.resize x n 0) = dot r x
  | [], x, n, _ => by simp
  | a :: as, [], n, h => by
    simp only [Standardize.resize, List.take_nil, List.length_nil, Nat.sub_zero, List.nil_append, dot_nil_right]
    exact dot_replicate_zero _ _
  | a :: as, x :: xs, 0, h => by simp at h
  | a :: as, x :: xs, n+1, h => by
    have ih := dot_resize as xs n (by simpa using h)
    simp only [Standardize.resize, List.take_succ_cons, List.length_cons, Nat.add_sub_add_right, List.cons_append, dot_cons] at ih ⊢
    rw [ih]

theorem resize_length (x : List K) (n : Nat) : (Standardize.resize x n (0:K)).length = n := by
  simp [Standardize.resize]; omega

theorem sol_resize {X : Tab K} {m n : Nat} (hrows : X.a.length = m) (hw : ∀ i, i < m → (row X.a i).length = n) (x : List K) :
    Sol X (Standardize.resize x n 0) ↔ Sol X x := by
  unfold Sol
  constructor <;> intro h i hi
  · rw [← dot_resize _ x n (by rw [hw i (hrows ▸ hi)])]; exact h i hi
  · rw [dot_resize _ x n (by rw [hw i (hrows ▸ hi)])]; exact h i hi

/-- a row evaluated at `x ++ 0…0` only sees its first `n` entries. -/
theorem dot_append_zeros (r x : List K) (n k : Nat) (hx : x.length = n) (hr : n ≤ r.length) :
    dot r (x ++ List.replicate k (0:K)) = dot (r.take n) x := by
  conv_lhs => rw [← List.take_append_drop n r]
  rw [dot_append _ _ _ _ (by simp [hx]; omega), dot_replicate_zero]; ring

end TwoPhase
end Rooc
