/-
The end-to-end example of the C03 ∘ C05 composition (`K = ℚ`): the SOURCE model `exSrc` = `max x s.t. c: x ≤ 2`,
`x` NonNegativeReal, is compiled by the whole pipeline (every tolerance, step limit 0; the port is run symbolically,
equation lemmas + `simp`, as in `Proofs/LinExamples.lean`) to the linear model `ComposeSem.exMax`, whose standard form,
start tableau and simplex run are in `Proofs/ComposeSemExamples.lean`.
-/
import Rooc.Proofs.Compose
import Rooc.Proofs.ComposeSemExamples

set_option linter.unusedSectionVars false
set_option linter.unusedSimpArgs false
set_option linter.unusedVariables false

namespace Rooc.ComposeSem
open Rooc Rooc.Lin Rooc.Sem Rooc.LinP Rooc.Exp ComposeSimplex
attribute [local instance 2000] fieldExact

/-- `max x  s.t.  c: x ≤ 2`, `x` NonNegativeReal. -/
def exSrc : Model (Ext ℚ) :=
  { optType := .max, objective := .var "x",
    constraints := [{ name := "c", lhs := .var "x", cmp := .le, rhs := .num (.fin 2), isAssert := false }],
    domain := [{ name := "x", ty := .nnreal (.fin 0) .pinf, usage := 1 }] }

def exRow2 : MidRow (Ext ℚ) := { name := "c", lhs := [("x", Ext.fin 1)], rhs := Ext.fin 2, cmp := .le }

theorem ex_sf_num (s : St (Ext ℚ)) : simplifyFlat (.num (.fin 2) : Exp (Ext ℚ)) s = .ok (.num (.fin 2), s) := by
  simp [simplifyFlat, normalizeExp, flattenFuel, flattenF, simplify, pure_ok]

theorem ex_emit (s : St (Ext ℚ)) :
    emitConstraint (.var "x" : Exp (Ext ℚ)) .le (.num (.fin 2)) "c" s
      = .ok ((), { s with rows := s.rows ++ [exRow2] }) := by
  rw [emitConstraint_ok]
  refine ⟨.bin .sub (.var "x") (.num (.fin 2)), ⟨[("x", Ext.fin 1)], Ext.fin (-2)⟩, s, ?_, ?_, ?_⟩
  · simp [normalizeExp, flattenFuel, flattenF, simplify, subCore]
  · simp [linExp, bind_ok, pure_ok]
    simp [Ctx.mergeSub, fromVar_eq, Ctx.addVar, Ctx.addRhs, Ctx.fromRhs, Ctx.new, Arith.add, Arith.neg, Ext.add, Ext.neg]
  · simp [exRow2]

theorem ex_proc (s : St (Ext ℚ)) (hd : s.domain = exSrc.domain) : processConstraint
    ({ name := "c", lhs := .var "x", cmp := .le, rhs := .num (.fin 2), isAssert := false } : Constraint (Ext ℚ)) s
      = .ok ((), { s with rows := s.rows ++ [exRow2] }) := by
  unfold processConstraint dispatch
  simp only [bind_ok, get_ok]
  refine ⟨_, _, exAffine_sf "x" s, _, _, ex_sf_num s, ?_⟩
  simp only [Bool.false_eq_true, if_false, bind_ok, get_ok]
  refine ⟨s, s, rfl, ?_⟩
  have : tryNormalize s.domain (.var "x" : Exp (Ext ℚ)) .le (.num (.fin 2)) = none := by
    simp [tryNormalize, isLogicValue, isBoolVar, domainType, hd, exSrc]
  simp only [this]
  exact ex_emit s

theorem ex_drain (s : St (Ext ℚ)) (hs : s.queue = exSrc.constraints) (hd : s.domain = exSrc.domain) :
    drain drainFuel s = .ok ((), { s with queue := [], rows := s.rows ++ [exRow2] }) := by
  have h1 : drainFuel = 999998 + 1 + 1 := rfl
  rw [h1, drain_succ]
  simp only [bind_ok, get_ok]
  refine ⟨s, s, rfl, ?_⟩
  simp only [hs, exSrc, bind_ok, set_ok]
  refine ⟨_, _, rfl, _, _, ex_proc _ hd, ?_⟩
  rw [drain_succ]
  simp only [bind_ok, get_ok]
  exact ⟨_, _, rfl, by simp [pure_ok]⟩

theorem ex_lin (b : BoundsMap (Ext ℚ)) : linearizeWith exSrc b exSrc.domain = .ok exMax := by
  let s0 : St (Ext ℚ) := { queue := exSrc.constraints, domain := exSrc.domain, bounds := b }
  refine (linearizeWith_ok_iff _ _ _ _).mpr
    ⟨.var "x", s0, Ctx.fromVar "x" Arith.one, s0, _, exAffine_sf "x" _, ?_, ex_drain s0 rfl rfl, ?_⟩
  · simp [linExp, pure_ok]
  · simp [assemble, exMax, exSrc, s0, exRow2, dedupNames, sortStr, insertSortedDup, extractCoeffs, indexOf, indexOf.go, fromVar_eq]

theorem ex_norm_num : normalizeExp (.num (.fin 2) : Exp (Ext ℚ)) = some (.num (.fin 2)) := by
  simp [normalizeExp, flattenFuel, flattenF, simplify]

theorem ex_normalized : Compile.normalizedForBounds exSrc.constraints = some exSrc.constraints := by
  simp [Compile.normalizedForBounds, exSrc, exAbs_norm_var, ex_norm_num]

theorem ex_analyzer (tol : Ext ℚ) :
    (Analyzer.analyze exSrc.domain exSrc.constraints tol 0).enforceable exSrc.domain
    = { Analyzer.fromDomain exSrc.domain tol with reachedIterationLimit := true } := by
  have h1 : Analyzer.analyze exSrc.domain exSrc.constraints tol 0
      = { Analyzer.fromDomain exSrc.domain tol with reachedIterationLimit := true } := by
    simp [Analyzer.analyze, Analyzer.propagate, exSrc, Analyzer.propagateLoop, List.range, List.range.loop]
  rw [h1]
  simp [Analyzer.enforceable, Analyzer.emptyIntegerRange, Analyzer.roundIntegerRanges, Analyzer.roundStep,
    Analyzer.fromDomain, exSrc]

theorem exSrc_compile (tol : Ext ℚ) : Compile.linearize exSrc tol 0 = .ok exMax := by
  have hd : ({ Analyzer.fromDomain exSrc.domain tol with reachedIterationLimit := true } : Analyzer (Ext ℚ)).applyToDomain
      exSrc.domain = exSrc.domain := by
    simp [Analyzer.applyToDomain, Analyzer.applyToVar, Analyzer.fromDomain, exSrc, AList.insert, AList.get?,
      Bounds.ofVarType]
  refine (compile_ok_iff _ _ _ _).mpr
    ⟨scratchOK_of_fragCheck _ _ (by simp [fragCheck, exSrc, frag, fragList]),
     { Analyzer.fromDomain exSrc.domain tol with reachedIterationLimit := true }, ?_, ?_⟩
  · simp only [pipelineAnalyzer, ex_normalized, Option.map_some, ex_analyzer]
  · rw [hd]; exact ex_lin _

/-! ### the source-side hypotheses -/

theorem exSrc_frag : FragModel true exSrc exSrc.domain := by
  have sx : inScope exSrc.domain "x" :=
    ⟨{ name := "x", ty := .nnreal (.fin 0) .pinf, usage := 1 }, by simp [exSrc], rfl, by simp⟩
  refine ⟨FG_var.mpr sx, fun ρ => ⟨ρ "x", by simp [exSrc, eval]⟩, ?_⟩
  intro c hc
  simp only [exSrc, List.mem_singleton] at hc
  subst hc
  exact ⟨rfl, FG_var.mpr sx, FG_num _, fun ρ => ⟨ρ "x", 2, by simp [eval], by simp [eval]⟩⟩

theorem exSrc_declOK : DeclOK exSrc.domain := by
  refine ⟨by simp [exSrc], ?_, ?_, ?_, ?_⟩
  · intro d hd lo hi hty
    simp only [exSrc, List.mem_singleton] at hd
    subst hd; simp at hty
  · intro d hd
    simp only [exSrc, List.mem_singleton] at hd
    subst hd; simp [TyNoNaN]
  · intro d hd
    simp only [exSrc, List.mem_singleton] at hd
    subst hd; simp [LinP.NNOK, Ext.le]
  · intro d hd hu
    simp only [exSrc, List.mem_singleton] at hd
    subst hd; simp at hu

theorem exSrc_noInt : NoIntegerVars exSrc.domain := by
  intro d hd lo hi
  simp only [exSrc, List.mem_singleton] at hd
  subst hd; simp

end Rooc.ComposeSem
