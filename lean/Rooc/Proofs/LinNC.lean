/-
`simplify` preserves values exactly when no and/or node COLLAPSES to a single operand that is not 0/1-valued —
the precise condition behind C10's singleton-collapse finding (weaker than `LogicOperands01`, which asks every
and/or operand to be 0/1-valued).
`NC ρ e` : at every and/or node `n` of `e` (n-ary or binary), `simplify n`, when defined at `ρ`, is 0/1-valued.
It is closed under `normalize`, and `normalize` keeps the value under it.
-/
import Rooc.Proofs.LinD1

set_option linter.unusedSectionVars false
set_option linter.unusedSimpArgs false
set_option linter.unusedVariables false

namespace Rooc.LinP
open Rooc Rooc.Lin Rooc.Sem Rooc.Exp

variable {K : Type} [Field K] [LinearOrder K] [IsStrictOrderedRing K] [FloorRing K]

/-- what the node condition says: the simplified node is 0/1-valued where defined. -/
def CollapseOK (ρ : String → K) (n : Exp (Ext K)) : Prop := Is01 (eval ρ (simplify n))

mutual
/-- no and/or node collapses to a non-0/1 value at `ρ`. -/
def NC (ρ : String → K) : Exp (Ext K) → Prop
  | .num _ => True
  | .var _ => True
  | .abs e => NC ρ e
  | .not e => NC ρ e
  | .un _ e => NC ρ e
  | .min es => NCList ρ es
  | .max es => NCList ρ es
  | .and es => CollapseOK ρ (.and es) ∧ NCList ρ es
  | .or es => CollapseOK ρ (.or es) ∧ NCList ρ es
  | .xor a b => NC ρ a ∧ NC ρ b
  | .implies a b => NC ρ a ∧ NC ρ b
  | .iff a b => NC ρ a ∧ NC ρ b
  | .bin op a b => NC ρ a ∧ NC ρ b ∧ (op = .and ∨ op = .or → CollapseOK ρ (.bin op a b))
def NCList (ρ : String → K) : List (Exp (Ext K)) → Prop
  | [] => True
  | e :: es => NC ρ e ∧ NCList ρ es
end

theorem NCList_iff (ρ : String → K) (es : List (Exp (Ext K))) : NCList ρ es ↔ ∀ e ∈ es, NC ρ e := by
  induction es with
  | nil => simp [NCList]
  | cons e es ih => simp [NCList, ih]

theorem is01_ofBool (b : Bool) : Is01 (some (ofBool b : K)) := by
  intro v hv; cases hv; cases b <;> simp [ofBool]

/-- the n-ary step keeps the value as soon as ITS RESULT is 0/1-valued (only the singleton case needs it). -/
theorem naryCore_sound_weak {ρ : String → K} (isAnd : Bool) {cs : List (Exp (Ext K))}
    (hdef : ∀ c ∈ cs, Def ρ c) (h01 : Is01 (eval ρ (naryCore isAnd cs))) :
    eval ρ (naryCore isAnd cs) = some (ofBool (agg ρ isAnd cs)) := by
  have hF : ∀ x ∈ naryFlatten isAnd cs, Def ρ x := by
    intro x hx
    rcases mem_naryFlatten.1 hx with ⟨h1, _⟩ | ⟨inner, h1, h2⟩
    · exact hdef x h1
    · exact ((eval_nary_iff isAnd).1 (eval_of_Def (hdef _ h1))).1 x h2
  have hagg := agg_flatten isAnd hdef
  have hres : ∀ res, naryStep isAnd (naryFlatten isAnd cs) = some res →
      agg ρ isAnd res = agg ρ isAnd cs ∧ ∀ x ∈ res, Def ρ x := by
    intro res hs
    obtain ⟨h1, h2⟩ := naryStep_agg hF hs
    exact ⟨by rw [h1, hagg], fun x hx => hF x (h2 x hx)⟩
  rcases naryCore_cases isAnd cs with ⟨h1, h2⟩ | ⟨h1, h2⟩ | ⟨e, h1, h2⟩ | ⟨res, h1, hl, h2⟩
  · rw [h2, ← hagg, naryStep_none_agg hF h1]
    cases isAnd <;> simp [eval]
  · rw [h2, ← (hres _ h1).1, agg_nil]
    exact eval_logicNumber ρ isAnd
  · obtain ⟨hag, hel⟩ := hres _ h1
    have hd := hel e (by simp)
    rw [h2] at h01 ⊢
    have he := eval_of_Def hd
    rw [← hag, he]
    have : agg ρ isAnd [e] = tv ρ e := by cases isAnd <;> simp [agg]
    rw [this, tv, ofBool_truthy_of01 (h01 _ he)]
  · obtain ⟨hag, hel⟩ := hres _ h1
    rw [h2, ← hag]
    exact (eval_nary_iff isAnd).2 ⟨hel, rfl⟩

theorem agg_map_simplify {ρ : String → K} (isAnd : Bool) {es : List (Exp (Ext K))}
    (key : ∀ e ∈ es, eval ρ (simplify e) = eval ρ e) : agg ρ isAnd (es.map simplify) = agg ρ isAnd es :=
  agg_map_congr isAnd (fun e he => by unfold tv val; rw [key e he])

/-- **`simplify` keeps the value when no and/or node collapses to a non-0/1 value.** -/
theorem simplify_sound_nc (ρ : String → K) (e : Exp (Ext K)) :
    NC ρ e → ∀ v, eval ρ e = some v → eval ρ (simplify e) = some v := by
  induction e using Exp.ind with
  | num x => intro _ v hv; rw [simplify_num]; exact hv
  | var s => intro _ v hv; rw [simplify_var]; exact hv
  | abs e ih =>
    intro h v hv
    simp only [NC] at h
    simp only [eval, Option.map_eq_some_iff] at hv
    obtain ⟨a, ha, rfl⟩ := hv
    rw [simplify_abs]; exact eval_absCore (ih h a ha)
  | min es ih =>
    intro h v hv
    simp only [NC, NCList_iff] at h
    simp only [eval] at hv
    split at hv
    · rename_i x xs hx
      simp only [Option.some.injEq] at hv; subst hv
      have hne : es ≠ [] := by rintro rfl; simp [evalList] at hx
      rw [simplify_min, if_neg hne]
      exact eval_minCore (evalList_map_simplify (fun e he v hv => ih e he (h e he) v hv) hx)
    · cases hv
  | max es ih =>
    intro h v hv
    simp only [NC, NCList_iff] at h
    simp only [eval] at hv
    split at hv
    · rename_i x xs hx
      simp only [Option.some.injEq] at hv; subst hv
      have hne : es ≠ [] := by rintro rfl; simp [evalList] at hx
      rw [simplify_max, if_neg hne]
      exact eval_maxCore (evalList_map_simplify (fun e he v hv => ih e he (h e he) v hv) hx)
    · cases hv
  | and es ih =>
    intro h v hv
    simp only [NC, NCList_iff] at h
    obtain ⟨hd, rfl⟩ := eval_and_iff.1 hv
    have key : ∀ e ∈ es, eval ρ (simplify e) = eval ρ e := fun e he => by
      rw [ih e he (h.2 e he) _ (eval_of_Def (hd e he)), eval_of_Def (hd e he)]
    have h01 : Is01 (eval ρ (naryCore true (es.map simplify))) := by
      have := h.1; unfold CollapseOK at this; rwa [simplify_and] at this
    rw [simplify_and, naryCore_sound_weak true (fun x hx => by
      obtain ⟨e, he, rfl⟩ := List.mem_map.1 hx
      unfold Def; rw [key e he]; exact hd e he) h01, agg_map_simplify true key]
    simp [agg]
  | or es ih =>
    intro h v hv
    simp only [NC, NCList_iff] at h
    obtain ⟨hd, rfl⟩ := eval_or_iff.1 hv
    have key : ∀ e ∈ es, eval ρ (simplify e) = eval ρ e := fun e he => by
      rw [ih e he (h.2 e he) _ (eval_of_Def (hd e he)), eval_of_Def (hd e he)]
    have h01 : Is01 (eval ρ (naryCore false (es.map simplify))) := by
      have := h.1; unfold CollapseOK at this; rwa [simplify_or] at this
    rw [simplify_or, naryCore_sound_weak false (fun x hx => by
      obtain ⟨e, he, rfl⟩ := List.mem_map.1 hx
      unfold Def; rw [key e he]; exact hd e he) h01, agg_map_simplify false key]
    simp [agg]
  | not e ih =>
    intro h v hv
    simp only [NC] at h
    simp only [eval, Option.map_eq_some_iff] at hv
    obtain ⟨a, ha, rfl⟩ := hv
    rw [simplify_not]; exact eval_notCore (ih h a ha)
  | xor a b iha ihb =>
    intro h v hv
    simp only [NC] at h
    simp only [eval] at hv
    cases ha : eval ρ a <;> cases hb : eval ρ b <;> simp_all [binVal]
    subst hv
    rw [simplify_xor]
    exact eval_xorCore iha ihb
  | implies a b iha ihb =>
    intro h v hv
    simp only [NC] at h
    simp only [eval] at hv
    cases ha : eval ρ a <;> cases hb : eval ρ b <;> simp_all [binVal]
    subst hv
    rw [simplify_implies]
    exact eval_impliesCore iha ihb
  | iff a b iha ihb =>
    intro h v hv
    simp only [NC] at h
    simp only [eval] at hv
    cases ha : eval ρ a <;> cases hb : eval ρ b <;> simp_all [binVal]
    subst hv
    rw [simplify_iff]
    exact eval_iffCore iha ihb
  | bin op a b iha ihb =>
    intro h v hv
    simp only [NC] at h
    obtain ⟨x, y, hx, hy, hxy⟩ := eval_bin_some hv
    have h1 := iha h.1 x hx
    have h3 := ihb h.2.1 y hy
    have nary : ∀ isAnd : Bool, Is01 (eval ρ (naryCore isAnd [simplify a, simplify b])) →
        eval ρ (naryCore isAnd [simplify a, simplify b]) =
          some (ofBool (agg ρ isAnd [simplify a, simplify b])) := by
      intro isAnd h01
      apply naryCore_sound_weak isAnd _ h01
      intro c hc; simp at hc; rcases hc with rfl | rfl
      · exact Def_of_eval h1
      · exact Def_of_eval h3
    rw [simplify_bin]
    cases op with
    | add => simp only [binVal, Option.some.injEq] at hxy; subst hxy; exact eval_addCore h1 h3
    | sub => simp only [binVal, Option.some.injEq] at hxy; subst hxy; exact eval_subCore h1 h3
    | mul => simp only [binVal, Option.some.injEq] at hxy; subst hxy; exact eval_mulCore h1 h3
    | div =>
      simp only [binVal] at hxy
      split at hxy
      · cases hxy
      · rename_i hy0
        simp only [Option.some.injEq] at hxy; subst hxy
        exact eval_divCore h1 h3 (by simpa using hy0)
    | and =>
      simp only [binVal, Option.some.injEq] at hxy; subst hxy
      have h01 : Is01 (eval ρ (naryCore true [simplify a, simplify b])) := by
        have := h.2.2 (Or.inl rfl); unfold CollapseOK at this; rwa [simplify_bin] at this
      rw [binCore, nary true h01]
      simp [agg, tv, val_of_eval h1, val_of_eval h3]
    | or =>
      simp only [binVal, Option.some.injEq] at hxy; subst hxy
      have h01 : Is01 (eval ρ (naryCore false [simplify a, simplify b])) := by
        have := h.2.2 (Or.inr rfl); unfold CollapseOK at this; rwa [simplify_bin] at this
      rw [binCore, nary false h01]
      simp [agg, tv, val_of_eval h1, val_of_eval h3]
    | xor => simp only [binVal, Option.some.injEq] at hxy; subst hxy; exact eval_xorCore h1 h3
    | implies => simp only [binVal, Option.some.injEq] at hxy; subst hxy; exact eval_impliesCore h1 h3
    | iff => simp only [binVal, Option.some.injEq] at hxy; subst hxy; exact eval_iffCore h1 h3
  | un op e ih =>
    intro h v hv
    simp only [NC] at h
    cases op with
    | neg =>
      simp only [eval, Option.map_eq_some_iff] at hv
      obtain ⟨a, ha, rfl⟩ := hv
      rw [simplify_neg]; exact eval_negCore (ih h a ha)
    | not =>
      simp only [eval, Option.map_eq_some_iff] at hv
      obtain ⟨a, ha, rfl⟩ := hv
      rw [simplify_unot]; exact eval_notCore (ih h a ha)

/-! ### normal forms never collapse -/

theorem is01_eval_and (ρ : String → K) (es : List (Exp (Ext K))) : Is01 (eval ρ (.and es)) := by
  intro v hv; obtain ⟨_, rfl⟩ := eval_and_iff.1 hv; exact is01_ofBool _ _ rfl
theorem is01_eval_or (ρ : String → K) (es : List (Exp (Ext K))) : Is01 (eval ρ (.or es)) := by
  intro v hv; obtain ⟨_, rfl⟩ := eval_or_iff.1 hv; exact is01_ofBool _ _ rfl
theorem is01_eval_binAndOr (ρ : String → K) {op : BinOp} (a b : Exp (Ext K)) (h : op = .and ∨ op = .or) :
    Is01 (eval ρ (.bin op a b)) := by
  intro v hv
  obtain ⟨x, y, _, _, hxy⟩ := eval_bin_some hv
  rcases h with rfl | rfl <;> simp only [binVal, Option.some.injEq] at hxy <;> rw [← hxy] <;>
    exact is01_ofBool _ _ rfl

/-- a term in `simplify`-normal form has no collapsing node. -/
theorem NC_of_NF (ρ : String → K) : ∀ e : Exp (Ext K), NF e → NC ρ e := by
  intro e
  induction e using Exp.ind with
  | num v => intro _; simp [NC]
  | var s => intro _; simp [NC]
  | abs e ih => intro h; simp only [NF] at h; simpa [NC] using ih h.1
  | not e ih => intro h; simp only [NF] at h; simpa [NC] using ih h.1
  | un op e ih =>
    intro h
    cases op with
    | neg => simp only [NF] at h; simpa [NC] using ih h.1
    | not => simp [NF] at h
  | min es ih =>
    intro h
    simp only [NF] at h
    simp only [NC, NCList_iff]
    rcases h with rfl | ⟨h, _⟩
    · simp
    · exact fun e he => ih e he ((NFList_iff es).1 h e he)
  | max es ih =>
    intro h
    simp only [NF] at h
    simp only [NC, NCList_iff]
    rcases h with rfl | ⟨h, _⟩
    · simp
    · exact fun e he => ih e he ((NFList_iff es).1 h e he)
  | and es ih =>
    intro h
    have hs := simplify_of_NF _ h
    simp only [NF] at h
    simp only [NC, NCList_iff]
    refine ⟨?_, fun e he => ih e he ((NFList_iff es).1 h.1 e he)⟩
    unfold CollapseOK; rw [hs]; exact is01_eval_and ρ es
  | or es ih =>
    intro h
    have hs := simplify_of_NF _ h
    simp only [NF] at h
    simp only [NC, NCList_iff]
    refine ⟨?_, fun e he => ih e he ((NFList_iff es).1 h.1 e he)⟩
    unfold CollapseOK; rw [hs]; exact is01_eval_or ρ es
  | xor a b iha ihb => intro h; simp only [NF] at h; exact ⟨iha h.1, ihb h.2.1⟩
  | implies a b iha ihb => intro h; simp only [NF] at h; exact ⟨iha h.1, ihb h.2.1⟩
  | iff a b iha ihb => intro h; simp only [NF] at h; exact ⟨iha h.1, ihb h.2.1⟩
  | bin op a b iha ihb =>
    intro h
    have hs := simplify_of_NF _ h
    simp only [NF] at h
    refine ⟨iha h.1, ihb h.2.1, fun hop => ?_⟩
    unfold CollapseOK; rw [hs]; exact is01_eval_binAndOr ρ a b hop

/-! ### the binary nodes of a normal form are arithmetic -/

theorem naryCore_ne_bin (isAnd : Bool) (op : BinOp) (l r : Exp (Ext K)) :
    naryCore isAnd [l, r] ≠ .bin op l r := by
  intro h
  rcases naryCore_cases isAnd [l, r] with ⟨_, h2⟩ | ⟨_, h2⟩ | ⟨e, h1, h2⟩ | ⟨res, _, _, h2⟩
  · rw [h2] at h; cases h
  · rw [h2] at h; cases h
  · rw [h2] at h; subst h
    obtain ⟨q, hq, _, _⟩ := naryStep_some h1
    have hmem : Exp.bin op l r ∈ naryFlatten isAnd [l, r] := by
      have : Exp.bin op l r ∈ [Exp.bin op l r] := by simp
      rw [hq] at this; exact (List.mem_filter.mp this).1
    rcases mem_naryFlatten.1 hmem with ⟨h3, _⟩ | ⟨inner, h3, h4⟩
    · simp only [List.mem_cons, List.mem_nil_iff, or_false] at h3
      rcases h3 with h3 | h3
      · have := congrArg sizeOf h3; simp at this <;> omega
      · have := congrArg sizeOf h3; simp at this
    · have hlt := List.sizeOf_lt_of_mem h4
      simp only [List.mem_cons, List.mem_nil_iff, or_false] at h3
      have hs : sizeOf inner < sizeOf (mkNary isAnd inner) := by cases isAnd <;> simp [mkNary] <;> omega
      rcases h3 with h3 | h3
      · have := congrArg sizeOf h3
        have h5 : sizeOf (Exp.bin op l r) = 1 + sizeOf op + sizeOf l + sizeOf r := by simp
        omega
      · have := congrArg sizeOf h3
        have h5 : sizeOf (Exp.bin op l r) = 1 + sizeOf op + sizeOf l + sizeOf r := by simp
        omega
  · rw [h2] at h; cases isAnd <;> simp [mkNary] at h

theorem NF_bin_arith {op : BinOp} {l r : Exp (Ext K)} (h : NF (.bin op l r)) : isArithOp op = true := by
  simp only [NF] at h
  have hb := h.2.2
  cases op with
  | add => rfl
  | sub => rfl
  | mul => rfl
  | div => rfl
  | and => exact absurd hb (by simpa [binCore] using naryCore_ne_bin true .and l r)
  | or => exact absurd hb (by simpa [binCore] using naryCore_ne_bin false .or l r)
  | xor => simp only [binCore] at hb; unfold xorCore at hb; split at hb <;> cases hb
  | implies => simp only [binCore] at hb; unfold impliesCore at hb; split at hb <;> cases hb
  | iff => simp only [binCore] at hb; unfold iffCore at hb; split at hb <;> cases hb

/-- along the `+ - * /`, unary-minus spine every binary operator is arithmetic (what `flatten` walks). -/
def ArithSpine : Exp (Ext K) → Prop
  | .bin op a b => isArithOp op = true ∧ ArithSpine a ∧ ArithSpine b
  | .un .neg e => ArithSpine e
  | _ => True

theorem arithSpine_of_NF : ∀ e : Exp (Ext K), NF e → ArithSpine e := by
  intro e
  induction e using Exp.ind with
  | bin op a b iha ihb =>
    intro h
    have ha := NF_bin_arith h
    simp only [NF] at h
    exact ⟨ha, iha h.1, ihb h.2.1⟩
  | un op e ih =>
    intro h
    cases op with
    | neg => simp only [NF] at h; simpa [ArithSpine] using ih h.1
    | not => simp [ArithSpine]
  | _ => intro _; simp [ArithSpine]

/-- `flatten` keeps "no collapsing node" on terms whose spine is arithmetic (it never looks inside an and/or). -/
theorem NC_flatten {ρ : String → K} {n : Nat} {e e' : Exp (Ext K)} (h : NC ρ e) (hs : ArithSpine e)
    (hf : flattenF n e = some e') : NC ρ e' ∧ ArithSpine e' :=
  flattenF_pres (P := fun t => NC ρ t ∧ ArithSpine t) (R := fun op => isArithOp op = true)
    ⟨fun op a b => by
        simp only [NC, ArithSpine]
        constructor
        · rintro ⟨⟨h1, h2, _⟩, h4, h5, h6⟩; exact ⟨h4, ⟨h1, h5⟩, ⟨h2, h6⟩⟩
        · rintro ⟨h4, ⟨h1, h5⟩, ⟨h2, h6⟩⟩
          refine ⟨⟨h1, h2, ?_⟩, h4, h5, h6⟩
          rintro (rfl | rfl) <;> simp [isArithOp] at h4,
      fun e => by simp [NC, ArithSpine]⟩ n e e' ⟨h, hs⟩ hf

/-- **`normalize` under "no collapsing node"**: the value is kept and the condition holds again. -/
theorem normalize_eval_nc {e e' : Exp (Ext K)} (hn : normalizeExp e = some e') {ρ : String → K}
    (hnc : NC ρ e) {v : K} (hv : eval ρ e = some v) : eval ρ e' = some v ∧ NC ρ e' := by
  obtain ⟨fl, hf, rfl⟩ := normalizeExp_some hn
  have e1 := simplify_sound_nc ρ e hnc v hv
  have hNF := NF_simplify e
  obtain ⟨l2, _⟩ := NC_flatten (NC_of_NF ρ _ hNF) (arithSpine_of_NF _ hNF) hf
  have e2 : eval ρ fl = some v := by rw [Rooc.flattenF_eval ρ _ _ _ hf]; exact e1
  exact ⟨simplify_sound_nc ρ fl l2 v e2, NC_of_NF ρ _ (NF_simplify fl)⟩

/-- arithmetic-only expressions have no and/or node. -/
theorem NC_of_arithOnly (ρ : String → K) : ∀ e : Exp (Ext K), arithOnly e = true → NC ρ e := by
  intro e
  induction e using Exp.indL with
  | num v => intro _; simp [NC]
  | var x => intro _; simp [NC]
  | bin op a b iha ihb =>
    intro h
    simp only [arithOnly, Bool.and_eq_true] at h
    obtain ⟨⟨ho, ha⟩, hb⟩ := h
    refine ⟨iha ha, ihb hb, ?_⟩
    rintro (rfl | rfl) <;> simp [isArithOp] at ho
  | un op e ih =>
    intro h
    cases op with
    | not => simp [arithOnly] at h
    | neg => simp only [arithOnly] at h; simpa [NC] using ih h
  | _ => intro h; simp [arithOnly] at h

end Rooc.LinP
