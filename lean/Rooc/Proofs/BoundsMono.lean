/-
C07 — isotonicity of the forward interval arithmetic: a tighter variable box gives a tighter `bounds_of` for every
expression with finite literals.  (The non-monotonicity of the whole analysis in the constraint list —
`monotonicity_counterexample_*` — comes from the freeze, the step limit and the tolerance gates, not from here.)
-/
import Rooc.Proofs.BoundsProper
set_option linter.unusedTactic false
set_option linter.unreachableTactic false
set_option linter.unnecessarySeqFocus false
set_option linter.unusedSimpArgs false
set_option linter.unusedVariables false
set_option linter.unusedSectionVars false
namespace Rooc
namespace BoundsProofs
open BoundsSem Arith Sem

variable {K : Type} [Field K] [LinearOrder K] [IsStrictOrderedRing K] [FloorRing K]

/-- end-point-wise inclusion `a ⊆ b` (IEEE comparisons: no end point involved is NaN). -/
def Sub (a b : Bounds (Ext K)) : Prop := Ext.le b.lower a.lower = true ∧ Ext.le a.upper b.upper = true

theorem sub_refl {a : Bounds (Ext K)} (h : NoNaN a) : Sub a a := by
  obtain ⟨lo, hi⟩ := a
  cases lo <;> cases hi <;> simp_all [Sub, NoNaN, Ext.le, Ext.isNaN]

theorem le_lowerSum {a b c d : Ext K} (h1 : Ext.le a c = true) (h2 : Ext.le b d = true) :
    Ext.le (Bounds.lowerSum a b) (Bounds.lowerSum c d) = true := by
  cases a <;> cases b <;> cases c <;> cases d <;> simp_all [Bounds.lowerSum, Ext.add, Ext.isNaN, Ext.le] <;> linarith
theorem le_upperSum {a b c d : Ext K} (h1 : Ext.le a c = true) (h2 : Ext.le b d = true) :
    Ext.le (Bounds.upperSum a b) (Bounds.upperSum c d) = true := by
  cases a <;> cases b <;> cases c <;> cases d <;> simp_all [Bounds.upperSum, Ext.add, Ext.isNaN, Ext.le] <;> linarith
theorem le_neg {a b : Ext K} (h : Ext.le a b = true) : Ext.le (Ext.neg b) (Ext.neg a) = true := by
  cases a <;> cases b <;> simp_all [Ext.neg, Ext.le]

theorem sub_add {a a' b b' : Bounds (Ext K)} (ha : Sub a a') (hb : Sub b b') : Sub (a.add b) (a'.add b') :=
  ⟨le_lowerSum ha.1 hb.1, le_upperSum ha.2 hb.2⟩
theorem sub_neg {a a' : Bounds (Ext K)} (ha : Sub a a') : Sub a.neg a'.neg := ⟨le_neg ha.2, le_neg ha.1⟩
theorem sub_sub {a a' b b' : Bounds (Ext K)} (ha : Sub a a') (hb : Sub b b') : Sub (a.sub b) (a'.sub b') :=
  sub_add ha (sub_neg hb)

theorem le_mul_pos {a b : Ext K} {c : K} (hc : 0 < c) (h : Ext.le a b = true) :
    Ext.le (Ext.mul a (.fin c)) (Ext.mul b (.fin c)) = true := by
  cases a <;> cases b <;> simp_all [Ext.mul, Ext.sign, Ext.ofSign, sgn_pos hc, Ext.le]
theorem le_mul_neg {a b : Ext K} {c : K} (hc : c < 0) (h : Ext.le a b = true) :
    Ext.le (Ext.mul b (.fin c)) (Ext.mul a (.fin c)) = true := by
  cases a <;> cases b <;> simp_all [Ext.mul, Ext.sign, Ext.ofSign, sgn_neg hc, Ext.le]
theorem le_div_pos {a b : Ext K} {c : K} (hc : 0 < c) (h : Ext.le a b = true) :
    Ext.le (Ext.div a (.fin c)) (Ext.div b (.fin c)) = true := by
  have : c ≠ 0 := ne_of_gt hc
  cases a <;> cases b <;> simp_all [Ext.div, Ext.sign, Ext.ofSign, sgn_pos hc, Ext.le]
  exact div_le_div_of_nonneg_right h (le_of_lt hc)
theorem le_div_neg {a b : Ext K} {c : K} (hc : c < 0) (h : Ext.le a b = true) :
    Ext.le (Ext.div b (.fin c)) (Ext.div a (.fin c)) = true := by
  have : c ≠ 0 := ne_of_lt hc
  cases a <;> cases b <;> simp_all [Ext.div, Ext.sign, Ext.ofSign, sgn_neg hc, Ext.le]
  exact div_le_div_of_nonpos_of_le (le_of_lt hc) h

theorem sub_scale {a a' : Bounds (Ext K)} (c : K) (h : Sub a a') : Sub (a.scale (.fin c)) (a'.scale (.fin c)) := by
  rcases lt_trichotomy c 0 with hc | hc | hc
  · have h0 : ¬ (0 < c) := not_lt.2 (le_of_lt hc)
    simp only [Bounds.scale, a_eq, a_zero, Ext.eq, ef_eq, ne_of_lt hc, decide_false, a_gt, Ext.lt, ef_lt, h0,
      a_mul, Bool.false_eq_true, if_false]
    exact ⟨le_mul_neg hc h.2, le_mul_neg hc h.1⟩
  · subst hc; simp [Bounds.scale, Ext.eq, Sub, Bounds.singleton, Ext.le]
  · simp only [Bounds.scale, a_eq, a_zero, Ext.eq, ef_eq, ne_of_gt hc, decide_false, a_gt, Ext.lt, ef_lt, hc,
      a_mul, Bool.false_eq_true, if_false, decide_true, if_true]
    exact ⟨le_mul_pos hc h.1, le_mul_pos hc h.2⟩

theorem sub_divBy {a a' : Bounds (Ext K)} (d : K) (h : Sub a a') : Sub (a.divBy (.fin d)) (a'.divBy (.fin d)) := by
  rcases lt_trichotomy d 0 with hc | hc | hc
  · have h0 : ¬ (0 < d) := not_lt.2 (le_of_lt hc)
    simp only [Bounds.divBy, a_eq, a_zero, Ext.eq, ef_eq, ne_of_lt hc, decide_false, a_gt, Ext.lt, ef_lt, h0,
      a_div, Bool.false_eq_true, if_false]
    exact ⟨le_div_neg hc h.2, le_div_neg hc h.1⟩
  · subst hc; simp [Bounds.divBy, Ext.eq, Sub, Bounds.unbounded, Ext.le]
  · simp only [Bounds.divBy, a_eq, a_zero, Ext.eq, ef_eq, ne_of_gt hc, decide_false, a_gt, Ext.lt, ef_lt, hc,
      a_div, Bool.false_eq_true, if_false, decide_true, if_true]
    exact ⟨le_div_pos hc h.1, le_div_pos hc h.2⟩

theorem ext_le_trans {a b c : Ext K} (h1 : Ext.le a b = true) (h2 : Ext.le b c = true) : Ext.le a c = true := by
  cases a <;> cases b <;> cases c <;> simp_all [Ext.le] <;> linarith
theorem ext_le_self_of {a b : Ext K} (h : Ext.le a b = true) : Ext.le a a = true ∧ Ext.le b b = true := by
  cases a <;> cases b <;> simp_all [Ext.le]

theorem fmin_le_left {a b : Ext K} (ha : Ext.le a a = true) (hb : Ext.le b b = true) : Ext.le (Ext.fmin a b) a = true := by
  cases a <;> cases b <;> simp_all [Ext.fmin, Ext.isNaN, Ext.lt, Ext.le] <;> split_ifs <;> simp_all [Ext.le] <;> (try linarith)
theorem fmin_le_right {a b : Ext K} (ha : Ext.le a a = true) (hb : Ext.le b b = true) : Ext.le (Ext.fmin a b) b = true := by
  cases a <;> cases b <;> simp_all [Ext.fmin, Ext.isNaN, Ext.lt, Ext.le] <;> split_ifs <;> simp_all [Ext.le] <;> (try linarith)
theorem le_fmin_of {x c d : Ext K} (h1 : Ext.le x c = true) (h2 : Ext.le x d = true) : Ext.le x (Ext.fmin c d) = true := by
  cases x <;> cases c <;> cases d <;> simp_all [Ext.fmin, Ext.isNaN, Ext.lt, Ext.le] <;> split_ifs <;> simp_all [Ext.le] <;> (try linarith)
theorem le_fmax_left {a b : Ext K} (ha : Ext.le a a = true) (hb : Ext.le b b = true) : Ext.le a (Ext.fmax a b) = true := by
  cases a <;> cases b <;> simp_all [Ext.fmax, Ext.isNaN, Ext.lt, Ext.le] <;> split_ifs <;> simp_all [Ext.le] <;> (try linarith)
theorem le_fmax_right {a b : Ext K} (ha : Ext.le a a = true) (hb : Ext.le b b = true) : Ext.le b (Ext.fmax a b) = true := by
  cases a <;> cases b <;> simp_all [Ext.fmax, Ext.isNaN, Ext.lt, Ext.le] <;> split_ifs <;> simp_all [Ext.le] <;> (try linarith)
theorem fmax_le_of {x c d : Ext K} (h1 : Ext.le c x = true) (h2 : Ext.le d x = true) : Ext.le (Ext.fmax c d) x = true := by
  cases x <;> cases c <;> cases d <;> simp_all [Ext.fmax, Ext.isNaN, Ext.lt, Ext.le] <;> split_ifs <;> simp_all [Ext.le] <;> (try linarith)

theorem le_fmin {a b c d : Ext K} (h1 : Ext.le a c = true) (h2 : Ext.le b d = true) :
    Ext.le (Ext.fmin a b) (Ext.fmin c d) = true :=
  le_fmin_of (ext_le_trans (fmin_le_left (ext_le_self_of h1).1 (ext_le_self_of h2).1) h1)
    (ext_le_trans (fmin_le_right (ext_le_self_of h1).1 (ext_le_self_of h2).1) h2)
theorem le_fmax {a b c d : Ext K} (h1 : Ext.le a c = true) (h2 : Ext.le b d = true) :
    Ext.le (Ext.fmax a b) (Ext.fmax c d) = true :=
  fmax_le_of (ext_le_trans h1 (le_fmax_left (ext_le_self_of h1).2 (ext_le_self_of h2).2))
    (ext_le_trans h2 (le_fmax_right (ext_le_self_of h1).2 (ext_le_self_of h2).2))

theorem sub_minStep {a a' b b' : Bounds (Ext K)} (ha : Sub a a') (hb : Sub b b') :
    Sub (Bounds.minStep a b) (Bounds.minStep a' b') := ⟨le_fmin ha.1 hb.1, le_fmin ha.2 hb.2⟩
theorem sub_maxStep {a a' b b' : Bounds (Ext K)} (ha : Sub a a') (hb : Sub b b') :
    Sub (Bounds.maxStep a b) (Bounds.maxStep a' b') := ⟨le_fmax ha.1 hb.1, le_fmax ha.2 hb.2⟩

/-! ### ordered intervals are kept by the forward operations -/
def Ord (a : Bounds (Ext K)) : Prop := Ext.le a.lower a.upper = true

theorem ord_of_sub {a a' : Bounds (Ext K)} (h : Sub a a') (ha : Ord a) : Ord a' :=
  ext_le_trans (ext_le_trans h.1 ha) h.2
theorem ord_singleton (x : K) : Ord (Bounds.singleton (.fin x) : Bounds (Ext K)) := by simp [Ord, Bounds.singleton, Ext.le]
theorem ord_unbounded : Ord (Bounds.unbounded : Bounds (Ext K)) := by simp [Ord, Bounds.unbounded, Ext.le]
theorem ord_zeroOne : Ord (Bounds.zeroOne : Bounds (Ext K)) := by simp [Ord, Bounds.zeroOne, Ext.le]
theorem ord_add {a b : Bounds (Ext K)} (ha : Ord a) (hb : Ord b) : Ord (a.add b) := by
  obtain ⟨al, au⟩ := a; obtain ⟨bl, bu⟩ := b
  simp only [Ord, Bounds.add] at *
  cases al <;> cases au <;> cases bl <;> cases bu <;>
    simp_all [Bounds.lowerSum, Bounds.upperSum, Ext.add, Ext.isNaN, Ext.le] <;> linarith
theorem ord_neg {a : Bounds (Ext K)} (ha : Ord a) : Ord a.neg := le_neg ha
theorem ord_sub {a b : Bounds (Ext K)} (ha : Ord a) (hb : Ord b) : Ord (a.sub b) := ord_add ha (ord_neg hb)
theorem ord_scale {a : Bounds (Ext K)} (c : K) (ha : Ord a) : Ord (a.scale (.fin c)) := by
  rcases lt_trichotomy c 0 with hc | hc | hc
  · have h0 : ¬ (0 < c) := not_lt.2 (le_of_lt hc)
    simp only [Ord, Bounds.scale, a_eq, a_zero, Ext.eq, ef_eq, ne_of_lt hc, decide_false, a_gt, Ext.lt, ef_lt, h0,
      a_mul, Bool.false_eq_true, if_false]
    exact le_mul_neg hc ha
  · subst hc; simp [Ord, Bounds.scale, Ext.eq, Bounds.singleton, Ext.le]
  · simp only [Ord, Bounds.scale, a_eq, a_zero, Ext.eq, ef_eq, ne_of_gt hc, decide_false, a_gt, Ext.lt, ef_lt, hc,
      a_mul, Bool.false_eq_true, if_false, decide_true, if_true]
    exact le_mul_pos hc ha
theorem ord_divBy {a : Bounds (Ext K)} (d : K) (ha : Ord a) : Ord (a.divBy (.fin d)) := by
  rcases lt_trichotomy d 0 with hc | hc | hc
  · have h0 : ¬ (0 < d) := not_lt.2 (le_of_lt hc)
    simp only [Ord, Bounds.divBy, a_eq, a_zero, Ext.eq, ef_eq, ne_of_lt hc, decide_false, a_gt, Ext.lt, ef_lt, h0,
      a_div, Bool.false_eq_true, if_false]
    exact le_div_neg hc ha
  · subst hc; simp [Ord, Bounds.divBy, Ext.eq, Bounds.unbounded, Ext.le]
  · simp only [Ord, Bounds.divBy, a_eq, a_zero, Ext.eq, ef_eq, ne_of_gt hc, decide_false, a_gt, Ext.lt, ef_lt, hc,
      a_div, Bool.false_eq_true, if_false, decide_true, if_true]
    exact le_div_pos hc ha
theorem ord_minStep {a b : Bounds (Ext K)} (ha : Ord a) (hb : Ord b) : Ord (Bounds.minStep a b) := le_fmin ha hb
theorem ord_maxStep {a b : Bounds (Ext K)} (ha : Ord a) (hb : Ord b) : Ord (Bounds.maxStep a b) := le_fmax ha hb

theorem sub_abs {a a' : Bounds (Ext K)} (h : Sub a a') (ha : Ord a) : Sub a.abs a'.abs := by
  obtain ⟨lo, hi⟩ := a
  obtain ⟨lo', hi'⟩ := a'
  obtain ⟨h1, h2⟩ := h
  simp only [Ord] at ha
  simp only [Sub, Bounds.abs, Bounds.neg, a_ge, a_le, a_zero, a_neg, a_fmax] at *
  cases lo <;> cases hi <;> simp [Ext.le] at ha <;>
    cases lo' <;> simp [Ext.le] at h1 <;>
    cases hi' <;> simp [Ext.le] at h2 <;>
    simp [Ext.le, Ext.neg, Ext.fmax, Ext.isNaN, Ext.lt] <;>
    split_ifs <;> simp_all [Ext.le, Ext.neg] <;> (try constructor) <;> (try linarith)

theorem ord_abs {a : Bounds (Ext K)} (ha : Ord a) : Ord a.abs := by
  obtain ⟨lo, hi⟩ := a
  simp only [Ord, Bounds.abs, Bounds.neg, a_ge, a_le, a_zero, a_neg, a_fmax] at *
  cases lo <;> cases hi <;> simp [Ext.le] at ha <;>
    simp [Ext.le, Ext.neg, Ext.fmax, Ext.isNaN, Ext.lt] <;>
    split_ifs <;> simp_all [Ext.le, Ext.neg] <;> (try linarith)

/-! ### `bounds_of` -/
section
variable (vb vb' : List (String × Bounds (Ext K)))

theorem fold_ord (step : Bounds (Ext K) → Bounds (Ext K) → Bounds (Ext K))
    (hstep : ∀ a b, Ord a → Ord b → Ord (step a b)) :
    ∀ (es : List (Exp (Ext K))), (∀ e ∈ es, Ord (Analyzer.boundsOf vb e)) →
    ∀ acc, Ord acc → Ord ((Analyzer.boundsOfList vb es).foldl step acc)
  | [], _, acc, h => by simpa [Analyzer.boundsOfList] using h
  | e :: es, ih, acc, h => by
    simp only [Analyzer.boundsOfList, List.foldl_cons]
    exact fold_ord step hstep es (fun e' he' => ih e' (List.mem_cons_of_mem _ he')) _
      (hstep _ _ h (ih e (List.mem_cons_self ..)))

theorem boundsOf_ord (hbox : ∀ name, Ord (Analyzer.varBounds vb name)) :
    ∀ e : Exp (Ext K), finiteLits e = true → Ord (Analyzer.boundsOf vb e) := by
  intro e
  induction e using expInd with
  | num x => intro h; cases x <;> simp_all [finiteLits, finiteLit, Analyzer.boundsOf, Bounds.singleton, Ord, Ext.le]
  | var s => intro _; simpa [Analyzer.boundsOf] using hbox s
  | abs e ih => intro h; simp only [finiteLits] at h; simpa [Analyzer.boundsOf] using ord_abs (ih h)
  | min es ih =>
    intro h; simp only [finiteLits] at h
    have hm := finiteLitsList_mem es h
    cases es with
    | nil => simpa [Analyzer.boundsOf, Analyzer.boundsOfList] using ord_unbounded
    | cons e es =>
      simp only [Analyzer.boundsOf, Analyzer.boundsOfList]
      exact fold_ord vb _ (fun _ _ => ord_minStep) es
        (fun e' he' => ih e' (List.mem_cons_of_mem _ he') (hm e' (List.mem_cons_of_mem _ he'))) _
        (ih e (List.mem_cons_self ..) (hm e (List.mem_cons_self ..)))
  | max es ih =>
    intro h; simp only [finiteLits] at h
    have hm := finiteLitsList_mem es h
    cases es with
    | nil => simpa [Analyzer.boundsOf, Analyzer.boundsOfList] using ord_unbounded
    | cons e es =>
      simp only [Analyzer.boundsOf, Analyzer.boundsOfList]
      exact fold_ord vb _ (fun _ _ => ord_maxStep) es
        (fun e' he' => ih e' (List.mem_cons_of_mem _ he') (hm e' (List.mem_cons_of_mem _ he'))) _
        (ih e (List.mem_cons_self ..) (hm e (List.mem_cons_self ..)))
  | and es _ => intro _; simpa [Analyzer.boundsOf] using ord_zeroOne
  | or es _ => intro _; simpa [Analyzer.boundsOf] using ord_zeroOne
  | not e _ => intro _; simpa [Analyzer.boundsOf] using ord_zeroOne
  | xor a b _ _ => intro _; simpa [Analyzer.boundsOf] using ord_zeroOne
  | implies a b _ _ => intro _; simpa [Analyzer.boundsOf] using ord_zeroOne
  | iff a b _ _ => intro _; simpa [Analyzer.boundsOf] using ord_zeroOne
  | bin op a b iha ihb =>
    intro h
    simp only [finiteLits, Bool.and_eq_true] at h
    cases op
    · simpa [Analyzer.boundsOf] using ord_add (iha h.1) (ihb h.2)
    · simpa [Analyzer.boundsOf] using ord_sub (iha h.1) (ihb h.2)
    · simp only [Analyzer.boundsOf]
      cases ha : a.asNum with
      | some c =>
        have := asNum_eq ha; subst this
        have hb := ihb h.2
        cases c <;> simp_all [finiteLits, finiteLit]
        exact ord_scale _ hb
      | none =>
        cases hb : b.asNum with
        | some c =>
          have := asNum_eq hb; subst this
          have ha' := iha h.1
          cases c <;> simp_all [finiteLits, finiteLit]
          exact ord_scale _ ha'
        | none => exact ord_unbounded
    · simp only [Analyzer.boundsOf]
      cases hb : b.asNum with
      | some c =>
        have := asNum_eq hb; subst this
        have ha' := iha h.1
        cases c <;> simp_all [finiteLits, finiteLit]
        split
        · exact ord_divBy _ ha'
        · exact ord_unbounded
      | none => exact ord_unbounded
    all_goals simpa [Analyzer.boundsOf] using ord_zeroOne
  | un op e ih =>
    intro h; simp only [finiteLits] at h
    cases op
    · simpa [Analyzer.boundsOf] using ord_neg (ih h)
    · simpa [Analyzer.boundsOf] using ord_zeroOne

theorem sub_self_of_ord {a : Bounds (Ext K)} (h : Ord a) : Sub a a := by
  obtain ⟨lo, hi⟩ := a
  cases lo <;> cases hi <;> simp_all [Sub, Ord, Ext.le]

theorem fold_sub (step : Bounds (Ext K) → Bounds (Ext K) → Bounds (Ext K))
    (hstep : ∀ a a' b b', Sub a a' → Sub b b' → Sub (step a b) (step a' b')) :
    ∀ (es : List (Exp (Ext K))), (∀ e ∈ es, Sub (Analyzer.boundsOf vb e) (Analyzer.boundsOf vb' e)) →
    ∀ acc acc', Sub acc acc' →
      Sub ((Analyzer.boundsOfList vb es).foldl step acc) ((Analyzer.boundsOfList vb' es).foldl step acc')
  | [], _, acc, acc', h => by simpa [Analyzer.boundsOfList] using h
  | e :: es, ih, acc, acc', h => by
    simp only [Analyzer.boundsOfList, List.foldl_cons]
    exact fold_sub step hstep es (fun e' he' => ih e' (List.mem_cons_of_mem _ he')) _ _
      (hstep _ _ _ _ h (ih e (List.mem_cons_self ..)))

/-- a tighter (ordered) box gives a tighter `bounds_of`, for every expression with finite literals. -/
theorem boundsOf_mono (hsub : ∀ name, Sub (Analyzer.varBounds vb name) (Analyzer.varBounds vb' name))
    (hord : ∀ name, Ord (Analyzer.varBounds vb name)) :
    ∀ e : Exp (Ext K), finiteLits e = true → Sub (Analyzer.boundsOf vb e) (Analyzer.boundsOf vb' e) := by
  intro e
  induction e using expInd with
  | num x =>
    intro h; cases x <;> simp_all [finiteLits, finiteLit, Analyzer.boundsOf, Bounds.singleton, Sub, Ext.le]
  | var s => intro _; simpa [Analyzer.boundsOf] using hsub s
  | abs e ih =>
    intro h; simp only [finiteLits] at h
    simpa [Analyzer.boundsOf] using sub_abs (ih h) (boundsOf_ord vb hord e h)
  | min es ih =>
    intro h; simp only [finiteLits] at h
    have hm := finiteLitsList_mem es h
    cases es with
    | nil => simpa [Analyzer.boundsOf, Analyzer.boundsOfList] using sub_self_of_ord ord_unbounded
    | cons e es =>
      simp only [Analyzer.boundsOf, Analyzer.boundsOfList]
      exact fold_sub vb vb' _ (fun _ _ _ _ => sub_minStep) es
        (fun e' he' => ih e' (List.mem_cons_of_mem _ he') (hm e' (List.mem_cons_of_mem _ he'))) _ _
        (ih e (List.mem_cons_self ..) (hm e (List.mem_cons_self ..)))
  | max es ih =>
    intro h; simp only [finiteLits] at h
    have hm := finiteLitsList_mem es h
    cases es with
    | nil => simpa [Analyzer.boundsOf, Analyzer.boundsOfList] using sub_self_of_ord ord_unbounded
    | cons e es =>
      simp only [Analyzer.boundsOf, Analyzer.boundsOfList]
      exact fold_sub vb vb' _ (fun _ _ _ _ => sub_maxStep) es
        (fun e' he' => ih e' (List.mem_cons_of_mem _ he') (hm e' (List.mem_cons_of_mem _ he'))) _ _
        (ih e (List.mem_cons_self ..) (hm e (List.mem_cons_self ..)))
  | and es _ => intro _; simpa [Analyzer.boundsOf] using sub_self_of_ord ord_zeroOne
  | or es _ => intro _; simpa [Analyzer.boundsOf] using sub_self_of_ord ord_zeroOne
  | not e _ => intro _; simpa [Analyzer.boundsOf] using sub_self_of_ord ord_zeroOne
  | xor a b _ _ => intro _; simpa [Analyzer.boundsOf] using sub_self_of_ord ord_zeroOne
  | implies a b _ _ => intro _; simpa [Analyzer.boundsOf] using sub_self_of_ord ord_zeroOne
  | iff a b _ _ => intro _; simpa [Analyzer.boundsOf] using sub_self_of_ord ord_zeroOne
  | bin op a b iha ihb =>
    intro h
    simp only [finiteLits, Bool.and_eq_true] at h
    cases op
    · simpa [Analyzer.boundsOf] using sub_add (iha h.1) (ihb h.2)
    · simpa [Analyzer.boundsOf] using sub_sub (iha h.1) (ihb h.2)
    · simp only [Analyzer.boundsOf]
      cases ha : a.asNum with
      | some c =>
        have := asNum_eq ha; subst this
        have hb := ihb h.2
        cases c <;> simp_all [finiteLits, finiteLit]
        exact sub_scale _ hb
      | none =>
        cases hb : b.asNum with
        | some c =>
          have := asNum_eq hb; subst this
          have ha' := iha h.1
          cases c <;> simp_all [finiteLits, finiteLit]
          exact sub_scale _ ha'
        | none => exact sub_self_of_ord ord_unbounded
    · simp only [Analyzer.boundsOf]
      cases hb : b.asNum with
      | some c =>
        have := asNum_eq hb; subst this
        have ha' := iha h.1
        cases c <;> simp_all [finiteLits, finiteLit]
        split
        · exact sub_divBy _ ha'
        · exact sub_self_of_ord ord_unbounded
      | none => exact sub_self_of_ord ord_unbounded
    all_goals simpa [Analyzer.boundsOf] using sub_self_of_ord ord_zeroOne
  | un op e ih =>
    intro h; simp only [finiteLits] at h
    cases op
    · simpa [Analyzer.boundsOf] using sub_neg (ih h)
    · simpa [Analyzer.boundsOf] using sub_self_of_ord ord_zeroOne
end

end BoundsProofs
end Rooc
